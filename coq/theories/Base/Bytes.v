(* Bytes: program text, JSON text and jqawk strings are lists of bytes (N < 256). *)
From Coq Require Export Ascii String.
From Coq Require Export NArith ZArith Bool List.
Export ListNotations.

Open Scope N_scope.

Definition byte := N.
Definition bytes := list N.

(* Gallina string literal -> bytes, so that the model can name keywords. *)
Fixpoint bs (s : string) : bytes :=
  match s with
  | EmptyString => []
  | String a r => N_of_ascii a :: bs r
  end.

Arguments bs s%string.

Fixpoint bytes_eqb (a b : bytes) : bool :=
  match a, b with
  | [], [] => true
  | x :: a', y :: b' => N.eqb x y && bytes_eqb a' b'
  | _, _ => false
  end.

(* Go strings.Compare / < on strings: bytewise lexicographic. *)
Fixpoint bytes_cmp (a b : bytes) : comparison :=
  match a, b with
  | [], [] => Eq
  | [], _ :: _ => Lt
  | _ :: _, [] => Gt
  | x :: a', y :: b' =>
      match N.compare x y with
      | Eq => bytes_cmp a' b'
      | c => c
      end
  end.

Definition bytes_ltb (a b : bytes) : bool :=
  match bytes_cmp a b with Lt => true | _ => false end.

Fixpoint is_prefix (p s : bytes) : bool :=
  match p, s with
  | [], _ => true
  | x :: p', y :: s' => N.eqb x y && is_prefix p' s'
  | _ :: _, [] => false
  end.

Fixpoint repeat_byte (b : byte) (n : nat) : bytes :=
  match n with O => [] | S k => b :: repeat_byte b k end.

(* s[i:j] style slicing *)
Definition slice (s : bytes) (pos len : nat) : bytes := firstn len (skipn pos s).

Definition nth_byte (s : bytes) (i : nat) : option byte := nth_error s i.

(* ASCII classes used all over *)
Definition is_ascii_digit (c : byte) : bool := (48 <=? c) && (c <=? 57).
Definition is_ascii_upper (c : byte) : bool := (65 <=? c) && (c <=? 90).
Definition is_ascii_lower (c : byte) : bool := (97 <=? c) && (c <=? 122).

(* unicode.IsLetter(rune(b)) / unicode.IsDigit(rune(b)) on a single byte: Latin-1 table.
   Letters: A-Z a-z U+00AA U+00B5 U+00BA U+00C0-U+00D6 U+00D8-U+00F6 U+00F8-U+00FF. *)
Definition latin1_is_letter (c : byte) : bool :=
  is_ascii_upper c || is_ascii_lower c
  || (c =? 170) || (c =? 181) || (c =? 186)
  || ((192 <=? c) && (c <=? 214))
  || ((216 <=? c) && (c <=? 246))
  || ((248 <=? c) && (c <=? 255)).
Definition latin1_is_digit (c : byte) : bool := is_ascii_digit c.

(* decimal rendering of a natural / integer, used for counters and tests *)
Fixpoint dec_digits_fuel (fuel : nat) (n : N) (acc : bytes) : bytes :=
  match fuel with
  | O => acc
  | S f =>
      let d := 48 + (n mod 10) in
      let q := n / 10 in
      if q =? 0 then d :: acc else dec_digits_fuel f q (d :: acc)
  end.
Definition dec_of_N (n : N) : bytes := dec_digits_fuel (S (N.to_nat (N.log2 n))) n [].
Definition dec_of_Z (z : Z) : bytes :=
  match z with
  | Z0 => [48]
  | Zpos p => dec_of_N (Npos p)
  | Zneg p => 45 :: dec_of_N (Npos p)
  end.

Lemma bytes_eqb_refl : forall a, bytes_eqb a a = true.
Proof. induction a as [|x a IH]; simpl; [reflexivity|]. now rewrite N.eqb_refl, IH. Qed.

Lemma bytes_eqb_eq : forall a b, bytes_eqb a b = true <-> a = b.
Proof.
  induction a as [|x a IH]; destruct b as [|y b]; simpl; split; intro H;
    try reflexivity; try discriminate.
  - apply andb_true_iff in H. destruct H as [H1 H2].
    apply N.eqb_eq in H1. apply IH in H2. now subst.
  - inversion H; subst. now rewrite N.eqb_refl, bytes_eqb_refl.
Qed.
