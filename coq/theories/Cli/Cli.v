(* The command line: mirror of cli.Run in cli/cli.go for the flags in scope
   (-f FILE, -r EXPR (repeatable), -o FILE|-, positional program and input files).
   -dbg-ast, -dbg-lex, -profile, -version, -h/-help are outside the model (CliUnsupported). *)
From JQ Require Import Base.Bytes Syntax.Token Syntax.Lexer.
From JQ Require Import Json.JValue Json.Decode.
From JQ Require Import Sem.Value Sem.Driver.
Open Scope nat_scope.

(* the part of the world the CLI looks at *)
Record world := mkWorld {
  w_files : list (bytes * bytes);     (* readable files: path -> contents *)
  w_stdin : bytes;
  w_stdin_tty : bool;                  (* isatty(stdin) *)
  w_writable : bytes -> bool           (* can this path be created for -o? *)
}.

Record cli_result := mkCli {
  c_exit : nat;
  c_stdout : bytes;
  c_diag : bool;                       (* something was written to stderr *)
  c_written : option (bytes * bytes)   (* -o FILE: (path, contents) *)
}.

Inductive cli_out := CliDone (r : cli_result) | CliUnsupported | CliFuel | CliPanic.

Record flags := mkFlags { fl_f : option bytes; fl_r : list bytes; fl_o : option bytes }.

Inductive flag_parse := FlagsOk (f : flags) (positional : list bytes) | FlagsBad | FlagsUnsupported.

Definition split_eq (s : bytes) : bytes * option bytes :=
  (fix go (s acc : bytes) : bytes * option bytes :=
     match s with
     | [] => (rev acc, None)
     | c :: r => if N.eqb c 61 then (rev acc, Some r) else go r (c :: acc)
     end) s [].

Definition set_flag (fl : flags) (name v : bytes) : option flags :=
  if bytes_eqb name (bs "f") then Some (mkFlags (Some v) (fl_r fl) (fl_o fl))
  else if bytes_eqb name (bs "r") then Some (mkFlags (fl_f fl) (fl_r fl ++ [v]) (fl_o fl))
  else if bytes_eqb name (bs "o") then Some (mkFlags (fl_f fl) (fl_r fl) (Some v))
  else None.

Definition out_of_scope_flag (name : bytes) : bool :=
  bytes_eqb name (bs "dbg-ast") || bytes_eqb name (bs "dbg-lex") || bytes_eqb name (bs "profile")
  || bytes_eqb name (bs "version") || bytes_eqb name (bs "h") || bytes_eqb name (bs "help").

(* Go's flag.Parse: flags up to the first non-flag argument or "--" *)
Fixpoint parse_flags (fuel : nat) (args : list bytes) (fl : flags) : flag_parse :=
  match fuel with
  | O => FlagsBad
  | S f =>
    match args with
    | [] => FlagsOk fl []
    | a :: rest =>
      match a with
      | 45%N :: body =>
        match body with
        | [] => FlagsOk fl args                      (* "-" is a positional argument *)
        | _ =>
          let body' := match body with 45%N :: b2 => b2 | _ => body end in
          match body, body' with
          | 45%N :: [], _ => FlagsOk fl rest         (* "--" terminates the flags *)
          | _, [] => FlagsBad
          | _, c :: _ =>
            if (N.eqb c 45 || N.eqb c 61)%bool then FlagsBad
            else
              let '(name, inline) := split_eq body' in
              if out_of_scope_flag name then FlagsUnsupported
              else
                match inline with
                | Some v =>
                  match set_flag fl name v with
                  | Some fl' => parse_flags f rest fl'
                  | None => FlagsBad
                  end
                | None =>
                  match set_flag fl name [] with
                  | None => FlagsBad                   (* flag provided but not defined *)
                  | Some _ =>
                    match rest with
                    | v :: rest' =>
                      match set_flag fl name v with
                      | Some fl' => parse_flags f rest' fl'
                      | None => FlagsBad
                      end
                    | [] => FlagsBad                   (* flag needs an argument *)
                    end
                  end
                end
          end
        end
      | _ => FlagsOk fl args
      end
    end
  end.

Definition read_file (w : world) (path : bytes) : option bytes := assoc_get path (w_files w).

(* the reader over a file's bytes: os.File / os.Stdin hand the bytes out in pieces; the
   result does not depend on the pieces (Json: chunking_independent), 512 is used here *)
Fixpoint chunk_bytes (fuel : nat) (b : bytes) : list bytes :=
  match fuel with
  | O => []
  | S f => match b with
           | [] => []
           | _ => firstn 512 b :: chunk_bytes f (skipn 512 b)
           end
  end.
Definition reader_of (b : bytes) : reader := mkR (chunk_bytes (S (length b)) b) false.

Fixpoint open_inputs (w : world) (paths : list bytes) : option (list (bytes * reader)) :=
  match paths with
  | [] => Some []
  | p :: rest =>
    match read_file w p, open_inputs w rest with
    | Some b, Some l => Some ((p, reader_of b) :: l)
    | _, _ => None
    end
  end.

Definition fail_result (out : bytes) : cli_out := CliDone (mkCli 1 out true None).

(* cli.Run *)
Definition cli_run (n : nat) (argv : list bytes) (w : world) : cli_out :=
  match parse_flags (S (length argv)) argv (mkFlags None [] None) with
  | FlagsUnsupported => CliUnsupported
  | FlagsBad => CliDone (mkCli 2 [] true None)          (* flag.ExitOnError *)
  | FlagsOk fl args =>
    (* program text and input paths *)
    let prog_and_paths : option (bytes * list bytes) :=
      match fl_f fl with
      | Some path =>
        match path with
        | [] => (* an empty -f value is treated as no -f at all *)
          match args with
          | [] => Some ([], [])
          | p :: rest => Some (p, rest)
          end
        | _ =>
          match read_file w path with
          | Some text => Some (text, args)
          | None => None
          end
        end
      | None =>
        match args with
        | [] => Some ([], [])
        | p :: rest => Some (p, rest)
        end
      end in
    match prog_and_paths with
    | None => fail_result []
    | Some (prog, paths) =>
      let read_stdin := match paths with [] => negb (w_stdin_tty w) | _ => false end in
      let paths' := if read_stdin then [bs "<stdin>"] else paths in
      let inputs :=
        if read_stdin then Some [(bs "<stdin>", reader_of (w_stdin w))]
        else open_inputs w paths in
      match inputs with
      | None => fail_result []
      | Some files =>
        let res := eval_program n prog files (fl_r fl) false in
        let out := output_of (io (r_state res)) in
        match r_outcome res with
        | OOk =>
          match fl_o fl with
          | None | Some [] => CliDone (mkCli 0 out false None)
          | Some target =>
            match paths' with
            | _ :: _ :: _ => fail_result out            (* more than one input file *)
            | _ =>
              match get_root_json (r_state res) with
              | JsonFuel => CliFuel
              | JsonError => fail_result out
              | JsonText j =>
                if bytes_eqb target (bs "-") then CliDone (mkCli 0 (out ++ j) false None)
                else if w_writable w target then CliDone (mkCli 0 out false (Some (target, j)))
                else fail_result out
              end
            end
          end
        | OSyntax _ | ORuntime _ | OJson | ORaw => fail_result out
        | OPanic => CliPanic
        | OFuel => CliFuel
        | OUnsupp => CliUnsupported
        end
      end
    end
  end.
