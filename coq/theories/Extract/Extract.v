(* Extraction of the executable model to OCaml. ExtrOcamlBasic only: bool, option, unit,
   list, prod map to OCaml's; nat, N, Z, positive, spec_float stay the extracted inductives.
   No Extract Constant / Extract Inductive directives of our own. *)
Require Extraction.
Require Import ExtrOcamlBasic.
From JQ Require Import Base.Bytes Num.F64 Syntax.Token Syntax.Lexer Syntax.Ast Syntax.Parser.
From JQ Require Import Json.JValue Json.Decode Json.Encode.
From JQ Require Import Oracle.Utf8 Oracle.Strings Oracle.Sort Oracle.Slice.
From JQ Require Oracle.Regex.
From JQ Require Import Gen.Generated Sem.Value Sem.Natives Sem.Eval Sem.Driver.

Extraction "jqmodel.ml"
  lex_all get_line_col tag_index
  parse_program parse_expression_src
  parse_float format_f format_json f_of_bits f_bits
  f_add f_sub f_mul f_div f_neg f_floor f_ceil f_round f_ltb f_eqb f_gtb f_trunc_int64 f_of_Z
  decode_next dec_init dec_step marshal_indent marshal_compact
  Regex.regex_match split to_upper to_lower runes sort_floats grow_cap
  eval_program get_root_json output_of frame_depth eval_expression_api.
