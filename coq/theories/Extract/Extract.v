(* Extraction of the executable model to OCaml. ExtrOcamlBasic only: bool, option, unit,
   list, prod map to OCaml's; nat, N, Z, positive, spec_float stay the extracted inductives.
   No Extract Constant / Extract Inductive directives of our own. *)
Require Extraction.
Require Import ExtrOcamlBasic.
From JQ Require Import Base.Bytes Num.F64 Syntax.Token Syntax.Lexer Syntax.Ast Syntax.Parser.
From JQ Require Import Gen.Generated.

Extraction "jqmodel.ml"
  bs lex_all get_line_col tag_index
  parse_program parse_expression_src
  parse_float format_f format_json f_of_bits f_bits
  f_add f_sub f_mul f_div f_neg f_floor f_ceil f_round f_ltb f_eqb f_gtb f_trunc_int64 f_of_Z.
