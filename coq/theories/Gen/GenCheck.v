(* Side conditions that tie the tables transcribed from the Go source (Gen/Generated.v) to the
   hand-written parts of the model. Each lemma is closed by computation; when an edit of
   /repo/src changes an enumeration, a tag set or a method table, the corresponding lemma no
   longer checks (a broken obligation, reported by every check). *)
From JQ Require Import Base.Bytes Syntax.Token Syntax.Lexer Syntax.Ast Syntax.Parser.
From JQ Require Import Gen.Generated Sem.Value Sem.Natives.

(* lexer.go: TokenTag is the enumeration the model's [tag] mirrors, in the same order *)
Lemma token_tags_ok : token_tags = all_tags.
Proof. reflexivity. Qed.
Lemma token_tag_values_ok : map tag_index token_tags = seq 0 (length token_tags).
Proof. reflexivity. Qed.

(* parser.go: Precedence order *)
Lemma precedences_ok : map prec_index precedences = seq 0 (length precedences).
Proof. reflexivity. Qed.
Lemma precedences_complete : length precedences = 10%nat.
Proof. reflexivity. Qed.

(* every rule refers to a token at most once (Go map literal keys are unique) *)
Fixpoint nodup_tags (l : list tag) : bool :=
  match l with [] => true | t :: r => negb (tag_in t r) && nodup_tags r end.
Lemma rule_table_keys_unique : nodup_tags (map fst rule_table) = true.
Proof. reflexivity. Qed.
Lemma keyword_tags_unique : nodup_tags (map snd keyword_table) = true.
Proof. reflexivity. Qed.

(* ast.go: RuleKind order, as used by the harness/driver S-expressions *)
Lemma rule_kinds_ok :
  rule_kind_names = [bs "BeginRule"; bs "EndRule"; bs "BeginFileRule"; bs "EndFileRule"; bs "PatternRule"].
Proof. reflexivity. Qed.

(* value.go: ValueTag constructors, in order: the model's [value] has exactly these cases *)
Lemma value_tags_ok :
  value_tag_names = [bs "ValueStr"; bs "ValueBool"; bs "ValueNum"; bs "ValueArray"; bs "ValueObj";
                     bs "ValueNil"; bs "ValueNativeFn"; bs "ValueFn"; bs "ValueRegex"; bs "ValueUnknown"].
Proof. reflexivity. Qed.

(* Value.isTruthy: the switch has these cases (bool: itself, num: != 0, str: non-empty, the
   listed tags: always true) and everything else is false -- which is what [is_truthy] says *)
Lemma truthy_cases_ok :
  truthy_cases = [[bs "ValueBool"]; [bs "ValueNum"]; [bs "ValueStr"];
                  [bs "ValueArray"; bs "ValueObj"; bs "ValueFn"; bs "ValueNativeFn"]].
Proof. reflexivity. Qed.
Lemma is_truthy_always :
  forall v, match v with VArr _ _ _ | VObj _ | VFn _ | VNative _ _ => is_truthy v = true
                    | VNil _ | VRegex _ | VUnknown => is_truthy v = false
                    | _ => True end.
Proof. destruct v; reflexivity || exact I. Qed.

(* copyValue: copied by value ... shared by reference; default (function, native) = error *)
Lemma copy_cases_ok :
  copy_cases = [[bs "ValueNum"]; [bs "ValueBool"]; [bs "ValueNil"]; [bs "ValueStr"]; [bs "ValueRegex"];
                [bs "ValueArray"; bs "ValueObj"; bs "ValueUnknown"]; []].
Proof. reflexivity. Qed.
Lemma copy_value_refuses :
  forall v, copy_value v = None <-> match v with VNative _ _ | VFn _ => True | _ => False end.
Proof. destruct v; simpl; split; intro H; try discriminate; try contradiction; auto. Qed.

(* prototypes.go / runtime.go: the method tables *)
Definition is_some {A} (o : option A) : bool := match o with Some _ => true | None => false end.
Lemma array_proto_ok : forallb (fun k => is_some (array_proto k)) array_proto_names = true
                       /\ length array_proto_names = 6%nat.
Proof. split; reflexivity. Qed.
Lemma obj_proto_ok : forallb (fun k => is_some (obj_proto k)) obj_proto_names = true
                     /\ length obj_proto_names = 2%nat.
Proof. split; reflexivity. Qed.
Lemma str_proto_ok : forallb (fun k => is_some (str_proto k)) str_proto_names = true
                     /\ length str_proto_names = 4%nat.
Proof. split; reflexivity. Qed.
Lemma num_proto_ok : forallb (fun k => is_some (num_proto k)) num_proto_names = true
                     /\ length num_proto_names = 3%nat.
Proof. split; reflexivity. Qed.
Lemma runtime_names_ok : runtime_names = [bs "json"; bs "num"; bs "printf"].
Proof. reflexivity. Qed.

(* the model's tables accept nothing beyond the generated names *)
Ltac proto_only :=
  intros k H;
  repeat match type of H with
         | context [if bytes_eqb k ?lit then _ else _] =>
           let E := fresh "E" in
           destruct (bytes_eqb k lit) eqn:E;
           [apply bytes_eqb_eq in E; subst k; simpl; tauto |]
         end;
  congruence.
Lemma array_proto_only : forall k, array_proto k <> None -> In k array_proto_names.
Proof. unfold array_proto; proto_only. Qed.
Lemma obj_proto_only : forall k, obj_proto k <> None -> In k obj_proto_names.
Proof. unfold obj_proto; proto_only. Qed.
Lemma str_proto_only : forall k, str_proto k <> None -> In k str_proto_names.
Proof. unfold str_proto; proto_only. Qed.
Lemma num_proto_only : forall k, num_proto k <> None -> In k num_proto_names.
Proof. unfold num_proto; proto_only. Qed.

(* limits are positive *)
Lemma limits_positive :
  (0 < call_depth_limit /\ 0 < fuzzing_loop_limit /\ 0 < fill_limit /\ 0 < printf_width_limit)%Z.
Proof. repeat split; reflexivity. Qed.

(* ---------------------------------------------------------------- more tables *)
From JQ Require Import Num.F64 Sem.Ops Sem.Eval.

(* Lexer.skipWhitespace: the model's whitespace test and comment opener *)
Lemma ws_chars_ok : forall c,
  existsb (N.eqb c) ws_chars = (N.eqb c 32 || N.eqb c 13 || N.eqb c 9)%bool.
Proof. intro c; simpl; destruct (N.eqb c 32), (N.eqb c 13), (N.eqb c 9); reflexivity. Qed.
Lemma comment_chars_ok : comment_chars = [35%N].
Proof. reflexivity. Qed.

(* evalString: the escapes of the model are exactly the generated table *)
Fixpoint lookup_byte (tbl : list (byte * byte)) (c : byte) : option byte :=
  match tbl with [] => None | (a, b) :: r => if N.eqb a c then Some b else lookup_byte r c end.
Lemma escape_table_ok : forall c rest,
  eval_string (92%N :: c :: rest) =
  match lookup_byte escape_table c, eval_string rest with
  | Some b, Some r => Some (b :: r)
  | _, _ => None
  end.
Proof.
  intros c rest. cbn [eval_string lookup_byte escape_table].
  rewrite (N.eqb_sym 110 c), (N.eqb_sym 92 c), (N.eqb_sym 116 c).
  destruct (N.eqb c 110), (N.eqb c 92), (N.eqb c 116), (eval_string rest); reflexivity.
Qed.

(* `is`: every generated type name is recognised by the model for some value, and the model
   recognises no other name *)
Definition kind_palette : list value :=
  [VStr []; VBool true; VNum f_zero; VArr 1%positive 0 0; VObj 1%positive; VRegex []; VUnknown].
Lemma is_type_names_ok :
  forallb (fun n => existsb (fun v => is_type_name v n) kind_palette) is_type_names = true
  /\ length is_type_names = 7%nat.
Proof. split; reflexivity. Qed.
Lemma is_type_names_only : forall v n, is_type_name v n = true -> In n is_type_names.
Proof.
  intros v n H. unfold is_type_name in H.
  repeat match type of H with
         | context [if bytes_eqb n ?lit then _ else _] =>
           let E := fresh "E" in
           destruct (bytes_eqb n lit) eqn:E;
           [apply bytes_eqb_eq in E; subst n; simpl; tauto |]
         end.
  discriminate H.
Qed.

(* nativePrintf: the directive letters the printf model dispatches on *)
Lemma printf_directives_ok : printf_directives = [37%N; 115%N; 102%N; 118%N].
Proof. reflexivity. Qed.

(* rewriteCompundAssingment *)
Fixpoint lookup_tag (tbl : list (tag * tag)) (t : tag) : option tag :=
  match tbl with [] => None | (a, b) :: r => if tag_eqb a t then Some b else lookup_tag r t end.
Lemma compound_table_ok : forall t, compound_base t = lookup_tag compound_table t.
Proof. destruct t; reflexivity. Qed.

(* checkArgCount(v, N) of every native: the arities the model's natives implement
   (their behaviour on other argument counts is Props/C16_methods.v arity_errors) *)
Lemma native_arities_ok :
  native_arities =
  [ (bs "array.contains", 1%Z); (bs "array.length", (-1)%Z); (bs "array.pop", 0%Z); (bs "array.popfirst", 0%Z);
    (bs "array.push", 1%Z); (bs "array.sort", (-1)%Z); (bs "json", 1%Z); (bs "num", 1%Z);
    (bs "number.ceil", (-1)%Z); (bs "number.floor", (-1)%Z); (bs "number.round", (-1)%Z); (bs "object.length", (-1)%Z);
    (bs "object.pluck", (-1)%Z); (bs "printf", (-1)%Z); (bs "string.length", (-1)%Z); (bs "string.lower", (-1)%Z);
    (bs "string.split", (-1)%Z); (bs "string.upper", (-1)%Z) ].
Proof. reflexivity. Qed.
