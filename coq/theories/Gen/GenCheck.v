(* Side conditions that tie the tables transcribed from the Go source (Gen/Generated.v) to the
   hand-written parts of the model. Each lemma is closed by computation; when an edit of
   /repo/src changes an enumeration, a tag set or a method table, the corresponding lemma no
   longer checks (a broken obligation, reported by every check). *)
From JQ Require Import Base.Bytes Syntax.Token Syntax.Lexer Syntax.Ast Syntax.Parser.
From JQ Require Import Gen.Generated Sem.Value Sem.Natives.

(* lexer.go: TokenTag is the enumeration the model's [tag] mirrors, in the same order *)
Lemma token_tags_ok : token_tags = all_tags.
Proof. reflexivity. Qed.
Lemma token_tag_values_ok : map tag_index token_tags = seq 0 (length token_tags).
Proof. reflexivity. Qed.

(* parser.go: Precedence order *)
Lemma precedences_ok : map prec_index precedences = seq 0 (length precedences).
Proof. reflexivity. Qed.
Lemma precedences_complete : length precedences = 10%nat.
Proof. reflexivity. Qed.

(* every rule refers to a token at most once (Go map literal keys are unique) *)
Fixpoint nodup_tags (l : list tag) : bool :=
  match l with [] => true | t :: r => negb (tag_in t r) && nodup_tags r end.
Lemma rule_table_keys_unique : nodup_tags (map fst rule_table) = true.
Proof. reflexivity. Qed.
Lemma keyword_tags_unique : nodup_tags (map snd keyword_table) = true.
Proof. reflexivity. Qed.

(* ast.go: RuleKind order, as used by the harness/driver S-expressions *)
Lemma rule_kinds_ok :
  rule_kind_names = [bs "BeginRule"; bs "EndRule"; bs "BeginFileRule"; bs "EndFileRule"; bs "PatternRule"].
Proof. reflexivity. Qed.

(* value.go: ValueTag constructors, in order: the model's [value] has exactly these cases *)
Lemma value_tags_ok :
  value_tag_names = [bs "ValueStr"; bs "ValueBool"; bs "ValueNum"; bs "ValueArray"; bs "ValueObj";
                     bs "ValueNil"; bs "ValueNativeFn"; bs "ValueFn"; bs "ValueRegex"; bs "ValueUnknown"].
Proof. reflexivity. Qed.

(* Value.isTruthy: the switch has these cases (bool: itself, num: != 0, str: non-empty, the
   listed tags: always true) and everything else is false -- which is what [is_truthy] says *)
Lemma truthy_cases_ok :
  truthy_cases = [[bs "ValueBool"]; [bs "ValueNum"]; [bs "ValueStr"];
                  [bs "ValueArray"; bs "ValueObj"; bs "ValueFn"; bs "ValueNativeFn"]].
Proof. reflexivity. Qed.
Lemma is_truthy_always :
  forall v, match v with VArr _ _ _ | VObj _ | VFn _ | VNative _ _ => is_truthy v = true
                    | VNil _ | VRegex _ | VUnknown => is_truthy v = false
                    | _ => True end.
Proof. destruct v; reflexivity || exact I. Qed.

(* copyValue: copied by value ... shared by reference; default (function, native) = error *)
Lemma copy_cases_ok :
  copy_cases = [[bs "ValueNum"]; [bs "ValueBool"]; [bs "ValueNil"]; [bs "ValueStr"]; [bs "ValueRegex"];
                [bs "ValueArray"; bs "ValueObj"; bs "ValueUnknown"]; []].
Proof. reflexivity. Qed.
Lemma copy_value_refuses :
  forall v, copy_value v = None <-> match v with VNative _ _ | VFn _ => True | _ => False end.
Proof. destruct v; simpl; split; intro H; try discriminate; try contradiction; auto. Qed.

(* prototypes.go / runtime.go: the method tables *)
Definition is_some {A} (o : option A) : bool := match o with Some _ => true | None => false end.
Lemma array_proto_ok : forallb (fun k => is_some (array_proto k)) array_proto_names = true
                       /\ length array_proto_names = 6%nat.
Proof. split; reflexivity. Qed.
Lemma obj_proto_ok : forallb (fun k => is_some (obj_proto k)) obj_proto_names = true
                     /\ length obj_proto_names = 2%nat.
Proof. split; reflexivity. Qed.
Lemma str_proto_ok : forallb (fun k => is_some (str_proto k)) str_proto_names = true
                     /\ length str_proto_names = 4%nat.
Proof. split; reflexivity. Qed.
Lemma num_proto_ok : forallb (fun k => is_some (num_proto k)) num_proto_names = true
                     /\ length num_proto_names = 3%nat.
Proof. split; reflexivity. Qed.
Lemma runtime_names_ok : runtime_names = [bs "json"; bs "num"; bs "printf"].
Proof. reflexivity. Qed.

(* the model's tables accept nothing beyond the generated names *)
Ltac proto_only :=
  intros k H;
  repeat match type of H with
         | context [if bytes_eqb k ?lit then _ else _] =>
           let E := fresh "E" in
           destruct (bytes_eqb k lit) eqn:E;
           [apply bytes_eqb_eq in E; subst k; simpl; tauto |]
         end;
  congruence.
Lemma array_proto_only : forall k, array_proto k <> None -> In k array_proto_names.
Proof. unfold array_proto; proto_only. Qed.
Lemma obj_proto_only : forall k, obj_proto k <> None -> In k obj_proto_names.
Proof. unfold obj_proto; proto_only. Qed.
Lemma str_proto_only : forall k, str_proto k <> None -> In k str_proto_names.
Proof. unfold str_proto; proto_only. Qed.
Lemma num_proto_only : forall k, num_proto k <> None -> In k num_proto_names.
Proof. unfold num_proto; proto_only. Qed.

(* limits are positive *)
Lemma limits_positive :
  (0 < call_depth_limit /\ 0 < fuzzing_loop_limit /\ 0 < fill_limit /\ 0 < printf_width_limit)%Z.
Proof. repeat split; reflexivity. Qed.
