(* Decode: executable model of encoding/json's Decoder (Go 1.23.5) as jqawk uses it:
     d := json.NewDecoder(r); for { var v any; err := d.Decode(&v); ... }
   DEFINITIONS ONLY (proofs live in JsonProofs.v).  No axioms, no fuel: every recursion
   is structural (on the input bytes, or on the list of reader chunks).

   Structure.  Go scans a value with the byte-at-a-time automaton of scanner.go
   (Decoder.readValue) and then converts the delimited text with decodeState
   (arrayInterface / objectInterface / literalInterface).  The model fuses the two passes
   into ONE automaton [step]: its control part (mode + the kinds of the frames on the
   stack) is scanner.go state for state (so errors are raised at exactly the same byte),
   and the frames additionally carry the values built so far.  Literal text is collected
   raw and converted when the literal ends, with [unquote] (Go: unquote) and
   [parse_float] (Go: convertNumber = strconv.ParseFloat(s, 64)).

   Facts mirrored (each checked against real Go, see validate/):
   * a top-level array/object is complete at its closing bracket; a top-level string,
     number or literal needs ONE following byte (ANY byte: "1[2]" is the two values 1 and
     [2], "truefalse" is true then false, "01" is 0 then 1, "1x" is 1 and then an error
     on the NEXT call) or the end of the input; that byte is not consumed.
   * a number the scanner accepts but ParseFloat reports out of range (1e999) makes the
     Decode call fail AFTER the whole value has been scanned (non-sticky: the next call
     continues behind the value).
   * nesting depth 10000 is accepted, 10001 is an error at the opening bracket.
   * duplicate keys: last one wins (m[key] = v). *)
From Coq Require Import NArith List Bool.
From JQ Require Import Base.Bytes Num.F64 Json.JValue.
Import ListNotations.
Local Open Scope N_scope.

(* ------------------------------------------------------------------ *)
(* Byte classes                                                        *)

Definition is_space (c : byte) : bool := (c =? 32) || (c =? 9) || (c =? 13) || (c =? 10).
Definition is_digit19 (c : byte) : bool := (49 <=? c) && (c <=? 57).
Definition is_hex (c : byte) : bool :=
  is_ascii_digit c || ((97 <=? c) && (c <=? 102)) || ((65 <=? c) && (c <=? 70)).

(* ------------------------------------------------------------------ *)
(* UTF-8 (unicode/utf8.DecodeRune acceptance tables)                    *)

Definition is_cont (c : byte) : bool := (128 <=? c) && (c <=? 191).

Definition utf8_2 (c c1 : byte) : bool := (194 <=? c) && (c <=? 223) && is_cont c1.

Definition utf8_3 (c c1 c2 : byte) : bool :=
  (((c =? 224) && (160 <=? c1) && (c1 <=? 191))
   || ((225 <=? c) && (c <=? 236) && is_cont c1)
   || ((c =? 237) && (128 <=? c1) && (c1 <=? 159))
   || ((238 <=? c) && (c <=? 239) && is_cont c1))
  && is_cont c2.

Definition utf8_4 (c c1 c2 c3 : byte) : bool :=
  (((c =? 240) && (144 <=? c1) && (c1 <=? 191))
   || ((241 <=? c) && (c <=? 243) && is_cont c1)
   || ((c =? 244) && (128 <=? c1) && (c1 <=? 143)))
  && is_cont c2 && is_cont c3.

(* U+FFFD *)
Definition repl_char : bytes := [239; 191; 189].

(* utf8.EncodeRune (surrogates and values above U+10FFFF give U+FFFD) *)
Definition utf8_encode (r : N) : bytes :=
  if r <? 128 then [r]
  else if r <? 2048 then [192 + r / 64; 128 + r mod 64]
  else if (55296 <=? r) && (r <? 57344) then repl_char
  else if r <? 65536 then [224 + r / 4096; 128 + (r / 64) mod 64; 128 + r mod 64]
  else if r <? 1114112 then
    [240 + r / 262144; 128 + (r / 4096) mod 64; 128 + (r / 64) mod 64; 128 + r mod 64]
  else repl_char.

(* ------------------------------------------------------------------ *)
(* unquote (decode.go): the text of a string literal, quotes included   *)

Definition hex_val (c : byte) : option N :=
  if is_ascii_digit c then Some (c - 48)
  else if (97 <=? c) && (c <=? 102) then Some (c - 87)
  else if (65 <=? c) && (c <=? 70) then Some (c - 55)
  else None.

(* getu4 on the four digits *)
Definition hex4 (a b c d : byte) : option N :=
  match hex_val a, hex_val b, hex_val c, hex_val d with
  | Some x, Some y, Some z, Some w => Some (((x * 16 + y) * 16 + z) * 16 + w)
  | _, _, _, _ => None
  end.

Definition is_surrogate (r : N) : bool := (55296 <=? r) && (r <? 57344).
Definition is_high_surrogate (r : N) : bool := (55296 <=? r) && (r <? 56320).
Definition is_low_surrogate (r : N) : bool := (56320 <=? r) && (r <? 57344).
(* utf16.DecodeRune on a valid pair *)
Definition combine_surrogates (hi lo : N) : N := (hi - 55296) * 1024 + (lo - 56320) + 65536.

(* linear-time list reversal (Coq's [rev] is quadratic); lrev l = rev l *)
Definition lrev {A : Type} (l : list A) : list A := rev_append l [].

(* The loop of unquoteBytes over the text BEHIND the opening quote, closing quote
   included: Go checks that s[len-1] is a double quote and then fails on any raw double
   quote inside s[1:len-1]; the model, reading left to right, accepts a double quote
   exactly when it is the last byte.
   [acc] is the output so far, reversed (keeps the function linear and tail recursive).
   [pend] is a high surrogate read from the immediately preceding \uXXXX escape that
   still waits for its partner: Go looks ahead with a second getu4; the model looks
   back, which is the same thing and keeps the recursion structural.  A pending high
   surrogate that is not followed by a low-surrogate escape becomes U+FFFD. *)
Fixpoint unq (pend : option N) (s : bytes) (acc : bytes) : option bytes :=
  (* the output with the pending surrogate given up *)
  let acc0 := match pend with Some _ => rev_append repl_char acc | None => acc end in
  match s with
  | [] => None
  | c :: r =>
      if c =? 34 then
        match r with [] => Some (lrev acc0) | _ :: _ => None end
      else if c =? 92 then
        match r with
        | [] => None
        | e :: r1 =>
            if e =? 117 then
              match r1 with
              | a :: b :: c2 :: d :: r2 =>
                  match hex4 a b c2 d with
                  | None => None
                  | Some u =>
                      match pend with
                      | Some hi =>
                          if is_low_surrogate u
                          then unq None r2 (rev_append (utf8_encode (combine_surrogates hi u)) acc)
                          else if is_high_surrogate u then unq (Some u) r2 acc0
                          else unq None r2 (rev_append (utf8_encode u) acc0)
                      | None =>
                          if is_high_surrogate u then unq (Some u) r2 acc
                          else unq None r2 (rev_append (utf8_encode u) acc)
                      end
                  end
              | _ => None
              end
            else
              let simple (b : byte) := unq None r1 (b :: acc0) in
              if (e =? 34) || (e =? 92) || (e =? 47) || (e =? 39) then simple e
              else if e =? 98 then simple 8
              else if e =? 102 then simple 12
              else if e =? 110 then simple 10
              else if e =? 114 then simple 13
              else if e =? 116 then simple 9
              else None
        end
      else if c <? 32 then None
      else if c <? 128 then unq None r (c :: acc0)
      else
        (* utf8.DecodeRune: a valid sequence is copied, otherwise ONE byte becomes U+FFFD *)
        let bad (_ : unit) := unq None r (rev_append repl_char acc0) in
        match r with
        | [] => bad tt
        | c1 :: r1 =>
            if utf8_2 c c1 then unq None r1 (c1 :: c :: acc0)
            else
              match r1 with
              | [] => bad tt
              | c2 :: r2 =>
                  if utf8_3 c c1 c2 then unq None r2 (c2 :: c1 :: c :: acc0)
                  else
                    match r2 with
                    | [] => bad tt
                    | c3 :: r3 =>
                        if utf8_4 c c1 c2 c3 then unq None r3 (c3 :: c2 :: c1 :: c :: acc0)
                        else bad tt
                    end
              end
        end
  end.

(* unquoteBytes on the text of a string literal, both quotes included *)
Definition unquote (item : bytes) : option bytes :=
  match item with
  | q :: r => if q =? 34 then unq None r [] else None
  | [] => None
  end.

(* ------------------------------------------------------------------ *)
(* The scanner / builder automaton                                      *)

Inductive mode :=
| MBeginValue | MBeginValueOrEmpty | MBeginStringOrEmpty | MBeginString | MEndValue
| MInString | MInStringEsc | MInStringEscU | MInStringEscU1 | MInStringEscU12 | MInStringEscU123
| MNeg | M0 | M1 | MDot | MDot0 | ME | MESign | ME0
| MT | MTr | MTru | MF | MFa | MFal | MFals | MN | MNu | MNul.

(* scanner.go parseState entries, with the values collected so far:
   parseArrayValue  = FArr (items in reverse order)
   parseObjectKey   = FObjKey (before / inside the key), FObjColon (key read, ':' expected)
   parseObjectValue = FObjVal (value expected or being read), FObjNext (value stored) *)
Inductive frame :=
| FArr (ritems : list jvalue)
| FObjKey (fields : list (bytes * jvalue))
| FObjColon (fields : list (bytes * jvalue)) (key : bytes)
| FObjVal (fields : list (bytes * jvalue)) (key : bytes)
| FObjNext (fields : list (bytes * jvalue)).

Record sstate := mkS {
  s_mode : mode;
  s_stack : list frame;
  s_depth : N;                (* len(parseState) *)
  s_lit : bytes;              (* raw text of the literal being read, reversed *)
  s_top : option jvalue;      (* completed top-level string / number / literal *)
  s_rng : bool                (* a number was out of range: d.savedError *)
}.

Definition max_nesting_depth : N := 10000.

Definition s_init : sstate := mkS MBeginValue [] 0 [] None false.

Inductive sres :=
| RCont (st : sstate)
| RDone (v : jvalue) (rng : bool) (consumed : bool)
    (* the top-level value is complete; consumed = the current byte belongs to it
       (closing bracket) / does not (the look-ahead byte after a scalar) *)
| RErr                         (* scanError *)
| RBug.                        (* Go: panic(phasePanicMsg); never happens *)

Definition set_mode (st : sstate) (m : mode) : sstate :=
  mkS m (s_stack st) (s_depth st) (s_lit st) (s_top st) (s_rng st).

(* the current byte continues (or starts) a literal *)
Definition lit_mode (st : sstate) (m : mode) (c : byte) : sres :=
  RCont (mkS m (s_stack st) (s_depth st) (c :: s_lit st) (s_top st) (s_rng st)).

(* a value is complete: store it where it belongs; the scanner is in stateEndValue *)
Definition push_value (v : jvalue) (st : sstate) : option sstate :=
  match s_stack st with
  | [] => Some (mkS MEndValue [] (s_depth st) [] (Some v) (s_rng st))
  | FArr items :: r => Some (mkS MEndValue (FArr (v :: items) :: r) (s_depth st) [] (s_top st) (s_rng st))
  | FObjVal f k :: r =>
      Some (mkS MEndValue (FObjNext (assoc_set k v f) :: r) (s_depth st) [] (s_top st) (s_rng st))
  | _ => None
  end.

Definition cont_opt (o : option sstate) : sres :=
  match o with Some st => RCont st | None => RBug end.

(* popParseState + storing the finished container *)
Definition close_container (v : jvalue) (r : list frame) (st : sstate) : sres :=
  match r with
  | [] => RDone v (s_rng st) true
  | _ :: _ => cont_opt (push_value v (mkS MEndValue r (s_depth st - 1) [] (s_top st) (s_rng st)))
  end.

(* stateEndValue *)
Definition step_endvalue (st : sstate) (c : byte) : sres :=
  match s_stack st with
  | [] =>
      (* stateEndTop: scanEnd whatever the byte is *)
      match s_top st with Some v => RDone v (s_rng st) false | None => RBug end
  | fr :: r =>
      if is_space c then RCont (set_mode st MEndValue)
      else
        match fr with
        | FObjColon f k =>
            if c =? 58 then RCont (mkS MBeginValue (FObjVal f k :: r) (s_depth st) [] (s_top st) (s_rng st))
            else RErr
        | FObjNext f =>
            if c =? 44 then RCont (mkS MBeginString (FObjKey f :: r) (s_depth st) [] (s_top st) (s_rng st))
            else if c =? 125 then close_container (JObj f) r st
            else RErr
        | FArr items =>
            if c =? 44 then RCont (set_mode st MBeginValue)
            else if c =? 93 then close_container (JArr (lrev items)) r st
            else RErr
        | FObjKey _ | FObjVal _ _ => RBug
        end
  end.

(* pushParseState *)
Definition open_container (st : sstate) (m : mode) (fr : frame) : sres :=
  let d := s_depth st + 1 in
  if d <=? max_nesting_depth
  then RCont (mkS m (fr :: s_stack st) d [] (s_top st) (s_rng st))
  else RErr.

(* stateBeginValue *)
Definition step_beginvalue (st : sstate) (c : byte) : sres :=
  if is_space c then RCont st
  else if c =? 123 then open_container st MBeginStringOrEmpty (FObjKey [])
  else if c =? 91 then open_container st MBeginValueOrEmpty (FArr [])
  else if c =? 34 then lit_mode st MInString c
  else if c =? 45 then lit_mode st MNeg c
  else if c =? 48 then lit_mode st M0 c
  else if c =? 116 then lit_mode st MT c
  else if c =? 102 then lit_mode st MF c
  else if c =? 110 then lit_mode st MN c
  else if is_digit19 c then lit_mode st M1 c
  else RErr.

(* stateBeginString *)
Definition step_beginstring (st : sstate) (c : byte) : sres :=
  if is_space c then RCont st
  else if c =? 34 then lit_mode st MInString c
  else RErr.

(* the closing quote: literalInterface / the key part of objectInterface *)
Definition finish_string (st : sstate) : sres :=
  match unquote (lrev (34 :: s_lit st)) with
  | None => RBug
  | Some s =>
      match s_stack st with
      | FObjKey f :: r => RCont (mkS MEndValue (FObjColon f s :: r) (s_depth st) [] (s_top st) (s_rng st))
      | _ => cont_opt (push_value (JStr s) st)
      end
  end.

(* convertNumber on the collected text *)
Definition finish_number (st : sstate) : option sstate :=
  match parse_float (lrev (s_lit st)) with
  | PFok f => push_value (JNum f) st
  | PFrange f =>
      push_value (JNum f) (mkS (s_mode st) (s_stack st) (s_depth st) (s_lit st) (s_top st) true)
  | PFsyntax | PFunsupported => None
  end.

(* a byte that does not continue the number: stateEndValue(s, c) *)
Definition end_number (st : sstate) (c : byte) : sres :=
  match finish_number st with
  | Some st' => step_endvalue st' c
  | None => RBug
  end.

Definition expect (st : sstate) (c want : byte) (m : mode) : sres :=
  if c =? want then lit_mode st m c else RErr.

Definition expect_last (st : sstate) (c want : byte) (v : jvalue) : sres :=
  if c =? want then cont_opt (push_value v st) else RErr.

Definition is_e (c : byte) : bool := (c =? 101) || (c =? 69).

Definition step0 (st : sstate) (c : byte) : sres :=
  if c =? 46 then lit_mode st MDot c
  else if is_e c then lit_mode st ME c
  else end_number st c.

Definition step_esign (st : sstate) (c : byte) : sres :=
  if is_ascii_digit c then lit_mode st ME0 c else RErr.

Definition step_hex (st : sstate) (c : byte) (m : mode) : sres :=
  if is_hex c then lit_mode st m c else RErr.

(* scanner.step *)
Definition step (st : sstate) (c : byte) : sres :=
  match s_mode st with
  | MBeginValue => step_beginvalue st c
  | MBeginValueOrEmpty =>
      if is_space c then RCont st
      else if c =? 93 then step_endvalue st c
      else step_beginvalue st c
  | MBeginStringOrEmpty =>
      if is_space c then RCont st
      else if c =? 125 then
        match s_stack st with
        | FObjKey f :: r => close_container (JObj f) r st
        | _ => RBug
        end
      else step_beginstring st c
  | MBeginString => step_beginstring st c
  | MEndValue => step_endvalue st c
  | MInString =>
      if c =? 34 then finish_string st
      else if c =? 92 then lit_mode st MInStringEsc c
      else if c <? 32 then RErr
      else lit_mode st MInString c
  | MInStringEsc =>
      if (c =? 98) || (c =? 102) || (c =? 110) || (c =? 114) || (c =? 116)
         || (c =? 92) || (c =? 47) || (c =? 34)
      then lit_mode st MInString c
      else if c =? 117 then lit_mode st MInStringEscU c
      else RErr
  | MInStringEscU => step_hex st c MInStringEscU1
  | MInStringEscU1 => step_hex st c MInStringEscU12
  | MInStringEscU12 => step_hex st c MInStringEscU123
  | MInStringEscU123 => step_hex st c MInString
  | MNeg =>
      if c =? 48 then lit_mode st M0 c
      else if is_digit19 c then lit_mode st M1 c
      else RErr
  | M1 => if is_ascii_digit c then lit_mode st M1 c else step0 st c
  | M0 => step0 st c
  | MDot => if is_ascii_digit c then lit_mode st MDot0 c else RErr
  | MDot0 =>
      if is_ascii_digit c then lit_mode st MDot0 c
      else if is_e c then lit_mode st ME c
      else end_number st c
  | ME => if (c =? 43) || (c =? 45) then lit_mode st MESign c else step_esign st c
  | MESign => step_esign st c
  | ME0 => if is_ascii_digit c then lit_mode st ME0 c else end_number st c
  | MT => expect st c 114 MTr
  | MTr => expect st c 117 MTru
  | MTru => expect_last st c 101 (JBool true)
  | MF => expect st c 97 MFa
  | MFa => expect st c 108 MFal
  | MFal => expect st c 115 MFals
  | MFals => expect_last st c 101 (JBool false)
  | MN => expect st c 117 MNu
  | MNu => expect st c 108 MNul
  | MNul => expect_last st c 108 JNull
  end.

(* Decoder.readValue's inner loop over buffered bytes *)
Inductive scan_out :=
| ScDone (v : jvalue) (rng : bool) (rest : bytes)
| ScErr
| ScBug
| ScMore (st : sstate).       (* every byte scanned, value not complete *)

Fixpoint scan (st : sstate) (s : bytes) : scan_out :=
  match s with
  | [] => ScMore st
  | c :: r =>
      match step st c with
      | RCont st' => scan st' r
      | RDone v rng consumed => ScDone v rng (if consumed then r else s)
      | RErr => ScErr
      | RBug => ScBug
      end
  end.

(* ------------------------------------------------------------------ *)
(* One Decode call when the remaining input is exactly s                *)

Inductive dec_result := DValue (v : jvalue) (rest : bytes) | DEof | DErr | DUnsupported.

(* what readValue does when Read reports io.EOF: dec.scan.step(&dec.scan, ' ') == scanEnd,
   else io.EOF if the buffer holds only white space, else io.ErrUnexpectedEOF.
   [all] = every unconsumed byte (dec.buf after refill's slide-down). *)
Inductive eof_out := EoValue (v : jvalue) (rng : bool) | EoEof | EoErr | EoBug.

Definition at_eof (st : sstate) (all : bytes) : eof_out :=
  match step st 32 with
  | RDone v rng _ => EoValue v rng
  | RBug => EoBug
  | RCont _ | RErr => if forallb is_space all then EoEof else EoErr
  end.

Definition decode_next (s : bytes) : dec_result :=
  match scan s_init s with
  | ScDone v rng rest => if rng then DErr else DValue v rest
  | ScErr => DErr
  | ScBug => DUnsupported
  | ScMore st =>
      match at_eof st s with
      | EoValue v rng => if rng then DErr else DValue v []
      | EoEof => DEof
      | EoErr => DErr
      | EoBug => DUnsupported
      end
  end.

(* ------------------------------------------------------------------ *)
(* Streaming layer: json.Decoder over a chunked reader                  *)

Inductive chunk_ev := Chunk (b : bytes).          (* one Read call returns these bytes (length <= 512 assumed) *)
Record reader := mkR { chunks : list bytes; fails : bool }.
  (* after the chunks every further Read returns (0, io.EOF) if fails = false,
     else (0, a non-EOF error) *)
Inductive io_ev := EvRead (n : nat) | EvReadEOF | EvReadFail.

(* buf        = dec.buf[dec.scanp:], the bytes read but not consumed by a returned value
   hit_eof    = dec.err == io.EOF            (sticky: later calls return io.EOF, no Read)
   sticky_err = dec.err is a non-EOF error   (syntax error, unexpected EOF, reader failure;
                                               later calls return it again, no Read)
   hit_fail   = that sticky error is the reader's failure *)
Record dstate := mkD { buf : bytes; rd : reader; hit_eof : bool; hit_fail : bool; sticky_err : bool }.

Definition dec_init (r : reader) : dstate := mkD [] r false false false.

Inductive step_result := SValue (v : jvalue) | SEof | SErr | SUnsupported.

Definition value_result (v : jvalue) (rng : bool) : step_result :=
  if rng then SErr else SValue v.   (* the unmarshal error is not saved in dec.err *)

(* readValue.  [rseen] = buffered bytes already scanned in this call (state [st] reached),
   in REVERSE order (linear time); [new] = buffered bytes not scanned yet.  Scan first;
   only when every buffered byte has been scanned without completing the value, refill
   (one Read), then scan the new bytes; a Read error is looked at only after the scan. *)
Definition unscanned (rseen new : bytes) : bytes := rev_append rseen new.   (* = rev rseen ++ new *)

Fixpoint read_value (chs : list bytes) (fl : bool) (st : sstate) (rseen new : bytes)
  : step_result * dstate * list io_ev :=
  match scan st new with
  | ScDone v rng rest => (value_result v rng, mkD rest (mkR chs fl) false false false, [])
  | ScErr => (SErr, mkD (unscanned rseen new) (mkR chs fl) false false true, [])
  | ScBug => (SUnsupported, mkD (unscanned rseen new) (mkR chs fl) false false true, [])
  | ScMore st' =>
      match chs with
      | c :: chs' =>
          let '(r, d, evs) := read_value chs' fl st' (rev_append new rseen) c in
          (r, d, EvRead (length c) :: evs)
      | [] =>
          let all := unscanned rseen new in
          if fl then (SErr, mkD all (mkR [] fl) false true true, [EvReadFail])
          else
            match at_eof st' all with
            | EoValue v rng => (value_result v rng, mkD [] (mkR [] fl) false false false, [EvReadEOF])
            | EoEof => (SEof, mkD all (mkR [] fl) true false false, [EvReadEOF])
            | EoErr => (SErr, mkD all (mkR [] fl) false false true, [EvReadEOF])
            | EoBug => (SUnsupported, mkD all (mkR [] fl) false false true, [EvReadEOF])
            end
      end
  end.

(* Decoder.Decode *)
Definition dec_step (d : dstate) : step_result * dstate * list io_ev :=
  if hit_eof d then (SEof, d, [])
  else if sticky_err d then (SErr, d, [])
  else read_value (chunks (rd d)) (fails (rd d)) s_init [] (buf d).
