(* Encode: executable model of encoding/json's json.Marshal(v) and
   json.MarshalIndent(v, prefix = empty, indent = two spaces) (Go 1.23.5) for the values
   jqawk hands to it: nil, bool, float64, string, []interface{} (non-nil),
   map[string]interface{}.
   DEFINITIONS ONLY (proofs live in JsonProofs.v).  No axioms; structural recursion only.

   Facts mirrored (each checked against real Go, see validate/):
   * strings (values and keys): appendString with escapeHTML = true: backslash-escapes for
     the double quote, the backslash, BS, FF, LF, CR, TAB; the other bytes below 0x20 and
     the characters less-than, greater-than, ampersand as \u00XX (lower-case hex); 0x7f is
     copied; U+2028 / U+2029 as \u2028 / \u2029; every byte that utf8.DecodeRune rejects as
     the six characters \ufffd; every other multi-byte sequence is copied.
   * numbers: F64.format_json; NaN and infinities are an error (None).
   * map keys in ascending byte order (a JObj already is).
   * MarshalIndent = Indent over the compact form: empty containers stay two brackets,
     otherwise newline + two spaces per level, and colon + one space after a key.
   * MarshalIndent re-scans the compact text with the JSON scanner, whose nesting limit
     (10000) therefore applies: a value nested deeper makes MarshalIndent FAIL
     (exceeded max depth), while json.Marshal has no such limit. *)
From Coq Require Import NArith List Bool.
From JQ Require Import Base.Bytes Num.F64 Json.JValue Json.Decode.
Import ListNotations.
Local Open Scope N_scope.

(* ------------------------------------------------------------------ *)
(* Strings                                                              *)

Definition hexdig (n : N) : byte := if n <? 10 then 48 + n else 87 + n.

Definition esc_u00 (c : byte) : bytes := [92; 117; 48; 48; hexdig (c / 16); hexdig (c mod 16)].

(* tables.go htmlSafeSet *)
Definition html_safe (c : byte) : bool :=
  (32 <=? c) && (c <? 128)
  && negb ((c =? 34) || (c =? 92) || (c =? 60) || (c =? 62) || (c =? 38)).

Definition quote_ascii (c : byte) : bytes :=
  if html_safe c then [c]
  else if (c =? 92) || (c =? 34) then [92; c]
  else if c =? 8 then [92; 98]
  else if c =? 12 then [92; 102]
  else if c =? 10 then [92; 110]
  else if c =? 13 then [92; 114]
  else if c =? 9 then [92; 116]
  else esc_u00 c.

Definition esc_fffd : bytes := [92; 117; 102; 102; 102; 100].

Definition quote_3 (c c1 c2 : byte) : bytes :=
  if (c =? 226) && (c1 =? 128) && ((c2 =? 168) || (c2 =? 169))
  then [92; 117; 50; 48; 50; hexdig (c2 mod 16)]
  else [c; c1; c2].

(* the loop of appendString *)
Fixpoint qbody (s : bytes) : bytes :=
  match s with
  | [] => []
  | c :: r =>
      if c <? 128 then quote_ascii c ++ qbody r
      else
        let bad (_ : unit) := esc_fffd ++ qbody r in
        match r with
        | [] => bad tt
        | c1 :: r1 =>
            if utf8_2 c c1 then [c; c1] ++ qbody r1
            else
              match r1 with
              | [] => bad tt
              | c2 :: r2 =>
                  if utf8_3 c c1 c2 then quote_3 c c1 c2 ++ qbody r2
                  else
                    match r2 with
                    | [] => bad tt
                    | c3 :: r3 =>
                        if utf8_4 c c1 c2 c3 then [c; c1; c2; c3] ++ qbody r3
                        else bad tt
                    end
              end
        end
  end.

Definition quote (s : bytes) : bytes := 34 :: qbody s ++ [34].

(* ------------------------------------------------------------------ *)
(* Values.  ind = false: Marshal; ind = true: MarshalIndent, d = current depth *)

Definition nl (ind : bool) (d : nat) : bytes :=
  if ind then 10 :: repeat_byte 32 (2 * d) else [].

Definition colon (ind : bool) : bytes := if ind then [58; 32] else [58].

(* the members of a non-empty container: each preceded by a comma (except the first) and
   by the line break of the indented form *)
Fixpoint cat_items (ind : bool) (d : nat) (first : bool) (l : list (option bytes)) : option bytes :=
  match l with
  | [] => Some []
  | x :: r =>
      match x, cat_items ind d false r with
      | Some a, Some b => Some ((if first then [] else [44]) ++ nl ind d ++ a ++ b)
      | _, _ => None
      end
  end.

Definition wrap (ind : bool) (d : nat) (op cl : byte) (items : list (option bytes)) : option bytes :=
  match items with
  | [] => Some [op; cl]
  | _ :: _ =>
      match cat_items ind (S d) true items with
      | Some b => Some (op :: b ++ nl ind d ++ [cl])
      | None => None
      end
  end.

Definition enc_member (ind : bool) (k : bytes) (o : option bytes) : option bytes :=
  match o with
  | Some b => Some (quote k ++ colon ind ++ b)
  | None => None
  end.

Fixpoint enc_gen (ind : bool) (d : nat) (v : jvalue) : option bytes :=
  match v with
  | JNull => Some (bs "null")
  | JBool true => Some (bs "true")
  | JBool false => Some (bs "false")
  | JNum f => format_json f
  | JStr s => Some (quote s)
  | JArr l => wrap ind d 91 93 (map (enc_gen ind (S d)) l)
  | JObj l => wrap ind d 123 125 (map (fun kv => enc_member ind (fst kv) (enc_gen ind (S d) (snd kv))) l)
  end.

(* nesting depth as the scanner counts it: number of enclosing brackets of the innermost
   bracket *)
Fixpoint jdepth (v : jvalue) : N :=
  match v with
  | JArr l => 1 + fold_right (fun x m => N.max (jdepth x) m) 0 l
  | JObj l => 1 + fold_right (fun kv m => N.max (jdepth (snd kv)) m) 0 l
  | _ => 0
  end.

(* json.Marshal(v) *)
Definition marshal_compact (v : jvalue) : option bytes := enc_gen false 0 v.

(* json.MarshalIndent(v, "", "  "): None = error (NaN / infinite number, or nesting deeper
   than the scanner's limit) *)
Definition marshal_indent (v : jvalue) : option bytes :=
  if jdepth v <=? max_nesting_depth then enc_gen true 0 v else None.
