(* The Go value produced by json.Decoder.Decode(&any) and consumed by json.MarshalIndent:
   nil, bool, float64, string, []interface{}, map[string]interface{}.
   A map is represented by its association list in ascending byte order of keys, keys unique. *)
From JQ Require Import Base.Bytes Num.F64.

Inductive jvalue :=
| JNull
| JBool (b : bool)
| JNum (f : float)
| JStr (s : bytes)
| JArr (items : list jvalue)
| JObj (fields : list (bytes * jvalue)).

(* insert / replace in a key-sorted association list (Go: m[k] = v) *)
Fixpoint assoc_set {A : Type} (k : bytes) (v : A) (l : list (bytes * A)) : list (bytes * A) :=
  match l with
  | [] => [(k, v)]
  | (k', v') :: r =>
    match bytes_cmp k k' with
    | Lt => (k, v) :: l
    | Eq => (k, v) :: r
    | Gt => (k', v') :: assoc_set k v r
    end
  end.

Fixpoint assoc_get {A : Type} (k : bytes) (l : list (bytes * A)) : option A :=
  match l with
  | [] => None
  | (k', v') :: r => if bytes_eqb k k' then Some v' else assoc_get k r
  end.

(* strong induction principle *)
Section JInd.
  Variable P : jvalue -> Prop.
  Hypotheses (HNull : P JNull) (HBool : forall b, P (JBool b)) (HNum : forall f, P (JNum f))
             (HStr : forall s, P (JStr s))
             (HArr : forall l, Forall P l -> P (JArr l))
             (HObj : forall l, Forall (fun kv => P (snd kv)) l -> P (JObj l)).
  Fixpoint jvalue_ind' (v : jvalue) : P v :=
    match v with
    | JNull => HNull | JBool b => HBool b | JNum f => HNum f | JStr s => HStr s
    | JArr l => HArr l ((fix go (l : list jvalue) : Forall P l :=
        match l with [] => Forall_nil _ | x :: r => Forall_cons _ (jvalue_ind' x) (go r) end) l)
    | JObj l => HObj l ((fix go (l : list (bytes * jvalue)) : Forall (fun kv => P (snd kv)) l :=
        match l with [] => Forall_nil _ | x :: r => Forall_cons _ (jvalue_ind' (snd x)) (go r) end) l)
    end.
End JInd.
