(* JsonProofs: the encoder's output is always accepted by the decoder and decodes back to the
   value (round trip), plus the re-exported string / prefix-stability / streaming theorems.
   No axioms.  The two facts about float formatting that belong to Num/F64 are Section
   hypotheses (Hnum_syntax, Hnum_roundtrip) so that they can be discharged there. *)
From Coq Require Import NArith ZArith List Bool Lia Sorted.
From JQ Require Import Base.Bytes Num.F64 Json.JValue Json.Decode Json.Encode.
From JQ Require Export Json.ScanLemmas Json.StringProofs Json.StreamProofs.
Import ListNotations.
Local Open Scope N_scope.

(* ------------------------------------------------------------------ *)
(* The JSON number grammar (optional minus; 0 or a non-zero digit followed by digits; optional
   fraction: point and at least one digit; optional exponent: e or E, optional sign, at least
   one digit) as the DFA that scanner.go implements (states = the scanner's state1, state0, ...) *)

Definition num_next (m : mode) (c : byte) : option mode :=
  match m with
  | MBeginValue | MNeg =>
      if (c =? 45) && match m with MBeginValue => true | _ => false end then Some MNeg
      else if c =? 48 then Some M0
      else if is_digit19 c then Some M1
      else None
  | M1 =>
      if is_ascii_digit c then Some M1
      else if c =? 46 then Some MDot
      else if is_e c then Some ME
      else None
  | M0 => if c =? 46 then Some MDot else if is_e c then Some ME else None
  | MDot => if is_ascii_digit c then Some MDot0 else None
  | MDot0 => if is_ascii_digit c then Some MDot0 else if is_e c then Some ME else None
  | ME => if (c =? 43) || (c =? 45) then Some MESign else if is_ascii_digit c then Some ME0 else None
  | MESign => if is_ascii_digit c then Some ME0 else None
  | ME0 => if is_ascii_digit c then Some ME0 else None
  | _ => None
  end.

Fixpoint num_run (m : mode) (b : bytes) : option mode :=
  match b with
  | [] => Some m
  | c :: r => match num_next m c with Some m' => num_run m' r | None => None end
  end.

Definition num_final (m : mode) : bool :=
  match m with M0 | M1 | MDot0 | ME0 => true | _ => false end.

(* b is a JSON number literal *)
Definition json_number (b : bytes) : bool :=
  match num_run MBeginValue b with Some m => num_final m | None => false end.

(* a byte that cannot continue a complete number literal *)
Definition num_term (c : byte) : bool := negb (is_ascii_digit c || (c =? 46) || is_e c).

(* ------------------------------------------------------------------ *)
(* Small facts about states                                             *)

Definition with_lit (st : sstate) (m : mode) (lit : bytes) : sstate :=
  mkS m (s_stack st) (s_depth st) lit (s_top st) (s_rng st).

Lemma lit_mode_eq : forall st m c, lit_mode st m c = RCont (with_lit st m (c :: s_lit st)).
Proof. reflexivity. Qed.

Lemma push_value_with_lit : forall v st m lit, push_value v (with_lit st m lit) = push_value v st.
Proof. intros. unfold push_value, with_lit. cbn [s_stack s_depth s_top s_rng]. reflexivity. Qed.

Lemma push_value_same : forall v st st',
  s_stack st = s_stack st' -> s_depth st = s_depth st' -> s_top st = s_top st' -> s_rng st = s_rng st' ->
  push_value v st = push_value v st'.
Proof. intros v st st' H1 H2 H3 H4. unfold push_value. now rewrite H1, H2, H3, H4. Qed.

Definition begin_mode (st : sstate) : Prop :=
  (s_mode st = MBeginValue \/ s_mode st = MBeginValueOrEmpty) /\ s_lit st = [].

Lemma step_begin : forall st c, begin_mode st -> is_space c = false -> c <> 93 ->
  step st c = step_beginvalue st c.
Proof.
  intros st c [[Hm|Hm] _] Hs Hc; unfold step; rewrite Hm; [reflexivity|].
  rewrite Hs. apply N.eqb_neq in Hc. now rewrite Hc.
Qed.

Lemma step_beginvalue_nospace : forall st c, is_space c = false ->
  step_beginvalue st c =
  (if c =? 123 then open_container st MBeginStringOrEmpty (FObjKey [])
   else if c =? 91 then open_container st MBeginValueOrEmpty (FArr [])
   else if c =? 34 then lit_mode st MInString c
   else if c =? 45 then lit_mode st MNeg c
   else if c =? 48 then lit_mode st M0 c
   else if c =? 116 then lit_mode st MT c
   else if c =? 102 then lit_mode st MF c
   else if c =? 110 then lit_mode st MN c
   else if is_digit19 c then lit_mode st M1 c
   else RErr).
Proof. intros st c Hs. unfold step_beginvalue. now rewrite Hs. Qed.

(* the value completed in state st' is delivered like push_value would: on every byte that
   ends a literal, st' behaves as the stateEndValue state p *)
Definition settled (st' p : sstate) : Prop :=
  forall c, num_term c = true -> step st' c = step_endvalue p c.

Lemma settled_endvalue : forall p, s_mode p = MEndValue -> settled p p.
Proof. intros p Hm c _. unfold step. now rewrite Hm. Qed.

Lemma push_value_mode : forall v st p, push_value v st = Some p -> s_mode p = MEndValue.
Proof.
  intros v st p H. unfold push_value in H.
  destruct (s_stack st) as [|[items|f|f k|f k|f] r]; inversion H; reflexivity.
Qed.

(* ------------------------------------------------------------------ *)
(* Numbers                                                              *)

Lemma num_next_step : forall st c m',
  s_mode st <> MBeginValue -> num_next (s_mode st) c = Some m' ->
  step st c = RCont (with_lit st m' (c :: s_lit st)).
Proof.
  intros st c m' Hnb H. unfold step. destruct (s_mode st) eqn:Em; cbn [num_next] in H; try discriminate;
    try contradiction;
    unfold step0, step_esign; rewrite ?andb_false_r in H; cbn [andb] in H;
    repeat match type of H with
           | context [if ?b then _ else _] => destruct b eqn:?; cbn [orb] in H
           end; try discriminate; inversion H; subst; try reflexivity.
Qed.

Lemma num_first_step : forall st c m', begin_mode st ->
  num_next MBeginValue c = Some m' -> step st c = RCont (with_lit st m' [c]).
Proof.
  intros st c m' Hb H. destruct Hb as [Hm Hl].
  assert (Hlit : forall m, lit_mode st m c = RCont (with_lit st m [c])) by (intro m; now rewrite lit_mode_eq, Hl).
  cbn [num_next] in H. rewrite andb_true_r in H.
  destruct (c =? 45) eqn:E1.
  { apply N.eqb_eq in E1; subst c. inversion H; subst.
    rewrite step_begin; [|split; auto|reflexivity|discriminate]. apply Hlit. }
  destruct (c =? 48) eqn:E2.
  { apply N.eqb_eq in E2; subst c. inversion H; subst.
    rewrite step_begin; [|split; auto|reflexivity|discriminate]. apply Hlit. }
  destruct (is_digit19 c) eqn:E3; [|discriminate]. inversion H; subst.
  unfold is_digit19 in E3. apply andb_true_iff in E3. destruct E3 as [Ha Hb]. apply N.leb_le in Ha, Hb.
  assert (Hs : is_space c = false).
  { unfold is_space. repeat (apply orb_false_iff; split); apply N.eqb_neq; lia. }
  rewrite step_begin; [|split; auto|exact Hs|lia].
  rewrite step_beginvalue_nospace by exact Hs.
  replace (c =? 123) with false by (symmetry; apply N.eqb_neq; lia).
  replace (c =? 91) with false by (symmetry; apply N.eqb_neq; lia).
  replace (c =? 34) with false by (symmetry; apply N.eqb_neq; lia).
  rewrite E1, E2.
  replace (c =? 116) with false by (symmetry; apply N.eqb_neq; lia).
  replace (c =? 102) with false by (symmetry; apply N.eqb_neq; lia).
  replace (c =? 110) with false by (symmetry; apply N.eqb_neq; lia).
  replace (is_digit19 c) with true; [apply Hlit|].
  symmetry. unfold is_digit19. apply andb_true_iff. split; apply N.leb_le; lia.
Qed.

Lemma num_next_not_begin : forall m c m', num_next m c = Some m' -> m' <> MBeginValue.
Proof.
  intros m c m' H. destruct m; cbn [num_next] in H; try discriminate;
    repeat match type of H with
           | context [if ?b then _ else _] => destruct b
           end; try discriminate; inversion H; discriminate.
Qed.

Lemma num_run_steps : forall b st m',
  s_mode st <> MBeginValue -> num_run (s_mode st) b = Some m' ->
  run st b = Some (with_lit st m' (rev_append b (s_lit st))).
Proof.
  induction b as [|c b IH]; intros st m' Hnb H; cbn [num_run run rev_append] in *.
  - inversion H; subst. destruct st; reflexivity.
  - destruct (num_next (s_mode st) c) as [m1|] eqn:E; [|discriminate].
    rewrite (num_next_step _ _ _ Hnb E).
    assert (Hm1 : m1 <> MBeginValue) by (eapply num_next_not_begin; eauto).
    exact (IH (with_lit st m1 (c :: s_lit st)) m' Hm1 H).
Qed.

(* A number literal b read from a begin state: all of b is collected, and the first byte that
   cannot continue it delivers the number *)
Lemma number_accepted : forall b f st p,
  json_number b = true -> parse_float b = PFok f ->
  begin_mode st -> push_value (JNum f) st = Some p ->
  exists st', run st b = Some st' /\ settled st' p.
Proof.
  intros b f st p Hj Hpf Hb Hp. unfold json_number in Hj.
  destruct b as [|c b]; [discriminate|]. cbn [num_run] in Hj.
  destruct (num_next MBeginValue c) as [m1|] eqn:E1; [|discriminate].
  destruct (num_run m1 b) as [m'|] eqn:E2; [|discriminate].
  pose proof (num_first_step st c m1 Hb E1) as Hs1.
  assert (Hm1 : m1 <> MBeginValue) by (eapply num_next_not_begin; eauto).
  pose proof (num_run_steps b (with_lit st m1 [c]) m' Hm1 E2) as Hr.
  cbn [s_lit with_lit] in Hr.
  exists (with_lit (with_lit st m1 [c]) m' (rev_append b [c])). split.
  - cbn [run]. rewrite Hs1. exact Hr.
  - intros t Ht. unfold num_term in Ht. apply negb_true_iff in Ht.
    apply orb_false_iff in Ht. destruct Ht as [Ht He]. apply orb_false_iff in Ht. destruct Ht as [Hd Hdot].
    set (st' := with_lit (with_lit st m1 [c]) m' (rev_append b [c])).
    assert (Hend : end_number st' t = step_endvalue p t).
    { unfold end_number, finish_number. subst st'. cbn [s_lit with_lit].
      replace (lrev (rev_append b [c])) with (c :: b).
      2:{ rewrite lrev_eq, rev_append_rev, rev_app_distr, rev_involutive. reflexivity. }
      rewrite Hpf.
      rewrite (push_value_same (JNum f) _ st) by reflexivity. rewrite Hp. reflexivity. }
    rewrite <- Hend. unfold step. subst st'. cbn [s_mode with_lit].
    destruct m'; try discriminate; unfold step0; rewrite ?Hd, ?Hdot, ?He; reflexivity.
Qed.

(* ------------------------------------------------------------------ *)
(* White space after a settled value                                    *)

Lemma is_space_term : forall c, is_space c = true -> num_term c = true.
Proof.
  intros c H. unfold is_space in H.
  repeat (apply orb_true_iff in H; destruct H as [H|H]); apply N.eqb_eq in H; subst; reflexivity.
Qed.

Lemma set_mode_same : forall p, s_mode p = MEndValue -> set_mode p MEndValue = p.
Proof. intros [m stk d lit top rng] H. cbn in H. subst. reflexivity. Qed.

Lemma settled_ws : forall w st' p,
  settled st' p -> s_mode p = MEndValue -> s_stack p <> [] -> forallb is_space w = true ->
  exists q, run st' w = Some q /\ settled q p.
Proof.
  intros w st' p Hs Hm Hstk Hw. destruct w as [|c w]; [exists st'; split; [reflexivity|exact Hs]|].
  cbn [forallb] in Hw. apply andb_true_iff in Hw. destruct Hw as [Hc Hw].
  exists p. split; [|now apply settled_endvalue].
  cbn [run]. rewrite (Hs c (is_space_term c Hc)). unfold step_endvalue.
  destruct (s_stack p) eqn:Es; [contradiction|]. rewrite Hc, set_mode_same by exact Hm.
  apply run_ws; [|exact Hw]. unfold ws_mode. rewrite Hm, Es. discriminate.
Qed.

Lemma nl_space : forall ind d, forallb is_space (nl ind d) = true.
Proof.
  intros [|] d; [|reflexivity]. unfold nl. cbn [forallb]. cbn [is_space N.eqb Pos.eqb orb andb].
  induction (2 * d)%nat as [|n IH]; [reflexivity|]. cbn [repeat_byte forallb]. now rewrite IH.
Qed.

(* ------------------------------------------------------------------ *)
(* Strings and the three literals                                       *)

Lemma lrev_quote : forall s, lrev (34 :: rev_append (qbody s) [34]) = quote s.
Proof.
  intro s. rewrite lrev_eq. cbn [rev]. rewrite rev_append_rev, rev_app_distr, rev_involutive.
  unfold quote. reflexivity.
Qed.

Lemma in_string_with_lit : forall st lit, in_string st lit = with_lit st MInString lit.
Proof. reflexivity. Qed.

(* after the opening quote: the body and the closing quote *)
Lemma string_tail_run : forall s st,
  run (in_string st [34]) (qbody s ++ [34]) =
  match finish_string (in_string st (rev_append (qbody s) [34])) with
  | RCont st' => Some st'
  | _ => None
  end.
Proof.
  intros s st. rewrite run_app, run_qbody. cbn [run].
  unfold step at 1. cbn [s_mode in_string]. cbn [N.eqb Pos.eqb].
  destruct (finish_string _); reflexivity.
Qed.

Lemma string_value_accepted : forall s st p,
  begin_mode st -> push_value (JStr (utf8_fix s)) st = Some p -> run st (quote s) = Some p.
Proof.
  intros s st p Hb Hp. unfold quote. cbn [run].
  rewrite step_begin; [|exact Hb|reflexivity|discriminate].
  rewrite step_beginvalue_nospace by reflexivity. cbn [N.eqb Pos.eqb].
  rewrite lit_mode_eq. destruct Hb as [_ Hl]. rewrite Hl.
  change (with_lit st MInString [34]) with (in_string st [34]).
  rewrite string_tail_run. unfold finish_string. cbn [s_lit in_string].
  rewrite lrev_quote, unquote_quote. cbn [s_stack in_string].
  rewrite (push_value_same (JStr (utf8_fix s)) _ st) by reflexivity. rewrite Hp.
  unfold push_value in Hp.
  destruct (s_stack st) as [|[items|f|f k|f k|f] r]; try discriminate; reflexivity.
Qed.

Lemma string_key_accepted : forall k st f r,
  (s_mode st = MBeginString \/ s_mode st = MBeginStringOrEmpty) -> s_lit st = [] ->
  s_stack st = FObjKey f :: r ->
  run st (quote k) = Some (mkS MEndValue (FObjColon f (utf8_fix k) :: r) (s_depth st) [] (s_top st) (s_rng st)).
Proof.
  intros k st f r Hm Hl Hstk. unfold quote. cbn [run].
  assert (Hs : step st 34 = RCont (in_string st [34])).
  { unfold step. destruct Hm as [Hm|Hm]; rewrite Hm; cbn [is_space N.eqb Pos.eqb orb];
      unfold step_beginstring; cbn [is_space N.eqb Pos.eqb orb]; rewrite lit_mode_eq, Hl; reflexivity. }
  rewrite Hs, string_tail_run. unfold finish_string. cbn [s_lit in_string].
  rewrite lrev_quote, unquote_quote. cbn [s_stack s_depth s_top s_rng in_string]. rewrite Hstk. reflexivity.
Qed.

Ltac lit_steps :=
  repeat (cbn [run]; unfold step at 1; cbn [s_mode with_lit]; unfold expect, expect_last;
          cbn [N.eqb Pos.eqb]; rewrite ?lit_mode_eq).

Lemma null_accepted : forall st p, begin_mode st -> push_value JNull st = Some p -> run st (bs "null") = Some p.
Proof.
  intros st p Hb Hp. change (bs "null") with [110; 117; 108; 108]. cbn [run].
  rewrite step_begin; [|exact Hb|reflexivity|discriminate].
  rewrite step_beginvalue_nospace by reflexivity. cbn [N.eqb Pos.eqb]. rewrite lit_mode_eq.
  lit_steps. rewrite (push_value_same JNull _ st) by reflexivity. rewrite Hp. reflexivity.
Qed.

Lemma true_accepted : forall st p, begin_mode st -> push_value (JBool true) st = Some p -> run st (bs "true") = Some p.
Proof.
  intros st p Hb Hp. change (bs "true") with [116; 114; 117; 101]. cbn [run].
  rewrite step_begin; [|exact Hb|reflexivity|discriminate].
  rewrite step_beginvalue_nospace by reflexivity. cbn [N.eqb Pos.eqb]. rewrite lit_mode_eq.
  lit_steps. rewrite (push_value_same (JBool true) _ st) by reflexivity. rewrite Hp. reflexivity.
Qed.

Lemma false_accepted : forall st p, begin_mode st -> push_value (JBool false) st = Some p -> run st (bs "false") = Some p.
Proof.
  intros st p Hb Hp. change (bs "false") with [102; 97; 108; 115; 101]. cbn [run].
  rewrite step_begin; [|exact Hb|reflexivity|discriminate].
  rewrite step_beginvalue_nospace by reflexivity. cbn [N.eqb Pos.eqb]. rewrite lit_mode_eq.
  lit_steps. rewrite (push_value_same (JBool false) _ st) by reflexivity. rewrite Hp. reflexivity.
Qed.

(* ------------------------------------------------------------------ *)
(* The value the decoder builds from the encoder's output               *)

Definition ins_member (jn : jvalue -> jvalue) (f : list (bytes * jvalue)) (kv : bytes * jvalue) :=
  assoc_set (utf8_fix (fst kv)) (jn (snd kv)) f.

(* strings lose their invalid UTF-8 (each bad byte becomes U+FFFD), so object keys may merge
   (last one wins); everything else is kept *)
Fixpoint jnorm (v : jvalue) : jvalue :=
  match v with
  | JStr s => JStr (utf8_fix s)
  | JArr l => JArr (map jnorm l)
  | JObj l => JObj (fold_left (fun f kv => assoc_set (utf8_fix (fst kv)) (jnorm (snd kv)) f) l [])
  | _ => v
  end.

Lemma jnorm_obj : forall l, jnorm (JObj l) = JObj (fold_left (ins_member jnorm) l []).
Proof. reflexivity. Qed.

(* every number of the value satisfies P *)
Inductive nums_sat (P : float -> Prop) : jvalue -> Prop :=
| nv_null : nums_sat P JNull
| nv_bool : forall b, nums_sat P (JBool b)
| nv_num : forall f, P f -> nums_sat P (JNum f)
| nv_str : forall s, nums_sat P (JStr s)
| nv_arr : forall l, Forall (nums_sat P) l -> nums_sat P (JArr l)
| nv_obj : forall l, Forall (fun kv => nums_sat P (snd kv)) l -> nums_sat P (JObj l).

Lemma nums_sat_impl : forall (P Q : float -> Prop), (forall f, P f -> Q f) ->
  forall v, nums_sat P v -> nums_sat Q v.
Proof.
  intros P Q HPQ. induction v as [|bv|f|s|l IH|l IH] using jvalue_ind'; intro H; inversion H; subst;
    constructor; auto.
  - revert IH H1. clear H. induction l as [|x r IHr]; intros IH H1; [constructor|].
    inversion IH; inversion H1; subst. constructor; auto.
  - revert IH H1. clear H. induction l as [|x r IHr]; intros IH H1; [constructor|].
    inversion IH; inversion H1; subst. constructor; auto.
Qed.

(* every number is a real float64 (canonical mantissa / exponent) *)
Definition is_float64 (f : float) : Prop := valid_binary prec emax f = true.
Definition nums_valid : jvalue -> Prop := nums_sat is_float64.

Lemma jdepth_arr : forall l, jdepth (JArr l) = 1 + fold_right (fun x m => N.max (jdepth x) m) 0 l.
Proof. reflexivity. Qed.
Lemma jdepth_obj : forall l, jdepth (JObj l) = 1 + fold_right (fun kv m => N.max (jdepth (snd kv)) m) 0 l.
Proof. reflexivity. Qed.

Section Accept.
  (* the two facts about Num/F64's float formatting that this file needs, for the numbers
     (those satisfying P) that occur in the value *)
  Variable P : float -> Prop.
  Hypothesis Hnum_syntax : forall x b, P x -> format_json x = Some b -> json_number b = true.
  Hypothesis Hnum_roundtrip : forall x b, P x -> format_json x = Some b -> parse_float b = PFok x.

  Variable ind : bool.

  (* v, written by the encoder, is read back from any state that expects a value; scalars
     anywhere, containers below the top level (the top-level container ends the scan) *)
  Definition accepts (v : jvalue) : Prop :=
    forall d b st p,
      enc_gen ind d v = Some b -> nums_sat P v -> begin_mode st ->
      s_depth st + jdepth v <= max_nesting_depth ->
      s_stack st <> [] \/ is_container v = false ->
      push_value (jnorm v) st = Some p ->
      exists st', run st b = Some st' /\ settled st' p.

  (* a container up to its closing bracket *)
  Definition body_ok (v : jvalue) : Prop :=
    forall d b st,
      enc_gen ind d v = Some b -> nums_sat P v -> begin_mode st ->
      s_depth st + jdepth v <= max_nesting_depth ->
      exists body cl q pin,
        b = body ++ [cl] /\ run st body = Some q /\
        step q cl = close_container (jnorm v) (s_stack st) pin /\
        s_depth pin = s_depth st + 1 /\ s_top pin = s_top st /\ s_rng pin = s_rng st.

  Lemma accepts_of_body : forall v, is_container v = true -> body_ok v -> accepts v.
  Proof.
    intros v Hc Hbody d b st p He Hnv Hb Hd Hstk Hp.
    destruct (Hbody d b st He Hnv Hb Hd) as (body & cl & q & pin & Hbb & Hr & Hs & Hdp & Htop & Hrng).
    destruct Hstk as [Hstk|Hstk]; [|congruence].
    exists p. split; [|apply settled_endvalue; eapply push_value_mode; eauto].
    subst b. rewrite run_app, Hr. cbn [run]. rewrite Hs. unfold close_container.
    destruct (s_stack st) as [|fr r] eqn:Es; [contradiction|].
    rewrite (push_value_same (jnorm v) _ st); [rewrite Hp; reflexivity| | | |]; cbn [s_stack s_depth s_top s_rng]; auto.
    rewrite Hdp. lia.
  Qed.

  (* ---- arrays ---- *)

  Lemma open_array : forall st, begin_mode st -> s_depth st + 1 <= max_nesting_depth ->
    step st 91 = RCont (mkS MBeginValueOrEmpty (FArr [] :: s_stack st) (s_depth st + 1) [] (s_top st) (s_rng st)).
  Proof.
    intros st Hb Hd. rewrite step_begin; [|exact Hb|reflexivity|discriminate].
    rewrite step_beginvalue_nospace by reflexivity. cbn [N.eqb Pos.eqb].
    unfold open_container. apply N.leb_le in Hd. now rewrite Hd.
  Qed.

  Lemma open_object : forall st, begin_mode st -> s_depth st + 1 <= max_nesting_depth ->
    step st 123 = RCont (mkS MBeginStringOrEmpty (FObjKey [] :: s_stack st) (s_depth st + 1) [] (s_top st) (s_rng st)).
  Proof.
    intros st Hb Hd. rewrite step_begin; [|exact Hb|reflexivity|discriminate].
    rewrite step_beginvalue_nospace by reflexivity. cbn [N.eqb Pos.eqb].
    unfold open_container. apply N.leb_le in Hd. now rewrite Hd.
  Qed.

  (* one array element from a state that expects a value *)
  Lemma item_accepted : forall x d a q ritems stk,
    accepts x -> enc_gen ind d x = Some a -> nums_sat P x ->
    begin_mode q -> s_stack q = FArr ritems :: stk ->
    s_depth q + jdepth x <= max_nesting_depth ->
    exists st1, run q (nl ind d ++ a) = Some st1 /\
      settled st1 (mkS MEndValue (FArr (jnorm x :: ritems) :: stk) (s_depth q) [] (s_top q) (s_rng q)).
  Proof.
    intros x d a q ritems stk Hacc He Hnv Hb Hstk Hd.
    assert (Hws : ws_mode q).
    { unfold ws_mode. destruct Hb as [[Hm|Hm] _]; rewrite Hm; exact I. }
    destruct (Hacc d a q (mkS MEndValue (FArr (jnorm x :: ritems) :: stk) (s_depth q) [] (s_top q) (s_rng q)) He Hnv Hb Hd) as (st1 & Hr & Hs).
    - left. rewrite Hstk. discriminate.
    - unfold push_value. rewrite Hstk. reflexivity.
    - exists st1. split; [|exact Hs]. rewrite run_app, (run_ws _ _ Hws (nl_space ind d)). exact Hr.
  Qed.

  Lemma arr_tail : forall l, Forall accepts l -> forall d body st' ritems stk dep top rng,
    cat_items ind d false (map (enc_gen ind d) l) = Some body ->
    Forall (nums_sat P) l ->
    dep + fold_right (fun x m => N.max (jdepth x) m) 0 l <= max_nesting_depth ->
    settled st' (mkS MEndValue (FArr ritems :: stk) dep [] top rng) ->
    exists st'', run st' body = Some st'' /\
      settled st'' (mkS MEndValue (FArr (rev (map jnorm l) ++ ritems) :: stk) dep [] top rng).
  Proof.
    induction l as [|x r IH]; intros Hacc d body st' ritems stk dep top rng Hcat Hnv Hd Hs.
    - cbn [map cat_items] in Hcat. inversion Hcat; subst. exists st'. split; [reflexivity|exact Hs].
    - cbn [map cat_items] in Hcat.
      destruct (enc_gen ind d x) as [a|] eqn:Ea; [|discriminate].
      destruct (cat_items ind d false (map (enc_gen ind d) r)) as [body'|] eqn:Ec; [|discriminate].
      inversion Hcat; subst body. clear Hcat.
      inversion Hacc as [|? ? Hax Har]; subst. inversion Hnv as [|? ? Hnx Hnr]; subst.
      cbn [fold_right] in Hd.
      set (q := mkS MBeginValue (FArr ritems :: stk) dep [] top rng).
      assert (Hq : step st' 44 = RCont q).
      { rewrite (Hs 44 eq_refl). reflexivity. }
      destruct (item_accepted x d a q ritems stk Hax Ea Hnx) as (st1 & Hr1 & Hs1).
      + split; [left; reflexivity|reflexivity].
      + reflexivity.
      + cbn [s_depth q]. lia.
      + cbn [s_depth s_top s_rng q] in Hs1.
        destruct (IH Har d body' st1 (jnorm x :: ritems) stk dep top rng Ec Hnr) as (st2 & Hr2 & Hs2).
        * lia.
        * exact Hs1.
        * exists st2. split.
          -- cbn [app run]. rewrite Hq. rewrite app_assoc, run_app, Hr1. exact Hr2.
          -- cbn [map rev]. rewrite <- app_assoc. exact Hs2.
  Qed.

  Lemma arr_body : forall l, Forall accepts l -> body_ok (JArr l).
  Proof.
    intros l Hacc d b st He Hnv Hb Hd. inversion Hnv as [| | | |? Hnl|]; subst.
    rewrite jdepth_arr in Hd. cbn [enc_gen] in He. unfold wrap in He.
    assert (Hopen := open_array st Hb ltac:(lia)).
    set (q0 := mkS MBeginValueOrEmpty (FArr [] :: s_stack st) (s_depth st + 1) [] (s_top st) (s_rng st)) in *.
    destruct l as [|x r].
    - cbn [map] in He. inversion He; subst b.
      exists [91], 93, q0, q0. split; [reflexivity|]. split; [cbn [run]; now rewrite Hopen|].
      split; [reflexivity|]. repeat split; reflexivity.
    - cbn [map] in He. cbn [cat_items] in He.
      destruct (enc_gen ind (S d) x) as [a|] eqn:Ea; [|discriminate].
      destruct (cat_items ind (S d) false (map (enc_gen ind (S d)) r)) as [body'|] eqn:Ec; [|discriminate].
      inversion He; subst b. clear He.
      inversion Hacc as [|? ? Hax Har]; subst. inversion Hnl as [|? ? Hnx Hnr]; subst.
      cbn [fold_right] in Hd.
      destruct (item_accepted x (S d) a q0 [] (s_stack st) Hax Ea Hnx) as (st1 & Hr1 & Hs1).
      + split; [right; reflexivity|reflexivity].
      + reflexivity.
      + cbn [s_depth q0]. lia.
      + cbn [s_depth s_top s_rng q0] in Hs1.
        destruct (arr_tail r Har (S d) body' st1 [jnorm x] (s_stack st) (s_depth st + 1) (s_top st) (s_rng st) Ec Hnr)
          as (st2 & Hr2 & Hs2); [lia|exact Hs1|].
        set (p2 := mkS MEndValue (FArr (rev (map jnorm r) ++ [jnorm x]) :: s_stack st) (s_depth st + 1) [] (s_top st) (s_rng st)) in *.
        destruct (settled_ws (nl ind d) st2 p2 Hs2 eq_refl ltac:(discriminate) (nl_space ind d)) as (q3 & Hr3 & Hs3).
        exists (91 :: ([] ++ nl ind (S d) ++ a ++ body') ++ nl ind d), 93, q3, p2.
        split; [cbn [app]; rewrite <- !app_assoc; reflexivity|].
        split.
        * cbn [app run]. rewrite Hopen. rewrite run_app.
          rewrite app_assoc, run_app, Hr1, Hr2. exact Hr3.
        * split; [|repeat split; reflexivity].
          rewrite (Hs3 93 eq_refl). unfold step_endvalue. cbn [s_stack p2 is_space N.eqb Pos.eqb orb].
          rewrite lrev_eq, rev_app_distr, rev_involutive. reflexivity.
  Qed.

  (* ---- objects ---- *)

  (* one member  "key": value  from a state that expects a key *)
  Lemma member_accepted : forall k x d a q f stk,
    accepts x -> enc_gen ind d x = Some a -> nums_sat P x ->
    (s_mode q = MBeginString \/ s_mode q = MBeginStringOrEmpty) -> s_lit q = [] ->
    s_stack q = FObjKey f :: stk ->
    s_depth q + jdepth x <= max_nesting_depth ->
    exists st1, (forall more, run q (nl ind d ++ (quote k ++ colon ind ++ a) ++ more) = run st1 more) /\
      settled st1 (mkS MEndValue (FObjNext (ins_member jnorm f (k, x)) :: stk) (s_depth q) [] (s_top q) (s_rng q)).
  Proof.
    intros k x d a q f stk Hacc He Hnv Hm Hl Hstk Hd.
    assert (Hws : ws_mode q).
    { unfold ws_mode. destruct Hm as [Hm|Hm]; rewrite Hm; exact I. }
    pose proof (string_key_accepted k q f stk Hm Hl Hstk) as Hk.
    set (q2 := mkS MEndValue (FObjColon f (utf8_fix k) :: stk) (s_depth q) [] (s_top q) (s_rng q)) in *.
    set (q3 := mkS MBeginValue (FObjVal f (utf8_fix k) :: stk) (s_depth q) [] (s_top q) (s_rng q)).
    assert (Hcolon : run q2 (colon ind) = Some q3).
    { unfold colon. destruct ind; reflexivity. }
    destruct (Hacc d a q3 (mkS MEndValue (FObjNext (ins_member jnorm f (k, x)) :: stk) (s_depth q) [] (s_top q) (s_rng q))
                   He Hnv) as (st1 & Hr & Hs).
    - split; [left; reflexivity|reflexivity].
    - exact Hd.
    - left. discriminate.
    - reflexivity.
    - exists st1. split; [|exact Hs]. intro more.
      rewrite (app_assoc (nl ind d) (quote k ++ colon ind ++ a) more), run_app.
      replace (run q (nl ind d ++ quote k ++ colon ind ++ a)) with (Some st1); [reflexivity|]. symmetry.
      eapply run_app_some; [exact (run_ws _ _ Hws (nl_space ind d))|].
      eapply run_app_some; [exact Hk|]. eapply run_app_some; [exact Hcolon|exact Hr].
  Qed.

  Definition enc_kv (d : nat) (kv : bytes * jvalue) : option bytes :=
    enc_member ind (fst kv) (enc_gen ind d (snd kv)).

  Lemma obj_tail : forall l, Forall (fun kv => accepts (snd kv)) l -> forall d body st' f stk dep top rng,
    cat_items ind d false (map (enc_kv d) l) = Some body ->
    Forall (fun kv => nums_sat P (snd kv)) l ->
    dep + fold_right (fun kv m => N.max (jdepth (snd kv)) m) 0 l <= max_nesting_depth ->
    settled st' (mkS MEndValue (FObjNext f :: stk) dep [] top rng) ->
    exists st'', run st' body = Some st'' /\
      settled st'' (mkS MEndValue (FObjNext (fold_left (ins_member jnorm) l f) :: stk) dep [] top rng).
  Proof.
    induction l as [|[k x] r IH]; intros Hacc d body st' f stk dep top rng Hcat Hnv Hd Hs.
    - cbn [map cat_items] in Hcat. inversion Hcat; subst. exists st'. split; [reflexivity|exact Hs].
    - cbn [map cat_items] in Hcat. unfold enc_kv at 1 in Hcat. cbn [fst snd] in Hcat.
      destruct (enc_gen ind d x) as [a|] eqn:Ea; [|discriminate]. cbn [enc_member] in Hcat.
      destruct (cat_items ind d false (map (enc_kv d) r)) as [body'|] eqn:Ec; [|discriminate].
      assert (Hbody : body = 44 :: nl ind d ++ (quote k ++ colon ind ++ a) ++ body') by (inversion Hcat; reflexivity).
      subst body. clear Hcat.
      inversion Hacc as [|? ? Hax Har]; subst. inversion Hnv as [|? ? Hnx Hnr]; subst.
      cbn [fold_right snd] in Hd. cbn [snd] in Hax, Hnx.
      set (q := mkS MBeginString (FObjKey f :: stk) dep [] top rng).
      assert (Hq : step st' 44 = RCont q).
      { rewrite (Hs 44 eq_refl). reflexivity. }
      destruct (member_accepted k x d a q f stk Hax Ea Hnx) as (st1 & Hr1 & Hs1).
      + left; reflexivity.
      + reflexivity.
      + reflexivity.
      + cbn [s_depth q]. lia.
      + cbn [s_depth s_top s_rng q] in Hs1.
        destruct (IH Har d body' st1 (ins_member jnorm f (k, x)) stk dep top rng Ec Hnr) as (st2 & Hr2 & Hs2).
        * lia.
        * exact Hs1.
        * exists st2. split.
          -- cbn [run]. rewrite Hq, Hr1. exact Hr2.
          -- cbn [fold_left]. exact Hs2.
  Qed.

  Lemma obj_body : forall l, Forall (fun kv => accepts (snd kv)) l -> body_ok (JObj l).
  Proof.
    intros l Hacc d b st He Hnv Hb Hd. inversion Hnv as [| | | | |? Hnl]; subst.
    rewrite jdepth_obj in Hd. cbn [enc_gen] in He. unfold wrap in He.
    change (map (fun kv => enc_member ind (fst kv) (enc_gen ind (S d) (snd kv))) l)
      with (map (enc_kv (S d)) l) in He.
    assert (Hopen := open_object st Hb ltac:(lia)).
    set (q0 := mkS MBeginStringOrEmpty (FObjKey [] :: s_stack st) (s_depth st + 1) [] (s_top st) (s_rng st)) in *.
    destruct l as [|[k x] r].
    - cbn [map] in He. inversion He; subst b.
      exists [123], 125, q0, q0. split; [reflexivity|]. split; [cbn [run]; now rewrite Hopen|].
      split; [reflexivity|]. repeat split; reflexivity.
    - cbn [map] in He. cbn [cat_items] in He. unfold enc_kv at 1 in He. cbn [fst snd] in He.
      destruct (enc_gen ind (S d) x) as [a|] eqn:Ea; [|discriminate]. cbn [enc_member] in He.
      destruct (cat_items ind (S d) false (map (enc_kv (S d)) r)) as [body'|] eqn:Ec; [|discriminate].
      assert (Hbb : b = 123 :: (nl ind (S d) ++ (quote k ++ colon ind ++ a) ++ body') ++ nl ind d ++ [125])
        by (inversion He; reflexivity).
      subst b. clear He.
      inversion Hacc as [|? ? Hax Har]; subst. inversion Hnl as [|? ? Hnx Hnr]; subst.
      cbn [fold_right snd] in Hd. cbn [snd] in Hax, Hnx.
      destruct (member_accepted k x (S d) a q0 [] (s_stack st) Hax Ea Hnx) as (st1 & Hr1 & Hs1).
      + right; reflexivity.
      + reflexivity.
      + reflexivity.
      + cbn [s_depth q0]. lia.
      + cbn [s_depth s_top s_rng q0] in Hs1.
        destruct (obj_tail r Har (S d) body' st1 (ins_member jnorm [] (k, x)) (s_stack st) (s_depth st + 1) (s_top st) (s_rng st) Ec Hnr)
          as (st2 & Hr2 & Hs2); [lia|exact Hs1|].
        set (p2 := mkS MEndValue (FObjNext (fold_left (ins_member jnorm) r (ins_member jnorm [] (k, x))) :: s_stack st)
                       (s_depth st + 1) [] (s_top st) (s_rng st)) in *.
        destruct (settled_ws (nl ind d) st2 p2 Hs2 eq_refl ltac:(discriminate) (nl_space ind d)) as (q3 & Hr3 & Hs3).
        exists (123 :: (nl ind (S d) ++ (quote k ++ colon ind ++ a) ++ body') ++ nl ind d), 125, q3, p2.
        split; [cbn [app]; now rewrite <- (app_assoc _ (nl ind d) [125])|].
        split.
        * cbn [run]. rewrite Hopen. rewrite <- app_assoc, <- app_assoc, Hr1, run_app, Hr2. exact Hr3.
        * split; [|repeat split; reflexivity].
          rewrite (Hs3 125 eq_refl). reflexivity.
  Qed.

  (* ---- every value ---- *)

  Lemma scalar_stack : forall v st p, push_value v st = Some p ->
    s_mode p = MEndValue.
  Proof. intros. eapply push_value_mode; eauto. Qed.

  Theorem accepts_all : forall v, accepts v.
  Proof.
    induction v as [|bv|f|s|l IH|l IH] using jvalue_ind'.
    - intros d b st p He _ Hb _ _ Hp. cbn [enc_gen] in He. inversion He; subst b.
      exists p. split; [now apply null_accepted|]. apply settled_endvalue. eapply push_value_mode; eauto.
    - intros d b st p He _ Hb _ _ Hp. cbn [enc_gen] in He.
      exists p. split; [|apply settled_endvalue; eapply push_value_mode; eauto].
      destruct bv; inversion He; subst b; [now apply true_accepted|now apply false_accepted].
    - intros d b st p He Hnv Hb _ _ Hp. cbn [enc_gen] in He. inversion Hnv; subst.
      eapply number_accepted; eauto.
    - intros d b st p He _ Hb _ _ Hp. cbn [enc_gen] in He. inversion He; subst b.
      exists p. split; [now apply string_value_accepted|]. apply settled_endvalue. eapply push_value_mode; eauto.
    - apply accepts_of_body; [reflexivity|]. now apply arr_body.
    - apply accepts_of_body; [reflexivity|]. now apply obj_body.
  Qed.

  Lemma body_ok_container : forall v, is_container v = true -> body_ok v.
  Proof.
    intros [| | | |l|l] Hc; try discriminate.
    - apply arr_body. apply Forall_forall. intros x _. apply accepts_all.
    - apply obj_body. apply Forall_forall. intros x _. apply accepts_all.
  Qed.

  (* the complete encoding of v, from the start state, alone in the input *)
  Theorem enc_decodes : forall v b,
    enc_gen ind 0 v = Some b -> nums_sat P v -> jdepth v <= max_nesting_depth ->
    decode_next b = DValue (jnorm v) [].
  Proof.
    intros v b He Hnv Hd.
    assert (Hb : begin_mode s_init) by (split; [left; reflexivity|reflexivity]).
    destruct (is_container v) eqn:Hc.
    - destruct (body_ok_container v Hc 0%nat b s_init He Hnv Hb) as (body & cl & q & pin & Hbb & Hr & Hs & _ & _ & Hrng).
      { cbn [s_depth s_init]. lia. }
      unfold decode_next. subst b. rewrite (scan_run _ _ _ _ Hr), scan_cons, Hs.
      cbn [s_stack s_init close_container scan_res]. rewrite Hrng. reflexivity.
    - destruct (accepts_all v 0%nat b s_init (mkS MEndValue [] 0 [] (Some (jnorm v)) false) He Hnv Hb)
        as (st' & Hr & Hs).
      { cbn [s_depth s_init]. lia. }
      { now right. }
      { reflexivity. }
      unfold decode_next. apply scan_more_run in Hr. rewrite Hr. unfold at_eof.
      rewrite (Hs 32 eq_refl). reflexivity.
  Qed.
End Accept.

(* ------------------------------------------------------------------ *)
(* When the decoder gives back exactly the value                        *)

Definition key_lt (a b : bytes * jvalue) : Prop := bytes_cmp (fst a) (fst b) = Lt.

(* object keys strictly ascending in byte order (hence unique), recursively *)
Inductive wf_jvalue : jvalue -> Prop :=
| wf_null : wf_jvalue JNull
| wf_bool : forall b, wf_jvalue (JBool b)
| wf_num : forall f, wf_jvalue (JNum f)
| wf_str : forall s, wf_jvalue (JStr s)
| wf_arr : forall l, Forall wf_jvalue l -> wf_jvalue (JArr l)
| wf_obj : forall l, StronglySorted key_lt l -> Forall (fun kv => wf_jvalue (snd kv)) l -> wf_jvalue (JObj l).

(* every string and every key is valid UTF-8 *)
Inductive valid_utf8_strings : jvalue -> Prop :=
| vs_null : valid_utf8_strings JNull
| vs_bool : forall b, valid_utf8_strings (JBool b)
| vs_num : forall f, valid_utf8_strings (JNum f)
| vs_str : forall s, valid_utf8 s -> valid_utf8_strings (JStr s)
| vs_arr : forall l, Forall valid_utf8_strings l -> valid_utf8_strings (JArr l)
| vs_obj : forall l, Forall (fun kv => valid_utf8 (fst kv) /\ valid_utf8_strings (snd kv)) l ->
                     valid_utf8_strings (JObj l).

(* numbers: finite real float64 values.  (A value that marshals has only finite numbers.) *)
Definition finite_numbers (v : jvalue) : Prop := nums_valid v.

Lemma bytes_cmp_antisym : forall a b, bytes_cmp a b = CompOpp (bytes_cmp b a).
Proof.
  induction a as [|x a IH]; destruct b as [|y b]; cbn [bytes_cmp CompOpp]; try reflexivity.
  rewrite (N.compare_antisym y x). destruct (y ?= x); cbn [CompOpp]; auto.
Qed.

Lemma assoc_set_append : forall (k : bytes) (v : jvalue) f,
  Forall (fun kv => bytes_cmp (fst kv) k = Lt) f -> assoc_set k v f = f ++ [(k, v)].
Proof.
  induction f as [|[k' v'] r IH]; intro H; cbn [assoc_set app]; [reflexivity|].
  inversion H as [|? ? Hk Hr]; subst. cbn [fst] in Hk.
  rewrite bytes_cmp_antisym, Hk. cbn [CompOpp]. now rewrite IH.
Qed.

Lemma fold_ins_sorted : forall l f,
  StronglySorted key_lt l ->
  (forall a b, In a f -> In b l -> key_lt a b) ->
  Forall (fun kv => utf8_fix (fst kv) = fst kv /\ jnorm (snd kv) = snd kv) l ->
  fold_left (ins_member jnorm) l f = f ++ l.
Proof.
  induction l as [|[k x] r IH]; intros f Hs Hlt Hid; cbn [fold_left]; [now rewrite app_nil_r|].
  inversion Hs as [|? ? Hsr Hkr]; subst. inversion Hid as [|? ? [Hk Hx] Hidr]; subst.
  cbn [fst snd] in Hk, Hx.
  assert (Hins : ins_member jnorm f (k, x) = f ++ [(k, x)]).
  { unfold ins_member. cbn [fst snd]. rewrite Hk, Hx. apply assoc_set_append.
    apply Forall_forall. intros a Ha. exact (Hlt a (k, x) Ha (or_introl eq_refl)). }
  rewrite Hins, IH; [now rewrite <- app_assoc| exact Hsr | | exact Hidr].
  intros a b Ha Hb. apply in_app_or in Ha. destruct Ha as [Ha|[Ha|[]]].
  - apply Hlt; [exact Ha|now right].
  - subst a. rewrite Forall_forall in Hkr. now apply Hkr.
Qed.

Lemma jnorm_id : forall v, wf_jvalue v -> valid_utf8_strings v -> jnorm v = v.
Proof.
  induction v as [|bv|f|s|l IH|l IH] using jvalue_ind'; intros Hwf Hvs; try reflexivity.
  - inversion Hvs; subst. cbn [jnorm]. rewrite utf8_fix_valid by assumption. reflexivity.
  - inversion Hwf as [| | | |? Hl|]; subst. inversion Hvs as [| | | |? Hl2|]; subst.
    cbn [jnorm]. f_equal. clear Hwf Hvs. revert IH Hl Hl2.
    induction l as [|x r IHr]; intros IH Hl Hl2; [reflexivity|].
    inversion IH as [|? ? Hx Hr]; inversion Hl as [|? ? Hwx Hwr]; inversion Hl2 as [|? ? Hvx Hvr]; subst.
    cbn [map]. f_equal; [apply Hx; assumption|apply IHr; assumption].
  - inversion Hwf as [| | | | |? Hs Hl]; subst. inversion Hvs as [| | | | |? Hl2]; subst.
    rewrite jnorm_obj. f_equal. rewrite fold_ins_sorted; [reflexivity|exact Hs|intros a b []|].
    clear Hs Hwf Hvs. revert IH Hl Hl2.
    induction l as [|[k x] r IHr]; intros IH Hl Hl2; [constructor|].
    inversion IH as [|? ? Hx Hr]; inversion Hl as [|? ? Hwx Hwr]; inversion Hl2 as [|? ? [Hk Hvx] Hvr]; subst.
    cbn [fst snd] in *. constructor; [|apply IHr; assumption].
    cbn [fst snd]. split; [now apply utf8_fix_valid|apply Hx; assumption].
Qed.

(* equality of values with numbers compared by F64.f_same *)
Fixpoint jeq (a b : jvalue) : bool :=
  match a, b with
  | JNull, JNull => true
  | JBool x, JBool y => Bool.eqb x y
  | JNum x, JNum y => f_same x y
  | JStr x, JStr y => bytes_eqb x y
  | JArr x, JArr y =>
      (fix go (x y : list jvalue) : bool :=
         match x, y with
         | [], [] => true
         | a :: x', b :: y' => jeq a b && go x' y'
         | _, _ => false
         end) x y
  | JObj x, JObj y =>
      (fix go (x y : list (bytes * jvalue)) : bool :=
         match x, y with
         | [], [] => true
         | (k, a) :: x', (k', b) :: y' => bytes_eqb k k' && jeq a b && go x' y'
         | _, _ => false
         end) x y
  | _, _ => false
  end.

Lemma f_same_refl : forall x, f_same x x = true.
Proof.
  intros [s|s| |s m e]; cbn [f_same]; try reflexivity; try apply Bool.eqb_reflx.
  now rewrite Bool.eqb_reflx, Pos.eqb_refl, Z.eqb_refl.
Qed.

Lemma jeq_refl : forall v, jeq v v = true.
Proof.
  induction v as [|bv|f|s|l IH|l IH] using jvalue_ind'; cbn [jeq]; try reflexivity.
  - apply Bool.eqb_reflx.
  - apply f_same_refl.
  - apply bytes_eqb_refl.
  - induction IH as [|x r Hx Hr IHr]; [reflexivity|]. now rewrite Hx, IHr.
  - induction IH as [|[k x] r Hx Hr IHr]; [reflexivity|]. cbn [snd] in Hx. now rewrite bytes_eqb_refl, Hx, IHr.
Qed.

(* ------------------------------------------------------------------ *)
(* The theorems                                                         *)

Section Theorems.
  (* Facts about Num/F64's float formatting, to be discharged in Num/F64Proofs.v: the text
     format_json produces for a real float64 is a JSON number literal, and parse_float
     reads it back as the same float64. *)
  Hypothesis Hnum_syntax : forall x b,
    is_float64 x -> format_json x = Some b -> json_number b = true.
  Hypothesis Hnum_roundtrip : forall x b,
    is_float64 x -> format_json x = Some b -> parse_float b = PFok x.

  Lemma marshal_indent_inv : forall v b, marshal_indent v = Some b ->
    enc_gen true 0 v = Some b /\ jdepth v <= max_nesting_depth.
  Proof.
    intros v b H. unfold marshal_indent in H. destruct (jdepth v <=? max_nesting_depth) eqn:E; [|discriminate].
    split; [exact H|now apply N.leb_le].
  Qed.

  (* 1. what MarshalIndent writes is always one complete JSON value for the decoder, with
        nothing left over; the value read is jnorm v *)
  Theorem marshal_indent_decodes : forall v b, finite_numbers v -> marshal_indent v = Some b ->
    decode_next b = DValue (jnorm v) [].
  Proof.
    intros v b Hn H. destruct (marshal_indent_inv v b H) as [He Hd].
    exact (enc_decodes is_float64 Hnum_syntax Hnum_roundtrip true v b He Hn Hd).
  Qed.

  Theorem marshal_never_malformed : forall v b, finite_numbers v -> marshal_indent v = Some b ->
    exists v', decode_next b = DValue v' [].
  Proof. intros v b Hn H. exists (jnorm v). now apply marshal_indent_decodes. Qed.

  (* the same for json.Marshal; it has no depth limit of its own, the decoder has *)
  Theorem marshal_compact_decodes : forall v b, finite_numbers v -> jdepth v <= max_nesting_depth ->
    marshal_compact v = Some b -> decode_next b = DValue (jnorm v) [].
  Proof.
    intros v b Hn Hd H. exact (enc_decodes is_float64 Hnum_syntax Hnum_roundtrip false v b H Hn Hd).
  Qed.

  (* 2. round trip *)
  Theorem marshal_compact_roundtrip : forall v b,
    wf_jvalue v -> finite_numbers v -> valid_utf8_strings v -> jdepth v <= max_nesting_depth ->
    marshal_compact v = Some b -> decode_next b = DValue v [].
  Proof.
    intros v b Hwf Hn Hvs Hd H. rewrite (marshal_compact_decodes v b Hn Hd H). now rewrite jnorm_id.
  Qed.

  Theorem marshal_roundtrip_eq : forall v b,
    wf_jvalue v -> finite_numbers v -> valid_utf8_strings v ->
    marshal_indent v = Some b -> decode_next b = DValue v [].
  Proof.
    intros v b Hwf Hn Hvs H. rewrite (marshal_indent_decodes v b Hn H). now rewrite jnorm_id.
  Qed.

  Theorem marshal_roundtrip : forall v b,
    wf_jvalue v -> finite_numbers v -> valid_utf8_strings v ->
    marshal_indent v = Some b ->
    exists v', decode_next b = DValue v' [] /\ jeq v v' = true.
  Proof.
    intros v b Hwf Hn Hvs H. exists v. split; [now apply marshal_roundtrip_eq|apply jeq_refl].
  Qed.
End Theorems.

Print Assumptions marshal_never_malformed.
Print Assumptions marshal_indent_decodes.
Print Assumptions marshal_compact_decodes.
Print Assumptions marshal_compact_roundtrip.
Print Assumptions marshal_roundtrip_eq.
Print Assumptions marshal_roundtrip.
Print Assumptions string_escape_roundtrip.
Print Assumptions unquote_quote.
Print Assumptions decode_next_consumes.
Print Assumptions decode_prefix_stable.
Print Assumptions decode_container_stable.
Print Assumptions dec_step_decode_next.
Print Assumptions chunking_independent.
Print Assumptions chunking_independent_readers.
Print Assumptions reads_minimal.
Print Assumptions buffered_container_no_read.
