(* JsonProofs: the encoder's output is always accepted by the decoder and decodes back to the
   value (round trip), plus the re-exported string / prefix-stability / streaming theorems.
   No axioms.  The two facts about float formatting that belong to Num/F64 are Section
   hypotheses (Hnum_syntax, Hnum_roundtrip) so that they can be discharged there. *)
From Coq Require Import NArith ZArith List Bool Lia Sorted.
From JQ Require Import Base.Bytes Num.F64 Json.JValue Json.Decode Json.Encode.
From JQ Require Export Json.ScanLemmas Json.StringProofs Json.StreamProofs.
Import ListNotations.
Local Open Scope N_scope.

(* ------------------------------------------------------------------ *)
(* The JSON number grammar (optional minus; 0 or a non-zero digit followed by digits; optional
   fraction: point and at least one digit; optional exponent: e or E, optional sign, at least
   one digit) as the DFA that scanner.go implements (states = the scanner's state1, state0, ...) *)

Definition num_next (m : mode) (c : byte) : option mode :=
  match m with
  | MBeginValue | MNeg =>
      if (c =? 45) && match m with MBeginValue => true | _ => false end then Some MNeg
      else if c =? 48 then Some M0
      else if is_digit19 c then Some M1
      else None
  | M1 =>
      if is_ascii_digit c then Some M1
      else if c =? 46 then Some MDot
      else if is_e c then Some ME
      else None
  | M0 => if c =? 46 then Some MDot else if is_e c then Some ME else None
  | MDot => if is_ascii_digit c then Some MDot0 else None
  | MDot0 => if is_ascii_digit c then Some MDot0 else if is_e c then Some ME else None
  | ME => if (c =? 43) || (c =? 45) then Some MESign else if is_ascii_digit c then Some ME0 else None
  | MESign => if is_ascii_digit c then Some ME0 else None
  | ME0 => if is_ascii_digit c then Some ME0 else None
  | _ => None
  end.

Fixpoint num_run (m : mode) (b : bytes) : option mode :=
  match b with
  | [] => Some m
  | c :: r => match num_next m c with Some m' => num_run m' r | None => None end
  end.

Definition num_final (m : mode) : bool :=
  match m with M0 | M1 | MDot0 | ME0 => true | _ => false end.

(* b is a JSON number literal *)
Definition json_number (b : bytes) : bool :=
  match num_run MBeginValue b with Some m => num_final m | None => false end.

(* a byte that cannot continue a complete number literal *)
Definition num_term (c : byte) : bool := negb (is_ascii_digit c || (c =? 46) || is_e c).

(* ------------------------------------------------------------------ *)
(* Small facts about states                                             *)

Definition with_lit (st : sstate) (m : mode) (lit : bytes) : sstate :=
  mkS m (s_stack st) (s_depth st) lit (s_top st) (s_rng st).

Lemma lit_mode_eq : forall st m c, lit_mode st m c = RCont (with_lit st m (c :: s_lit st)).
Proof. reflexivity. Qed.

Lemma push_value_with_lit : forall v st m lit, push_value v (with_lit st m lit) = push_value v st.
Proof. intros. unfold push_value, with_lit. cbn [s_stack s_depth s_top s_rng]. reflexivity. Qed.

Lemma push_value_same : forall v st st',
  s_stack st = s_stack st' -> s_depth st = s_depth st' -> s_top st = s_top st' -> s_rng st = s_rng st' ->
  push_value v st = push_value v st'.
Proof. intros v st st' H1 H2 H3 H4. unfold push_value. now rewrite H1, H2, H3, H4. Qed.

Definition begin_mode (st : sstate) : Prop :=
  (s_mode st = MBeginValue \/ s_mode st = MBeginValueOrEmpty) /\ s_lit st = [].

Lemma step_begin : forall st c, begin_mode st -> is_space c = false -> c <> 93 ->
  step st c = step_beginvalue st c.
Proof.
  intros st c [[Hm|Hm] _] Hs Hc; unfold step; rewrite Hm; [reflexivity|].
  rewrite Hs. apply N.eqb_neq in Hc. now rewrite Hc.
Qed.

Lemma step_beginvalue_nospace : forall st c, is_space c = false ->
  step_beginvalue st c =
  (if c =? 123 then open_container st MBeginStringOrEmpty (FObjKey [])
   else if c =? 91 then open_container st MBeginValueOrEmpty (FArr [])
   else if c =? 34 then lit_mode st MInString c
   else if c =? 45 then lit_mode st MNeg c
   else if c =? 48 then lit_mode st M0 c
   else if c =? 116 then lit_mode st MT c
   else if c =? 102 then lit_mode st MF c
   else if c =? 110 then lit_mode st MN c
   else if is_digit19 c then lit_mode st M1 c
   else RErr).
Proof. intros st c Hs. unfold step_beginvalue. now rewrite Hs. Qed.

(* the value completed in state st' is delivered like push_value would: on every byte that
   ends a literal, st' behaves as the stateEndValue state p *)
Definition settled (st' p : sstate) : Prop :=
  forall c, num_term c = true -> step st' c = step_endvalue p c.

Lemma settled_endvalue : forall p, s_mode p = MEndValue -> settled p p.
Proof. intros p Hm c _. unfold step. now rewrite Hm. Qed.

Lemma push_value_mode : forall v st p, push_value v st = Some p -> s_mode p = MEndValue.
Proof.
  intros v st p H. unfold push_value in H.
  destruct (s_stack st) as [|[items|f|f k|f k|f] r]; inversion H; reflexivity.
Qed.

(* ------------------------------------------------------------------ *)
(* Numbers                                                              *)

Lemma num_next_step : forall st c m',
  s_mode st <> MBeginValue -> num_next (s_mode st) c = Some m' ->
  step st c = RCont (with_lit st m' (c :: s_lit st)).
Proof.
  intros st c m' Hnb H. unfold step. destruct (s_mode st) eqn:Em; cbn [num_next] in H; try discriminate;
    try contradiction;
    unfold step0, step_esign; rewrite ?andb_false_r in H; cbn [andb] in H;
    repeat match type of H with
           | context [if ?b then _ else _] => destruct b eqn:?; cbn [orb] in H
           end; try discriminate; inversion H; subst; try reflexivity.
Qed.

Lemma num_first_step : forall st c m', begin_mode st ->
  num_next MBeginValue c = Some m' -> step st c = RCont (with_lit st m' [c]).
Proof.
  intros st c m' Hb H. destruct Hb as [Hm Hl].
  assert (Hlit : forall m, lit_mode st m c = RCont (with_lit st m [c])) by (intro m; now rewrite lit_mode_eq, Hl).
  cbn [num_next] in H. rewrite andb_true_r in H.
  destruct (c =? 45) eqn:E1.
  { apply N.eqb_eq in E1; subst c. inversion H; subst.
    rewrite step_begin; [|split; auto|reflexivity|discriminate]. apply Hlit. }
  destruct (c =? 48) eqn:E2.
  { apply N.eqb_eq in E2; subst c. inversion H; subst.
    rewrite step_begin; [|split; auto|reflexivity|discriminate]. apply Hlit. }
  destruct (is_digit19 c) eqn:E3; [|discriminate]. inversion H; subst.
  unfold is_digit19 in E3. apply andb_true_iff in E3. destruct E3 as [Ha Hb]. apply N.leb_le in Ha, Hb.
  assert (Hs : is_space c = false).
  { unfold is_space. repeat (apply orb_false_iff; split); apply N.eqb_neq; lia. }
  rewrite step_begin; [|split; auto|exact Hs|lia].
  rewrite step_beginvalue_nospace by exact Hs.
  replace (c =? 123) with false by (symmetry; apply N.eqb_neq; lia).
  replace (c =? 91) with false by (symmetry; apply N.eqb_neq; lia).
  replace (c =? 34) with false by (symmetry; apply N.eqb_neq; lia).
  rewrite E1, E2.
  replace (c =? 116) with false by (symmetry; apply N.eqb_neq; lia).
  replace (c =? 102) with false by (symmetry; apply N.eqb_neq; lia).
  replace (c =? 110) with false by (symmetry; apply N.eqb_neq; lia).
  replace (is_digit19 c) with true; [apply Hlit|].
  symmetry. unfold is_digit19. apply andb_true_iff. split; apply N.leb_le; lia.
Qed.

Lemma num_next_not_begin : forall m c m', num_next m c = Some m' -> m' <> MBeginValue.
Proof.
  intros m c m' H. destruct m; cbn [num_next] in H; try discriminate;
    repeat match type of H with
           | context [if ?b then _ else _] => destruct b
           end; try discriminate; inversion H; discriminate.
Qed.

Lemma num_run_steps : forall b st m',
  s_mode st <> MBeginValue -> num_run (s_mode st) b = Some m' ->
  run st b = Some (with_lit st m' (rev_append b (s_lit st))).
Proof.
  induction b as [|c b IH]; intros st m' Hnb H; cbn [num_run run rev_append] in *.
  - inversion H; subst. destruct st; reflexivity.
  - destruct (num_next (s_mode st) c) as [m1|] eqn:E; [|discriminate].
    rewrite (num_next_step _ _ _ Hnb E).
    assert (Hm1 : m1 <> MBeginValue) by (eapply num_next_not_begin; eauto).
    exact (IH (with_lit st m1 (c :: s_lit st)) m' Hm1 H).
Qed.

(* A number literal b read from a begin state: all of b is collected, and the first byte that
   cannot continue it delivers the number *)
Lemma number_accepted : forall b f st p,
  json_number b = true -> parse_float b = PFok f ->
  begin_mode st -> push_value (JNum f) st = Some p ->
  exists st', run st b = Some st' /\ settled st' p.
Proof.
  intros b f st p Hj Hpf Hb Hp. unfold json_number in Hj.
  destruct b as [|c b]; [discriminate|]. cbn [num_run] in Hj.
  destruct (num_next MBeginValue c) as [m1|] eqn:E1; [|discriminate].
  destruct (num_run m1 b) as [m'|] eqn:E2; [|discriminate].
  pose proof (num_first_step st c m1 Hb E1) as Hs1.
  assert (Hm1 : m1 <> MBeginValue) by (eapply num_next_not_begin; eauto).
  pose proof (num_run_steps b (with_lit st m1 [c]) m' Hm1 E2) as Hr.
  cbn [s_lit with_lit] in Hr.
  exists (with_lit (with_lit st m1 [c]) m' (rev_append b [c])). split.
  - cbn [run]. rewrite Hs1. exact Hr.
  - intros t Ht. unfold num_term in Ht. apply negb_true_iff in Ht.
    apply orb_false_iff in Ht. destruct Ht as [Ht He]. apply orb_false_iff in Ht. destruct Ht as [Hd Hdot].
    set (st' := with_lit (with_lit st m1 [c]) m' (rev_append b [c])).
    assert (Hend : end_number st' t = step_endvalue p t).
    { unfold end_number, finish_number. subst st'. cbn [s_lit with_lit].
      replace (lrev (rev_append b [c])) with (c :: b).
      2:{ rewrite lrev_eq, rev_append_rev, rev_app_distr, rev_involutive. reflexivity. }
      rewrite Hpf.
      rewrite (push_value_same (JNum f) _ st) by reflexivity. rewrite Hp. reflexivity. }
    rewrite <- Hend. unfold step. subst st'. cbn [s_mode with_lit].
    destruct m'; try discriminate; unfold step0; rewrite ?Hd, ?Hdot, ?He; reflexivity.
Qed.

(* ------------------------------------------------------------------ *)
(* White space after a settled value                                    *)

Lemma is_space_term : forall c, is_space c = true -> num_term c = true.
Proof.
  intros c H. unfold is_space in H.
  repeat (apply orb_true_iff in H; destruct H as [H|H]); apply N.eqb_eq in H; subst; reflexivity.
Qed.

Lemma set_mode_same : forall p, s_mode p = MEndValue -> set_mode p MEndValue = p.
Proof. intros [m stk d lit top rng] H. cbn in H. subst. reflexivity. Qed.

Lemma settled_ws : forall w st' p,
  settled st' p -> s_mode p = MEndValue -> s_stack p <> [] -> forallb is_space w = true ->
  exists q, run st' w = Some q /\ settled q p.
Proof.
  intros w st' p Hs Hm Hstk Hw. destruct w as [|c w]; [exists st'; split; [reflexivity|exact Hs]|].
  cbn [forallb] in Hw. apply andb_true_iff in Hw. destruct Hw as [Hc Hw].
  exists p. split; [|now apply settled_endvalue].
  cbn [run]. rewrite (Hs c (is_space_term c Hc)). unfold step_endvalue.
  destruct (s_stack p) eqn:Es; [contradiction|]. rewrite Hc, set_mode_same by exact Hm.
  apply run_ws; [|exact Hw]. unfold ws_mode. rewrite Hm, Es. discriminate.
Qed.

Lemma nl_space : forall ind d, forallb is_space (nl ind d) = true.
Proof.
  intros [|] d; [|reflexivity]. unfold nl. cbn [forallb]. cbn [is_space N.eqb Pos.eqb orb andb].
  induction (2 * d)%nat as [|n IH]; [reflexivity|]. cbn [repeat_byte forallb]. now rewrite IH.
Qed.

(* ------------------------------------------------------------------ *)
(* Strings and the three literals                                       *)

Lemma lrev_quote : forall s, lrev (34 :: rev_append (qbody s) [34]) = quote s.
Proof.
  intro s. rewrite lrev_eq. cbn [rev]. rewrite rev_append_rev, rev_app_distr, rev_involutive.
  unfold quote. reflexivity.
Qed.

Lemma in_string_with_lit : forall st lit, in_string st lit = with_lit st MInString lit.
Proof. reflexivity. Qed.

(* after the opening quote: the body and the closing quote *)
Lemma string_tail_run : forall s st,
  run (in_string st [34]) (qbody s ++ [34]) =
  match finish_string (in_string st (rev_append (qbody s) [34])) with
  | RCont st' => Some st'
  | _ => None
  end.
Proof.
  intros s st. rewrite run_app, run_qbody. cbn [run].
  unfold step at 1. cbn [s_mode in_string]. cbn [N.eqb Pos.eqb].
  destruct (finish_string _); reflexivity.
Qed.

Lemma string_value_accepted : forall s st p,
  begin_mode st -> push_value (JStr (utf8_fix s)) st = Some p -> run st (quote s) = Some p.
Proof.
  intros s st p Hb Hp. unfold quote. cbn [run].
  rewrite step_begin; [|exact Hb|reflexivity|discriminate].
  rewrite step_beginvalue_nospace by reflexivity. cbn [N.eqb Pos.eqb].
  rewrite lit_mode_eq. destruct Hb as [_ Hl]. rewrite Hl.
  change (with_lit st MInString [34]) with (in_string st [34]).
  rewrite string_tail_run. unfold finish_string. cbn [s_lit in_string].
  rewrite lrev_quote, unquote_quote. cbn [s_stack in_string].
  rewrite (push_value_same (JStr (utf8_fix s)) _ st) by reflexivity. rewrite Hp.
  unfold push_value in Hp.
  destruct (s_stack st) as [|[items|f|f k|f k|f] r]; try discriminate; reflexivity.
Qed.

Lemma string_key_accepted : forall k st f r,
  (s_mode st = MBeginString \/ s_mode st = MBeginStringOrEmpty) -> s_lit st = [] ->
  s_stack st = FObjKey f :: r ->
  run st (quote k) = Some (mkS MEndValue (FObjColon f (utf8_fix k) :: r) (s_depth st) [] (s_top st) (s_rng st)).
Proof.
  intros k st f r Hm Hl Hstk. unfold quote. cbn [run].
  assert (Hs : step st 34 = RCont (in_string st [34])).
  { unfold step. destruct Hm as [Hm|Hm]; rewrite Hm; cbn [is_space N.eqb Pos.eqb orb];
      unfold step_beginstring; cbn [is_space N.eqb Pos.eqb orb]; rewrite lit_mode_eq, Hl; reflexivity. }
  rewrite Hs, string_tail_run. unfold finish_string. cbn [s_lit in_string].
  rewrite lrev_quote, unquote_quote. cbn [s_stack s_depth s_top s_rng in_string]. rewrite Hstk. reflexivity.
Qed.

Ltac lit_steps :=
  repeat (cbn [run]; unfold step at 1; cbn [s_mode with_lit]; unfold expect, expect_last;
          cbn [N.eqb Pos.eqb]; rewrite ?lit_mode_eq).

Lemma null_accepted : forall st p, begin_mode st -> push_value JNull st = Some p -> run st (bs "null") = Some p.
Proof.
  intros st p Hb Hp. change (bs "null") with [110; 117; 108; 108]. cbn [run].
  rewrite step_begin; [|exact Hb|reflexivity|discriminate].
  rewrite step_beginvalue_nospace by reflexivity. cbn [N.eqb Pos.eqb]. rewrite lit_mode_eq.
  lit_steps. rewrite (push_value_same JNull _ st) by reflexivity. rewrite Hp. reflexivity.
Qed.

Lemma true_accepted : forall st p, begin_mode st -> push_value (JBool true) st = Some p -> run st (bs "true") = Some p.
Proof.
  intros st p Hb Hp. change (bs "true") with [116; 114; 117; 101]. cbn [run].
  rewrite step_begin; [|exact Hb|reflexivity|discriminate].
  rewrite step_beginvalue_nospace by reflexivity. cbn [N.eqb Pos.eqb]. rewrite lit_mode_eq.
  lit_steps. rewrite (push_value_same (JBool true) _ st) by reflexivity. rewrite Hp. reflexivity.
Qed.

Lemma false_accepted : forall st p, begin_mode st -> push_value (JBool false) st = Some p -> run st (bs "false") = Some p.
Proof.
  intros st p Hb Hp. change (bs "false") with [102; 97; 108; 115; 101]. cbn [run].
  rewrite step_begin; [|exact Hb|reflexivity|discriminate].
  rewrite step_beginvalue_nospace by reflexivity. cbn [N.eqb Pos.eqb]. rewrite lit_mode_eq.
  lit_steps. rewrite (push_value_same (JBool false) _ st) by reflexivity. rewrite Hp. reflexivity.
Qed.
