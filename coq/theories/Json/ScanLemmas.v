(* ScanLemmas: basic facts about the automaton of Decode.v that all Json proofs share. *)
From Coq Require Import NArith List Bool Lia.
From JQ Require Import Base.Bytes Num.F64 Json.JValue Json.Decode.
Import ListNotations.
Local Open Scope N_scope.

(* the automaton runs over s without finishing or failing *)
Fixpoint run (st : sstate) (s : bytes) : option sstate :=
  match s with
  | [] => Some st
  | c :: r => match step st c with RCont st' => run st' r | _ => None end
  end.

(* what scan does after the step on byte c (rest = the bytes behind c) *)
Definition scan_res (res : sres) (c : byte) (rest : bytes) : scan_out :=
  match res with
  | RCont st' => scan st' rest
  | RDone v rng consumed => ScDone v rng (if consumed then rest else c :: rest)
  | RErr => ScErr
  | RBug => ScBug
  end.

Lemma scan_cons : forall st c rest, scan st (c :: rest) = scan_res (step st c) c rest.
Proof. reflexivity. Qed.

Lemma lrev_eq : forall (A : Type) (l : list A), lrev l = rev l.
Proof. intros A l. unfold lrev. now rewrite rev_append_rev, app_nil_r. Qed.

Lemma run_app : forall a b st,
  run st (a ++ b) = match run st a with Some st' => run st' b | None => None end.
Proof.
  induction a as [|c a IH]; intros b st; cbn [app run]; [reflexivity|].
  destruct (step st c); try reflexivity. apply IH.
Qed.

Lemma run_app_some : forall a b st st1 st2,
  run st a = Some st1 -> run st1 b = Some st2 -> run st (a ++ b) = Some st2.
Proof. intros a b st st1 st2 H1 H2. now rewrite run_app, H1. Qed.

Lemma scan_run : forall a b st st', run st a = Some st' -> scan st (a ++ b) = scan st' b.
Proof.
  induction a as [|c a IH]; intros b st st' H; cbn [app run scan] in *.
  - now inversion H.
  - destruct (step st c); try discriminate. now apply IH.
Qed.

Lemma scan_more_run : forall s st st', scan st s = ScMore st' <-> run st s = Some st'.
Proof.
  induction s as [|c s IH]; intros st st'; cbn [scan run].
  - split; intro H; inversion H; reflexivity.
  - destruct (step st c); try (split; discriminate). apply IH.
Qed.

(* scanning a concatenation *)
Lemma scan_app : forall a b st,
  scan st (a ++ b) =
  match scan st a with
  | ScMore st' => scan st' b
  | ScDone v rng rest => ScDone v rng (rest ++ b)
  | ScErr => ScErr
  | ScBug => ScBug
  end.
Proof.
  induction a as [|c a IH]; intros b st; cbn [app scan]; [reflexivity|].
  destruct (step st c) as [st'|v rng consumed| |]; try reflexivity.
  - apply IH.
  - now destruct consumed.
Qed.

(* a finished scan: the consumed prefix, and how the end was recognised *)
Lemma scan_done_inv : forall s st v rng rest,
  scan st s = ScDone v rng rest ->
  exists used st',
    run st used = Some st' /\
    ((exists c, s = used ++ c :: rest /\ step st' c = RDone v rng true)
     \/ (exists c r, rest = c :: r /\ s = used ++ rest /\ step st' c = RDone v rng false)).
Proof.
  induction s as [|c s IH]; intros st v rng rest H; cbn [scan] in H; [discriminate|].
  destruct (step st c) as [st1|v1 rng1 consumed| |] eqn:E; try discriminate.
  - destruct (IH _ _ _ _ H) as (used & st' & Hr & Hc).
    exists (c :: used), st'. split; [cbn [run]; now rewrite E|].
    destruct Hc as [(c' & Hs & Hd)|(c' & r & Hrest & Hs & Hd)].
    + left. exists c'. now rewrite Hs.
    + right. exists c', r. now rewrite Hs.
  - inversion H; subst. exists [], st. split; [reflexivity|].
    destruct consumed.
    + left. now exists c.
    + right. now exists c, s.
Qed.

(* white space is skipped in the modes that wait for a token *)
Definition ws_mode (st : sstate) : Prop :=
  match s_mode st with
  | MBeginValue | MBeginValueOrEmpty | MBeginStringOrEmpty | MBeginString => True
  | MEndValue => s_stack st <> []
  | _ => False
  end.

Lemma step_ws : forall st c, ws_mode st -> is_space c = true -> step st c = RCont st.
Proof.
  intros st c Hm Hc. unfold ws_mode in Hm. unfold step.
  destruct st as [m stk d lit top rng]; cbn [s_mode s_stack] in *.
  destruct m; try contradiction;
    unfold step_beginvalue, step_beginstring, step_endvalue, set_mode;
    cbn [s_mode s_stack s_depth s_lit s_top s_rng]; rewrite ?Hc; try reflexivity.
  destruct stk; [contradiction|]. reflexivity.
Qed.

Lemma run_ws : forall w st, ws_mode st -> forallb is_space w = true -> run st w = Some st.
Proof.
  induction w as [|c w IH]; intros st Hm Hw; cbn [run]; [reflexivity|].
  cbn [forallb] in Hw. apply andb_true_iff in Hw. destruct Hw as [Hc Hw].
  rewrite step_ws by assumption. now apply IH.
Qed.
