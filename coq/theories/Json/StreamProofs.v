(* StreamProofs: what one Decode call consumes, prefix stability (a complete value never
   depends on later bytes), chunking independence of the streaming decoder and minimality of
   its Read calls.  No axioms. *)
From Coq Require Import NArith List Bool Lia.
From JQ Require Import Base.Bytes Num.F64 Json.JValue Json.Decode Json.ScanLemmas.
Import ListNotations.
Local Open Scope N_scope.

(* ------------------------------------------------------------------ *)
(* The start state never finishes a value                               *)

Lemma step_init_cont_or_err : forall c, (exists st, step s_init c = RCont st) \/ step s_init c = RErr.
Proof.
  intro c. unfold step, s_init; cbn [s_mode]. unfold step_beginvalue, open_container, lit_mode.
  cbn [s_depth s_stack s_lit s_top s_rng].
  repeat match goal with
         | |- context [if ?b then _ else _] => destruct b
         end; eauto.
Qed.

Lemma step_init_not_done : forall c v rng k, step s_init c <> RDone v rng k.
Proof.
  intros c v rng k H. destruct (step_init_cont_or_err c) as [[st E]|E]; rewrite E in H; discriminate.
Qed.

Lemma at_eof_init : at_eof s_init [] = EoEof.
Proof. reflexivity. Qed.

(* ------------------------------------------------------------------ *)
(* 4a. a Decode call consumes a non-empty prefix                        *)

Theorem decode_next_consumes : forall s v rest,
  decode_next s = DValue v rest -> exists used, s = used ++ rest /\ used <> [].
Proof.
  intros s v rest H. unfold decode_next in H.
  destruct (scan s_init s) as [v0 rng rest0| | |st] eqn:E.
  - destruct rng; [discriminate|]. inversion H; subst v0 rest0.
    destruct (scan_done_inv _ _ _ _ _ E) as (used & st' & Hr & [(c & Hs & Hd)|(c & r & Hrest & Hs & Hd)]).
    + exists (used ++ [c]). split; [now rewrite <- app_assoc|]. now destruct used.
    + exists used. split; [assumption|]. intro Hu. subst used. cbn [run] in Hr. inversion Hr; subst st'.
      now apply step_init_not_done in Hd.
  - discriminate.
  - discriminate.
  - destruct (at_eof st s) as [v0 rng| | |] eqn:Ea; try discriminate.
    destruct rng; [discriminate|]. inversion H; subst v0 rest.
    exists s. split; [now rewrite app_nil_r|]. intro Hs. subst s. cbn [scan] in E. inversion E; subst st.
    rewrite at_eof_init in Ea. discriminate.
Qed.
Print Assumptions decode_next_consumes.

(* ------------------------------------------------------------------ *)
(* 4b. prefix stability                                                 *)

(* How the end of the value was recognised: by its own closing bracket (then nothing behind
   it matters), by the one look-ahead byte c (then nothing behind c matters), or by the end
   of the input. *)
Theorem decode_prefix_stable : forall s v rest,
  decode_next s = DValue v rest ->
  exists used, s = used ++ rest /\ used <> [] /\
    ((forall t, decode_next (used ++ t) = DValue v t)
     \/ (exists c r, rest = c :: r /\ forall t, decode_next (used ++ c :: t) = DValue v (c :: t))
     \/ rest = []).
Proof.
  intros s v rest H. destruct (decode_next_consumes _ _ _ H) as (used0 & Hs0 & Hne0).
  unfold decode_next in H.
  destruct (scan s_init s) as [v0 rng rest0| | |st] eqn:E; try discriminate.
  - destruct rng; [discriminate|]. inversion H; subst v0 rest0.
    destruct (scan_done_inv _ _ _ _ _ E) as (used & st' & Hr & [(c & Hs & Hd)|(c & r & Hrest & Hs & Hd)]).
    + exists (used ++ [c]). split; [now rewrite <- app_assoc|]. split; [now destruct used|].
      left. intro t. unfold decode_next. rewrite <- app_assoc. cbn [app].
      rewrite (scan_run _ _ _ _ Hr), scan_cons, Hd. reflexivity.
    + exists used. split; [assumption|]. split.
      * intro Hu. subst used. cbn [run] in Hr. inversion Hr; subst st'. now apply step_init_not_done in Hd.
      * right. left. exists c, r. split; [assumption|]. intro t. unfold decode_next.
        rewrite (scan_run _ _ _ _ Hr), scan_cons, Hd. reflexivity.
  - destruct (at_eof st s) as [v0 rng| | |]; try discriminate.
    destruct rng; [discriminate|]. inversion H; subst v0 rest.
    exists used0. repeat split; auto.
Qed.
Print Assumptions decode_prefix_stable.

(* A completed top-level scalar is kept in s_top; containers never are. *)
Definition is_container (v : jvalue) : bool :=
  match v with JArr _ | JObj _ => true | _ => false end.

Definition top_scalar (st : sstate) : Prop :=
  match s_top st with Some v => is_container v = false | None => True end.

Lemma push_value_top_scalar : forall v st st',
  top_scalar st -> (s_stack st = [] -> is_container v = false) ->
  push_value v st = Some st' -> top_scalar st'.
Proof.
  intros v st st' Ht Hv H. unfold push_value in H. unfold top_scalar in *.
  destruct (s_stack st) as [|[items|f|f k|f k|f] r]; inversion H; subst; cbn [s_top]; auto.
Qed.

Lemma step_endvalue_top_scalar : forall st c,
  top_scalar st ->
  match step_endvalue st c with
  | RCont st' => top_scalar st'
  | RDone v _ false => is_container v = false
  | _ => True
  end.
Proof.
  intros st c Ht. unfold step_endvalue.
  destruct (s_stack st) as [|fr r] eqn:Es.
  - unfold top_scalar in Ht. destruct (s_top st); auto.
  - destruct (is_space c); [exact Ht|].
    assert (Hclose : forall v, match close_container v r st with
                               | RCont st' => top_scalar st' | RDone v0 _ false => is_container v0 = false | _ => True end).
    { intro v. unfold close_container. destruct r as [|fr' r'] eqn:Er; [exact I|].
      unfold cont_opt.
      destruct (push_value v _) as [st'|] eqn:Ep; [|exact I].
      eapply push_value_top_scalar; [| |exact Ep]; cbn [s_top s_stack]; [exact Ht|discriminate]. }
    destruct fr as [items|f|f k|f k|f]; try exact I.
    + destruct (c =? 44); [exact Ht|]. destruct (c =? 93); [apply Hclose|exact I].
    + destruct (c =? 58); [exact Ht|exact I].
    + destruct (c =? 44); [exact Ht|]. destruct (c =? 125); [apply Hclose|exact I].
Qed.

Lemma step_top_scalar : forall st c,
  top_scalar st ->
  match step st c with
  | RCont st' => top_scalar st'
  | RDone v _ false => is_container v = false
  | _ => True
  end.
Proof.
  intros st c Ht.
  assert (Hlit : forall m, match lit_mode st m c with
                           | RCont st' => top_scalar st' | RDone v _ false => is_container v = false | _ => True end)
    by (intro m; exact Ht).
  assert (Hpush : forall v st0, top_scalar st0 -> is_container v = false ->
                    match cont_opt (push_value v st0) with
                    | RCont st' => top_scalar st' | RDone v0 _ false => is_container v0 = false | _ => True end).
  { intros v st0 Ht0 Hv. unfold cont_opt. destruct (push_value v st0) eqn:Ep; [|exact I].
    eapply push_value_top_scalar; [exact Ht0| |exact Ep]. auto. }
  assert (Hnum : match end_number st c with
                 | RCont st' => top_scalar st' | RDone v _ false => is_container v = false | _ => True end).
  { unfold end_number, finish_number.
    destruct (parse_float (lrev (s_lit st))) as [f|f| |]; try exact I.
    - destruct (push_value (JNum f) st) as [st'|] eqn:Ep; [|exact I].
      apply step_endvalue_top_scalar. eapply push_value_top_scalar; [exact Ht| |exact Ep]. auto.
    - destruct (push_value (JNum f) _) as [st'|] eqn:Ep; [|exact I].
      apply step_endvalue_top_scalar. eapply push_value_top_scalar; [| |exact Ep]; [exact Ht|auto]. }
  assert (Hbv : match step_beginvalue st c with
                | RCont st' => top_scalar st' | RDone v _ false => is_container v = false | _ => True end).
  { unfold step_beginvalue, open_container.
    repeat match goal with
           | |- context [if ?b then _ else _] => destruct b
           end; first [exact I | exact Ht | apply Hlit]. }
  assert (Hbs : match step_beginstring st c with
                | RCont st' => top_scalar st' | RDone v _ false => is_container v = false | _ => True end).
  { unfold step_beginstring.
    repeat match goal with
           | |- context [if ?b then _ else _] => destruct b
           end; first [exact I | exact Ht | apply Hlit]. }
  unfold step.
  destruct (s_mode st); unfold step0, step_esign, step_hex, expect, expect_last;
    repeat match goal with
           | |- context [if ?b then _ else _] => destruct b
           end;
    try first [ exact I | exact Ht | exact Hnum | exact Hbv | exact Hbs
              | apply Hlit
              | apply step_endvalue_top_scalar; exact Ht
              | apply Hpush; [exact Ht|reflexivity] ].
  - (* '}' in BeginStringOrEmpty *)
    destruct (s_stack st) as [|[items|f|f k|f k|f] r]; try exact I.
    unfold close_container. destruct r; [exact I|].
    unfold cont_opt. destruct (push_value _ _) eqn:Ep; [|exact I].
    eapply push_value_top_scalar; [| |exact Ep]; cbn [s_top s_stack]; [exact Ht|discriminate].
  - (* closing quote *)
    unfold finish_string. destruct (unquote _); [|exact I].
    destruct (s_stack st) as [|[items|f|f k|f k|f] r] eqn:Es;
      try (apply Hpush; [exact Ht|reflexivity]).
    exact Ht.
Qed.

Lemma run_top_scalar : forall s st st', top_scalar st -> run st s = Some st' -> top_scalar st'.
Proof.
  induction s as [|c s IH]; intros st st' Ht H; cbn [run] in H.
  - now inversion H; subst.
  - pose proof (step_top_scalar st c Ht) as Hs. destruct (step st c); try discriminate. eauto.
Qed.

(* a space never closes a container *)
Lemma step_space_not_closing : forall st v rng, step st 32 <> RDone v rng true.
Proof.
  intros st v rng Es. unfold step in Es.
  assert (Hev : forall st0 v rng, step_endvalue st0 32 <> RDone v rng true).
  { intros st0 v0 rng0. unfold step_endvalue. destruct (s_stack st0); [destruct (s_top st0); discriminate|].
    cbn [is_space N.eqb Pos.eqb orb]. discriminate. }
  destruct st as [m stk d lit top rng0]; cbn [s_mode] in Es.
  destruct m; cbn in Es; try discriminate; try (now apply Hev in Es);
    unfold end_number in Es;
    repeat match type of Es with
           | context [match ?x with _ => _ end] => destruct x eqn:?; try discriminate
           end; try (now apply Hev in Es).
Qed.

(* the container case of prefix stability: nothing behind the closing bracket matters *)
Lemma container_scan_stable : forall s v rest,
  decode_next s = DValue v rest -> is_container v = true ->
  exists used, s = used ++ rest /\ used <> [] /\ forall t, scan s_init (used ++ t) = ScDone v false t.
Proof.
  intros s v rest H Hc.
  assert (Hinit : top_scalar s_init) by exact I.
  unfold decode_next in H.
  destruct (scan s_init s) as [v0 rng rest0| | |st] eqn:E; try discriminate.
  - destruct rng; [discriminate|]. inversion H; subst v0 rest0.
    destruct (scan_done_inv _ _ _ _ _ E) as (used & st' & Hr & [(c & Hs & Hd)|(c & r & Hrest & Hs & Hd)]).
    + exists (used ++ [c]). split; [now rewrite <- app_assoc|]. split; [now destruct used|].
      intro t. rewrite <- app_assoc. cbn [app].
      rewrite (scan_run _ _ _ _ Hr), scan_cons, Hd. reflexivity.
    + exfalso. pose proof (step_top_scalar st' c (run_top_scalar _ _ _ Hinit Hr)) as Hst.
      rewrite Hd in Hst. congruence.
  - exfalso. apply scan_more_run in E. pose proof (run_top_scalar _ _ _ Hinit E) as Ht.
    unfold at_eof in H. pose proof (step_top_scalar st 32 Ht) as Hst.
    destruct (step st 32) as [st1|v1 rng1 k| |] eqn:Es.
    + destruct (forallb is_space s); discriminate.
    + destruct rng1; [discriminate|]. inversion H; subst v1 rest.
      destruct k; [|congruence]. now apply step_space_not_closing in Es.
    + destruct (forallb is_space s); discriminate.
    + discriminate.
Qed.

Theorem decode_container_stable : forall s v rest,
  decode_next s = DValue v rest -> is_container v = true ->
  exists used, s = used ++ rest /\ used <> [] /\ forall t, decode_next (used ++ t) = DValue v t.
Proof.
  intros s v rest H Hc. destruct (container_scan_stable _ _ _ H Hc) as (used & Hs & Hne & Hst).
  exists used. repeat split; auto. intro t. unfold decode_next. now rewrite Hst.
Qed.
Print Assumptions decode_container_stable.

(* ------------------------------------------------------------------ *)
(* 5. the streaming decoder                                             *)

(* everything the decoder can still see: its buffer, then what the reader will deliver *)
Definition stream (d : dstate) : bytes := buf d ++ concat (chunks (rd d)).

(* no sticky condition, and a reader that ends with io.EOF *)
Definition live (d : dstate) : Prop :=
  hit_eof d = false /\ sticky_err d = false /\ fails (rd d) = false.

Lemma unscanned_eq : forall rseen new, unscanned rseen new = rev rseen ++ new.
Proof. intros. unfold unscanned. apply rev_append_rev. Qed.

Lemma read_value_spec : forall chs st rseen new,
  match scan st (new ++ concat chs) with
  | ScDone v rng rest =>
      exists d' evs, read_value chs false st rseen new = (value_result v rng, d', evs)
                     /\ live d' /\ stream d' = rest
  | ScErr => exists d' evs, read_value chs false st rseen new = (SErr, d', evs)
  | ScBug => exists d' evs, read_value chs false st rseen new = (SUnsupported, d', evs)
  | ScMore st' =>
      match at_eof st' (rev rseen ++ new ++ concat chs) with
      | EoValue v rng =>
          exists d' evs, read_value chs false st rseen new = (value_result v rng, d', evs)
                         /\ live d' /\ stream d' = []
      | EoEof => exists d' evs, read_value chs false st rseen new = (SEof, d', evs)
      | EoErr => exists d' evs, read_value chs false st rseen new = (SErr, d', evs)
      | EoBug => exists d' evs, read_value chs false st rseen new = (SUnsupported, d', evs)
      end
  end.
Proof.
  induction chs as [|c chs IH]; intros st rseen new; cbn [read_value concat]; rewrite scan_app.
  - destruct (scan st new) as [v rng rest| | |st'] eqn:E; cbn [scan].
    + eexists _, _. split; [reflexivity|]. split; [now unfold live|].
      unfold stream; cbn [buf rd chunks concat]. reflexivity.
    + eauto.
    + eauto.
    + rewrite unscanned_eq, !app_nil_r.
      destruct (at_eof st' (rev rseen ++ new)); eauto.
      eexists _, _. split; [reflexivity|]. split; [now unfold live|reflexivity].
  - destruct (scan st new) as [v rng rest| | |st'] eqn:E.
    + eexists _, _. split; [reflexivity|]. split; [now unfold live|].
      unfold stream; cbn [buf rd chunks concat]. reflexivity.
    + eauto.
    + eauto.
    + specialize (IH st' (rev_append new rseen) c).
      assert (Hrev : rev (rev_append new rseen) ++ c ++ concat chs = rev rseen ++ new ++ c ++ concat chs).
      { rewrite rev_append_rev, rev_app_distr, rev_involutive, <- app_assoc. reflexivity. }
      rewrite Hrev in IH.
      destruct (read_value chs false st' (rev_append new rseen) c) as [[r d] evs].
      destruct (scan st' (c ++ concat chs)) as [v rng rest| | |st''].
      * destruct IH as (d' & evs' & He & Hl & Hs). inversion He; subst. eauto.
      * destruct IH as (d' & evs' & He). inversion He; subst. eauto.
      * destruct IH as (d' & evs' & He). inversion He; subst. eauto.
      * destruct (at_eof st'' (rev rseen ++ new ++ c ++ concat chs)).
        -- destruct IH as (d' & evs' & He & Hl & Hs). inversion He; subst. eauto.
        -- destruct IH as (d' & evs' & He). inversion He; subst. eauto.
        -- destruct IH as (d' & evs' & He). inversion He; subst. eauto.
        -- destruct IH as (d' & evs' & He). inversion He; subst. eauto.
Qed.

(* One Decode call over a chunked reader = one decode_next on the concatenation of all
   bytes it can still see, whatever the chunking. *)
Theorem dec_step_decode_next : forall d, live d ->
  match decode_next (stream d) with
  | DValue v rest =>
      exists d' evs, dec_step d = (SValue v, d', evs) /\ live d' /\ stream d' = rest
  | DEof => exists d' evs, dec_step d = (SEof, d', evs)
  | DErr => exists d' evs, dec_step d = (SErr, d', evs)
  | DUnsupported => exists d' evs, dec_step d = (SUnsupported, d', evs)
  end.
Proof.
  intros d (He & Hs & Hf). unfold dec_step. rewrite He, Hs, Hf.
  pose proof (read_value_spec (chunks (rd d)) s_init [] (buf d)) as H.
  unfold decode_next. fold (stream d) in H. cbn [rev app] in H.
  destruct (scan s_init (stream d)) as [v rng rest| | |st'].
  - destruct rng; cbn [value_result] in H.
    + destruct H as (d' & evs & H & _). eauto.
    + exact H.
  - exact H.
  - exact H.
  - destruct (at_eof st' (stream d)) as [v rng| | |]; try exact H.
    destruct rng; cbn [value_result] in H.
    + destruct H as (d' & evs & H & _). eauto.
    + exact H.
Qed.
Print Assumptions dec_step_decode_next.

(* how a stream of Decode calls ends *)
Inductive fin := FEof | FErr | FUnsupported.

(* repeated decode_next on a byte string: the values, then the reason for stopping *)
Inductive dec_all : bytes -> list jvalue -> fin -> Prop :=
| da_val : forall s v rest vs f, decode_next s = DValue v rest -> dec_all rest vs f -> dec_all s (v :: vs) f
| da_eof : forall s, decode_next s = DEof -> dec_all s [] FEof
| da_err : forall s, decode_next s = DErr -> dec_all s [] FErr
| da_uns : forall s, decode_next s = DUnsupported -> dec_all s [] FUnsupported.

(* repeated Decode calls on a decoder, as jqawk's loop does: the values, then the first
   non-value result *)
Inductive dec_run : dstate -> list jvalue -> fin -> Prop :=
| dr_val : forall d v d' evs vs f, dec_step d = (SValue v, d', evs) -> dec_run d' vs f -> dec_run d (v :: vs) f
| dr_eof : forall d d' evs, dec_step d = (SEof, d', evs) -> dec_run d [] FEof
| dr_err : forall d d' evs, dec_step d = (SErr, d', evs) -> dec_run d [] FErr
| dr_uns : forall d d' evs, dec_step d = (SUnsupported, d', evs) -> dec_run d [] FUnsupported.

Theorem chunking_independent_live : forall d vs f, live d ->
  (dec_run d vs f <-> dec_all (stream d) vs f).
Proof.
  intros d vs f Hl. split.
  - intro H. induction H as [d v d' evs vs f Hstep Hrun IH|d d' evs Hstep|d d' evs Hstep|d d' evs Hstep];
      pose proof (dec_step_decode_next d Hl) as Hd;
      destruct (decode_next (stream d)) as [v0 rest| | |] eqn:E;
      try (destruct Hd as (d1 & evs1 & Hd & Hl1 & Hs1));
      try (destruct Hd as (d1 & evs1 & Hd));
      rewrite Hd in Hstep; inversion Hstep; subst.
    + eapply da_val; [exact E|]. apply IH. exact Hl1.
    + now apply da_eof.
    + now apply da_err.
    + now apply da_uns.
  - intro H. remember (stream d) as s eqn:Hs. revert d Hl Hs.
    induction H as [s v rest vs f Hdn Hall IH|s Hdn|s Hdn|s Hdn]; intros d Hl Hs; subst s;
      pose proof (dec_step_decode_next d Hl) as Hd; rewrite Hdn in Hd.
    + destruct Hd as (d1 & evs1 & Hd & Hl1 & Hs1). eapply dr_val; [exact Hd|]. apply IH; auto.
    + destruct Hd as (d1 & evs1 & Hd). eapply dr_eof; exact Hd.
    + destruct Hd as (d1 & evs1 & Hd). eapply dr_err; exact Hd.
    + destruct Hd as (d1 & evs1 & Hd). eapply dr_uns; exact Hd.
Qed.

(* For a non-failing reader the sequence of Decode results is exactly the sequence of
   decode_next results on the concatenation of all chunks. *)
Theorem chunking_independent : forall r vs f, fails r = false ->
  (dec_run (dec_init r) vs f <-> dec_all (concat (chunks r)) vs f).
Proof.
  intros r vs f Hf. apply (chunking_independent_live (dec_init r) vs f). now unfold live, dec_init.
Qed.
Print Assumptions chunking_independent.

(* ... hence it depends only on that concatenation *)
Corollary chunking_independent_readers : forall r1 r2 vs f,
  fails r1 = false -> fails r2 = false -> concat (chunks r1) = concat (chunks r2) ->
  (dec_run (dec_init r1) vs f <-> dec_run (dec_init r2) vs f).
Proof.
  intros r1 r2 vs f H1 H2 Hc. rewrite (chunking_independent r1 vs f H1), (chunking_independent r2 vs f H2), Hc.
  reflexivity.
Qed.
Print Assumptions chunking_independent_readers.

(* the loop always terminates with a definite outcome, and the outcome is unique *)
Theorem dec_all_total : forall s, exists vs f, dec_all s vs f.
Proof.
  intro s. remember (length s) as n eqn:Hn. revert s Hn.
  induction n as [n IH] using lt_wf_ind. intros s Hn.
  destruct (decode_next s) as [v rest| | |] eqn:E.
  - destruct (decode_next_consumes _ _ _ E) as (used & Hs & Hne).
    assert (Hlen : (length rest < n)%nat).
    { subst n. rewrite Hs, app_length. destruct used; [contradiction|cbn [length]; lia]. }
    destruct (IH _ Hlen rest eq_refl) as (vs & f & Hall). exists (v :: vs), f. eapply da_val; eauto.
  - exists [], FEof. now apply da_eof.
  - exists [], FErr. now apply da_err.
  - exists [], FUnsupported. now apply da_uns.
Qed.

Theorem dec_all_deterministic : forall s vs1 f1 vs2 f2,
  dec_all s vs1 f1 -> dec_all s vs2 f2 -> vs1 = vs2 /\ f1 = f2.
Proof.
  intros s vs1 f1 vs2 f2 H1. revert vs2 f2.
  induction H1 as [s v rest vs f Hd Hall IH|s Hd|s Hd|s Hd]; intros vs2 f2 H2;
    inversion H2; subst; try congruence; auto.
  match goal with
  | Ha : decode_next s = DValue ?v' ?rest', Hb : dec_all ?rest' _ _ |- _ =>
      rewrite Hd in Ha; inversion Ha; subst; destruct (IH _ _ Hb); subst; auto
  end.
Qed.

(* ------------------------------------------------------------------ *)
(* Read calls are issued only when needed                               *)

Lemma read_value_reads : forall chs fl st rseen new r d' evs,
  read_value chs fl st rseen new = (r, d', evs) ->
  forall k, (k < length evs)%nat -> exists st', scan st (new ++ concat (firstn k chs)) = ScMore st'.
Proof.
  induction chs as [|c chs IH]; intros fl st rseen new r d' evs H k Hk; cbn [read_value] in H.
  - destruct (scan st new) as [v rng rest| | |st'] eqn:E;
      try (inversion H; subst; cbn [length] in Hk; lia).
    rewrite firstn_nil. cbn [concat]. rewrite app_nil_r. eauto.
  - destruct (scan st new) as [v rng rest| | |st'] eqn:E;
      try (inversion H; subst; cbn [length] in Hk; lia).
    destruct (read_value chs fl st' (rev_append new rseen) c) as [[r1 d1] evs1] eqn:Er.
    inversion H; subst. destruct k as [|k].
    + cbn [firstn concat]. rewrite app_nil_r. eauto.
    + cbn [firstn concat]. rewrite scan_app, E. cbn [length] in Hk.
      eapply IH; [exact Er|lia].
Qed.

(* Before the (k+1)-th Read of a Decode call, every byte buffered so far (the buffer at the
   start of the call and the first k chunks) has been scanned, and those bytes neither
   complete a value nor contain an error: the Read was necessary. *)
Theorem reads_minimal : forall d r d' evs,
  dec_step d = (r, d', evs) ->
  forall k, (k < length evs)%nat ->
  exists st', scan s_init (buf d ++ concat (firstn k (chunks (rd d)))) = ScMore st'.
Proof.
  intros d r d' evs H k Hk. unfold dec_step in H.
  destruct (hit_eof d); [inversion H; subst; cbn [length] in Hk; lia|].
  destruct (sticky_err d); [inversion H; subst; cbn [length] in Hk; lia|].
  eapply read_value_reads; eauto.
Qed.
Print Assumptions reads_minimal.

(* in particular: no Read at all when the buffered bytes already hold a complete value (or an
   error), and none after a sticky condition *)
Corollary no_read_when_buffered : forall d r d' evs v rng rest,
  dec_step d = (r, d', evs) -> scan s_init (buf d) = ScDone v rng rest -> evs = [].
Proof.
  intros d r d' evs v rng rest H Hs. destruct evs as [|e evs]; [reflexivity|].
  destruct (reads_minimal _ _ _ _ H 0%nat) as (st' & Hm); [cbn [length]; lia|].
  cbn [firstn concat] in Hm. rewrite app_nil_r in Hm. congruence.
Qed.

Corollary sticky_no_read : forall d, hit_eof d = true \/ sticky_err d = true ->
  exists r, dec_step d = (r, d, []) /\ r <> SUnsupported /\ (forall v, r <> SValue v).
Proof.
  intros d [H|H]; unfold dec_step; rewrite H.
  - exists SEof. repeat split; discriminate.
  - destruct (hit_eof d); [exists SEof|exists SErr]; repeat split; discriminate.
Qed.

(* a complete buffered container is returned without reading, whatever follows it *)
Corollary buffered_container_no_read : forall d used v t,
  live d -> decode_next used = DValue v [] -> is_container v = true -> buf d = used ++ t ->
  exists d', dec_step d = (SValue v, d', []) /\ buf d' = t /\ rd d' = rd d.
Proof.
  intros d used v t (He & Hs & Hf) Hd Hc Hb.
  destruct (container_scan_stable _ _ _ Hd Hc) as (used' & Hu & _ & Hst).
  rewrite app_nil_r in Hu. subst used'. specialize (Hst t).
  unfold dec_step. rewrite He, Hs. destruct (rd d) as [chs fl] eqn:Er. cbn [chunks fails] in *.
  destruct chs as [|c chs]; cbn [read_value]; rewrite Hb, Hst; cbn [value_result];
    eexists; (split; [reflexivity|]); auto.
Qed.
Print Assumptions buffered_container_no_read.
