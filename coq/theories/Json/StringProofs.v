(* StringProofs: the string escaping of Encode.quote is undone by Decode.unquote, and the
   scanner automaton accepts the quoted text.  Holds for EVERY byte string (values >= 256
   included: they behave like invalid bytes). *)
From Coq Require Import NArith List Bool Lia.
From JQ Require Import Base.Bytes Num.F64 Json.JValue Json.Decode Json.Encode Json.ScanLemmas.
Import ListNotations.
Local Open Scope N_scope.

(* ------------------------------------------------------------------ *)
(* Specification side                                                   *)

(* what the quote/unquote round trip does to an arbitrary byte string: valid UTF-8 sequences
   (per utf8_2/3/4) and ASCII bytes (< 128) are kept, every other single byte becomes
   repl_char *)
Fixpoint utf8_fix (s : bytes) : bytes :=
  match s with
  | [] => []
  | c :: r =>
      if c <? 128 then c :: utf8_fix r
      else
        let bad (_ : unit) := repl_char ++ utf8_fix r in
        match r with
        | [] => bad tt
        | c1 :: r1 =>
            if utf8_2 c c1 then c :: c1 :: utf8_fix r1
            else
              match r1 with
              | [] => bad tt
              | c2 :: r2 =>
                  if utf8_3 c c1 c2 then c :: c1 :: c2 :: utf8_fix r2
                  else
                    match r2 with
                    | [] => bad tt
                    | c3 :: r3 =>
                        if utf8_4 c c1 c2 c3 then c :: c1 :: c2 :: c3 :: utf8_fix r3
                        else bad tt
                    end
              end
        end
  end.

Inductive valid_utf8 : bytes -> Prop :=
| vu_nil : valid_utf8 []
| vu_1 : forall c r, c < 128 -> valid_utf8 r -> valid_utf8 (c :: r)
| vu_2 : forall c c1 r, utf8_2 c c1 = true -> valid_utf8 r -> valid_utf8 (c :: c1 :: r)
| vu_3 : forall c c1 c2 r, utf8_3 c c1 c2 = true -> valid_utf8 r -> valid_utf8 (c :: c1 :: c2 :: r)
| vu_4 : forall c c1 c2 c3 r, utf8_4 c c1 c2 c3 = true -> valid_utf8 r ->
    valid_utf8 (c :: c1 :: c2 :: c3 :: r).

(* ------------------------------------------------------------------ *)
(* Byte ranges of the UTF-8 acceptance tables                           *)

Ltac b2p H :=
  unfold utf8_2, utf8_3, utf8_4, is_cont in H;
  repeat (progress (rewrite ?andb_true_iff, ?orb_true_iff in H));
  rewrite ?N.leb_le, ?N.eqb_eq, ?N.ltb_lt in H.

Lemma utf8_2_range : forall c c1, utf8_2 c c1 = true ->
  194 <= c <= 223 /\ 128 <= c1 <= 191.
Proof. intros c c1 H. b2p H. lia. Qed.

Lemma utf8_3_range : forall c c1 c2, utf8_3 c c1 c2 = true ->
  224 <= c <= 239 /\ 128 <= c1 <= 191 /\ 128 <= c2 <= 191.
Proof. intros c c1 c2 H. b2p H. lia. Qed.

Lemma utf8_4_range : forall c c1 c2 c3, utf8_4 c c1 c2 c3 = true ->
  240 <= c <= 244 /\ 128 <= c1 <= 191 /\ 128 <= c2 <= 191 /\ 128 <= c3 <= 191.
Proof. intros c c1 c2 c3 H. b2p H. lia. Qed.

Lemma utf8_2_false : forall c c1, 224 <= c -> utf8_2 c c1 = false.
Proof.
  intros c c1 H. destruct (utf8_2 c c1) eqn:E; [|reflexivity].
  apply utf8_2_range in E. lia.
Qed.

Lemma utf8_3_false : forall c c1 c2, 240 <= c -> utf8_3 c c1 c2 = false.
Proof.
  intros c c1 c2 H. destruct (utf8_3 c c1 c2) eqn:E; [|reflexivity].
  apply utf8_3_range in E. lia.
Qed.

Lemma ltb_128_false : forall c, 128 <= c -> (c <? 128) = false.
Proof. intros c H. apply N.ltb_ge. exact H. Qed.

Lemma utf8_fix_valid : forall s, valid_utf8 s -> utf8_fix s = s.
Proof.
  intros s V.
  induction V as [|c r Hc V IH|c c1 r H V IH|c c1 c2 r H V IH|c c1 c2 c3 r H V IH].
  - reflexivity.
  - apply N.ltb_lt in Hc. cbn [utf8_fix]. rewrite Hc, IH. reflexivity.
  - pose proof (utf8_2_range _ _ H) as R.
    cbn [utf8_fix]. rewrite (ltb_128_false c) by lia. rewrite H, IH. reflexivity.
  - pose proof (utf8_3_range _ _ _ H) as R.
    cbn [utf8_fix]. rewrite (ltb_128_false c) by lia.
    rewrite (utf8_2_false c c1) by lia. rewrite H, IH. reflexivity.
  - pose proof (utf8_4_range _ _ _ _ H) as R.
    cbn [utf8_fix]. rewrite (ltb_128_false c) by lia.
    rewrite (utf8_2_false c c1) by lia. rewrite (utf8_3_false c c1 c2) by lia.
    rewrite H, IH. reflexivity.
Qed.

(* ------------------------------------------------------------------ *)
(* qbody / utf8_fix work chunk by chunk                                 *)

(* chunk X Y: the encoder emits X for an input piece whose round trip is Y *)
Inductive chunk : bytes -> bytes -> Prop :=
| ch_ascii : forall c, c < 128 -> chunk (quote_ascii c) [c]
| ch_2 : forall c c1, utf8_2 c c1 = true -> chunk [c; c1] [c; c1]
| ch_3 : forall c c1 c2, utf8_3 c c1 c2 = true -> chunk (quote_3 c c1 c2) [c; c1; c2]
| ch_4 : forall c c1 c2 c3, utf8_4 c c1 c2 c3 = true -> chunk [c; c1; c2; c3] [c; c1; c2; c3]
| ch_bad : chunk esc_fffd repl_char.

Lemma qbody_view : forall s,
  s = [] \/
  exists X Y r, chunk X Y /\ qbody s = X ++ qbody r /\ utf8_fix s = Y ++ utf8_fix r
                /\ (length r < length s)%nat.
Proof.
  intros [|c r]; [now left|right].
  destruct (c <? 128) eqn:Hc.
  { exists (quote_ascii c), [c], r. split; [constructor; now apply N.ltb_lt|].
    cbn [qbody utf8_fix length]. rewrite Hc. repeat split; try reflexivity. lia. }
  destruct r as [|c1 r1].
  { exists esc_fffd, repl_char, []. split; [constructor|].
    cbn [qbody utf8_fix length]. rewrite Hc. repeat split; try reflexivity. lia. }
  destruct (utf8_2 c c1) eqn:H2.
  { exists [c; c1], [c; c1], r1. split; [constructor; assumption|].
    cbn [qbody utf8_fix length]. rewrite Hc, H2. repeat split; try reflexivity. lia. }
  destruct r1 as [|c2 r2].
  { exists esc_fffd, repl_char, [c1]. split; [constructor|].
    cbn [qbody utf8_fix length]. rewrite Hc, H2. repeat split; try reflexivity. lia. }
  destruct (utf8_3 c c1 c2) eqn:H3.
  { exists (quote_3 c c1 c2), [c; c1; c2], r2. split; [constructor; assumption|].
    cbn [qbody utf8_fix length]. rewrite Hc, H2, H3. repeat split; try reflexivity. lia. }
  destruct r2 as [|c3 r3].
  { exists esc_fffd, repl_char, [c1; c2]. split; [constructor|].
    cbn [qbody utf8_fix length]. rewrite Hc, H2, H3. repeat split; try reflexivity. lia. }
  destruct (utf8_4 c c1 c2 c3) eqn:H4.
  { exists [c; c1; c2; c3], [c; c1; c2; c3], r3. split; [constructor; assumption|].
    cbn [qbody utf8_fix length]. rewrite Hc, H2, H3, H4. repeat split; try reflexivity. lia. }
  { exists esc_fffd, repl_char, (c1 :: c2 :: c3 :: r3). split; [constructor|].
    cbn [qbody utf8_fix length]. rewrite Hc, H2, H3, H4. repeat split; try reflexivity. lia. }
Qed.

Lemma rev_append_app : forall (A : Type) (a b c : list A),
  rev_append (a ++ b) c = rev_append b (rev_append a c).
Proof.
  intros A a. induction a as [|x a IH]; intros b c; cbn [app rev_append]; [reflexivity|].
  apply IH.
Qed.

(* ------------------------------------------------------------------ *)
(* unq over one chunk                                                   *)

Lemma unq_ascii : forall c rest acc, c < 128 ->
  unq None (quote_ascii c ++ rest) acc = unq None rest (c :: acc).
Proof.
  intros c rest acc Hc.
  destruct c as [|p]; [reflexivity|].
  do 7 (try (destruct p as [p|p|]; try lia)); reflexivity.
Qed.

Section UnqHigh.
  Variables (c : byte) (acc : bytes).
  Hypothesis Hc : 128 <= c.

  Let E1 : (c =? 34) = false. Proof. apply N.eqb_neq. lia. Qed.
  Let E2 : (c =? 92) = false. Proof. apply N.eqb_neq. lia. Qed.
  Let E3 : (c <? 32) = false. Proof. apply N.ltb_ge. lia. Qed.
  Let E4 : (c <? 128) = false. Proof. apply N.ltb_ge. lia. Qed.

  Lemma unq_high2 : forall c1 r, utf8_2 c c1 = true ->
    unq None (c :: c1 :: r) acc = unq None r (c1 :: c :: acc).
  Proof.
    intros c1 r H. cbn [unq]. rewrite E1, E2, E3, E4, H. reflexivity.
  Qed.

  Lemma unq_high3 : forall c1 c2 r, utf8_2 c c1 = false -> utf8_3 c c1 c2 = true ->
    unq None (c :: c1 :: c2 :: r) acc = unq None r (c2 :: c1 :: c :: acc).
  Proof.
    intros c1 c2 r H2 H3. cbn [unq]. rewrite E1, E2, E3, E4, H2, H3. reflexivity.
  Qed.

  Lemma unq_high4 : forall c1 c2 c3 r,
    utf8_2 c c1 = false -> utf8_3 c c1 c2 = false -> utf8_4 c c1 c2 c3 = true ->
    unq None (c :: c1 :: c2 :: c3 :: r) acc = unq None r (c3 :: c2 :: c1 :: c :: acc).
  Proof.
    intros c1 c2 c3 r H2 H3 H4. cbn [unq]. rewrite E1, E2, E3, E4, H2, H3, H4. reflexivity.
  Qed.
End UnqHigh.

Lemma unq_chunk : forall X Y, chunk X Y -> forall rest acc,
  unq None (X ++ rest) acc = unq None rest (rev_append Y acc).
Proof.
  intros X Y Hch rest acc.
  destruct Hch as [c Hc|c c1 H|c c1 c2 H|c c1 c2 c3 H|].
  - now apply unq_ascii.
  - pose proof (utf8_2_range _ _ H) as R. cbn [app rev_append].
    apply unq_high2; [lia|assumption].
  - pose proof (utf8_3_range _ _ _ H) as R. cbn [rev_append]. unfold quote_3.
    destruct ((c =? 226) && (c1 =? 128) && ((c2 =? 168) || (c2 =? 169))) eqn:E.
    + b2p E. destruct E as [[-> ->] [-> | ->]]; reflexivity.
    + cbn [app]. apply unq_high3; [lia|apply utf8_2_false; lia|assumption].
  - pose proof (utf8_4_range _ _ _ _ H) as R. cbn [app rev_append].
    apply unq_high4; [lia|apply utf8_2_false; lia|apply utf8_3_false; lia|assumption].
  - reflexivity.
Qed.

(* the decoder's unq undoes the encoder's qbody, for EVERY byte string *)
Lemma unq_qbody_len : forall n s, (length s <= n)%nat -> forall rest acc,
  unq None (qbody s ++ rest) acc = unq None rest (rev_append (utf8_fix s) acc).
Proof.
  induction n as [|n IH]; intros s Hl rest acc.
  - destruct s; [reflexivity|cbn [length] in Hl; lia].
  - destruct (qbody_view s) as [-> | (X & Y & r & Hch & Hq & Hf & Hlen)]; [reflexivity|].
    rewrite Hq, Hf, <- app_assoc, (unq_chunk _ _ Hch), IH by lia.
    rewrite rev_append_app. reflexivity.
Qed.

Lemma unq_qbody : forall s rest acc,
  unq None (qbody s ++ rest) acc = unq None rest (rev_append (utf8_fix s) acc).
Proof. intros s. apply (unq_qbody_len (length s)). apply le_n. Qed.

Theorem unquote_quote : forall s, unquote (quote s) = Some (utf8_fix s).
Proof.
  intros s. unfold quote, unquote. rewrite N.eqb_refl, unq_qbody.
  cbn [unq]. rewrite N.eqb_refl. rewrite lrev_eq, rev_append_rev, app_nil_r, rev_involutive.
  reflexivity.
Qed.
Print Assumptions unquote_quote.

Theorem string_escape_roundtrip : forall s, valid_utf8 s -> unquote (quote s) = Some s.
Proof. intros s V. rewrite unquote_quote, utf8_fix_valid by assumption. reflexivity. Qed.
Print Assumptions string_escape_roundtrip.

(* ------------------------------------------------------------------ *)
(* The scanner automaton accepts the quoted body                        *)

Definition in_string (st : sstate) (lit : bytes) : sstate :=
  mkS MInString (s_stack st) (s_depth st) lit (s_top st) (s_rng st).

Lemma step_in_string_plain : forall st lit c, 32 <= c -> c <> 34 -> c <> 92 ->
  step (in_string st lit) c = RCont (in_string st (c :: lit)).
Proof.
  intros st lit c H32 H34 H92. unfold step, in_string. cbn [s_mode].
  apply N.eqb_neq in H34. apply N.eqb_neq in H92.
  assert (H : (c <? 32) = false) by (apply N.ltb_ge; exact H32).
  rewrite H34, H92, H. reflexivity.
Qed.

Lemma run_ascii : forall c st lit, c < 128 ->
  run (in_string st lit) (quote_ascii c) = Some (in_string st (rev_append (quote_ascii c) lit)).
Proof.
  intros c st lit Hc.
  destruct c as [|p]; [reflexivity|].
  do 7 (try (destruct p as [p|p|]; try lia)); reflexivity.
Qed.

Lemma run_chunk : forall X Y, chunk X Y -> forall st lit,
  run (in_string st lit) X = Some (in_string st (rev_append X lit)).
Proof.
  intros X Y Hch st lit.
  destruct Hch as [c Hc|c c1 H|c c1 c2 H|c c1 c2 c3 H|].
  - now apply run_ascii.
  - pose proof (utf8_2_range _ _ H) as R. cbn [run rev_append].
    rewrite !step_in_string_plain by lia. reflexivity.
  - pose proof (utf8_3_range _ _ _ H) as R. unfold quote_3.
    destruct ((c =? 226) && (c1 =? 128) && ((c2 =? 168) || (c2 =? 169))) eqn:E.
    + b2p E. destruct E as [[-> ->] [-> | ->]]; reflexivity.
    + cbn [run rev_append]. rewrite !step_in_string_plain by lia. reflexivity.
  - pose proof (utf8_4_range _ _ _ _ H) as R. cbn [run rev_append].
    rewrite !step_in_string_plain by lia. reflexivity.
  - reflexivity.
Qed.

Lemma run_qbody_len : forall n s, (length s <= n)%nat -> forall st lit,
  run (in_string st lit) (qbody s) = Some (in_string st (rev_append (qbody s) lit)).
Proof.
  induction n as [|n IH]; intros s Hl st lit.
  - destruct s; [reflexivity|cbn [length] in Hl; lia].
  - destruct (qbody_view s) as [-> | (X & Y & r & Hch & Hq & Hf & Hlen)]; [reflexivity|].
    rewrite Hq, run_app, (run_chunk _ _ Hch), IH by lia.
    rewrite rev_append_app. reflexivity.
Qed.

(* in mode MInString every byte of qbody s is collected into s_lit *)
Lemma run_qbody : forall s st lit,
  run (in_string st lit) (qbody s) = Some (in_string st (rev_append (qbody s) lit)).
Proof. intros s. apply (run_qbody_len (length s)). apply le_n. Qed.
Print Assumptions run_qbody.
