(* driver.ml: checks the vectors written by gen.go against the code extracted from
   JQ.Json.Decode / JQ.Json.Encode.  usage: driver <vector-file>; prints per-kind counts. *)
open Jsonm

let rec pos_of_int64 (v : int64) : positive =
  if Int64.equal v 1L then XH
  else
    let rest = pos_of_int64 (Int64.shift_right_logical v 1) in
    if Int64.equal (Int64.logand v 1L) 1L then XI rest else XO rest
let n_of_int64 v = if Int64.equal v 0L then N0 else Npos (pos_of_int64 v)
let rec int64_of_pos = function
  | XH -> 1L
  | XO p -> Int64.shift_left (int64_of_pos p) 1
  | XI p -> Int64.logor (Int64.shift_left (int64_of_pos p) 1) 1L
let int64_of_n = function N0 -> 0L | Npos p -> int64_of_pos p

let byte_tab = Array.init 256 (fun i -> n_of_int64 (Int64.of_int i))
let hexval c =
  match c with
  | '0' .. '9' -> Char.code c - 48
  | 'a' .. 'f' -> Char.code c - 87
  | _ -> failwith "hex"

(* hex text s[i..j) -> byte list *)
let bytes_of_hex_sub s i j =
  let rec go k acc = if k < i then acc else go (k - 2) (byte_tab.((hexval s.[k] lsl 4) lor hexval s.[k + 1]) :: acc) in
  go (j - 2) []
let bytes_of_hex s = if s = "-" then [] else bytes_of_hex_sub s 0 (String.length s)

let hexdigits = "0123456789abcdef"
let add_hex buf (l : n list) =
  List.iter (fun b ->
      let v = Int64.to_int (int64_of_n b) in
      if v > 255 then Buffer.add_string buf "??"
      else begin Buffer.add_char buf hexdigits.[v lsr 4]; Buffer.add_char buf hexdigits.[v land 15] end) l
let hex_of_bytes l = if l = [] then "-" else begin let b = Buffer.create 64 in add_hex b l; Buffer.contents b end

let rec canon buf (v : jvalue) =
  match v with
  | JNull -> Buffer.add_char buf 'N'
  | JBool true -> Buffer.add_char buf 'T'
  | JBool false -> Buffer.add_char buf 'F'
  | JNum f -> Buffer.add_string buf (Printf.sprintf "D%016Lx" (int64_of_n (f_bits f)))
  | JStr s -> Buffer.add_char buf 'S'; add_hex buf s; Buffer.add_char buf '.'
  | JArr l -> Buffer.add_char buf '['; List.iter (canon buf) l; Buffer.add_char buf ']'
  | JObj l ->
      Buffer.add_char buf '{';
      List.iter (fun (k, x) -> Buffer.add_char buf 'S'; add_hex buf k; Buffer.add_char buf '.'; canon buf x) l;
      Buffer.add_char buf '}'
let canon_str v = let b = Buffer.create 64 in canon b v; Buffer.contents b

(* canon text -> jvalue *)
let parse_canon (s : Stdlib.String.t) : jvalue =
  let pos = ref 0 in
  let str () =
    (* at 'S' *)
    let i = !pos + 1 in
    let j = String.index_from s i '.' in
    pos := j + 1;
    bytes_of_hex_sub s i j
  in
  let rec value () =
    match s.[!pos] with
    | 'N' -> incr pos; JNull
    | 'T' -> incr pos; JBool true
    | 'F' -> incr pos; JBool false
    | 'D' ->
        let h = String.sub s (!pos + 1) 16 in
        pos := !pos + 17;
        JNum (f_of_bits (n_of_int64 (Int64.of_string ("0x" ^ h))))
    | 'S' -> JStr (str ())
    | '[' ->
        incr pos;
        let items = ref [] in
        while s.[!pos] <> ']' do items := value () :: !items done;
        incr pos;
        JArr (List.rev !items)
    | '{' ->
        incr pos;
        let items = ref [] in
        while s.[!pos] <> '}' do
          let k = str () in
          let v = value () in
          items := (k, v) :: !items
        done;
        incr pos;
        JObj (List.rev !items)
    | c -> failwith (Printf.sprintf "canon: %c" c)
  in
  value ()

let total = Hashtbl.create 16
let bad = Hashtbl.create 16
let shown = ref 0
let check kind ok descr =
  Hashtbl.replace total kind (1 + try Hashtbl.find total kind with Not_found -> 0);
  if not ok then begin
    Hashtbl.replace bad kind (1 + try Hashtbl.find bad kind with Not_found -> 0);
    if !shown < 40 then begin incr shown; Printf.printf "MISMATCH %s: %s\n%!" kind (descr ()) end
  end
let note kind = Hashtbl.replace total kind (1 + try Hashtbl.find total kind with Not_found -> 0)

let trunc s = if String.length s > 300 then String.sub s 0 300 ^ "..." else s

let rec int_of_nat = function O -> 0 | S k -> 1 + int_of_nat k

let decode_events (input : n list) : Stdlib.String.t =
  let evs = ref [] in
  let rec loop s =
    match decode_next s with
    | DValue (v, rest) ->
        evs := ("V" ^ canon_str v) :: !evs;
        if List.length rest >= List.length s then evs := "STUCK" :: !evs else loop rest
    | DEof -> evs := "EOF" :: !evs
    | DErr -> evs := "ERR" :: !evs
    | DUnsupported -> evs := "UNSUPPORTED" :: !evs
  in
  loop input;
  String.concat "," (List.rev !evs)

let stream_events (chunks : n list list) (fail : bool) : Stdlib.String.t =
  let evs = ref [] in
  let d = ref (dec_init { chunks; fails = fail }) in
  let extra = ref (-1) in
  while !extra <> 0 do
    let (r, d'), ios = dec_step !d in
    d := d';
    List.iter (fun e ->
        evs := (match e with EvRead k -> "R" ^ string_of_int (int_of_nat k) | EvReadEOF -> "RE" | EvReadFail -> "RX") :: !evs) ios;
    let is_err =
      match r with
      | SValue v -> evs := ("V" ^ canon_str v) :: !evs; false
      | SEof -> evs := "EOF" :: !evs; true
      | SErr -> evs := "ERR" :: !evs; true
      | SUnsupported -> evs := "UNSUPPORTED" :: !evs; true
    in
    evs := "|" :: !evs;
    if !extra > 0 then decr extra else if is_err then extra := 2
  done;
  String.concat "," (List.rev !evs)

let opt_hex = function Some b -> hex_of_bytes b | None -> "!"

let rec valid_strings (v : jvalue) =
  (* strings the decoder can return: quote/unquote round trip *)
  let ok s = match unquote (quote s) with Some t -> t = s | None -> false in
  match v with
  | JStr s -> ok s
  | JArr l -> List.for_all valid_strings l
  | JObj l -> List.for_all (fun (k, x) -> ok k && valid_strings x) l
  | _ -> true

let handle line =
  match String.split_on_char ' ' line with
  | [ "D"; hin; evs ] ->
      let got = decode_events (bytes_of_hex hin) in
      check "decode_next (iterated over a stream)" (got = evs) (fun () -> Printf.sprintf "input %s\n  go  %s\n  coq %s" (trunc hin) (trunc evs) (trunc got))
  | "S" :: fl :: nch :: rest ->
      let n = int_of_string nch in
      let chunks = List.filteri (fun i _ -> i < n) rest in
      let evs = List.nth rest n in
      let got = stream_events (List.map bytes_of_hex chunks) (fl = "1") in
      check "dec_step (values, errors, Read events, stickiness)" (got = evs)
        (fun () -> Printf.sprintf "fail=%s chunks %s\n  go  %s\n  coq %s" fl (trunc (String.concat " " chunks)) (trunc evs) (trunc got))
  | [ "E"; c; hc; hi ] ->
      let v = parse_canon c in
      let gc = opt_hex (marshal_compact v) in
      check "marshal_compact" (gc = hc) (fun () -> Printf.sprintf "value %s\n  go  %s\n  coq %s" (trunc c) (trunc hc) (trunc gc));
      let mi = marshal_indent v in
      let gi = opt_hex mi in
      check "marshal_indent" (gi = hi) (fun () -> Printf.sprintf "value %s\n  go  %s\n  coq %s" (trunc c) (trunc hi) (trunc gi));
      (match mi with
       | Some b ->
           (match decode_next b with
            | DValue (v', []) ->
                check "decode_next (marshal_indent v) is a value, rest empty" true (fun () -> "");
                if valid_strings v then
                  check "... and equals v when all strings survive quote/unquote" (canon_str v' = c)
                    (fun () -> Printf.sprintf "value %s\n  back %s" (trunc c) (trunc (canon_str v')))
            | _ -> check "decode_next (marshal_indent v) is a value, rest empty" false (fun () -> trunc c))
       | None -> ())
  | [ "X"; c; hc; ok ] ->
      let v = parse_canon c in
      let gc = opt_hex (marshal_compact v) in
      check "marshal_compact (deep)" (gc = hc) (fun () -> Printf.sprintf "value %s" (trunc c));
      let within = (match N.leb (jdepth v) max_nesting_depth with true -> "ok" | false -> "!") in
      check "marshal_indent succeeds iff jdepth <= 10000 (deep)" (within = ok) (fun () -> Printf.sprintf "value %s go %s coq %s" (trunc c) ok within)
  | _ -> if line <> "" then Printf.printf "BAD LINE %s\n" (trunc line)

let () =
  let ic = open_in Sys.argv.(1) in
  (try
     while true do
       handle (input_line ic)
     done
   with End_of_file -> ());
  Hashtbl.iter (fun k t -> Printf.printf "COUNT %s %d %d\n" k t (try Hashtbl.find bad k with Not_found -> 0)) total
