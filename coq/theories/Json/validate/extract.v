(* run with coqc inside a scratch directory: writes jsonm.ml / jsonm.mli there *)
From JQ Require Import Base.Bytes Num.F64 Json.JValue Json.Decode Json.Encode.
Require Extraction.
Require Import ExtrOcamlBasic.
Extraction "jsonm.ml" decode_next dec_init dec_step marshal_indent marshal_compact
  jdepth max_nesting_depth unquote quote f_of_bits f_bits.
