// gen.go: emits test vectors for JQ.Json.Decode / JQ.Json.Encode from the real
// encoding/json (whatever `go` is on the PATH; written for Go 1.23.5).
//
// Line formats (fields separated by one space; hex of the empty byte string is "-"):
//
//	D <hex input> <events>
//	    the loop  d := json.NewDecoder(bytes.NewReader(input)); for { var v any; err := d.Decode(&v) ... }
//	    events = comma separated V<canon> per value, then EOF or ERR (stop at the first error)
//	S <fail:0|1> <nchunks> <hex chunk>{nchunks} <events>
//	    same loop over a reader that hands out one chunk per Read, then io.EOF (fail=0)
//	    or a non-EOF error (fail=1); events additionally contain, in order of occurrence,
//	    R<n> (Read returned n bytes), RE (Read returned io.EOF), RX (Read failed), and a
//	    "|" event after every Decode call; after the first EOF/ERR result two more
//	    Decode calls are made (stickiness)
//	E <canon> <hex json.Marshal | !> <hex json.MarshalIndent(v,"","  ") | !>
//	X <canon> <hex json.Marshal | !> <ok | !>      deep values: only MarshalIndent's success
//
// canon (no spaces, no commas): N | T | F | D<16 hex float64 bits> | S<hex>. |
// [canon*] | {(S<hex>.canon)*} with keys in ascending byte order.
package main

import (
	"bufio"
	"bytes"
	"encoding/hex"
	"encoding/json"
	"errors"
	"fmt"
	"io"
	"math"
	"math/rand"
	"os"
	"sort"
	"strconv"
	"strings"
)

var out *bufio.Writer
var rng = rand.New(rand.NewSource(20261002))
var nD, nS, nE int

func hx(s []byte) string {
	if len(s) == 0 {
		return "-"
	}
	return hex.EncodeToString(s)
}

func canon(sb *strings.Builder, v any) {
	switch x := v.(type) {
	case nil:
		sb.WriteByte('N')
	case bool:
		if x {
			sb.WriteByte('T')
		} else {
			sb.WriteByte('F')
		}
	case float64:
		b := math.Float64bits(x)
		if x != x {
			b = 0x7ff8000000000001
		}
		fmt.Fprintf(sb, "D%016x", b)
	case string:
		sb.WriteByte('S')
		sb.WriteString(hex.EncodeToString([]byte(x)))
		sb.WriteByte('.')
	case []any:
		sb.WriteByte('[')
		for _, e := range x {
			canon(sb, e)
		}
		sb.WriteByte(']')
	case map[string]any:
		keys := make([]string, 0, len(x))
		for k := range x {
			keys = append(keys, k)
		}
		sort.Strings(keys)
		sb.WriteByte('{')
		for _, k := range keys {
			sb.WriteByte('S')
			sb.WriteString(hex.EncodeToString([]byte(k)))
			sb.WriteByte('.')
			canon(sb, x[k])
		}
		sb.WriteByte('}')
	default:
		panic(fmt.Sprintf("canon: %T", v))
	}
}

func canonStr(v any) string {
	var sb strings.Builder
	canon(&sb, v)
	return sb.String()
}

// ---------------------------------------------------------------- emitters

var seenD = map[string]bool{}

func emitD(input []byte) {
	if len(input) < 64 {
		if seenD[string(input)] {
			return
		}
		seenD[string(input)] = true
	}
	d := json.NewDecoder(bytes.NewReader(input))
	var evs []string
	for {
		var v any
		err := d.Decode(&v)
		if err == io.EOF {
			evs = append(evs, "EOF")
			break
		}
		if err != nil {
			evs = append(evs, "ERR")
			break
		}
		evs = append(evs, "V"+canonStr(v))
		if (len(evs)%7 == 0 || rng.Intn(4) == 0) && len(input) < 4000 {
			emitE(v)
		}
	}
	fmt.Fprintf(out, "D %s %s\n", hx(input), strings.Join(evs, ","))
	nD++
}

type chunkReader struct {
	chunks  [][]byte
	pending []byte
	fail    bool
	log     *[]string
}

var errSim = errors.New("simulated read failure")

func (c *chunkReader) Read(p []byte) (int, error) {
	if len(c.pending) == 0 {
		if len(c.chunks) == 0 {
			if c.fail {
				*c.log = append(*c.log, "RX")
				return 0, errSim
			}
			*c.log = append(*c.log, "RE")
			return 0, io.EOF
		}
		c.pending = c.chunks[0]
		c.chunks = c.chunks[1:]
	}
	n := copy(p, c.pending)
	c.pending = c.pending[n:]
	*c.log = append(*c.log, fmt.Sprintf("R%d", n))
	return n, nil
}

func emitS(chunks [][]byte, fail bool) {
	var evs []string
	cp := make([][]byte, len(chunks))
	copy(cp, chunks)
	d := json.NewDecoder(&chunkReader{chunks: cp, fail: fail, log: &evs})
	extra := -1
	for extra != 0 {
		var v any
		err := d.Decode(&v)
		if err == io.EOF {
			evs = append(evs, "EOF")
		} else if err != nil {
			evs = append(evs, "ERR")
		} else {
			evs = append(evs, "V"+canonStr(v))
		}
		evs = append(evs, "|")
		if extra > 0 {
			extra--
		} else if err != nil {
			extra = 2
		}
	}
	var sb strings.Builder
	f := 0
	if fail {
		f = 1
	}
	fmt.Fprintf(&sb, "S %d %d", f, len(chunks))
	for _, c := range chunks {
		sb.WriteByte(' ')
		sb.WriteString(hx(c))
	}
	fmt.Fprintf(out, "%s %s\n", sb.String(), strings.Join(evs, ","))
	nS++
}

// deep values: the indented form of a 10000-deep value has 200 MB, so only whether
// MarshalIndent succeeds is recorded:  X <canon> <hex json.Marshal | !> <ok | !>
func emitX(v any) {
	c, i := "!", "!"
	if b, err := json.Marshal(v); err == nil {
		c = hx(b)
	}
	if _, err := json.MarshalIndent(v, "", "  "); err == nil {
		i = "ok"
	}
	fmt.Fprintf(out, "X %s %s %s\n", canonStr(v), c, i)
	nE++
}

func emitE(v any) {
	c, i := "!", "!"
	if b, err := json.Marshal(v); err == nil {
		c = hx(b)
	}
	if b, err := json.MarshalIndent(v, "", "  "); err == nil {
		i = hx(b)
	}
	fmt.Fprintf(out, "E %s %s %s\n", canonStr(v), c, i)
	nE++
}

// ---------------------------------------------------------------- random text

var wsChars = []string{" ", "\t", "\r", "\n"}

func ws() string {
	switch rng.Intn(10) {
	case 0, 1, 2, 3, 4, 5:
		return ""
	case 6:
		return " "
	case 7:
		return "\n"
	default:
		var sb strings.Builder
		for i := rng.Intn(4); i >= 0; i-- {
			sb.WriteString(wsChars[rng.Intn(4)])
		}
		return sb.String()
	}
}

var edgeFloats = []float64{0, math.Copysign(0, -1), 1, -1, 0.1, 0.5, 1e-6, 9.999999999999999e-7, 1e-7, 1e21, 9.999999999999999e20,
	1e20, 123456789, 1.5e300, math.MaxFloat64, math.SmallestNonzeroFloat64, 2.2250738585072014e-308, 2.225073858507201e-308,
	4.9e-324, 1e22, 1e23, 5e-324, 0.000001, 100, 1e15, 1e16, 1e17, 9007199254740992, 9007199254740993, 3.141592653589793, 1e-5, 1e-9, 1e-10, 1.234e-9}

func randFloat() float64 {
	switch rng.Intn(6) {
	case 0:
		return edgeFloats[rng.Intn(len(edgeFloats))]
	case 1:
		return float64(rng.Intn(2000) - 1000)
	case 2:
		return float64(rng.Int63n(1<<53)) * math.Pow(10, float64(rng.Intn(40)-20))
	default:
		for {
			f := math.Float64frombits(rng.Uint64())
			if !math.IsNaN(f) && !math.IsInf(f, 0) {
				return f
			}
		}
	}
}

func digits(n int) string {
	var sb strings.Builder
	for i := 0; i < n; i++ {
		sb.WriteByte(byte('0' + rng.Intn(10)))
	}
	return sb.String()
}

func numText() string {
	switch rng.Intn(14) {
	case 0:
		return strconv.FormatFloat(randFloat(), 'g', -1, 64) // may contain e+XX
	case 1:
		return strconv.FormatFloat(randFloat(), 'e', rng.Intn(20), 64)
	case 2:
		f := randFloat()
		if math.Abs(f) < 1e25 {
			return strconv.FormatFloat(f, 'f', -1, 64)
		}
		return strconv.FormatFloat(f, 'E', -1, 64)
	case 3:
		return strconv.Itoa(rng.Intn(100000) - 50000)
	case 4:
		return []string{"0", "-0", "0.0", "-0.0", "0e0", "0E+0", "-0e-0", "1e999", "-1e999", "1e-999", "1E400", "1e308", "1.8e308", "1.7976931348623157e308",
			"1.7976931348623159e308", "2.5e-324", "2.4e-324", "4.9e-324", "123456789012345678901234567890", "0.1e1", "1e+1", "1e01", "1E-01", "1e0000000000000000001",
			"0.000000000000000000000000000000000000000000000000000000000000000001", "1e10000", "1e-10000", "1e9999", "0e99999"}[rng.Intn(29)]
	case 5:
		return []string{"01", "-", "+1", ".5", "5.", "1.e3", "1e", "1e+", "-01", "0x10", "1_0", "Infinity", "NaN", "-Infinity", "1.5.5", "1e5e5", "--1", "1-", "0.", "-.5", "1E", "00", "-00", "1ee", "inf", "nan"}[rng.Intn(26)]
	case 6:
		return "-"[0:rng.Intn(2)] + string(byte('1'+rng.Intn(9))) + digits(rng.Intn(30)) + "." + digits(1+rng.Intn(30))
	case 7:
		return "-"[0:rng.Intn(2)] + string(byte('1'+rng.Intn(9))) + digits(rng.Intn(5)) + []string{"e", "E"}[rng.Intn(2)] + []string{"", "+", "-"}[rng.Intn(3)] + digits(1+rng.Intn(3))
	case 8:
		return "-"[0:rng.Intn(2)] + "0." + digits(1+rng.Intn(25)) + []string{"", "e5", "E-7", "e+300", "e-320"}[rng.Intn(5)]
	default:
		b, _ := json.Marshal(randFloat())
		return string(b)
	}
}

func validRune() rune {
	switch rng.Intn(8) {
	case 0:
		return rune(0x80 + rng.Intn(0x780))
	case 1:
		r := rune(0x800 + rng.Intn(0xF800))
		if r >= 0xD800 && r < 0xE000 {
			r = 0xFFFD
		}
		return r
	case 2:
		return rune(0x10000 + rng.Intn(0x100000))
	case 3:
		return []rune{0x2028, 0x2029, 0xFFFD, 0x7F, 0x80, 0x7FF, 0x800, 0xFFFF, 0x10000, 0x10FFFF, 0xD7FF, 0xE000, 0x2027, 0x202A, 0xFEFF}[rng.Intn(15)]
	default:
		return rune(0x20 + rng.Intn(0x5F))
	}
}

var badSeqs = []string{"\x80", "\xbf", "\xc0\x80", "\xc1\xbf", "\xc2", "\xe0\x80\x80", "\xe0\x9f\xbf", "\xed\xa0\x80", "\xed\xbf\xbf", "\xf0\x80\x80\x80", "\xf0\x8f\xbf\xbf",
	"\xf4\x90\x80\x80", "\xf5\x80\x80\x80", "\xff", "\xfe", "\xe2\x82", "\xf0\x9f\x98", "\xf0\x9f", "\xe2", "\xc2\x20", "\xe2\x80\x20", "\xe2\x28\xa1", "\xf0\x28\x8c\xbc", "\xf0\x90\x28\xbc",
	"\xf8\x88\x80\x80\x80", "\xe2\x80", "\xdf", "\xef\xbf", "\xf4\x8f\xbf", "\xc2\xc2\x80", "\xe1\x80\xe1\x80\x80"}

func hex4(v int) string {
	s := fmt.Sprintf("%04x", v)
	if rng.Intn(2) == 0 {
		s = strings.ToUpper(s)
	}
	return s
}

// the inside of a JSON string literal (mostly valid)
func strBody(bad bool) string {
	var sb strings.Builder
	n := rng.Intn(8)
	if rng.Intn(10) == 0 {
		n = rng.Intn(40)
	}
	for i := 0; i < n; i++ {
		switch rng.Intn(16) {
		case 0, 1:
			sb.WriteString(string(validRune()))
		case 2:
			sb.WriteString([]string{`\"`, `\\`, `\/`, `\b`, `\f`, `\n`, `\r`, `\t`}[rng.Intn(8)])
		case 3:
			sb.WriteString(`\u` + hex4(rng.Intn(0x10000)))
		case 4:
			sb.WriteString(`\u` + hex4(0xD800+rng.Intn(0x400)) + `\u` + hex4(0xDC00+rng.Intn(0x400)))
		case 5:
			switch rng.Intn(6) {
			case 0:
				sb.WriteString(`\u` + hex4(0xD800+rng.Intn(0x400)))
			case 1:
				sb.WriteString(`\u` + hex4(0xDC00+rng.Intn(0x400)))
			case 2:
				sb.WriteString(`\u` + hex4(0xD800+rng.Intn(0x400)) + `\u` + hex4(0xD800+rng.Intn(0x400)) + `\u` + hex4(0xDC00+rng.Intn(0x400)))
			case 3:
				sb.WriteString(`\u` + hex4(0xD800+rng.Intn(0x400)) + "x")
			case 4:
				sb.WriteString(`\u` + hex4(0xD800+rng.Intn(0x400)) + `\n`)
			default:
				sb.WriteString(`\u` + hex4(0xDC00+rng.Intn(0x400)) + `\u` + hex4(0xD800+rng.Intn(0x400)))
			}
		case 6:
			sb.WriteString(badSeqs[rng.Intn(len(badSeqs))])
		case 7:
			sb.WriteByte(byte(0x80 + rng.Intn(0x80)))
		case 8:
			sb.WriteString([]string{"<", ">", "&", "'", "/", "\x7f", "\u2028", "\u2029", `\u2028`, `\u003c`, `\u0000`, `\u001f`, `\u007f`, `\ufffd`, `\uFFFF`}[rng.Intn(15)])
		case 9:
			if bad && rng.Intn(3) == 0 {
				switch rng.Intn(8) {
				case 0:
					sb.WriteByte(byte(rng.Intn(0x20)))
				case 1:
					sb.WriteString(`\x41`)
				case 2:
					sb.WriteString(`\u12G4`)
				case 3:
					sb.WriteString(`\'`)
				case 4:
					sb.WriteString(`\u12`)
				case 5:
					sb.WriteString("\n")
				case 6:
					sb.WriteString(`\a`)
				default:
					sb.WriteString(`\`)
				}
			} else {
				sb.WriteByte('a')
			}
		default:
			c := byte(0x20 + rng.Intn(0x5F))
			if c == '"' || c == '\\' {
				c = 'q'
			}
			sb.WriteByte(c)
		}
	}
	return sb.String()
}

var keyPool = []string{"a", "b", "", "key", `\u0061`, "A", "aa", "z", "é", `\u00e9`, "a\\u0000", "ÿ", "\xff", `\ufffd`, "0", "10", "9"}

func keyText(bad bool) string {
	if rng.Intn(3) > 0 {
		return `"` + keyPool[rng.Intn(len(keyPool))] + `"`
	}
	return `"` + strBody(bad) + `"`
}

func valueText(depth int, bad bool) string {
	k := rng.Intn(12)
	if depth <= 0 && k >= 8 {
		k = rng.Intn(8)
	}
	switch k {
	case 0:
		return []string{"null", "true", "false"}[rng.Intn(3)]
	case 1, 2, 3:
		s := numText()
		if !bad {
			var f float64
			if json.Unmarshal([]byte(s), &f) != nil {
				return "7"
			}
		}
		return s
	case 4, 5, 6, 7:
		return `"` + strBody(bad) + `"`
	case 8, 9:
		n := rng.Intn(5)
		if rng.Intn(4) == 0 {
			n = 0
		}
		var sb strings.Builder
		sb.WriteString("[" + ws())
		for i := 0; i < n; i++ {
			if i > 0 {
				sb.WriteString("," + ws())
			}
			sb.WriteString(valueText(depth-1, bad) + ws())
		}
		if bad && rng.Intn(25) == 0 {
			sb.WriteString(",")
		}
		sb.WriteString("]")
		return sb.String()
	default:
		n := rng.Intn(5)
		if rng.Intn(4) == 0 {
			n = 0
		}
		var sb strings.Builder
		sb.WriteString("{" + ws())
		for i := 0; i < n; i++ {
			if i > 0 {
				sb.WriteString("," + ws())
			}
			sb.WriteString(keyText(bad) + ws())
			if bad && rng.Intn(40) == 0 {
				sb.WriteString(ws())
			} else {
				sb.WriteString(":")
			}
			sb.WriteString(ws() + valueText(depth-1, bad) + ws())
		}
		if bad && rng.Intn(25) == 0 {
			sb.WriteString(",")
		}
		sb.WriteString("}")
		return sb.String()
	}
}

func streamText(bad bool) string {
	var sb strings.Builder
	sb.WriteString(ws())
	n := 1 + rng.Intn(4)
	if rng.Intn(20) == 0 {
		n = 0
	}
	for i := 0; i < n; i++ {
		sb.WriteString(valueText(rng.Intn(5), bad))
		switch rng.Intn(8) {
		case 0:
			// nothing: adjacent values
		case 1:
			if bad {
				sb.WriteString([]string{",", "x", "]", "}", ":", "\x00", "\xff", "\"", "-", "e", "."}[rng.Intn(11)])
			} else {
				sb.WriteString(" ")
			}
		default:
			sb.WriteString(wsChars[rng.Intn(4)] + ws())
		}
	}
	return sb.String()
}

// ---------------------------------------------------------------- random values (encoder)

func randBytesString() string {
	var sb strings.Builder
	n := rng.Intn(10)
	for i := 0; i < n; i++ {
		switch rng.Intn(10) {
		case 0:
			sb.WriteByte(byte(rng.Intn(256)))
		case 1:
			sb.WriteByte(byte(rng.Intn(0x20)))
		case 2:
			sb.WriteString(badSeqs[rng.Intn(len(badSeqs))])
		case 3, 4:
			sb.WriteString(string(validRune()))
		case 5:
			sb.WriteString([]string{"<", ">", "&", "\"", "\\", "/", "\x7f", "\u2028", "\u2029", "\b", "\f", "\n", "\r", "\t", "\x00", "\x1f", "'"}[rng.Intn(17)])
		default:
			sb.WriteByte(byte(0x20 + rng.Intn(0x5F)))
		}
	}
	return sb.String()
}

func randValue(depth int, nonfinite bool) any {
	k := rng.Intn(12)
	if depth <= 0 && k >= 8 {
		k = rng.Intn(8)
	}
	switch k {
	case 0:
		return []any{nil, true, false}[rng.Intn(3)]
	case 1, 2, 3:
		if nonfinite && rng.Intn(6) == 0 {
			return []float64{math.NaN(), math.Inf(1), math.Inf(-1)}[rng.Intn(3)]
		}
		return randFloat()
	case 4, 5, 6, 7:
		return randBytesString()
	case 8, 9:
		n := rng.Intn(4)
		a := make([]any, 0)
		for i := 0; i < n; i++ {
			a = append(a, randValue(depth-1, nonfinite))
		}
		return a
	default:
		n := rng.Intn(4)
		m := map[string]any{}
		for i := 0; i < n; i++ {
			m[randBytesString()] = randValue(depth-1, nonfinite)
		}
		return m
	}
}

func nest(n int, open, close_, inner string) string {
	return strings.Repeat(open, n) + inner + strings.Repeat(close_, n)
}

func randChunks(s []byte) [][]byte {
	var cs [][]byte
	for len(s) > 0 {
		n := 1 + rng.Intn(6)
		if rng.Intn(4) == 0 {
			n = 1 + rng.Intn(40)
		}
		if n > len(s) {
			n = len(s)
		}
		cs = append(cs, s[:n])
		s = s[n:]
		if rng.Intn(15) == 0 {
			cs = append(cs, []byte{})
		}
	}
	return cs
}

func main() {
	f, err := os.Create(os.Args[1])
	if err != nil {
		panic(err)
	}
	scale := 1
	if len(os.Args) > 2 {
		scale, _ = strconv.Atoi(os.Args[2])
	}
	out = bufio.NewWriterSize(f, 1<<20)
	defer f.Close()
	defer out.Flush()

	// 1. fixed boundary cases
	fixed := []string{"", " ", "\n\t\r ", "1", "1 ", " 1", "1 2", `"a" "b"`, "1[2]", `"a""b"`, "truefalse", "1x", "[1][2]", `{"a":1}{"b":2}`, "1e999 2", "[1e999,2] 3",
		"01", "-", "1.e3", "nullx", "[]x", "1,2", "tru", "nul", "fals", "t", "f", "n", "true", "false", "null", "truex", "nulll", "[", "]", "{", "}", "[]", "{}", "[[]]", "[{}]", "{\"a\":[]}", "{\"a\":{}}",
		`{"a":1,"a":2}`, `{"a":1,"b":2,"a":3}`, `{"b":1,"a":2}`, `{"a":1,"\u0061":2}`, `{"":1}`, `{"a":{"a":1,"a":2},"a":3}`, `[1,]`, `[,1]`, `{"a":1,}`, `{,}`, `{"a"}`, `{"a":}`, `{a:1}`, `{"a" 1}`, `{1:1}`,
		`"\ud800\udc00"`, `"\ud800"`, `"\udc00"`, `"\ud800\u0041"`, `"\udc00\ud800\udc00"`, `"\ud800\ud800\udc00"`, `"\uD83D\uDE00"`, `"\ud83d\ud83d"`, `"\ud800x"`, `"\ud800\n"`, `"\ud800\\"`, `"\ud800\udbff"`, `"\udbff\udfff"`,
		`"\ud800\ue000"`, `"\ud7ff"`, `"\ue000"`, `"\ud800`, `"\ud800\`, `"\ud800\u`, `"\ud800\udc0`, "\"\xff\"", "\"\xc0\xaf\"", "\"\xe2\x82\"", "\"\xed\xa0\x80\"", "\"\xf4\x90\x80\x80\"", "\"\xf0\x9f\x98\x80\"", "\"\xe2\x80\xa8\"",
		`"\'"`, `"\a"`, `"\u00g0"`, `"\u00"`, "\"\x01\"", "\"\x1f\"", "\"\x7f\"", "\"\n\"", "\"\t\"", `"`, `""`, `"a`, `"\`, `"\"`, `"\""`, `"\\"`, `"\/"`, `"/"`, "+1", ".5", "5.", "1e", "1e+", "1e5", "1E5", "1e+5", "1e-5", "-0", "-0.0", "0.0", "0e0", "00", "-01", "0x10",
		"1e999", "-1e999", "1e-999", "[1e999]", `{"a":1e999}`, "1e400 ", "1.7976931348623159e308", "1.7976931348623157e308", "NaN", "Infinity", "-Infinity", "\ufeff1", "\x00", "1\x00", "[1\x002]", "/*c*/1", "//c\n1", "'a'", "[1 2]", `{"a":1 "b":2}`, `["a" "b"]`, "[1,,2]",
		"1\n2\n3\n", "1\r\n2", "  [ 1 , 2 ]  ", "\t{\t\"a\"\t:\t1\t}\t", "\v1", "\f1", "1\v", "\u00a01", "\xa01", "[1]\x00", "[1]]", "[1]}", "{}}", "{}]", `"a"]`, "1]", "1}", "1:", `"a":1`, "-1-1", "1-1", "1+1", "1.5.5", "1e5e5", "1e5.5", "--1", "-[1]", "-\"a\"", "-t", "- 1", "1 .5", "1. 5"}
	for _, s := range fixed {
		emitD([]byte(s))
		for cut := 0; cut <= len(s) && len(s) <= 24; cut++ {
			emitS([][]byte{[]byte(s[:cut]), []byte(s[cut:])}, false)
			emitS([][]byte{[]byte(s[:cut]), []byte(s[cut:])}, true)
		}
		var one [][]byte
		for i := range s {
			one = append(one, []byte(s[i:i+1]))
		}
		emitS(one, false)
		emitS(one, true)
		emitS([][]byte{[]byte(s)}, false)
		emitS([][]byte{[]byte(s)}, true)
	}
	// depth boundary
	for _, n := range []int{1, 2, 100, 9999, 10000, 10001, 10002, 12000} {
		for si, s := range []string{nest(n, "[", "]", ""), nest(n, "[", "]", "1"), nest(n, `{"a":`, "}", "1"), nest(n, `{"a":`, "}", "{}"), nest(n, `[{"a":`, "}]", "[]"),
			nest(n, "[", "]", "") + nest(n, "[", "]", ""), nest(n, "[", "]", "")[:2*n-1], nest(n, "[ ", " ]", `"x"`), "[" + nest(n-1, "[", "]", "") + "," + nest(n, "[", "]", "") + "]"} {
			emitD([]byte(s))
			if n >= 9999 && n <= 10001 {
				emitS(randChunks([]byte(s)), false)
			}
			// encoder depth boundary
			var v any
			if json.Unmarshal([]byte(s), &v) == nil {
				if n <= 100 {
					emitE(v)
				} else if si < 4 {
					emitX(v)
				}
			}
		}
		// values deeper than the decoder accepts, built directly
		var v any = []any{}
		var w any = map[string]any{}
		for i := 1; i < n; i++ {
			v = []any{v}
			if i%2 == 0 {
				w = map[string]any{"k": w}
			} else {
				w = []any{1.0, w}
			}
		}
		if n <= 100 {
			emitE(v)
			emitE(w)
		} else {
			emitX(v)
			emitX(w)
		}
	}

	// 2. random streams (valid-ish), their truncations and corruptions
	interesting := []byte{' ', '\n', '"', '\\', ',', ':', '[', ']', '{', '}', '0', '1', '9', '-', '+', '.', 'e', 'E', 'u', 't', 'r', 'n', 'a', 'f', 'l', 's', 'x', 0, 0x1f, 0x7f, 0x80, 0xc2, 0xe2, 0xf0, 0xff, 'd', 'D', 'b', '/', '\''}
	for i := 0; i < 14000*scale; i++ {
		s := []byte(streamText(false))
		emitD(s)
		if i%3 == 0 {
			emitS(randChunks(s), rng.Intn(4) == 0)
		}
	}
	for i := 0; i < 8000*scale; i++ {
		s := []byte(streamText(true))
		emitD(s)
		if i%3 == 0 {
			emitS(randChunks(s), rng.Intn(4) == 0)
		}
	}
	for i := 0; i < 500*scale; i++ {
		s := []byte(streamText(false))
		if len(s) > 60 {
			continue
		}
		for cut := 0; cut < len(s); cut++ {
			emitD(s[:cut])
		}
		for pos := 0; pos < len(s); pos++ {
			for k := 0; k < 3; k++ {
				c := interesting[rng.Intn(len(interesting))]
				t := append([]byte{}, s...)
				switch rng.Intn(3) {
				case 0:
					t[pos] = c
				case 1:
					t = append(t[:pos], append([]byte{c}, t[pos:]...)...)
				default:
					t = append(t[:pos], t[pos+1:]...)
				}
				emitD(t)
			}
		}
		// every split point, and every single-byte chunking
		if len(s) <= 40 {
			for cut := 0; cut <= len(s); cut++ {
				emitS([][]byte{s[:cut], s[cut:]}, cut%2 == 0)
			}
		}
	}
	// pure number / string literal streams
	for i := 0; i < 4000*scale; i++ {
		emitD([]byte(numText() + []string{"", " ", "\n", ",", "]", "x", "1"}[rng.Intn(7)]))
		emitD([]byte(`"` + strBody(true) + `"` + []string{"", " ", "\"", "x"}[rng.Intn(4)]))
	}
	// long inputs: several Read calls even with bytes.Reader (buffer 512+)
	for i := 0; i < 150*scale; i++ {
		var sb strings.Builder
		for sb.Len() < 600+rng.Intn(3000) {
			sb.WriteString(valueText(4, false))
			sb.WriteString(wsChars[rng.Intn(4)])
		}
		s := []byte(sb.String())
		emitD(s)
		emitS(randChunks(s), rng.Intn(3) == 0)
		var cs [][]byte
		for len(s) > 0 {
			n := 512
			if n > len(s) {
				n = len(s)
			}
			cs = append(cs, s[:n])
			s = s[n:]
		}
		emitS(cs, false)
	}

	// 3. encoder: random values incl. invalid UTF-8, control bytes, NaN/Inf
	for i := 0; i < 14000*scale; i++ {
		emitE(randValue(rng.Intn(5), i%5 == 0))
	}
	for _, fl := range edgeFloats {
		emitE(fl)
		emitE(-fl)
	}
	for c := 0; c < 256; c++ {
		emitE(string([]byte{byte(c)}))
		emitE("x" + string([]byte{byte(c)}) + "y")
		emitE(map[string]any{string([]byte{byte(c)}): string([]byte{0xe2, 0x80, byte(c)})})
	}
	for _, b := range badSeqs {
		emitE(b)
		emitE(b + b)
		emitE("a" + b + "\u2028")
	}
	emitE(nil)
	emitE([]any{})
	emitE(map[string]any{})
	emitE([]any{[]any{}, map[string]any{}, []any{[]any{}}, map[string]any{"": map[string]any{}}})
	emitE(math.NaN())
	emitE([]any{1.0, math.Inf(1)})
	emitE(map[string]any{"a": math.Inf(-1)})

	fmt.Fprintf(os.Stderr, "generated: D %d  S %d  E %d\n", nD, nS, nE)
}
