#!/bin/sh
# Re-runs the differential validation of JQ.Json.Decode / JQ.Json.Encode against real Go.
# usage: run.sh [scale]   (scale 1 = about 111k vector lines; needs go, coqc, ocamlfind)
set -e
HERE=$(cd "$(dirname "$0")" && pwd)
THEORIES=$(cd "$HERE/../.." && pwd)
SCALE=${1:-1}
JOBS=${JOBS:-$(nproc)}
T=$(mktemp -d)
trap 'rm -rf "$T"' EXIT
export GOFLAGS=-mod=mod GOPROXY=off GOSUMDB=off GOTOOLCHAIN=local GO111MODULE=off
ulimit -s unlimited 2>/dev/null || true
cp "$HERE/gen.go" "$HERE/driver.ml" "$HERE/extract.v" "$T/"
cd "$T"
( cd "$THEORIES/.." &&
  for f in Base/Bytes Num/F64 Json/JValue Json/Decode Json/Encode; do
    [ "theories/$f.vo" -nt "theories/$f.v" ] || timeout 600 coqc -R theories JQ "theories/$f.v"
  done )
timeout 600 coqc -R "$THEORIES" JQ extract.v >/dev/null
ocamlfind ocamlopt -O3 -package str jsonm.mli jsonm.ml driver.ml -o driver 2>/dev/null || ocamlfind ocamlopt -package str jsonm.mli jsonm.ml driver.ml -o driver
go run gen.go "$T/vectors.txt" "$SCALE"
echo "vectors: $(wc -l < vectors.txt)"
awk -v n="$JOBS" '{ print > ("chunk." (NR % n)) }' vectors.txt
for f in chunk.*; do ./driver "$f" > "out.$f" 2>&1 & done
wait
grep -h -A 3 MISMATCH out.chunk.* | head -60 || true
grep -h "BAD LINE\|exception\|Fatal" out.chunk.* | head -5 || true
grep -h "^COUNT" out.chunk.* | awk '{ b=$NF; t=$(NF-1); k=$2; for(i=3;i<NF-1;i++) k=k" "$i; T[k]+=t; B[k]+=b } END { for (k in T) printf "%-76s compared %8d  mismatches %d\n", k, T[k], B[k] }' | sort
