(* F64: IEEE-754 binary64 as executable pure Gallina on Coq.Floats.SpecFloat.
   DEFINITIONS ONLY (proofs live in F64Proofs.v).  No primitive floats, no axioms.

   Mirrors Go 1.23: float64 arithmetic, int(x) on amd64, math.Floor/Ceil/Round,
   strconv.ParseFloat(s, 64), strconv.FormatFloat(x, 'f', -1, 64) and the
   encoding/json float64 encoder.  Validated against real Go, see validate/. *)
From Coq Require Import ZArith NArith List Bool.
From Coq Require Export SpecFloat.
From JQ Require Import Base.Bytes.
Import ListNotations.
Local Open Scope list_scope.
Local Open Scope Z_scope.

Definition float := spec_float.
Definition prec : Z := 53.
Definition emax : Z := 1024.

Definition f_zero : float := S754_zero false.
Definition f_one : float := S754_finite false 4503599627370496 (-52).
Definition f_nan : float := S754_nan.

(* ------------------------------------------------------------------ *)
(* Arithmetic and comparison                                           *)

Definition f_add (x y : float) : float := SFadd prec emax x y.
Definition f_sub (x y : float) : float := SFsub prec emax x y.
Definition f_mul (x y : float) : float := SFmul prec emax x y.
Definition f_div (x y : float) : float := SFdiv prec emax x y.
Definition f_neg (x : float) : float := SFopp x.
Definition f_abs (x : float) : float := SFabs x.

Definition f_cmp (x y : float) : option comparison := SFcompare x y.
Definition f_ltb (x y : float) : bool :=
  match f_cmp x y with Some Lt => true | _ => false end.
Definition f_gtb (x y : float) : bool :=
  match f_cmp x y with Some Gt => true | _ => false end.
Definition f_eqb (x y : float) : bool :=
  match f_cmp x y with Some Eq => true | _ => false end.
Definition f_leb (x y : float) : bool :=
  match f_cmp x y with Some Lt | Some Eq => true | _ => false end.

Definition f_is_zero (x : float) : bool :=
  match x with S754_zero _ => true | _ => false end.
Definition f_is_nan (x : float) : bool :=
  match x with S754_nan => true | _ => false end.
Definition f_is_inf (x : float) : bool :=
  match x with S754_infinity _ => true | _ => false end.
Definition f_is_finite (x : float) : bool :=
  match x with S754_zero _ | S754_finite _ _ _ => true | _ => false end.
Definition f_sign (x : float) : bool :=
  match x with
  | S754_zero s | S754_infinity s | S754_finite s _ _ => s
  | S754_nan => false
  end.

(* structural equality (distinguishes +0 / -0, equates NaN with NaN) *)
Definition f_same (x y : float) : bool :=
  match x, y with
  | S754_zero a, S754_zero b => Bool.eqb a b
  | S754_infinity a, S754_infinity b => Bool.eqb a b
  | S754_nan, S754_nan => true
  | S754_finite a m e, S754_finite b n f => Bool.eqb a b && Pos.eqb m n && Z.eqb e f
  | _, _ => false
  end.

(* ------------------------------------------------------------------ *)
(* Integers <-> floats                                                 *)

(* Go float64(i): round to nearest even *)
Definition f_of_Z (z : Z) : float := binary_normalize prec emax z 0 false.

Definition int64_min : Z := -9223372036854775808.
Definition int64_max : Z := 9223372036854775807.

(* Go int(x) on amd64 (CVTTSD2SQ): truncation; "integer indefinite" -2^63
   for NaN, infinities and everything outside the int64 range *)
Definition f_trunc_int64 (x : float) : Z :=
  match x with
  | S754_zero _ => 0
  | S754_finite s m e =>
      let v := Z.shiftl (Zpos m) e in
      let r := if s then - v else v in
      if (int64_min <=? r) && (r <=? int64_max) then r else int64_min
  | _ => int64_min
  end.

(* math.Floor *)
Definition f_floor (x : float) : float :=
  match x with
  | S754_finite s m e =>
      if 0 <=? e then x
      else
        let q := Z.shiftl (Zpos m) e in
        let exact := Z.eqb (Z.shiftl q (- e)) (Zpos m) in
        if s then binary_normalize prec emax (- (if exact then q else q + 1)) 0 true
        else binary_normalize prec emax q 0 false
  | _ => x
  end.

(* math.Ceil(x) = -Floor(-x) *)
Definition f_ceil (x : float) : float := f_neg (f_floor (f_neg x)).

(* math.Round: halves away from zero, sign of zero results follows x *)
Definition f_round (x : float) : float :=
  match x with
  | S754_finite s m e =>
      if 0 <=? e then x
      else
        let q := Z.shiftl (Zpos m) e in
        let rem := Zpos m - Z.shiftl q (- e) in
        let mag := if Z.shiftl 1 (- e - 1) <=? rem then q + 1 else q in
        binary_normalize prec emax (if s then - mag else mag) 0 s
  | _ => x
  end.

Definition is_integer_valued (x : float) : bool :=
  match x with
  | S754_zero _ => true
  | S754_finite _ m e =>
      (0 <=? e) || Z.eqb (Z.shiftl (Z.shiftl (Zpos m) e) (- e)) (Zpos m)
  | _ => false
  end.

(* ------------------------------------------------------------------ *)
(* Bit-level encoding (test-vector exchange)                           *)

Definition nan_bits : N := 9221120237041090561%N. (* 0x7ff8000000000001 *)

Definition f_bits (x : float) : N :=
  let sgn (s : bool) : N := if s then 9223372036854775808%N else 0%N in
  match x with
  | S754_zero s => sgn s
  | S754_infinity s => (sgn s + 9218868437227405312)%N
  | S754_nan => nan_bits
  | S754_finite s m e =>
      if Pos.eqb (digits2_pos m) 53
      then (sgn s + N.shiftl (Z.to_N (e + 1075)) 52 + (Npos m - 4503599627370496))%N
      else (sgn s + Npos m)%N
  end.

Definition f_of_bits (n : N) : float :=
  let s := N.testbit n 63 in
  let ex := N.land (N.shiftr n 52) 2047 in
  let fr := N.land n 4503599627370495 in
  if N.eqb ex 0 then
    match fr with
    | N0 => S754_zero s
    | Npos p => S754_finite s p (-1074)
    end
  else if N.eqb ex 2047 then
    match fr with
    | N0 => S754_infinity s
    | _ => S754_nan
    end
  else
    match (fr + 4503599627370496)%N with
    | Npos p => S754_finite s p (Z.of_N ex - 1075)
    | N0 => S754_nan
    end.

(* ------------------------------------------------------------------ *)
(* Powers                                                              *)

(* 5^n by square and multiply (n <= 0 gives 1) *)
Definition pow5 (n : Z) : Z :=
  match n with
  | Zpos p => Pos.iter_op Z.mul p 5
  | _ => 1
  end.

Definition pow10 (n : Z) : Z :=
  match n with
  | Zpos _ => Z.shiftl (pow5 n) n
  | _ => 1
  end.

(* ------------------------------------------------------------------ *)
(* strconv.ParseFloat(s, 64)                                           *)

Inductive pf_result :=
| PFok (f : float)
| PFrange (f : float)
| PFsyntax
| PFunsupported.

Definition lower_byte (c : byte) : byte :=
  if ((65 <=? c) && (c <=? 90))%N then (c + 32)%N else c.

(* "inf" / "infinity" recognition on the text after the optional sign;
   None: not a special form, continue with the ordinary number syntax *)
Definition special_inf (neg : bool) (body : bytes) : option pf_result :=
  let l := map lower_byte body in
  if is_prefix (bs "inf") l then
    Some (if bytes_eqb l (bs "inf") || bytes_eqb l (bs "infinity")
          then PFok (S754_infinity neg) else PFsyntax)
  else None.

Definition special (s : bytes) : option pf_result :=
  match s with
  | [] => None
  | c :: r =>
      if (c =? 43)%N then special_inf false r
      else if (c =? 45)%N then special_inf true r
      else if ((c =? 105) || (c =? 73))%N then special_inf false s
      else if ((c =? 110) || (c =? 78))%N then
        let l := map lower_byte s in
        if is_prefix (bs "nan") l then
          Some (if bytes_eqb l (bs "nan") then PFok S754_nan else PFsyntax)
        else None
      else None
  end.

Definition strip_sign (s : bytes) : bool * bytes :=
  match s with
  | c :: r => if (c =? 43)%N then (false, r)
              else if (c =? 45)%N then (true, r)
              else (false, s)
  | [] => (false, s)
  end.

(* Go: i+2 < len(s) && s[i] == '0' && lower(s[i+1]) == 'x' *)
Definition is_hex_prefix (s : bytes) : bool :=
  match s with
  | c0 :: c1 :: _ :: _ => ((c0 =? 48) && ((c1 =? 120) || (c1 =? 88)))%N
  | _ => false
  end.

Definition digit_val (c : byte) : Z := Z.of_N (c - 48).

(* mantissa: digits, '_' and at most one '.'.
   mant: value of all digits read; nd: digits since the first non-zero one;
   frac: digits after the point.  Returns the unread rest. *)
Fixpoint scan_mant (s : bytes) (mant nd frac : Z) (sawdot sawdig : bool)
  : bytes * Z * Z * Z * bool :=
  match s with
  | [] => ([], mant, nd, frac, sawdig)
  | c :: r =>
      if (c =? 95)%N then scan_mant r mant nd frac sawdot sawdig
      else if (c =? 46)%N then
        if sawdot then (s, mant, nd, frac, sawdig)
        else scan_mant r mant nd frac true sawdig
      else if is_ascii_digit c then
        let mant' := mant * 10 + digit_val c in
        scan_mant r mant'
                  (if mant' =? 0 then 0 else nd + 1)
                  (if sawdot then frac + 1 else frac) sawdot true
      else (s, mant, nd, frac, sawdig)
  end.

(* exponent digits; Go stops accumulating once e >= 10000 *)
Fixpoint scan_exp_digits (s : bytes) (e : Z) : bytes * Z :=
  match s with
  | [] => ([], e)
  | c :: r =>
      if (c =? 95)%N then scan_exp_digits r e
      else if is_ascii_digit c then
        scan_exp_digits r (if e <? 10000 then e * 10 + digit_val c else e)
      else (s, e)
  end.

(* what follows the mantissa: nothing, or [eE][+-]?digit(digit|_)* up to the
   end of the text.  None = syntax error. *)
Definition scan_exp (s : bytes) : option Z :=
  match s with
  | [] => Some 0
  | c :: r =>
      if ((c =? 101) || (c =? 69))%N then
        let '(neg, r1) :=
          match r with
          | c1 :: r' => if (c1 =? 43)%N then (false, r')
                        else if (c1 =? 45)%N then (true, r')
                        else (false, r)
          | [] => (false, r)
          end in
        match r1 with
        | c2 :: _ =>
            if is_ascii_digit c2 then
              let '(rest, e) := scan_exp_digits r1 0 in
              match rest with
              | [] => Some (if neg then - e else e)
              | _ => None
              end
            else None
        | [] => None
        end
      else None
  end.

(* strconv.underscoreOK for text without base prefix (sign already removed):
   every '_' must be between two digits *)
Inductive us_saw := UsStart | UsDigit | UsUnder | UsOther.

Fixpoint underscore_ok_aux (s : bytes) (saw : us_saw) : bool :=
  match s with
  | [] => match saw with UsUnder => false | _ => true end
  | c :: r =>
      if is_ascii_digit c then underscore_ok_aux r UsDigit
      else if (c =? 95)%N then
        match saw with UsDigit => underscore_ok_aux r UsUnder | _ => false end
      else
        match saw with UsUnder => false | _ => underscore_ok_aux r UsOther end
  end.

Definition underscore_ok (s : bytes) : bool := underscore_ok_aux s UsStart.

(* the double nearest (ties to even) to mant * 10^exp10, mant > 0 *)
Definition round_dec (mant exp10 : Z) : float :=
  if 0 <=? exp10 then
    binary_normalize prec emax (mant * pow5 exp10) exp10 false
  else
    let k := - exp10 in
    let p5 := pow5 k in
    (* q = floor (mant * 2^j / 5^k) has at least 67 bits; the remainder is
       folded into a sticky low bit, which is exact for nearest-even *)
    let j := Z.max 0 (Z.log2 p5 + 68 - Z.log2 mant) in
    let '(q, r) := Z.div_eucl (Z.shiftl mant j) p5 in
    let q' := 2 * q + (if r =? 0 then 0 else 1) in
    binary_normalize prec emax q' (- j - k - 1) false.

Definition dec_to_float (neg : bool) (mant nd exp10 : Z) : pf_result :=
  if mant =? 0 then PFok (S754_zero neg)
  else
    let dp := exp10 + nd in
    if 310 <? dp then PFrange (S754_infinity neg)
    else if dp <? -330 then PFok (S754_zero neg)
    else
      let r := round_dec mant exp10 in
      let r' := if neg then SFopp r else r in
      match r with
      | S754_infinity _ => PFrange r'
      | _ => PFok r'
      end.

Definition parse_float (s : bytes) : pf_result :=
  match special s with
  | Some r => r
  | None =>
      let '(neg, s1) := strip_sign s in
      if is_hex_prefix s1 then PFunsupported
      else
        let '(rest, mant, nd, frac, sawdig) := scan_mant s1 0 0 0 false false in
        if negb sawdig then PFsyntax
        else
          match scan_exp rest with
          | None => PFsyntax
          | Some e =>
              if negb (underscore_ok s1) then PFsyntax
              else dec_to_float neg mant nd (e - frac)
          end
  end.

Definition pf_is (r : pf_result) (x : float) : bool :=
  match r with PFok y => f_same y x | _ => false end.

(* ------------------------------------------------------------------ *)
(* Shortest decimal digits                                             *)

(* 10^t <= m * 2^e *)
Definition pow10_le (t : Z) (m : positive) (e : Z) : bool :=
  pow10 (Z.max t 0) * 2 ^ Z.max (- e) 0
  <=? Zpos m * 2 ^ Z.max e 0 * pow10 (Z.max (- t) 0).

(* k such that 10^(k-1) <= m * 2^e < 10^k *)
Definition dec_exponent (m : positive) (e : Z) : Z :=
  let b := Zpos (digits2_pos m) + e in
  let c := Z.shiftr ((b - 1) * 78913) 18 in
  if pow10_le (c + 1) m e then c + 2
  else if pow10_le c m e then c + 1
  else c.

(* candidates are integers in units of 10^(k-17); level n (n significant
   digits) looks at multiples of u = 10^(17-n).  lcmp compares the
   fractional part of the 17-digit scaled value with 1/2. *)
Fixpoint search_levels (us : list Z) (qx : Z) (sticky : bool) (lcmp : comparison)
         (Lc Uc : Z) : option Z :=
  match us with
  | [] => None
  | u :: rest =>
      let h := qx / u in
      let lo := h * u in
      let hi := lo + u in
      let c := if u =? 1 then lcmp
               else match 2 * (qx - lo) ?= u with
                    | Eq => if sticky then Gt else Eq
                    | c => c
                    end in
      let lo_first := match c with Lt => true | Gt => false | Eq => Z.even h end in
      let inr z := (Lc <=? z) && (z <=? Uc) in
      let '(c1, c2) := if lo_first then (lo, hi) else (hi, lo) in
      if inr c1 then Some c1
      else if inr c2 then Some c2
      else search_levels rest qx sticky lcmp Lc Uc
  end.

Definition level_units : list Z :=
  [10000000000000000; 1000000000000000; 100000000000000; 10000000000000;
   1000000000000; 100000000000; 10000000000; 1000000000; 100000000;
   10000000; 1000000; 100000; 10000; 1000; 100; 10; 1].

Fixpoint strip_zeros (fuel : nat) (d p : Z) : Z * Z :=
  match fuel with
  | O => (d, p)
  | S f => if (d mod 10 =? 0) && negb (d =? 0) then strip_zeros f (d / 10) (p + 1)
           else (d, p)
  end.

(* shortest_raw m e = (d, p): d * 10^p is the shortest decimal (closest to the
   value on ties of length) inside the rounding interval of m * 2^e.
   [shortest] below is this search guarded by a read-back check. *)
Definition shortest_raw (m : positive) (e : Z) : Z * Z :=
  let k := dec_exponent m e in
  let t := 17 - k in
  let a := e - 2 + t in
  let M := pow5 (Z.max t 0) * 2 ^ Z.max a 0 in
  let den := pow5 (Z.max (- t) 0) * 2 ^ Z.max (- a) 0 in
  let x4 := 4 * Zpos m in
  let ld := if Pos.eqb m 4503599627370496 && (-1074 <? e) then 1 else 2 in
  let '(qx, rx) := Z.div_eucl (x4 * M) den in
  let '(ql, rl) := Z.div_eucl ((x4 - ld) * M) den in
  let '(qh, rh) := Z.div_eucl ((x4 + 2) * M) den in
  let incl := Z.even (Zpos m) in
  let Lc := if incl && (rl =? 0) then ql else ql + 1 in
  let Uc := if negb incl && (rh =? 0) then qh - 1 else qh in
  match search_levels level_units qx (negb (rx =? 0)) (2 * rx ?= den) Lc Uc with
  | Some c => strip_zeros 20 c (- t)
  | None => (qx, - t)
  end.

(* ------------------------------------------------------------------ *)
(* Rendering                                                           *)

Definition digits_of_Z (z : Z) : bytes := dec_of_N (Z.to_N z).
Definition zeros (n : Z) : bytes := repeat_byte 48%N (Z.to_nat n).

(* digits ds scaled by 10^p, positional notation *)
Definition render_pos (ds : bytes) (p : Z) : bytes :=
  if 0 <=? p then ds ++ zeros p
  else
    let ip := Z.of_nat (List.length ds) + p in
    if 0 <? ip then firstn (Z.to_nat ip) ds ++ 46%N :: skipn (Z.to_nat ip) ds
    else 48%N :: 46%N :: zeros (- ip) ++ ds.

(* d.ddde[+-]x with the exponent printed without padding (what encoding/json
   produces after its e-09 -> e-9 clean-up; only used for |x| >= 7 or x >= 21) *)
Definition render_exp (ds : bytes) (p : Z) : bytes :=
  let x := p + Z.of_nat (List.length ds) - 1 in
  let ex := (if x <? 0 then 45%N else 43%N) :: digits_of_Z (Z.abs x) in
  match ds with
  | [] => []
  | d1 :: [] => d1 :: 101%N :: ex
  | d1 :: rest => d1 :: 46%N :: rest ++ 101%N :: ex
  end.

Definition sign_bytes (neg : bool) : bytes := if neg then [45%N] else [].

(* the exact decimal value of m * 2^e as (digits, exponent) *)
Definition exact_digits (m : positive) (e : Z) : Z * Z :=
  if 0 <=? e then (Zpos m * 2 ^ e, 0) else (Zpos m * pow5 (- e), e).

(* shortest m e = (d, p): the shortest digits found by [shortest_raw], accepted
   only if d * 10^p reads back (parse_float, exponent notation) as m * 2^e;
   the exact decimal value is the total fallback (it has never been needed in
   testing).  This makes the round trip of every text rendered from these
   digits provable by construction (F64Proofs.format_f_roundtrip,
   F64Json.format_json_roundtrip). *)
Definition shortest (m : positive) (e : Z) : Z * Z :=
  let '(d, p) := shortest_raw m e in
  if pf_is (parse_float (render_exp (digits_of_Z d) p)) (S754_finite false m e)
  then (d, p) else exact_digits m e.

Definition fmt_candidate (neg : bool) (m : positive) (e : Z) : bytes :=
  let '(d, p) := shortest m e in
  sign_bytes neg ++ render_pos (digits_of_Z d) p.

(* the exact decimal expansion of m * 2^e *)
Definition fmt_exact (neg : bool) (m : positive) (e : Z) : bytes :=
  sign_bytes neg ++
  (if 0 <=? e then render_pos (digits_of_Z (Zpos m * 2 ^ e)) 0
   else render_pos (digits_of_Z (Zpos m * pow5 (- e))) e).

(* strconv.FormatFloat(x, 'f', -1, 64).  The shortest candidate is accepted
   only if parse_float maps it back to x (it always does; the exact
   expansion is the total fallback). *)
Definition format_f (x : float) : bytes :=
  match x with
  | S754_nan => bs "NaN"
  | S754_infinity false => bs "+Inf"
  | S754_infinity true => bs "-Inf"
  | S754_zero false => bs "0"
  | S754_zero true => bs "-0"
  | S754_finite s m e =>
      let c := fmt_candidate s m e in
      if pf_is (parse_float c) x then c else fmt_exact s m e
  end.

(* does the text produced by format_f read back as x *)
Definition format_f_checked (x : float) : bool :=
  match x with
  | S754_finite s m e =>
      pf_is (parse_float (fmt_candidate s m e)) x
      || pf_is (parse_float (fmt_exact s m e)) x
  | _ => true
  end.

Definition f_1e_6 : float := Eval vm_compute in round_dec 1 (-6).
Definition f_1e21 : float := Eval vm_compute in round_dec 1 21.

(* encoding/json float64 encoder *)
Definition format_json (x : float) : option bytes :=
  match x with
  | S754_nan | S754_infinity _ => None
  | S754_zero _ => Some (format_f x)
  | S754_finite s m e =>
      if f_ltb (f_abs x) f_1e_6 || negb (f_ltb (f_abs x) f_1e21) then
        let '(d, p) := shortest m e in
        Some (sign_bytes s ++ render_exp (digits_of_Z d) p)
      else Some (format_f x)
  end.

(* ------------------------------------------------------------------ *)
(* -?[0-9]+(\.[0-9]+)? *)

Fixpoint drop_digits (s : bytes) : bytes :=
  match s with
  | c :: r => if is_ascii_digit c then drop_digits r else s
  | [] => []
  end.

Definition positional (s : bytes) : bool :=
  let s1 := match s with
            | c :: r => if (c =? 45)%N then r else s
            | [] => s
            end in
  match s1 with
  | c :: _ =>
      is_ascii_digit c &&
      match drop_digits s1 with
      | [] => true
      | c' :: f =>
          (c' =? 46)%N &&
          match f with
          | [] => false
          | _ => forallb is_ascii_digit f
          end
      end
  | [] => false
  end.
