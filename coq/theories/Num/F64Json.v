(* F64Json: format_json_roundtrip -- what the JSON float64 encoder writes reads back
   (parse_float) as the same double, in both the positional and the exponent branch.
   Uses no axioms and leaves nothing unproved. *)
From Coq Require Import ZArith NArith List Bool Lia ZifyN ZifyNat ZifyBool Zpower.
From JQ Require Import Base.Bytes Num.F64 Num.F64Proofs.
Import ListNotations.
Local Open Scope list_scope.
Local Open Scope Z_scope.

Arguments Z.shiftl : simpl never.
Arguments Z.pow : simpl never.
Arguments Z.mul : simpl never.
Arguments Z.add : simpl never.
Arguments Z.sub : simpl never.

(* ---------- texts without '_' ---------- *)
Definition no_us (c : byte) : bool := negb (c =? 95)%N.

Lemma underscore_ok_no_us : forall s saw, forallb no_us s = true ->
  saw <> UsUnder -> underscore_ok_aux s saw = true.
Proof.
  induction s as [|c r IH]; intros saw Hp Hs.
  - destruct saw; try reflexivity. congruence.
  - cbn [forallb] in Hp. apply andb_true_iff in Hp. destruct Hp as [Hc Hr].
    cbn [underscore_ok_aux]. unfold no_us in Hc.
    destruct (is_ascii_digit c); [apply IH; [assumption|discriminate]|].
    replace (c =? 95)%N with false by lia.
    destruct saw; try (apply IH; [assumption|discriminate]). congruence.
Qed.

Lemma no_us_digits : forall ds, all_digits ds = true -> forallb no_us ds = true.
Proof.
  induction ds as [|c r IH]; intro H; [reflexivity|].
  unfold all_digits in H. cbn [forallb] in *. apply andb_true_iff in H. destruct H as [Hc Hr].
  apply andb_true_iff. split; [|now apply IH]. unfold no_us, is_ascii_digit in *. lia.
Qed.

(* ---------- the exponent part ---------- *)
Lemma dval_ge : forall ds a, all_digits ds = true -> 0 <= a -> a <= dval ds a.
Proof.
  induction ds as [|c r IH]; intros a Hd Ha; [cbn; lia|].
  unfold all_digits in Hd. cbn [forallb] in Hd. apply andb_true_iff in Hd. destruct Hd as [Hc Hr].
  pose proof (digit_val_digit c Hc) as Hv.
  unfold dval. cbn [fold_left]. fold (dval r (a * 10 + digit_val c)).
  specialize (IH (a * 10 + digit_val c) Hr ltac:(lia)). lia.
Qed.

Lemma scan_exp_digits_all : forall ds e, all_digits ds = true -> 0 <= e -> dval ds e < 100000 ->
  scan_exp_digits ds e = ([], dval ds e).
Proof.
  induction ds as [|c r IH]; intros e Hd He Hb; [reflexivity|].
  pose proof Hd as Hd'. unfold all_digits in Hd. cbn [forallb] in Hd. apply andb_true_iff in Hd. destruct Hd as [Hc Hr].
  pose proof (digit_val_digit c Hc) as Hv.
  cbn [scan_exp_digits]. replace (c =? 95)%N with false by (unfold is_ascii_digit in Hc; lia). rewrite Hc.
  unfold dval in *. cbn [fold_left] in *. fold (dval r (e * 10 + digit_val c)) in *.
  pose proof (dval_ge r (e * 10 + digit_val c) Hr ltac:(lia)) as Hge.
  replace (e <? 10000) with true by lia.
  apply IH; [assumption|lia|assumption].
Qed.

Lemma scan_exp_rendered : forall x, Z.abs x < 100000 ->
  scan_exp (101%N :: (if x <? 0 then 45%N else 43%N) :: digits_of_Z (Z.abs x)) = Some x.
Proof.
  intros x Hx.
  pose proof (digits_of_Z_digits (Z.abs x)) as Hd. pose proof (digits_of_Z_nonempty (Z.abs x)) as Hne.
  pose proof (digits_of_Z_val (Z.abs x) ltac:(lia)) as Hv.
  assert (Hs : scan_exp_digits (digits_of_Z (Z.abs x)) 0 = ([], Z.abs x)).
  { rewrite scan_exp_digits_all; [now rewrite Hv|assumption|lia|lia]. }
  unfold scan_exp. replace ((101 =? 101) || (101 =? 69))%N with true by reflexivity.
  destruct (digits_of_Z (Z.abs x)) as [|c2 r2] eqn:Eds; [congruence|].
  assert (Hc2 : is_ascii_digit c2 = true).
  { unfold all_digits in Hd. cbn [forallb] in Hd. now apply andb_true_iff in Hd. }
  destruct (x <? 0) eqn:Eneg.
  - replace (45 =? 43)%N with false by reflexivity. rewrite N.eqb_refl. rewrite Hc2, Hs. f_equal. lia.
  - rewrite N.eqb_refl. rewrite Hc2, Hs. f_equal. lia.
Qed.

(* ---------- parsing d.ddde[+-]x ---------- *)
Lemma parse_render_exp : forall ds p, ds <> [] -> all_digits ds = true ->
  Z.abs (p + Z.of_nat (List.length ds) - 1) < 100000 ->
  parse_float (render_exp ds p) = dec_to_float false (dval ds 0) (snd (drun ds (0, 0))) p
  /\ exists c r, render_exp ds p = c :: r /\ is_ascii_digit c = true.
Proof.
  intros ds p Hne Hd Hx. unfold render_exp.
  set (x := p + Z.of_nat (List.length ds) - 1) in *.
  set (ex := (if x <? 0 then 45%N else 43%N) :: digits_of_Z (Z.abs x)).
  pose proof (scan_exp_rendered x Hx) as Hse. fold ex in Hse.
  assert (Hex : forallb no_us (101%N :: ex) = true).
  { unfold ex. cbn [forallb]. apply andb_true_iff. split; [reflexivity|].
    apply andb_true_iff. split; [destruct (x <? 0); reflexivity|].
    exact (no_us_digits _ (digits_of_Z_digits (Z.abs x))). }
  destruct ds as [|d1 rest]; [congruence|].
  assert (Hd1 : is_ascii_digit d1 = true /\ all_digits rest = true).
  { unfold all_digits in Hd. cbn [forallb] in Hd. now apply andb_true_iff in Hd. }
  destruct Hd1 as [Hd1 Hrest].
  assert (Hd1' : (d1 =? 95)%N = false /\ (d1 =? 46)%N = false) by (unfold is_ascii_digit in Hd1; lia).
  destruct Hd1' as [H95 H46].
  set (T := match rest with [] => d1 :: 101%N :: ex | _ :: _ => d1 :: 46%N :: rest ++ 101%N :: ex end).
  split; [|exists d1; destruct rest; eexists; split; try reflexivity; assumption].
  change (parse_float T = dec_to_float false (dval (d1 :: rest) 0) (snd (drun (d1 :: rest) (0, 0))) p).
  assert (HT : forallb no_us T = true).
  { unfold T. destruct rest as [|d2 r2].
    - cbn [forallb]. apply andb_true_iff. split; [unfold no_us; now rewrite H95|exact Hex].
    - change (d1 :: 46%N :: (d2 :: r2) ++ 101%N :: ex) with ((d1 :: 46%N :: d2 :: r2) ++ 101%N :: ex).
      rewrite forallb_app. apply andb_true_iff. split; [|exact Hex].
      cbn [forallb]. apply andb_true_iff. split; [unfold no_us; now rewrite H95|].
      apply andb_true_iff. split; [reflexivity|]. exact (no_us_digits (d2 :: r2) Hrest). }
  assert (Hhex : is_hex_prefix T = false).
  { unfold T. destruct rest as [|d2 r2].
    - unfold ex, is_hex_prefix. replace ((101 =? 120) || (101 =? 88))%N with false by reflexivity. apply andb_false_r.
    - cbn [app]. unfold is_hex_prefix. replace ((46 =? 120) || (46 =? 88))%N with false by reflexivity. apply andb_false_r. }
  assert (ET : exists r, T = d1 :: r) by (unfold T; destruct rest; eexists; reflexivity).
  destruct ET as [r0 ET].
  unfold parse_float.
  replace (special T) with (@None pf_result) by (rewrite ET; symmetry; apply (special_digit_first d1 _ Hd1)).
  replace (strip_sign T) with (false, T) by (rewrite ET; symmetry; now apply strip_sign_digit).
  rewrite Hhex. unfold underscore_ok. rewrite (underscore_ok_no_us T UsStart HT) by discriminate.
  (* the scan of the mantissa *)
  assert (Hscan : scan_mant T 0 0 0 false false =
                  (101%N :: ex, dval (d1 :: rest) 0, snd (drun (d1 :: rest) (0, 0)),
                   Z.of_nat (List.length rest), true)).
  { assert (Hstop : forall (t : bytes) mant nd frac sd sg,
              scan_mant (101%N :: t) mant nd frac sd sg = (101%N :: t, mant, nd, frac, sg)) by reflexivity.
    assert (Hd1s : all_digits [d1] = true) by (unfold all_digits; cbn [forallb]; now rewrite Hd1).
    unfold T. destruct rest as [|d2 r2].
    - etransitivity; [exact (scan_mant_digits [d1] (101%N :: ex) 0 0 0 false false Hd1s)|].
      etransitivity; [apply Hstop|].
      repeat f_equal; try reflexivity; try exact (drun_fst [d1] (0, 0)).
    - etransitivity; [exact (scan_mant_digits [d1] (46%N :: (d2 :: r2) ++ 101%N :: ex) 0 0 0 false false Hd1s)|].
      etransitivity; [exact (scan_mant_digits (d2 :: r2) (101%N :: ex) (fst (drun [d1] (0, 0))) (snd (drun [d1] (0, 0))) 0 true true Hrest)|].
      etransitivity; [apply Hstop|].
      repeat f_equal; try reflexivity; try exact (drun_fst (d1 :: d2 :: r2) (0, 0)). }
  rewrite Hscan. cbn [negb]. rewrite Hse.
  f_equal. unfold x. cbn [List.length]. lia.
Qed.

(* ---------- the exact pair is read back exactly ---------- *)
Lemma dec_digits_fuel_length : forall fuel n acc,
  (List.length (dec_digits_fuel fuel n acc) <= fuel + List.length acc)%nat.
Proof.
  induction fuel as [|f IH]; intros n acc; cbn [dec_digits_fuel]; [lia|].
  destruct (n / 10 =? 0)%N; [cbn [List.length]; lia|].
  specialize (IH (n / 10)%N ((48 + n mod 10)%N :: acc)). cbn [List.length] in IH. lia.
Qed.

Lemma digits_of_Z_length : forall z b, 0 < z < 2 ^ b -> 0 <= b ->
  1 <= Z.of_nat (List.length (digits_of_Z z)) <= b.
Proof.
  intros z b [Hz Hb] Hb0. split.
  - pose proof (digits_of_Z_nonempty z). destruct (digits_of_Z z); [congruence|cbn [List.length]; lia].
  - unfold digits_of_Z, dec_of_N.
    pose proof (dec_digits_fuel_length (S (N.to_nat (N.log2 (Z.to_N z)))) (Z.to_N z) []) as H.
    cbn [List.length] in H.
    assert (Hn : (Z.to_N z < 2 ^ Z.to_N b)%N).
    { apply N2Z.inj_lt. rewrite N2Z.inj_pow, !Z2N.id by lia. exact Hb. }
    apply N.log2_lt_pow2 in Hn; lia.
Qed.

Lemma exact_digits_parse : forall m e, bounded 53 1024 m e = true ->
  let '(d, p) := exact_digits m e in
  0 < d /\ dec_to_float false (dval (digits_of_Z d) 0) (snd (drun (digits_of_Z d) (0, 0))) p
           = PFok (S754_finite false m e)
  /\ Z.abs (p + Z.of_nat (List.length (digits_of_Z d)) - 1) < 100000.
Proof.
  intros m e Hb. pose proof (fmt_exact_body_parses m e Hb) as [Hp _]. cbv zeta in Hp.
  destruct (bounded_facts m e Hb) as [Hm [Hr _]].
  unfold exact_digits. destruct (0 <=? e) eqn:E0.
  - apply Z.leb_le in E0.
    assert (H2e : 0 < 2 ^ e) by (apply Z.pow_pos_nonneg; lia).
    assert (HD : 0 < Zpos m * 2 ^ e) by nia.
    split; [assumption|]. split.
    + rewrite <- Hp. symmetry. apply parse_render; [apply digits_of_Z_nonempty|apply digits_of_Z_digits|lia].
    + assert (Hlt : Zpos m * 2 ^ e < 2 ^ 1024).
      { replace 1024 with (53 + 971) by reflexivity. rewrite Z.pow_add_r by lia.
        assert (2 ^ e <= 2 ^ 971) by (apply Z.pow_le_mono_r; lia). nia. }
      pose proof (digits_of_Z_length (Zpos m * 2 ^ e) 1024 (conj HD Hlt) ltac:(lia)). lia.
  - apply Z.leb_gt in E0. pose proof (pow5_pos (- e)) as Hp5.
    assert (HD : 0 < Zpos m * pow5 (- e)) by nia.
    split; [assumption|]. split.
    + rewrite <- Hp. symmetry. apply parse_render; [apply digits_of_Z_nonempty|apply digits_of_Z_digits|lia].
    + assert (Hlt : Zpos m * pow5 (- e) < 2 ^ 3300).
      { rewrite pow5_spec by lia.
        assert (H58 : 5 ^ (- e) <= 8 ^ (- e)) by (apply Z.pow_le_mono_l; lia).
        assert (H8 : 8 ^ (- e) = 2 ^ (3 * - e)) by (change 8 with (2 ^ 3); rewrite <- Z.pow_mul_r by lia; reflexivity).
        assert (H2 : 2 ^ (3 * - e) <= 2 ^ 3222) by (apply Z.pow_le_mono_r; lia).
        assert (H5p : 0 < 5 ^ (- e)) by (apply Z.pow_pos_nonneg; lia).
        replace 3300 with (53 + 3247) by reflexivity. rewrite Z.pow_add_r by lia.
        assert (2 ^ 3222 <= 2 ^ 3247) by (apply Z.pow_le_mono_r; lia). nia. }
      pose proof (digits_of_Z_length (Zpos m * pow5 (- e)) 3300 (conj HD Hlt) ltac:(lia)). lia.
Qed.

(* the digits chosen by [shortest], in exponent notation, read back as m * 2^e *)
Lemma shortest_exp_parses : forall m e, bounded 53 1024 m e = true ->
  let '(d, p) := shortest m e in
  parse_float (render_exp (digits_of_Z d) p) = PFok (S754_finite false m e)
  /\ exists c r, render_exp (digits_of_Z d) p = c :: r /\ is_ascii_digit c = true.
Proof.
  intros m e Hb. unfold shortest. destruct (shortest_raw m e) as [d p].
  destruct (pf_is (parse_float (render_exp (digits_of_Z d) p)) (S754_finite false m e)) eqn:Hc.
  - split; [now apply pf_is_true|].
    pose proof (digits_of_Z_nonempty d) as Hne. pose proof (digits_of_Z_digits d) as Hd.
    unfold render_exp. destruct (digits_of_Z d) as [|d1 rest]; [congruence|].
    exists d1. unfold all_digits in Hd. cbn [forallb] in Hd. apply andb_true_iff in Hd.
    destruct rest; eexists; (split; [reflexivity|apply Hd]).
  - pose proof (exact_digits_parse m e Hb) as H. destruct (exact_digits m e) as [D P].
    destruct H as [HD [Hdec Hx]].
    destruct (parse_render_exp (digits_of_Z D) P (digits_of_Z_nonempty D) (digits_of_Z_digits D) Hx) as [Hp Hfirst].
    split; [now rewrite Hp|exact Hfirst].
Qed.

(* ---------- the theorem ---------- *)
Lemma some_inj : forall (A : Type) (a b : A), Some a = Some b -> a = b.
Proof. intros A a b H. now injection H. Qed.

Theorem format_json_roundtrip : forall x b,
  f_is_finite x = true -> valid_binary 53 1024 x = true ->
  format_json x = Some b -> parse_float b = PFok x.
Proof.
  intros x b Hfin Hv H. destruct x as [s|s| |s m e]; try discriminate.
  - unfold format_json in H. apply some_inj in H. subst b. now apply format_f_roundtrip.
  - unfold format_json in H.
    match type of H with (if ?c then _ else _) = _ => destruct c end.
    + pose proof (shortest_exp_parses m e Hv) as Hs. destruct (shortest m e) as [d p].
      destruct Hs as [Hp [c [r [Er Hc]]]]. apply some_inj in H. subst b.
      set (body := render_exp (digits_of_Z d) p) in *. clearbody body. subst body.
      destruct s; cbn [sign_bytes app].
      * rewrite parse_float_sign by assumption. exact (f_equal pf_neg Hp).
      * exact Hp.
    + apply some_inj in H. subst b. now apply format_f_roundtrip.
Qed.
Print Assumptions format_json_roundtrip.
