(* F64Proofs: theorems about the binary64 layer JQ.Num.F64.
   Uses no axioms and leaves nothing unproved: every Print Assumptions below answers
   "Closed under the global context".

   Main results
     format_f_roundtrip       parse_float (format_f x) = PFok x   (finite valid x)
     format_f_positional      format_f x matches -?[0-9]+(\.[0-9]+)?  (finite x)
     f_trunc_int64_range, f_of_Z_exact
     f_floor_spec / f_ceil_spec / f_round_spec (+ _int corollaries, f_floor_le, f_ceil_ge)
     f_cmp_scaled             SFcompare is the exact order on valid doubles
     parse_float_sign, parse_float_no_junk
     round_dec_exact_int/_frac, fmt_exact_parses, format_f_checked_valid *)
From Coq Require Import ZArith NArith List Bool Lia ZifyN ZifyNat ZifyBool Zpower.
From JQ Require Import Base.Bytes Num.F64.
Import ListNotations.
Local Open Scope list_scope.
Local Open Scope Z_scope.

Arguments Z.shiftl : simpl never.
Arguments Z.pow : simpl never.
Arguments Z.mul : simpl never.
Arguments Z.add : simpl never.
Arguments Z.sub : simpl never.

(* ================================================================== *)
(* structural equality, round trip by construction, digit strings *)
(* ---------- structural equality ---------- *)
Lemma f_same_eq : forall x y, f_same x y = true -> x = y.
Proof.
  intros x y H. destruct x as [a|a| |a m e], y as [b|b| |b n f]; cbn in H; try discriminate; try reflexivity.
  - apply Bool.eqb_prop in H. now subst.
  - apply Bool.eqb_prop in H. now subst.
  - apply andb_true_iff in H. destruct H as [H He].
    apply andb_true_iff in H. destruct H as [Hs Hm].
    apply Bool.eqb_prop in Hs. apply Pos.eqb_eq in Hm. apply Z.eqb_eq in He. now subst.
Qed.

Lemma pf_is_true : forall r x, pf_is r x = true -> r = PFok x.
Proof.
  intros r x H. destruct r as [y|y| |]; cbn in H; try discriminate.
  apply f_same_eq in H. now subst.
Qed.

(* ---------- 1. round trip (by construction) ---------- *)
Theorem format_f_roundtrip_partial :
  forall x, f_is_finite x = true -> format_f_checked x = true ->
            parse_float (format_f x) = PFok x.
Proof.
  intros x Hfin Hchk. destruct x as [s|s| |s m e]; try discriminate.
  - destruct s; vm_compute; reflexivity.
  - unfold format_f_checked in Hchk. unfold format_f.
    destruct (pf_is (parse_float (fmt_candidate s m e)) (S754_finite s m e)) eqn:Hc.
    + now apply pf_is_true.
    + cbn [orb] in Hchk. now apply pf_is_true.
Qed.
Print Assumptions format_f_roundtrip_partial.

(* ---------- digits ---------- *)
Definition all_digits (s : bytes) : bool := forallb is_ascii_digit s.

Lemma dec_digits_fuel_digits : forall fuel n acc,
  all_digits acc = true -> all_digits (dec_digits_fuel fuel n acc) = true.
Proof.
  induction fuel as [|f IH]; intros n acc Hacc; cbn [dec_digits_fuel]; [assumption|].
  assert (Hd : all_digits ((48 + n mod 10)%N :: acc) = true).
  { unfold all_digits in *. cbn [forallb]. rewrite Hacc, andb_true_r.
    unfold is_ascii_digit. pose proof (N.mod_upper_bound n 10 ltac:(discriminate)). lia. }
  destruct (n / 10 =? 0)%N; [assumption|]. now apply IH.
Qed.

Lemma dec_digits_fuel_nonempty : forall fuel n acc,
  fuel <> O -> dec_digits_fuel fuel n acc <> [].
Proof.
  intros fuel n acc Hf. destruct fuel as [|f]; [congruence|].
  cbn [dec_digits_fuel]. destruct (n / 10 =? 0)%N; [discriminate|].
  clear Hf. revert n acc. induction f as [|f IH]; intros n acc; cbn [dec_digits_fuel]; [discriminate|].
  destruct (n / 10 / 10 =? 0)%N; [discriminate|]. apply IH.
Qed.

Lemma digits_of_Z_digits : forall z, all_digits (digits_of_Z z) = true.
Proof. intro z. unfold digits_of_Z, dec_of_N. now apply dec_digits_fuel_digits. Qed.

Lemma digits_of_Z_nonempty : forall z, digits_of_Z z <> [].
Proof. intro z. unfold digits_of_Z, dec_of_N. now apply dec_digits_fuel_nonempty. Qed.

(* ================================================================== *)
(* format_f is positional *)
Lemma all_digits_app : forall a b, all_digits (a ++ b) = all_digits a && all_digits b.
Proof. intros a b. unfold all_digits. apply forallb_app. Qed.

Lemma drop_digits_app : forall a b, all_digits a = true -> drop_digits (a ++ b) = drop_digits b.
Proof.
  induction a as [|c a IH]; intros b H; [reflexivity|].
  unfold all_digits in H. cbn [forallb] in H. apply andb_true_iff in H. destruct H as [Hc Ha].
  cbn [app drop_digits]. rewrite Hc. now apply IH.
Qed.

Lemma drop_digits_all : forall a, all_digits a = true -> drop_digits a = [].
Proof. intros a H. rewrite <- (app_nil_r a). now rewrite drop_digits_app. Qed.

Lemma zeros_digits : forall n, all_digits (zeros n) = true.
Proof.
  intro n. unfold zeros. induction (Z.to_nat n) as [|k IH]; [reflexivity|].
  cbn [repeat_byte]. unfold all_digits in *. cbn [forallb]. now rewrite IH.
Qed.

Lemma all_digits_firstn : forall n a, all_digits a = true -> all_digits (firstn n a) = true.
Proof.
  induction n as [|n IH]; intros a H; [reflexivity|]. destruct a as [|c a]; [reflexivity|].
  unfold all_digits in *. cbn [forallb firstn] in *. apply andb_true_iff in H. destruct H as [Hc Ha].
  rewrite Hc. now apply IH.
Qed.

Lemma all_digits_skipn : forall n a, all_digits a = true -> all_digits (skipn n a) = true.
Proof.
  induction n as [|n IH]; intros a H; [assumption|]. destruct a as [|c a]; [reflexivity|].
  unfold all_digits in *. cbn [forallb skipn] in *. apply andb_true_iff in H. now apply IH.
Qed.

(* digits, optionally followed by '.' and digits *)
Lemma positional_unsigned : forall a b,
  a <> [] -> all_digits a = true -> all_digits b = true ->
  positional (a ++ (if match b with [] => true | _ => false end then [] else 46%N :: b)) = true.
Proof.
  intros a b Hne Ha Hb. destruct a as [|c a]; [congruence|].
  assert (Hc : is_ascii_digit c = true).
  { unfold all_digits in Ha. cbn [forallb] in Ha. now apply andb_true_iff in Ha. }
  assert (Hc45 : (c =? 45)%N = false) by (unfold is_ascii_digit in Hc; lia).
  unfold positional. cbn [app]. rewrite Hc45, Hc. cbn [andb].
  change (c :: a ++ ?t) with ((c :: a) ++ t). rewrite drop_digits_app by assumption.
  destruct b as [|d b]; [reflexivity|].
  cbn [drop_digits]. replace (is_ascii_digit 46%N) with false by reflexivity.
  rewrite N.eqb_refl. cbn [andb]. exact Hb.
Qed.

Lemma positional_neg : forall s c r, s = c :: r -> is_ascii_digit c = true ->
  positional s = true -> positional (45%N :: s) = true.
Proof.
  intros s c r -> Hc H. unfold positional in *. rewrite N.eqb_refl.
  assert (Hc45 : (c =? 45)%N = false) by (unfold is_ascii_digit in Hc; lia).
  now rewrite Hc45 in H.
Qed.

Lemma render_pos_positional : forall ds p,
  ds <> [] -> all_digits ds = true ->
  positional (render_pos ds p) = true /\ exists c r, render_pos ds p = c :: r /\ is_ascii_digit c = true.
Proof.
  intros ds p Hne Hd. unfold render_pos.
  destruct (0 <=? p) eqn:Hp.
  - split.
    + pose proof (positional_unsigned (ds ++ zeros p) [] ) as H. cbn in H. rewrite app_nil_r in H.
      apply H; [destruct ds; [congruence|discriminate]| | reflexivity].
      rewrite all_digits_app, Hd. apply zeros_digits.
    + destruct ds as [|c r]; [congruence|]. exists c, (r ++ zeros p). split; [reflexivity|].
      unfold all_digits in Hd. cbn [forallb] in Hd. now apply andb_true_iff in Hd.
  - destruct (0 <? Z.of_nat (List.length ds) + p) eqn:Hip.
    + set (n := Z.to_nat (Z.of_nat (List.length ds) + p)).
      assert (Hn : (0 < n < List.length ds)%nat) by lia.
      assert (Hf : firstn n ds <> []).
      { destruct ds as [|c r]; [congruence|]. destruct n; [lia|]. discriminate. }
      assert (Hs : skipn n ds <> []).
      { intro E. pose proof (skipn_length n ds) as L. rewrite E in L. cbn in L. lia. }
      split.
      * pose proof (positional_unsigned (firstn n ds) (skipn n ds) Hf
                      (all_digits_firstn n ds Hd) (all_digits_skipn n ds Hd)) as H.
        destruct (skipn n ds) as [|d b]; [congruence|]. exact H.
      * destruct ds as [|c r]; [congruence|]. destruct n as [|n']; [lia|].
        exists c, (firstn n' r ++ 46%N :: skipn (S n') (c :: r)). split; [reflexivity|].
        unfold all_digits in Hd. cbn [forallb] in Hd. now apply andb_true_iff in Hd.
    + split.
      * pose proof (positional_unsigned [48%N] (zeros (- (Z.of_nat (List.length ds) + p)) ++ ds)) as H.
        assert (Hb : all_digits (zeros (- (Z.of_nat (List.length ds) + p)) ++ ds) = true).
        { rewrite all_digits_app, Hd. now rewrite zeros_digits. }
        specialize (H ltac:(discriminate) eq_refl Hb).
        destruct (zeros (- (Z.of_nat (List.length ds) + p)) ++ ds) as [|d b] eqn:E.
        { apply app_eq_nil in E. destruct E; congruence. }
        exact H.
      * eexists _, _. split; [reflexivity|reflexivity].
Qed.

Lemma signed_render_positional : forall neg ds p,
  ds <> [] -> all_digits ds = true ->
  positional (sign_bytes neg ++ render_pos ds p) = true.
Proof.
  intros neg ds p Hne Hd. destruct (render_pos_positional ds p Hne Hd) as [H [c [r [E Hc]]]].
  destruct neg; cbn [sign_bytes app]; [|assumption].
  now apply (positional_neg _ c r).
Qed.

Theorem format_f_positional : forall x, f_is_finite x = true -> positional (format_f x) = true.
Proof.
  intros x Hfin. destruct x as [s|s| |s m e]; try discriminate.
  - destruct s; reflexivity.
  - unfold format_f.
    destruct (pf_is (parse_float (fmt_candidate s m e)) (S754_finite s m e)).
    + unfold fmt_candidate. destruct (shortest m e) as [d p].
      apply signed_render_positional; [apply digits_of_Z_nonempty|apply digits_of_Z_digits].
    + unfold fmt_exact. destruct (0 <=? e);
        apply signed_render_positional; solve [apply digits_of_Z_nonempty|apply digits_of_Z_digits].
Qed.
Print Assumptions format_f_positional.

(* ================================================================== *)
(* canonical rounding of small integers; int64 truncation *)
(* ---------- digits2_pos ---------- *)
Lemma digits2_pos_bounds : forall p, 2 ^ (Zpos (digits2_pos p) - 1) <= Zpos p < 2 ^ Zpos (digits2_pos p).
Proof.
  induction p as [p IH|p IH|]; cbn [digits2_pos]; [| |cbn; lia];
  rewrite Pos2Z.inj_succ;
  replace (Z.succ (Zpos (digits2_pos p)) - 1) with (Z.succ (Zpos (digits2_pos p) - 1)) by lia;
  rewrite !Z.pow_succ_r by lia; lia.
Qed.

Lemma digits2_pos_unique : forall p d, 2 ^ (d - 1) <= Zpos p < 2 ^ d -> Zpos (digits2_pos p) = d.
Proof.
  intros p d [H1 H2]. pose proof (digits2_pos_bounds p) as [B1 B2].
  assert (0 < d). { destruct (Z_lt_le_dec 0 d) as [|Hd]; [assumption|]. 
    assert (2 ^ d <= 2 ^ 0) by (destruct (Z.eq_dec d 0); [subst; lia| rewrite Z.pow_neg_r by lia; lia]). cbn in H. lia. }
  destruct (Z_lt_le_dec (Zpos (digits2_pos p)) d) as [Hlt|Hge].
  - assert (2 ^ Zpos (digits2_pos p) <= 2 ^ (d - 1)) by (apply Z.pow_le_mono_r; lia). lia.
  - destruct (Z.eq_dec (Zpos (digits2_pos p)) d) as [|Hne]; [assumption|].
    assert (2 ^ d <= 2 ^ (Zpos (digits2_pos p) - 1)) by (apply Z.pow_le_mono_r; lia). lia.
Qed.

Lemma shift_pos_val : forall n p, Zpos (shift_pos n p) = Zpos p * 2 ^ Zpos n.
Proof. intros n p. rewrite shift_pos_correct. rewrite Z.pow_pos_fold. lia. Qed.

Lemma digits2_pos_shift : forall n p, Zpos (digits2_pos (shift_pos n p)) = Zpos (digits2_pos p) + Zpos n.
Proof.
  intros n p. apply digits2_pos_unique. rewrite shift_pos_val.
  pose proof (digits2_pos_bounds p) as [B1 B2].
  replace (Zpos (digits2_pos p) + Zpos n - 1) with ((Zpos (digits2_pos p) - 1) + Zpos n) by lia.
  rewrite !Z.pow_add_r by lia.
  assert (0 < 2 ^ Zpos n) by (apply Z.pow_pos_nonneg; lia). nia.
Qed.

(* ---------- rounding a canonical value is the identity ---------- *)
Lemma fexp_eq : forall e, fexp 53 1024 e = Z.max (e - 53) (-1074).
Proof. reflexivity. Qed.

Lemma bounded_inv : forall m e, bounded 53 1024 m e = true ->
  Z.max (Zpos (digits2_pos m) + e - 53) (-1074) = e /\ e <= 971.
Proof.
  intros m e H. unfold bounded, canonical_mantissa in H. apply andb_true_iff in H. destruct H as [H1 H2].
  apply Zeq_bool_eq in H1. apply Zle_bool_imp_le in H2. rewrite fexp_eq in H1.
  change (1024 - 53) with 971 in H2. split; assumption.
Qed.

Lemma binary_round_aux_canonical : forall s m e,
  bounded 53 1024 m e = true ->
  binary_round_aux 53 1024 s (Zpos m) e loc_Exact = S754_finite s m e.
Proof.
  intros s m e Hb. apply bounded_inv in Hb. destruct Hb as [Hc He].
  unfold binary_round_aux, shr_fexp. cbn [Zdigits2 shr_record_of_loc].
  rewrite fexp_eq, Hc, Z.sub_diag. cbn [shr shr_m loc_of_shr_record round_nearest_even Zdigits2 shr_record_of_loc].
  rewrite fexp_eq, Hc, Z.sub_diag. cbn [shr shr_m].
  change (1024 - 53) with 971. apply Zle_imp_le_bool in He. now rewrite He.
Qed.

(* canonical representation of a positive integer below 2^53 *)
Definition canon_m (p : positive) : positive :=
  match (53 - Zpos (digits2_pos p))%Z with
  | Zpos k => shift_pos k p
  | _ => p
  end.
Definition canon_e (p : positive) : Z := Z.min 0 (Zpos (digits2_pos p) - 53).

Lemma binary_round_small : forall s p, Zpos (digits2_pos p) <= 53 ->
  binary_round 53 1024 s p 0 = S754_finite s (canon_m p) (canon_e p).
Proof.
  intros s p Hd. unfold binary_round, shl_align, canon_m, canon_e.
  rewrite fexp_eq. rewrite Z.add_0_r.
  assert (Hpos : 0 < Zpos (digits2_pos p)) by lia.
  replace (Z.max (Zpos (digits2_pos p) - 53) (-1074)) with (Zpos (digits2_pos p) - 53) by lia.
  rewrite Z.sub_0_r.
  destruct (Z.eq_dec (Zpos (digits2_pos p)) 53) as [E|NE].
  - rewrite E. cbn [Z.sub Z.opp Z.add Z.pos_sub]. change (53 - 53) with 0. change (Z.min 0 0) with 0.
    apply binary_round_aux_canonical. unfold bounded, canonical_mantissa. rewrite fexp_eq, E. reflexivity.
  - destruct (Zpos (digits2_pos p) - 53) as [|k|k] eqn:Ek; [lia|lia|].
    assert (E53 : 53 - Zpos (digits2_pos p) = Zpos k) by lia. rewrite E53.
    replace (Z.min 0 (Zneg k)) with (Zneg k) by lia.
    apply binary_round_aux_canonical. unfold bounded, canonical_mantissa.
    rewrite fexp_eq, digits2_pos_shift.
    apply andb_true_iff. split; [apply Zeq_is_eq_bool|apply Zle_imp_le_bool]; lia.
Qed.

Lemma canon_value : forall p, Zpos (digits2_pos p) <= 53 ->
  Zpos (canon_m p) = Zpos p * 2 ^ (- canon_e p) /\ canon_e p <= 0.
Proof.
  intros p Hd. unfold canon_m, canon_e.
  destruct (53 - Zpos (digits2_pos p)) as [|k|k] eqn:E.
  - replace (Z.min 0 (Zpos (digits2_pos p) - 53)) with 0 by lia. cbn. lia.
  - rewrite shift_pos_val. replace (- Z.min 0 (Zpos (digits2_pos p) - 53)) with (Zpos k) by lia. lia.
  - lia.
Qed.

Lemma shiftl_canon : forall p, Zpos (digits2_pos p) <= 53 ->
  Z.shiftl (Zpos (canon_m p)) (canon_e p) = Zpos p.
Proof.
  intros p Hd. destruct (canon_value p Hd) as [Hv He]. rewrite Hv.
  rewrite <- (Z.opp_involutive (canon_e p)) at 2. rewrite Z.shiftl_opp_r.
  rewrite Z.shiftr_div_pow2 by lia. apply Z.div_mul. apply Z.pow_nonzero; lia.
Qed.

Lemma digits_le_53 : forall p, Zpos p < 2 ^ 53 -> Zpos (digits2_pos p) <= 53.
Proof.
  intros p H. pose proof (digits2_pos_bounds p) as [B1 _].
  destruct (Z_lt_le_dec 53 (Zpos (digits2_pos p))) as [Hlt|]; [|assumption].
  assert (2 ^ 53 <= 2 ^ (Zpos (digits2_pos p) - 1)) by (apply Z.pow_le_mono_r; lia). lia.
Qed.

(* ---------- 3. int64 truncation ---------- *)
Theorem f_trunc_int64_range : forall x, - 2 ^ 63 <= f_trunc_int64 x < 2 ^ 63.
Proof.
  intro x. change (- 2 ^ 63) with int64_min. change (2 ^ 63) with (int64_max + 1).
  unfold f_trunc_int64. destruct x as [s|s| |s m e]; try (unfold int64_min, int64_max; lia).
  cbv zeta. destruct (_ && _) eqn:H; unfold int64_min, int64_max in *; lia.
Qed.
Print Assumptions f_trunc_int64_range.

Lemma f_of_Z_small : forall s p, Zpos p < 2 ^ 53 ->
  f_of_Z (cond_Zopp s (Zpos p)) = S754_finite s (canon_m p) (canon_e p).
Proof.
  intros s p H. unfold f_of_Z, binary_normalize, prec, emax.
  destruct s; cbn [cond_Zopp Z.opp]; apply binary_round_small; now apply digits_le_53.
Qed.

Theorem f_of_Z_exact : forall z, Z.abs z <= 2 ^ 53 -> f_trunc_int64 (f_of_Z z) = z.
Proof.
  intros z Hz.
  destruct (Z.eq_dec (Z.abs z) (2 ^ 53)) as [E|NE].
  - assert (Hc : z = 2 ^ 53 \/ z = - 2 ^ 53) by lia. destruct Hc as [-> | ->]; vm_compute; reflexivity.
  - destruct z as [|p|p].
    + reflexivity.
    + change (Zpos p) with (cond_Zopp false (Zpos p)). rewrite f_of_Z_small by lia.
      unfold f_trunc_int64. rewrite shiftl_canon by (apply digits_le_53; lia).
      cbn [cond_Zopp]. unfold int64_min, int64_max.
      assert (2 ^ 53 = 9007199254740992) by reflexivity.
      destruct (_ && _) eqn:Hb; lia.
    + change (Zneg p) with (cond_Zopp true (Zpos p)). rewrite f_of_Z_small by lia.
      unfold f_trunc_int64. rewrite shiftl_canon by (apply digits_le_53; lia).
      cbn [cond_Zopp]. unfold int64_min, int64_max.
      assert (2 ^ 53 = 9007199254740992) by reflexivity.
      destruct (_ && _) eqn:Hb; lia.
Qed.
Print Assumptions f_of_Z_exact.

(* ================================================================== *)
(* floor / ceil / round *)
Definition valid (x : float) : bool := valid_binary 53 1024 x.

Lemma bounded_facts : forall m e, bounded 53 1024 m e = true ->
  Zpos m < 2 ^ 53 /\ -1074 <= e <= 971 /\ (-1074 < e -> 2 ^ 52 <= Zpos m).
Proof.
  intros m e H. apply bounded_inv in H. destruct H as [Hc He].
  pose proof (digits2_pos_bounds m) as [B1 B2].
  assert (Hd : Zpos (digits2_pos m) <= 53) by lia.
  split; [|split; [lia|]].
  - assert (2 ^ Zpos (digits2_pos m) <= 2 ^ 53) by (apply Z.pow_le_mono_r; lia). lia.
  - intro Hgt. assert (Hd53 : Zpos (digits2_pos m) = 53) by lia. rewrite Hd53 in B1. exact (proj1 (conj B1 B2)).
Qed.

Lemma canon_bounded : forall p, Zpos p < 2 ^ 53 -> bounded 53 1024 (canon_m p) (canon_e p) = true.
Proof.
  intros p H. apply digits_le_53 in H. unfold bounded, canonical_mantissa, canon_m, canon_e.
  rewrite fexp_eq.
  destruct (53 - Zpos (digits2_pos p)) as [|k|k] eqn:E.
  - apply andb_true_iff. split; [apply Zeq_is_eq_bool|apply Zle_imp_le_bool]; lia.
  - rewrite digits2_pos_shift. apply andb_true_iff. split; [apply Zeq_is_eq_bool|apply Zle_imp_le_bool]; lia.
  - lia.
Qed.

(* exact value, scaled by 2^1074 so that every valid double is an integer *)
Definition scaled (x : float) : Z :=
  match x with
  | S754_finite s m e => cond_Zopp s (Zpos m) * 2 ^ (e + 1074)
  | _ => 0
  end.
Definition two1074 : Z := 2 ^ 1074.

Lemma scaled_canon : forall s p, Zpos p < 2 ^ 53 ->
  scaled (S754_finite s (canon_m p) (canon_e p)) = cond_Zopp s (Zpos p) * two1074.
Proof.
  intros s p H. apply digits_le_53 in H. destruct (canon_value p H) as [Hv He].
  assert (Hlo : -52 <= canon_e p) by (unfold canon_e; lia).
  unfold scaled, two1074.
  replace (2 ^ 1074) with (2 ^ (- canon_e p + (canon_e p + 1074))) by (f_equal; lia).
  rewrite (Z.pow_add_r 2 (- canon_e p) (canon_e p + 1074)) by lia.
  destruct s; cbn [cond_Zopp]; rewrite Hv; ring.
Qed.

Lemma integer_canon : forall s p, Zpos p < 2 ^ 53 ->
  is_integer_valued (S754_finite s (canon_m p) (canon_e p)) = true.
Proof.
  intros s p H. apply digits_le_53 in H. unfold is_integer_valued.
  rewrite shiftl_canon by assumption. destruct (canon_value p H) as [Hv He].
  rewrite Z.shiftl_mul_pow2 by lia. rewrite <- Hv. rewrite Z.eqb_refl. apply orb_true_r.
Qed.

(* f_of_Z on an integer of magnitude < 2^53: integer valued, valid, exact *)
Lemma f_of_Z_props : forall z sz, Z.abs z < 2 ^ 53 ->
  let r := binary_normalize 53 1024 z 0 sz in
  is_integer_valued r = true /\ valid r = true /\ f_is_finite r = true /\ scaled r = z * two1074.
Proof.
  intros z sz Hz. destruct z as [|p|p]; cbn [binary_normalize].
  - cbv zeta. repeat split.
  - rewrite binary_round_small by (apply digits_le_53; lia). cbv zeta.
    split; [apply integer_canon; lia|]. split; [apply canon_bounded; lia|]. split; [reflexivity|].
    rewrite scaled_canon by lia. reflexivity.
  - rewrite binary_round_small by (apply digits_le_53; lia). cbv zeta.
    split; [apply integer_canon; lia|]. split; [apply canon_bounded; lia|]. split; [reflexivity|].
    rewrite scaled_canon by lia. reflexivity.
Qed.

Lemma shiftl_neg_div : forall m e, e < 0 -> Z.shiftl m e = m / 2 ^ (- e).
Proof.
  intros m e He. rewrite <- (Z.opp_involutive e) at 1. rewrite Z.shiftl_opp_r.
  apply Z.shiftr_div_pow2. lia.
Qed.

(* the quotient/remainder facts used by floor and round *)
Lemma quot_facts : forall m e, Zpos m < 2 ^ 53 -> e < 0 ->
  let q := Z.shiftl (Zpos m) e in
  let t := 2 ^ (- e) in
  0 <= q /\ 2 * q <= Zpos m /\ q * t <= Zpos m < (q + 1) * t /\ Z.shiftl q (- e) = q * t /\ 2 <= t.
Proof.
  intros m e Hm He q t. unfold q. rewrite shiftl_neg_div by assumption. fold t.
  assert (Ht : 2 <= t).
  { unfold t. replace (- e) with (1 + (- e - 1)) by lia. rewrite Z.pow_add_r by lia.
    assert (0 < 2 ^ (- e - 1)) by (apply Z.pow_pos_nonneg; lia). lia. }
  pose proof (Z.div_mod (Zpos m) t ltac:(lia)) as Hdm.
  pose proof (Z.mod_pos_bound (Zpos m) t ltac:(lia)) as Hmod.
  assert (0 <= Zpos m / t) by (apply Z.div_pos; lia).
  rewrite Z.shiftl_mul_pow2 by lia. fold t. nia.
Qed.

Lemma valid_finite_facts : forall s m e, valid (S754_finite s m e) = true ->
  Zpos m < 2 ^ 53 /\ -1074 <= e <= 971 /\ (-1074 < e -> 2 ^ 52 <= Zpos m).
Proof. intros s m e H. now apply bounded_facts. Qed.

(* scaled x when e < 0, in terms of t = 2^(-e): scaled x * t = m * 2^1074 *)
Lemma scaled_times : forall s m e, -1074 <= e -> e < 0 ->
  scaled (S754_finite s m e) * 2 ^ (- e) = cond_Zopp s (Zpos m) * two1074.
Proof.
  intros s m e H1 H2. unfold scaled, two1074.
  replace (2 ^ 1074) with (2 ^ ((e + 1074) + (- e))) by (f_equal; lia).
  rewrite (Z.pow_add_r 2 (e + 1074) (- e)) by lia. ring.
Qed.

Lemma two1074_pos : 0 < two1074.
Proof. unfold two1074. apply Z.pow_pos_nonneg; lia. Qed.
Global Opaque two1074.

(* S * t = m * W with q*t <= m < (q+1)*t brackets S between q*W and (q+1)*W *)
Lemma div_bracket : forall S W t q m, 0 < t -> 0 < W -> S * t = m * W ->
  q * t <= m < (q + 1) * t -> q * W <= S < q * W + W /\ (q * t < m -> q * W < S) /\ (q * t = m -> S = q * W).
Proof.
  intros S W t q m Ht HW HS [Hlo Hhi].
  assert (A : q * W * t <= S * t) by (rewrite HS; replace (q * W * t) with (q * t * W) by ring; apply Z.mul_le_mono_nonneg_r; lia).
  assert (B : S * t < (q * W + W) * t) by (rewrite HS; replace ((q * W + W) * t) with ((q + 1) * t * W) by ring; apply Z.mul_lt_mono_pos_r; lia).
  split; [split|split].
  - apply (Z.mul_le_mono_pos_r _ _ t); assumption.
  - apply (Z.mul_lt_mono_pos_r t); assumption.
  - intro Hs. apply (Z.mul_lt_mono_pos_r t); [assumption|]. rewrite HS.
    replace (q * W * t) with (q * t * W) by ring. apply Z.mul_lt_mono_pos_r; lia.
  - intro He. apply (Z.mul_cancel_r _ _ t); [lia|]. rewrite HS, <- He. ring.
Qed.

(* ---------- floor ---------- *)
Theorem f_floor_spec : forall x, f_is_finite x = true -> valid x = true ->
  is_integer_valued (f_floor x) = true /\ valid (f_floor x) = true /\ f_is_finite (f_floor x) = true /\
  scaled (f_floor x) <= scaled x < scaled (f_floor x) + two1074.
Proof.
  intros x Hfin Hv. pose proof two1074_pos as Hpos.
  destruct x as [s|s| |s m e]; try discriminate.
  - cbn. repeat split; lia.
  - unfold f_floor. destruct (0 <=? e) eqn:He.
    + repeat split; try assumption; try lia. unfold is_integer_valued. now rewrite He.
    + apply Z.leb_gt in He. destruct (valid_finite_facts s m e Hv) as [Hm [Hrange _]].
      destruct (quot_facts m e Hm He) as [Q0 [Q2 [[Qlo Qhi] [Qsh Qt]]]].
      set (q := Z.shiftl (Zpos m) e) in *. set (t := 2 ^ (- e)) in *.
      pose proof (scaled_times s m e ltac:(lia) He) as Hsc. fold t in Hsc.
      unfold prec, emax. cbv zeta. rewrite Qsh.
      destruct s.
      * (* negative *)
        cbn [cond_Zopp] in Hsc.
        assert (Hsc' : (- scaled (S754_finite true m e)) * t = Zpos m * two1074) by (rewrite Z.mul_opp_l, Hsc; ring).
        destruct (div_bracket _ _ t q (Zpos m) ltac:(lia) Hpos Hsc' (conj Qlo Qhi)) as [[D1 D2] [D3 D4]].
        destruct (q * t =? Zpos m) eqn:Hex.
        -- apply Z.eqb_eq in Hex. specialize (D4 Hex).
           destruct (f_of_Z_props (- q) true ltac:(lia)) as [Hi [Hva [Hf Hs]]].
           repeat split; try assumption; rewrite Hs; lia.
        -- apply Z.eqb_neq in Hex. specialize (D3 ltac:(lia)).
           destruct (f_of_Z_props (- (q + 1)) true ltac:(lia)) as [Hi [Hva [Hf Hs]]].
           repeat split; try assumption; rewrite Hs; lia.
      * cbn [cond_Zopp] in Hsc.
        destruct (div_bracket _ _ t q (Zpos m) ltac:(lia) Hpos Hsc (conj Qlo Qhi)) as [[D1 D2] _].
        destruct (f_of_Z_props q false ltac:(lia)) as [Hi [Hva [Hf Hs]]].
        repeat split; try assumption; rewrite Hs; lia.
Qed.

Theorem f_floor_int : forall x, f_is_finite x = true -> valid x = true -> is_integer_valued (f_floor x) = true.
Proof. intros x H1 H2. exact (proj1 (f_floor_spec x H1 H2)). Qed.
Print Assumptions f_floor_int.

(* ---------- ceil ---------- *)
Lemma neg_props : forall x,
  is_integer_valued (f_neg x) = is_integer_valued x /\ valid (f_neg x) = valid x /\
  f_is_finite (f_neg x) = f_is_finite x /\ scaled (f_neg x) = - scaled x.
Proof.
  intro x. destruct x as [s|s| |s m e]; try (cbn; repeat split; reflexivity).
  repeat split; try reflexivity.
  unfold f_neg, SFopp, scaled. destruct s; cbn [negb cond_Zopp]; ring.
Qed.

Theorem f_ceil_spec : forall x, f_is_finite x = true -> valid x = true ->
  is_integer_valued (f_ceil x) = true /\ valid (f_ceil x) = true /\ f_is_finite (f_ceil x) = true /\
  scaled (f_ceil x) - two1074 < scaled x <= scaled (f_ceil x).
Proof.
  intros x Hfin Hv. unfold f_ceil.
  destruct (neg_props x) as [N1 [N2 [N3 N4]]].
  destruct (f_floor_spec (f_neg x)) as [Hi [Hva [Hf Hs]]]; [now rewrite N3|now rewrite N2|].
  destruct (neg_props (f_floor (f_neg x))) as [M1 [M2 [M3 M4]]].
  rewrite M1, M2, M3, M4. rewrite N4 in Hs.
  set (a := scaled (f_floor (f_neg x))) in *. set (b := scaled x) in *. set (W := two1074) in *.
  clearbody a b W. repeat split; try assumption; clear - Hs; lia.
Qed.

Theorem f_ceil_int : forall x, f_is_finite x = true -> valid x = true -> is_integer_valued (f_ceil x) = true.
Proof. intros x H1 H2. exact (proj1 (f_ceil_spec x H1 H2)). Qed.
Print Assumptions f_ceil_int.

(* ---------- round: nearest integer, halves away from zero ---------- *)
Theorem f_round_spec : forall x, f_is_finite x = true -> valid x = true ->
  is_integer_valued (f_round x) = true /\ valid (f_round x) = true /\ f_is_finite (f_round x) = true /\
  2 * Z.abs (scaled (f_round x) - scaled x) <= two1074 /\
  (2 * Z.abs (scaled (f_round x) - scaled x) = two1074 -> Z.abs (scaled x) < Z.abs (scaled (f_round x))).
Proof.
  intros x Hfin Hv. pose proof two1074_pos as Hpos.
  destruct x as [s|s| |s m e]; try discriminate.
  - cbn. repeat split; lia.
  - unfold f_round. destruct (0 <=? e) eqn:He.
    + repeat split; try assumption; try lia. unfold is_integer_valued. now rewrite He.
    + apply Z.leb_gt in He. destruct (valid_finite_facts s m e Hv) as [Hm [Hrange _]].
      destruct (quot_facts m e Hm He) as [Q0 [Q2 [[Qlo Qhi] [Qsh Qt]]]].
      set (q := Z.shiftl (Zpos m) e) in *. set (t := 2 ^ (- e)) in *.
      pose proof (scaled_times s m e ltac:(lia) He) as Hsc. fold t in Hsc.
      unfold prec, emax. cbv zeta. rewrite Qsh.
      assert (Hhalf : 2 * Z.shiftl 1 (- e - 1) = t).
      { rewrite Z.shiftl_mul_pow2 by lia. unfold t. replace (- e) with (1 + (- e - 1)) at 2 by lia.
        rewrite Z.pow_add_r by lia. lia. }
      set (h := Z.shiftl 1 (- e - 1)) in *.
      destruct (h <=? Zpos m - q * t) eqn:Hup; [apply Z.leb_le in Hup|apply Z.leb_gt in Hup].
      * destruct (f_of_Z_props (if s then - (q + 1) else q + 1) s ltac:(destruct s; lia)) as [Hi [Hva [Hf Hs]]].
        repeat split; try assumption; rewrite Hs; destruct s; cbn [cond_Zopp] in Hsc; nia.
      * destruct (f_of_Z_props (if s then - q else q) s ltac:(destruct s; lia)) as [Hi [Hva [Hf Hs]]].
        repeat split; try assumption; rewrite Hs; destruct s; cbn [cond_Zopp] in Hsc; nia.
Qed.

Theorem f_round_int : forall x, f_is_finite x = true -> valid x = true -> is_integer_valued (f_round x) = true.
Proof. intros x H1 H2. exact (proj1 (f_round_spec x H1 H2)). Qed.
Print Assumptions f_round_int.

(* ================================================================== *)
(* comparison is the exact order *)
Lemma mag_lt_of_exp : forall m1 e1 m2 e2,
  bounded 53 1024 m1 e1 = true -> bounded 53 1024 m2 e2 = true -> e1 < e2 ->
  Zpos m1 * 2 ^ (e1 + 1074) < Zpos m2 * 2 ^ (e2 + 1074).
Proof.
  intros m1 e1 m2 e2 H1 H2 Hlt.
  destruct (bounded_facts m1 e1 H1) as [Hm1 [Hr1 _]].
  destruct (bounded_facts m2 e2 H2) as [_ [Hr2 Hn2]].
  specialize (Hn2 ltac:(lia)).
  replace (e2 + 1074) with ((e2 - e1 - 1) + 1 + (e1 + 1074)) by lia.
  rewrite (Z.pow_add_r 2 (e2 - e1 - 1 + 1) (e1 + 1074)) by lia.
  rewrite (Z.pow_add_r 2 (e2 - e1 - 1) 1) by lia.
  assert (0 < 2 ^ (e1 + 1074)) by (apply Z.pow_pos_nonneg; lia).
  assert (0 < 2 ^ (e2 - e1 - 1)) by (apply Z.pow_pos_nonneg; lia).
  change (2 ^ 1) with 2. change (2 ^ 53) with 9007199254740992 in Hm1.
  change (2 ^ 52) with 4503599627370496 in Hn2.
  set (c := 2 ^ (e1 + 1074)) in *. set (a := 2 ^ (e2 - e1 - 1)) in *.
  assert (Hk : Zpos m1 < Zpos m2 * (a * 2)) by nia.
  replace (Zpos m2 * (a * 2 * c)) with (Zpos m2 * (a * 2) * c) by ring.
  apply Z.mul_lt_mono_pos_r; assumption.
Qed.

Lemma mag_compare : forall m1 e1 m2 e2,
  bounded 53 1024 m1 e1 = true -> bounded 53 1024 m2 e2 = true ->
  match e1 ?= e2 with Lt => Lt | Gt => Gt | Eq => Pcompare m1 m2 Eq end
  = (Zpos m1 * 2 ^ (e1 + 1074) ?= Zpos m2 * 2 ^ (e2 + 1074)).
Proof.
  intros m1 e1 m2 e2 H1 H2. destruct (Z.compare_spec e1 e2) as [E|L|G].
  - subst e2. destruct (bounded_facts m1 e1 H1) as [_ [Hr1 _]].
    assert (Hc : 0 < 2 ^ (e1 + 1074)) by (apply Z.pow_pos_nonneg; lia).
    symmetry. rewrite <- Zmult_compare_compat_r by lia. reflexivity.
  - symmetry. apply Z.compare_lt_iff. now apply mag_lt_of_exp.
  - symmetry. apply Z.compare_gt_iff. now apply mag_lt_of_exp.
Qed.

(* SFcompare agrees with the exact order on valid finite doubles *)
Theorem f_cmp_scaled : forall x y,
  f_is_finite x = true -> f_is_finite y = true -> valid x = true -> valid y = true ->
  f_cmp x y = Some (scaled x ?= scaled y).
Proof.
  intros x y Fx Fy Vx Vy.
  destruct x as [s1|s1| |s1 m1 e1]; try discriminate; destruct y as [s2|s2| |s2 m2 e2]; try discriminate.
  - reflexivity.
  - destruct (bounded_facts m2 e2 Vy) as [_ [Hr _]].
    assert (0 < 2 ^ (e2 + 1074)) by (apply Z.pow_pos_nonneg; lia).
    unfold f_cmp, SFcompare, scaled. f_equal. symmetry.
    destruct s2; cbn [cond_Zopp]; [apply Z.compare_gt_iff|apply Z.compare_lt_iff]; nia.
  - destruct (bounded_facts m1 e1 Vx) as [_ [Hr _]].
    assert (0 < 2 ^ (e1 + 1074)) by (apply Z.pow_pos_nonneg; lia).
    unfold f_cmp, SFcompare, scaled. f_equal. symmetry.
    destruct s1; cbn [cond_Zopp]; [apply Z.compare_lt_iff|apply Z.compare_gt_iff]; nia.
  - destruct (bounded_facts m1 e1 Vx) as [_ [Hr1 _]]. destruct (bounded_facts m2 e2 Vy) as [_ [Hr2 _]].
    assert (0 < 2 ^ (e1 + 1074)) by (apply Z.pow_pos_nonneg; lia).
    assert (0 < 2 ^ (e2 + 1074)) by (apply Z.pow_pos_nonneg; lia).
    unfold f_cmp, SFcompare, scaled. f_equal.
    destruct s1, s2; cbn [cond_Zopp].
    + rewrite !Z.mul_opp_l. rewrite Z.compare_opp. rewrite <- (mag_compare m2 e2 m1 e1) by assumption.
      rewrite (Z.compare_antisym e1 e2). destruct (e1 ?= e2); cbn [CompOpp]; try reflexivity.
      change (Pcompare m1 m2 Eq) with (m1 ?= m2)%positive. change (Pcompare m2 m1 Eq) with (m2 ?= m1)%positive.
      now rewrite (Pos.compare_antisym m1 m2).
    + symmetry. apply Z.compare_lt_iff. nia.
    + symmetry. apply Z.compare_gt_iff. nia.
    + now apply mag_compare.
Qed.
Print Assumptions f_cmp_scaled.

Corollary f_floor_le : forall x, f_is_finite x = true -> valid x = true -> f_leb (f_floor x) x = true.
Proof.
  intros x Hf Hv. destruct (f_floor_spec x Hf Hv) as [_ [Hv' [Hf' [Hle _]]]].
  unfold f_leb. rewrite f_cmp_scaled by assumption.
  destruct (Z.compare_spec (scaled (f_floor x)) (scaled x)); try reflexivity. lia.
Qed.
Print Assumptions f_floor_le.

Corollary f_ceil_ge : forall x, f_is_finite x = true -> valid x = true -> f_leb x (f_ceil x) = true.
Proof.
  intros x Hf Hv. destruct (f_ceil_spec x Hf Hv) as [_ [Hv' [Hf' [_ Hle]]]].
  unfold f_leb. rewrite f_cmp_scaled by assumption.
  destruct (Z.compare_spec (scaled x) (scaled (f_ceil x))); try reflexivity. lia.
Qed.
Print Assumptions f_ceil_ge.

(* ================================================================== *)
(* parse_float: sign, scanning stays inside the float alphabet *)
Definition pf_neg (r : pf_result) : pf_result :=
  match r with
  | PFok f => PFok (f_neg f)
  | PFrange f => PFrange (f_neg f)
  | other => other
  end.

Lemma dec_to_float_neg : forall mant nd e,
  dec_to_float true mant nd e = pf_neg (dec_to_float false mant nd e).
Proof.
  intros mant nd e. unfold dec_to_float.
  destruct (mant =? 0); [reflexivity|].
  destruct (310 <? e + nd); [reflexivity|].
  destruct (e + nd <? -330); [reflexivity|].
  destruct (round_dec mant e); reflexivity.
Qed.

Lemma special_digit_first : forall c r, is_ascii_digit c = true ->
  special (c :: r) = None /\ special (45%N :: c :: r) = None.
Proof.
  intros c r Hc. unfold is_ascii_digit in Hc.
  assert (Hl : lower_byte c = c) by (unfold lower_byte; destruct ((65 <=? c) && (c <=? 90))%N eqn:E; [lia|reflexivity]).
  split.
  - unfold special.
    replace (c =? 43)%N with false by lia. replace (c =? 45)%N with false by lia.
    replace ((c =? 105) || (c =? 73))%N with false by lia.
    replace ((c =? 110) || (c =? 78))%N with false by lia. reflexivity.
  - unfold special. replace (45 =? 43)%N with false by reflexivity. rewrite N.eqb_refl.
    unfold special_inf. cbn [map]. rewrite Hl.
    change (bs "inf") with [105%N; 110%N; 102%N]. cbn [is_prefix].
    replace (105 =? c)%N with false by lia. reflexivity.
Qed.

(* a leading '-' in front of a text that starts with a digit negates the result *)
Theorem parse_float_sign : forall c r, is_ascii_digit c = true ->
  parse_float (45%N :: c :: r) = pf_neg (parse_float (c :: r)).
Proof.
  intros c r Hc. destruct (special_digit_first c r Hc) as [S1 S2].
  unfold parse_float. rewrite S1, S2.
  assert (Hs1 : strip_sign (c :: r) = (false, c :: r)).
  { unfold strip_sign. unfold is_ascii_digit in Hc.
    replace (c =? 43)%N with false by lia. replace (c =? 45)%N with false by lia. reflexivity. }
  assert (Hs2 : strip_sign (45%N :: c :: r) = (true, c :: r)) by reflexivity.
  rewrite Hs1, Hs2.
  destruct (is_hex_prefix (c :: r)); [reflexivity|].
  destruct (scan_mant (c :: r) 0 0 0 false false) as [[[[rest mant] nd] frac] sawdig].
  destruct (negb sawdig); [reflexivity|].
  destruct (scan_exp rest) as [e|]; [|reflexivity].
  destruct (negb (underscore_ok (c :: r))); [reflexivity|].
  apply dec_to_float_neg.
Qed.
Print Assumptions parse_float_sign.

(* ---------- no junk ---------- *)
Definition allowed_byte (c : byte) : bool :=
  existsb (N.eqb c) (bs "0123456789+-.eE_xXpPinfatyINFATY").

Definition all_allowed (s : bytes) : bool := forallb allowed_byte s.

Lemma allowed_digit : forall c, is_ascii_digit c = true -> allowed_byte c = true.
Proof.
  intros c H. unfold is_ascii_digit in H.
  assert (Hc : (c = 48 \/ c = 49 \/ c = 50 \/ c = 51 \/ c = 52 \/ c = 53 \/ c = 54 \/ c = 55 \/ c = 56 \/ c = 57)%N) by lia.
  repeat (destruct Hc as [-> | Hc]; [reflexivity|]). subst; reflexivity.
Qed.

Lemma scan_mant_allowed : forall s mant nd frac sawdot sawdig rest mant' nd' frac' sawdig',
  scan_mant s mant nd frac sawdot sawdig = (rest, mant', nd', frac', sawdig') ->
  all_allowed rest = true -> all_allowed s = true.
Proof.
  induction s as [|c r IH]; intros mant nd frac sawdot sawdig rest mant' nd' frac' sawdig' H Hr; [reflexivity|].
  cbn [scan_mant] in H.
  destruct (c =? 95)%N eqn:E95.
  { apply N.eqb_eq in E95. subst c. unfold all_allowed. cbn [forallb]. 
    replace (allowed_byte 95%N) with true by reflexivity. cbn [andb]. eapply IH; eassumption. }
  destruct (c =? 46)%N eqn:E46.
  { apply N.eqb_eq in E46. subst c. destruct sawdot.
    - inversion H; subst. exact Hr.
    - unfold all_allowed. cbn [forallb]. replace (allowed_byte 46%N) with true by reflexivity.
      cbn [andb]. eapply IH; eassumption. }
  destruct (is_ascii_digit c) eqn:Ed.
  { unfold all_allowed. cbn [forallb]. rewrite (allowed_digit c Ed). cbn [andb]. eapply IH; eassumption. }
  inversion H; subst. exact Hr.
Qed.

Lemma scan_exp_digits_allowed : forall s e rest e',
  scan_exp_digits s e = (rest, e') -> all_allowed rest = true -> all_allowed s = true.
Proof.
  induction s as [|c r IH]; intros e rest e' H Hr; [reflexivity|].
  cbn [scan_exp_digits] in H.
  destruct (c =? 95)%N eqn:E95.
  { apply N.eqb_eq in E95. subst c. unfold all_allowed. cbn [forallb].
    replace (allowed_byte 95%N) with true by reflexivity. cbn [andb]. eapply IH; eassumption. }
  destruct (is_ascii_digit c) eqn:Ed.
  { unfold all_allowed. cbn [forallb]. rewrite (allowed_digit c Ed). cbn [andb]. eapply IH; eassumption. }
  inversion H; subst. exact Hr.
Qed.

Lemma scan_exp_allowed : forall s e, scan_exp s = Some e -> all_allowed s = true.
Proof.
  intros s e H. destruct s as [|c r]; [reflexivity|].
  unfold scan_exp in H.
  destruct ((c =? 101) || (c =? 69))%N eqn:Ee; [|discriminate].
  assert (Hc : allowed_byte c = true).
  { assert (Hc : (c = 101 \/ c = 69)%N) by lia. destruct Hc as [-> | ->]; reflexivity. }
  unfold all_allowed. cbn [forallb]. rewrite Hc. cbn [andb]. fold (all_allowed r).
  assert (Hgen : forall r1, match r1 with
      | [] => None
      | c2 :: _ => if is_ascii_digit c2 then let '(rest, e0) := scan_exp_digits r1 0 in
                   match rest with [] => Some e0 | _ :: _ => None end else None
      end <> None -> all_allowed r1 = true).
  { intros r1 Hn. destruct r1 as [|c2 r2]; [congruence|].
    destruct (is_ascii_digit c2); [|congruence].
    destruct (scan_exp_digits (c2 :: r2) 0) as [rest e0] eqn:Es.
    destruct rest; [|congruence]. eapply scan_exp_digits_allowed; [eassumption|reflexivity]. }
  destruct r as [|c1 r']; [discriminate|].
  destruct (c1 =? 43)%N eqn:E43.
  { apply N.eqb_eq in E43. subst c1. unfold all_allowed. cbn [forallb].
    replace (allowed_byte 43%N) with true by reflexivity. cbn [andb]. apply Hgen.
    destruct r' as [|c2 r2]; [discriminate|]. destruct (is_ascii_digit c2); [|discriminate].
    destruct (scan_exp_digits (c2 :: r2) 0) as [rest e0]. destruct rest; [discriminate|discriminate]. }
  destruct (c1 =? 45)%N eqn:E45.
  { apply N.eqb_eq in E45. subst c1. unfold all_allowed. cbn [forallb].
    replace (allowed_byte 45%N) with true by reflexivity. cbn [andb]. apply Hgen.
    destruct r' as [|c2 r2]; [discriminate|]. destruct (is_ascii_digit c2); [|discriminate].
    destruct (scan_exp_digits (c2 :: r2) 0) as [rest e0]. destruct rest; [discriminate|discriminate]. }
  apply Hgen.
  destruct (is_ascii_digit c1); [|discriminate].
  destruct (scan_exp_digits (c1 :: r') 0) as [rest e0]. destruct rest; [discriminate|discriminate].
Qed.

(* ================================================================== *)
(* parse_float: no junk *)
Definition special_letter (x : byte) : bool := existsb (N.eqb x) [105; 110; 102; 116; 121; 97]%N.

Lemma lower_byte_allowed : forall c, special_letter (lower_byte c) = true -> allowed_byte c = true.
Proof.
  intros c H. unfold special_letter in H. cbn [existsb] in H. unfold lower_byte in H.
  destruct ((65 <=? c) && (c <=? 90))%N eqn:E.
  - assert (Hc : (c = 73 \/ c = 78 \/ c = 70 \/ c = 84 \/ c = 89 \/ c = 65)%N) by lia.
    repeat (destruct Hc as [-> | Hc]; [reflexivity|]). subst; reflexivity.
  - assert (Hc : (c = 105 \/ c = 110 \/ c = 102 \/ c = 116 \/ c = 121 \/ c = 97)%N) by lia.
    repeat (destruct Hc as [-> | Hc]; [reflexivity|]). subst; reflexivity.
Qed.

Lemma lower_map_allowed : forall body l, map lower_byte body = l ->
  forallb special_letter l = true -> all_allowed body = true.
Proof.
  induction body as [|c r IH]; intros l E H; [reflexivity|].
  cbn [map] in E. subst l. cbn [forallb] in H. apply andb_true_iff in H. destruct H as [H1 H2].
  unfold all_allowed. cbn [forallb]. rewrite (lower_byte_allowed c H1). cbn [andb].
  now apply (IH _ eq_refl).
Qed.

Lemma special_inf_allowed : forall neg body r, special_inf neg body = Some r -> r <> PFsyntax ->
  all_allowed body = true.
Proof.
  intros neg body r H Hr. unfold special_inf in H.
  destruct (is_prefix (bs "inf") (map lower_byte body)); [|discriminate].
  destruct (bytes_eqb (map lower_byte body) (bs "inf")) eqn:E1.
  - apply bytes_eqb_eq in E1. now apply (lower_map_allowed body _ E1).
  - destruct (bytes_eqb (map lower_byte body) (bs "infinity")) eqn:E2.
    + apply bytes_eqb_eq in E2. now apply (lower_map_allowed body _ E2).
    + cbn [orb] in H. inversion H; subst. congruence.
Qed.

Lemma special_allowed : forall s r, special s = Some r -> r <> PFsyntax -> all_allowed s = true.
Proof.
  intros s r H Hr. destruct s as [|c t]; [discriminate|]. unfold special in H.
  destruct (c =? 43)%N eqn:E43.
  { apply N.eqb_eq in E43. subst c. unfold all_allowed. cbn [forallb].
    replace (allowed_byte 43%N) with true by reflexivity. cbn [andb].
    eapply special_inf_allowed; eassumption. }
  destruct (c =? 45)%N eqn:E45.
  { apply N.eqb_eq in E45. subst c. unfold all_allowed. cbn [forallb].
    replace (allowed_byte 45%N) with true by reflexivity. cbn [andb].
    eapply special_inf_allowed; eassumption. }
  destruct ((c =? 105) || (c =? 73))%N.
  { eapply special_inf_allowed; eassumption. }
  destruct ((c =? 110) || (c =? 78))%N; [|discriminate].
  destruct (is_prefix (bs "nan") (map lower_byte (c :: t))); [|discriminate].
  destruct (bytes_eqb (map lower_byte (c :: t)) (bs "nan")) eqn:E1.
  - apply bytes_eqb_eq in E1. now apply (lower_map_allowed (c :: t) _ E1).
  - inversion H; subst. congruence.
Qed.

Lemma strip_sign_allowed : forall s neg s1, strip_sign s = (neg, s1) ->
  all_allowed s1 = true -> all_allowed s = true.
Proof.
  intros s neg s1 H Ha. destruct s as [|c r]; [reflexivity|]. unfold strip_sign in H.
  destruct (c =? 43)%N eqn:E43.
  { apply N.eqb_eq in E43. inversion H; subst. unfold all_allowed. cbn [forallb].
    replace (allowed_byte 43%N) with true by reflexivity. exact Ha. }
  destruct (c =? 45)%N eqn:E45.
  { apply N.eqb_eq in E45. inversion H; subst. unfold all_allowed. cbn [forallb].
    replace (allowed_byte 45%N) with true by reflexivity. exact Ha. }
  inversion H; subst. exact Ha.
Qed.

Lemma parse_float_value_allowed : forall s,
  parse_float s <> PFsyntax -> parse_float s <> PFunsupported -> all_allowed s = true.
Proof.
  intros s H1 H2. unfold parse_float in H1, H2.
  destruct (special s) as [r|] eqn:Es.
  { eapply special_allowed; eassumption. }
  destruct (strip_sign s) as [neg s1] eqn:Ess.
  destruct (is_hex_prefix s1); [congruence|].
  destruct (scan_mant s1 0 0 0 false false) as [[[[rest mant] nd] frac] sawdig] eqn:Em.
  destruct (negb sawdig); [congruence|].
  destruct (scan_exp rest) as [e|] eqn:Ee; [|congruence].
  eapply strip_sign_allowed; [eassumption|].
  eapply scan_mant_allowed; [eassumption|].
  eapply scan_exp_allowed; eassumption.
Qed.

(* a text containing any byte outside "0123456789+-.eE_xXpPinfatyINFATY" is never a number *)
Theorem parse_float_no_junk : forall s,
  existsb (fun c => negb (allowed_byte c)) s = true ->
  parse_float s = PFsyntax \/ parse_float s = PFunsupported.
Proof.
  intros s H.
  destruct (parse_float s) as [f|f| |] eqn:E; try (now left); try (now right); exfalso.
  - assert (Ha : all_allowed s = true) by (apply parse_float_value_allowed; rewrite E; discriminate).
    apply existsb_exists in H. destruct H as [c [Hin Hc]].
    unfold all_allowed in Ha. rewrite forallb_forall in Ha. rewrite (Ha c Hin) in Hc. discriminate.
  - assert (Ha : all_allowed s = true) by (apply parse_float_value_allowed; rewrite E; discriminate).
    apply existsb_exists in H. destruct H as [c [Hin Hc]].
    unfold all_allowed in Ha. rewrite forallb_forall in Ha. rewrite (Ha c Hin) in Hc. discriminate.
Qed.
Print Assumptions parse_float_no_junk.

(* ================================================================== *)
(* rounding an exactly representable value; numeric core of parsing an exact expansion *)
(* ---------- shifting out zero bits is exact ---------- *)
Fixpoint iter_nat' {A : Type} (f : A -> A) (n : nat) (x : A) : A :=
  match n with O => x | S k => iter_nat' f k (f x) end.

Lemma iter_nat'_plus : forall (A : Type) (f : A -> A) p q (x : A),
  iter_nat' f (p + q) x = iter_nat' f q (iter_nat' f p x).
Proof. intros A f p. induction p as [|p IH]; intros q x; [reflexivity|]. cbn. apply IH. Qed.

Lemma iter_pos_nat' : forall (A : Type) (f : A -> A) p (x : A),
  iter_pos f p x = iter_nat' f (Pos.to_nat p) x.
Proof.
  intros A f p. induction p as [p IH|p IH|]; intro x.
  - rewrite Pos2Nat.inj_xI. cbn [iter_pos iter_nat']. rewrite IH, IH.
    replace (2 * Pos.to_nat p)%nat with (Pos.to_nat p + Pos.to_nat p)%nat by lia.
    now rewrite iter_nat'_plus.
  - rewrite Pos2Nat.inj_xO. cbn [iter_pos]. rewrite IH, IH.
    replace (2 * Pos.to_nat p)%nat with (Pos.to_nat p + Pos.to_nat p)%nat by lia.
    now rewrite iter_nat'_plus.
  - reflexivity.
Qed.

Lemma shr_exact : forall i m,
  iter_pos shr_1 i {| shr_m := Zpos (shift_pos i m); shr_r := false; shr_s := false |}
  = {| shr_m := Zpos m; shr_r := false; shr_s := false |}.
Proof.
  intros i m. rewrite iter_pos_nat', shift_pos_nat.
  induction (Pos.to_nat i) as [|n IH]; [reflexivity|].
  cbn [iter_nat' shift_nat nat_rect shr_1 orb]. exact IH.
Qed.

(* rounding m * 2^i at exponent e - i gives back the canonical (m, e) *)
Lemma binary_round_shifted : forall s m e i,
  bounded 53 1024 m e = true ->
  binary_round 53 1024 s (shift_pos i m) (e - Zpos i) = S754_finite s m e.
Proof.
  intros s m e i Hb. pose proof (bounded_inv m e Hb) as [Hc He].
  unfold binary_round. rewrite digits2_pos_shift.
  replace (Zpos (digits2_pos m) + Zpos i + (e - Zpos i)) with (Zpos (digits2_pos m) + e) by lia.
  rewrite fexp_eq. replace (Zpos (digits2_pos m) + e - 53) with (Zpos (digits2_pos m) + e - 53) in * by lia.
  rewrite Hc. unfold shl_align. replace (e - (e - Zpos i)) with (Zpos i) by lia.
  unfold binary_round_aux, shr_fexp. cbn [Zdigits2 shr_record_of_loc].
  rewrite digits2_pos_shift.
  replace (Zpos (digits2_pos m) + Zpos i + (e - Zpos i)) with (Zpos (digits2_pos m) + e) by lia.
  rewrite fexp_eq, Hc. replace (e - (e - Zpos i)) with (Zpos i) by lia.
  cbn [shr]. rewrite shr_exact. cbn [shr_m loc_of_shr_record round_nearest_even Zdigits2 shr_record_of_loc].
  replace (e - Zpos i + Zpos i) with e by lia.
  rewrite fexp_eq, Hc, Z.sub_diag. cbn [shr shr_m].
  change (1024 - 53) with 971. apply Zle_imp_le_bool in He. now rewrite He.
Qed.

Lemma binary_normalize_exact : forall m e i, 0 <= i ->
  bounded 53 1024 m e = true ->
  binary_normalize 53 1024 (Zpos m * 2 ^ i) (e - i) false = S754_finite false m e.
Proof.
  intros m e i Hi Hb. destruct i as [|i|i]; [| |lia].
  - rewrite Z.pow_0_r, Z.mul_1_r, Z.sub_0_r. cbn [binary_normalize].
    unfold binary_round. pose proof (bounded_inv m e Hb) as [Hc He].
    rewrite fexp_eq, Hc. unfold shl_align. rewrite Z.sub_diag.
    now apply binary_round_aux_canonical.
  - rewrite <- shift_pos_val. cbn [binary_normalize]. now apply binary_round_shifted.
Qed.

(* ---------- pow5 ---------- *)
Lemma pow5_spec : forall k, 0 <= k -> pow5 k = 5 ^ k.
Proof.
  intros k Hk. destruct k as [|p|p]; [reflexivity| |lia]. clear Hk.
  unfold pow5. induction p as [|p IH] using Pos.peano_ind; [reflexivity|].
  rewrite (Pos.iter_op_succ Z Z.mul Z.mul_assoc). rewrite IH.
  rewrite Pos2Z.inj_succ, Z.pow_succ_r by lia. reflexivity.
Qed.

Lemma pow5_pos : forall k, 0 < pow5 k.
Proof.
  intro k. destruct (Z_le_gt_dec 0 k) as [H|H].
  - rewrite pow5_spec by assumption. apply Z.pow_pos_nonneg; lia.
  - destruct k; try lia. reflexivity.
Qed.

Lemma div_eucl_exact : forall a b, 0 < b -> Z.div_eucl (a * b) b = (a, 0).
Proof.
  intros a b Hb. pose proof (Z.div_mul a b ltac:(lia)) as Hd. pose proof (Z.mod_mul a b ltac:(lia)) as Hm.
  unfold Z.div, Z.modulo in Hd, Hm. destruct (Z.div_eucl (a * b) b) as [q r]. now subst.
Qed.

(* the numeric core of parsing an exact decimal expansion *)
Theorem round_dec_exact_int : forall m e, 0 <= e -> bounded 53 1024 m e = true ->
  round_dec (Zpos m * 2 ^ e) 0 = S754_finite false m e.
Proof.
  intros m e He Hb. unfold round_dec. cbn [Z.leb Z.compare]. change (pow5 0) with 1. rewrite Z.mul_1_r.
  pose proof (binary_normalize_exact m e e He Hb) as H. rewrite Z.sub_diag in H. exact H.
Qed.

Theorem round_dec_exact_frac : forall m e, e < 0 -> bounded 53 1024 m e = true ->
  round_dec (Zpos m * pow5 (- e)) e = S754_finite false m e.
Proof.
  intros m e He Hb. unfold round_dec.
  replace (0 <=? e) with false by lia.
  set (p5 := pow5 (- e)). pose proof (pow5_pos (- e)) as Hp5. fold p5 in Hp5.
  set (j := Z.max 0 (Z.log2 p5 + 68 - Z.log2 (Zpos m * p5))).
  assert (Hj : 0 <= j) by lia.
  rewrite Z.shiftl_mul_pow2 by assumption.
  replace (Zpos m * p5 * 2 ^ j) with (Zpos m * 2 ^ j * p5) by ring.
  rewrite div_eucl_exact by assumption. cbn [Z.eqb].
  replace (2 * (Zpos m * 2 ^ j) + 0) with (Zpos m * 2 ^ (j + 1)) by (rewrite Z.pow_add_r by lia; ring).
  replace (- j - - e - 1) with (e - (j + 1)) by lia.
  unfold prec, emax. apply binary_normalize_exact; [lia|assumption].
Qed.
Print Assumptions round_dec_exact_frac.

(* ================================================================== *)
(* parsing plain digit strings *)
(* ---------- value of a digit string ---------- *)
Definition dstep (st : Z * Z) (c : byte) : Z * Z :=
  let mant' := fst st * 10 + digit_val c in (mant', if mant' =? 0 then 0 else snd st + 1).
Definition drun (ds : bytes) (st : Z * Z) : Z * Z := fold_left dstep ds st.
Definition dval (ds : bytes) (acc : Z) : Z := fold_left (fun a c => a * 10 + digit_val c) ds acc.

Lemma drun_fst : forall ds st, fst (drun ds st) = dval ds (fst st).
Proof. induction ds as [|c r IH]; intro st; [reflexivity|]. cbn [drun dval fold_left]. apply IH. Qed.

Lemma digit_val_digit : forall c, is_ascii_digit c = true -> 0 <= digit_val c <= 9.
Proof. intros c H. unfold is_ascii_digit in H. unfold digit_val. lia. Qed.

Lemma dec_digits_fuel_val : forall fuel n acc, (n < 2 ^ N.of_nat fuel)%N ->
  dval (dec_digits_fuel fuel n acc) 0 = dval acc (Z.of_N n).
Proof.
  induction fuel as [|f IH]; intros n acc Hn.
  - cbn in Hn. assert (n = 0%N) by lia. subst n. reflexivity.
  - cbn [dec_digits_fuel].
    pose proof (N.div_mod n 10 ltac:(discriminate)) as Hdm.
    pose proof (N.mod_upper_bound n 10 ltac:(discriminate)) as Hmod.
    rewrite Nat2N.inj_succ, N.pow_succ_r' in Hn.
    set (q := (n / 10)%N) in *. set (r := (n mod 10)%N) in *. clearbody q r.
    assert (Hd : digit_val (48 + r)%N = Z.of_N r) by (unfold digit_val; lia).
    destruct (q =? 0)%N eqn:Eq.
    + apply N.eqb_eq in Eq. unfold dval. cbn [fold_left]. rewrite Hd. f_equal. lia.
    + rewrite IH.
      * unfold dval. cbn [fold_left]. rewrite Hd. f_equal. lia.
      * lia.
Qed.

Lemma digits_of_Z_val : forall z, 0 <= z -> dval (digits_of_Z z) 0 = z.
Proof.
  intros z Hz. unfold digits_of_Z, dec_of_N. rewrite dec_digits_fuel_val.
  - unfold dval. cbn [fold_left]. lia.
  - destruct (Z.to_N z) as [|p] eqn:E; [cbn; lia|].
    rewrite Nat2N.inj_succ, N2Nat.id. apply N.log2_spec. lia.
Qed.

(* invariant linking nd to the number of decimal digits of the mantissa *)
Definition nd_inv (st : Z * Z) : Prop :=
  (fst st = 0 /\ snd st = 0) \/ (1 <= snd st /\ 10 ^ (snd st - 1) <= fst st < 10 ^ snd st).

Lemma dstep_inv : forall st c, is_ascii_digit c = true -> nd_inv st -> nd_inv (dstep st c).
Proof.
  intros [mant nd] c Hc Hinv. pose proof (digit_val_digit c Hc) as Hd.
  unfold nd_inv, dstep in *. cbn [fst snd] in *.
  destruct (mant * 10 + digit_val c =? 0) eqn:E; [left; split; [lia|reflexivity]|].
  right. destruct Hinv as [[H0 Hn]|[Hn [Hlo Hhi]]].
  - subst. split; [lia|]. change (10 ^ (0 + 1 - 1)) with 1. change (10 ^ (0 + 1)) with 10. lia.
  - split; [lia|]. replace (nd + 1 - 1) with (Z.succ (nd - 1)) by lia.
    replace (nd + 1) with (Z.succ nd) by lia. rewrite !Z.pow_succ_r by lia. lia.
Qed.

Lemma drun_inv : forall ds st, all_digits ds = true -> nd_inv st -> nd_inv (drun ds st).
Proof.
  induction ds as [|c r IH]; intros st Hd Hinv; [assumption|].
  unfold all_digits in Hd. cbn [forallb] in Hd. apply andb_true_iff in Hd. destruct Hd as [Hc Hr].
  cbn [drun fold_left]. apply IH; [assumption|]. now apply dstep_inv.
Qed.

(* ---------- scanning digit runs ---------- *)
Lemma scan_mant_digits : forall ds rest mant nd frac sawdot sawdig, all_digits ds = true ->
  scan_mant (ds ++ rest) mant nd frac sawdot sawdig =
  scan_mant rest (fst (drun ds (mant, nd))) (snd (drun ds (mant, nd)))
            (if sawdot then frac + Z.of_nat (List.length ds) else frac) sawdot
            (match ds with [] => sawdig | _ => true end).
Proof.
  induction ds as [|c r IH]; intros rest mant nd frac sawdot sawdig Hd.
  - cbn [app drun fold_left fst snd List.length]. destruct sawdot; [|reflexivity]. now rewrite Z.add_0_r.
  - unfold all_digits in Hd. cbn [forallb] in Hd. apply andb_true_iff in Hd. destruct Hd as [Hc Hr].
    cbn [app scan_mant]. unfold is_ascii_digit in Hc.
    replace (c =? 95)%N with false by lia. replace (c =? 46)%N with false by lia.
    replace (is_ascii_digit c) with true by (unfold is_ascii_digit; lia).
    rewrite IH by assumption. cbn [drun fold_left]. unfold dstep at 2 4. cbn [fst snd].
    f_equal.
    + destruct sawdot; [|reflexivity]. cbn [List.length]. lia.
    + destruct r; reflexivity.
Qed.

Definition plain (c : byte) : bool := is_ascii_digit c || (c =? 46)%N.

Lemma underscore_ok_plain : forall s saw, forallb plain s = true ->
  saw <> UsUnder -> underscore_ok_aux s saw = true.
Proof.
  induction s as [|c r IH]; intros saw Hp Hs.
  - destruct saw; try reflexivity. congruence.
  - cbn [forallb] in Hp. apply andb_true_iff in Hp. destruct Hp as [Hc Hr].
    cbn [underscore_ok_aux]. unfold plain in Hc.
    destruct (is_ascii_digit c) eqn:Ed; [apply IH; [assumption|discriminate]|].
    cbn [orb] in Hc. apply N.eqb_eq in Hc. subst c. cbn.
    destruct saw; try (apply IH; [assumption|discriminate]). congruence.
Qed.

Lemma hex_prefix_plain : forall s, forallb plain s = true -> is_hex_prefix s = false.
Proof.
  intros s Hp. destruct s as [|c0 [|c1 [|c2 r]]]; try reflexivity.
  cbn [forallb] in Hp. apply andb_true_iff in Hp. destruct Hp as [_ Hp].
  apply andb_true_iff in Hp. destruct Hp as [H1 _]. unfold plain, is_ascii_digit in H1.
  unfold is_hex_prefix. lia.
Qed.

Lemma plain_digits : forall ds, all_digits ds = true -> forallb plain ds = true.
Proof.
  induction ds as [|c r IH]; intro H; [reflexivity|].
  unfold all_digits in H. cbn [forallb] in *. apply andb_true_iff in H. destruct H as [Hc Hr].
  unfold plain at 1. rewrite Hc. cbn [orb andb]. now apply IH.
Qed.

Lemma strip_sign_digit : forall c r, is_ascii_digit c = true -> strip_sign (c :: r) = (false, c :: r).
Proof.
  intros c r Hc. unfold strip_sign. unfold is_ascii_digit in Hc.
  replace (c =? 43)%N with false by lia. replace (c =? 45)%N with false by lia. reflexivity.
Qed.

(* parsing  ip [. fp]  where ip, fp are digit strings and ip is not empty *)
Lemma parse_float_plain : forall ip fp (dot : bool),
  ip <> [] -> all_digits ip = true -> all_digits fp = true -> (dot = false -> fp = []) ->
  parse_float (ip ++ (if dot then 46%N :: fp else [])) =
  dec_to_float false (dval (ip ++ fp) 0) (snd (drun (ip ++ fp) (0, 0))) (- Z.of_nat (List.length fp)).
Proof.
  intros ip fp dot Hne Hip Hfp Hdot.
  set (T := ip ++ (if dot then 46%N :: fp else [])).
  assert (HT : forallb plain T = true).
  { unfold T. rewrite forallb_app. apply andb_true_iff. split; [now apply plain_digits|].
    destruct dot; [|reflexivity]. cbn [forallb]. apply andb_true_iff. split; [reflexivity|now apply plain_digits]. }
  assert (Hex : exists c r, ip = c :: r /\ is_ascii_digit c = true).
  { destruct ip as [|c r]; [congruence|]. exists c, r. split; [reflexivity|].
    unfold all_digits in Hip. cbn [forallb] in Hip. now apply andb_true_iff in Hip. }
  destruct Hex as [c [r [Eip Hc]]].
  assert (ET : T = c :: (r ++ (if dot then 46%N :: fp else []))) by (unfold T; rewrite Eip; reflexivity).
  unfold parse_float.
  replace (special T) with (@None pf_result) by (rewrite ET; symmetry; apply (special_digit_first c _ Hc)).
  replace (strip_sign T) with (false, T) by (rewrite ET; symmetry; now apply strip_sign_digit).
  rewrite (hex_prefix_plain T HT).
  unfold underscore_ok. rewrite (underscore_ok_plain T UsStart HT) by discriminate.
  unfold T. rewrite scan_mant_digits by assumption.
  replace (match ip with [] => false | _ :: _ => true end) with true by (rewrite Eip; reflexivity).
  destruct dot.
  - cbn [scan_mant]. replace (46 =? 95)%N with false by reflexivity. rewrite N.eqb_refl.
    rewrite <- (app_nil_r fp) at 1. rewrite scan_mant_digits by assumption.
    cbn [scan_mant negb scan_exp]. 
    replace (match fp with [] => true | _ :: _ => true end) with true by (destruct fp; reflexivity).
    cbn [negb]. unfold drun. rewrite <- surjective_pairing. rewrite <- fold_left_app. fold (drun (ip ++ fp) (0,0)).
    rewrite drun_fst. cbn [fst]. f_equal; try lia.
  - rewrite (Hdot eq_refl). cbn [scan_mant negb scan_exp]. rewrite app_nil_r. cbn [List.length].
    rewrite drun_fst. cbn [fst]. reflexivity.
Qed.

(* ================================================================== *)
(* the exact expansion parses back; full round trip *)
Lemma drun_zeros : forall n, drun (zeros n) (0, 0) = (0, 0).
Proof.
  intro n. unfold zeros. induction (Z.to_nat n) as [|k IH]; [reflexivity|].
  cbn [repeat_byte drun fold_left]. exact IH.
Qed.

Lemma zeros_length : forall n, 0 <= n -> Z.of_nat (List.length (zeros n)) = n.
Proof.
  intros n Hn. unfold zeros.
  assert (H : forall k, List.length (repeat_byte 48%N k) = k) by (induction k; cbn; congruence).
  rewrite H. lia.
Qed.

Lemma parse_render : forall ds p, ds <> [] -> all_digits ds = true -> p <= 0 ->
  parse_float (render_pos ds p) = dec_to_float false (dval ds 0) (snd (drun ds (0, 0))) p.
Proof.
  intros ds p Hne Hd Hp. unfold render_pos.
  destruct (0 <=? p) eqn:E0.
  - assert (p = 0) by lia. subst p. change (zeros 0) with (@nil byte).
    pose proof (parse_float_plain ds [] false Hne Hd eq_refl (fun _ => eq_refl)) as H.
    cbn [List.length Z.of_nat Z.opp] in H. rewrite !app_nil_r in H. rewrite app_nil_r. exact H.
  - destruct (0 <? Z.of_nat (List.length ds) + p) eqn:Eip.
    + set (n := Z.to_nat (Z.of_nat (List.length ds) + p)).
      assert (Hn : (0 < n < List.length ds)%nat) by lia.
      assert (Hf : firstn n ds <> []).
      { destruct ds as [|c r]; [congruence|]. destruct n; [lia|]. discriminate. }
      pose proof (parse_float_plain (firstn n ds) (skipn n ds) true Hf
                    (all_digits_firstn n ds Hd) (all_digits_skipn n ds Hd) ltac:(discriminate)) as H.
      rewrite firstn_skipn in H. rewrite H. f_equal. rewrite skipn_length. lia.
    + set (z := - (Z.of_nat (List.length ds) + p)).
      assert (Hfp : all_digits (zeros z ++ ds) = true) by (rewrite all_digits_app, zeros_digits, Hd; reflexivity).
      pose proof (parse_float_plain [48%N] (zeros z ++ ds) true ltac:(discriminate) eq_refl Hfp ltac:(discriminate)) as H.
      cbn [app] in H. cbn [app]. rewrite H.
      assert (Hrun : drun (48%N :: zeros z ++ ds) (0, 0) = drun ds (0, 0)).
      { change (48%N :: zeros z ++ ds) with ([48%N] ++ zeros z ++ ds). unfold drun.
        rewrite !fold_left_app. fold (drun (zeros z) (fold_left dstep [48%N] (0,0))).
        change (fold_left dstep [48%N] (0, 0)) with (0, 0). now rewrite drun_zeros. }
      replace (dval (48%N :: zeros z ++ ds) 0) with (fst (drun (48%N :: zeros z ++ ds) (0, 0))) by apply drun_fst.
      rewrite Hrun, drun_fst. cbn [fst].
      f_equal. rewrite app_length, Nat2Z.inj_add, zeros_length by lia. lia.
Qed.

Lemma pow_lt_exp : forall b x y, 1 < b -> 0 <= y -> b ^ x < b ^ y -> x < y.
Proof.
  intros b x y Hb Hy H. destruct (Z_lt_le_dec x y) as [|Hge]; [assumption|].
  assert (b ^ y <= b ^ x) by (apply Z.pow_le_mono_r; lia). lia.
Qed.

Lemma big_consts : 2 ^ 1024 < 10 ^ 309 /\ 2 ^ 743 < 5 ^ 331 /\ 2 ^ 53 < 10 ^ 310.
Proof. repeat split; vm_compute; reflexivity. Qed.

(* the exact expansion is inside the exponent window accepted by dec_to_float *)
Lemma exact_window_int : forall m e nd, bounded 53 1024 m e = true -> 0 <= e ->
  1 <= nd -> 10 ^ (nd - 1) <= Zpos m * 2 ^ e -> -330 <= 0 + nd <= 310.
Proof.
  intros m e nd Hb He Hnd Hlo. destruct (bounded_facts m e Hb) as [Hm [Hr _]].
  destruct big_consts as [C1 _].
  assert (Zpos m * 2 ^ e < 2 ^ 1024).
  { replace 1024 with (53 + 971) by reflexivity. rewrite Z.pow_add_r by lia.
    assert (2 ^ e <= 2 ^ 971) by (apply Z.pow_le_mono_r; lia).
    assert (0 < 2 ^ e) by (apply Z.pow_pos_nonneg; lia). nia. }
  assert (nd - 1 < 309) by (apply (pow_lt_exp 10); lia). lia.
Qed.

Lemma exact_window_frac : forall m e nd, bounded 53 1024 m e = true -> e < 0 ->
  1 <= nd -> 10 ^ (nd - 1) <= Zpos m * 5 ^ (- e) < 10 ^ nd -> -330 <= e + nd <= 310.
Proof.
  intros m e nd Hb He Hnd [Hlo Hhi]. destruct (bounded_facts m e Hb) as [Hm [Hr _]].
  destruct big_consts as [_ [C2 C3]].
  set (k := - e) in *. assert (Hk : 1 <= k <= 1074) by lia.
  assert (H5 : 0 < 5 ^ k) by (apply Z.pow_pos_nonneg; lia).
  assert (H2 : 1 <= 2 ^ k) by (change 1 with (2 ^ 0); apply Z.pow_le_mono_r; lia).
  assert (H10 : 10 ^ k = 5 ^ k * 2 ^ k) by (change 10 with (5 * 2); apply Z.pow_mul_l).
  split.
  - (* lower bound *)
    destruct (Z_le_gt_dec (-330) (e + nd)) as [|Hbad]; [assumption|exfalso].
    assert (Hk331 : 332 <= k) by lia.
    assert (Hnd' : 10 ^ nd <= 10 ^ (k - 331)) by (apply Z.pow_le_mono_r; lia).
    assert (E1 : 10 ^ (k - 331) = 5 ^ (k - 331) * 2 ^ (k - 331)) by (change 10 with (5 * 2); apply Z.pow_mul_l).
    assert (E2 : 5 ^ k = 5 ^ (k - 331) * 5 ^ 331) by (rewrite <- Z.pow_add_r by lia; f_equal; lia).
    assert (E3 : 2 ^ (k - 331) <= 2 ^ 743) by (apply Z.pow_le_mono_r; lia).
    assert (H5' : 0 < 5 ^ (k - 331)) by (apply Z.pow_pos_nonneg; lia).
    assert (5 ^ k < 10 ^ (k - 331)) by nia.
    rewrite E1, E2 in H. 
    assert (5 ^ 331 < 2 ^ (k - 331)) by (apply (Z.mul_lt_mono_pos_l (5 ^ (k - 331))); assumption).
    lia.
  - destruct (Z_le_gt_dec (e + nd) 310) as [|Hbad]; [assumption|exfalso].
    assert (Hnd' : 10 ^ (k + 310) <= 10 ^ (nd - 1)) by (apply Z.pow_le_mono_r; lia).
    rewrite Z.pow_add_r in Hnd' by lia. rewrite H10 in Hnd'.
    assert (Zpos m * 5 ^ k < 5 ^ k * 2 ^ k * 10 ^ 310).
    { assert (Zpos m * 5 ^ k < 5 ^ k * 10 ^ 310) by nia.
      assert (5 ^ k * 10 ^ 310 <= 5 ^ k * 2 ^ k * 10 ^ 310) by nia. lia. }
    lia.
Qed.

Lemma fmt_exact_body_parses : forall m e, bounded 53 1024 m e = true ->
  let body := if 0 <=? e then render_pos (digits_of_Z (Zpos m * 2 ^ e)) 0
              else render_pos (digits_of_Z (Zpos m * pow5 (- e))) e in
  parse_float body = PFok (S754_finite false m e) /\ exists c r, body = c :: r /\ is_ascii_digit c = true.
Proof.
  intros m e Hb body. unfold body. clear body.
  destruct (0 <=? e) eqn:E0.
  - apply Z.leb_le in E0.
    assert (HD : 0 < Zpos m * 2 ^ e) by (assert (0 < 2 ^ e) by (apply Z.pow_pos_nonneg; lia); nia).
    set (D := Zpos m * 2 ^ e) in *.
    split; [|exact (proj2 (render_pos_positional _ 0 (digits_of_Z_nonempty D) (digits_of_Z_digits D)))].
    rewrite parse_render by (try apply digits_of_Z_nonempty; try apply digits_of_Z_digits; lia).
    rewrite digits_of_Z_val by lia.
    pose proof (drun_inv (digits_of_Z D) (0, 0) (digits_of_Z_digits D) (or_introl (conj eq_refl eq_refl))) as Hinv.
    assert (Hfst : fst (drun (digits_of_Z D) (0, 0)) = D) by (rewrite drun_fst; cbn [fst]; apply digits_of_Z_val; lia).
    destruct Hinv as [[H0 _]|[Hnd [Hlo Hhi]]]; [lia|].
    set (nd := snd (drun (digits_of_Z D) (0, 0))) in *. rewrite Hfst in Hlo, Hhi.
    pose proof (exact_window_int m e nd Hb E0 Hnd Hlo) as Hw.
    unfold dec_to_float. replace (D =? 0) with false by lia.
    replace (310 <? 0 + nd) with false by lia. replace (0 + nd <? -330) with false by lia.
    unfold D. rewrite round_dec_exact_int by assumption. reflexivity.
  - apply Z.leb_gt in E0.
    pose proof (pow5_pos (- e)) as Hp5.
    assert (HD : 0 < Zpos m * pow5 (- e)) by nia.
    set (D := Zpos m * pow5 (- e)) in *.
    split; [|exact (proj2 (render_pos_positional _ e (digits_of_Z_nonempty D) (digits_of_Z_digits D)))].
    rewrite parse_render by (try apply digits_of_Z_nonempty; try apply digits_of_Z_digits; lia).
    rewrite digits_of_Z_val by lia.
    pose proof (drun_inv (digits_of_Z D) (0, 0) (digits_of_Z_digits D) (or_introl (conj eq_refl eq_refl))) as Hinv.
    assert (Hfst : fst (drun (digits_of_Z D) (0, 0)) = D) by (rewrite drun_fst; cbn [fst]; apply digits_of_Z_val; lia).
    destruct Hinv as [[H0 _]|[Hnd [Hlo Hhi]]]; [lia|].
    set (nd := snd (drun (digits_of_Z D) (0, 0))) in *. rewrite Hfst in Hlo, Hhi.
    assert (HD5 : D = Zpos m * 5 ^ (- e)) by (unfold D; rewrite pow5_spec by lia; reflexivity).
    rewrite HD5 in Hlo, Hhi.
    pose proof (exact_window_frac m e nd Hb E0 Hnd (conj Hlo Hhi)) as Hw.
    unfold dec_to_float. replace (D =? 0) with false by lia.
    replace (310 <? e + nd) with false by lia. replace (e + nd <? -330) with false by lia.
    unfold D. rewrite round_dec_exact_frac by assumption. reflexivity.
Qed.

Lemma fmt_exact_parses : forall s m e, bounded 53 1024 m e = true ->
  parse_float (fmt_exact s m e) = PFok (S754_finite s m e).
Proof.
  intros s m e Hb. destruct (fmt_exact_body_parses m e Hb) as [Hp [c [r [Eb Hc]]]].
  unfold fmt_exact.
  match goal with |- parse_float (sign_bytes _ ++ ?b) = _ => set (body := b) end.
  assert (Hp' : parse_float body = PFok (S754_finite false m e)) by exact Hp.
  assert (Eb' : body = c :: r) by exact Eb.
  clearbody body. clear Hp Eb. destruct s; cbn [sign_bytes app].
  - subst body. rewrite parse_float_sign by assumption. exact (f_equal pf_neg Hp').
  - exact Hp'.
Qed.

(* ---------- 1. the round trip, without side condition ---------- *)
Theorem format_f_roundtrip : forall x,
  f_is_finite x = true -> valid_binary 53 1024 x = true -> parse_float (format_f x) = PFok x.
Proof.
  intros x Hfin Hv. destruct x as [s|s| |s m e]; try discriminate.
  - destruct s; vm_compute; reflexivity.
  - unfold format_f.
    destruct (pf_is (parse_float (fmt_candidate s m e)) (S754_finite s m e)) eqn:Hc.
    + now apply pf_is_true.
    + now apply fmt_exact_parses.
Qed.
Print Assumptions format_f_roundtrip.

Corollary format_f_checked_valid : forall x, valid_binary 53 1024 x = true -> format_f_checked x = true.
Proof.
  intros x Hv. destruct x as [s|s| |s m e]; try reflexivity.
  unfold format_f_checked. rewrite (fmt_exact_parses s m e Hv).
  unfold pf_is.
  assert (Hs : forall y, f_same y y = true).
  { intros [a|a| |a p z]; cbn; rewrite ?eqb_reflx, ?Pos.eqb_refl, ?Z.eqb_refl; reflexivity. }
  rewrite Hs. apply orb_true_r.
Qed.

Print Assumptions format_f_checked_valid.
Print Assumptions f_floor_spec.
Print Assumptions f_ceil_spec.
Print Assumptions f_round_spec.
Print Assumptions fmt_exact_parses.
