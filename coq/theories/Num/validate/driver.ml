(* driver.ml: checks the vectors written by gen.go against the code extracted
   from JQ.Num.F64.  usage: driver <vector-file>; prints per-kind counts. *)
open F64

let rec pos_of_int64 (v : int64) : positive =
  (* v is read as unsigned and must be non-zero *)
  if Int64.equal v 1L then XH
  else
    let rest = pos_of_int64 (Int64.shift_right_logical v 1) in
    if Int64.equal (Int64.logand v 1L) 1L then XI rest else XO rest

let n_of_int64 v = if Int64.equal v 0L then N0 else Npos (pos_of_int64 v)

let rec int64_of_pos = function
  | XH -> 1L
  | XO p -> Int64.shift_left (int64_of_pos p) 1
  | XI p -> Int64.logor (Int64.shift_left (int64_of_pos p) 1) 1L

let int64_of_n = function N0 -> 0L | Npos p -> int64_of_pos p

let z_of_int64 v =
  if Int64.equal v 0L then Z0
  else if Int64.compare v 0L > 0 then Zpos (pos_of_int64 v)
  else Zneg (pos_of_int64 (Int64.neg v))

let int64_of_z = function
  | Z0 -> 0L
  | Zpos p -> int64_of_pos p
  | Zneg p -> Int64.neg (int64_of_pos p)

let bits_of_hex s = Int64.of_string ("0x" ^ s)
let float_of_hex s = f_of_bits (n_of_int64 (bits_of_hex s))
let hex_of_float f = Printf.sprintf "%016Lx" (int64_of_n (f_bits f))

let unhex s =
  if s = "-" then ""
  else String.init (String.length s / 2) (fun i -> Char.chr (int_of_string ("0x" ^ String.sub s (2 * i) 2)))

let bytes_of_string s = List.init (String.length s) (fun i -> n_of_int64 (Int64.of_int (Char.code s.[i])))
let string_of_bytes l =
  String.concat "" (List.map (fun b -> String.make 1 (Char.chr (Int64.to_int (int64_of_n b) land 255))) l)

let kinds = [ "parse_float"; "parse_float(hex->unsupported)"; "format_f"; "format_f_checked"; "positional(format_f)"; "format_json";
              "add"; "sub"; "mul"; "div"; "floor"; "ceil"; "round"; "trunc_int64";
              "is_integer_valued(floor/ceil/round)"; "of_Z"; "cmp"; "ltb/gtb/eqb"; "bits roundtrip" ]
let total = Hashtbl.create 16
let bad = Hashtbl.create 16
let shown = ref 0

let check kind ok descr =
  Hashtbl.replace total kind (1 + try Hashtbl.find total kind with Not_found -> 0);
  if not ok then begin
    Hashtbl.replace bad kind (1 + try Hashtbl.find bad kind with Not_found -> 0);
    if !shown < 40 then begin incr shown; Printf.printf "MISMATCH %s: %s\n%!" kind (descr ()) end
  end

let has_hex_prefix s =
  let s = if String.length s > 0 && (s.[0] = '+' || s.[0] = '-') then String.sub s 1 (String.length s - 1) else s in
  String.length s >= 2 && s.[0] = '0' && (s.[1] = 'x' || s.[1] = 'X')

let finite_hex h =
  let b = bits_of_hex h in
  not (Int64.equal (Int64.logand b 0x7ff0000000000000L) 0x7ff0000000000000L)

let handle line =
  match String.split_on_char ' ' line with
  | [ "P"; hs; st; bits ] ->
      let s = unhex hs in
      let got =
        match parse_float (bytes_of_string s) with
        | PFok f -> "ok " ^ hex_of_float f
        | PFrange f -> "range " ^ hex_of_float f
        | PFsyntax -> "syntax 0000000000000000"
        | PFunsupported -> "unsupported"
      in
      if got = "unsupported" then
        check "parse_float(hex->unsupported)" (has_hex_prefix s) (fun () -> Printf.sprintf "%S is not a hex spelling" s)
      else
        check "parse_float" (got = st ^ " " ^ bits) (fun () -> Printf.sprintf "%S go=%s %s coq=%s" s st bits got)
  | [ "F"; bits; hf; hj ] ->
      let x = float_of_hex bits in
      check "bits roundtrip" (hex_of_float x = bits) (fun () -> bits);
      let got = string_of_bytes (format_f x) in
      check "format_f" (got = unhex hf) (fun () -> Printf.sprintf "%s go=%s coq=%s" bits (unhex hf) got);
      check "format_f_checked" (format_f_checked x) (fun () -> bits);
      if finite_hex bits then
        check "positional(format_f)" (positional (format_f x)) (fun () -> bits);
      let gj = match format_json x with None -> "-" | Some b -> string_of_bytes b in
      let ej = if hj = "-" then "-" else unhex hj in
      check "format_json" (gj = ej) (fun () -> Printf.sprintf "%s go=%s coq=%s" bits ej gj)
  | [ "A"; a; b; r1; r2; r3; r4 ] ->
      let x = float_of_hex a and y = float_of_hex b in
      let one kind f r =
        let got = hex_of_float (f x y) in
        check kind (got = r) (fun () -> Printf.sprintf "%s %s go=%s coq=%s" a b r got) in
      one "add" f_add r1; one "sub" f_sub r2; one "mul" f_mul r3; one "div" f_div r4
  | [ "U"; a; fl; ce; ro; tr ] ->
      let x = float_of_hex a in
      let one kind f r =
        let y = f x in
        let got = hex_of_float y in
        check kind (got = r) (fun () -> Printf.sprintf "%s go=%s coq=%s" a r got);
        if finite_hex a then check "is_integer_valued(floor/ceil/round)" (is_integer_valued y) (fun () -> a) in
      one "floor" f_floor fl; one "ceil" f_ceil ce; one "round" f_round ro;
      let got = Int64.to_string (int64_of_z (f_trunc_int64 x)) in
      check "trunc_int64" (got = tr) (fun () -> Printf.sprintf "%s go=%s coq=%s" a tr got)
  | [ "Z"; i; bits ] ->
      let got = hex_of_float (f_of_Z (z_of_int64 (Int64.of_string i))) in
      check "of_Z" (got = bits) (fun () -> Printf.sprintf "%s go=%s coq=%s" i bits got)
  | [ "C"; a; b; flags ] ->
      let x = float_of_hex a and y = float_of_hex b in
      let c = match f_cmp x y with None -> "000" | Some Lt -> "100" | Some Gt -> "010" | Some Eq -> "001" in
      check "cmp" (c = flags) (fun () -> Printf.sprintf "%s %s go=%s coq=%s" a b flags c);
      let d = (if f_ltb x y then "1" else "0") ^ (if f_gtb x y then "1" else "0") ^ (if f_eqb x y then "1" else "0") in
      check "ltb/gtb/eqb" (d = flags) (fun () -> Printf.sprintf "%s %s go=%s coq=%s" a b flags d)
  | _ -> if line <> "" then (Printf.printf "BAD LINE %s\n" line; exit 2)

let () =
  let ic = open_in Sys.argv.(1) in
  (try while true do handle (input_line ic) done with End_of_file -> ());
  List.iter (fun k ->
      let t = try Hashtbl.find total k with Not_found -> 0 in
      let b = try Hashtbl.find bad k with Not_found -> 0 in
      Printf.printf "COUNT %s %d %d\n" k t b) kinds
