(* run with coqc inside a scratch directory: writes f64.ml / f64.mli there *)
From JQ Require Import Base.Bytes Num.F64.
Require Extraction.
Require Import ExtrOcamlBasic.
Extraction "f64.ml" parse_float format_f format_json format_f_checked
  f_add f_sub f_mul f_div f_neg f_cmp f_ltb f_gtb f_eqb
  f_floor f_ceil f_round f_trunc_int64 f_of_Z f_bits f_of_bits
  is_integer_valued positional.
