// gen.go: emits test vectors for the Coq binary64 layer (JQ.Num.F64) from the
// real Go implementation.  Line formats (space separated):
//
//	P <hex(text)|-> <ok|range|syntax> <bits>     strconv.ParseFloat(text, 64)
//	F <bits> <hex(FormatFloat 'f' -1)> <hex(json.Marshal)|->
//	A <a> <b> <a+b> <a-b> <a*b> <a/b>
//	U <x> <floor> <ceil> <round> <int64(x) decimal>
//	Z <int64 decimal> <float64(i) bits>
//	C <a> <b> <lt><gt><eq>                        three 0/1 flags
//
// bits are 16 hex digits; every NaN is written as 7ff8000000000001.
package main

import (
	"bufio"
	"encoding/hex"
	"encoding/json"
	"errors"
	"fmt"
	"math"
	"math/big"
	"math/rand"
	"os"
	"strconv"
	"strings"
)

var out *bufio.Writer
var rng = rand.New(rand.NewSource(20261001))

func bits(f float64) string {
	if f != f {
		return "7ff8000000000001"
	}
	return fmt.Sprintf("%016x", math.Float64bits(f))
}

func hx(s string) string {
	if s == "" {
		return "-"
	}
	return hex.EncodeToString([]byte(s))
}

//go:noinline
func toInt(x float64) int64 { return int64(x) }

//go:noinline
func toFloat(i int64) float64 { return float64(i) }

//go:noinline
func add(a, b float64) float64 { return a + b }

//go:noinline
func sub(a, b float64) float64 { return a - b }

//go:noinline
func mul(a, b float64) float64 { return a * b }

//go:noinline
func div(a, b float64) float64 { return a / b }

func emitP(s string) {
	f, err := strconv.ParseFloat(s, 64)
	st := "ok"
	if err != nil {
		var ne *strconv.NumError
		if errors.As(err, &ne) && ne.Err == strconv.ErrRange {
			st = "range"
		} else {
			st = "syntax"
			f = 0
		}
	}
	fmt.Fprintf(out, "P %s %s %s\n", hx(s), st, bits(f))
}

func emitF(f float64) {
	js := "-"
	if b, err := json.Marshal(f); err == nil {
		js = hx(string(b))
	}
	fmt.Fprintf(out, "F %s %s %s\n", bits(f), hx(strconv.FormatFloat(f, 'f', -1, 64)), js)
}

func emitA(a, b float64) {
	fmt.Fprintf(out, "A %s %s %s %s %s %s\n", bits(a), bits(b), bits(add(a, b)), bits(sub(a, b)), bits(mul(a, b)), bits(div(a, b)))
}

func emitU(x float64) {
	fmt.Fprintf(out, "U %s %s %s %s %d\n", bits(x), bits(math.Floor(x)), bits(math.Ceil(x)), bits(math.Round(x)), toInt(x))
}

func emitZ(i int64) { fmt.Fprintf(out, "Z %d %s\n", i, bits(toFloat(i))) }

func b2i(b bool) int {
	if b {
		return 1
	}
	return 0
}

func emitC(a, b float64) {
	fmt.Fprintf(out, "C %s %s %d%d%d\n", bits(a), bits(b), b2i(a < b), b2i(a > b), b2i(a == b))
}

// ---------------------------------------------------------------- floats

var specials = []float64{
	0, math.Copysign(0, -1), 1, -1, 0.5, -0.5, 1.5, -1.5, 2.5, -2.5, 0.3, -0.3, 0.49999999999999994, -0.49999999999999994,
	math.Inf(1), math.Inf(-1), math.NaN(), math.MaxFloat64, -math.MaxFloat64,
	math.SmallestNonzeroFloat64, -math.SmallestNonzeroFloat64,
	math.Float64frombits(0x000fffffffffffff), math.Float64frombits(0x0010000000000000), math.Float64frombits(0x0010000000000001),
	1 << 52, 1<<52 + 1, 1<<52 - 1, 1 << 53, 1<<53 + 2, 1<<53 - 1, -(1 << 53), 4503599627370495.5, 4503599627370496.5, 4503599627370497.5,
	1 << 62, 1 << 63, -(1 << 63), 9223372036854774784, 9223372036854777856, -9223372036854777856, -9223372036854774784, 1 << 64,
	1e-6, 9.999999999999999e-7, 1.0000000000000002e-6, 1e21, 9.999999999999999e20, 1.0000000000000001e21, 1e20, 1e22, 1e23, 1e-5, 1e-7,
	0.1, 0.2, 0.30000000000000004, 123.456, 100, 1e15, 1e16, 1e17, 123456789012345680, 5e-324, 1e-323, 2.2250738585072014e-308, 2.225073858507201e-308,
	3.141592653589793, 2.718281828459045, 1.7976931348623157e308, 8.98846567431158e307, 4.9406564584124654e-324,
}

func randFloat() float64 {
	switch rng.Intn(12) {
	case 0, 1, 2:
		return math.Float64frombits(rng.Uint64())
	case 3: // subnormal
		return math.Float64frombits(rng.Uint64()&0x800fffffffffffff | 0)
	case 4: // moderate magnitudes
		e := uint64(1023 - 40 + rng.Intn(120))
		return math.Float64frombits(rng.Uint64()&0x800fffffffffffff | e<<52)
	case 5: // small integers
		return float64(rng.Intn(2001) - 1000)
	case 6: // halves and quarters
		return float64(rng.Intn(4001)-2000) / 4
	case 7: // short decimals
		f, _ := strconv.ParseFloat(fmt.Sprintf("%d.%0*d", rng.Intn(2000)-1000, 1+rng.Intn(4), rng.Intn(10)), 64)
		return f
	case 8: // integers of any size below 2^64
		return float64(rng.Uint64()>>uint(rng.Intn(64))) * float64(1-2*rng.Intn(2))
	case 9: // few mantissa bits set, any exponent
		m := uint64(0)
		for i := 0; i < 1+rng.Intn(3); i++ {
			m |= 1 << uint(rng.Intn(52))
		}
		return math.Float64frombits(rng.Uint64()&0xfff0000000000000 | m)
	case 10: // powers of ten and neighbours
		f, _ := strconv.ParseFloat(fmt.Sprintf("1e%d", rng.Intn(640)-330), 64)
		switch rng.Intn(3) {
		case 0:
			return math.Nextafter(f, math.Inf(1))
		case 1:
			return math.Nextafter(f, math.Inf(-1))
		}
		return f
	default: // near the int64 / 2^53 boundaries
		base := []float64{1 << 53, 1 << 63, -(1 << 63), 1 << 52, 1 << 31, 1 << 32, 1 << 62}[rng.Intn(7)]
		f := base
		for i := rng.Intn(6); i > 0; i-- {
			f = math.Nextafter(f, math.Inf(1-2*rng.Intn(2)))
		}
		return f
	}
}

// exact decimal text of num * 2^e2 in the form "<digits>e<exp>"
func exactDecimal(num *big.Int, e2 int) (digits string, exp10 int) {
	n := new(big.Int).Set(num)
	if e2 >= 0 {
		n.Lsh(n, uint(e2))
		return n.String(), 0
	}
	k := -e2
	n.Mul(n, new(big.Int).Exp(big.NewInt(5), big.NewInt(int64(k)), nil))
	return n.String(), -k
}

func positional(digits string, exp10 int) string {
	if exp10 >= 0 {
		return digits + strings.Repeat("0", exp10)
	}
	k := -exp10
	if len(digits) > k {
		return digits[:len(digits)-k] + "." + digits[len(digits)-k:]
	}
	return "0." + strings.Repeat("0", k-len(digits)) + digits
}

// strings at and around the midpoint between x and the next double above it
func midpointStrings(x float64) []string {
	b := math.Float64bits(x) & 0x7fffffffffffffff
	ex := int(b >> 52)
	m := b & 0xfffffffffffff
	if ex == 2047 {
		return nil
	}
	e2 := -1074
	if ex != 0 {
		m |= 1 << 52
		e2 = ex - 1075
	}
	mid := new(big.Int).SetUint64(m)
	mid.Lsh(mid, 1).Add(mid, big.NewInt(1))
	d, e := exactDecimal(mid, e2-1)
	var res []string
	res = append(res, d+"e"+strconv.Itoa(e))
	res = append(res, d+"1e"+strconv.Itoa(e-1))
	res = append(res, d+"000000000000000000000000000001e"+strconv.Itoa(e-30))
	dm := new(big.Int)
	dm.SetString(d+"0", 10)
	dm.Sub(dm, big.NewInt(1))
	res = append(res, dm.String()+"e"+strconv.Itoa(e-1))
	if len(d) < 400 {
		res = append(res, positional(d, e))
		res = append(res, "-"+positional(d, e)+"0001")
	}
	return res
}

var fixedStrings = []string{
	"", " ", " 1", "1 ", "+", "-", ".", "+.", "-.", "e5", "E5", ".e5", "1e", "1e+", "1e-", "1E", "1e+5", "1E-5", "1e5", "+.5", "-.5", "5.", "5.e3", ".5e3",
	"0", "-0", "+0", "00", "0.0", "-0.0", "0e0", "0e999999999", "-0e-999999999", "0.0000e+5", "000001", "1.", "01.5", "1..5", "1.5.", "1.5.6", "..5",
	"1e23", "8.5e-324", "4.9e-324", "5e-324", "2.4703282292062327e-324", "2.4703282292062328e-324", "2.4703282292062329e-324", "2.47032822920623272e-324",
	"2.470328229206232720882843964341106861825299013071623822127928412503377536351043759326499181808179961898982823477228588654633283551779698981993873980053909390631503565951557022639229085839244910518443593180284993653615250031937045767824921936562366986365848075700158576926990370631192827955855133292783433840935197801553124659726357957462276646527282722005637400648549997709659947045402082816622623785739345073633900796776193057750674017632467360096895134053553745851666113422376667860416215968046191446729184030053005753084904876539171138659164623952491262365388187963623937328042389101867234849766823508986338858792562830275599565752445550725518931369083625477918694866799496832404970582102851318545139621383772282614543769341253209859132766723632812201525082038989357834836160757279348468980215393288834267392e-324",
	"2.470328229206232720882843964341106861825299013071623822127928412503377536351043759326499181808179961898982823477228588654633283551779698981993873980053909390631503565951557022639229085839244910518443593180284993653615250031937045767824921936562366986365848075700158576926990370631192827955855133292783433840935197801553124659726357957462276646527282722005637400648549997709659947045402082816622623785739345073633900796776193057750674017632467360096895134053553745851666113422376667860416215968046191446729184030053005753084904876539171138659164623952491262365388187963623937328042389101867234849766823508986338858792562830275599565752445550725518931369083625477918694866799496832404970582102851318545139621383772282614543769341253209859132766723632812201525082038989357834836160757279348468980215393288834267393e-324",
	"1.7976931348623157e308", "1.7976931348623158e308", "1.7976931348623159e308", "1.797693134862315807e308", "1.797693134862315808e308", "-1.7976931348623159e308",
	"179769313486231580793728971405303415079934132710037826936173778980444968292764750946649017977587207096330286416692887910946555547851940402630657488671505820681908902000708383676273854845817711531764475730270069855571366959622842914819860834936475292719074168444365510704342711559699508093042880177904174497791.999",
	"179769313486231580793728971405303415079934132710037826936173778980444968292764750946649017977587207096330286416692887910946555547851940402630657488671505820681908902000708383676273854845817711531764475730270069855571366959622842914819860834936475292719074168444365510704342711559699508093042880177904174497792",
	"179769313486231580793728971405303415079934132710037826936173778980444968292764750946649017977587207096330286416692887910946555547851940402630657488671505820681908902000708383676273854845817711531764475730270069855571366959622842914819860834936475292719074168444365510704342711559699508093042880177904174497792.0001",
	"179769313486231570814527423731704356798070567525844996598917476803157260780028538760589558632766878171540458953514382464234321326889464182768467546703537516986049910576551282076245490090389328944075868508455133942304583236903222948165808559332123348274797826204144723168738177180919299881250404026184124858368",
	"1e308", "1e309", "1e310", "1e311", "1e400", "-1e400", "1e-323", "1e-324", "1e-325", "1e-330", "1e-331", "1e-332", "1e-400", "1e-999", "-1e-999", "1e999", "1e+999999999999999999999",
	"1e-999999999999999999999", "1e10000", "1e9999", "1e99999", "1e100000", "1e-10000", "1e-99999", "0.1e311", "0.1e310", "0.01e312", "10e-331", "100e-332",
	"1_0", "1_0.5", "1_", "_1", "1__0", "1_.5", "1._5", "1.5_", "1.5_0", "1e_5", "1e5_", "1e5_0", "1e+_5", "1e+5_0", "1_e5", "0_1", "+1_0", "+_10", "-_1", "1_0e1_0", "0_0", "0._0", "._5", "_.5", "1_000_000.000_001", "1_23.50_0_0e+1_2",
	"0x", "0X", "0x1", "0x1p-2", "0X1P-2", "0x1p", "0x.8p1", "-0x1p-2", "+0x1p-2", "0xg", "0x_1p1", "0x1p1_0", "0x1.fffffffffffffp1023", "0x1p1024", "0b1", "0o7", "0b", "0xp1", "0x1e5", "1x", "0y1",
	"inf", "Inf", "INF", "+inf", "-inf", "infinity", "Infinity", "-infinity", "+INFINITY", "infinit", "infi", "in", "i", "infx", "infinityx", "inf ", " inf", "-Inf", "+Inf", "++inf", "-+inf", "inf1", "infinity1", "iNfInItY",
	"nan", "NaN", "NAN", "+nan", "-nan", "nan(1)", "nanx", "na", "n", "nan ", "+NaN", "-NaN", "nAn", "nan1", "nane1",
	"1e0", "1e00", "1e-0", "1e+0", "1e1e1", "1ee1", "1e1.5", "1e.5", "1f", "1d0", "1,5", "１", "1\x00", "\x001", "abc", "--1", "+-1", "-+1", "++1", "1-", "1+", "1e5+", "0.1", "0.2", "0.3", ".1", "100", "123.456", "1E+23",
	"9007199254740992", "9007199254740993", "9007199254740994", "9007199254740995", "9007199254740993.0000000000000000000000000000000000000001", "9007199254740992.9999999999999999999999999",
	"18446744073709551616", "18446744073709551615", "9223372036854775807", "9223372036854775808", "123456789012345678901234567890", "0.000000000000000000000000000001234567890123456789012345678901234567890",
	"6.02214076e23", "1.6021766208e-19", "2.2250738585072011e-308", "2.2250738585072012e-308", "2.2250738585072014e-308", "2.225073858507201e-308",
	"0.500000000000000166533453693773481063544750213623046875", "3.0000000000000004", "1.00000000000000011102230246251565404236316680908203125", "1.00000000000000011102230246251565404236316680908203124", "1.00000000000000011102230246251565404236316680908203126",
}

const junkAlphabet = "0123456789+-.eE_xXpPinfatyINFATY 0123456789..ee__--"

func main() {
	f, err := os.Create(os.Args[1])
	if err != nil {
		panic(err)
	}
	out = bufio.NewWriterSize(f, 1<<20)
	defer func() { out.Flush(); f.Close() }()

	scale := 1
	if len(os.Args) > 2 {
		scale, _ = strconv.Atoi(os.Args[2])
	}

	// ---- arithmetic, compare
	for _, a := range specials {
		for _, b := range specials {
			emitA(a, b)
			emitC(a, b)
		}
	}
	for i := 0; i < 60000*scale; i++ {
		a, b := randFloat(), randFloat()
		if rng.Intn(8) == 0 { // nearby operands: cancellation, equal exponents
			b = a
			for j := rng.Intn(5); j > 0; j-- {
				b = math.Nextafter(b, math.Inf(1-2*rng.Intn(2)))
			}
			if rng.Intn(2) == 0 {
				b = -b
			}
		}
		emitA(a, b)
		if i%2 == 0 {
			emitC(a, b)
		}
	}

	// ---- floor/ceil/round/trunc
	for _, a := range specials {
		emitU(a)
	}
	for i := -2000; i <= 2000; i++ {
		emitU(float64(i) / 4)
		emitU(math.Nextafter(float64(i)/2, math.Inf(1)))
		emitU(math.Nextafter(float64(i)/2, math.Inf(-1)))
	}
	for i := 0; i < 40000*scale; i++ {
		x := randFloat()
		if rng.Intn(3) == 0 { // exponent where the binary point is inside the mantissa
			e := uint64(1023 - 3 + rng.Intn(70))
			x = math.Float64frombits(rng.Uint64()&0x800fffffffffffff | e<<52)
		}
		emitU(x)
	}

	// ---- float64(int64)
	for _, i := range []int64{0, 1, -1, math.MaxInt64, math.MinInt64, math.MaxInt64 - 1, math.MinInt64 + 1, 1 << 53, 1<<53 + 1, 1<<53 + 2, 1<<53 + 3, -(1<<53 + 1), 1<<54 + 2, 1<<54 + 6, 1<<62 + 1, 9223372036854775295, 9223372036854775296, 9223372036854775297} {
		emitZ(i)
	}
	for i := 0; i < 30000*scale; i++ {
		v := int64(rng.Uint64()) >> uint(rng.Intn(64))
		emitZ(v)
		if i%4 == 0 {
			emitZ(int64(1)<<uint(rng.Intn(63)) + int64(rng.Intn(9)-4))
		}
	}

	// ---- format
	for _, a := range specials {
		emitF(a)
	}
	for e := -330; e <= 310; e++ {
		x, _ := strconv.ParseFloat(fmt.Sprintf("1e%d", e), 64)
		emitF(x)
		emitF(math.Nextafter(x, math.Inf(1)))
		emitF(math.Nextafter(x, math.Inf(-1)))
		emitF(-x)
	}
	for e := 0; e < 2047; e++ { // powers of two and their neighbours (asymmetric interval)
		x := math.Float64frombits(uint64(e) << 52)
		emitF(x)
		emitF(math.Float64frombits(uint64(e)<<52 + 1))
		emitF(math.Float64frombits(uint64(e)<<52 - 1))
	}
	for i := 0; i < 52; i++ {
		emitF(math.Float64frombits(1 << uint(i)))
		emitF(math.Float64frombits(1<<uint(i) + 1))
	}
	for i := 0; i < 50000*scale; i++ {
		emitF(randFloat())
	}
	for i := 0; i < 3000*scale; i++ { // integers with up to 22 digits, short decimals at many scales
		x, _ := strconv.ParseFloat(fmt.Sprintf("%de%d", rng.Intn(100000), rng.Intn(60)-30), 64)
		emitF(x)
	}

	// ---- parse
	for _, s := range fixedStrings {
		emitP(s)
	}
	for e := -340; e <= 320; e++ {
		emitP(fmt.Sprintf("1e%d", e))
		emitP(fmt.Sprintf("-9.999999999999999999999e%d", e))
		emitP(fmt.Sprintf("%d.%dE%+d", rng.Intn(100), rng.Int63(), e))
	}
	for i := 0; i < 22000*scale; i++ { // printed floats with assorted precisions
		x := randFloat()
		switch rng.Intn(5) {
		case 0:
			emitP(strconv.FormatFloat(x, 'e', rng.Intn(25), 64))
		case 1:
			emitP(strconv.FormatFloat(x, 'g', -1, 64))
		case 2:
			emitP(strconv.FormatFloat(x, 'f', -1, 64))
		case 3:
			emitP(strconv.FormatFloat(x, 'e', 16+rng.Intn(3), 64))
		default:
			emitP(strconv.FormatFloat(x, 'g', 1+rng.Intn(20), 64))
		}
	}
	for i := 0; i < 2500*scale; i++ { // exact ties between adjacent doubles, and just off them
		x := randFloat()
		if rng.Intn(4) == 0 {
			x = math.Float64frombits(rng.Uint64() & 0x001fffffffffffff) // subnormal / smallest normals
		}
		for _, s := range midpointStrings(x) {
			emitP(s)
		}
	}
	for i := 0; i < 8000*scale; i++ { // random decimal texts
		var sb strings.Builder
		if rng.Intn(4) == 0 {
			sb.WriteByte("+-"[rng.Intn(2)])
		}
		nd := 1 + rng.Intn(30)
		if rng.Intn(20) == 0 {
			nd = 1 + rng.Intn(900)
		}
		dot := rng.Intn(nd + 1)
		for j := 0; j < nd; j++ {
			if j == dot && rng.Intn(3) != 0 {
				sb.WriteByte('.')
			}
			sb.WriteByte(byte('0' + rng.Intn(10)))
			if rng.Intn(40) == 0 {
				sb.WriteByte('_')
			}
		}
		if rng.Intn(2) == 0 {
			sb.WriteByte("eE"[rng.Intn(2)])
			if rng.Intn(2) == 0 {
				sb.WriteByte("+-"[rng.Intn(2)])
			}
			fmt.Fprintf(&sb, "%d", rng.Intn(700)-(rng.Intn(2)*350))
		}
		emitP(sb.String())
	}
	for i := 0; i < 12000*scale; i++ { // junk over the float alphabet
		n := 1 + rng.Intn(9)
		b := make([]byte, n)
		for j := range b {
			b[j] = junkAlphabet[rng.Intn(len(junkAlphabet))]
		}
		emitP(string(b))
	}
	for i := 0; i < 2000*scale; i++ { // mutations of valid numbers
		s := []byte(strconv.FormatFloat(randFloat(), 'g', -1, 64))
		j := rng.Intn(len(s) + 1)
		c := junkAlphabet[rng.Intn(len(junkAlphabet))]
		switch rng.Intn(3) {
		case 0:
			s = append(s[:j], append([]byte{c}, s[j:]...)...)
		case 1:
			if j < len(s) {
				s[j] = c
			}
		default:
			if j < len(s) {
				s = append(s[:j], s[j+1:]...)
			}
		}
		emitP(string(s))
	}
}
