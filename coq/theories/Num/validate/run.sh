#!/bin/sh
# Re-runs the differential validation of JQ.Num.F64 against real Go.
# usage: run.sh [scale]   (scale 1 = about 450k checked results; needs go, coqc, ocamlfind)
set -e
HERE=$(cd "$(dirname "$0")" && pwd)
THEORIES=$(cd "$HERE/../.." && pwd)
SCALE=${1:-1}
JOBS=${JOBS:-$(nproc)}
T=$(mktemp -d)
trap 'rm -rf "$T"' EXIT
export GOFLAGS=-mod=mod GOPROXY=off GOSUMDB=off GOTOOLCHAIN=local GO111MODULE=off
cp "$HERE/gen.go" "$HERE/driver.ml" "$HERE/extract.v" "$T/"
cd "$T"
# compile private copies so that the shared tree (and its .vo files) is left untouched
mkdir -p th/Base th/Num
cp "$THEORIES/Base/Bytes.v" th/Base/ && cp "$THEORIES/Num/F64.v" th/Num/
( cd th && timeout 600 coqc -R . JQ Base/Bytes.v && timeout 600 coqc -R . JQ Num/F64.v )
timeout 600 coqc -R "$T/th" JQ extract.v >/dev/null
ocamlfind ocamlopt -O3 -package str f64.mli f64.ml driver.ml -o driver 2>/dev/null || ocamlfind ocamlopt -package str f64.mli f64.ml driver.ml -o driver
go run gen.go "$T/vectors.txt" "$SCALE"
echo "vectors: $(wc -l < vectors.txt)"
# shuffle deterministically-ish by round-robin split so every chunk has the same mix
awk -v n="$JOBS" '{ print > ("chunk." (NR % n)) }' vectors.txt
for f in chunk.*; do ./driver "$f" > "out.$f" & done
wait
grep -h MISMATCH out.chunk.* | head -40 || true
grep -h "^COUNT" out.chunk.* | awk '{ b=$NF; t=$(NF-1); k=$2; for(i=3;i<NF-1;i++) k=k" "$i; T[k]+=t; B[k]+=b } END { for (k in T) printf "%-40s compared %8d  mismatches %d\n", k, T[k], B[k] }' | sort
