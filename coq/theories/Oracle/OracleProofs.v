(* Oracle/OracleProofs.v -- theorems about the library oracles. No axioms. *)
From Coq Require Import Lia ZArith NArith ZifyN ZifyNat ZifyBool Permutation Sorted.
From JQ Require Import Base.Bytes Num.F64.
From JQ Require Import Oracle.Utf8 Oracle.Strings Oracle.Sort Oracle.Slice Oracle.Regex.

Open Scope N_scope.

(* ================================================================= Utf8, part 1 *)

Lemma decode_none : forall s, utf8_decode_one s = None -> s = [].
Proof.
  intros s H. unfold utf8_decode_one, dec_err in H.
  destruct s as [|b0 t]; [reflexivity|].
  repeat match type of H with
         | context [if ?c then _ else _] => destruct c
         | context [match ?t with [] => _ | _ :: _ => _ end] => destruct t
         end; discriminate.
Qed.

Lemma decode_width : forall s r w,
  utf8_decode_one s = Some (r, w) -> (1 <= w <= length s)%nat.
Proof.
  intros s r w H. unfold utf8_decode_one, dec_err in H.
  destruct s as [|b0 t]; [discriminate|].
  repeat match type of H with
         | context [if ?c then _ else _] => destruct c
         | context [match ?t with [] => _ | _ :: _ => _ end] => destruct t
         end; inversion H; subst; cbn [length]; lia.
Qed.

Lemma explode_aux_concat : forall fuel s,
  (length s <= fuel)%nat -> concat (explode_aux fuel s) = s.
Proof.
  induction fuel as [|f IH]; intros s Hlen.
  - destruct s; [reflexivity | cbn [length] in Hlen; lia].
  - cbn [explode_aux].
    destruct (utf8_decode_one s) as [[r w]|] eqn:Hd.
    + pose proof (decode_width _ _ _ Hd) as Hw.
      cbn [concat]. rewrite IH.
      * apply firstn_skipn.
      * rewrite skipn_length. lia.
    + apply decode_none in Hd. subst. reflexivity.
Qed.

Theorem explode_concat : forall s, concat (explode s) = s.
Proof. intros s. apply explode_aux_concat. lia. Qed.
Print Assumptions explode_concat.

(* ================================================================= Strings *)

Lemma join_nil_concat : forall l, join [] l = concat l.
Proof.
  induction l as [|p ps IH]; [reflexivity|].
  destruct ps as [|q ps'].
  - cbn. now rewrite app_nil_r.
  - change (join [] (p :: q :: ps')) with (p ++ [] ++ join [] (q :: ps')).
    rewrite IH. reflexivity.
Qed.

Lemma join_cons : forall sep p ps,
  ps <> [] -> join sep (p :: ps) = p ++ sep ++ join sep ps.
Proof. intros sep p [|q ps'] H; [congruence | reflexivity]. Qed.

Lemma join_cons_head : forall sep c p ps,
  join sep ((c :: p) :: ps) = c :: join sep (p :: ps).
Proof. intros sep c p [|q ps']; reflexivity. Qed.

Lemma split_ne_nonempty : forall sep s k, split_ne sep k s <> [].
Proof.
  intros sep. induction s as [|c t IH]; intros k; cbn [split_ne]; [discriminate|].
  destruct k as [|k'].
  - destruct (is_prefix sep (c :: t)); [discriminate|].
    destruct (split_ne sep 0 t); discriminate.
  - apply IH.
Qed.

Lemma is_prefix_length : forall p s, is_prefix p s = true -> (length p <= length s)%nat.
Proof.
  induction p as [|x p IH]; intros [|y s] H; cbn [is_prefix length] in *; try lia; try discriminate.
  apply andb_true_iff in H. destruct H as [_ H]. apply IH in H. lia.
Qed.

Lemma is_prefix_split : forall p s, is_prefix p s = true -> s = p ++ skipn (length p) s.
Proof.
  induction p as [|x p IH]; intros [|y s] H; cbn [is_prefix length skipn app] in *;
    try reflexivity; try discriminate.
  apply andb_true_iff in H. destruct H as [Hx H]. apply N.eqb_eq in Hx. subst y.
  f_equal. now apply IH.
Qed.

Lemma is_prefix_app_r : forall p a r, is_prefix p a = true -> is_prefix p (a ++ r) = true.
Proof.
  induction p as [|x p IH]; intros [|y a] r H; cbn [is_prefix app] in *;
    try reflexivity; try discriminate.
  apply andb_true_iff in H. destruct H as [Hx H]. rewrite Hx. cbn [andb]. now apply IH.
Qed.

Lemma split_ne_join : forall sep s k,
  sep <> [] -> (k <= length s)%nat -> join sep (split_ne sep k s) = skipn k s.
Proof.
  intros sep s. induction s as [|c t IH]; intros k Hsep Hk.
  - cbn [length] in Hk. assert (k = 0%nat) by lia. subst. reflexivity.
  - cbn [split_ne]. destruct k as [|k'].
    + cbn [skipn]. destruct (is_prefix sep (c :: t)) eqn:Hp.
      * pose proof (is_prefix_length _ _ Hp) as Hl.
        pose proof (is_prefix_split _ _ Hp) as Hs.
        destruct sep as [|x sep']; [congruence|].
        cbn [length pred] in *.
        rewrite join_cons by apply split_ne_nonempty.
        rewrite IH by (congruence || lia).
        cbn [skipn] in Hs. cbn [app] in *. symmetry. exact Hs.
      * specialize (IH 0%nat Hsep ltac:(lia)). cbn [skipn] in IH.
        destruct (split_ne sep 0 t) as [|p ps] eqn:Hsp.
        -- exfalso. eapply split_ne_nonempty; eauto.
        -- rewrite join_cons_head. f_equal. exact IH.
    + cbn [skipn]. apply IH; [assumption | cbn [length] in Hk; lia].
Qed.

Theorem split_join : forall s sep, join sep (split s sep) = s.
Proof.
  intros s [|x sep'].
  - cbn [split]. rewrite join_nil_concat. apply explode_concat.
  - cbn [split]. rewrite split_ne_join; [reflexivity | discriminate | lia].
Qed.
Print Assumptions split_join.

Theorem split_nonempty : forall s sep, sep <> [] -> split s sep <> [].
Proof.
  intros s [|x sep'] H; [congruence|]. cbn [split]. apply split_ne_nonempty.
Qed.
Print Assumptions split_nonempty.

Lemma occurs_nil_r : forall sep, sep <> [] -> occurs sep [] = false.
Proof. intros [|x sep'] H; [congruence | reflexivity]. Qed.

(* head piece is a prefix of what is being split, and no piece contains the separator *)
Lemma split_ne_inv : forall sep s k,
  sep <> [] ->
  (exists p ps r, split_ne sep k s = p :: ps /\ skipn k s = p ++ r) /\
  (forall piece, In piece (split_ne sep k s) -> occurs sep piece = false).
Proof.
  intros sep s. induction s as [|c t IH]; intros k Hsep.
  - cbn [split_ne]. split.
    + exists [], [], []. split; [reflexivity | now destruct k].
    + intros piece [Hp|[]]. subst. now apply occurs_nil_r.
  - cbn [split_ne]. destruct k as [|k'].
    + cbn [skipn]. destruct (is_prefix sep (c :: t)) eqn:Hp.
      * destruct (IH (pred (length sep)) Hsep) as [_ Hall]. split.
        -- exists [], (split_ne sep (pred (length sep)) t), (c :: t). split; reflexivity.
        -- intros piece [Hpc|Hin]; [subst; now apply occurs_nil_r | now apply Hall].
      * destruct (IH 0%nat Hsep) as [(p & ps & r & Hsp & Hpre) Hall].
        cbn [skipn] in Hpre. rewrite Hsp in *. split.
        -- exists (c :: p), ps, r. split; [reflexivity | now rewrite Hpre].
        -- intros piece [Hpc|Hin].
           ++ subst piece. cbn [occurs].
              rewrite (Hall p (or_introl eq_refl)). rewrite orb_false_r.
              destruct (is_prefix sep (c :: p)) eqn:Hq; [|reflexivity].
              apply (is_prefix_app_r _ _ r) in Hq. cbn [app] in Hq.
              rewrite <- Hpre in Hq. congruence.
           ++ apply Hall. now right.
    + cbn [skipn]. apply IH. assumption.
Qed.

Theorem split_no_sep : forall s sep piece,
  sep <> [] -> In piece (split s sep) -> occurs sep piece = false.
Proof.
  intros s [|x sep'] piece Hsep Hin; [congruence|].
  cbn [split] in Hin.
  destruct (split_ne_inv (x :: sep') s 0%nat Hsep) as [_ Hall]. now apply Hall.
Qed.
Print Assumptions split_no_sep.

(* ---- to_upper / to_lower (ASCII) ---- *)

Lemma is_ascii_map : forall f s,
  (forall c, c <? 128 = true -> f c <? 128 = true) ->
  is_ascii s = true -> is_ascii (map f s) = true.
Proof.
  intros f s Hf. unfold is_ascii. induction s as [|c t IH]; cbn [map forallb]; [reflexivity|].
  intros H. apply andb_true_iff in H. destruct H as [Hc Ht].
  rewrite (Hf _ Hc). cbn [andb]. now apply IH.
Qed.

Lemma upper_byte_ascii : forall c, c <? 128 = true -> upper_byte c <? 128 = true.
Proof.
  intros c H. unfold upper_byte, is_ascii_lower.
  destruct ((97 <=? c) && (c <=? 122)) eqn:E; lia.
Qed.
Lemma lower_byte_ascii : forall c, c <? 128 = true -> lower_byte c <? 128 = true.
Proof.
  intros c H. unfold lower_byte, is_ascii_upper.
  destruct ((65 <=? c) && (c <=? 90)) eqn:E; lia.
Qed.

Lemma upper_byte_idem : forall c, upper_byte (upper_byte c) = upper_byte c.
Proof.
  intros c. unfold upper_byte, is_ascii_lower.
  destruct ((97 <=? c) && (c <=? 122)) eqn:E.
  - destruct ((97 <=? c - 32) && (c - 32 <=? 122)) eqn:E2; lia.
  - now rewrite E.
Qed.
Lemma lower_byte_idem : forall c, lower_byte (lower_byte c) = lower_byte c.
Proof.
  intros c. unfold lower_byte, is_ascii_upper.
  destruct ((65 <=? c) && (c <=? 90)) eqn:E.
  - destruct ((65 <=? c + 32) && (c + 32 <=? 90)) eqn:E2; lia.
  - now rewrite E.
Qed.
Lemma lower_upper_byte : forall c, lower_byte (upper_byte c) = lower_byte c.
Proof.
  intros c. unfold lower_byte, upper_byte, is_ascii_upper, is_ascii_lower.
  destruct ((97 <=? c) && (c <=? 122)) eqn:E.
  - destruct ((65 <=? c - 32) && (c - 32 <=? 90)) eqn:E2;
      destruct ((65 <=? c) && (c <=? 90)) eqn:E3; lia.
  - reflexivity.
Qed.
Lemma upper_lower_byte : forall c, upper_byte (lower_byte c) = upper_byte c.
Proof.
  intros c. unfold lower_byte, upper_byte, is_ascii_upper, is_ascii_lower.
  destruct ((65 <=? c) && (c <=? 90)) eqn:E.
  - destruct ((97 <=? c + 32) && (c + 32 <=? 122)) eqn:E2;
      destruct ((97 <=? c) && (c <=? 122)) eqn:E3; lia.
  - reflexivity.
Qed.

Definition is_ascii_letter (c : N) : bool := is_ascii_upper c || is_ascii_lower c.

Theorem to_upper_supported : forall s, is_ascii s = true -> exists b, to_upper s = CaseOk b.
Proof. intros s H. unfold to_upper. rewrite H. eauto. Qed.
Theorem to_lower_supported : forall s, is_ascii s = true -> exists b, to_lower s = CaseOk b.
Proof. intros s H. unfold to_lower. rewrite H. eauto. Qed.

Theorem to_upper_length : forall s b, to_upper s = CaseOk b -> length b = length s.
Proof.
  intros s b. unfold to_upper. destruct (is_ascii s); [|discriminate].
  intros H. inversion H. apply map_length.
Qed.
Theorem to_lower_length : forall s b, to_lower s = CaseOk b -> length b = length s.
Proof.
  intros s b. unfold to_lower. destruct (is_ascii s); [|discriminate].
  intros H. inversion H. apply map_length.
Qed.

Theorem to_upper_idempotent : forall s b, to_upper s = CaseOk b -> to_upper b = CaseOk b.
Proof.
  intros s b. unfold to_upper. destruct (is_ascii s) eqn:Ha; [|discriminate].
  intros H. inversion H. subst b.
  rewrite (is_ascii_map _ _ upper_byte_ascii Ha). f_equal.
  rewrite map_map. apply map_ext. apply upper_byte_idem.
Qed.
Theorem to_lower_idempotent : forall s b, to_lower s = CaseOk b -> to_lower b = CaseOk b.
Proof.
  intros s b. unfold to_lower. destruct (is_ascii s) eqn:Ha; [|discriminate].
  intros H. inversion H. subst b.
  rewrite (is_ascii_map _ _ lower_byte_ascii Ha). f_equal.
  rewrite map_map. apply map_ext. apply lower_byte_idem.
Qed.

Theorem to_lower_to_upper : forall s b, to_upper s = CaseOk b -> to_lower b = to_lower s.
Proof.
  intros s b. unfold to_upper, to_lower. destruct (is_ascii s) eqn:Ha; [|discriminate].
  intros H. inversion H. subst b.
  rewrite (is_ascii_map _ _ upper_byte_ascii Ha). f_equal.
  rewrite map_map. apply map_ext. apply lower_upper_byte.
Qed.
Theorem to_upper_to_lower : forall s b, to_lower s = CaseOk b -> to_upper b = to_upper s.
Proof.
  intros s b. unfold to_upper, to_lower. destruct (is_ascii s) eqn:Ha; [|discriminate].
  intros H. inversion H. subst b.
  rewrite (is_ascii_map _ _ lower_byte_ascii Ha). f_equal.
  rewrite map_map. apply map_ext. apply upper_lower_byte.
Qed.

(* identity on non-letters, bytewise *)
Theorem to_upper_nth : forall s b i c,
  to_upper s = CaseOk b -> nth_error s i = Some c ->
  nth_error b i = Some (upper_byte c) /\
  (is_ascii_lower c = false -> upper_byte c = c).
Proof.
  intros s b i c. unfold to_upper. destruct (is_ascii s); [|discriminate].
  intros H Hn. inversion H. split.
  - now apply map_nth_error.
  - intros Hl. unfold upper_byte. now rewrite Hl.
Qed.
Theorem to_lower_nth : forall s b i c,
  to_lower s = CaseOk b -> nth_error s i = Some c ->
  nth_error b i = Some (lower_byte c) /\
  (is_ascii_upper c = false -> lower_byte c = c).
Proof.
  intros s b i c. unfold to_lower. destruct (is_ascii s); [|discriminate].
  intros H Hn. inversion H. split.
  - now apply map_nth_error.
  - intros Hl. unfold lower_byte. now rewrite Hl.
Qed.
Theorem case_identity_no_letters : forall s,
  is_ascii s = true -> forallb (fun c => negb (is_ascii_letter c)) s = true ->
  to_upper s = CaseOk s /\ to_lower s = CaseOk s.
Proof.
  intros s Ha Hn. unfold to_upper, to_lower. rewrite Ha.
  assert (map upper_byte s = s /\ map lower_byte s = s) as [H1 H2].
  { clear Ha. induction s as [|c t IH]; [split; reflexivity|].
    cbn [forallb] in Hn. apply andb_true_iff in Hn. destruct Hn as [Hc Ht].
    destruct (IH Ht) as [I1 I2]. cbn [map]. rewrite I1, I2.
    unfold is_ascii_letter in Hc. apply negb_true_iff in Hc. apply orb_false_iff in Hc.
    destruct Hc as [Hu Hl]. unfold upper_byte, lower_byte. rewrite Hu, Hl. split; reflexivity. }
  now rewrite H1, H2.
Qed.
Print Assumptions to_upper_length.
Print Assumptions to_upper_idempotent.
Print Assumptions to_lower_idempotent.
Print Assumptions to_lower_to_upper.
Print Assumptions case_identity_no_letters.

(* ================================================================= Sort *)

Section SortProofs.
  Context {A : Type} (le : A -> A -> bool).

  Definition le_total := forall a b, le a b = true \/ le b a = true.
  Definition le_trans := forall a b c, le a b = true -> le b c = true -> le a c = true.
  Let R := fun a b => le a b = true.

  Lemma insert_perm : forall x l, Permutation (insert_sorted le x l) (x :: l).
  Proof.
    intros x. induction l as [|y l IH]; cbn [insert_sorted]; [reflexivity|].
    destruct (le x y); [reflexivity|].
    transitivity (y :: x :: l); [now apply perm_skip | apply perm_swap].
  Qed.

  Theorem stable_sort_perm : forall l, Permutation (stable_sort le l) l.
  Proof.
    induction l as [|x l IH]; cbn [stable_sort]; [reflexivity|].
    transitivity (x :: stable_sort le l); [apply insert_perm | now apply perm_skip].
  Qed.

  Lemma Forall_insert : forall (P : A -> Prop) x l,
    P x -> Forall P l -> Forall P (insert_sorted le x l).
  Proof.
    intros P x. induction l as [|y l IH]; intros Hx Hl; cbn [insert_sorted].
    - now constructor.
    - inversion Hl; subst. destruct (le x y); repeat constructor; auto.
  Qed.

  Lemma insert_strongly_sorted : le_total -> le_trans -> forall x l,
    StronglySorted R l -> StronglySorted R (insert_sorted le x l).
  Proof.
    intros Htot Htr x. induction l as [|y l IH]; intros Hs; cbn [insert_sorted].
    - repeat constructor.
    - inversion Hs as [|y' l' Hsl Hall]; subst.
      destruct (le x y) eqn:Hxy.
      + constructor; [assumption|]. constructor; [exact Hxy|].
        eapply Forall_impl; [|exact Hall]. intros z Hz. unfold R in *. eapply Htr; eauto.
      + constructor; [now apply IH|].
        apply Forall_insert; [|assumption].
        unfold R. destruct (Htot x y) as [H|H]; [congruence | exact H].
  Qed.

  Theorem stable_sort_sorted : le_total -> le_trans -> forall l,
    StronglySorted R (stable_sort le l).
  Proof.
    intros Htot Htr. induction l as [|x l IH]; cbn [stable_sort]; [constructor|].
    now apply insert_strongly_sorted.
  Qed.

  Corollary stable_sort_locally_sorted : le_total -> le_trans -> forall l,
    Sorted R (stable_sort le l).
  Proof. intros Htot Htr l. apply StronglySorted_Sorted. now apply stable_sort_sorted. Qed.

  Lemma insert_head : forall x l, Forall (R x) l -> insert_sorted le x l = x :: l.
  Proof.
    intros x [|y l] H; cbn [insert_sorted]; [reflexivity|].
    inversion H as [|? ? Hy _]; subst. unfold R in Hy. now rewrite Hy.
  Qed.

  Lemma Forall_filter : forall (P : A -> Prop) p l, Forall P l -> Forall P (filter p l).
  Proof.
    intros P p. induction l as [|y l IH]; intros H; cbn [filter]; [constructor|].
    inversion H; subst. destruct (p y); [constructor|]; auto.
  Qed.

  Lemma filter_insert : le_trans -> forall p x l,
    StronglySorted R l ->
    filter p (insert_sorted le x l) =
    if p x then insert_sorted le x (filter p l) else filter p l.
  Proof.
    intros Htr p x. induction l as [|y l IH]; intros Hs.
    - cbn [insert_sorted filter]. destruct (p x); reflexivity.
    - inversion Hs as [|y' l' Hsl Hall]; subst.
      cbn [insert_sorted]. destruct (le x y) eqn:Hxy.
      + cbn [filter]. destruct (p x) eqn:Hpx; [|reflexivity].
        symmetry. apply (insert_head x (if p y then y :: filter p l else filter p l)).
        assert (Forall (R x) l) as Hxl.
        { eapply Forall_impl; [|exact Hall]. intros z Hz. unfold R in *. eapply Htr; eauto. }
        destruct (p y); [constructor; [exact Hxy|]|]; now apply Forall_filter.
      + cbn [filter]. destruct (p y) eqn:Hpy.
        * rewrite (IH Hsl). destruct (p x); [|reflexivity].
          cbn [insert_sorted]. now rewrite Hxy.
        * apply (IH Hsl).
  Qed.

  (* stability, strongest form: a stable sort commutes with taking ANY sub-list *)
  Theorem stable_sort_filter : le_total -> le_trans -> forall p l,
    filter p (stable_sort le l) = stable_sort le (filter p l).
  Proof.
    intros Htot Htr p. induction l as [|x l IH]; [reflexivity|].
    cbn [stable_sort filter].
    rewrite filter_insert by (assumption || now apply stable_sort_sorted).
    rewrite IH. destruct (p x); reflexivity.
  Qed.

  Lemma stable_sort_all_le : forall l,
    (forall x y, In x l -> In y l -> le x y = true) -> stable_sort le l = l.
  Proof.
    induction l as [|x l IH]; intros H; [reflexivity|].
    cbn [stable_sort]. rewrite IH by (intros; apply H; now right).
    apply insert_head. apply Forall_forall. intros y Hy. apply H; [now left | now right].
  Qed.

  (* stability, classical form: the elements equivalent to a keep their relative order *)
  Theorem stable_sort_stable : le_total -> le_trans -> forall a l,
    filter (fun b => le a b && le b a) (stable_sort le l) =
    filter (fun b => le a b && le b a) l.
  Proof.
    intros Htot Htr a l. rewrite stable_sort_filter by assumption.
    apply stable_sort_all_le. intros x y Hx Hy.
    apply filter_In in Hx. apply filter_In in Hy.
    destruct Hx as [_ Hx]. destruct Hy as [_ Hy].
    apply andb_true_iff in Hx. apply andb_true_iff in Hy.
    eapply Htr; [apply Hx | apply Hy].
  Qed.

  (* "sorted + permutation + stable" pins the result down: any other function with the
     same three properties computes the same list *)
End SortProofs.

Print Assumptions stable_sort_perm.
Print Assumptions stable_sort_sorted.
Print Assumptions stable_sort_filter.
Print Assumptions stable_sort_stable.

(* ---- cmp.Compare on float64 is a total preorder ---- *)

Definition frank (x : float) : Z * Z * Z :=
  match x with
  | S754_nan => (-3, 0, 0)%Z
  | S754_infinity true => (-2, 0, 0)%Z
  | S754_infinity false => (2, 0, 0)%Z
  | S754_zero _ => (0, 0, 0)%Z
  | S754_finite true m e => (-1, - e, - Zpos m)%Z
  | S754_finite false m e => (1, e, Zpos m)%Z
  end.

Definition lexle (a b : Z * Z * Z) : Prop :=
  let '(a1, a2, a3) := a in
  let '(b1, b2, b3) := b in
  (a1 < b1 \/ (a1 = b1 /\ (a2 < b2 \/ (a2 = b2 /\ a3 <= b3))))%Z.

Definition le_float (a b : float) : bool := le_of_cmp cmp_float a b.

Lemma le_float_rank : forall a b, le_float a b = true <-> lexle (frank a) (frank b).
Proof.
  intros a b. unfold le_float, le_of_cmp, cmp_float, f_is_nan, f_cmp, SFcompare, frank, lexle.
  destruct a as [sa|sa| |sa ma ea], b as [sb|sb| |sb mb eb];
    try destruct sa; try destruct sb;
    try (split; [intros _; lia | intros _; reflexivity]);
    try (split; [intros Hx; discriminate Hx | intros Hx; exfalso; lia]);
    change (Pos.compare_cont Eq ma mb) with (Pos.compare ma mb);
    destruct (Z.compare_spec ea eb) as [He|He|He]; destruct (Pos.compare_spec ma mb) as [Hm|Hm|Hm];
    cbn [CompOpp];
    (split; [intros Hx; try discriminate Hx; lia | intros Hx; try reflexivity; exfalso; lia]).
Qed.

Theorem cmp_float_total : le_total le_float.
Proof.
  intros a b. rewrite !le_float_rank.
  destruct (frank a) as [[a1 a2] a3], (frank b) as [[b1 b2] b3]. unfold lexle. lia.
Qed.

Theorem cmp_float_trans : le_trans le_float.
Proof.
  intros a b c. rewrite !le_float_rank.
  destruct (frank a) as [[a1 a2] a3], (frank b) as [[b1 b2] b3], (frank c) as [[c1 c2] c3].
  unfold lexle. lia.
Qed.

(* NaN sorts first and equals only NaN; -0 and +0 are equal *)
Theorem cmp_float_nan_least : forall b, le_float S754_nan b = true.
Proof. intros b. unfold le_float, le_of_cmp, cmp_float. cbn. destruct (f_is_nan b); reflexivity. Qed.
Theorem cmp_float_zeros : forall s1 s2, cmp_float (S754_zero s1) (S754_zero s2) = Eq.
Proof. reflexivity. Qed.

Theorem sort_floats_perm : forall l, Permutation (sort_floats l) l.
Proof. intros l. apply stable_sort_perm. Qed.
Theorem sort_floats_sorted : forall l,
  StronglySorted (fun a b => le_float a b = true) (sort_floats l).
Proof. intros l. apply (stable_sort_sorted le_float cmp_float_total cmp_float_trans). Qed.
Theorem sort_floats_stable : forall a l,
  filter (fun b => le_float a b && le_float b a) (sort_floats l) =
  filter (fun b => le_float a b && le_float b a) l.
Proof. intros a l. apply (stable_sort_stable le_float cmp_float_total cmp_float_trans). Qed.

Print Assumptions cmp_float_total.
Print Assumptions cmp_float_trans.
Print Assumptions sort_floats_sorted.
Print Assumptions sort_floats_stable.

(* sort_by_key / sort_by_float: the induced orders are total preorders too *)
Lemma bytes_cmp_le_rank : forall a b,
  le_of_cmp bytes_cmp a b = true <-> bytes_cmp a b <> Gt.
Proof. intros a b. unfold le_of_cmp. destruct (bytes_cmp a b); split; congruence. Qed.

Lemma bytes_cmp_refl : forall a, bytes_cmp a a = Eq.
Proof. induction a as [|x a IH]; cbn [bytes_cmp]; [reflexivity|]. now rewrite N.compare_refl. Qed.

Lemma bytes_cmp_antisym : forall a b, bytes_cmp b a = CompOpp (bytes_cmp a b).
Proof.
  induction a as [|x a IH]; intros [|y b]; cbn [bytes_cmp]; try reflexivity.
  rewrite (N.compare_antisym x y). destruct (N.compare x y); cbn [CompOpp]; auto.
Qed.

Lemma bytes_le_trans : forall a b c,
  bytes_cmp a b <> Gt -> bytes_cmp b c <> Gt -> bytes_cmp a c <> Gt.
Proof.
  induction a as [|x a IH]; intros [|y b] [|z c]; cbn [bytes_cmp]; try congruence.
  destruct (N.compare_spec x y); destruct (N.compare_spec y z); destruct (N.compare_spec x z);
    try congruence; try lia; subst; eauto.
Qed.

Theorem sort_by_key_order : forall A (key : A -> bytes),
  le_total (fun a b => le_of_cmp bytes_cmp (key a) (key b)) /\
  le_trans (fun a b => le_of_cmp bytes_cmp (key a) (key b)).
Proof.
  intros A key. split.
  - intros a b. rewrite !bytes_cmp_le_rank. rewrite (bytes_cmp_antisym (key a) (key b)).
    destruct (bytes_cmp (key a) (key b)); cbn [CompOpp]; [left|left|right]; congruence.
  - intros a b c. rewrite !bytes_cmp_le_rank. apply bytes_le_trans.
Qed.

Theorem sort_by_float_order : forall A (key : A -> float),
  le_total (fun a b => le_of_cmp cmp_float (key a) (key b)) /\
  le_trans (fun a b => le_of_cmp cmp_float (key a) (key b)).
Proof.
  intros A key. split.
  - intros a b. apply (cmp_float_total (key a) (key b)).
  - intros a b c. apply (cmp_float_trans (key a) (key b) (key c)).
Qed.

Theorem sort_by_key_spec : forall A (key : A -> bytes) (l : list A),
  Permutation (sort_by_key key l) l /\
  StronglySorted (fun a b => bytes_cmp (key a) (key b) <> Gt) (sort_by_key key l) /\
  (forall p, filter p (sort_by_key key l) = sort_by_key key (filter p l)).
Proof.
  intros A key l. destruct (sort_by_key_order A key) as [Ht Htr]. repeat split.
  - apply stable_sort_perm.
  - pose proof (stable_sort_sorted _ Ht Htr l) as H.
    unfold sort_by_key. induction H as [|x m Hs IH Hall]; constructor; auto.
    eapply Forall_impl; [|exact Hall]. intros z Hz. now apply bytes_cmp_le_rank.
  - intros p. now apply stable_sort_filter.
Qed.

Theorem sort_by_float_spec : forall A (key : A -> float) (l : list A),
  Permutation (sort_by_float key l) l /\
  StronglySorted (fun a b => le_float (key a) (key b) = true) (sort_by_float key l) /\
  (forall p, filter p (sort_by_float key l) = sort_by_float key (filter p l)).
Proof.
  intros A key l. destruct (sort_by_float_order A key) as [Ht Htr]. repeat split.
  - apply stable_sort_perm.
  - apply (stable_sort_sorted _ Ht Htr l).
  - intros p. now apply stable_sort_filter.
Qed.
Print Assumptions sort_by_key_spec.
Print Assumptions sort_by_float_spec.

(* ================================================================= Utf8, part 2 *)

(* the shape of `for i, r := range s`: every entry is one decoding step, the next entry starts
   exactly `width` bytes later *)
Inductive runes_chain : nat -> bytes -> list (nat * bytes) -> Prop :=
| rc_nil : forall off, runes_chain off [] []
| rc_cons : forall off s r w rest,
    utf8_decode_one s = Some (r, w) ->
    runes_chain (off + w)%nat (skipn w s) rest ->
    runes_chain off s ((off, utf8_encode r) :: rest).

Lemma runes_aux_chain : forall fuel off s,
  (length s <= fuel)%nat -> runes_chain off s (runes_aux fuel off s).
Proof.
  induction fuel as [|f IH]; intros off s Hlen.
  - destruct s; [constructor | cbn [length] in Hlen; lia].
  - cbn [runes_aux]. destruct (utf8_decode_one s) as [[r w]|] eqn:Hd.
    + pose proof (decode_width _ _ _ Hd) as Hw.
      econstructor; [exact Hd|]. apply IH. rewrite skipn_length. lia.
    + apply decode_none in Hd. subst. constructor.
Qed.

Lemma runes_chain_sorted : forall off s l,
  runes_chain off s l ->
  Forall (fun o => (off <= o)%nat) (map fst l) /\ StronglySorted lt (map fst l).
Proof.
  intros off s l H. induction H as [off|off s r w rest Hd Hc [IHall IHs]].
  - split; constructor.
  - pose proof (decode_width _ _ _ Hd) as Hw. cbn [map fst]. split.
    + constructor; [lia|]. eapply Forall_impl; [|exact IHall]. cbn beta. intros; lia.
    + constructor; [assumption|]. eapply Forall_impl; [|exact IHall]. cbn beta. intros; lia.
Qed.

Theorem runes_offsets : forall s,
  runes_chain 0 s (runes s) /\
  (forall o p rest, runes s = (o, p) :: rest -> o = 0%nat) /\
  StronglySorted lt (map fst (runes s)).
Proof.
  intros s. assert (runes_chain 0 s (runes s)) as Hc by (apply runes_aux_chain; lia).
  split; [exact Hc|]. split.
  - intros o p rest He. rewrite He in Hc. inversion Hc. reflexivity.
  - apply (runes_chain_sorted _ _ _ Hc).
Qed.
Print Assumptions runes_offsets.

(* the pieces of `runes` are the re-encoded runes of `explode`'s pieces: same count *)
Lemma runes_explode_length : forall s, length (runes s) = length (explode s).
Proof.
  intros s. unfold runes, explode. generalize 0%nat as off. generalize (length s) as fuel.
  intros fuel. revert s. induction fuel as [|f IH]; intros s off; [reflexivity|].
  cbn [runes_aux explode_aux]. destruct (utf8_decode_one s) as [[r w]|]; [|reflexivity].
  cbn [length]. now rewrite IH.
Qed.

Ltac split_if :=
  match goal with
  | |- context [if ?c then _ else _] =>
      lazymatch c with
      | context [if _ then _ else _] => fail
      | _ => let E := fresh "E" in destruct c eqn:E; try (exfalso; lia)
      end
  end.

Theorem utf8_encode_decode : forall r t,
  valid_scalar r = true ->
  utf8_decode_one (utf8_encode r ++ t) = Some (r, length (utf8_encode r)).
Proof.
  intros r t Hv. unfold valid_scalar, is_surrogate in Hv.
  unfold utf8_encode, is_surrogate, utf8_replacement.
  destruct (r <? 128) eqn:E1.
  { cbn [app utf8_decode_one length]. now rewrite E1. }
  destruct (r <? 2048) eqn:E2.
  { cbn [app length]. unfold utf8_decode_one, dec_err, is_cont.
    repeat split_if; f_equal; f_equal; lia. }
  destruct ((55296 <=? r) && (r <=? 57343)) eqn:E3; [exfalso; lia|].
  destruct (r <? 65536) eqn:E4.
  { cbn [app length]. unfold utf8_decode_one, dec_err, is_cont, in_range. cbv zeta.
    repeat split_if; f_equal; f_equal; lia. }
  destruct (r <=? 1114111) eqn:E5; [|exfalso; lia].
  cbn [app length]. unfold utf8_decode_one, dec_err, is_cont, in_range. cbv zeta.
  repeat split_if; f_equal; f_equal; lia.
Qed.
Print Assumptions utf8_encode_decode.

(* ================================================================= Slice *)

Lemma round_class_ge : forall cls sz, sz <= round_class cls sz.
Proof.
  induction cls as [|c r IH]; intros sz; cbn [round_class]; [lia|].
  destruct (sz <=? c) eqn:E; [lia | apply IH].
Qed.

Lemma round_class_mono : forall cls a b, a <= b -> round_class cls a <= round_class cls b.
Proof.
  induction cls as [|c r IH]; intros a b Hab; cbn [round_class]; [lia|].
  destruct (a <=? c) eqn:Ea; destruct (b <=? c) eqn:Eb; try lia.
  - pose proof (round_class_ge r b). lia.
  - now apply IH.
Qed.

Lemma roundupsize_ge : forall sz, sz <= roundupsize sz.
Proof.
  intros sz. unfold roundupsize, max_small_size, malloc_header_size,
    min_size_for_malloc_header, page_size.
  destruct (sz <=? 32768 - 8) eqn:E.
  - destruct (512 <? sz) eqn:E2.
    + pose proof (round_class_ge size_classes (sz + 8)). lia.
    + pose proof (round_class_ge size_classes sz). lia.
  - lia.
Qed.

Lemma grow_loop_first : forall f newcap newlen,
  newlen <= newcap + (newcap + 768) / 4 ->
  grow_loop f newcap newlen = newcap + (newcap + 768) / 4.
Proof.
  intros [|f] newcap newlen H; cbn [grow_loop]; [reflexivity|].
  destruct (newlen <=? newcap + (newcap + 768) / 4) eqn:E; [reflexivity | lia].
Qed.

Lemma nextslicecap_spec : forall n,
  nextslicecap (n + 1) n =
  if n =? 0 then 1 else if n <? 256 then n + n else n + (n + 768) / 4.
Proof.
  intros n. unfold nextslicecap.
  destruct (n =? 0) eqn:E0.
  - assert (n = 0) by lia. subst. reflexivity.
  - destruct (n + n <? n + 1) eqn:E1; [lia|].
    destruct (n <? 256) eqn:E2; [reflexivity|].
    apply grow_loop_first. lia.
Qed.

Lemma nextslicecap_gt : forall n, n < nextslicecap (n + 1) n.
Proof.
  intros n. rewrite nextslicecap_spec.
  destruct (n =? 0) eqn:E0; [lia|]. destruct (n <? 256) eqn:E2; lia.
Qed.

Theorem grow_cap_N_gt : forall n, n < grow_cap_N n.
Proof.
  intros n. unfold grow_cap_N.
  pose proof (nextslicecap_gt n) as H1.
  pose proof (roundupsize_ge (nextslicecap (n + 1) n * 8)) as H2.
  set (c := nextslicecap (n + 1) n) in *. set (u := roundupsize (c * 8)) in *. lia.
Qed.

(* an append to a full slice always makes room *)
Theorem grow_cap_gt : forall oldcap, (oldcap < grow_cap oldcap)%nat.
Proof.
  intros oldcap. unfold grow_cap. pose proof (grow_cap_N_gt (N.of_nat oldcap)). lia.
Qed.
Print Assumptions grow_cap_gt.

Lemma round_class_512 : round_class size_classes 512 = 512.
Proof. vm_compute. reflexivity. Qed.
Lemma round_class_32768 : round_class size_classes 32768 = 32768.
Proof. vm_compute. reflexivity. Qed.

Lemma roundupsize_mono : forall a b, a <= b -> roundupsize a <= roundupsize b.
Proof.
  intros a b Hab. unfold roundupsize, max_small_size, malloc_header_size,
    min_size_for_malloc_header, page_size.
  pose proof round_class_512 as R1. pose proof round_class_32768 as R2.
  destruct (a <=? 32768 - 8) eqn:Ea; destruct (b <=? 32768 - 8) eqn:Eb; try lia.
  - destruct (512 <? a) eqn:Ha; destruct (512 <? b) eqn:Hb; try lia.
    + pose proof (round_class_mono size_classes (a + 8) (b + 8) ltac:(lia)).
      pose proof (round_class_ge size_classes (a + 8)). lia.
    + pose proof (round_class_mono size_classes a 512 ltac:(lia)).
      pose proof (round_class_ge size_classes (b + 8)). lia.
    + pose proof (round_class_mono size_classes a b ltac:(lia)). lia.
  - destruct (512 <? a) eqn:Ha.
    + pose proof (round_class_mono size_classes (a + 8) 32768 ltac:(lia)). lia.
    + pose proof (round_class_mono size_classes a 512 ltac:(lia)). lia.
Qed.

Theorem grow_cap_N_mono : forall a b, a <= b -> grow_cap_N a <= grow_cap_N b.
Proof.
  intros a b Hab. unfold grow_cap_N.
  apply N.div_le_mono; [lia|]. apply roundupsize_mono.
  rewrite !nextslicecap_spec.
  destruct (a =? 0) eqn:A0; destruct (b =? 0) eqn:B0;
    destruct (a <? 256) eqn:A1; destruct (b <? 256) eqn:B1; lia.
Qed.

Theorem grow_cap_mono : forall a b, (a <= b)%nat -> (grow_cap a <= grow_cap b)%nat.
Proof.
  intros a b Hab. unfold grow_cap.
  pose proof (grow_cap_N_mono (N.of_nat a) (N.of_nat b) ltac:(lia)). lia.
Qed.
Print Assumptions grow_cap_mono.

(* ================================================================= Regex *)

(* ---- structural equality is sound, so deduplication does not change acceptance ---- *)

Lemma list_eqb_eq : forall A (eqb : A -> A -> bool),
  (forall x y, eqb x y = true -> x = y) ->
  forall a b, list_eqb eqb a b = true -> a = b.
Proof.
  intros A eqb Hsound. induction a as [|x a IH]; intros [|y b] H; cbn [list_eqb] in H;
    try discriminate; [reflexivity|].
  apply andb_true_iff in H. destruct H as [H1 H2]. f_equal; auto.
Qed.

Lemma citem_eqb_eq : forall a b, citem_eqb a b = true -> a = b.
Proof.
  intros [l1 h1|n1 k1] [l2 h2|n2 k2] H; cbn [citem_eqb] in H; try discriminate.
  - apply andb_true_iff in H. destruct H as [H1 H2].
    apply N.eqb_eq in H1. apply N.eqb_eq in H2. now subst.
  - apply andb_true_iff in H. destruct H as [H1 H2].
    apply Bool.eqb_prop in H1. subst. destruct k1, k2; try discriminate; reflexivity.
Qed.

Lemma opt_N_eqb_eq : forall a b, opt_N_eqb a b = true -> a = b.
Proof.
  intros [x|] [y|] H; cbn [opt_N_eqb] in H; try discriminate; [|reflexivity].
  apply N.eqb_eq in H. now subst.
Qed.

Lemma re_eqb_eq : forall a b, re_eqb a b = true -> a = b.
Proof.
  induction a as [|c| |n1 i1| | |a1 IH1 a2 IH2|a1 IH1 a2 IH2|a1 IH1|a1 IH1|a1 IH1 m1 x1];
    intros b H; destruct b; cbn [re_eqb] in H; try discriminate; try reflexivity;
    repeat match goal with
           | Hc : _ && _ = true |- _ => apply andb_true_iff in Hc; destruct Hc
           end.
  - apply N.eqb_eq in H. now subst.
  - match goal with Hb : Bool.eqb _ _ = true |- _ => apply Bool.eqb_prop in Hb end.
    match goal with Hl : list_eqb _ _ _ = true |- _ =>
      apply (list_eqb_eq _ _ citem_eqb_eq) in Hl end. now subst.
  - f_equal; auto.
  - f_equal; auto.
  - f_equal; auto.
  - f_equal; auto.
  - match goal with Hn : (_ =? _) = true |- _ => apply N.eqb_eq in Hn end.
    match goal with Ho : opt_N_eqb _ _ = true |- _ => apply opt_N_eqb_eq in Ho end.
    subst. f_equal; auto.
Qed.

Lemma existsb_add_state : forall f k l,
  existsb f (add_state k l) = f k || existsb f l.
Proof.
  intros f k l. unfold add_state.
  destruct (existsb (list_eqb re_eqb k) l) eqn:E; [|reflexivity].
  apply existsb_exists in E. destruct E as (k' & Hin & Heq).
  apply (list_eqb_eq _ _ re_eqb_eq) in Heq. subst k'.
  destruct (f k) eqn:Hf; [|reflexivity].
  cbn [orb]. apply existsb_exists. eauto.
Qed.

Lemma existsb_dedup : forall f l, existsb f (dedup l) = existsb f l.
Proof.
  intros f. induction l as [|k l IH]; [reflexivity|].
  unfold dedup in *. cbn [fold_right existsb]. rewrite existsb_add_state. now rewrite IH.
Qed.

Lemma existsb_flat_map : forall A B (f : B -> bool) (g : A -> list B) l,
  existsb f (flat_map g l) = existsb (fun x => existsb f (g x)) l.
Proof.
  intros A B f g. induction l as [|x l IH]; [reflexivity|].
  cbn [flat_map existsb]. rewrite existsb_app. now rewrite IH.
Qed.

Lemma existsb_orb : forall A (f g : A -> bool) l,
  existsb (fun x => f x || g x) l = existsb f l || existsb g l.
Proof.
  intros A f g. induction l as [|x l IH]; [reflexivity|].
  cbn [existsb]. rewrite IH.
  destruct (f x), (g x), (existsb f l), (existsb g l); reflexivity.
Qed.

(* ---- what `search` computes, in terms of single states ----
   accepts_seq st k cs: the state k (a sequence of regexps) matches some PREFIX of cs. *)
Fixpoint accepts_seq (st : bool) (k : list re) (cs : list N) : bool :=
  match cs with
  | [] => nullable_seq st true k
  | c :: cs' =>
      nullable_seq st false k ||
      existsb (fun k' => accepts_seq false k' cs') (pd_seq st c k)
  end.

(* some suffix of cs has a prefix matched by r (st: cs starts at the start of the text) *)
Fixpoint search_fresh (r : re) (st : bool) (cs : list N) : bool :=
  accepts_seq st [r] cs ||
  match cs with
  | [] => false
  | _ :: cs' => search_fresh r false cs'
  end.

Theorem search_spec : forall r cs st states,
  search r st states cs =
  existsb (fun k => accepts_seq st k cs) states || search_fresh r st cs.
Proof.
  intros r. induction cs as [|c cs IH]; intros st states.
  - cbn [search search_fresh accepts_seq]. rewrite existsb_add_state.
    destruct (nullable_seq st true [r]), (existsb (nullable_seq st true) states); reflexivity.
  - cbn [search search_fresh]. rewrite IH. rewrite existsb_dedup, existsb_flat_map.
    rewrite !existsb_add_state.
    change (existsb (fun k => accepts_seq st k (c :: cs)) states)
      with (existsb (fun k => nullable_seq st false k ||
                              existsb (fun k' => accepts_seq false k' cs) (pd_seq st c k)) states).
    rewrite existsb_orb.
    change (accepts_seq st [r] (c :: cs))
      with (nullable_seq st false [r] ||
            existsb (fun k' => accepts_seq false k' cs) (pd_seq st c [r])).
    destruct (nullable_seq st false [r]),
             (existsb (nullable_seq st false) states),
             (existsb (fun k' => accepts_seq false k' cs) (pd_seq st c [r])),
             (existsb (fun x => existsb (fun k' => accepts_seq false k' cs) (pd_seq st c x)) states),
             (search_fresh r false cs); reflexivity.
Qed.
Print Assumptions search_spec.

Corollary search_initial : forall r cs, search r true [] cs = search_fresh r true cs.
Proof. intros r cs. rewrite search_spec. reflexivity. Qed.

(* ---- literal patterns ---- *)

Fixpoint chain (l : list re) : re :=
  match l with
  | [] => Eps
  | x :: l' => match l' with [] => x | _ :: _ => Cat x (chain l') end
  end.

Definition lit_state (q : list N) : list re :=
  match q with
  | [] => []
  | _ :: _ => [chain (map Chr q)]
  end.

Lemma pd_seq_lit : forall st c c' q',
  pd_seq st c (lit_state (c' :: q')) = if c =? c' then [lit_state q'] else [].
Proof.
  intros st c c' q'. destruct q' as [|d q''].
  - cbn [lit_state map chain pd_seq pd nullable]. destruct (c =? c'); reflexivity.
  - cbn [lit_state map chain pd_seq pd nullable andb]. destruct (c =? c'); reflexivity.
Qed.

Lemma nullable_lit : forall st en c' q', nullable_seq st en (lit_state (c' :: q')) = false.
Proof. intros st en c' [|d q'']; reflexivity. Qed.

Lemma accepts_lit : forall cs q st, accepts_seq st (lit_state q) cs = is_prefix q cs.
Proof.
  induction cs as [|c cs IH]; intros q st.
  - destruct q as [|c' q']; [reflexivity|].
    cbn [accepts_seq is_prefix]. apply nullable_lit.
  - destruct q as [|c' q']; [reflexivity|].
    cbn [accepts_seq is_prefix]. rewrite nullable_lit, pd_seq_lit. cbn [orb].
    rewrite (N.eqb_sym c' c). destruct (c =? c'); [|reflexivity].
    cbn [existsb andb]. rewrite IH. apply orb_false_r.
Qed.

Lemma accepts_chain : forall p st cs,
  accepts_seq st [chain (map Chr p)] cs = is_prefix p cs.
Proof.
  intros [|c' q'] st cs.
  - destruct cs; reflexivity.
  - apply (accepts_lit cs (c' :: q') st).
Qed.

Lemma search_fresh_literal : forall p cs st,
  search_fresh (chain (map Chr p)) st cs = occurs p cs.
Proof.
  intros p. induction cs as [|c cs IH]; intros st; cbn [search_fresh occurs];
    rewrite accepts_chain; [reflexivity|]. now rewrite IH.
Qed.

(* ---- the parser on a pattern of ASCII letters / digits ---- *)

Lemma chain_snoc : forall init last, chain (init ++ [last]) = fold_right Cat last init.
Proof.
  induction init as [|a init IH]; intros last; [reflexivity|].
  cbn [app fold_right]. cbn [chain].
  destruct (init ++ [last]) as [|y m] eqn:E.
  - destruct init; discriminate.
  - rewrite <- E. now rewrite IH.
Qed.

Lemma fold_left_cat_rev : forall l x,
  fold_left (fun acc y => Cat y acc) (rev l) x = fold_right Cat x l.
Proof.
  induction l as [|a l IH]; intros x; [reflexivity|].
  cbn [rev]. rewrite fold_left_app. cbn [fold_left fold_right]. now rewrite IH.
Qed.

Lemma mk_cat_rev : forall l, mk_cat (rev l) = chain l.
Proof.
  intros l. induction l as [|last init _] using rev_ind; [reflexivity|].
  rewrite rev_app_distr. cbn [rev app mk_cat].
  rewrite fold_left_cat_rev. symmetry. apply chain_snoc.
Qed.

Lemma parse_atoms : forall l cur last prod,
  parse_tokens (map TAtom l) [] cur [] last prod = POk (mk_cat (rev l ++ cur)) prod.
Proof.
  induction l as [|a l IH]; intros cur last prod.
  - reflexivity.
  - cbn [map parse_tokens]. rewrite IH. cbn [rev]. now rewrite <- app_assoc.
Qed.

Lemma alnum_props : forall b, is_alnum b = true ->
  b < 128 /\ b <> 40 /\ b <> 41 /\ b <> 124 /\ b <> 94 /\ b <> 36 /\ b <> 46 /\ b <> 42 /\
  b <> 43 /\ b <> 63 /\ b <> 91 /\ b <> 123 /\ b <> 92.
Proof.
  intros b H. unfold is_alnum, is_ascii_digit, is_ascii_upper, is_ascii_lower in H. lia.
Qed.

Lemma next_rune_ascii : forall b t, b < 128 -> next_rune (b :: t) = Some (b, t).
Proof.
  intros b t H. unfold next_rune, utf8_decode_one.
  destruct (b <? 128) eqn:E; [|lia].
  destruct ((b =? rune_error) && Nat.eqb 1 1) eqn:E2; [unfold rune_error in E2; lia|].
  reflexivity.
Qed.

Lemma tokenize_alnum : forall p fuel,
  forallb is_alnum p = true -> (length p < fuel)%nat ->
  tokenize fuel p = map (fun c => TAtom (Chr c)) p.
Proof.
  induction p as [|b t IH]; intros fuel Hal Hlen.
  - destruct fuel; [cbn [length] in Hlen; lia | reflexivity].
  - destruct fuel as [|f]; [lia|].
    cbn [forallb] in Hal. apply andb_true_iff in Hal. destruct Hal as [Hb Ht].
    destruct (alnum_props b Hb) as (H0 & H1 & H2 & H3 & H4 & H5 & H6 & H7 & H8 & H9 & H10 & H11 & H12).
    cbn [tokenize map].
    rewrite (proj2 (N.eqb_neq b 40) H1), (proj2 (N.eqb_neq b 41) H2),
            (proj2 (N.eqb_neq b 124) H3), (proj2 (N.eqb_neq b 94) H4),
            (proj2 (N.eqb_neq b 36) H5), (proj2 (N.eqb_neq b 46) H6),
            (proj2 (N.eqb_neq b 42) H7), (proj2 (N.eqb_neq b 43) H8),
            (proj2 (N.eqb_neq b 63) H9), (proj2 (N.eqb_neq b 91) H10),
            (proj2 (N.eqb_neq b 123) H11), (proj2 (N.eqb_neq b 92) H12).
    rewrite (next_rune_ascii b t H0). f_equal. apply IH; [assumption | cbn [length] in Hlen; lia].
Qed.

Lemma parse_pattern_alnum : forall p,
  forallb is_alnum p = true -> parse_pattern p = POk (chain (map Chr p)) 1.
Proof.
  intros p Hal. unfold parse_pattern.
  rewrite (tokenize_alnum p (S (length p)) Hal ltac:(lia)).
  rewrite <- (map_map Chr TAtom). rewrite parse_atoms. rewrite app_nil_r.
  now rewrite mk_cat_rev.
Qed.

(* ---- code points of the subject versus its bytes, for an ASCII needle ---- *)

Lemma decode_ascii : forall b t, b < 128 -> utf8_decode_one (b :: t) = Some (b, 1%nat).
Proof. intros b t H. unfold utf8_decode_one. destruct (b <? 128) eqn:E; [reflexivity | lia]. Qed.

Lemma decode_high : forall b0 t r w,
  128 <= b0 -> utf8_decode_one (b0 :: t) = Some (r, w) ->
  128 <= r /\ forallb (fun b => 128 <=? b) (firstn (pred w) t) = true.
Proof.
  intros b0 t r w Hb H. unfold utf8_decode_one, dec_err, is_cont, in_range, rune_error in H.
  cbv zeta in H.
  repeat match type of H with
         | context [if ?c then _ else _] =>
             lazymatch c with
             | context [if _ then _ else _] => fail
             | _ => let E := fresh "E" in destruct c eqn:E
             end
         | context [match ?t with [] => _ | _ :: _ => _ end] => destruct t
         end; inversion H; subst; cbn [pred firstn forallb]; split; try reflexivity; try lia;
    repeat (apply andb_true_iff; split); try reflexivity; lia.
Qed.

Lemma is_prefix_high : forall p r t, forallb (fun c => c <? 128) p = true -> p <> [] ->
  128 <= r -> is_prefix p (r :: t) = false.
Proof.
  intros [|x p] r t Hp Hne Hr; [congruence|].
  cbn [forallb] in Hp. apply andb_true_iff in Hp. destruct Hp as [Hx _].
  cbn [is_prefix]. destruct (x =? r) eqn:E; [lia | reflexivity].
Qed.

Lemma occurs_skip_high : forall p k t,
  forallb (fun c => c <? 128) p = true -> p <> [] ->
  forallb (fun b => 128 <=? b) (firstn k t) = true ->
  occurs p t = occurs p (skipn k t).
Proof.
  intros p. induction k as [|k IH]; intros t Hp Hne Hk; [reflexivity|].
  destruct t as [|b t]; [reflexivity|].
  cbn [firstn forallb] in Hk. apply andb_true_iff in Hk. destruct Hk as [Hb Hk].
  cbn [skipn occurs]. rewrite is_prefix_high by (assumption || lia). cbn [orb]. now apply IH.
Qed.

Lemma is_prefix_code_points : forall p fuel s,
  forallb (fun c => c <? 128) p = true -> (length s <= fuel)%nat ->
  is_prefix p (code_points_aux fuel s) = is_prefix p s.
Proof.
  induction p as [|x p IH]; intros fuel s Hp Hlen; [reflexivity|].
  cbn [forallb] in Hp. apply andb_true_iff in Hp. destruct Hp as [Hx Hp].
  destruct s as [|b t].
  - destruct fuel; reflexivity.
  - destruct fuel as [|f]; [cbn [length] in Hlen; lia|].
    cbn [code_points_aux]. destruct (b <? 128) eqn:Eb.
    + rewrite decode_ascii by lia. cbn [skipn is_prefix]. f_equal.
      apply IH; [assumption | cbn [length] in Hlen; lia].
    + destruct (utf8_decode_one (b :: t)) as [[r w]|] eqn:Hd.
      * destruct (decode_high b t r w ltac:(lia) Hd) as [Hr _].
        cbn [is_prefix]. destruct (x =? r) eqn:E1; destruct (x =? b) eqn:E2; try lia; reflexivity.
      * apply decode_none in Hd. discriminate.
Qed.

Lemma occurs_code_points : forall p fuel s,
  forallb (fun c => c <? 128) p = true -> (length s <= fuel)%nat ->
  occurs p (code_points_aux fuel s) = occurs p s.
Proof.
  intros p. destruct p as [|x p'] eqn:Ep.
  { intros fuel s _ _. destruct (code_points_aux fuel s), s; reflexivity. }
  rewrite <- Ep. assert (p <> []) as Hne by (subst; discriminate). clear Ep.
  induction fuel as [|f IH]; intros s Hp Hlen.
  - destruct s; [reflexivity | cbn [length] in Hlen; lia].
  - destruct s as [|b t]; [reflexivity|].
    pose proof (is_prefix_code_points p (S f) (b :: t) Hp Hlen) as Hpre.
    cbn [code_points_aux] in *. destruct (b <? 128) eqn:Eb.
    + rewrite decode_ascii in * by lia. cbn [skipn] in *. cbn [occurs]. rewrite Hpre.
      f_equal. apply IH; [assumption | cbn [length] in Hlen; lia].
    + destruct (utf8_decode_one (b :: t)) as [[r w]|] eqn:Hd.
      * destruct (decode_high b t r w ltac:(lia) Hd) as [Hr Hcont].
        pose proof (decode_width _ _ _ Hd) as Hw.
        cbn [occurs]. rewrite Hpre. f_equal.
        destruct w as [|w']; [lia|]. cbn [skipn pred] in *.
        rewrite IH by (assumption || (rewrite skipn_length; cbn [length] in Hlen; lia)).
        symmetry. now apply occurs_skip_high.
      * apply decode_none in Hd. discriminate.
Qed.

Lemma alnum_ascii : forall p, forallb is_alnum p = true -> forallb (fun c => c <? 128) p = true.
Proof.
  induction p as [|b t IH]; [reflexivity|]. cbn [forallb]. intros H.
  apply andb_true_iff in H. destruct H as [Hb Ht].
  destruct (alnum_props b Hb) as [H0 _]. rewrite (IH Ht).
  destruct (b <? 128) eqn:E; [reflexivity | lia].
Qed.

Lemma wfb_chain_chr : forall p, wfb (chain (map Chr p)) = true.
Proof.
  induction p as [|c [|d q] IH]; try reflexivity.
  change (wfb (Cat (Chr c) (chain (map Chr (d :: q)))) = true). cbn [wfb]. exact IH.
Qed.

(* a pattern made only of ASCII letters and digits matches exactly the subjects that contain it *)
Theorem regex_literal : forall p s,
  forallb is_alnum p = true ->
  N.of_nat (length p) <= max_pattern_len ->
  regex_match p s = RxMatch (occurs p s).
Proof.
  intros p s Hal Hlen. unfold regex_match, max_pattern_len, max_size_budget in *.
  destruct (1000 <? N.of_nat (length p)) eqn:E1; [lia|].
  rewrite (parse_pattern_alnum p Hal).
  destruct (3000000 <=? 1 * (8 * N.of_nat (length p) + 16)) eqn:E2; [lia|].
  rewrite wfb_chain_chr. cbn [negb].
  f_equal. rewrite search_initial, search_fresh_literal.
  unfold code_points. apply occurs_code_points; [now apply alnum_ascii | lia].
Qed.
Print Assumptions regex_literal.

(* ================================================================= Regex: matcher vs declarative semantics *)

(* ---- declarative semantics: matches r pre w post  =  r matches the code points w when the
   text is pre ++ w ++ post (the context is needed for ^ and $) ---- *)

Definition nilb {A} (l : list A) : bool := match l with [] => true | _ :: _ => false end.

Section Iter.
  Variable P : list N -> list N -> list N -> Prop.
  (* the words ws are matched one after the other *)
  Fixpoint iter (pre : list N) (ws : list (list N)) (post : list N) : Prop :=
    match ws with
    | [] => True
    | w1 :: ws' => P pre w1 (concat ws' ++ post) /\ iter (pre ++ w1) ws' post
    end.
End Iter.

Fixpoint matches (r : re) (pre w post : list N) : Prop :=
  match r with
  | Eps => w = []
  | Chr c => w = [c]
  | Any => exists c, w = [c] /\ c <> 10
  | Cls neg items => exists c, w = [c] /\ cls_match neg items c = true
  | Bol => w = [] /\ pre = []
  | Eol => w = [] /\ post = []
  | Cat a b =>
      exists w1 w2, w = w1 ++ w2 /\ matches a pre w1 (w2 ++ post) /\ matches b (pre ++ w1) w2 post
  | Alt a b => matches a pre w post \/ matches b pre w post
  | Star a => exists ws, iter (matches a) pre ws post /\ w = concat ws
  | Plus a => exists ws, ws <> [] /\ iter (matches a) pre ws post /\ w = concat ws
  | Rep a mn mx =>
      exists ws, iter (matches a) pre ws post /\ w = concat ws /\
                 mn <= N.of_nat (length ws) /\
                 match mx with Some m => N.of_nat (length ws) <= m | None => True end
  end.

(* a state of the matcher: a sequence of regexps *)
Fixpoint mseq (k : list re) (pre w post : list N) : Prop :=
  match k with
  | [] => w = []
  | r :: k' =>
      exists w1 w2, w = w1 ++ w2 /\ matches r pre w1 (w2 ++ post) /\ mseq k' (pre ++ w1) w2 post
  end.

Lemma concat_repeat_nil : forall (j : nat) (rest : list (list N)),
  concat (repeat [] j ++ rest) = concat rest.
Proof. induction j as [|j IH]; intros rest; [reflexivity|]. cbn [repeat app concat]. apply IH. Qed.

Lemma iter_pad : forall (P : list N -> list N -> list N -> Prop) pre j rest post,
  P pre [] (concat rest ++ post) -> iter P pre rest post ->
  iter P pre (repeat [] j ++ rest) post.
Proof.
  intros P pre j rest post H0 Hr. induction j as [|j IH]; [exact Hr|].
  cbn [repeat app iter]. rewrite concat_repeat_nil, app_nil_r. split; assumption.
Qed.

Lemma nullable_sound : forall r pre post,
  wfb r = true -> nullable (nilb pre) (nilb post) r = true -> matches r pre [] post.
Proof.
  induction r as [|c| |n1 i1| | |a IHa b IHb|a IHa b IHb|a IHa|a IHa|a IHa mn mx];
    intros pre post Hwf Hn; cbn [nullable wfb matches] in *; try discriminate.
  - reflexivity.
  - split; [reflexivity|]. now destruct pre.
  - split; [reflexivity|]. now destruct post.
  - apply andb_true_iff in Hwf. destruct Hwf as [Hwa Hwb].
    apply andb_true_iff in Hn. destruct Hn as [Hna Hnb].
    exists [], []. split; [reflexivity|]. cbn [app]. rewrite app_nil_r. split; auto.
  - apply andb_true_iff in Hwf. destruct Hwf as [Hwa Hwb].
    apply orb_true_iff in Hn. destruct Hn as [Hna|Hnb]; [left|right]; auto.
  - exists []. split; [exact I | reflexivity].
  - exists [[]]. split; [discriminate|]. split; [|reflexivity].
    cbn [iter concat app]. split; [auto | exact I].
  - apply andb_true_iff in Hwf. destruct Hwf as [Hwa Hwm].
    destruct (mn =? 0) eqn:E0.
    + exists []. split; [exact I|]. split; [reflexivity|]. cbn [length]. split; [lia|].
      destruct mx; [lia | exact I].
    + cbn [orb] in Hn. exists (repeat [] (N.to_nat mn) ++ []).
      split; [|split; [|split]].
      * apply iter_pad; [|exact I]. cbn [concat app]. auto.
      * now rewrite concat_repeat_nil.
      * rewrite app_nil_r, repeat_length. lia.
      * rewrite app_nil_r, repeat_length. destruct mx; [lia | exact I].
Qed.

Lemma mseq_app_inv : forall k1 k2 pre w post,
  mseq (k1 ++ k2) pre w post ->
  exists w1 w2, w = w1 ++ w2 /\ mseq k1 pre w1 (w2 ++ post) /\ mseq k2 (pre ++ w1) w2 post.
Proof.
  induction k1 as [|r k1 IH]; intros k2 pre w post H.
  - exists [], w. cbn [app mseq]. rewrite app_nil_r. auto.
  - cbn [app mseq] in H. destruct H as (wa & wb & Hw & Hr & Hk).
    destruct (IH _ _ _ _ Hk) as (wb1 & wb2 & Hwb & H1 & H2).
    exists (wa ++ wb1), wb2. subst. split; [now rewrite app_assoc|]. split.
    + cbn [mseq]. exists wa, wb1. split; [reflexivity|]. rewrite <- app_assoc in Hr. auto.
    + now rewrite app_assoc.
Qed.

Lemma mseq_single : forall b pre w post, mseq [b] pre w post -> matches b pre w post.
Proof.
  intros b pre w post (w1 & w2 & Hw & Hm & He). cbn [mseq] in He. subst.
  now rewrite app_nil_r.
Qed.

Lemma snoc_assoc : forall (pre : list N) c w, (pre ++ [c]) ++ w = pre ++ c :: w.
Proof. intros. now rewrite <- app_assoc. Qed.

Lemma pd_sound : forall r pre c w post k,
  wfb r = true -> In k (pd (nilb pre) c r) -> mseq k (pre ++ [c]) w post ->
  matches r pre (c :: w) post.
Proof.
  induction r as [|d| |n1 i1| | |a IHa b IHb|a IHa b IHb|a IHa|a IHa|a IHa mn mx];
    intros pre c w post k Hwf Hin Hm; cbn [pd wfb matches] in *; try contradiction.
  - destruct (c =? d) eqn:E; [|contradiction]. destruct Hin as [<-|[]].
    cbn [mseq] in Hm. subst. apply N.eqb_eq in E. now subst.
  - destruct (c =? 10) eqn:E; [contradiction|]. destruct Hin as [<-|[]].
    cbn [mseq] in Hm. subst. exists c. split; [reflexivity | lia].
  - destruct (cls_match n1 i1 c) eqn:E; [|contradiction]. destruct Hin as [<-|[]].
    cbn [mseq] in Hm. subst. exists c. auto.
  - apply andb_true_iff in Hwf. destruct Hwf as [Hwa Hwb].
    apply in_app_or in Hin. destruct Hin as [Hin|Hin].
    + apply in_map_iff in Hin. destruct Hin as (k0 & <- & Hk0).
      apply mseq_app_inv in Hm. destruct Hm as (w1 & w2 & -> & H1 & H2).
      apply mseq_single in H2. rewrite snoc_assoc in H2.
      exists (c :: w1), w2. split; [reflexivity|]. split; [|exact H2].
      eapply IHa; eauto.
    + destruct (nullable (nilb pre) false a) eqn:En; [|contradiction].
      exists [], (c :: w). split; [reflexivity|]. rewrite app_nil_r. split.
      * apply nullable_sound; [assumption|]. exact En.
      * eapply IHb; eauto.
  - apply andb_true_iff in Hwf. destruct Hwf as [Hwa Hwb].
    apply in_app_or in Hin. destruct Hin as [Hin|Hin]; [left; eapply IHa | right; eapply IHb]; eauto.
  - apply in_map_iff in Hin. destruct Hin as (k0 & <- & Hk0).
    apply mseq_app_inv in Hm. destruct Hm as (w1 & w2 & -> & H1 & H2).
    apply mseq_single in H2. cbn [matches] in H2. destruct H2 as (ws & Hit & ->).
    exists ((c :: w1) :: ws). split; [|reflexivity]. cbn [iter]. split.
    + eapply IHa; eauto.
    + now rewrite snoc_assoc in Hit.
  - apply in_map_iff in Hin. destruct Hin as (k0 & <- & Hk0).
    apply mseq_app_inv in Hm. destruct Hm as (w1 & w2 & -> & H1 & H2).
    apply mseq_single in H2. cbn [matches] in H2. destruct H2 as (ws & Hit & ->).
    exists ((c :: w1) :: ws). split; [discriminate|]. split; [|reflexivity]. cbn [iter]. split.
    + eapply IHa; eauto.
    + now rewrite snoc_assoc in Hit.
  - apply andb_true_iff in Hwf. destruct Hwf as [Hwa Hwm].
    destruct (match mx with Some m => m =? 0 | None => false end) eqn:Emx; [contradiction|].
    apply in_map_iff in Hin. destruct Hin as (k0 & <- & Hk0).
    apply mseq_app_inv in Hm. destruct Hm as (w1 & w2 & -> & H1 & H2).
    apply mseq_single in H2. cbn [matches] in H2.
    destruct H2 as (ws & Hit & -> & Hmin & Hmax).
    rewrite snoc_assoc in Hit.
    pose proof (IHa pre c w1 (concat ws ++ post) k0 Hwa Hk0 H1) as Ha.
    set (j := if nullable (nilb pre) false a
              then N.to_nat (mn - 1 - N.of_nat (length ws)) else 0%nat).
    exists (repeat [] j ++ (c :: w1) :: ws). split; [|split; [|split]].
    + destruct (nullable (nilb pre) false a) eqn:En.
      * apply iter_pad.
        -- apply nullable_sound; [assumption|]. exact En.
        -- cbn [iter]. auto.
      * subst j. cbn [repeat app iter]. auto.
    + rewrite concat_repeat_nil. reflexivity.
    + rewrite app_length, repeat_length. cbn [length]. subst j.
      destruct (nullable (nilb pre) false a); lia.
    + rewrite app_length, repeat_length. cbn [length]. subst j.
      destruct mx as [m|]; [|exact I]. cbn [opt_pred option_map] in Hmax.
      destruct (nullable (nilb pre) false a); lia.
Qed.

Lemma nullable_seq_sound : forall k pre post,
  forallb wfb k = true -> nullable_seq (nilb pre) (nilb post) k = true -> mseq k pre [] post.
Proof.
  induction k as [|r k IH]; intros pre post Hwf Hn; [reflexivity|].
  cbn [forallb] in Hwf. apply andb_true_iff in Hwf. destruct Hwf as [Hwr Hwk].
  unfold nullable_seq in Hn. cbn [forallb] in Hn. apply andb_true_iff in Hn. destruct Hn as [Hnr Hnk].
  cbn [mseq]. exists [], []. split; [reflexivity|]. cbn [app]. rewrite app_nil_r.
  split; [now apply nullable_sound | now apply IH].
Qed.

Lemma pd_seq_sound : forall k pre c w post k',
  forallb wfb k = true -> In k' (pd_seq (nilb pre) c k) -> mseq k' (pre ++ [c]) w post ->
  mseq k pre (c :: w) post.
Proof.
  induction k as [|r k IH]; intros pre c w post k' Hwf Hin Hm; cbn [pd_seq] in Hin; [contradiction|].
  cbn [forallb] in Hwf. apply andb_true_iff in Hwf. destruct Hwf as [Hwr Hwk].
  apply in_app_or in Hin. destruct Hin as [Hin|Hin].
  - apply in_map_iff in Hin. destruct Hin as (x & <- & Hx).
    apply mseq_app_inv in Hm. destruct Hm as (w1 & w2 & -> & H1 & H2).
    cbn [mseq]. exists (c :: w1), w2. split; [reflexivity|]. split.
    + eapply pd_sound; eauto.
    + now rewrite snoc_assoc in H2.
  - destruct (nullable (nilb pre) false r) eqn:En; [|contradiction].
    cbn [mseq]. exists [], (c :: w). split; [reflexivity|]. rewrite app_nil_r. split.
    + apply nullable_sound; [assumption | exact En].
    + eapply IH; eauto.
Qed.

Lemma forallb_app_true : forall A (f : A -> bool) l1 l2,
  forallb f l1 = true -> forallb f l2 = true -> forallb f (l1 ++ l2) = true.
Proof. intros. rewrite forallb_app. now apply andb_true_iff. Qed.

Lemma pd_wf : forall r st c k, wfb r = true -> In k (pd st c r) -> forallb wfb k = true.
Proof.
  induction r as [|d| |n1 i1| | |a IHa b IHb|a IHa b IHb|a IHa|a IHa|a IHa mn mx];
    intros st c k Hwf Hin; cbn [pd wfb] in *; try contradiction.
  - destruct (c =? d); [|contradiction]. destruct Hin as [<-|[]]. reflexivity.
  - destruct (c =? 10); [contradiction|]. destruct Hin as [<-|[]]. reflexivity.
  - destruct (cls_match n1 i1 c); [|contradiction]. destruct Hin as [<-|[]]. reflexivity.
  - apply andb_true_iff in Hwf. destruct Hwf as [Hwa Hwb].
    apply in_app_or in Hin. destruct Hin as [Hin|Hin].
    + apply in_map_iff in Hin. destruct Hin as (k0 & <- & Hk0).
      apply forallb_app_true; [eapply IHa; eauto|]. cbn [forallb]. now rewrite Hwb.
    + destruct (nullable st false a); [|contradiction]. eapply IHb; eauto.
  - apply andb_true_iff in Hwf. destruct Hwf as [Hwa Hwb].
    apply in_app_or in Hin. destruct Hin as [Hin|Hin]; [eapply IHa | eapply IHb]; eauto.
  - apply in_map_iff in Hin. destruct Hin as (k0 & <- & Hk0).
    apply forallb_app_true; [eapply IHa; eauto|]. cbn [forallb wfb]. now rewrite Hwf.
  - apply in_map_iff in Hin. destruct Hin as (k0 & <- & Hk0).
    apply forallb_app_true; [eapply IHa; eauto|]. cbn [forallb wfb]. now rewrite Hwf.
  - apply andb_true_iff in Hwf. destruct Hwf as [Hwa Hwm].
    destruct (match mx with Some m => m =? 0 | None => false end) eqn:Emx; [contradiction|].
    apply in_map_iff in Hin. destruct Hin as (k0 & <- & Hk0).
    apply forallb_app_true; [eapply IHa; eauto|]. cbn [forallb wfb]. rewrite Hwa. cbn [andb].
    rewrite andb_true_r. destruct mx as [m|]; [|reflexivity]. cbn [opt_pred option_map].
    destruct (nullable st false a); lia.
Qed.

Lemma pd_seq_wf : forall k st c k',
  forallb wfb k = true -> In k' (pd_seq st c k) -> forallb wfb k' = true.
Proof.
  induction k as [|r k IH]; intros st c k' Hwf Hin; cbn [pd_seq] in Hin; [contradiction|].
  cbn [forallb] in Hwf. apply andb_true_iff in Hwf. destruct Hwf as [Hwr Hwk].
  apply in_app_or in Hin. destruct Hin as [Hin|Hin].
  - apply in_map_iff in Hin. destruct Hin as (x & <- & Hx).
    apply forallb_app_true; [eapply pd_wf; eauto | assumption].
  - destruct (nullable st false r); [|contradiction]. eapply IH; eauto.
Qed.

Lemma nilb_snoc : forall (pre : list N) c, nilb (pre ++ [c]) = false.
Proof. intros [|x pre] c; reflexivity. Qed.

Lemma accepts_sound : forall cs k pre,
  forallb wfb k = true -> accepts_seq (nilb pre) k cs = true ->
  exists w rest, cs = w ++ rest /\ mseq k pre w rest.
Proof.
  induction cs as [|c cs IH]; intros k pre Hwf Hacc; cbn [accepts_seq] in Hacc.
  - exists [], []. split; [reflexivity|]. now apply (nullable_seq_sound k pre []).
  - apply orb_true_iff in Hacc. destruct Hacc as [Hn|Hex].
    + exists [], (c :: cs). split; [reflexivity|]. now apply (nullable_seq_sound k pre (c :: cs)).
    + apply existsb_exists in Hex. destruct Hex as (k' & Hin & Hacc').
      rewrite <- (nilb_snoc pre c) in Hacc'.
      destruct (IH k' (pre ++ [c]) (pd_seq_wf _ _ _ _ Hwf Hin) Hacc') as (w & rest & -> & Hm).
      exists (c :: w), rest. split; [reflexivity|]. eapply pd_seq_sound; eauto.
Qed.

Lemma search_fresh_sound : forall cs r pre,
  wfb r = true -> search_fresh r (nilb pre) cs = true ->
  exists p2 w post, cs = p2 ++ w ++ post /\ matches r (pre ++ p2) w post.
Proof.
  induction cs as [|c cs IH]; intros r pre Hwf H; cbn [search_fresh] in H;
    apply orb_true_iff in H; destruct H as [H|H]; try discriminate.
  - destruct (accepts_sound [] [r] pre) as (w & rest & He & Hm); [cbn; now rewrite Hwf | exact H |].
    exists [], w, rest. split; [exact He|]. rewrite app_nil_r. now apply mseq_single.
  - destruct (accepts_sound (c :: cs) [r] pre) as (w & rest & He & Hm); [cbn; now rewrite Hwf | exact H |].
    exists [], w, rest. split; [exact He|]. rewrite app_nil_r. now apply mseq_single.
  - rewrite <- (nilb_snoc pre c) in H.
    destruct (IH r (pre ++ [c]) Hwf H) as (p2 & w & post & -> & Hm).
    exists (c :: p2), w, post. split; [reflexivity|]. now rewrite snoc_assoc in Hm.
Qed.

(* no false positives: when the search says "match", some substring of the text really matches r *)
Theorem search_sound : forall r cs,
  wfb r = true -> search r true [] cs = true ->
  exists pre w post, cs = pre ++ w ++ post /\ matches r pre w post.
Proof.
  intros r cs Hwf H. rewrite search_initial in H.
  destruct (search_fresh_sound cs r [] Hwf H) as (p2 & w & post & He & Hm).
  exists p2, w, post. auto.
Qed.

Theorem regex_match_sound : forall p s,
  regex_match p s = RxMatch true ->
  exists r prod pre w post,
    parse_pattern p = POk r prod /\
    code_points s = pre ++ w ++ post /\ matches r pre w post.
Proof.
  intros p s H. unfold regex_match in H.
  destruct (max_pattern_len <? N.of_nat (length p)); [discriminate|].
  destruct (parse_pattern p) as [r prod| |] eqn:Hp; try discriminate.
  destruct (max_size_budget <=? prod * (8 * N.of_nat (length p) + 16)); [discriminate|].
  destruct (wfb r) eqn:Hwf; cbn [negb] in H; [|discriminate].
  inversion H as [Hs].
  destruct (search_sound r (code_points s) Hwf Hs) as (pre & w & post & He & Hm).
  exists r, prod, pre, w, post. auto.
Qed.
Print Assumptions regex_match_sound.

(* ---- completeness: no false negatives ---- *)

Lemma mseq_app : forall k1 k2 pre w1 w2 post,
  mseq k1 pre w1 (w2 ++ post) -> mseq k2 (pre ++ w1) w2 post ->
  mseq (k1 ++ k2) pre (w1 ++ w2) post.
Proof.
  induction k1 as [|r k1 IH]; intros k2 pre w1 w2 post H1 H2.
  - cbn [mseq] in H1. subst. rewrite app_nil_r in H2. exact H2.
  - cbn [mseq] in H1. destruct H1 as (wa & wb & -> & Hr & Hk).
    cbn [app mseq]. exists wa, (wb ++ w2). split; [now rewrite app_assoc|]. split.
    + now rewrite <- app_assoc.
    + apply IH; [exact Hk|]. now rewrite app_assoc in H2.
Qed.

Lemma mseq_single_intro : forall b pre w post, matches b pre w post -> mseq [b] pre w post.
Proof.
  intros b pre w post H. cbn [mseq]. exists w, []. rewrite app_nil_r. cbn [app]. auto.
Qed.

Lemma iter_nil_head : forall (P : list N -> list N -> list N -> Prop) pre ws post,
  ws <> [] -> iter P pre ws post -> concat ws = [] -> P pre [] post.
Proof.
  intros P pre [|w1 ws'] post Hne Hit Hc; [congruence|].
  cbn [concat] in Hc. apply app_eq_nil in Hc. destruct Hc as [-> Hc].
  cbn [iter] in Hit. destruct Hit as [H _]. now rewrite Hc in H.
Qed.

Lemma nullable_complete : forall r pre post,
  matches r pre [] post -> nullable (nilb pre) (nilb post) r = true.
Proof.
  induction r as [|c| |n1 i1| | |a IHa b IHb|a IHa b IHb|a IHa|a IHa|a IHa mn mx];
    intros pre post H; cbn [nullable matches] in *.
  - reflexivity.
  - discriminate.
  - destruct H as (c & Hc & _). discriminate.
  - destruct H as (c & Hc & _). discriminate.
  - destruct H as [_ ->]. reflexivity.
  - destruct H as [_ ->]. reflexivity.
  - destruct H as (w1 & w2 & Hw & Ha & Hb). symmetry in Hw. apply app_eq_nil in Hw.
    destruct Hw as [-> ->]. cbn [app] in Ha. rewrite app_nil_r in Hb.
    rewrite (IHa _ _ Ha), (IHb _ _ Hb). reflexivity.
  - destruct H as [H|H]; [rewrite (IHa _ _ H) | rewrite (IHb _ _ H)];
      [reflexivity | apply orb_true_r].
  - reflexivity.
  - destruct H as (ws & Hne & Hit & Hc). apply IHa.
    eapply iter_nil_head; eauto.
  - destruct H as (ws & Hit & Hc & Hmin & _).
    destruct (mn =? 0) eqn:E0; [reflexivity|]. cbn [orb]. apply IHa.
    eapply iter_nil_head; eauto. destruct ws; [cbn [length] in Hmin; lia | discriminate].
Qed.

(* the first non-empty word of an iteration *)
Lemma iter_first : forall (P : list N -> list N -> list N -> Prop) ws pre c w post,
  iter P pre ws post -> concat ws = c :: w ->
  exists (e : nat) w1 ws',
    length ws = (e + S (length ws'))%nat /\ w = w1 ++ concat ws' /\
    P pre (c :: w1) (concat ws' ++ post) /\ iter P (pre ++ c :: w1) ws' post /\
    (e <> 0%nat -> P pre [] ((c :: w) ++ post)).
Proof.
  intros P. induction ws as [|w0 ws0 IH]; intros pre c w post Hit Hc; [discriminate|].
  cbn [iter] in Hit. destruct Hit as [H0 Hrest]. cbn [concat] in Hc.
  destruct w0 as [|x w0'].
  - cbn [app] in Hc. rewrite app_nil_r in Hrest.
    destruct (IH pre c w post Hrest Hc) as (e & w1 & ws' & Hl & Hw & Hp & Hi & _).
    exists (S e), w1, ws'. cbn [length]. split; [lia|]. split; [exact Hw|]. split; [exact Hp|].
    split; [exact Hi|]. intros _. now rewrite Hc in H0.
  - cbn [app] in Hc. inversion Hc; subst.
    exists 0%nat, w0', ws0. cbn [length]. split; [lia|]. split; [reflexivity|]. split; [exact H0|].
    split; [exact Hrest|]. intros Hf. congruence.
Qed.

Lemma pd_complete : forall r pre c w post,
  matches r pre (c :: w) post ->
  exists k, In k (pd (nilb pre) c r) /\ mseq k (pre ++ [c]) w post.
Proof.
  induction r as [|d| |n1 i1| | |a IHa b IHb|a IHa b IHb|a IHa|a IHa|a IHa mn mx];
    intros pre c w post H; cbn [pd matches] in *.
  - discriminate.
  - inversion H; subst. rewrite N.eqb_refl. exists []. split; [now left | reflexivity].
  - destruct H as (c0 & Hc & Hne). inversion Hc; subst.
    destruct (c0 =? 10) eqn:E; [lia|]. exists []. split; [now left | reflexivity].
  - destruct H as (c0 & Hc & Hm). inversion Hc; subst. rewrite Hm.
    exists []. split; [now left | reflexivity].
  - destruct H as [H _]. discriminate.
  - destruct H as [H _]. discriminate.
  - destruct H as (w1 & w2 & Hw & Ha & Hb). destruct w1 as [|x w1'].
    + cbn [app] in Hw. subst w2. rewrite app_nil_r in Hb.
      pose proof (nullable_complete _ _ _ Ha) as Hn. cbn [app nilb] in Hn.
      destruct (IHb _ _ _ _ Hb) as (k & Hk & Hm). exists k. split; [|exact Hm].
      apply in_or_app. right. now rewrite Hn.
    + cbn [app] in Hw. inversion Hw; subst.
      destruct (IHa _ _ _ _ Ha) as (k0 & Hk0 & Hm0).
      exists (k0 ++ [b]). split.
      * apply in_or_app. left. apply in_map_iff. eauto.
      * apply mseq_app; [exact Hm0|]. apply mseq_single_intro. now rewrite snoc_assoc.
  - destruct H as [H|H]; [destruct (IHa _ _ _ _ H) as (k & Hk & Hm) | destruct (IHb _ _ _ _ H) as (k & Hk & Hm)];
      exists k; (split; [apply in_or_app; auto | exact Hm]).
  - destruct H as (ws & Hit & Hc). symmetry in Hc.
    destruct (iter_first _ _ _ _ _ _ Hit Hc) as (e & w1 & ws' & Hl & -> & Hp & Hi & _).
    destruct (IHa _ _ _ _ Hp) as (k0 & Hk0 & Hm0).
    exists (k0 ++ [Star a]). split; [apply in_map_iff; eauto|].
    apply mseq_app; [exact Hm0|]. apply mseq_single_intro. cbn [matches].
    exists ws'. split; [now rewrite snoc_assoc | reflexivity].
  - destruct H as (ws & Hne & Hit & Hc). symmetry in Hc.
    destruct (iter_first _ _ _ _ _ _ Hit Hc) as (e & w1 & ws' & Hl & -> & Hp & Hi & _).
    destruct (IHa _ _ _ _ Hp) as (k0 & Hk0 & Hm0).
    exists (k0 ++ [Star a]). split; [apply in_map_iff; eauto|].
    apply mseq_app; [exact Hm0|]. apply mseq_single_intro. cbn [matches].
    exists ws'. split; [now rewrite snoc_assoc | reflexivity].
  - destruct H as (ws & Hit & Hc & Hmin & Hmax). symmetry in Hc.
    destruct (iter_first _ _ _ _ _ _ Hit Hc) as (e & w1 & ws' & Hl & Hw & Hp & Hi & He).
    subst w.
    assert ((match mx with Some m => m =? 0 | None => false end) = false) as Emx.
    { destruct mx as [m|]; [|reflexivity]. lia. }
    rewrite Emx.
    destruct (IHa _ _ _ _ Hp) as (k0 & Hk0 & Hm0).
    eexists (k0 ++ [Rep a _ _]). split; [apply in_map_iff; eauto|].
    apply mseq_app; [exact Hm0|]. apply mseq_single_intro. cbn [matches].
    exists ws'. split; [now rewrite snoc_assoc|]. split; [reflexivity|]. split.
    + destruct (nullable (nilb pre) false a) eqn:En; [lia|].
      assert (e = 0%nat) as ->.
      { destruct e as [|e']; [reflexivity|]. exfalso.
        pose proof (nullable_complete _ _ _ (He ltac:(discriminate))) as Hn.
        cbn [app nilb] in Hn. congruence. }
      lia.
    + destruct mx as [m|]; [|exact I]. cbn [opt_pred option_map]. lia.
Qed.

Lemma nullable_seq_complete : forall k pre post,
  mseq k pre [] post -> nullable_seq (nilb pre) (nilb post) k = true.
Proof.
  induction k as [|r k IH]; intros pre post H; [reflexivity|].
  cbn [mseq] in H. destruct H as (w1 & w2 & Hw & Hr & Hk).
  symmetry in Hw. apply app_eq_nil in Hw. destruct Hw as [-> ->].
  cbn [app] in Hr. rewrite app_nil_r in Hk.
  unfold nullable_seq in *. cbn [forallb].
  rewrite (nullable_complete _ _ _ Hr). now rewrite (IH _ _ Hk).
Qed.

Lemma pd_seq_complete : forall k pre c w post,
  mseq k pre (c :: w) post ->
  exists k', In k' (pd_seq (nilb pre) c k) /\ mseq k' (pre ++ [c]) w post.
Proof.
  induction k as [|r k IH]; intros pre c w post H; [discriminate|].
  cbn [mseq] in H. destruct H as (w1 & w2 & Hw & Hr & Hk). cbn [pd_seq].
  destruct w1 as [|x w1'].
  - cbn [app] in Hw. subst w2. rewrite app_nil_r in Hk.
    pose proof (nullable_complete _ _ _ Hr) as Hn. cbn [app nilb] in Hn.
    destruct (IH _ _ _ _ Hk) as (k' & Hin & Hm). exists k'. split; [|exact Hm].
    apply in_or_app. right. now rewrite Hn.
  - cbn [app] in Hw. inversion Hw; subst.
    destruct (pd_complete _ _ _ _ _ Hr) as (kx & Hkx & Hmx).
    exists (kx ++ k). split.
    + apply in_or_app. left. apply in_map_iff. eauto.
    + apply mseq_app; [exact Hmx|]. now rewrite snoc_assoc.
Qed.

Lemma accepts_complete : forall w k pre rest,
  mseq k pre w rest -> accepts_seq (nilb pre) k (w ++ rest) = true.
Proof.
  induction w as [|c w IH]; intros k pre rest H.
  - cbn [app]. pose proof (nullable_seq_complete _ _ _ H) as Hn.
    destruct rest as [|c rest']; cbn [accepts_seq nilb] in *; [exact Hn|]. now rewrite Hn.
  - cbn [app accepts_seq]. apply orb_true_iff. right.
    destruct (pd_seq_complete _ _ _ _ _ H) as (k' & Hin & Hm).
    apply existsb_exists. exists k'. split; [exact Hin|].
    rewrite <- (nilb_snoc pre c). now apply IH.
Qed.

Lemma search_fresh_head : forall r st cs,
  accepts_seq st [r] cs = true -> search_fresh r st cs = true.
Proof. intros r st [|c cs] H; cbn [search_fresh]; now rewrite H. Qed.

Lemma search_fresh_complete : forall p2 r pre w post,
  matches r (pre ++ p2) w post -> search_fresh r (nilb pre) (p2 ++ w ++ post) = true.
Proof.
  induction p2 as [|c p2 IH]; intros r pre w post H.
  - rewrite app_nil_r in H. cbn [app]. apply search_fresh_head.
    apply accepts_complete. now apply mseq_single_intro.
  - cbn [app search_fresh]. apply orb_true_iff. right.
    rewrite <- (nilb_snoc pre c). apply IH. now rewrite snoc_assoc.
Qed.

(* no false negatives: if some substring of the text matches r, the search says "match" *)
Theorem search_complete : forall r pre w post,
  matches r pre w post -> search r true [] (pre ++ w ++ post) = true.
Proof.
  intros r pre w post H. rewrite search_initial.
  apply (search_fresh_complete pre r [] w post). exact H.
Qed.
Print Assumptions search_complete.

(* the matcher decides the declarative semantics of the parsed pattern on the subject's code points *)
Theorem regex_match_correct : forall p s b,
  regex_match p s = RxMatch b ->
  exists r prod,
    parse_pattern p = POk r prod /\
    (b = true <-> exists pre w post, code_points s = pre ++ w ++ post /\ matches r pre w post).
Proof.
  intros p s b H. unfold regex_match in H.
  destruct (max_pattern_len <? N.of_nat (length p)); [discriminate|].
  destruct (parse_pattern p) as [r prod| |] eqn:Hp; try discriminate.
  destruct (max_size_budget <=? prod * (8 * N.of_nat (length p) + 16)); [discriminate|].
  destruct (wfb r) eqn:Hwf; cbn [negb] in H; [|discriminate].
  inversion H as [Hs]. exists r, prod. split; [reflexivity|]. split.
  - intros Hb. rewrite Hb in Hs. symmetry in Hs. now apply search_sound.
  - intros (pre & w & post & He & Hm). rewrite He. now apply search_complete.
Qed.
Print Assumptions regex_match_correct.

(* ================================================================= assumptions of the remaining theorems *)
Print Assumptions to_upper_supported.
Print Assumptions to_lower_supported.
Print Assumptions to_lower_length.
Print Assumptions to_upper_to_lower.
Print Assumptions to_upper_nth.
Print Assumptions to_lower_nth.
Print Assumptions stable_sort_locally_sorted.
Print Assumptions cmp_float_nan_least.
Print Assumptions cmp_float_zeros.
Print Assumptions sort_floats_perm.
Print Assumptions sort_by_key_order.
Print Assumptions sort_by_float_order.
Print Assumptions grow_cap_N_gt.
Print Assumptions grow_cap_N_mono.
Print Assumptions search_initial.
Print Assumptions search_sound.
