(* Oracle/Regex.v -- executable model of a fragment of Go's regexp (RE2 syntax, Perl flags):
   regexp.Compile(pattern) followed by MatchString(subject) (unanchored search).
   Outside the fragment the answer is RxUnsupported, never a wrong boolean.
   The matcher uses Antimirov partial derivatives over code points, so it is total without fuel.
   DEFINITIONS ONLY (proofs live in Oracle/OracleProofs.v). *)
From JQ Require Import Base.Bytes Oracle.Utf8.

Open Scope N_scope.

Inductive rx_result := RxMatch (b : bool) | RxBadPattern | RxUnsupported.

(* ---------- abstract syntax ---------- *)

Inductive perl_kind := PD | PW | PS.                       (* \d \w \s *)
Inductive citem := CRange (lo hi : N) | CPerl (neg : bool) (k : perl_kind).

Inductive re :=
| Eps                                       (* empty match *)
| Chr (c : N)                               (* one code point *)
| Any                                       (* . : any code point except \n *)
| Cls (neg : bool) (items : list citem)     (* [...] / [^...] / \d ... *)
| Bol                                       (* ^ : start of text *)
| Eol                                       (* $ : end of text *)
| Cat (a b : re)
| Alt (a b : re)
| Star (a : re)
| Plus (a : re)
| Rep (a : re) (mn : N) (mx : option N).     (* a{mn,mx}; mx = None: unbounded *)

Definition perl_match (k : perl_kind) (c : N) : bool :=
  match k with
  | PD => in_range 48 57 c
  | PW => in_range 48 57 c || in_range 65 90 c || (c =? 95) || in_range 97 122 c
  | PS => in_range 9 10 c || in_range 12 13 c || (c =? 32)
  end.

Definition item_match (c : N) (it : citem) : bool :=
  match it with
  | CRange lo hi => in_range lo hi c
  | CPerl neg k => xorb neg (perl_match k c)
  end.

Definition cls_match (neg : bool) (items : list citem) (c : N) : bool :=
  xorb neg (existsb (item_match c) items).

(* ---------- lexer: bytes -> tokens ---------- *)

Inductive token :=
| TAtom (a : re)
| TStar | TPlus | TQuest
| TRep (mn : N) (mx : option N)
| TOpen | TClose | TBar
| TBad | TUnsup.

Definition is_alnum (c : N) : bool :=
  is_ascii_digit c || is_ascii_upper c || is_ascii_lower c.

(* next rune of the pattern; invalid UTF-8 is a compile error in Go *)
Definition next_rune (t : bytes) : option (N * bytes) :=
  match utf8_decode_one t with
  | None => None
  | Some (c, w) => if (c =? rune_error) && Nat.eqb w 1 then None else Some (c, skipn w t)
  end.

Inductive esc_result :=
| EChar (c : N) (rest : bytes)
| EPerl (neg : bool) (k : perl_kind) (rest : bytes)
| EBad | EUnsup.

(* t = the text AFTER the backslash *)
Definition parse_escape (t : bytes) : esc_result :=
  match next_rune t with
  | None => EBad                                    (* trailing backslash / invalid UTF-8 *)
  | Some (c, rest) =>
      if 128 <=? c then EBad
      else if c =? 100 then EPerl false PD rest     (* d *)
      else if c =? 68 then EPerl true PD rest       (* D *)
      else if c =? 119 then EPerl false PW rest     (* w *)
      else if c =? 87 then EPerl true PW rest       (* W *)
      else if c =? 115 then EPerl false PS rest     (* s *)
      else if c =? 83 then EPerl true PS rest       (* S *)
      else if c =? 97 then EChar 7 rest             (* a *)
      else if c =? 102 then EChar 12 rest           (* f *)
      else if c =? 110 then EChar 10 rest           (* n *)
      else if c =? 114 then EChar 13 rest           (* r *)
      else if c =? 116 then EChar 9 rest            (* t *)
      else if c =? 118 then EChar 11 rest           (* v *)
      else if (c =? 65) || (c =? 98) || (c =? 66) || (c =? 67) || (c =? 81) || (c =? 122)
              || (c =? 112) || (c =? 80) || (c =? 120) || in_range 48 55 c
           then EUnsup                               (* \A \b \B \C \Q \z \p \P \x \0..\7 *)
      else if is_alnum c then EBad                  (* invalid escape sequence *)
      else EChar c rest                             (* escaped punctuation *)
  end.

Definition skip_lazy (t : bytes) : bytes :=
  match t with
  | 63 :: r => r
  | _ => t
  end.

Fixpoint digits_val (acc : N) (s : bytes) : N * bytes :=
  match s with
  | d :: r => if is_ascii_digit d then digits_val (acc * 10 + (d - 48)) r else (acc, s)
  | [] => (acc, [])
  end.

Definition parse_int (s : bytes) : option (N * bytes) :=
  match s with
  | d :: r =>
      if is_ascii_digit d then
        if (d =? 48) && (match r with d2 :: _ => is_ascii_digit d2 | [] => false end)
        then None                                    (* leading zero *)
        else Some (digits_val 0 s)
      else None
  | [] => None
  end.

(* s = the text AFTER '{'; None: not a repeat, '{' is a literal *)
Definition parse_repeat (s : bytes) : option (N * option N * bytes) :=
  match parse_int s with
  | None => None
  | Some (mn, s1) =>
      match s1 with
      | 125 :: rest => Some (mn, Some mn, rest)
      | 44 :: s2 =>
          match s2 with
          | [] => None
          | 125 :: rest => Some (mn, None, rest)
          | _ =>
              match parse_int s2 with
              | None => None
              | Some (mx, s3) =>
                  match s3 with
                  | 125 :: rest => Some (mn, Some mx, rest)
                  | _ => None
                  end
              end
          end
      | _ => None
      end
  end.

Inductive class_result :=
| CROk (items : list citem) (rest : bytes)
| CRBad | CRUnsup.

Inductive cchar_result :=
| CCChar (c : N) (rest : bytes)
| CCPerl (neg : bool) (k : perl_kind) (rest : bytes)
| CCBad | CCUnsup.

Definition class_char (t : bytes) : cchar_result :=
  match t with
  | [] => CCBad                                      (* missing closing ] *)
  | 92 :: t' =>
      match parse_escape t' with
      | EChar c rest => CCChar c rest
      | EPerl neg k rest => CCPerl neg k rest
      | EBad => CCBad
      | EUnsup => CCUnsup
      end
  | _ =>
      match next_rune t with
      | None => CCBad
      | Some (c, rest) => CCChar c rest
      end
  end.

(* t = the text after '[' and the optional '^' *)
Fixpoint parse_class_items (fuel : nat) (first : bool) (t : bytes) (acc : list citem)
  : class_result :=
  match fuel with
  | O => CRUnsup
  | S f =>
      match t with
      | [] => CRBad
      | b :: t' =>
          if (b =? 93) && negb first then CROk (rev acc) t'
          else if (b =? 91) && (match t' with 58 :: _ => true | _ => false end) then CRUnsup
          else
            match class_char t with
            | CCBad => CRBad
            | CCUnsup => CRUnsup
            | CCPerl neg k rest => parse_class_items f false rest (CPerl neg k :: acc)
            | CCChar lo rest =>
                match rest with
                | 45 :: x :: rest2 =>
                    if x =? 93 then parse_class_items f false rest (CRange lo lo :: acc)
                    else
                      match class_char (x :: rest2) with
                      | CCChar hi rest3 =>
                          if hi <? lo then CRBad
                          else parse_class_items f false rest3 (CRange lo hi :: acc)
                      | CCPerl _ _ _ => CRBad
                      | CCBad => CRBad
                      | CCUnsup => CRUnsup
                      end
                | _ => parse_class_items f false rest (CRange lo lo :: acc)
                end
            end
      end
  end.

Definition max_repeat : N := 1000.

Fixpoint tokenize (fuel : nat) (t : bytes) : list token :=
  match fuel with
  | O => [TUnsup]
  | S f =>
      match t with
      | [] => []
      | b :: t' =>
          if b =? 40 then                                     (* ( *)
            match t' with
            | 63 :: 58 :: t'' => TOpen :: tokenize f t''      (* (?: *)
            | 63 :: _ => [TUnsup]                             (* flags, named groups *)
            | _ => TOpen :: tokenize f t'
            end
          else if b =? 41 then TClose :: tokenize f t'        (* ) *)
          else if b =? 124 then TBar :: tokenize f t'         (* | *)
          else if b =? 94 then TAtom Bol :: tokenize f t'     (* ^ *)
          else if b =? 36 then TAtom Eol :: tokenize f t'     (* $ *)
          else if b =? 46 then TAtom Any :: tokenize f t'     (* . *)
          else if b =? 42 then TStar :: tokenize f (skip_lazy t')
          else if b =? 43 then TPlus :: tokenize f (skip_lazy t')
          else if b =? 63 then TQuest :: tokenize f (skip_lazy t')
          else if b =? 91 then                                (* [ *)
            let '(neg, body) := match t' with
                                | 94 :: r => (true, r)
                                | _ => (false, t')
                                end in
            match parse_class_items (S (length body)) true body [] with
            | CROk items rest => TAtom (Cls neg items) :: tokenize f rest
            | CRBad => [TBad]
            | CRUnsup => [TUnsup]
            end
          else if b =? 123 then                               (* { *)
            match parse_repeat t' with
            | None => TAtom (Chr 123) :: tokenize f t'
            | Some (mn, mx, rest) =>
                let too_big := (max_repeat <? mn) ||
                               match mx with
                               | Some m => (max_repeat <? m) || (m <? mn)
                               | None => false
                               end in
                if too_big then [TBad]
                else TRep mn mx :: tokenize f (skip_lazy rest)
            end
          else if b =? 92 then                                (* \ *)
            match parse_escape t' with
            | EChar c rest => TAtom (Chr c) :: tokenize f rest
            | EPerl neg k rest => TAtom (Cls false [CPerl neg k]) :: tokenize f rest
            | EBad => [TBad]
            | EUnsup => [TUnsup]
            end
          else
            match next_rune t with
            | None => [TBad]                                  (* invalid UTF-8 in the pattern *)
            | Some (c, rest) => TAtom (Chr c) :: tokenize f rest
            end
      end
  end.

(* ---------- parser: tokens -> re (Go's stack discipline) ---------- *)

(* Go's repeatIsValid(re, n) *)
Fixpoint rep_valid (r : re) (n : N) : bool :=
  match r with
  | Rep a mn mx =>
      let m := match mx with Some m => m | None => mn end in
      if match mx with Some m => m =? 0 | None => false end then true
      else if n <? m then false
      else rep_valid a (if 0 <? m then n / m else n)
  | Cat a b | Alt a b => rep_valid a n && rep_valid b n
  | Star a | Plus a => rep_valid a n
  | _ => true
  end.

(* reversed item list -> right-nested concatenation / alternation *)
Definition mk_cat (rcur : list re) : re :=
  match rcur with
  | [] => Eps
  | x :: r => fold_left (fun acc y => Cat y acc) r x
  end.
Definition mk_alt (ralts : list re) : re :=
  match ralts with
  | [] => Eps
  | x :: r => fold_left (fun acc y => Alt y acc) r x
  end.

Inductive parse_result := POk (r : re) (prod : N) | PBad | PUnsup.

Definition max_group_depth : nat := 50.

(* alts/cur: finished alternatives and items of the innermost open group (both reversed);
   stack: the enclosing groups; last: the previous token was a repetition operator;
   prod: product of all counted repetitions seen (Go's parser.repeats) *)
Fixpoint parse_tokens (toks : list token) (alts cur : list re)
         (stack : list (list re * list re)) (last : bool) (prod : N) : parse_result :=
  match toks with
  | [] =>
      match stack with
      | [] => POk (mk_alt (mk_cat cur :: alts)) prod
      | _ :: _ => PBad                                         (* missing ) *)
      end
  | tok :: rest =>
      let repeat (f : re -> re) (chk : re -> bool) (prod' : N) :=
        if last then PBad                                      (* a** *)
        else match cur with
             | [] => PBad                                      (* missing argument *)
             | x :: cur' =>
                 let r := f x in
                 if chk r then parse_tokens rest alts (r :: cur') stack true prod'
                 else PBad
             end in
      match tok with
      | TBad => PBad
      | TUnsup => PUnsup
      | TAtom a => parse_tokens rest alts (a :: cur) stack false prod
      | TStar => repeat Star (fun _ => true) prod
      | TPlus => repeat Plus (fun _ => true) prod
      | TQuest => repeat (fun x => Alt x Eps) (fun _ => true) prod
      | TRep mn mx =>
          let m := match mx with Some m => m | None => mn end in
          repeat (fun x => Rep x mn mx)
                 (fun r => if (2 <=? mn) ||
                              (match mx with Some m => 2 <=? m | None => false end)
                           then rep_valid r max_repeat else true)
                 (prod * N.max 1 m)
      | TOpen =>
          if Nat.ltb max_group_depth (length stack) then PUnsup
          else parse_tokens rest [] [] ((alts, cur) :: stack) false prod
      | TBar => parse_tokens rest (mk_cat cur :: alts) [] stack false prod
      | TClose =>
          match stack with
          | [] => PBad                                         (* unexpected ) *)
          | (alts0, cur0) :: stack' =>
              parse_tokens rest alts0 (mk_alt (mk_cat cur :: alts) :: cur0) stack' false prod
          end
      end
  end.

(* ---------- matcher: Antimirov partial derivatives ---------- *)

(* can r match the empty string here?  st: at start of text, en: at end of text *)
Fixpoint nullable (st en : bool) (r : re) : bool :=
  match r with
  | Eps => true
  | Chr _ | Any | Cls _ _ => false
  | Bol => st
  | Eol => en
  | Cat a b => nullable st en a && nullable st en b
  | Alt a b => nullable st en a || nullable st en b
  | Star _ => true
  | Plus a => nullable st en a
  | Rep a mn mx => (mn =? 0) || nullable st en a
  end.

Definition opt_pred (o : option N) : option N := option_map N.pred o.

(* partial derivatives of r by code point c; each result is a SEQUENCE (list) of regexps still
   to be matched.  st: c is the first code point of the text. *)
Fixpoint pd (st : bool) (c : N) (r : re) : list (list re) :=
  match r with
  | Eps | Bol | Eol => []
  | Chr d => if c =? d then [[]] else []
  | Any => if c =? 10 then [] else [[]]
  | Cls neg items => if cls_match neg items c then [[]] else []
  | Cat a b =>
      map (fun k => k ++ [b]) (pd st c a) ++
      (if nullable st false a then pd st c b else [])
  | Alt a b => pd st c a ++ pd st c b
  | Star a => map (fun k => k ++ [Star a]) (pd st c a)
  | Plus a => map (fun k => k ++ [Star a]) (pd st c a)
  | Rep a mn mx =>
      if match mx with Some m => m =? 0 | None => false end then []
      else
        (* if a can match empty here, the missing mandatory iterations can all be empty ones *)
        let mn' := if nullable st false a then 0 else N.pred mn in
        map (fun k => k ++ [Rep a mn' (opt_pred mx)]) (pd st c a)
  end.

Fixpoint pd_seq (st : bool) (c : N) (k : list re) : list (list re) :=
  match k with
  | [] => []
  | r :: k' =>
      map (fun x => x ++ k') (pd st c r) ++
      (if nullable st false r then pd_seq st c k' else [])
  end.

Definition nullable_seq (st en : bool) (k : list re) : bool := forallb (nullable st en) k.

(* structural equality, for deduplicating the state set *)
Definition perl_kind_eqb (a b : perl_kind) : bool :=
  match a, b with PD, PD | PW, PW | PS, PS => true | _, _ => false end.
Definition citem_eqb (a b : citem) : bool :=
  match a, b with
  | CRange l1 h1, CRange l2 h2 => (l1 =? l2) && (h1 =? h2)
  | CPerl n1 k1, CPerl n2 k2 => Bool.eqb n1 n2 && perl_kind_eqb k1 k2
  | _, _ => false
  end.
Fixpoint list_eqb {A} (eqb : A -> A -> bool) (a b : list A) : bool :=
  match a, b with
  | [], [] => true
  | x :: a', y :: b' => eqb x y && list_eqb eqb a' b'
  | _, _ => false
  end.
Definition opt_N_eqb (a b : option N) : bool :=
  match a, b with
  | None, None => true
  | Some x, Some y => x =? y
  | _, _ => false
  end.
Fixpoint re_eqb (a b : re) : bool :=
  match a, b with
  | Eps, Eps | Any, Any | Bol, Bol | Eol, Eol => true
  | Chr c, Chr d => c =? d
  | Cls n1 i1, Cls n2 i2 => Bool.eqb n1 n2 && list_eqb citem_eqb i1 i2
  | Cat a1 a2, Cat b1 b2 | Alt a1 a2, Alt b1 b2 => re_eqb a1 b1 && re_eqb a2 b2
  | Star a1, Star b1 | Plus a1, Plus b1 => re_eqb a1 b1
  | Rep a1 m1 x1, Rep b1 m2 x2 => (m1 =? m2) && opt_N_eqb x1 x2 && re_eqb a1 b1
  | _, _ => false
  end.

Definition add_state (k : list re) (l : list (list re)) : list (list re) :=
  if existsb (list_eqb re_eqb k) l then l else k :: l.
Definition dedup (l : list (list re)) : list (list re) := fold_right add_state [] l.

(* unanchored search: before every code point (and at the end) a fresh copy of r may start *)
Fixpoint search (r : re) (st : bool) (states : list (list re)) (cs : list N) : bool :=
  let states' := add_state [r] states in
  match cs with
  | [] => existsb (nullable_seq st true) states'
  | c :: cs' =>
      existsb (nullable_seq st false) states' ||
      search r false (dedup (flat_map (pd_seq st c) states')) cs'
  end.

(* every counted repetition has mn <= mx.  The lexer only emits such repetitions, so this check
   never fails on a parsed pattern; it is re-checked in regex_match so that the soundness theorem
   (OracleProofs.regex_match_sound) needs no lemma about the lexer. *)
Fixpoint wfb (r : re) : bool :=
  match r with
  | Rep a mn mx => wfb a && match mx with Some m => mn <=? m | None => true end
  | Cat a b | Alt a b => wfb a && wfb b
  | Star a | Plus a => wfb a
  | _ => true
  end.

Definition max_pattern_len : N := 1000.
Definition max_size_budget : N := 3000000.

Definition parse_pattern (pattern : bytes) : parse_result :=
  parse_tokens (tokenize (S (length pattern)) pattern) [] [] [] false 1.

(* regexp.Compile(pattern) then MatchString(subject) *)
Definition regex_match (pattern subject : bytes) : rx_result :=
  if max_pattern_len <? N.of_nat (length pattern) then RxUnsupported
  else
    match parse_pattern pattern with
    | PBad => RxBadPattern
    | PUnsup => RxUnsupported
    | POk r prod =>
        (* stay inside Go's "no size tracking needed" fast path (parser.checkSize) *)
        if max_size_budget <=? prod * (8 * N.of_nat (length pattern) + 16) then RxUnsupported
        else if negb (wfb r) then RxUnsupported        (* unreachable, see wfb *)
        else RxMatch (search r true [] (code_points subject))
    end.
