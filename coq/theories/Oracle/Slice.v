(* Oracle/Slice.v -- capacity growth of append on a []*Cell (8-byte pointer elements),
   Go 1.23 linux/amd64: runtime.growslice = nextslicecap + roundupsize(noscan = false).
   DEFINITIONS ONLY (proofs live in Oracle/OracleProofs.v). *)
From JQ Require Import Base.Bytes.

Open Scope N_scope.

(* runtime/sizeclasses.go: class_to_size without the leading 0 *)
Definition size_classes : list N :=
  [8; 16; 24; 32; 48; 64; 80; 96; 112; 128; 144; 160; 176; 192; 208; 224; 240; 256;
   288; 320; 352; 384; 416; 448; 480; 512; 576; 640; 704; 768; 896; 1024; 1152; 1280;
   1408; 1536; 1792; 2048; 2304; 2688; 3072; 3200; 3456; 4096; 4864; 5376; 6144; 6528;
   6784; 6912; 8192; 9472; 9728; 10240; 10880; 12288; 13568; 14336; 16384; 18432; 19072;
   20480; 21760; 24576; 27264; 28672; 32768].

(* smallest size class >= sz (what size_to_class8 / size_to_class128 compute) *)
Fixpoint round_class (cls : list N) (sz : N) : N :=
  match cls with
  | [] => sz
  | c :: r => if sz <=? c then c else round_class r sz
  end.

Definition max_small_size : N := 32768.
Definition malloc_header_size : N := 8.
Definition min_size_for_malloc_header : N := 512.
Definition page_size : N := 8192.

(* runtime.roundupsize(size, noscan = false) *)
Definition roundupsize (size : N) : N :=
  if size <=? max_small_size - malloc_header_size then
    let req := if min_size_for_malloc_header <? size then size + malloc_header_size else size in
    round_class size_classes req - (req - size)
  else
    (size + (page_size - 1)) / page_size * page_size.

(* the `for` loop of nextslicecap: newcap += (newcap + 3*256) >> 2 until newcap >= newLen *)
Fixpoint grow_loop (fuel : nat) (newcap newlen : N) : N :=
  let nc := newcap + (newcap + 768) / 4 in
  match fuel with
  | O => nc
  | S f => if newlen <=? nc then nc else grow_loop f nc newlen
  end.

(* runtime.nextslicecap(newLen, oldCap) with newLen = oldCap + 1 *)
Definition nextslicecap (newlen oldcap : N) : N :=
  let doublecap := oldcap + oldcap in
  if doublecap <? newlen then newlen
  else if oldcap <? 256 then doublecap
  else grow_loop 64 oldcap newlen.

Definition grow_cap_N (oldcap : N) : N :=
  roundupsize (nextslicecap (oldcap + 1) oldcap * 8) / 8.

(* capacity of append(s, x) when len(s) = cap(s) = oldcap *)
Definition grow_cap (oldcap : nat) : nat := N.to_nat (grow_cap_N (N.of_nat oldcap)).

(* the len:cap changes of n successive appends starting from make([]*Cell, 0):
   (len after the append that grew the slice, new cap) *)
Fixpoint cap_trace_aux (n : nat) (len cap : N) : list (N * N) :=
  match n with
  | O => []
  | S k =>
      if len <? cap then cap_trace_aux k (len + 1) cap
      else let c := grow_cap_N cap in (len + 1, c) :: cap_trace_aux k (len + 1) c
  end.
Definition cap_trace (n : nat) : list (N * N) := cap_trace_aux n 0 0.
