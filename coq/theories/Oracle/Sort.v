(* Oracle/Sort.v -- slices.SortStableFunc with cmp.Compare, as a stable insertion sort.
   DEFINITIONS ONLY (proofs live in Oracle/OracleProofs.v). *)
From JQ Require Import Base.Bytes Num.F64.

(* insert x in front of the first element y with le x y: x came BEFORE every element of l in
   the input, so it must stay in front of its equals *)
Fixpoint insert_sorted {A} (le : A -> A -> bool) (x : A) (l : list A) : list A :=
  match l with
  | [] => [x]
  | y :: l' => if le x y then x :: y :: l' else y :: insert_sorted le x l'
  end.

Fixpoint stable_sort {A} (le : A -> A -> bool) (l : list A) : list A :=
  match l with
  | [] => []
  | x :: l' => insert_sorted le x (stable_sort le l')
  end.

(* Go cmp.Compare on float64: NaN < everything, NaN = NaN, -0 = +0 *)
Definition cmp_float (a b : float) : comparison :=
  match f_is_nan a, f_is_nan b with
  | true, true => Eq
  | true, false => Lt
  | false, true => Gt
  | false, false => match f_cmp a b with Some c => c | None => Eq end
  end.

Definition le_of_cmp {A} (cmp : A -> A -> comparison) (a b : A) : bool :=
  match cmp a b with Gt => false | _ => true end.

Definition sort_floats (l : list float) : list float :=
  stable_sort (le_of_cmp cmp_float) l.

Definition sort_by_key {A} (key : A -> bytes) (l : list A) : list A :=
  stable_sort (fun a b => le_of_cmp bytes_cmp (key a) (key b)) l.

Definition sort_by_float {A} (key : A -> float) (l : list A) : list A :=
  stable_sort (fun a b => le_of_cmp cmp_float (key a) (key b)) l.
