(* Oracle/Strings.v -- strings.Split / strings.Join / strings.ToUpper / strings.ToLower.
   DEFINITIONS ONLY (proofs live in Oracle/OracleProofs.v). *)
From JQ Require Import Base.Bytes Oracle.Utf8.

Open Scope N_scope.

(* does sep occur somewhere in s (bytewise)?  occurs [] s = true *)
Fixpoint occurs (sep s : bytes) : bool :=
  is_prefix sep s ||
  match s with
  | [] => false
  | _ :: t => occurs sep t
  end.

(* split_ne sep skip s: the pieces of (skipn skip s) for a NON-EMPTY separator; the head of
   the result is the piece under construction.  skip > 0 means "still inside a matched
   separator", which keeps the recursion structural. *)
Fixpoint split_ne (sep : bytes) (skip : nat) (s : bytes) : list bytes :=
  match s with
  | [] => [[]]
  | c :: t =>
      match skip with
      | S k => split_ne sep k t
      | O =>
          if is_prefix sep s
          then [] :: split_ne sep (pred (length sep)) t
          else match split_ne sep 0 t with
               | p :: ps => (c :: p) :: ps
               | [] => [[c]]                      (* unreachable: split_ne is never [] *)
               end
      end
  end.

(* strings.Split(s, sep) *)
Definition split (s sep : bytes) : list bytes :=
  match sep with
  | [] => explode s
  | _ :: _ => split_ne sep 0 s
  end.

(* strings.Join(l, sep) *)
Fixpoint join (sep : bytes) (l : list bytes) : bytes :=
  match l with
  | [] => []
  | [p] => p
  | p :: ps => p ++ sep ++ join sep ps
  end.

Inductive case_result := CaseOk (b : bytes) | CaseUnsupported.

Definition is_ascii (s : bytes) : bool := forallb (fun c => c <? 128) s.

Definition upper_byte (c : N) : N := if is_ascii_lower c then c - 32 else c.
Definition lower_byte (c : N) : N := if is_ascii_upper c then c + 32 else c.

(* strings.ToUpper / ToLower: exact for pure ASCII input; anything else is outside the model *)
Definition to_upper (s : bytes) : case_result :=
  if is_ascii s then CaseOk (map upper_byte s) else CaseUnsupported.
Definition to_lower (s : bytes) : case_result :=
  if is_ascii s then CaseOk (map lower_byte s) else CaseUnsupported.
