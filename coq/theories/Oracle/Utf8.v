(* Oracle/Utf8.v -- executable model of Go's UTF-8 handling as jqawk uses it:
     utf8.DecodeRuneInString, string(rune), `for i, r := range s`, strings.Split(s, "").
   DEFINITIONS ONLY (proofs live in Oracle/OracleProofs.v). *)
From JQ Require Import Base.Bytes.

Open Scope N_scope.

Definition rune_error : N := 65533.            (* U+FFFD *)

Definition is_cont (b : N) : bool := (128 <=? b) && (b <=? 191).
Definition in_range (lo hi b : N) : bool := (lo <=? b) && (b <=? hi).

Definition dec_err : option (N * nat) := Some (rune_error, 1%nat).

(* Go utf8.DecodeRuneInString: (rune, width); invalid -> (U+FFFD, 1); None iff s = []. *)
Definition utf8_decode_one (s : bytes) : option (N * nat) :=
  match s with
  | [] => None
  | b0 :: t =>
      if b0 <? 128 then Some (b0, 1%nat)
      else if b0 <? 194 then dec_err                       (* 80..C1: continuation / overlong lead *)
      else if b0 <? 224 then                               (* C2..DF: 2 bytes *)
        match t with
        | b1 :: _ =>
            if is_cont b1 then Some ((b0 - 192) * 64 + (b1 - 128), 2%nat) else dec_err
        | _ => dec_err
        end
      else if b0 <? 240 then                               (* E0..EF: 3 bytes *)
        match t with
        | b1 :: b2 :: _ =>
            let lo := if b0 =? 224 then 160 else 128 in    (* E0: no overlong *)
            let hi := if b0 =? 237 then 159 else 191 in    (* ED: no surrogates *)
            if in_range lo hi b1 && is_cont b2
            then Some ((b0 - 224) * 4096 + (b1 - 128) * 64 + (b2 - 128), 3%nat)
            else dec_err
        | _ => dec_err
        end
      else if b0 <? 245 then                               (* F0..F4: 4 bytes *)
        match t with
        | b1 :: b2 :: b3 :: _ =>
            let lo := if b0 =? 240 then 144 else 128 in    (* F0: no overlong *)
            let hi := if b0 =? 244 then 143 else 191 in    (* F4: <= U+10FFFF *)
            if in_range lo hi b1 && is_cont b2 && is_cont b3
            then Some ((b0 - 240) * 262144 + (b1 - 128) * 4096 + (b2 - 128) * 64 + (b3 - 128), 4%nat)
            else dec_err
        | _ => dec_err
        end
      else dec_err                                         (* F5..FF *)
  end.

Definition is_surrogate (r : N) : bool := (55296 <=? r) && (r <=? 57343).
Definition valid_scalar (r : N) : bool := (r <=? 1114111) && negb (is_surrogate r).

Definition utf8_replacement : bytes := [239; 191; 189].

(* Go string(rune(r)) *)
Definition utf8_encode (r : N) : bytes :=
  if r <? 128 then [r]
  else if r <? 2048 then [192 + r / 64; 128 + r mod 64]
  else if is_surrogate r then utf8_replacement
  else if r <? 65536 then [224 + r / 4096; 128 + (r / 64) mod 64; 128 + r mod 64]
  else if r <=? 1114111 then
    [240 + r / 262144; 128 + (r / 4096) mod 64; 128 + (r / 64) mod 64; 128 + r mod 64]
  else utf8_replacement.

(* for i, r := range s  ->  (i, string(r)); fuel = length s always suffices *)
Fixpoint runes_aux (fuel : nat) (off : nat) (s : bytes) : list (nat * bytes) :=
  match fuel with
  | O => []
  | S f =>
      match utf8_decode_one s with
      | None => []
      | Some (r, w) => (off, utf8_encode r) :: runes_aux f (off + w)%nat (skipn w s)
      end
  end.
Definition runes (s : bytes) : list (nat * bytes) := runes_aux (length s) 0%nat s.

(* the decoded code points (invalid byte -> U+FFFD), used by the regex oracle *)
Fixpoint code_points_aux (fuel : nat) (s : bytes) : list N :=
  match fuel with
  | O => []
  | S f =>
      match utf8_decode_one s with
      | None => []
      | Some (r, w) => r :: code_points_aux f (skipn w s)
      end
  end.
Definition code_points (s : bytes) : list N := code_points_aux (length s) s.

(* strings.Split(s, "") = explode(s, -1): one piece per rune, the RAW bytes consumed
   (an invalid byte stays a 1-byte piece); "" gives the empty slice. *)
Fixpoint explode_aux (fuel : nat) (s : bytes) : list bytes :=
  match fuel with
  | O => []
  | S f =>
      match utf8_decode_one s with
      | None => []
      | Some (_, w) => firstn w s :: explode_aux f (skipn w s)
      end
  end.
Definition explode (s : bytes) : list bytes := explode_aux (length s) s.

(* utf8.ValidString *)
Fixpoint valid_utf8_aux (fuel : nat) (s : bytes) : bool :=
  match fuel with
  | O => match s with [] => true | _ => false end
  | S f =>
      match utf8_decode_one s with
      | None => true
      | Some (r, w) =>
          if (r =? rune_error) && Nat.eqb w 1 then false
          else valid_utf8_aux f (skipn w s)
      end
  end.
Definition valid_utf8 (s : bytes) : bool := valid_utf8_aux (length s) s.
