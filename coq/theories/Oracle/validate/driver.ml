(* driver.ml: runs the code extracted from JQ.Oracle.* on a case file and prints RES lines in
   the format of the Go harness (PROTOCOL.md) / extra.go.   usage: driver <casefile> *)
open Oracle

let rec pos_of_int (v : int) : positive =
  if v = 1 then XH
  else let rest = pos_of_int (v lsr 1) in if v land 1 = 1 then XI rest else XO rest
let n_of_int v = if v = 0 then N0 else Npos (pos_of_int v)
let rec int_of_pos = function
  | XH -> 1 | XO p -> (int_of_pos p) lsl 1 | XI p -> ((int_of_pos p) lsl 1) lor 1
let int_of_n = function N0 -> 0 | Npos p -> int_of_pos p
let nat_of_int n = let r = ref O in for _ = 1 to n do r := S !r done; !r
let int_of_nat n = let rec go acc = function O -> acc | S k -> go (acc + 1) k in go 0 n

let unhex s =
  if s = "-" then ""
  else String.init (String.length s / 2) (fun i -> Char.chr (int_of_string ("0x" ^ String.sub s (2 * i) 2)))
let bytes_of_string s = List.init (String.length s) (fun i -> n_of_int (Char.code s.[i]))
let hex_of_bytes l =
  if l = [] then "-"
  else String.concat "" (List.map (fun b -> Printf.sprintf "%02x" (int_of_n b land 255)) l)
let join_or_dash l = if l = [] then "-" else String.concat "," l

(* 64-bit patterns with the top bit set do not fit OCaml's 63-bit int: go through positive by hand *)
let n_of_hex16 s =
  let acc = ref N0 in
  String.iter (fun ch ->
    let d = int_of_string ("0x" ^ String.make 1 ch) in
    (* acc := acc * 16 + d *)
    let shifted = match !acc with N0 -> N0 | Npos p -> Npos (XO (XO (XO (XO p)))) in
    acc := (match shifted, d with
            | s, 0 -> s
            | N0, d -> n_of_int d
            | Npos p, d ->
              (* low four bits of p are zero: replace them *)
              let rec setlow p k d = if k = 0 then p else
                  (match p with
                   | XO q -> let q' = setlow q (k - 1) (d lsr 1) in if d land 1 = 1 then XI q' else XO q'
                   | _ -> assert false) in
              Npos (setlow p 4 d))) s;
  !acc
let hex16_of_n n =
  let rec bits p = match p with XH -> [1] | XO q -> 0 :: bits q | XI q -> 1 :: bits q in
  let l = match n with N0 -> [] | Npos p -> bits p in
  let a = Array.make 64 0 in
  List.iteri (fun i b -> if i < 64 then a.(i) <- b) l;
  String.init 16 (fun i ->
    let base = (15 - i) * 4 in
    let v = a.(base) + 2 * a.(base + 1) + 4 * a.(base + 2) + 8 * a.(base + 3) in
    "0123456789abcdef".[v])

let () =
  let ic = open_in Sys.argv.(1) in
  let out = Buffer.create (1 lsl 16) in
  (try
     while true do
       let line = input_line ic in
       let p = List.filter (fun s -> s <> "") (String.split_on_char ' ' line) in
       match p with
       | [] -> ()
       | k :: _ when String.length k > 0 && k.[0] = '#' -> ()
       | kind :: id :: args ->
         let res =
           match kind, args with
           | "REGEX", [pat; subj] ->
             (match regex_match (bytes_of_string (unhex pat)) (bytes_of_string (unhex subj)) with
              | RxMatch true -> "m1" | RxMatch false -> "m0"
              | RxBadPattern -> "bad" | RxUnsupported -> "unsupported")
           | "STRFN", ["upper"; s] ->
             (match to_upper (bytes_of_string (unhex s)) with CaseOk b -> hex_of_bytes b | CaseUnsupported -> "unsupported")
           | "STRFN", ["lower"; s] ->
             (match to_lower (bytes_of_string (unhex s)) with CaseOk b -> hex_of_bytes b | CaseUnsupported -> "unsupported")
           | "LOWUP", [s] ->
             (match to_upper (bytes_of_string (unhex s)) with
              | CaseOk b -> (match to_lower b with CaseOk c -> hex_of_bytes c | CaseUnsupported -> "unsupported")
              | CaseUnsupported -> "unsupported")
           | "STRFN", ["split"; s; sep] ->
             join_or_dash (List.map hex_of_bytes (split (bytes_of_string (unhex s)) (bytes_of_string (unhex sep))))
           | "NSPLIT", [s; sep] ->
             let sb = bytes_of_string (unhex s) and sp = bytes_of_string (unhex sep) in
             let parts = split sb sp in
             Printf.sprintf "%d %s" (List.length parts) (hex_of_bytes (join sp parts))
           | "STRFN", ["runes"; s] ->
             join_or_dash (List.map (fun ((off, b)) -> Printf.sprintf "%d:%s" (int_of_nat off) (hex_of_bytes b))
                             (runes (bytes_of_string (unhex s))))
           | "DEC", [s] ->
             (match utf8_decode_one (bytes_of_string (unhex s)) with
              | None -> "none"
              | Some ((r, w)) -> Printf.sprintf "%d %d" (int_of_n r) (int_of_nat w))
           | "VALID", [s] -> if valid_utf8 (bytes_of_string (unhex s)) then "1" else "0"
           | "ENC", [r] -> hex_of_bytes (utf8_encode (n_of_int (int_of_string r)))
           | "CAPFROM", [n] -> string_of_int (int_of_nat (grow_cap (nat_of_int (int_of_string n))))
           | "CAP", [n] ->
             join_or_dash (List.map (fun ((l, c)) -> Printf.sprintf "%d:%d" (int_of_n l) (int_of_n c))
                             (cap_trace (nat_of_int (int_of_string n))))
           | "SORTF", [l] ->
             let xs = if l = "-" then [] else List.map (fun h -> f_of_bits (n_of_hex16 h)) (String.split_on_char ',' l) in
             let canon f = if f_is_nan f then "7ff8000000000001" else hex16_of_n (f_bits f) in
             join_or_dash (List.map canon (sort_floats xs))
           | "SORTK", [l] ->
             let ks = if l = "-" then [] else List.mapi (fun i h -> (bytes_of_string (unhex h), i)) (String.split_on_char ',' l) in
             join_or_dash (List.map (fun (_, i) -> string_of_int i) (sort_by_key fst ks))
           | _ -> "unsupported"
         in
         Buffer.add_string out (Printf.sprintf "RES %s %s\n" id res);
         if Buffer.length out > 60000 then (print_string (Buffer.contents out); Buffer.clear out)
       | _ -> ()
     done
   with End_of_file -> ());
  print_string (Buffer.contents out)
