// extra.go: ground truth for the Oracle functions that the jqh harness has no command for.
//   ENC <id> <decimal r>      -> RES <id> <hex of string(rune(r))>
//   DEC <id> <s>              -> RES <id> <rune> <width>      utf8.DecodeRuneInString ("none" for "")
//   VALID <id> <s>            -> RES <id> 0|1                  utf8.ValidString
//   NSPLIT <id> <s> <sep>     -> RES <id> <len(strings.Split(s, sep))> <hex of strings.Join(parts, sep)>
//   SORTK <id> <k>,<k>,...    -> RES <id> <i>,<i>,...          indices after slices.SortStableFunc by cmp.Compare(key)
//   LOWUP <id> <s>            -> RES <id> <hex of ToLower(ToUpper(s))>
package main

import (
	"bufio"
	"cmp"
	"encoding/hex"
	"fmt"
	"os"
	"slices"
	"strconv"
	"strings"
	"unicode/utf8"
)

func unhex(s string) string {
	if s == "-" {
		return ""
	}
	b, err := hex.DecodeString(s)
	if err != nil {
		panic(err)
	}
	return string(b)
}

func hx(s string) string {
	if s == "" {
		return "-"
	}
	return hex.EncodeToString([]byte(s))
}

func main() {
	f, err := os.Open(os.Args[1])
	if err != nil {
		panic(err)
	}
	sc := bufio.NewScanner(f)
	sc.Buffer(make([]byte, 1<<20), 1<<26)
	w := bufio.NewWriter(os.Stdout)
	defer w.Flush()
	for sc.Scan() {
		p := strings.Fields(sc.Text())
		if len(p) < 2 || strings.HasPrefix(p[0], "#") {
			continue
		}
		out := "unsupported"
		switch p[0] {
		case "ENC":
			n, _ := strconv.ParseUint(p[2], 10, 64)
			out = hx(string(rune(uint32(n))))
		case "DEC":
			s := unhex(p[2])
			if s == "" {
				out = "none"
			} else {
				r, sz := utf8.DecodeRuneInString(s)
				out = fmt.Sprintf("%d %d", r, sz)
			}
		case "VALID":
			if utf8.ValidString(unhex(p[2])) {
				out = "1"
			} else {
				out = "0"
			}
		case "NSPLIT":
			parts := strings.Split(unhex(p[2]), unhex(p[3]))
			out = fmt.Sprintf("%d %s", len(parts), hx(strings.Join(parts, unhex(p[3]))))
		case "LOWUP":
			out = hx(strings.ToLower(strings.ToUpper(unhex(p[2]))))
		case "SORTK":
			type kv struct {
				k string
				i int
			}
			var xs []kv
			if p[2] != "-" {
				for i, h := range strings.Split(p[2], ",") {
					xs = append(xs, kv{unhex(h), i})
				}
			}
			slices.SortStableFunc(xs, func(a, b kv) int { return cmp.Compare(a.k, b.k) })
			idx := make([]string, len(xs))
			for i, x := range xs {
				idx[i] = strconv.Itoa(x.i)
			}
			out = strings.Join(idx, ",")
			if out == "" {
				out = "-"
			}
		}
		fmt.Fprintf(w, "RES %s %s\n", p[1], out)
	}
}
