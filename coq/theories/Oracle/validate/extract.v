(* run with coqc inside a scratch directory: writes oracle.ml / oracle.mli there *)
From JQ Require Import Base.Bytes Num.F64 Oracle.Utf8 Oracle.Strings Oracle.Sort Oracle.Slice Oracle.Regex.
Require Extraction.
Require Import ExtrOcamlBasic.
Extraction "oracle.ml" utf8_decode_one utf8_encode runes explode valid_utf8 code_points
  split join to_upper to_lower occurs
  stable_sort cmp_float sort_floats sort_by_key sort_by_float
  grow_cap grow_cap_N cap_trace
  regex_match parse_pattern
  f_bits f_of_bits f_is_nan.
