#!/usr/bin/env python3
"""Case generator / result comparer for the Oracle layer.

  gen.py gen <jqh-cases> <extra-cases> [scale]   write the two case files
  gen.py cmp <cases> <go-results> <model-results> compare, print per-kind counts

Case format: /verif/harness/PROTOCOL.md ("Further library oracles", CAP) plus the kinds of
extra.go (ENC, DEC, VALID, NSPLIT, SORTK, LOWUP)."""
import random
import struct
import sys


def hx(b):
    if isinstance(b, str):
        b = b.encode("utf-8", "surrogatepass")
    return b.hex() if b else "-"


# ------------------------------------------------------------------ regex

LIT = ["a", "a", "a", "b", "b", "c", "A", "0", "1", "_", " ", "-", ",", ":", "/", "@", "x", "z",
       "é", "日", "\U0001F600", "\n", "�", "}", "]", "=", "\t", "\r", "~", "\x00", "\x7f"]
SPECIAL = set("\\.+*?()|[]{}^$")
PERL = ["\\d", "\\D", "\\w", "\\W", "\\s", "\\S"]
ESC = ["\\n", "\\t", "\\r", "\\.", "\\\\", "\\/", "\\[", "\\]", "\\(", "\\)", "\\*", "\\+", "\\?",
       "\\{", "\\}", "\\|", "\\^", "\\$", "\\-", "\\_", "\\ ", "\\,", "\\f", "\\v", "\\a"]
ESCVAL = {"\\n": "\n", "\\t": "\t", "\\r": "\r", "\\f": "\f", "\\v": "\v", "\\a": "\a"}


def esc_value(e):
    return ESCVAL.get(e, e[1:])


def sample_perl(rng, p):
    pools = {"\\d": "0123456789", "\\w": "abcABC019_", "\\s": " \t\n\r\f",
             "\\D": "ab -\né", "\\W": " -,\né@", "\\S": "ab0_-é"}
    return rng.choice(pools[p])


class Node:
    pass


def gen_class(rng):
    """returns (text, sampler)"""
    neg = rng.random() < 0.3
    items = []
    samples = []
    n = rng.randint(1, 4)
    if rng.random() < 0.08:
        items.append("]")
        samples.append("]")
    if rng.random() < 0.08:
        items.append("-")
        samples.append("-")
    for _ in range(n):
        k = rng.random()
        if k < 0.35:
            c = rng.choice(LIT)
            if c in "]\\^-" or c == "[":
                items.append("\\" + c)
            else:
                items.append(c)
            samples.append(c)
        elif k < 0.65:
            lo, hi = sorted([rng.choice("abcxzAZ019é日 "), rng.choice("abcxzAZ019é日 ")])
            if rng.random() < 0.05:
                lo, hi = hi, lo
            items.append(lo + "-" + hi)
            samples.append(lo)
            samples.append(hi)
        elif k < 0.85:
            p = rng.choice(PERL)
            items.append(p)
            samples.append(sample_perl(rng, p))
        elif k < 0.95:
            e = rng.choice(ESC)
            items.append(e)
            samples.append(esc_value(e))
        else:
            items.append(rng.choice([".", "*", "(", "|", "$", "{", "+", "?", ")"]))
            samples.append(items[-1])
    if rng.random() < 0.08:
        items.append("-")
        samples.append("-")
    text = "[" + ("^" if neg else "") + "".join(items) + "]"
    if neg:
        def samp(r):
            return r.choice(["a", "b", "q", "\n", "é", "7", " "])
    else:
        def samp(r, s=samples):
            return r.choice(s)
    return text, samp


def gen_atom(rng, depth):
    """returns (text, sample function rng->str)"""
    k = rng.random()
    if depth > 0 and k < 0.22:
        t, s = gen_alt(rng, depth - 1)
        opener = "(?:" if rng.random() < 0.35 else "("
        return opener + t + ")", s
    if k < 0.60:
        c = rng.choice(LIT)
        if c in SPECIAL:
            return "\\" + c, (lambda r, c=c: c)
        return c, (lambda r, c=c: c)
    if k < 0.68:
        return ".", (lambda r: r.choice(["a", "b", "é", " ", "0"]))
    if k < 0.80:
        return gen_class(rng)
    if k < 0.87:
        p = rng.choice(PERL)
        return p, (lambda r, p=p: sample_perl(r, p))
    if k < 0.93:
        e = rng.choice(ESC)
        return e, (lambda r, e=e: esc_value(e))
    if k < 0.965:
        return "^", (lambda r: "")
    return "$", (lambda r: "")


def gen_quant(rng):
    k = rng.random()
    if k < 0.55:
        return "", 1, 1
    if k < 0.65:
        q, lo, hi = "*", 0, 3
    elif k < 0.75:
        q, lo, hi = "+", 1, 3
    elif k < 0.85:
        q, lo, hi = "?", 0, 1
    else:
        a = rng.choice([0, 0, 1, 1, 2, 2, 3, 4, 5])
        form = rng.random()
        if form < 0.4:
            q, lo, hi = "{%d}" % a, a, a
        elif form < 0.65:
            q, lo, hi = "{%d,}" % a, a, a + 2
        else:
            b = a + rng.choice([0, 1, 2, 3])
            if rng.random() < 0.04:
                b = max(0, a - 1)
            q, lo, hi = "{%d,%d}" % (a, b), a, max(a, b)
    if rng.random() < 0.15:
        q += "?"
    return q, lo, hi


def gen_piece(rng, depth):
    t, s = gen_atom(rng, depth)
    q, lo, hi = gen_quant(rng)

    def samp(r, s=s, lo=lo, hi=hi):
        return "".join(s(r) for _ in range(r.randint(lo, hi)))
    return t + q, samp


def gen_concat(rng, depth):
    n = rng.choice([0, 1, 1, 2, 2, 2, 3, 3, 4])
    parts = [gen_piece(rng, depth) for _ in range(n)]
    return "".join(p[0] for p in parts), (lambda r, parts=parts: "".join(p[1](r) for p in parts))


def gen_alt(rng, depth):
    n = rng.choice([1, 1, 1, 1, 2, 2, 3])
    alts = [gen_concat(rng, depth) for _ in range(n)]
    return "|".join(a[0] for a in alts), (lambda r, alts=alts: r.choice(alts)[1](r))


MUT_CHARS = list("()[]{}*+?|\\^$.-,:0123456789abdDwWsSxpPQEAzBbnt<>!=#i") + ["(?:", "(?i)", "(?P<n>", "[[:alpha:]]", "\\pL", "\\x41", "\\Q", "\\E", "{2}", "{1,", "{,3}", "**", "+?", "??"]


def mutate(rng, pat):
    b = list(pat)
    for _ in range(rng.choice([1, 1, 2, 3])):
        op = rng.random()
        pos = rng.randint(0, len(b))
        if op < 0.45:
            b.insert(pos, rng.choice(MUT_CHARS))
        elif op < 0.8 and b:
            del b[min(pos, len(b) - 1)]
        elif b:
            b[min(pos, len(b) - 1)] = rng.choice(MUT_CHARS)
    return "".join(b)


SUBJ_PIECES = ["a", "a", "a", "b", "b", "c", "A", "0", "1", "_", " ", "\n", "-", ".", "@", "x", ",", ":", "/",
               "é", "日", "\U0001F600", "�", "}", "]", "\t", "ab", "abc", "aa", "\r"]
BAD_BYTES = [b"\xff", b"\xc3", b"\xe6\x97", b"\x80", b"\xf0\x9f\x98", b"\xc0\x80", b"\xed\xa0\x80", b"\xf5"]


def rand_subject(rng, maxlen=10):
    n = rng.choice([0, 1, 2, 3, 4, 5, 6, 8, maxlen])
    out = b""
    for _ in range(n):
        if rng.random() < 0.06:
            out += rng.choice(BAD_BYTES)
        else:
            out += rng.choice(SUBJ_PIECES).encode("utf-8")
    return out


TYPICAL = [
    r"^[0-9]+$", r"[a-z]+@[a-z]+\.com", r"^M", "Asia", "a|b|", "(ab)*c", "^$", "x{2,3}", "", "a", "^a", "a$",
    "^a$", "a*", "a+", "a?", "a??", "a*?", "a+?", ".", ".*", ".+", "^.*$", "^.$", "[abc]", "[^abc]", "[a-c]+",
    r"\d+", r"\w+", r"\s", r"\D", r"\W", r"\S", r"^\d{3}-\d{4}$", r"(a|b)*c", r"(?:a|b)+", "a|", "|a", "|", "()",
    "(|)", "(a|)", "a**", "a*+", "a+*", "a?*", "a***", "*a", "+a", "?a", "(*a)", "(|*)", "|*", "^*", "$*", "^+a",
    "a{2}", "a{2,}", "a{,2}", "a{2,1}", "a{1001}", "a{1000}", "a{0}", "a{0,0}", "a{0,1}", "a{", "a{1", "a{1,",
    "a{1,2", "a{a}", "{", "}", "{}", "{1}", "a{01}", "a{1,02}", "a{0,}", "a{00}", "a{1}{2}", "a{1}*", "a*{2}",
    "a{1}?", "a{1}??", "a{2,3}?", "a{99999999999}", "a{1,99999999999}", "a{99999999999", "a{ 1}", "a{1 }",
    "[", "]", "[]", "[]]", "[^]", "[^]]", "[]a]", "[a", "[a-", "[a-]", "[-a]", "[a-z", "[z-a]", "[a-a]", "[a--]",
    "[+--]", "[--a]", "[a-b-c]", "[\\d-z]", "[a-\\d]", "[\\]", "[\\]]", "[\\\\]", "[\\n]", "[^\\n]", "[^\\d\\D]", "[\\d\\D]",
    "[.]", "[*]", "[(]", "[|]", "[$]", "[^^]", "[\\^]", "[a^]", "[[]", "[[a]", "[[:alpha:]]", "[[:foo:]]", "[[:", "[[:]",
    "\\", "a\\", "\\\\", "\\.", "\\/", "\\[", "\\-", "\\_", "\\ ", "\\e", "\\q", "\\E", "\\8", "\\9", "\\1", "\\0",
    "\\b", "\\B", "\\A", "\\z", "\\Z", "\\C", "\\pL", "\\x41", "\\Qa.b\\E", "\\G", "\\h", "\\u", "\\é",
    "(", ")", "(a", "a)", "((a)", "(a))", "(?:a)", "(?:", "(?", "(?i)a", "(?i:a)", "(?P<x>a)", "(?<x>a)", "(?=a)",
    "(?:)*", "()*", "(a*)*", "(a*)+", "(a+)+", "(a|b*)*c", "(^a)*", "(a$)*", "(^|a){2}", "(a|$){3}", "(a|^)b",
    "a^b", "a$b", "^^a", "a$$", "$^", "^$^$", "(^)(^)a", "(?:^)*a", "é+", "[é]", "[^é]", "日.", "�",
    "[�]", ".\n", "a.c", "a\nb", "[^a]", "\\n", "\\t", "a|b|c", "(a|b|c){2}", "((a{2}){3}){4}", "(a{2}|b){3}",
    "x*y*z*", "(x+x+)+y", "a{0}b", "(a{0}){5}", "(a{1,3}){2,}", "(ab|a)(bc|c)?", "^(a|ab)(c|bcd)$",
    "[a-z]+@[a-z]+\\.com", "^[A-Z][a-z]*$", "^\\s*$", "\\S+\\s+\\S+", "[0-9]{1,3}\\.[0-9]{1,3}", "^#", "foo|bar", ",",
]
TYP_SUBJ = [b"", b"a", b"b", b"ab", b"abc", b"aa", b"aaa", b"aaaa", b"ba", b"c", b"abab", b"ababc", b"M", b"Mx", b"xM",
            b"Asia", b"in Asia.", b"asia", b"123", b"12a", b"a12", b"x", b"xx", b"xxx", b"xxxx", b"foo@bar.com",
            b"foo@barxcom", b"\n", b"a\n", b"\na", b"a\nb", b" ", b"  ", b"a b", b"555-1234", b"5555-1234", b"{", b"}",
            b"a{", b"a{1", b"a{1,", b"a{,2}", b"a{a}", b"{}", b"{1}", b"]", b"[", b"-", b"^", b"\\", b".", b"/",
            b"\xc3\xa9", b"\xc3\xa9\xc3\xa9", b"\xe6\x97\xa5a", b"\xff", b"a\xffb", b"\xef\xbf\xbd", b"\xc3", b"_",
            b"e", b"q", b"8", b"1", b"\x00", b"A", b"Z", b"z", b"+", b",", b"a.b", b"aXc", b"a\nc", b"xyz", b"xxy",
            b"bc", b"abcd", b"abc\n", b"1.2", b"10.200", b"#x", b"foo", b"bar", b"fo", b"*", b"(", b")", b"|", b"$"]


def regex_cases(rng, n_grammar, n_mut):
    """yields (tag, pattern bytes, subject bytes); tag in g (grammar), m (mutated), t (typical), e (escapes), l (limits)"""
    for p in TYPICAL:
        pb = p.encode("utf-8")
        for s in TYP_SUBJ:
            yield "t", pb, s
    # every escape \X, outside and inside a class
    for x in list(range(0, 128)) + [0xE9, 0x65E5]:
        ch = chr(x).encode("utf-8")
        for pat in (b"\\" + ch, b"[\\" + ch + b"]", b"[a-\\" + ch + b"]", b"\\" + ch + b"+"):
            for s in (ch, b"a" + ch + ch, b"", b"\\" + ch, b"0", b" ", b"\n"):
                yield "e", pat, s
    # invalid UTF-8 in the pattern
    for bad in BAD_BYTES:
        for pat in (bad, b"a" + bad, b"[" + bad + b"]", b"[a-" + bad + b"]", b"\\" + bad, b"a|" + bad + b"*"):
            yield "e", pat, b"a" + bad
    # limits: counted repetition products, nesting depth, pattern length
    lim = ["a{1000}", "a{1001}", "(a{500}){2}", "(a{501}){2}", "(a{1000}){1}", "((a{1000}){1}){2}", "(a{1000}){0}",
           "((a{10}){10}){10}", "((a{10}){10}){11}", "((a{10}){11}){10}", "(a{2,}){500}", "(a{2,}){501}", "(a{0,}){1000}",
           "(a{1,}){1000}", "(a*){1000}", "(a{31}){32}", "(a{32}){32}", "(a{31}){33}", "(a{100}|b{10}){10}", "(a{101}|b){10}",
           "a{100}b{100}", "a{1000}b{1000}", "a{100}b{100}c{100}", "a{1000}b{3}", "a{1000}b{1000}c{1000}", "(a{5}b{5}){200}",
           "(a{5}b{6}){200}", "(a{0,1000}){1}", "(a{0,1000}){2}", "(a?){1000}", "(a{0}){1000}", "((a{0}){1000}){1000}",
           "(((a{2}){2}){2}){2}", "(((((((((a{2}){2}){2}){2}){2}){2}){2}){2}){2})", "((((((((((a{2}){2}){2}){2}){2}){2}){2}){2}){2}){2})",
           "a{2}{3}", "(a{2})*{3}", "(a+){1000}", "(a{1000})+", "((a{1000})+){2}", "((a{1000})*)?{2}", "(a{30}|b*){30}c"]
    for p in lim:
        for s in ("", "a", "a" * 30, "a" * 100, "a" * 101, "a" * 1000, "b" * 100 + "c", "a" * 100 + "b" * 100):
            yield "l", p.encode(), s.encode()
    for d in (1, 10, 48, 49, 50, 51, 52, 53, 60, 120, 300):
        for inner in ("a", "", "a|b", "a*"):
            for close in (d, d - 1, d + 1):
                yield "l", ("(" * d + inner + ")" * close).encode(), b"a"
                yield "l", ("(?:" * d + inner + ")" * close).encode(), b"b"
    for n in (990, 999, 1000, 1001, 1002, 1500):
        yield "l", b"a" * n, b"b" + b"a" * 20      # (a long all-equal literal is the matcher's slowest case)
        yield "l", b"a" * n, b""
        yield "l", b"a" * (n - 1) + b"(", b"a"
    for k in range(n_grammar):
        depth = rng.choice([0, 1, 2, 3, 4, 5])
        pat, samp = gen_alt(rng, depth)
        pb = pat.encode("utf-8")
        if len(pb) > 120:
            continue
        for j in range(3):
            if j == 0:
                s = rand_subject(rng)
            else:
                try:
                    m = samp(rng).encode("utf-8")
                except RecursionError:
                    m = b""
                if len(m) > 40:
                    m = m[:40]
                r = rng.random()
                if r < 0.4:
                    s = m
                elif r < 0.7:
                    s = rand_subject(rng, 3) + m + rand_subject(rng, 3)
                else:
                    # damage the witness
                    mm = bytearray(m)
                    if mm:
                        i = rng.randrange(len(mm))
                        if rng.random() < 0.5:
                            del mm[i]
                        else:
                            mm[i] = rng.choice(b"abc 0\n\xff")
                    s = bytes(mm)
            yield "g", pb, s
    for k in range(n_mut):
        depth = rng.choice([0, 1, 2, 3])
        pat, samp = gen_alt(rng, depth)
        pat = mutate(rng, pat)
        pb = pat.encode("utf-8")
        if rng.random() < 0.05:
            i = rng.randint(0, len(pb))
            pb = pb[:i] + rng.choice(BAD_BYTES) + pb[i:]
        if len(pb) > 120:
            continue
        for j in range(2):
            yield "m", pb, rand_subject(rng)


# ------------------------------------------------------------------ strings / utf8

def rand_bytes(rng, maxlen=12):
    n = rng.randint(0, maxlen)
    kind = rng.random()
    out = bytearray()
    for _ in range(n):
        r = rng.random()
        if kind < 0.3:
            out.append(rng.choice(b"abcXYZ019 ,.-_az AZ@[`{"))
        elif r < 0.5:
            out += rng.choice(SUBJ_PIECES).encode("utf-8")
        elif r < 0.75:
            out.append(rng.randrange(256))
        elif r < 0.85:
            out += rng.choice(BAD_BYTES)
        else:
            cp = rng.choice([rng.randrange(0x80, 0x800), rng.randrange(0x800, 0xD800), rng.randrange(0xE000, 0x10000),
                             rng.randrange(0x10000, 0x110000), 0x7FF, 0x800, 0xFFFF, 0x10000, 0x10FFFF, 0xD7FF, 0xE000, 0xFFFD])
            enc = chr(cp).encode("utf-8")
            if rng.random() < 0.2:
                enc = enc[:-1]          # truncated
            out += enc
    return bytes(out)


def utf8_edge_strings():
    out = [b""]
    # all two-byte combinations around the boundaries, and structured 3/4 byte probes
    leads = [0x00, 0x41, 0x7F, 0x80, 0xBF, 0xC0, 0xC1, 0xC2, 0xDF, 0xE0, 0xE1, 0xEC, 0xED, 0xEE, 0xEF, 0xF0, 0xF1, 0xF3, 0xF4, 0xF5, 0xFF]
    conts = [0x00, 0x7F, 0x80, 0x8F, 0x90, 0x9F, 0xA0, 0xBF, 0xC0, 0xFF]
    for a in leads:
        out.append(bytes([a]))
        for b in conts:
            out.append(bytes([a, b]))
            for c in (0x7F, 0x80, 0xBF, 0xC0):
                out.append(bytes([a, b, c]))
                for d in (0x7F, 0x80, 0xBF, 0xC0):
                    out.append(bytes([a, b, c, d, 0x41]))
    return out


def main_gen(path_jqh, path_extra, scale):
    rng = random.Random(20261001)
    nid = [0]

    def nxt():
        nid[0] += 1
        return nid[0]

    with open(path_jqh, "w") as f, open(path_extra, "w") as g:
        # regex
        for tag, p, s in regex_cases(rng, int(30000 * scale), int(12000 * scale)):
            f.write("REGEX %s%d %s %s\n" % (tag, nxt(), hx(p), hx(s)))
        # utf8 / strings
        strs = utf8_edge_strings() + [rand_bytes(rng) for _ in range(int(30000 * scale))]
        for s in strs:
            f.write("STRFN r%d runes %s\n" % (nxt(), hx(s)))
            f.write("STRFN x%d split %s -\n" % (nxt(), hx(s)))
            g.write("VALID v%d %s\n" % (nxt(), hx(s)))
            g.write("DEC d%d %s\n" % (nxt(), hx(s)))
        for _ in range(int(30000 * scale)):
            k = rng.random()
            if k < 0.5:
                alpha = rng.choice([b"ab", b"a,", b"ab,", b"a\xc3\xa9", b",; "])
                s = bytes(rng.choice(alpha) for _ in range(rng.randint(0, 14)))
                sep = bytes(rng.choice(alpha) for _ in range(rng.randint(0, 3)))
            else:
                s = rand_bytes(rng)
                if s and rng.random() < 0.6:
                    i = rng.randrange(len(s))
                    sep = s[i:i + rng.randint(1, 3)]
                else:
                    sep = rand_bytes(rng, 2)
            f.write("STRFN s%d split %s %s\n" % (nxt(), hx(s), hx(sep)))
            g.write("NSPLIT n%d %s %s\n" % (nxt(), hx(s), hx(sep)))
        for s in [b"", b"a", b",", b",,", b"a,b", b",a,", b"aaa", b"aaaa"]:
            for sep in [b"", b",", b"a", b"aa", b",,", b"ab"]:
                f.write("STRFN s%d split %s %s\n" % (nxt(), hx(s), hx(sep)))
                g.write("NSPLIT n%d %s %s\n" % (nxt(), hx(s), hx(sep)))
        for b in range(256):
            f.write("STRFN u%d upper %s\n" % (nxt(), hx(bytes([b]))))
            f.write("STRFN l%d lower %s\n" % (nxt(), hx(bytes([b]))))
        for _ in range(int(15000 * scale)):
            if rng.random() < 0.8:
                s = bytes(rng.randrange(128) for _ in range(rng.randint(0, 16)))
            else:
                s = rand_bytes(rng)
            f.write("STRFN u%d upper %s\n" % (nxt(), hx(s)))
            f.write("STRFN l%d lower %s\n" % (nxt(), hx(s)))
            g.write("LOWUP w%d %s\n" % (nxt(), hx(s)))
        # utf8_encode
        encs = list(range(0, 0x900)) + list(range(0xD700, 0xE100)) + list(range(0xFF00, 0x10100)) + \
            list(range(0x10FF00, 0x110100)) + [rng.randrange(0, 0x120000) for _ in range(int(20000 * scale))] + \
            [0x7FFFFFFF, 0x80000000, 0xFFFFFFFF, 0x200000, 0x3FFFFFF]
        for r in encs:
            g.write("ENC e%d %d\n" % (nxt(), r))
        # slice growth
        for n in range(0, 70001):
            f.write("CAPFROM c%d %d\n" % (nxt(), n))
        for _ in range(int(4000 * scale)):
            f.write("CAPFROM c%d %d\n" % (nxt(), rng.randrange(70000, 2100001)))
        for n in (0, 1, 2, 5, 600, 1100000):
            f.write("CAP C%d %d\n" % (nxt(), n))
        # sorting
        specials = [0x0000000000000000, 0x8000000000000000, 0x7ff0000000000000, 0xfff0000000000000, 0x7ff8000000000001,
                    0x3ff0000000000000, 0xbff0000000000000, 0x0000000000000001, 0x8000000000000001, 0x7fefffffffffffff,
                    0xffefffffffffffff, 0x4000000000000000, 0x3fe0000000000000, 0x000fffffffffffff, 0x0010000000000000]
        for _ in range(int(12000 * scale)):
            n = rng.choice([0, 1, 2, 3, 4, 5, 8, 12, 20, 40])
            xs = []
            for _ in range(n):
                k = rng.random()
                if k < 0.45:
                    xs.append(rng.choice(specials))
                elif k < 0.75:
                    xs.append(struct.unpack("<Q", struct.pack("<d", float(rng.randint(-5, 5))))[0])
                else:
                    xs.append(rng.getrandbits(64))
            # NaN payloads are canonicalised by the harness: only feed the canonical NaN
            xs = [0x7ff8000000000001 if ((x >> 52) & 0x7ff) == 0x7ff and (x & ((1 << 52) - 1)) else x for x in xs]
            f.write("SORTF f%d %s\n" % (nxt(), ",".join("%016x" % x for x in xs) if xs else "-"))
        for _ in range(int(8000 * scale)):
            n = rng.choice([0, 1, 2, 3, 5, 8, 13, 30])
            keys = [bytes(rng.choice(b"ab\xc3") for _ in range(rng.randint(0, 3))) for _ in range(n)]
            g.write("SORTK k%d %s\n" % (nxt(), ",".join(hx(k) for k in keys) if keys else "-"))


# ------------------------------------------------------------------ compare

def main_cmp(cases, go_out, model_out):
    kinds = {}
    for line in open(cases):
        parts = line.split()
        if len(parts) < 2 or parts[0].startswith("#"):
            continue
        kind = parts[0]
        if kind == "STRFN":
            kind += " " + parts[2]
        if kind == "REGEX":
            kind += " " + {"g": "grammar", "m": "mutated", "t": "typical", "e": "escapes", "l": "limits"}[parts[1][0]]
        kinds[parts[1]] = (kind, line.strip())
    go = {}
    for line in open(go_out):
        p = line.rstrip("\n").split(" ", 2)
        if len(p) == 3 and p[0] == "RES":
            go[p[1]] = p[2]
    stats = {}
    shown = 0
    seen = set()
    for line in open(model_out):
        p = line.rstrip("\n").split(" ", 2)
        if len(p) != 3 or p[0] != "RES":
            continue
        cid, res = p[1], p[2]
        seen.add(cid)
        kind, case = kinds[cid]
        st = stats.setdefault(kind, [0, 0, 0, {}])
        st[0] += 1
        if res == "unsupported":
            st[1] += 1
            continue
        d = st[3]
        d[res.split(" ")[0][:3] if kind.startswith("REGEX") else ""] = d.get(res.split(" ")[0][:3] if kind.startswith("REGEX") else "", 0) + 1
        if go.get(cid) != res:
            st[2] += 1
            if shown < 30:
                shown += 1
                print("MISMATCH %s\n   go:    %s\n   model: %s" % (case, go.get(cid), res))
    missing = [c for c in kinds if c not in seen]
    if missing:
        print("MISSING model results: %d (first %s)" % (len(missing), missing[:3]))
    total_bad = 0
    for kind in sorted(stats):
        n, uns, bad, d = stats[kind]
        total_bad += bad
        extra = ""
        if kind.startswith("REGEX"):
            extra = "  [" + " ".join("%s=%d" % kv for kv in sorted(d.items())) + "]"
        print("%-16s cases %7d  unsupported %6d (%5.2f%%)  compared %7d  mismatches %d%s" %
              (kind, n, uns, 100.0 * uns / max(1, n), n - uns, bad, extra))
    print("TOTAL mismatches %d, missing %d" % (total_bad, len(missing)))
    return 1 if (total_bad or missing) else 0


if __name__ == "__main__":
    if sys.argv[1] == "gen":
        main_gen(sys.argv[2], sys.argv[3], float(sys.argv[4]) if len(sys.argv) > 4 else 1.0)
    elif sys.argv[1] == "cmp":
        sys.exit(main_cmp(sys.argv[2], sys.argv[3], sys.argv[4]))
