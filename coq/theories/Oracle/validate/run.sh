#!/bin/sh
# Differential validation of JQ.Oracle.{Utf8,Strings,Sort,Slice,Regex} against real Go
# (the jqh harness + extra.go).  usage: run.sh [scale]   (scale 1: about 420k cases)
set -e
HERE=$(cd "$(dirname "$0")" && pwd)
THEORIES=$(cd "$HERE/../.." && pwd)
JQH=${JQH:-/verif/.build/jqh}
SCALE=${1:-1}
JOBS=${JOBS:-$(nproc)}
T=$(mktemp -d)
trap 'rm -rf "$T"' EXIT
export GOFLAGS=-mod=mod GOPROXY=off GOSUMDB=off GOTOOLCHAIN=local GO111MODULE=off
cp "$HERE/gen.py" "$HERE/driver.ml" "$HERE/extract.v" "$HERE/extra.go" "$T/"
( cd "$THEORIES/.." && for f in Base/Bytes Num/F64 Oracle/Utf8 Oracle/Strings Oracle/Sort Oracle/Slice Oracle/Regex; do
    [ "theories/$f.vo" -nt "theories/$f.v" ] || timeout 900 coqc -R theories JQ "theories/$f.v"; done )
cd "$T"
timeout 600 coqc -R "$THEORIES" JQ extract.v >/dev/null
ocamlfind ocamlopt -O3 -package str oracle.mli oracle.ml driver.ml -o driver 2>/dev/null || ocamlfind ocamlopt -package str oracle.mli oracle.ml driver.ml -o driver
go build -o extra extra.go
python3 gen.py gen jqh.cases extra.cases "$SCALE"
echo "cases: jqh $(wc -l < jqh.cases), extra $(wc -l < extra.cases)"
cat jqh.cases extra.cases > all.cases
"$JQH" jqh.cases > go.out
./extra extra.cases >> go.out
awk -v n="$JOBS" '{ print > ("chunk." (NR % n)) }' all.cases
for f in chunk.*; do ( ulimit -s unlimited 2>/dev/null; timeout 3000 ./driver "$f" > "out.$f" ) & done
wait
cat out.chunk.* > model.out
python3 gen.py cmp all.cases go.out model.out
