(* Proofs/Arrays.v -- arrays refine ideal lists (C15), stores (C09), auto-fill (C20). *)
From Coq Require Import List ZArith Bool Lia ZifyN ZifyNat ZifyBool Permutation Sorted.
From Coq Require Import FMapPositive.
From JQ Require Import Base.Bytes Num.F64 Oracle.Sort Oracle.Slice Gen.Generated.
From JQ Require Import Json.JValue Sem.Value Sem.Natives Sem.Eval.
From JQ Require Import Spec.IdealList.
Import ListNotations.
Open Scope nat_scope.

(* ================================================================ lists *)

Lemma skipn_list_set : forall {A} off (l : list A) n c,
  skipn off (list_set l (off + n) c) = list_set (skipn off l) n c.
Proof.
  intros A off; induction off as [|off IH]; intros l n c; [reflexivity|].
  destruct l as [|y l]; [reflexivity|]. simpl. apply IH.
Qed.

Lemma firstn_S_list_set : forall {A} n (l : list A) c, n < length l ->
  firstn (S n) (list_set l n c) = firstn n l ++ [c].
Proof.
  intros A n; induction n as [|n IH]; intros l c Hn; destruct l as [|y l]; simpl in *; try lia.
  - reflexivity.
  - f_equal. apply IH. lia.
Qed.

Lemma firstn_S_nth : forall {A} n (l : list A) x, nth_error l n = Some x ->
  firstn (S n) l = firstn n l ++ [x].
Proof.
  intros A n; induction n as [|n IH]; intros l x H; destruct l as [|y l]; simpl in *; try discriminate.
  - now inversion H.
  - f_equal. now apply IH.
Qed.

Lemma nth_error_skipn : forall {A} off (l : list A) n, nth_error (skipn off l) n = nth_error l (off + n).
Proof.
  intros A off; induction off as [|off IH]; intros l n; [reflexivity|].
  destruct l as [|y l]; simpl; [now destruct n|]. apply IH.
Qed.

Lemma skipn_nth_cons : forall {A} off (l : list A) c, nth_error l off = Some c ->
  skipn off l = c :: skipn (S off) l.
Proof.
  intros A off; induction off as [|off IH]; intros l c H; destruct l as [|y l]; simpl in *; try discriminate.
  - now inversion H.
  - now apply IH.
Qed.

Lemma nth_error_firstn_lt : forall {A} n (l : list A) k, k < n -> nth_error (firstn n l) k = nth_error l k.
Proof.
  intros A n; induction n as [|n IH]; intros l k Hk; [lia|].
  destruct l as [|y l]; [reflexivity|]. destruct k as [|k]; simpl; [reflexivity|]. apply IH. lia.
Qed.

Lemma window_length : forall {A} off len (l : list A), off + len <= length l ->
  length (firstn len (skipn off l)) = len.
Proof. intros A off len l H. rewrite firstn_length, skipn_length. lia. Qed.

Lemma nth_error_in_range : forall {A} (l : list A) n, n < length l -> exists x, nth_error l n = Some x.
Proof.
  intros A l n H. destruct (nth_error l n) as [x|] eqn:E; [now exists x|].
  apply nth_error_None in E. lia.
Qed.

Lemma list_set_length : forall {A} (l : list A) n c, length (list_set l n c) = length l.
Proof.
  intros A l; induction l as [|y l IH]; intros n c; [reflexivity|].
  destruct n; simpl; [reflexivity|]. now rewrite IH.
Qed.

Lemma list_set_map : forall {A B} (f : A -> B) (l : list A) n c,
  list_set (map f l) n (f c) = map f (list_set l n c).
Proof.
  intros A B f l; induction l as [|y l IH]; intros n c; [reflexivity|].
  destruct n; simpl; [reflexivity|]. now rewrite IH.
Qed.

Lemma firstn_S_app_cons : forall {A} (a : list A) c r, firstn (S (length a)) (a ++ c :: r) = a ++ [c].
Proof.
  intros A a c r. induction a as [|x a IH]; simpl; [reflexivity|]. f_equal. exact IH.
Qed.

Lemma NoDup_app_l : forall {A} (a b : list A), NoDup (a ++ b) -> NoDup a.
Proof.
  intros A a b; induction a as [|x a IH]; simpl; intros H; [constructor|].
  inversion H as [|y l Hx Hnd]; subst. constructor; [|now apply IH].
  intros Hin. apply Hx. rewrite in_app_iff. now left.
Qed.
Lemma NoDup_app_r : forall {A} (a b : list A), NoDup (a ++ b) -> NoDup b.
Proof.
  intros A a b; induction a as [|x a IH]; simpl; intros H; [exact H|].
  inversion H; subst. now apply IH.
Qed.

Lemma NoDup_app_intro_single : forall {A} (l : list A) c, NoDup l -> ~ In c l -> NoDup (l ++ [c]).
Proof.
  intros A l c Hnd Hc. induction Hnd as [|x l Hx Hnd IH]; simpl.
  - constructor; [intros []|constructor].
  - constructor.
    + rewrite in_app_iff. intros [H|[H|[]]]; [now apply Hx|]. apply Hc. now left.
    + apply IH. intros H. apply Hc. now right.
Qed.

(* ================================================================ heap basics *)

Definition set_hp (s : st) (h : heap) : st :=
  mkSt h (frames s) (rule_root s) (root s) (retval s) (io s).

Lemma set_hp_hp : forall s h, hp (set_hp s h) = h.
Proof. reflexivity. Qed.
Lemma set_hp_id : forall s, set_hp s (hp s) = s.
Proof. now intros []. Qed.
Lemma set_hp_twice : forall s h h', set_hp (set_hp s h) h' = set_hp s h'.
Proof. reflexivity. Qed.

Lemma load_store_same : forall h a v, load (store h a v) a = v.
Proof. intros h a v. unfold load, store. simpl. now rewrite PM.gss. Qed.
Lemma load_store_other : forall h a b v, a <> b -> load (store h b v) a = load h a.
Proof. intros h a b v H. unfold load, store. simpl. now rewrite PM.gso. Qed.
Lemma load_alloc_same : forall h v, load (snd (alloc h v)) (fst (alloc h v)) = v.
Proof. intros h v. unfold load, alloc. simpl. now rewrite PM.gss. Qed.
Lemma load_alloc_other : forall h v a, a <> next h -> load (snd (alloc h v)) a = load h a.
Proof. intros h v a H. unfold load, alloc. simpl. now rewrite PM.gso. Qed.
Lemma load_set_back : forall h b l a, load (set_back h b l) a = load h a.
Proof. reflexivity. Qed.
Lemma load_new_back : forall h l a, load (snd (new_back h l)) a = load h a.
Proof. reflexivity. Qed.

Lemma get_back_store : forall h a v b, get_back (store h a v) b = get_back h b.
Proof. reflexivity. Qed.
Lemma get_back_alloc : forall h v b, get_back (snd (alloc h v)) b = get_back h b.
Proof. reflexivity. Qed.
Lemma get_back_set_same : forall h b l, get_back (set_back h b l) b = l.
Proof. intros h b l. unfold get_back, set_back. simpl. now rewrite PM.gss. Qed.
Lemma get_back_set_other : forall h b b' l, b' <> b -> get_back (set_back h b l) b' = get_back h b'.
Proof. intros h b b' l H. unfold get_back, set_back. simpl. now rewrite PM.gso. Qed.
Lemma get_back_new_same : forall h l, get_back (snd (new_back h l)) (next h) = l.
Proof. intros h l. unfold get_back, new_back. simpl. now rewrite PM.gss. Qed.
Lemma get_back_new_other : forall h l b, b <> next h -> get_back (snd (new_back h l)) b = get_back h b.
Proof. intros h l b H. unfold get_back, new_back. simpl. now rewrite PM.gso. Qed.

Definition bid_of (h : heap) (pa : addr) : positive :=
  match load h pa with VArr b _ _ => b | _ => 1%positive end.

(* the cells seen through a holder *)
Definition cells_of (h : heap) (pa : addr) : list addr :=
  match load h pa with
  | VArr bid off len => arr_cells h bid off len
  | _ => []
  end.

Lemma abs_cells_of : forall h pa l, abs h pa = Some l -> l = map (load h) (cells_of h pa).
Proof.
  intros h pa l H. unfold abs, cells_of in *. destruct (load h pa); try discriminate. now inversion H.
Qed.

Lemma wf_abs : forall h pa, wf_holder h pa -> abs h pa = Some (map (load h) (cells_of h pa)).
Proof.
  intros h pa (bid & off & len & Hl & _). unfold abs, cells_of. now rewrite Hl.
Qed.

Lemma map_load_ext : forall h h' cs, (forall c, In c cs -> load h' c = load h c) ->
  map (load h') cs = map (load h) cs.
Proof. intros h h' cs H. apply map_ext_in. exact H. Qed.

(* ================================================================ append_at *)

(* the heart of push and of the auto-fill: appending the cell [c] through the holder *)
Lemma append_at_spec : forall h pa c,
  wf_holder h pa -> (c < next h)%positive -> c <> pa -> ~ In c (cells_of h pa) ->
  let h' := append_at h pa c in
  cells_of h' pa = cells_of h pa ++ [c] /\
  wf_holder h' pa /\
  (forall a, a <> pa -> load h' a = load h a) /\
  (next h <= next h')%positive /\
  objs h' = objs h /\
  (forall b, (b < next h)%positive ->
     (forall bid off len, load h pa = VArr bid off len -> b <> bid) ->
     get_back h' b = get_back h b).
Proof.
  intros h pa c (bid & off & len & Hl & Hin & Hpa & Hbid & Hall & Hnot & Hnd) Hc Hcpa Hcnot h'.
  unfold cells_of in Hcnot |- *. rewrite Hl in Hcnot |- *.
  subst h'. unfold append_at. rewrite Hl.
  destruct (Nat.ltb len (length (get_back h bid) - off)) eqn:Hcap.
  - (* in place *)
    apply Nat.ltb_lt in Hcap.
    set (back' := list_set (get_back h bid) (off + len) c).
    set (h1 := set_back h bid back').
    assert (Hcells : arr_cells (store h1 pa (VArr bid off (S len))) bid off (S len)
                     = arr_cells h bid off len ++ [c]).
    { unfold arr_cells. rewrite get_back_store. unfold h1. rewrite get_back_set_same.
      unfold back'. rewrite skipn_list_set. apply firstn_S_list_set. rewrite skipn_length. lia. }
    rewrite load_store_same. split; [exact Hcells|]. split; [|split; [|split; [|split]]].
    + exists bid, off, (S len). rewrite load_store_same. split; [reflexivity|].
      rewrite Hcells. rewrite get_back_store. unfold h1. rewrite get_back_set_same.
      unfold back'. rewrite list_set_length. simpl next.
      split; [lia|]. split; [exact Hpa|]. split; [exact Hbid|]. split; [|split].
      * apply Forall_app. split; [exact Hall|]. now constructor.
      * rewrite in_app_iff. intros [H|[H|[]]]; [now apply Hnot|]. now apply Hcpa.
      * apply NoDup_app_intro_single; assumption.
    + intros a Ha. now rewrite load_store_other.
    + simpl. lia.
    + reflexivity.
    + intros b _ Hb. rewrite get_back_store. unfold h1. apply get_back_set_other. now apply (Hb bid off len).
  - (* grow *)
    apply Nat.ltb_ge in Hcap.
    unfold new_back. cbv beta iota zeta.
    match goal with |- context [PM.add (next h) ?l (backs h)] => set (l' := l) end.
    change (mkHeap (cells h) (PM.add (next h) l' (backs h)) (objs h) (Pos.succ (next h)))
      with (snd (new_back h l')).
    set (elems := firstn len (skipn off (get_back h bid))) in *.
    assert (Hlen : length elems = len) by (apply window_length; exact Hin).
    assert (Hcells : arr_cells (store (snd (new_back h l')) pa (VArr (next h) 0 (S len))) (next h) 0 (S len)
                     = arr_cells h bid off len ++ [c]).
    { unfold arr_cells. rewrite get_back_store, get_back_new_same. simpl skipn.
      unfold l'. rewrite <- Hlen at 1. apply firstn_S_app_cons. }
    rewrite load_store_same. split; [exact Hcells|]. split; [|split; [|split; [|split]]].
    + exists (next h), 0, (S len). rewrite load_store_same. split; [reflexivity|].
      rewrite Hcells. rewrite get_back_store, get_back_new_same. simpl next.
      split; [unfold l'; rewrite app_length; simpl; lia|].
      split; [lia|]. split; [lia|]. split; [|split].
      * apply Forall_app. split.
        -- eapply Forall_impl; [|exact Hall]. simpl. intros a Ha. lia.
        -- constructor; [lia|constructor].
      * rewrite in_app_iff. intros [H|[H|[]]]; [now apply Hnot|]. now apply Hcpa.
      * apply NoDup_app_intro_single; assumption.
    + intros a Ha. rewrite load_store_other by exact Ha. reflexivity.
    + simpl. lia.
    + reflexivity.
    + intros b Hb _. rewrite get_back_store. apply get_back_new_other. lia.
Qed.

(* ================================================================ frame for a holder *)

Lemma holder_frame : forall h h' pa,
  wf_holder h pa -> (next h <= next h')%positive ->
  (forall a, (a < next h)%positive -> load h' a = load h a) ->
  (forall b, (b < next h)%positive -> get_back h' b = get_back h b) ->
  wf_holder h' pa /\ cells_of h' pa = cells_of h pa /\ abs h' pa = abs h pa.
Proof.
  intros h h' pa (bid & off & len & Hl & Hin & Hpa & Hbid & Hall & Hnot & Hnd) Hnext Hld Hbk.
  assert (Hl' : load h' pa = VArr bid off len) by (rewrite Hld; assumption).
  assert (Hc : arr_cells h' bid off len = arr_cells h bid off len)
    by (unfold arr_cells; now rewrite Hbk).
  split; [|split].
  - exists bid, off, len. rewrite Hc, Hbk by assumption.
    repeat split; try assumption; try lia.
    eapply Forall_impl; [|exact Hall]. simpl. intros a Ha. lia.
  - unfold cells_of. now rewrite Hl, Hl'.
  - unfold abs. rewrite Hl, Hl', Hc. f_equal. apply map_load_ext.
    intros c Hcin. apply Hld. rewrite Forall_forall in Hall. now apply Hall.
Qed.

Lemma holder_alloc : forall h pa v, wf_holder h pa ->
  wf_holder (snd (alloc h v)) pa /\ cells_of (snd (alloc h v)) pa = cells_of h pa /\
  abs (snd (alloc h v)) pa = abs h pa.
Proof.
  intros h pa v Hwf. apply holder_frame; [exact Hwf|simpl; lia| |].
  - intros a Ha. apply load_alloc_other. lia.
  - intros b _. apply get_back_alloc.
Qed.

Lemma wf_cells_lt : forall h pa, wf_holder h pa -> Forall (fun c => (c < next h)%positive) (cells_of h pa).
Proof. intros h pa (bid & off & len & Hl & _ & _ & _ & Hall & _). unfold cells_of. now rewrite Hl. Qed.
Lemma wf_pa_lt : forall h pa, wf_holder h pa -> (pa < next h)%positive.
Proof. intros h pa (bid & off & len & _ & _ & Hpa & _). exact Hpa. Qed.
Lemma wf_pa_notin : forall h pa, wf_holder h pa -> ~ In pa (cells_of h pa).
Proof. intros h pa (bid & off & len & Hl & _ & _ & _ & _ & Hnot & _). unfold cells_of. now rewrite Hl. Qed.
Lemma wf_nodup : forall h pa, wf_holder h pa -> NoDup (cells_of h pa).
Proof. intros h pa (bid & off & len & Hl & _ & _ & _ & _ & _ & Hnd). unfold cells_of. now rewrite Hl. Qed.

Lemma abs_contents : forall h pa l, abs h pa = Some l -> contents h (load h pa) = l.
Proof. intros h pa l. unfold abs, contents. destruct (load h pa); intros H; try discriminate. now inversion H. Qed.

(* appending a freshly allocated cell holding x *)
Lemma append_fresh : forall h pa x l,
  wf_holder h pa -> abs h pa = Some l ->
  let h1 := snd (alloc h x) in
  let h2 := append_at h1 pa (next h) in
  abs h2 pa = Some (l ++ [x]) /\ wf_holder h2 pa /\
  cells_of h2 pa = cells_of h pa ++ [next h] /\
  (forall a, a <> pa -> a <> next h -> load h2 a = load h a) /\
  load h2 (next h) = x /\
  (next h < next h2)%positive /\ objs h2 = objs h /\
  (forall b, (b < next h)%positive ->
     (forall bid off len, load h pa = VArr bid off len -> b <> bid) ->
     get_back h2 b = get_back h b).
Proof.
  intros h pa x l Hwf Habs h1 h2.
  destruct (holder_alloc h pa x Hwf) as (Hwf1 & Hc1 & Ha1). fold h1 in Hwf1, Hc1, Ha1.
  pose proof (wf_pa_lt _ _ Hwf) as Hpa.
  pose proof (wf_cells_lt _ _ Hwf) as Hlt. rewrite Forall_forall in Hlt.
  assert (Hn1 : next h1 = Pos.succ (next h)) by reflexivity.
  destruct (append_at_spec h1 pa (next h) Hwf1) as (Hc2 & Hwf2 & Hld2 & Hnx2 & Hob2 & Hbk2).
  { rewrite Hn1. lia. }
  { lia. }
  { rewrite Hc1. intros Hin. apply Hlt in Hin. lia. }
  fold h2 in Hc2, Hwf2, Hld2, Hnx2, Hob2, Hbk2.
  assert (Hx : load h2 (next h) = x).
  { rewrite Hld2 by lia. unfold h1. apply (load_alloc_same h x). }
  split; [|split; [exact Hwf2|split; [now rewrite Hc2, Hc1|split; [|split; [exact Hx|split; [lia|split]]]]]].
  - rewrite (wf_abs _ _ Hwf2), Hc2, Hc1, map_app. simpl. rewrite Hx. f_equal. f_equal.
    apply abs_cells_of in Habs. rewrite Habs. apply map_load_ext.
    intros c Hin. rewrite Hld2.
    + unfold h1. apply load_alloc_other. apply Hlt in Hin. lia.
    + intros ->. now apply (wf_pa_notin _ _ Hwf).
  - intros a Ha1' Ha2. rewrite Hld2 by exact Ha1'. unfold h1. now apply load_alloc_other.
  - rewrite Hob2. reflexivity.
  - intros b Hb Hne. rewrite Hbk2.
    + unfold h1. apply get_back_alloc.
    + rewrite Hn1. lia.
    + intros bid off len Hl. apply (Hne bid off len). rewrite <- Hl. symmetry.
      unfold h1. apply load_alloc_other. lia.
Qed.

(* ================================================================ the natives, as equations *)

Lemma native_push_eq : forall s pa x,
  native_call NPush [x] (Some pa) s =
  let h2 := append_at (snd (alloc (hp s) x)) pa (next (hp s)) in
  (Ok (NVal (load h2 pa)), set_hp s h2).
Proof. reflexivity. Qed.

Lemma native_pop_eq : forall s pa,
  native_call NPop [] (Some pa) s =
  match load (hp s) pa with
  | VArr bid off (S len') =>
    (Ok (NVal (match nth_error (get_back (hp s) bid) (off + len') with
               | Some c => load (hp s) c | None => VNil None end)),
     set_hp s (store (hp s) pa (VArr bid off len')))
  | _ => (Ok (NVal (VNil None)), s)
  end.
Proof.
  intros s pa. unfold native_call, this_value, bind, m_load, get_heap, ret, m_store, upd_heap.
  destruct (load (hp s) pa) as [| | |bid off [|len']| | | | | |]; reflexivity.
Qed.

Lemma native_popfirst_eq : forall s pa,
  native_call NPopFirst [] (Some pa) s =
  match load (hp s) pa with
  | VArr bid off (S len') =>
    (Ok (NVal (match nth_error (get_back (hp s) bid) off with
               | Some c => load (hp s) c | None => VNil None end)),
     set_hp s (store (hp s) pa (VArr bid (S off) len')))
  | _ => (Ok (NVal (VNil None)), s)
  end.
Proof.
  intros s pa. unfold native_call, this_value, bind, m_load, get_heap, ret, m_store, upd_heap.
  destruct (load (hp s) pa) as [| | |bid off [|len']| | | | | |]; reflexivity.
Qed.

Lemma native_length_eq : forall s pa args,
  native_call NArrLength args (Some pa) s =
  (Ok (NVal (num_of_nat (match load (hp s) pa with VArr _ _ len => len | _ => 0 end))), s).
Proof.
  intros s pa args. unfold native_call, this_value, bind, m_load, get_heap, ret.
  destruct (load (hp s) pa); reflexivity.
Qed.

Lemma native_contains_eq : forall s pa x,
  native_call NContains [x] (Some pa) s =
  match contains_loop (hp s) x (cells_of (hp s) pa) with
  | Some r => (Ok r, s)
  | None => (Unsupp, s)
  end.
Proof.
  intros s pa x. unfold native_call, this_value, bind, m_load, get_heap, ret, cells_of, fail.
  destruct (load (hp s) pa); simpl; try reflexivity.
  match goal with |- context [contains_loop ?a ?b ?c] => destruct (contains_loop a b c) end; reflexivity.
Qed.

(* ================================================================ single steps *)

Lemma push_refines : forall s pa x l,
  wf_holder (hp s) pa -> abs (hp s) pa = Some l ->
  exists h', native_call NPush [x] (Some pa) s = (Ok (NVal (load h' pa)), set_hp s h') /\
             abs h' pa = Some (l ++ [x]) /\ wf_holder h' pa.
Proof.
  intros s pa x l Hwf Habs. rewrite native_push_eq.
  destruct (append_fresh (hp s) pa x l Hwf Habs) as (Ha & Hw & _).
  eexists. split; [reflexivity|]. split; assumption.
Qed.

(* replacing the header by a sub-window of the same backing *)
Lemma holder_rewindow : forall h pa bid off len off' len' pre cs post,
  wf_holder h pa -> load h pa = VArr bid off len ->
  arr_cells h bid off len = pre ++ cs ++ post ->
  arr_cells h bid off' len' = cs ->
  off' + len' <= length (get_back h bid) ->
  let h' := store h pa (VArr bid off' len') in
  wf_holder h' pa /\ cells_of h' pa = cs /\ abs h' pa = Some (map (load h) cs).
Proof.
  intros h pa bid off len off' len' pre cs post Hwf Hl Hsplit Hcs Hin h'.
  destruct Hwf as (bid0 & off0 & len0 & Hl0 & Hin0 & Hpa & Hbid & Hall & Hnot & Hnd).
  rewrite Hl in Hl0. inversion Hl0; subst bid0 off0 len0. clear Hl0.
  rewrite Hsplit in Hall, Hnot, Hnd.
  assert (Hc' : arr_cells h' bid off' len' = cs) by exact Hcs.
  assert (Hl' : load h' pa = VArr bid off' len') by apply load_store_same.
  split; [|split].
  - exists bid, off', len'. rewrite Hc'. split; [exact Hl'|]. split; [exact Hin|].
    split; [exact Hpa|]. split; [exact Hbid|]. split; [|split].
    + apply Forall_app in Hall. destruct Hall as [_ Hall]. apply Forall_app in Hall. tauto.
    + intros H. apply Hnot. rewrite !in_app_iff. tauto.
    + apply NoDup_app_r in Hnd. now apply NoDup_app_l in Hnd.
  - unfold cells_of. now rewrite Hl'.
  - unfold abs. rewrite Hl', Hc'. f_equal. apply map_load_ext. intros c Hc.
    apply load_store_other. intros ->. apply Hnot. rewrite !in_app_iff. tauto.
Qed.

Lemma pop_refines : forall s pa l,
  wf_holder (hp s) pa -> abs (hp s) pa = Some l ->
  exists h', native_call NPop [] (Some pa) s = (Ok (NVal (last l nil_value)), set_hp s h') /\
             abs h' pa = Some (removelast l) /\ wf_holder h' pa.
Proof.
  intros s pa l Hwf Habs. rewrite native_pop_eq.
  pose proof Hwf as (bid & off & len & Hl & Hin & _).
  pose proof Habs as Habs'. unfold abs in Habs'. rewrite Hl in *. inversion Habs' as [Hl']. clear Habs'.
  destruct len as [|len'].
  - assert (l = []) as -> by (rewrite <- Hl'; reflexivity).
    exists (hp s). rewrite set_hp_id. split; [reflexivity|]. split; [exact Habs|exact Hwf].
  - destruct (nth_error_in_range (get_back (hp s) bid) (off + len')) as [c Hc]; [lia|].
    rewrite Hc.
    assert (Hsplit : arr_cells (hp s) bid off (S len') = [] ++ arr_cells (hp s) bid off len' ++ [c]).
    { unfold arr_cells. simpl. apply firstn_S_nth. now rewrite nth_error_skipn. }
    destruct (holder_rewindow (hp s) pa bid off (S len') off len' [] _ [c] Hwf Hl Hsplit eq_refl)
      as (Hw & _ & Ha); [lia|].
    eexists. split; [|split; [|exact Hw]].
    + rewrite Hsplit. simpl. rewrite map_app. simpl. rewrite last_last. reflexivity.
    + rewrite Ha. rewrite Hsplit. simpl. rewrite map_app. simpl. now rewrite removelast_last.
Qed.

Lemma popfirst_refines : forall s pa l,
  wf_holder (hp s) pa -> abs (hp s) pa = Some l ->
  exists h', native_call NPopFirst [] (Some pa) s = (Ok (NVal (hd nil_value l)), set_hp s h') /\
             abs h' pa = Some (tl l) /\ wf_holder h' pa.
Proof.
  intros s pa l Hwf Habs. rewrite native_popfirst_eq.
  pose proof Hwf as (bid & off & len & Hl & Hin & _).
  pose proof Habs as Habs'. unfold abs in Habs'. rewrite Hl in *. inversion Habs' as [Hl']. clear Habs'.
  destruct len as [|len'].
  - assert (l = []) as -> by (rewrite <- Hl'; reflexivity).
    exists (hp s). rewrite set_hp_id. split; [reflexivity|]. split; [exact Habs|exact Hwf].
  - destruct (nth_error_in_range (get_back (hp s) bid) off) as [c Hc]; [lia|].
    rewrite Hc.
    assert (Hsplit : arr_cells (hp s) bid off (S len') = [c] ++ arr_cells (hp s) bid (S off) len' ++ []).
    { unfold arr_cells. rewrite (skipn_nth_cons off _ c Hc). simpl. now rewrite app_nil_r. }
    destruct (holder_rewindow (hp s) pa bid off (S len') (S off) len' [c] _ [] Hwf Hl Hsplit eq_refl)
      as (Hw & _ & Ha); [lia|].
    eexists. split; [|split; [|exact Hw]].
    + rewrite Hsplit. reflexivity.
    + rewrite Ha. rewrite Hsplit. simpl. now rewrite app_nil_r.
Qed.

Lemma abs_length : forall h pa l bid off len,
  wf_holder h pa -> abs h pa = Some l -> load h pa = VArr bid off len -> length l = len.
Proof.
  intros h pa l bid off len (bid0 & off0 & len0 & Hl0 & Hin & _) Habs Hl.
  rewrite Hl in Hl0. inversion Hl0; subst. unfold abs in Habs. rewrite Hl in Habs.
  inversion Habs. rewrite map_length. now apply window_length.
Qed.

Lemma length_refines : forall s pa l args,
  wf_holder (hp s) pa -> abs (hp s) pa = Some l ->
  native_call NArrLength args (Some pa) s = (Ok (NVal (VNum (f_of_Z (Z.of_nat (length l))))), s).
Proof.
  intros s pa l args Hwf Habs. rewrite native_length_eq.
  pose proof Hwf as (bid & off & len & Hl & _). rewrite Hl.
  now rewrite (abs_length _ _ _ _ _ _ Hwf Habs Hl).
Qed.

(* index reads *)
Lemma cells_nth : forall h bid off len k, k < len ->
  nth_error (arr_cells h bid off len) k = nth_error (get_back h bid) (off + k).
Proof.
  intros h bid off len k Hk. unfold arr_cells. rewrite nth_error_firstn_lt by exact Hk.
  apply nth_error_skipn.
Qed.

Lemma index_refines : forall h pa l f,
  wf_holder h pa -> abs h pa = Some l ->
  match get_member h (load h pa) (VNum f) with
  | GmCell c => ideal_get l (f_trunc_int64 f) = RVal (load h c) /\
                exists k, resolve_index (length l) (f_trunc_int64 f) = Some (Z.of_nat k) /\
                          nth_error (cells_of h pa) k = Some c
  | GmNone => ideal_get l (f_trunc_int64 f) = RAbsent /\
              exists k, resolve_index (length l) (f_trunc_int64 f) = Some k /\ (Z.of_nat (length l) <= k)%Z
  | GmErr => ideal_get l (f_trunc_int64 f) = RErr /\ resolve_index (length l) (f_trunc_int64 f) = None
  | _ => False
  end.
Proof.
  intros h pa l f Hwf Habs.
  pose proof Hwf as (bid & off & len & Hl & Hin & _).
  pose proof (abs_length _ _ _ _ _ _ Hwf Habs Hl) as Hlen.
  pose proof (abs_cells_of _ _ _ Habs) as Hmap.
  unfold cells_of in *. rewrite Hl in *. unfold get_member, ideal_get, resolve_index. rewrite Hlen.
  set (i := f_trunc_int64 f).
  set (k := if (i <? 0)%Z then (Z.of_nat len + i)%Z else i).
  destruct (k <? 0)%Z eqn:Hk0; [split; reflexivity|].
  destruct (Z.of_nat len <=? k)%Z eqn:Hklen.
  - assert (Hnone : nth_error l (Z.to_nat k) = None) by (apply nth_error_None; lia).
    rewrite Hnone. split; [reflexivity|]. exists k. split; [reflexivity|lia].
  - assert (Hlt : Z.to_nat k < len) by lia.
    destruct (nth_error_in_range (get_back h bid) (off + Z.to_nat k)) as [c Hc]; [lia|].
    rewrite Hc. rewrite <- cells_nth with (len := len) in Hc by exact Hlt.
    split.
    + rewrite Hmap. rewrite nth_error_map, Hc. reflexivity.
    + exists (Z.to_nat k). split; [f_equal; lia|exact Hc].
Qed.

Ltac idx_triv := try (intros; discriminate); try (intros; lia); try (intros; exfalso; lia).

(* explicit form of the index rules *)
Lemma index_rules : forall h pa l f,
  wf_holder h pa -> abs h pa = Some l ->
  let i := f_trunc_int64 f in
  let n := Z.of_nat (length l) in
  let g := get_member h (load h pa) (VNum f) in
  (g = GmErr <-> (i < - n)%Z) /\
  (g = GmNone <-> (n <= i)%Z) /\
  ((0 <= i < n)%Z -> exists c, g = GmCell c /\ nth_error l (Z.to_nat i) = Some (load h c)) /\
  ((- n <= i < 0)%Z -> exists c, g = GmCell c /\ nth_error l (Z.to_nat (n + i)) = Some (load h c)).
Proof.
  intros h pa l f Hwf Habs. cbv zeta.
  pose proof Hwf as (bid & off & len & Hl & Hin & _).
  pose proof (abs_length _ _ _ _ _ _ Hwf Habs Hl) as Hlen.
  pose proof (abs_cells_of _ _ _ Habs) as Hmap.
  unfold cells_of in Hmap. rewrite Hl in *. rewrite Hlen. unfold get_member.
  set (i := f_trunc_int64 f).
  assert (Hcell : forall k, (0 <= k < Z.of_nat len)%Z ->
            exists c, nth_error (get_back h bid) (off + Z.to_nat k) = Some c /\
                      nth_error l (Z.to_nat k) = Some (load h c)).
  { intros k Hk. destruct (nth_error_in_range (get_back h bid) (off + Z.to_nat k)) as [c Hc]; [lia|].
    exists c. split; [exact Hc|]. rewrite <- cells_nth with (len := len) in Hc by lia.
    rewrite Hmap, nth_error_map, Hc. reflexivity. }
  destruct (i <? 0)%Z eqn:Hi0.
  - destruct (Z.of_nat len + i <? 0)%Z eqn:Hk0.
    + repeat split; idx_triv.
    + destruct (Z.of_nat len <=? Z.of_nat len + i)%Z eqn:Hkl; [lia|].
      destruct (Hcell (Z.of_nat len + i)%Z) as (c & Hc1 & Hc2); [lia|]. rewrite Hc1.
      repeat split; idx_triv. intros _. exists c. split; [reflexivity|exact Hc2].
  - rewrite Hi0. destruct (Z.of_nat len <=? i)%Z eqn:Hkl.
    + repeat split; idx_triv.
    + destruct (Hcell i) as (c & Hc1 & Hc2); [lia|]. rewrite Hc1.
      repeat split; idx_triv. intros _. exists c. split; [reflexivity|exact Hc2].
Qed.

(* ================================================================ contains *)

Lemma contains_is_eq : forall h x cs,
  match contains_loop h x cs with Some r => obs_plain (Ok r) | None => RUnsupp end
  = ideal_contains x (map (load h) cs).
Proof.
  intros h x cs. induction cs as [|c cs IH]; simpl; [reflexivity|].
  destruct (equals_values x (load h c)) as [[|]| |]; try reflexivity. exact IH.
Qed.

(* ideal_contains is "the first decisive comparison" *)
Lemma ideal_contains_spec : forall x l,
  (Forall (fun z => equals_values x z = EqOk false) l /\ ideal_contains x l = RVal (VBool false)) \/
  (exists l1 y l2, l = l1 ++ y :: l2 /\
     Forall (fun z => equals_values x z = EqOk false) l1 /\
     match equals_values x y with
     | EqOk true => ideal_contains x l = RVal (VBool true)
     | EqErr => ideal_contains x l = RErr
     | EqUnsupp => ideal_contains x l = RUnsupp
     | EqOk false => False
     end).
Proof.
  intros x l. induction l as [|y l IH]; [left; split; [constructor|reflexivity]|].
  simpl. destruct (equals_values x y) as [[|]| |] eqn:E.
  - right. exists [], y, l. rewrite E. repeat split; constructor.
  - destruct IH as [[Hall Hr]|(l1 & z & l2 & -> & Hall & Hz)].
    + left. split; [constructor; assumption|exact Hr].
    + right. exists (y :: l1), z, l2. split; [reflexivity|]. split; [constructor; assumption|exact Hz].
  - right. exists [], y, l. rewrite E. repeat split; constructor.
  - right. exists [], y, l. rewrite E. repeat split; constructor.
Qed.

Lemma contains_refines : forall s pa l x,
  wf_holder (hp s) pa -> abs (hp s) pa = Some l ->
  exists r, native_call NContains [x] (Some pa) s = (r, s) /\ obs_plain r = ideal_contains x l.
Proof.
  intros s pa l x Hwf Habs. rewrite native_contains_eq.
  pose proof (contains_is_eq (hp s) x (cells_of (hp s) pa)) as H.
  rewrite <- (abs_cells_of _ _ _ Habs) in H.
  destruct (contains_loop (hp s) x (cells_of (hp s) pa)) as [r|]; eexists; split; try reflexivity; exact H.
Qed.

(* ================================================================ stable insertion sort *)

Section StableSort.
  Context {A : Type} (le : A -> A -> bool).
  Hypothesis le_total : forall a b, le a b = true \/ le b a = true.
  Hypothesis le_trans : forall a b c, le a b = true -> le b c = true -> le a c = true.

  Lemma insert_perm : forall x l, Permutation (insert_sorted le x l) (x :: l).
  Proof.
    intros x l. induction l as [|y l IH]; simpl; [apply Permutation_refl|].
    destruct (le x y); [apply Permutation_refl|].
    eapply Permutation_trans; [apply perm_skip; exact IH|apply perm_swap].
  Qed.

  Lemma sort_perm : forall l, Permutation (stable_sort le l) l.
  Proof.
    induction l as [|x l IH]; simpl; [constructor|].
    eapply Permutation_trans; [apply insert_perm|]. now apply perm_skip.
  Qed.

  Lemma insert_strongly_sorted : forall x l,
    StronglySorted (fun a b => le a b = true) l ->
    StronglySorted (fun a b => le a b = true) (insert_sorted le x l).
  Proof.
    intros x l Hs. induction Hs as [|y l Hs IH Hall]; simpl.
    - constructor; constructor.
    - destruct (le x y) eqn:Hxy.
      + constructor; [constructor; assumption|].
        constructor; [exact Hxy|]. eapply Forall_impl; [|exact Hall].
        simpl. intros z Hz. now apply le_trans with y.
      + constructor; [exact IH|].
        rewrite Forall_forall in *. intros z Hz.
        apply (Permutation_in _ (insert_perm x l)) in Hz. destruct Hz as [<-|Hz].
        * destruct (le_total x y) as [H|H]; [congruence|exact H].
        * now apply Hall.
  Qed.

  Lemma sort_strongly_sorted : forall l, StronglySorted (fun a b => le a b = true) (stable_sort le l).
  Proof.
    induction l as [|x l IH]; simpl; [constructor|]. now apply insert_strongly_sorted.
  Qed.

  Lemma insert_filter : forall a x l,
    filter (equiv_by le a) (insert_sorted le x l) = filter (equiv_by le a) (x :: l).
  Proof.
    intros a x l. induction l as [|y l IH]; [reflexivity|].
    simpl insert_sorted. destruct (le x y) eqn:Hxy; [reflexivity|].
    simpl filter in *. rewrite IH.
    destruct (equiv_by le a x) eqn:Hx; destruct (equiv_by le a y) eqn:Hy; try reflexivity.
    exfalso. unfold equiv_by in Hx, Hy.
    apply andb_true_iff in Hx, Hy. destruct Hx as [Hax Hxa], Hy as [Hay Hya].
    rewrite (le_trans x a y Hxa Hay) in Hxy. discriminate.
  Qed.

  Lemma sort_stable : forall a l,
    filter (equiv_by le a) (stable_sort le l) = filter (equiv_by le a) l.
  Proof.
    intros a l. induction l as [|x l IH]; [reflexivity|].
    simpl stable_sort. rewrite insert_filter. simpl. now rewrite IH.
  Qed.

  Theorem stable_sort_correct : forall l, is_stable_sort le l (stable_sort le l).
  Proof.
    intros l. split; [apply sort_perm|]. split; [apply sort_strongly_sorted|].
    intros a. apply sort_stable.
  Qed.
End StableSort.

(* ---------------------------------------------------------------- the two orders *)

Lemma le_of_cmp_true : forall {A} (cmp : A -> A -> comparison) a b,
  le_of_cmp cmp a b = true <-> cmp a b <> Gt.
Proof. intros A cmp a b. unfold le_of_cmp. destruct (cmp a b); split; congruence. Qed.

Lemma bytes_cmp_antisym : forall a b, bytes_cmp b a = CompOpp (bytes_cmp a b).
Proof.
  induction a as [|x a IH]; destruct b as [|y b]; simpl; try reflexivity.
  rewrite (N.compare_antisym x y). destruct (N.compare x y); simpl; try reflexivity. apply IH.
Qed.

Lemma bytes_cmp_le_trans : forall a b c,
  bytes_cmp a b <> Gt -> bytes_cmp b c <> Gt -> bytes_cmp a c <> Gt.
Proof.
  induction a as [|x a IH]; destruct b as [|y b]; destruct c as [|z c]; simpl; try congruence.
  destruct (N.compare_spec x y) as [Hxy|Hxy|Hxy]; destruct (N.compare_spec y z) as [Hyz|Hyz|Hyz];
    destruct (N.compare_spec x z) as [Hxz|Hxz|Hxz]; try congruence; try lia.
  apply IH.
Qed.

Lemma le_str_total : forall a b, le_str a b = true \/ le_str b a = true.
Proof.
  intros a b. unfold le_str. rewrite !le_of_cmp_true. rewrite (bytes_cmp_antisym (to_str a) (to_str b)).
  destruct (bytes_cmp (to_str a) (to_str b)); simpl; [left|left|right]; congruence.
Qed.
Lemma le_str_trans : forall a b c, le_str a b = true -> le_str b c = true -> le_str a c = true.
Proof. intros a b c. unfold le_str. rewrite !le_of_cmp_true. apply bytes_cmp_le_trans. Qed.

(* cmp.Compare on float64 is the lexicographic order of this rank: NaN lowest, then -Inf,
   negative numbers, zeros, positive numbers, +Inf *)
Definition frank (x : float) : Z * Z * Z :=
  match x with
  | S754_nan => (-3, 0, 0)
  | S754_infinity true => (-2, 0, 0)
  | S754_infinity false => (2, 0, 0)
  | S754_zero _ => (0, 0, 0)
  | S754_finite true m e => (-1, - e, - Zpos m)
  | S754_finite false m e => (1, e, Zpos m)
  end%Z.
Definition lex3 (p q : Z * Z * Z) : comparison :=
  let '(a1, a2, a3) := p in
  let '(b1, b2, b3) := q in
  match (a1 ?= b1)%Z with
  | Eq => match (a2 ?= b2)%Z with Eq => (a3 ?= b3)%Z | c => c end
  | c => c
  end.

Lemma cmp_float_lex : forall a b, cmp_float a b = lex3 (frank a) (frank b).
Proof.
  intros a b. unfold cmp_float, f_is_nan, f_cmp, SFcompare.
  destruct a as [sa|[|]| |[|] ma ea]; destruct b as [sb|[|]| |[|] mb eb]; try reflexivity.
  simpl. rewrite Z.compare_opp. rewrite (Z.compare_antisym ea eb).
    destruct (ea ?= eb)%Z; simpl; try reflexivity.
Qed.

Lemma lex3_le : forall a1 a2 a3 b1 b2 b3 : Z,
  lex3 (a1, a2, a3) (b1, b2, b3) <> Gt <->
  (a1 < b1 \/ (a1 = b1 /\ (a2 < b2 \/ (a2 = b2 /\ a3 <= b3))))%Z.
Proof.
  intros. unfold lex3.
  destruct (Z.compare_spec a1 b1); destruct (Z.compare_spec a2 b2); destruct (Z.compare_spec a3 b3);
    split; intros; try congruence; try lia.
Qed.

Lemma le_num_total : forall a b, le_num a b = true \/ le_num b a = true.
Proof.
  intros a b. unfold le_num. rewrite !le_of_cmp_true, !cmp_float_lex.
  destruct (frank (num_key a)) as [[a1 a2] a3]. destruct (frank (num_key b)) as [[b1 b2] b3].
  rewrite !lex3_le. lia.
Qed.
Lemma le_num_trans : forall a b c, le_num a b = true -> le_num b c = true -> le_num a c = true.
Proof.
  intros a b c. unfold le_num. rewrite !le_of_cmp_true, !cmp_float_lex.
  destruct (frank (num_key a)) as [[a1 a2] a3]. destruct (frank (num_key b)) as [[b1 b2] b3].
  destruct (frank (num_key c)) as [[c1 c2] c3].
  rewrite !lex3_le. lia.
Qed.

Lemma sort_le_total : forall l a b, sort_le l a b = true \/ sort_le l b a = true.
Proof. intros l. unfold sort_le. destruct (forallb is_num l); [apply le_num_total|apply le_str_total]. Qed.
Lemma sort_le_trans : forall l a b c, sort_le l a b = true -> sort_le l b c = true -> sort_le l a c = true.
Proof. intros l. unfold sort_le. destruct (forallb is_num l); [apply le_num_trans|apply le_str_trans]. Qed.

Theorem ideal_sort_stable : forall l, is_stable_sort (sort_le l) (map copy_of l) (ideal_sort l).
Proof.
  intros l. unfold ideal_sort. apply stable_sort_correct; [apply sort_le_total|apply sort_le_trans].
Qed.

(* ================================================================ sort *)

Lemma alloc_all_cons : forall v r s,
  alloc_all (v :: r) s =
  match alloc_all r (set_hp s (snd (alloc (hp s) v))) with
  | (Ok rest, s') => (Ok (next (hp s) :: rest), s')
  | (Err e, s') => (Err e, s')
  | (Sig x, s') => (Sig x, s')
  | (Panic, s') => (Panic, s')
  | (Fuel, s') => (Fuel, s')
  | (Unsupp, s') => (Unsupp, s')
  end.
Proof.
  intros v r s. simpl. unfold bind at 1. unfold m_alloc, with_heap. simpl.
  unfold bind, set_hp. simpl.
  destruct (alloc_all r _) as [[x| | | | |] s']; reflexivity.
Qed.

Lemma alloc_all_spec : forall vs s,
  exists cells h',
    alloc_all vs s = (Ok cells, set_hp s h') /\
    map (load h') cells = vs /\
    (forall a, (a < next (hp s))%positive -> load h' a = load (hp s) a) /\
    (forall b, get_back h' b = get_back (hp s) b) /\
    objs h' = objs (hp s) /\
    (next (hp s) <= next h')%positive /\
    Forall (fun c => (next (hp s) <= c < next h')%positive) cells /\
    NoDup cells /\ length cells = length vs.
Proof.
  induction vs as [|v r IH]; intros s.
  - exists [], (hp s). rewrite set_hp_id. simpl. repeat split; try reflexivity; try constructor.
  - rewrite alloc_all_cons.
    destruct (IH (set_hp s (snd (alloc (hp s) v)))) as (cells & h' & Heq & Hmap & Hld & Hbk & Hob & Hnx & Hall & Hnd & Hlen).
    rewrite Heq. rewrite set_hp_hp in *. simpl next in *.
    exists (next (hp s) :: cells), h'. rewrite set_hp_twice.
    split; [reflexivity|]. split; [|split; [|split; [|split; [|split; [|split; [|split]]]]]].
    + simpl. f_equal; [|exact Hmap]. rewrite Hld by lia. apply (load_alloc_same (hp s) v).
    + intros a Ha. rewrite Hld by lia. apply load_alloc_other. lia.
    + intros b. rewrite Hbk. reflexivity.
    + rewrite Hob. reflexivity.
    + lia.
    + constructor; [lia|]. eapply Forall_impl; [|exact Hall]. simpl. intros a Ha. lia.
    + constructor; [|exact Hnd]. intros Hin. rewrite Forall_forall in Hall. apply Hall in Hin. lia.
    + simpl. now rewrite Hlen.
Qed.

Lemma existsb_uncopyable : forall l,
  existsb (fun x => match copy_value x with None => true | Some _ => false end) l
  = negb (forallb copyable l).
Proof.
  induction l as [|x l IH]; [reflexivity|]. simpl. rewrite IH. unfold copyable.
  destruct (copy_value x); reflexivity.
Qed.

Lemma is_num_forallb_eq : forall l,
  forallb (fun x => match x with VNum _ => true | _ => false end) l = forallb is_num l.
Proof. reflexivity. Qed.

(* the native, for a receiver cell that holds any value *)
Lemma native_sort_eq : forall s pa args,
  native_call NSort args (Some pa) s =
  let l := contents (hp s) (load (hp s) pa) in
  if forallb copyable l then
    match alloc_all (ideal_sort l) s with
    | (Ok cells, s1) =>
      (Ok (NVal (VArr (next (hp s1)) 0 (length cells))), set_hp s1 (snd (new_back (hp s1) cells)))
    | (Err e, s') => (Err e, s')
    | (Sig x, s') => (Sig x, s')
    | (Panic, s') => (Panic, s')
    | (Fuel, s') => (Fuel, s')
    | (Unsupp, s') => (Unsupp, s')
    end
  else (Ok NError, s).
Proof.
  intros s pa args. unfold native_call, this_value. unfold bind at 1 2. unfold m_load at 1.
  unfold ret at 1. unfold bind at 1. unfold get_heap at 1. cbv zeta.
  rewrite existsb_uncopyable.
  change (map (load (hp s)) match load (hp s) pa with
                            | VArr bid off len => arr_cells (hp s) bid off len
                            | _ => [] end) with (map (load (hp s)) (cells_of (hp s) pa)).
  assert (Hc : contents (hp s) (load (hp s) pa) = map (load (hp s)) (cells_of (hp s) pa)).
  { unfold contents, cells_of. destruct (load (hp s) pa); reflexivity. }
  rewrite Hc. set (l := map (load (hp s)) (cells_of (hp s) pa)).
  destruct (forallb copyable l); cbn [negb]; cbv iota; [|reflexivity].
  remember (ideal_sort l) as srt eqn:Hs.
  match goal with |- context [alloc_all (if ?c then ?a else ?b)] =>
    replace (if c then a else b) with srt end.
  2:{ subst srt. unfold ideal_sort, sort_le. change (fun x : value => match x with VNum _ => true | _ => false end) with is_num.
      destruct (forallb is_num l); reflexivity. }
  unfold bind, with_heap, ret, new_array_of, new_back, set_hp. cbv beta.
  destruct (alloc_all srt s) as [[cells| | | | |] s1]; reflexivity.
Qed.

Lemma sort_stable_copy : forall s pa l args,
  wf_holder (hp s) pa -> abs (hp s) pa = Some l -> forallb copyable l = true ->
  exists h' b n,
    native_call NSort args (Some pa) s = (Ok (NVal (VArr b 0 n)), set_hp s h') /\
    (next (hp s) <= b)%positive /\
    contents h' (VArr b 0 n) = ideal_sort l /\
    is_stable_sort (sort_le l) (map copy_of l) (ideal_sort l) /\
    abs h' pa = Some l /\ wf_holder h' pa.
Proof.
  intros s pa l args Hwf Habs Hcopy. rewrite native_sort_eq. cbv zeta.
  rewrite (abs_contents _ _ _ Habs), Hcopy.
  destruct (alloc_all_spec (ideal_sort l) s) as (cells & h' & Heq & Hmap & Hld & Hbk & Hob & Hnx & Hall & Hnd & Hlen).
  rewrite Heq. rewrite set_hp_hp, set_hp_twice.
  exists (snd (new_back h' cells)), (next h'), (length cells).
  split; [reflexivity|]. split; [exact Hnx|]. split; [|split; [apply ideal_sort_stable|]].
  - unfold contents, arr_cells. rewrite get_back_new_same. simpl skipn. rewrite firstn_all.
    rewrite <- Hmap. apply map_load_ext. intros c _. apply load_new_back.
  - assert (Hfr := holder_frame (hp s) (snd (new_back h' cells)) pa Hwf).
    destruct Hfr as (Hw & _ & Ha).
    + simpl. lia.
    + intros a Ha. rewrite load_new_back. now apply Hld.
    + intros b Hb. rewrite get_back_new_other by lia. apply Hbk.
    + split; [now rewrite Ha|exact Hw].
Qed.

Lemma sort_errors : forall s pa l args,
  abs (hp s) pa = Some l -> forallb copyable l = false ->
  native_call NSort args (Some pa) s = (Ok NError, s).
Proof.
  intros s pa l args Habs Hcopy. rewrite native_sort_eq. cbv zeta.
  now rewrite (abs_contents _ _ _ Habs), Hcopy.
Qed.

(* ================================================================ index stores (set_member) *)

(* the inner loop of set_member, as a top-level function *)
Definition fill_loop (recv : addr) : nat -> addr -> M addr :=
  fix fill (k : nat) (last : addr) : M addr :=
    match k with
    | O => ret last
    | S k' =>
      bind nil_cell (fun c =>
      bind (upd_heap (fun h => append_at h recv c)) (fun _ =>
      fill k' c))
    end.

Lemma set_member_arr_eq : forall recv f cell s bid off len,
  load (hp s) recv = VArr bid off len ->
  set_member recv (VNum f) cell s =
  match get_member (hp s) (VArr bid off len) (VNum f) with
  | GmErr => (Ok None, s)
  | GmCell item => (Ok (Some item), set_hp s (store (hp s) item (load (hp s) cell)))
  | _ =>
    if Z.ltb fill_limit (f_trunc_int64 f) then (Ok None, s)
    else
      bind (fill_loop recv (Z.to_nat (f_trunc_int64 f - Z.of_nat len + 1)) dummy_addr)
           (fun item => bind (m_load cell) (fun cv => bind (m_store item cv) (fun _ => ret (Some item)))) s
  end.
Proof.
  intros recv f cell s bid off len Hl.
  unfold set_member. unfold bind at 1. unfold m_load at 1. unfold bind at 1. unfold get_heap at 1.
  rewrite Hl. cbv iota beta.
  destruct (get_member (hp s) (VArr bid off len) (VNum f)); try reflexivity;
    destruct (fill_limit <? f_trunc_int64 f)%Z; reflexivity.
Qed.

(* what an operation through [pa] may touch: the holder, its element cells, its backing *)
Definition footprint (h h' : heap) (pa : addr) : Prop :=
  (forall a, (a < next h)%positive -> a <> pa -> ~ In a (cells_of h pa) -> load h' a = load h a) /\
  (forall b, (b < next h)%positive -> b <> bid_of h pa -> get_back h' b = get_back h b) /\
  objs h' = objs h /\
  (next h <= next h')%positive /\
  (forall c, In c (cells_of h' pa) -> In c (cells_of h pa) \/ (next h <= c)%positive) /\
  (bid_of h' pa = bid_of h pa \/ (next h <= bid_of h' pa)%positive).

Lemma footprint_refl : forall h pa, footprint h h pa.
Proof. intros h pa. repeat split; intros; try reflexivity; try lia; try (now left). Qed.

Lemma bid_of_eq : forall h pa bid off len, load h pa = VArr bid off len -> bid_of h pa = bid.
Proof. intros h pa bid off len H. unfold bid_of. now rewrite H. Qed.

Lemma append_at_bid : forall h pa c,
  bid_of (append_at h pa c) pa = bid_of h pa \/ (next h <= bid_of (append_at h pa c) pa)%positive.
Proof.
  intros h pa c. unfold append_at. destruct (load h pa) eqn:Hl; try (now left).
  destruct (Nat.ltb _ _).
  - left. unfold bid_of. now rewrite load_store_same, Hl.
  - right. unfold new_back. cbv beta iota zeta. unfold bid_of. rewrite load_store_same. simpl. lia.
Qed.

(* which cells exist *)
Definition allocated (h : heap) (a : addr) : Prop := PM.find a (cells h) <> None.

Lemma allocated_store : forall h b v a, allocated (store h b v) a -> allocated h a \/ a = b.
Proof.
  intros h b v a. unfold allocated, store. simpl. destruct (Pos.eq_dec a b) as [->|Hne]; [now right|].
  rewrite PM.gso by exact Hne. now left.
Qed.
Lemma allocated_alloc : forall h v a, allocated (snd (alloc h v)) a -> allocated h a \/ a = next h.
Proof.
  intros h v a. unfold allocated, alloc. simpl. destruct (Pos.eq_dec a (next h)) as [->|Hne]; [now right|].
  rewrite PM.gso by exact Hne. now left.
Qed.
Lemma allocated_append_at : forall h pa c a, allocated (append_at h pa c) a -> allocated h a \/ a = pa.
Proof.
  intros h pa c a. unfold append_at. destruct (load h pa); try (now left).
  destruct (Nat.ltb _ _).
  - intros H. apply allocated_store in H. exact H.
  - unfold new_back. cbv beta iota zeta. intros H. apply allocated_store in H. exact H.
Qed.
Lemma wf_allocated : forall h pa, wf_holder h pa -> allocated h pa.
Proof.
  intros h pa (bid & off & len & Hl & _). unfold allocated. unfold load in Hl.
  destruct (PM.find pa (cells h)); [discriminate|discriminate].
Qed.

Lemma fill_loop_S : forall recv k last s,
  fill_loop recv (S k) last s =
  fill_loop recv k (next (hp s))
    (set_hp s (append_at (snd (alloc (hp s) nil_value)) recv (next (hp s)))).
Proof. reflexivity. Qed.

Lemma last_cons_default : forall {A} (l : list A) c d, last (c :: l) d = last l c.
Proof.
  intros A l. induction l as [|x l IH]; intros c d; [reflexivity|].
  change (last (c :: x :: l) d) with (last (x :: l) d). rewrite (IH x d), (IH x c). reflexivity.
Qed.

Lemma last_In : forall {A} (l : list A) d, l <> [] -> In (last l d) l.
Proof.
  intros A l d. induction l as [|x l IH]; intros Hne; [contradiction|].
  destruct l as [|y l]; [now left|]. right. apply IH. discriminate.
Qed.

Lemma fill_loop_spec : forall k s pa last0 l,
  wf_holder (hp s) pa -> abs (hp s) pa = Some l ->
  exists h' news,
    fill_loop pa k last0 s = (Ok (last news last0), set_hp s h') /\
    length news = k /\
    cells_of h' pa = cells_of (hp s) pa ++ news /\
    abs h' pa = Some (l ++ repeat nil_value k) /\
    wf_holder h' pa /\
    (forall a, a <> pa -> (a < next (hp s))%positive -> load h' a = load (hp s) a) /\
    (next (hp s) <= next h')%positive /\
    Forall (fun c => (next (hp s) <= c)%positive) news /\
    objs h' = objs (hp s) /\
    (forall b, (b < next (hp s))%positive ->
       (forall bid off len, load (hp s) pa = VArr bid off len -> b <> bid) ->
       get_back h' b = get_back (hp s) b) /\
    (forall a, allocated h' a -> allocated (hp s) a \/ In a news) /\
    (bid_of h' pa = bid_of (hp s) pa \/ (next (hp s) <= bid_of h' pa)%positive).
Proof.
  induction k as [|k IH]; intros s pa last0 l Hwf Habs.
  - exists (hp s), []. rewrite set_hp_id, !app_nil_r. simpl.
    repeat split; try assumption; try reflexivity; try (left; assumption); try (left; reflexivity); try constructor.
  - rewrite fill_loop_S.
    destruct (append_fresh (hp s) pa nil_value l Hwf Habs)
      as (Ha1 & Hw1 & Hc1 & Hld1 & Hx1 & Hnx1 & Hob1 & Hbk1).
    set (h1 := append_at (snd (alloc (hp s) nil_value)) pa (next (hp s))) in *.
    destruct (IH (set_hp s h1) pa (next (hp s)) (l ++ [nil_value]) Hw1 Ha1)
      as (h' & news & Heq & Hlen & Hc & Ha & Hw & Hld & Hnx & Hall & Hob & Hbk & Hdom & Hbid).
    rewrite set_hp_hp in *. rewrite set_hp_twice in Heq.
    pose proof (wf_pa_lt _ _ Hwf) as Hpa.
    exists h', (next (hp s) :: news). rewrite last_cons_default.
    split; [exact Heq|]. split; [simpl; now rewrite Hlen|].
    split; [rewrite Hc, Hc1, <- app_assoc; reflexivity|].
    split; [rewrite Ha, <- app_assoc; reflexivity|].
    split; [exact Hw|]. split; [|split; [lia|split; [|split; [|split; [|split]]]]].
    + intros a Ha1' Ha2. rewrite Hld by (try assumption; lia). apply Hld1; [assumption|lia].
    + constructor; [lia|]. eapply Forall_impl; [|exact Hall]. simpl. intros a Ha'. lia.
    + now rewrite Hob.
    + intros b Hb Hne. destruct Hwf as (bid & off & len & Hl & _).
      assert (Hbb : b <> bid) by now apply (Hne bid off len).
      destruct (Pos.eq_dec b (match load h1 pa with VArr b1 _ _ => b1 | _ => 1%positive end)) as [He|He].
      * (* b is the current backing of pa in h1: only possible if it is the old one *)
        exfalso. unfold h1 in He. unfold append_at in He.
        assert (Hl1 : load (snd (alloc (hp s) nil_value)) pa = VArr bid off len)
          by (rewrite load_alloc_other by lia; exact Hl).
        rewrite Hl1 in He.
        destruct (Nat.ltb len _) in He.
        -- rewrite load_store_same in He. contradiction.
        -- unfold new_back in He. cbv beta iota zeta in He. rewrite load_store_same in He.
           simpl in He. lia.
      * rewrite Hbk; [now apply Hbk1|lia|].
        intros bid1 off1 len1 Hl1 Hb1. apply He. rewrite Hl1. exact Hb1.
    + intros a Hal. destruct (Hdom a Hal) as [H1|H1]; [|right; now right].
      unfold h1 in H1. apply allocated_append_at in H1. destruct H1 as [H1| ->].
      * apply allocated_alloc in H1. destruct H1 as [H1| ->]; [now left|right; now left].
      * left. now apply wf_allocated.
    + pose proof (append_at_bid (snd (alloc (hp s) nil_value)) pa (next (hp s))) as Hb1. fold h1 in Hb1.
      assert (Hb0 : bid_of (snd (alloc (hp s) nil_value)) pa = bid_of (hp s) pa).
      { unfold bid_of. rewrite load_alloc_other by lia. reflexivity. }
      rewrite Hb0 in Hb1. change (next (snd (alloc (hp s) nil_value))) with (Pos.succ (next (hp s))) in Hb1.
      destruct Hbid as [Hbid|Hbid]; destruct Hb1 as [Hb1|Hb1]; try (left; congruence); right; try lia.
Qed.

Lemma append_at_next : forall h pa c,
  (next h <= next (append_at h pa c) <= Pos.succ (next h))%positive.
Proof.
  intros h pa c. unfold append_at. destruct (load h pa); try lia.
  destruct (Nat.ltb _ _); simpl; lia.
Qed.

Lemma fill_loop_next : forall k s pa last0,
  Pos.to_nat (next (hp (snd (fill_loop pa k last0 s)))) <= Pos.to_nat (next (hp s)) + 2 * k.
Proof.
  induction k as [|k IH]; intros s pa last0; [simpl; lia|].
  rewrite fill_loop_S. eapply Nat.le_trans; [apply IH|]. rewrite set_hp_hp.
  pose proof (append_at_next (snd (alloc (hp s) nil_value)) pa (next (hp s))) as H.
  change (next (snd (alloc (hp s) nil_value))) with (Pos.succ (next (hp s))) in H. lia.
Qed.

Lemma map_store_nodup : forall h item v cs k,
  NoDup cs -> nth_error cs k = Some item ->
  map (load (store h item v)) cs = list_set (map (load h) cs) k v.
Proof.
  intros h item v cs. induction cs as [|c cs IH]; intros k Hnd Hk; [now destruct k|].
  inversion Hnd as [|c' cs' Hc Hnd']; subst. destruct k as [|k]; simpl in *.
  - inversion Hk; subst. rewrite load_store_same. f_equal.
    apply map_load_ext. intros a Ha. apply load_store_other. intros ->. contradiction.
  - rewrite (IH k Hnd' Hk). f_equal. apply load_store_other. intros ->.
    apply Hc. eapply nth_error_In; eassumption.
Qed.

Lemma list_set_app_last : forall {A} (p : list A) x v, list_set (p ++ [x]) (length p) v = p ++ [v].
Proof. intros A p x v. induction p as [|y p IH]; simpl; [reflexivity|]. now rewrite IH. Qed.

Lemma repeat_snoc : forall {A} (x : A) m, repeat x (S m) = repeat x m ++ [x].
Proof. intros A x m. induction m as [|m IH]; [reflexivity|]. simpl in *. now rewrite <- IH. Qed.

Lemma nth_error_app_last : forall {A} (a news : list A) m d, length news = S m ->
  nth_error (a ++ news) (length a + m) = Some (last news d).
Proof.
  intros A a news m d Hlen. rewrite nth_error_app2 by lia. replace (length a + m - length a) with m by lia.
  clear a. revert m Hlen. induction news as [|x news IH]; intros m Hlen; [discriminate|].
  destruct news as [|y news].
  - simpl in Hlen. assert (m = 0) by lia. subst. reflexivity.
  - destruct m as [|m]; [simpl in Hlen; lia|]. simpl nth_error.
    change (last (x :: y :: news) d) with (last (y :: news) d). apply IH. simpl in *. lia.
Qed.

(* storing into an element cell of the holder *)
Lemma holder_store_item : forall h pa item v k,
  wf_holder h pa -> nth_error (cells_of h pa) k = Some item ->
  let h' := store h item v in
  wf_holder h' pa /\ cells_of h' pa = cells_of h pa /\
  abs h' pa = Some (list_set (map (load h) (cells_of h pa)) k v).
Proof.
  intros h pa item v k Hwf Hk h'.
  pose proof (wf_nodup _ _ Hwf) as Hnd. pose proof (wf_pa_notin _ _ Hwf) as Hnot.
  assert (Hne : pa <> item) by (intros ->; apply Hnot; eapply nth_error_In; eassumption).
  destruct Hwf as (bid & off & len & Hl & Hin & Hpa & Hbid & Hall & Hnot' & Hnd').
  assert (Hl' : load h' pa = VArr bid off len) by (unfold h'; rewrite load_store_other; assumption).
  unfold cells_of in *. rewrite Hl in *. rewrite Hl'.
  change (arr_cells h' bid off len) with (arr_cells h bid off len).
  split; [|split; [reflexivity|]].
  - exists bid, off, len. change (arr_cells h' bid off len) with (arr_cells h bid off len).
    repeat split; assumption.
  - unfold abs. rewrite Hl'. change (arr_cells h' bid off len) with (arr_cells h bid off len).
    f_equal. now apply map_store_nodup.
Qed.

Lemma set_member_refines : forall s pa f cell l,
  wf_holder (hp s) pa -> abs (hp s) pa = Some l ->
  cell <> pa -> (cell < next (hp s))%positive ->
  let v := load (hp s) cell in
  let i := f_trunc_int64 f in
  exists r h',
    set_member pa (VNum f) cell s = (Ok r, set_hp s h') /\
    abs h' pa = Some (fst (ideal_set l i v)) /\
    match r with Some _ => RDone | None => RErr end = snd (ideal_set l i v) /\
    wf_holder h' pa /\
    (forall item, r = Some item -> In item (cells_of h' pa) /\ load h' item = v) /\
    (next (hp s) <= next h')%positive /\
    (Pos.to_nat (next h') <= Pos.to_nat (next (hp s)) + 2 * (Z.to_nat (i - Z.of_nat (length l) + 1)))%nat /\
    ((Z.of_nat (length l) <= i)%Z ->
     exists news, length news <= Z.to_nat (i - Z.of_nat (length l) + 1) /\
                  forall a, allocated h' a -> allocated (hp s) a \/ In a news) /\
    (* only the holder, its element cells and its backing are touched *)
    footprint (hp s) h' pa.
Proof.
  intros s pa f cell l Hwf Habs Hcp Hclt v i.
  pose proof Hwf as (bid & off & len & Hl & Hin & _).
  rewrite (set_member_arr_eq pa f cell s bid off len Hl).
  pose proof (index_refines (hp s) pa l f Hwf Habs) as Hidx. rewrite Hl in Hidx. fold i in Hidx.
  pose proof (abs_length _ _ _ _ _ _ Hwf Habs Hl) as Hlen.
  pose proof (abs_cells_of _ _ _ Habs) as Hmap.
  unfold ideal_set.
  destruct (get_member (hp s) (VArr bid off len) (VNum f)) as [item|nn|vv| |]; try contradiction.
  - (* an existing element *)
    destruct Hidx as (_ & k & Hres & Hk). rewrite Hres.
    assert (Hklt : k < length l).
    { rewrite Hmap, map_length. apply nth_error_Some. congruence. }
    replace (Z.of_nat k <? Z.of_nat (length l))%Z with true by lia.
    destruct (holder_store_item (hp s) pa item v k Hwf Hk) as (Hw & Hc & Ha).
    exists (Some item), (store (hp s) item v). split; [reflexivity|].
    rewrite Nat2Z.id. rewrite <- Hmap in Ha. split; [exact Ha|]. split; [reflexivity|]. split; [exact Hw|].
    split; [|split; [simpl; lia|split; [simpl; lia|split]]].
    3:{ assert (Hne : item <> pa).
        { intros ->. apply (wf_pa_notin _ _ Hwf). eapply nth_error_In; eassumption. }
        split; [|split; [intros; reflexivity|split; [reflexivity|split; [simpl; lia|split]]]].
        - intros a _ _ Hnin. apply load_store_other. intros ->. apply Hnin. eapply nth_error_In; eassumption.
        - intros c Hcin. left. now rewrite <- Hc.
        - left. unfold bid_of. rewrite load_store_other by congruence. reflexivity. }
    2:{ intros Hge. exfalso. unfold resolve_index in Hres.
        destruct (i <? 0)%Z eqn:Hi0; [lia|]. destruct (i <? 0)%Z; [discriminate|]. inversion Hres. lia. }
    intros item' Hitem. inversion Hitem; subst item'. split.
    + rewrite Hc. eapply nth_error_In; eassumption.
    + apply load_store_same.
  - (* past the end *)
    destruct Hidx as (_ & k & Hres & Hk). rewrite Hres.
    replace (k <? Z.of_nat (length l))%Z with false by lia.
    assert (Hik : i = k).
    { unfold resolve_index in Hres. destruct (i <? 0)%Z eqn:Hi0.
      - destruct (Z.of_nat (length l) + i <? 0)%Z; [discriminate|]. inversion Hres. lia.
      - destruct (i <? 0)%Z; [discriminate|]. now inversion Hres. }
    subst k. fold i.
    destruct (fill_limit <? i)%Z eqn:Hlim.
    + exists None, (hp s). rewrite set_hp_id. repeat split; try assumption; try reflexivity; try lia; try discriminate;
      try (exists []; split; [simpl; lia|intros a0 Ha0; now left]); try apply footprint_refl.
    + set (m := Z.to_nat i - length l).
      replace (Z.to_nat (i - Z.of_nat len + 1)) with (S m) by lia.
      replace (Z.to_nat (i - Z.of_nat (length l) + 1)) with (S m) by lia.
      destruct (fill_loop_spec (S m) s pa dummy_addr l Hwf Habs)
        as (h1 & news & Heq & Hnlen & Hc1 & Ha1 & Hw1 & Hld1 & Hnx1 & Hall1 & Hob1 & Hbk1 & Hdom1 & Hbid1).
      unfold bind at 1. rewrite Heq.
      unfold bind, m_load, m_store, upd_heap, ret. simpl.
      fold (set_hp s (store h1 (last news dummy_addr) (load h1 cell))).
      assert (Hcv : load h1 cell = v) by (apply Hld1; assumption).
      rewrite Hcv.
      assert (Hitem : nth_error (cells_of h1 pa) (length (cells_of (hp s) pa) + m) = Some (last news dummy_addr)).
      { rewrite Hc1. now apply nth_error_app_last. }
      destruct (holder_store_item h1 pa (last news dummy_addr) v _ Hw1 Hitem) as (Hw & Hc & Ha).
      exists (Some (last news dummy_addr)), (store h1 (last news dummy_addr) v).
      split; [reflexivity|]. split; [|split; [reflexivity|split; [exact Hw|split; [|split; [|split; [|split]]]]]].
      * rewrite Ha. f_equal. rewrite <- (abs_cells_of _ _ _ Ha1).
        assert (Hcl : length (cells_of (hp s) pa) = length l) by (rewrite Hmap, map_length; reflexivity).
        rewrite Hcl. rewrite repeat_snoc, app_assoc.
        replace (length l + m) with (length (l ++ repeat nil_value m)) by (rewrite app_length, repeat_length; reflexivity).
        rewrite list_set_app_last. rewrite <- app_assoc. reflexivity.
      * intros item' Hi'. inversion Hi'; subst item'. split.
        -- rewrite Hc. eapply nth_error_In; eassumption.
        -- apply load_store_same.
      * simpl. exact Hnx1.
      * pose proof (fill_loop_next (S m) s pa dummy_addr) as Hb. rewrite Heq in Hb.
        simpl in Hb. simpl next. lia.
      * intros _. exists news. split; [lia|]. intros a0 Ha0.
        apply allocated_store in Ha0. destruct Ha0 as [Ha0| ->]; [now apply Hdom1|].
        right. apply last_In. intros ->. discriminate.
      * assert (Hlast : (next (hp s) <= last news dummy_addr)%positive).
        { rewrite Forall_forall in Hall1. apply Hall1. apply last_In. intros ->. discriminate. }
        split; [|split; [|split; [exact Hob1|split; [exact Hnx1|split]]]].
        -- intros a Halt Hapa _. rewrite load_store_other by lia. now apply Hld1.
        -- intros b Hb Hbid. rewrite get_back_store. apply Hbk1; [exact Hb|].
           intros bid1 off1 len1 Hl1. unfold bid_of in Hbid. now rewrite Hl1 in Hbid.
        -- intros c Hcin. rewrite Hc, Hc1 in Hcin. apply in_app_iff in Hcin.
           destruct Hcin as [Hcin|Hcin]; [now left|right]. rewrite Forall_forall in Hall1. now apply Hall1.
        -- pose proof (wf_pa_lt _ _ Hwf) as Hpa.
           assert (Hbb : bid_of (store h1 (last news dummy_addr) v) pa = bid_of h1 pa).
           { unfold bid_of. rewrite load_store_other by lia. reflexivity. }
           rewrite Hbb. exact Hbid1.
  - (* before the start *)
    destruct Hidx as (_ & Hres). rewrite Hres.
    exists None, (hp s). rewrite set_hp_id.
    repeat split; try assumption; try reflexivity; try lia; try discriminate;
      try (exists []; split; [simpl; lia|intros a0 Ha0; now left]); try apply footprint_refl.
Qed.

(* ================================================================ one step, any operation *)

Lemma setat_eq : forall pa f v s,
  bind (m_alloc v) (fun c => set_member pa (VNum f) c) s =
  set_member pa (VNum f) (next (hp s)) (set_hp s (snd (alloc (hp s) v))).
Proof. reflexivity. Qed.

Lemma run_step_refines : forall pa s o l,
  wf_holder (hp s) pa -> abs (hp s) pa = Some l ->
  abs (hp (snd (run_step pa s o))) pa = Some (fst (ideal_step l o)) /\
  fst (run_step pa s o) = snd (ideal_step l o) /\
  wf_holder (hp (snd (run_step pa s o))) pa.
Proof.
  intros pa s o l Hwf Habs. destruct o as [x| | |f|f v| |x|]; unfold run_step, ideal_step.
  - destruct (push_refines s pa x l Hwf Habs) as (h' & Heq & Ha & Hw). rewrite Heq. simpl.
    rewrite (abs_contents _ _ _ Ha). repeat split; assumption.
  - destruct (pop_refines s pa l Hwf Habs) as (h' & Heq & Ha & Hw). rewrite Heq. simpl.
    destruct l as [|y l]; repeat split; assumption.
  - destruct (popfirst_refines s pa l Hwf Habs) as (h' & Heq & Ha & Hw). rewrite Heq. simpl.
    destruct l as [|y l]; repeat split; assumption.
  - pose proof (index_refines (hp s) pa l f Hwf Habs) as H. simpl.
    destruct (get_member (hp s) (load (hp s) pa) (VNum f)); try contradiction;
      destruct H as [H _]; rewrite H; repeat split; assumption.
  - rewrite setat_eq.
    destruct (holder_alloc (hp s) pa v Hwf) as (Hw1 & _ & Ha1). rewrite Habs in Ha1.
    pose proof (wf_pa_lt _ _ Hwf) as Hpa.
    destruct (set_member_refines (set_hp s (snd (alloc (hp s) v))) pa f (next (hp s)) l Hw1 Ha1)
      as (r & h' & Heq & Ha & Hr & Hw & _).
    { lia. } { simpl. lia. }
    assert (Hv : load (snd (alloc (hp s) v)) (next (hp s)) = v) by apply (load_alloc_same (hp s) v).
    rewrite set_hp_hp in *. rewrite Hv in *.
    rewrite Heq. simpl. split; [exact Ha|]. split; [|exact Hw].
    rewrite <- Hr. destruct r; reflexivity.
  - rewrite (length_refines s pa l [] Hwf Habs). simpl. repeat split; assumption.
  - destruct (contains_refines s pa l x Hwf Habs) as (r & Heq & Hr). rewrite Heq. simpl.
    repeat split; assumption.
  - destruct (forallb copyable l) eqn:Hcopy.
    + destruct (sort_stable_copy s pa l [] Hwf Habs Hcopy) as (h' & b & n & Heq & _ & Hc & _ & Ha & Hw).
      rewrite Heq. cbn [fst snd]. rewrite set_hp_hp. unfold obs_array. rewrite Hc.
      repeat split; assumption.
    + rewrite (sort_errors s pa l [] Habs Hcopy). simpl. repeat split; assumption.
Qed.

(* ================================================================ histories *)

Theorem array_refines_list : forall os pa s l,
  wf_holder (hp s) pa -> abs (hp s) pa = Some l ->
  abs (hp (snd (run_ops pa s os))) pa = Some (fst (ideal_run l os)) /\
  fst (run_ops pa s os) = snd (ideal_run l os) /\
  wf_holder (hp (snd (run_ops pa s os))) pa.
Proof.
  induction os as [|o os IH]; intros pa s l Hwf Habs.
  - simpl. repeat split; assumption.
  - simpl. destruct (run_step_refines pa s o l Hwf Habs) as (Ha & Hr & Hw).
    destruct (run_step pa s o) as [x s1]. destruct (ideal_step l o) as [l1 y]. simpl in Ha, Hr, Hw.
    destruct (IH pa s1 l1 Hw Ha) as (Ha' & Hr' & Hw').
    destruct (run_ops pa s1 os) as [xs s2]. destruct (ideal_run l1 os) as [l2 ys]. simpl in *.
    repeat split; try assumption. now rewrite Hr, Hr'.
Qed.

(* ================================================================ C09: stores *)

Lemma copy_value_table : forall v,
  match v with
  | VNum _ | VBool _ | VStr _ | VRegex _ => copy_value v = Some v        (* copied *)
  | VNil _ => copy_value v = Some (VNil None)                            (* plain null *)
  | VArr _ _ _ | VObj _ | VUnknown => copy_value v = Some v             (* shared: same header / same map *)
  | VNative _ _ | VFn _ => copy_value v = None                           (* refused *)
  end.
Proof. destruct v; reflexivity. Qed.

(* the explicit shape of an index store *)
Lemma set_member_fill_shape : forall s pa f cell l,
  wf_holder (hp s) pa -> abs (hp s) pa = Some l ->
  cell <> pa -> (cell < next (hp s))%positive ->
  let v := load (hp s) cell in
  let i := f_trunc_int64 f in
  let n := Z.of_nat (length l) in
  exists r h',
    set_member pa (VNum f) cell s = (Ok r, set_hp s h') /\ wf_holder h' pa /\
    ((n <= i <= fill_limit)%Z ->
       r <> None /\ abs h' pa = Some (l ++ repeat nil_value (Z.to_nat (i - n)) ++ [v])) /\
    ((n <= i)%Z -> (fill_limit < i)%Z -> r = None /\ h' = hp s) /\
    ((0 <= i < n)%Z -> r <> None /\ abs h' pa = Some (list_set l (Z.to_nat i) v)) /\
    ((- n <= i < 0)%Z -> r <> None /\ abs h' pa = Some (list_set l (Z.to_nat (n + i)) v)) /\
    ((i < - n)%Z -> r = None /\ h' = hp s).
Proof.
  intros s pa f cell l Hwf Habs Hcp Hclt v i n.
  destruct (set_member_refines s pa f cell l Hwf Habs Hcp Hclt) as (r & h' & Heq & Ha & Hr & Hw & _).
  fold v i in Ha, Hr. exists r, h'. split; [exact Heq|]. split; [exact Hw|].
  assert (Hnone : r = None -> h' = hp s).
  { intros ->. pose proof Hwf as (bid & off & len & Hl & _).
    rewrite (set_member_arr_eq pa f cell s bid off len Hl) in Heq.
    assert (Hsame : forall s1 : st, (Ok (@None addr), s) = (Ok None, set_hp s h') -> h' = hp s).
    { intros _ Hs. inversion Hs as [Hs']. rewrite <- (set_hp_id s) in Hs' at 1. unfold set_hp in Hs'. now inversion Hs'. }
    destruct (get_member (hp s) (VArr bid off len) (VNum f)); try discriminate;
      try (now apply (Hsame s));
      (destruct (fill_limit <? f_trunc_int64 f)%Z; [now apply (Hsame s)|]);
      exfalso; unfold bind in Heq;
      destruct (fill_loop pa _ dummy_addr s) as [[x| | | | |] s1]; discriminate. }
  unfold ideal_set, resolve_index in Ha, Hr. fold n in Ha, Hr.
  repeat split; intros.
  all: destruct (i <? 0)%Z eqn:Hi0; try lia.
  all: try (destruct (n + i <? 0)%Z eqn:Hk0; try lia).
  all: try (destruct (i <? 0)%Z eqn:Hi0'; try lia).
  all: try (destruct (n + i <? n)%Z eqn:Hkn; try lia).
  all: try (destruct (i <? n)%Z eqn:Hin; try lia).
  all: try (destruct (fill_limit <? i)%Z eqn:Hlim; try lia).
  all: simpl in Ha, Hr.
  all: try (intros ->; discriminate).
  all: try (destruct r; [discriminate|reflexivity]).
  all: try (apply Hnone; destruct r; [discriminate|reflexivity]).
  all: try exact Ha.
  all: rewrite Ha; unfold n; replace (Z.to_nat (i - Z.of_nat (length l))) with (Z.to_nat i - length l) by lia; reflexivity.
Qed.

Lemma bytes_cmp_eq : forall a b, bytes_cmp a b = Eq -> a = b.
Proof.
  induction a as [|x a IH]; destruct b as [|y b]; simpl; try discriminate; [reflexivity|].
  destruct (N.compare_spec x y) as [->| |]; try discriminate. intros H. f_equal. now apply IH.
Qed.
Lemma bytes_cmp_refl : forall a, bytes_cmp a a = Eq.
Proof. induction a as [|x a IH]; simpl; [reflexivity|]. now rewrite N.compare_refl. Qed.

Lemma assoc_get_set_same : forall {A} k (v : A) l, assoc_get k (assoc_set k v l) = Some v.
Proof.
  intros A k v l. induction l as [|[k' v'] l IH]; simpl.
  - now rewrite bytes_eqb_refl.
  - destruct (bytes_cmp k k') eqn:E; simpl.
    + now rewrite bytes_eqb_refl.
    + now rewrite bytes_eqb_refl.
    + destruct (bytes_eqb k k') eqn:E'; [|exact IH].
      apply bytes_eqb_eq in E'. subst. rewrite bytes_cmp_refl in E. discriminate.
Qed.

Lemma assoc_get_set_other : forall {A} k k2 (v : A) l, k2 <> k ->
  assoc_get k2 (assoc_set k v l) = assoc_get k2 l.
Proof.
  intros A k k2 v l Hne.
  assert (Hb : bytes_eqb k2 k = false).
  { destruct (bytes_eqb k2 k) eqn:E; [|reflexivity]. apply bytes_eqb_eq in E. contradiction. }
  induction l as [|[k' v'] l IH]; simpl.
  - now rewrite Hb.
  - destruct (bytes_cmp k k') eqn:E; simpl.
    + apply bytes_cmp_eq in E. subst k'. now rewrite Hb.
    + now rewrite Hb.
    + now rewrite IH.
Qed.

Lemma get_obj_set_same : forall h o l, get_obj (set_obj h o l) o = l.
Proof. intros h o l. unfold get_obj, set_obj. simpl. now rewrite PM.gss. Qed.
Lemma get_obj_set_other : forall h o o' l, o' <> o -> get_obj (set_obj h o l) o' = get_obj h o'.
Proof. intros h o o' l H. unfold get_obj, set_obj. simpl. now rewrite PM.gso. Qed.

(* a store into an object sets exactly that key, in the shared map *)
Lemma set_member_object : forall s recv oid m cell,
  load (hp s) recv = VObj oid ->
  let h' := set_obj (hp s) oid (assoc_set (to_str m) cell (get_obj (hp s) oid)) in
  set_member recv m cell s = (Ok (Some cell), set_hp s h') /\
  assoc_get (to_str m) (get_obj h' oid) = Some cell /\
  (forall k, k <> to_str m -> assoc_get k (get_obj h' oid) = assoc_get k (get_obj (hp s) oid)) /\
  (forall o, o <> oid -> get_obj h' o = get_obj (hp s) o) /\
  (forall a, load h' a = load (hp s) a) /\
  (forall b, get_back h' b = get_back (hp s) b).
Proof.
  intros s recv oid m cell Hl h'. split; [|split; [|split; [|split; [|split]]]].
  - unfold set_member, bind, m_load, get_heap, upd_heap, ret. rewrite Hl. reflexivity.
  - unfold h'. rewrite get_obj_set_same. apply assoc_get_set_same.
  - intros k Hk. unfold h'. rewrite get_obj_set_same. now apply assoc_get_set_other.
  - intros o Ho. unfold h'. now apply get_obj_set_other.
  - reflexivity.
  - reflexivity.
Qed.

(* objects are shared: a store through one name is seen through every name of the same map *)
Lemma object_store_shared : forall s pa pb oid m cell,
  load (hp s) pa = VObj oid -> load (hp s) pb = VObj oid ->
  (match m with VNum _ | VStr _ => True | _ => False end) ->
  exists h', set_member pb m cell s = (Ok (Some cell), set_hp s h') /\
             get_member h' (load h' pa) m = GmCell cell.
Proof.
  intros s pa pb oid m cell Ha Hb Hm.
  destruct (set_member_object s pb oid m cell Hb) as (Heq & Hget & _ & _ & Hld & _).
  eexists. split; [exact Heq|]. rewrite Hld, Ha. unfold get_member.
  destruct m; try contradiction; now rewrite Hget.
Qed.

(* arrays share their ELEMENTS: an in-range store through one holder of a header is seen
   through every other holder of the same header *)
Lemma array_element_store_shared : forall s pa pb f cell l,
  wf_holder (hp s) pa -> wf_holder (hp s) pb -> load (hp s) pa = load (hp s) pb ->
  abs (hp s) pa = Some l ->
  cell <> pb -> (cell < next (hp s))%positive ->
  (- Z.of_nat (length l) <= f_trunc_int64 f < Z.of_nat (length l))%Z ->
  exists r h', set_member pb (VNum f) cell s = (Ok r, set_hp s h') /\ r <> None /\
               abs h' pa = abs h' pb /\
               abs h' pb = Some (fst (ideal_set l (f_trunc_int64 f) (load (hp s) cell))).
Proof.
  intros s pa pb f cell l Hwa Hwb Hsame Habs Hcp Hclt Hrange.
  assert (Habsb : abs (hp s) pb = Some l) by (unfold abs in *; now rewrite <- Hsame).
  pose proof Hwb as (bid & off & len & Hl & _).
  pose proof (index_refines (hp s) pb l f Hwb Habsb) as Hidx.
  pose proof (set_member_arr_eq pb f cell s bid off len Hl) as Heq. rewrite Hl in Hidx.
  pose proof (index_rules (hp s) pb l f Hwb Habsb) as Hrules. cbv zeta in Hrules. rewrite Hl in Hrules.
  destruct Hrules as (Herr & Hnone & _ & _).
  destruct (get_member (hp s) (VArr bid off len) (VNum f)) as [item|nn|vv| |]; try contradiction.
  - destruct Hidx as (_ & k & Hres & Hk).
    assert (Hka : nth_error (cells_of (hp s) pa) k = Some item).
    { unfold cells_of in *. now rewrite Hsame. }
    destruct (holder_store_item (hp s) pb item (load (hp s) cell) k Hwb Hk) as (_ & _ & Hab).
    destruct (holder_store_item (hp s) pa item (load (hp s) cell) k Hwa Hka) as (_ & _ & Haa).
    exists (Some item), (store (hp s) item (load (hp s) cell)). split; [exact Heq|].
    split; [discriminate|].
    assert (Hcs : cells_of (hp s) pa = cells_of (hp s) pb) by (unfold cells_of; now rewrite Hsame).
    split; [rewrite Haa, Hab, Hcs; reflexivity|].
    rewrite Hab. unfold ideal_set. rewrite Hres.
    assert (Hklt : k < length l).
    { rewrite (abs_cells_of _ _ _ Habsb), map_length. apply nth_error_Some. congruence. }
    replace (Z.of_nat k <? Z.of_nat (length l))%Z with true by lia. simpl. rewrite Nat2Z.id.
    now rewrite <- (abs_cells_of _ _ _ Habsb).
  - exfalso. assert (H : (Z.of_nat (length l) <= f_trunc_int64 f)%Z) by (now apply Hnone). lia.
  - exfalso. assert (H : (f_trunc_int64 f < - Z.of_nat (length l))%Z) by (now apply Herr). lia.
Qed.

(* plain assignment: the copy is stored in the left cell *)
Lemma assign_plain : forall src n tok left right s v,
  (forall p, load (hp s) left <> VNil (Some p)) ->
  (forall nf p, load (hp s) left <> VNative nf (Some p)) ->
  copy_value (load (hp s) right) = Some v ->
  eval_assignment src n tok left right s = (Ok left, set_hp s (store (hp s) left v)).
Proof.
  intros src n tok left right s v Hns Hnn Hcopy.
  unfold eval_assignment. unfold bind at 1. unfold m_load at 1.
  destruct (load (hp s) left) as [| | | | |[p|]|nf [p|]| | |] eqn:Hl;
    try (exfalso; now apply (Hns p)); try (exfalso; now apply (Hnn nf p));
    unfold bind, ret, m_load, m_store, upd_heap; rewrite Hcopy; reflexivity.
Qed.

(* ================================================================ C20: auto-fill limit *)

Lemma fill_refused_above_limit : forall s pa f cell l,
  wf_holder (hp s) pa -> abs (hp s) pa = Some l ->
  (Z.of_nat (length l) <= f_trunc_int64 f)%Z -> (fill_limit < f_trunc_int64 f)%Z ->
  set_member pa (VNum f) cell s = (Ok None, s).
Proof.
  intros s pa f cell l Hwf Habs Hge Hlim.
  pose proof Hwf as (bid & off & len & Hl & _).
  rewrite (set_member_arr_eq pa f cell s bid off len Hl).
  pose proof (index_rules (hp s) pa l f Hwf Habs) as Hrules. cbv zeta in Hrules. rewrite Hl in Hrules.
  destruct Hrules as (_ & Hnone & _ & _).
  replace (get_member (hp s) (VArr bid off len) (VNum f)) with GmNone by (symmetry; now apply Hnone).
  replace (fill_limit <? f_trunc_int64 f)%Z with true by lia. reflexivity.
Qed.

Lemma fill_ok_at_limit : forall s pa f cell l,
  wf_holder (hp s) pa -> abs (hp s) pa = Some l ->
  cell <> pa -> (cell < next (hp s))%positive ->
  (Z.of_nat (length l) <= f_trunc_int64 f <= fill_limit)%Z ->
  exists item h',
    set_member pa (VNum f) cell s = (Ok (Some item), set_hp s h') /\
    abs h' pa = Some (l ++ repeat nil_value (Z.to_nat (f_trunc_int64 f) - length l) ++ [load (hp s) cell]) /\
    wf_holder h' pa /\
    exists news, length news <= Z.to_nat (f_trunc_int64 f) - length l + 1 /\
                 forall a, allocated h' a -> allocated (hp s) a \/ In a news.
Proof.
  intros s pa f cell l Hwf Habs Hcp Hclt Hrange.
  destruct (set_member_refines s pa f cell l Hwf Habs Hcp Hclt)
    as (r & h' & Heq & Ha & Hr & Hw & _ & _ & _ & Hdom & _).
  unfold ideal_set, resolve_index in Ha, Hr.
  replace (f_trunc_int64 f <? 0)%Z with false in Ha, Hr by lia.
  replace (f_trunc_int64 f <? 0)%Z with false in Ha, Hr by lia.
  replace (f_trunc_int64 f <? Z.of_nat (length l))%Z with false in Ha, Hr by lia.
  replace (fill_limit <? f_trunc_int64 f)%Z with false in Ha, Hr by lia.
  simpl in Ha, Hr. destruct r as [item|]; [|discriminate].
  exists item, h'. split; [exact Heq|]. split; [exact Ha|]. split; [exact Hw|].
  destruct Hdom as (news & Hlen & Hdom); [lia|].
  exists news. split; [lia|exact Hdom].
Qed.


(* ================================================================ frame: a second holder *)

Lemma footprint_frame : forall h h' pa,
  wf_holder h pa -> (next h <= next h')%positive ->
  (forall a, (a < next h)%positive -> load h' a = load h a) ->
  (forall b, (b < next h)%positive -> get_back h' b = get_back h b) ->
  objs h' = objs h ->
  footprint h h' pa.
Proof.
  intros h h' pa Hwf Hnx Hld Hbk Hob.
  destruct (holder_frame h h' pa Hwf Hnx Hld Hbk) as (_ & Hc & _).
  split; [|split; [|split; [exact Hob|split; [exact Hnx|split]]]].
  - intros a Ha _ _. now apply Hld.
  - intros b Hb _. now apply Hbk.
  - intros c Hcin. left. now rewrite <- Hc.
  - left. unfold bid_of. rewrite Hld; [reflexivity|now apply wf_pa_lt].
Qed.

Lemma footprint_trans : forall h h1 h2 pa,
  footprint h h1 pa -> footprint h1 h2 pa -> footprint h h2 pa.
Proof.
  intros h h1 h2 pa (L1 & B1 & O1 & N1 & C1 & D1) (L2 & B2 & O2 & N2 & C2 & D2).
  split; [|split; [|split; [congruence|split; [lia|split]]]].
  - intros a Ha Hapa Hnin. rewrite L2; [now apply L1|lia|exact Hapa|].
    intros Hin. destruct (C1 a Hin) as [H|H]; [contradiction|lia].
  - intros b Hb Hbid. rewrite B2; [now apply B1|lia|].
    destruct D1 as [D1|D1]; [congruence|]. intros ->. lia.
  - intros c Hc. destruct (C2 c Hc) as [H|H]; [|right; lia].
    destruct (C1 c H) as [H'|H']; [now left|right; exact H'].
  - destruct D2 as [D2|D2]; [rewrite D2; exact D1|right; lia].
Qed.

Lemma footprint_push : forall h pa x l,
  wf_holder h pa -> abs h pa = Some l ->
  footprint h (append_at (snd (alloc h x)) pa (next h)) pa.
Proof.
  intros h pa x l Hwf Habs.
  destruct (append_fresh h pa x l Hwf Habs) as (_ & Hw2 & Hc2 & Hld & _ & Hnx & Hob & Hbk).
  cbv zeta in *. set (h2 := append_at (snd (alloc h x)) pa (next h)) in *.
  pose proof (wf_pa_lt _ _ Hwf) as Hpa.
  split; [|split; [|split; [exact Hob|split; [lia|split]]]].
  - intros a Ha Hapa _. apply Hld; [exact Hapa|lia].
  - intros b Hb Hbid. apply Hbk; [exact Hb|]. intros bid1 off1 len1 Hl1.
    rewrite (bid_of_eq _ _ _ _ _ Hl1) in Hbid. exact Hbid.
  - intros c Hc. rewrite Hc2 in Hc. apply in_app_iff in Hc. destruct Hc as [Hc|[<-|[]]]; [now left|right; lia].
  - pose proof (append_at_bid (snd (alloc h x)) pa (next h)) as Hb. fold h2 in Hb.
    assert (Hb0 : bid_of (snd (alloc h x)) pa = bid_of h pa).
    { unfold bid_of. rewrite load_alloc_other by lia. reflexivity. }
    rewrite Hb0 in Hb. change (next (snd (alloc h x))) with (Pos.succ (next h)) in Hb.
    destruct Hb as [Hb|Hb]; [now left|right; lia].
Qed.

Lemma footprint_rewindow : forall h pa bid off len off' len',
  load h pa = VArr bid off len ->
  (forall c, In c (arr_cells h bid off' len') -> In c (arr_cells h bid off len)) ->
  footprint h (store h pa (VArr bid off' len')) pa.
Proof.
  intros h pa bid off len off' len' Hl Hsub.
  split; [|split; [|split; [reflexivity|split; [simpl; lia|split]]]].
  - intros a _ Hapa _. now apply load_store_other.
  - intros b _ _. reflexivity.
  - intros c Hc. left. unfold cells_of in *. rewrite load_store_same in Hc. rewrite Hl. now apply Hsub.
  - left. unfold bid_of. now rewrite load_store_same, Hl.
Qed.

Lemma firstn_incl_S : forall {A} n (l : list A) c, In c (firstn n l) -> In c (firstn (S n) l).
Proof.
  intros A n; induction n as [|n IH]; intros l c H; [contradiction|].
  destruct l as [|y l]; [contradiction|]. simpl in *. destruct H as [H|H]; [now left|right; now apply IH].
Qed.

Lemma run_step_footprint : forall pa s o l,
  wf_holder (hp s) pa -> abs (hp s) pa = Some l ->
  footprint (hp s) (hp (snd (run_step pa s o))) pa.
Proof.
  intros pa s o l Hwf Habs. destruct o as [x| | |f|f v| |x|]; unfold run_step.
  - rewrite native_push_eq. cbv zeta. simpl snd. rewrite set_hp_hp. now apply footprint_push with l.
  - rewrite native_pop_eq. pose proof Hwf as (bid & off & len & Hl & _). rewrite Hl.
    destruct len as [|len']; [apply footprint_refl|]. simpl snd. rewrite set_hp_hp.
    apply (footprint_rewindow (hp s) pa bid off (S len') off len' Hl).
    intros c Hc. unfold arr_cells in *. now apply firstn_incl_S.
  - rewrite native_popfirst_eq. pose proof Hwf as (bid & off & len & Hl & Hin & _). rewrite Hl.
    destruct len as [|len']; [apply footprint_refl|]. simpl snd. rewrite set_hp_hp.
    apply (footprint_rewindow (hp s) pa bid off (S len') (S off) len' Hl).
    intros c Hc. unfold arr_cells in *.
    destruct (nth_error_in_range (get_back (hp s) bid) off) as [c0 Hc0]; [lia|].
    rewrite (skipn_nth_cons off _ c0 Hc0). simpl. now right.
  - apply footprint_refl.
  - rewrite setat_eq.
    destruct (holder_alloc (hp s) pa v Hwf) as (Hw1 & Hc1 & Ha1). rewrite Habs in Ha1.
    pose proof (wf_pa_lt _ _ Hwf) as Hpa.
    destruct (set_member_refines (set_hp s (snd (alloc (hp s) v))) pa f (next (hp s)) l Hw1 Ha1)
      as (r & h' & Heq & _ & _ & _ & _ & _ & _ & _ & Hfp).
    { lia. } { simpl. lia. }
    rewrite set_hp_hp in *. rewrite Heq. simpl snd. rewrite set_hp_hp.
    apply footprint_trans with (snd (alloc (hp s) v)); [|exact Hfp].
    apply footprint_frame; [exact Hwf|simpl; lia| | |reflexivity].
    + intros a Ha. apply load_alloc_other. lia.
    + intros b _. reflexivity.
  - rewrite (length_refines s pa l [] Hwf Habs). apply footprint_refl.
  - destruct (contains_refines s pa l x Hwf Habs) as (r & Heq & _). rewrite Heq. apply footprint_refl.
  - rewrite native_sort_eq. cbv zeta. destruct (forallb copyable _); [|apply footprint_refl].
    match goal with |- context [alloc_all ?t s] =>
      destruct (alloc_all_spec t s) as (cells & h1 & Heq & _ & Hld & Hbk & Hob & Hnx & _) end.
    rewrite Heq. simpl snd. rewrite !set_hp_hp.
    apply footprint_frame; [exact Hwf|simpl; lia| | |].
    + intros a Ha. etransitivity; [|apply Hld; exact Ha]. reflexivity.
    + intros b Hb. etransitivity; [|apply Hbk]. unfold get_back, new_back. simpl.
      rewrite PM.gso by lia. reflexivity.
    + simpl. exact Hob.
Qed.

(* two holders that do not interfere *)
Definition separate (h : heap) (pa pb : addr) : Prop :=
  pa <> pb /\ wf_holder h pa /\ wf_holder h pb /\ bid_of h pa <> bid_of h pb /\
  ~ In pa (cells_of h pb) /\ ~ In pb (cells_of h pa) /\
  (forall c, In c (cells_of h pa) -> ~ In c (cells_of h pb)).

Lemma holder_frame_precise : forall h h' pb,
  wf_holder h pb -> (next h <= next h')%positive ->
  load h' pb = load h pb ->
  get_back h' (bid_of h pb) = get_back h (bid_of h pb) ->
  (forall c, In c (cells_of h pb) -> load h' c = load h c) ->
  wf_holder h' pb /\ cells_of h' pb = cells_of h pb /\ abs h' pb = abs h pb.
Proof.
  intros h h' pb (bid & off & len & Hl & Hin & Hpa & Hbid & Hall & Hnot & Hnd) Hnext Hlp Hbk Hld.
  rewrite (bid_of_eq _ _ _ _ _ Hl) in Hbk.
  assert (Hl' : load h' pb = VArr bid off len) by (rewrite Hlp; assumption).
  assert (Hc : arr_cells h' bid off len = arr_cells h bid off len) by (unfold arr_cells; now rewrite Hbk).
  unfold cells_of in *. rewrite Hl in *. rewrite Hl'.
  split; [|split; [exact Hc|]].
  - exists bid, off, len. rewrite Hc, Hbk.
    repeat split; try assumption; try lia.
    eapply Forall_impl; [|exact Hall]. simpl. intros a Ha. lia.
  - unfold abs. rewrite Hl, Hl', Hc. f_equal. apply map_load_ext. exact Hld.
Qed.

Lemma frame_generic : forall h h' pa pb,
  separate h pa pb -> footprint h h' pa -> wf_holder h' pa ->
  abs h' pb = abs h pb /\ separate h' pa pb.
Proof.
  intros h h' pa pb (Hne & Hwa & Hwb & Hbid & Hab & Hba & Hdis) (L & B & O & N & C & D) Hwa'.
  pose proof (wf_pa_lt _ _ Hwb) as Hpb.
  pose proof (wf_cells_lt _ _ Hwb) as Hcb. rewrite Forall_forall in Hcb.
  assert (Hbb : (bid_of h pb < next h)%positive).
  { destruct Hwb as (bid & off & len & Hl & _ & _ & Hb & _). now rewrite (bid_of_eq _ _ _ _ _ Hl). }
  destruct (holder_frame_precise h h' pb Hwb N) as (Hwb' & Hcb' & Hab').
  - apply L; [exact Hpb|congruence|exact Hba].
  - apply B; [exact Hbb|congruence].
  - intros c Hc. apply L; [now apply Hcb| |].
    + intros ->. contradiction.
    + intros Hin. now apply (Hdis c).
  - split; [exact Hab'|].
    assert (Hbidb : bid_of h' pb = bid_of h pb).
    { unfold bid_of. rewrite L; [reflexivity|exact Hpb|congruence|exact Hba]. }
    split; [exact Hne|]. split; [exact Hwa'|]. split; [exact Hwb'|]. split; [|split; [|split]].
    + rewrite Hbidb. destruct D as [D|D]; [congruence|]. intros He. rewrite He in D. lia.
    + now rewrite Hcb'.
    + intros Hin. destruct (C pb Hin) as [H|H]; [contradiction|lia].
    + intros c Hc. rewrite Hcb'. destruct (C c Hc) as [H|H]; [now apply Hdis|].
      intros Hin. apply Hcb in Hin. lia.
Qed.

(* an operation through [pa] does not change what is seen through a separate holder [pb] *)
Theorem frame_step : forall pa pb s o,
  separate (hp s) pa pb ->
  abs (hp (snd (run_step pa s o))) pb = abs (hp s) pb /\
  separate (hp (snd (run_step pa s o))) pa pb.
Proof.
  intros pa pb s o Hsep. pose proof Hsep as (_ & Hwa & _).
  pose proof (wf_abs _ _ Hwa) as Habs.
  destruct (run_step_refines pa s o _ Hwa Habs) as (_ & _ & Hwa').
  apply frame_generic; [exact Hsep| |exact Hwa'].
  eapply run_step_footprint; eassumption.
Qed.

Theorem frame_history : forall os pa pb s,
  separate (hp s) pa pb ->
  abs (hp (snd (run_ops pa s os))) pb = abs (hp s) pb /\
  separate (hp (snd (run_ops pa s os))) pa pb.
Proof.
  induction os as [|o os IH]; intros pa pb s Hsep; [split; [reflexivity|exact Hsep]|].
  simpl. destruct (frame_step pa pb s o Hsep) as (Ha & Hs).
  destruct (run_step pa s o) as [x s1]. simpl in Ha, Hs.
  destruct (IH pa pb s1 Hs) as (Ha' & Hs').
  destruct (run_ops pa s1 os) as [xs s2]. simpl in *. split; [congruence|exact Hs'].
Qed.
