(* Proofs/AssignCreate.v -- C09: an assignment to a missing member (or to a member named like
   a method of the receiver's prototype) creates exactly that member on the receiver, and an
   assignment one level below a missing member creates the intermediate object first. *)
From Coq Require Import List ZArith Bool Lia.
From Coq Require Import FMapPositive.
From JQ Require Import Base.Bytes Num.F64 Gen.Generated.
From JQ Require Import Json.JValue Syntax.Token Sem.Value Sem.Natives Sem.Eval.
From JQ Require Import Spec.IdealList Proofs.Arrays.
Import ListNotations.
Open Scope nat_scope.

(* where an assignable non-location points: (receiver cell, member key) *)
Definition target_of (v : value) : option (addr * value) :=
  match v with
  | VNil (Some (parent, KStr k)) => Some (parent, VStr k)
  | VNil (Some (parent, KNum x)) => Some (parent, VNum x)
  | VNative nf (Some parent) => Some (parent, VStr (native_name nf))
  | _ => None
  end.

Lemma create_speculative_direct : forall n spec s parent m,
  target_of (load (hp s) spec) = Some (parent, m) ->
  (forall p, load (hp s) parent <> VNil p) ->
  create_speculative (S n) spec s = set_member parent m spec s.
Proof.
  intros n spec s parent m Ht Hp. cbn [create_speculative].
  unfold bind at 1. unfold m_load at 1.
  destruct (load (hp s) spec) as [| | | | |[[p0 [k0|x0]]|]|nf [p0|]| | |] eqn:Hl;
    cbn in Ht; try discriminate; inversion Ht; subst; clear Ht;
    unfold bind at 1; unfold m_load at 1;
    destruct (load (hp s) parent) as [| | | | |pp| | | |] eqn:Hpv;
    try (exfalso; now apply (Hp pp));
    unfold bind at 1; unfold ret at 1; reflexivity.
Qed.

(* o.k = y where o is an object without (own or prototype) member k, or where k names a
   method of the object prototype: afterwards the object maps k to the cell [left], which
   holds the copy of y; no other key, object, backing array or cell changes *)
Lemma assign_creates_member : forall src n tok left right s parent m oid v,
  target_of (load (hp s) left) = Some (parent, m) ->
  load (hp s) parent = VObj oid ->
  copy_value (load (hp s) right) = Some v ->
  exists h',
    eval_assignment src (S n) tok left right s = (Ok left, set_hp s h') /\
    assoc_get (to_str m) (get_obj h' oid) = Some left /\
    load h' left = v /\
    (forall k, k <> to_str m -> assoc_get k (get_obj h' oid) = assoc_get k (get_obj (hp s) oid)) /\
    (forall o, o <> oid -> get_obj h' o = get_obj (hp s) o) /\
    (forall a, a <> left -> load h' a = load (hp s) a) /\
    (forall b, get_back h' b = get_back (hp s) b).
Proof.
  intros src n tok left right s parent m oid v Ht Hobj Hcopy.
  assert (Hnn : forall p, load (hp s) parent <> VNil p) by (intros p; rewrite Hobj; discriminate).
  pose proof (create_speculative_direct n left s parent m Ht Hnn) as Hcs.
  destruct (set_member_object s parent oid m left Hobj) as (Hsm & Hget & Hoth & Hobjs & Hld & Hbk).
  set (h1 := set_obj (hp s) oid (assoc_set (to_str m) left (get_obj (hp s) oid))) in *.
  exists (store h1 left v).
  split; [|split; [|split; [|split; [|split; [|split]]]]].
  - unfold eval_assignment. unfold bind at 1. unfold m_load at 1.
    assert (Hshape : (exists p, load (hp s) left = VNil (Some p)) \/
                     (exists nf p, load (hp s) left = VNative nf (Some p))).
    { destruct (load (hp s) left) as [| | | | |[[p0 [k0|x0]]|]|nf [p0|]| | |]; cbn in Ht; try discriminate;
        [left; eexists; reflexivity|left; eexists; reflexivity|right; eexists; eexists; reflexivity]. }
    assert (Hgo : (let* left' := (let* r := create_speculative (S n) left in
                                  match r with Some c => ret c | None => rt_error src tok end) in
                   let* rv := m_load right in
                   match copy_value rv with
                   | Some v0 => m_store left' v0 ;;; ret left'
                   | None => rt_error src tok
                   end) s = (Ok left, set_hp s (store h1 left v))).
    { unfold bind at 1. unfold bind at 1. rewrite Hcs, Hsm. unfold ret at 1.
      unfold bind at 1. unfold m_load at 1. cbn [hp set_hp].
      rewrite (Hld right), Hcopy.
      unfold bind, m_store, upd_heap, ret. destruct s; reflexivity. }
    destruct Hshape as [(p & Hl) | (nf & p & Hl)]; rewrite Hl; exact Hgo.
  - unfold h1 in *. exact Hget.
  - unfold load, store. cbn. now rewrite PM.gss.
  - exact Hoth.
  - exact Hobjs.
  - intros a Ha. rewrite <- (Hld a). unfold load, store. cbn. now rewrite PM.gso.
  - exact Hbk.
Qed.

(* ================================================================ nested creation *)

Lemma get_obj_new_same : forall h l, get_obj (snd (new_obj h l)) (next h) = l.
Proof. intros h l. unfold get_obj, new_obj. cbn. now rewrite PM.gss. Qed.
Lemma get_obj_new_other : forall h l o, o <> next h -> get_obj (snd (new_obj h l)) o = get_obj h o.
Proof. intros h l o H. unfold get_obj, new_obj. cbn. now rewrite PM.gso. Qed.

(* the assignment, once the place to store into has been created *)
Lemma eval_assignment_created : forall src n tok left right s c s' v,
  (exists p, load (hp s) left = VNil (Some p)) \/ (exists nf p, load (hp s) left = VNative nf (Some p)) ->
  create_speculative n left s = (Ok (Some c), s') ->
  copy_value (load (hp s') right) = Some v ->
  eval_assignment src n tok left right s = (Ok c, set_hp s' (store (hp s') c v)).
Proof.
  intros src n tok left right s c s' v Hshape Hcs Hcopy.
  unfold eval_assignment. unfold bind at 1. unfold m_load at 1.
  assert (Hgo : (let* left' := (let* r := create_speculative n left in
                                match r with Some c => ret c | None => rt_error src tok end) in
                 let* rv := m_load right in
                 match copy_value rv with
                 | Some v0 => m_store left' v0 ;;; ret left'
                 | None => rt_error src tok
                 end) s = (Ok c, set_hp s' (store (hp s') c v))).
  { unfold bind at 1. unfold bind at 1. rewrite Hcs. unfold ret at 1.
    unfold bind at 1. unfold m_load at 1. rewrite Hcopy.
    unfold bind, m_store, upd_heap, ret. reflexivity. }
  destruct Hshape as [(p & Hl) | (nf & p & Hl)]; rewrite Hl; exact Hgo.
Qed.

(* the speculative member [spec] = (pcell, key) hangs below the speculative member
   pcell = (ocell, a) of an existing object: the intermediate container is created in a fresh
   cell pc, stored under a, and only then the member itself is set *)
Lemma create_speculative_nested : forall n spec s pcell key ocell a oid,
  load (hp s) spec = VNil (Some (pcell, key)) ->
  load (hp s) pcell = VNil (Some (ocell, KStr a)) ->
  load (hp s) ocell = VObj oid ->
  (ocell < next (hp s))%positive ->
  let h := hp s in
  let pc := next h in
  let h0 := snd (alloc h (VNil (Some (ocell, KStr a)))) in
  let h1 := set_obj h0 oid (assoc_set a pc (get_obj h0 oid)) in
  let member := match key with KStr x => VStr x | KNum x => VNum x end in
  let nvh := match member with VStr _ => new_empty_object h1 | _ => new_empty_array h1 end in
  create_speculative (S (S n)) spec s =
  set_member pc member spec (set_hp s (store (snd nvh) pc (fst nvh))).
Proof.
  intros n spec s pcell key ocell a oid Hl Hp Ho Holt h pc h0 h1 member nvh.
  assert (Hin : create_speculative (S n) pc (set_hp s h0) = (Ok (Some pc), set_hp s h1)).
  { rewrite (create_speculative_direct n pc (set_hp s h0) ocell (VStr a)).
    - assert (Ho0 : load (hp (set_hp s h0)) ocell = VObj oid).
      { rewrite set_hp_hp. unfold h0. rewrite load_alloc_other by (unfold h; lia). exact Ho. }
      destruct (set_member_object (set_hp s h0) ocell oid (VStr a) pc Ho0) as (Hsm & _).
      rewrite Hsm. reflexivity.
    - rewrite set_hp_hp. unfold h0, pc.
      change (next h) with (fst (alloc h (VNil (Some (ocell, KStr a))))).
      rewrite load_alloc_same. reflexivity.
    - intros p. rewrite set_hp_hp. unfold h0. rewrite load_alloc_other by (unfold h; lia).
      fold h in Ho. rewrite Ho. discriminate. }
  remember (S n) as m eqn:Hm.
  cbn [create_speculative].
  unfold bind at 1. unfold m_load at 1. rewrite Hl.
  unfold bind at 1. unfold m_load at 1. rewrite Hp.
  unfold bind at 1. unfold bind at 1. unfold m_alloc at 1. unfold with_heap at 1.
  change (alloc (hp s) (VNil (Some (ocell, KStr a)))) with (pc, h0). cbv iota beta.
  fold (set_hp s h0).
  unfold bind at 1. rewrite Hin. cbv iota beta.
  unfold nvh, member. destruct key as [x|x]; reflexivity.
Qed.

(* o.a.k = y where o is an existing object whose member a is missing (the evaluator
   represents the missing o.a by the speculative nil in [pcell], and o.a.k by the one in
   [left]): a new object is created, stored under a in o (through a fresh cell pc), and
   receives the single member k, which is the cell [left] holding the copy of y.
   Nothing that existed before changes except o's key a and the cell [left].
   The hypotheses [... < next (hp s)] hold in every reachable evaluator state: identifiers at
   or above [next] are not in use. *)
Lemma assign_creates_intermediate_object : forall src n tok left right s pcell ocell a k oid v,
  load (hp s) left = VNil (Some (pcell, KStr k)) ->
  load (hp s) pcell = VNil (Some (ocell, KStr a)) ->
  load (hp s) ocell = VObj oid ->
  (left < next (hp s))%positive -> (right < next (hp s))%positive ->
  (ocell < next (hp s))%positive -> (oid < next (hp s))%positive ->
  copy_value (load (hp s) right) = Some v ->
  exists pc newo h',
    eval_assignment src (S (S n)) tok left right s = (Ok left, set_hp s h') /\
    (next (hp s) <= pc)%positive /\ (next (hp s) <= newo)%positive /\
    assoc_get a (get_obj h' oid) = Some pc /\
    load h' pc = VObj newo /\
    get_obj h' newo = [(k, left)] /\
    load h' left = v /\
    (forall k', k' <> a -> assoc_get k' (get_obj h' oid) = assoc_get k' (get_obj (hp s) oid)) /\
    (forall o, o <> oid -> o <> newo -> get_obj h' o = get_obj (hp s) o) /\
    (forall c, c <> left -> (c < next (hp s))%positive -> load h' c = load (hp s) c) /\
    (forall b, get_back h' b = get_back (hp s) b).
Proof.
  intros src n tok left right s pcell ocell a k oid v Hl Hp Ho Hlt Hrt Holt Hoidlt Hcopy.
  pose proof (create_speculative_nested n left s pcell (KStr k) ocell a oid Hl Hp Ho Holt) as Hcs.
  cbv zeta in Hcs.
  set (h := hp s) in *.
  set (pc := next h) in *.
  set (h0 := snd (alloc h (VNil (Some (ocell, KStr a))))) in *.
  set (h1 := set_obj h0 oid (assoc_set a pc (get_obj h0 oid))) in *.
  change (new_empty_object h1) with (VObj (next h1), snd (new_obj h1 [])) in Hcs.
  cbn [fst snd] in Hcs.
  set (newo := next h1) in *.
  set (h2 := snd (new_obj h1 [])) in *.
  set (h3 := store h2 pc (VObj newo)) in *.
  assert (Hnewo : newo = Pos.succ (next h)) by reflexivity.
  assert (Hpcne : pc <> left) by (unfold pc; lia).
  assert (Hl3 : load (hp (set_hp s h3)) pc = VObj newo) by (rewrite set_hp_hp; apply load_store_same).
  destruct (set_member_object (set_hp s h3) pc newo (VStr k) left Hl3) as (Hsm & _).
  rewrite set_hp_hp, set_hp_twice in Hsm. cbn [to_str] in Hsm.
  assert (Hg3 : get_obj h3 newo = []) by (apply (get_obj_new_same h1 [])).
  rewrite Hg3 in Hsm. change (assoc_set k left []) with [(k, left)] in Hsm.
  set (h4 := set_obj h3 newo [(k, left)]) in *.
  rewrite Hsm in Hcs.
  assert (Hold : forall c, (c < next h)%positive -> load h4 c = load h c).
  { intros c Hc. change (load h4 c) with (load h3 c). unfold h3.
    rewrite load_store_other by (unfold pc; lia).
    change (load h2 c) with (load h0 c). unfold h0. apply load_alloc_other. lia. }
  exists pc, newo, (store h4 left v).
  split; [|split; [|split; [|split; [|split; [|split; [|split; [|split; [|split; [|split]]]]]]]]].
  - rewrite (eval_assignment_created src (S (S n)) tok left right s left (set_hp s h4) v).
    + reflexivity.
    + left. eexists. exact Hl.
    + exact Hcs.
    + rewrite set_hp_hp, Hold by exact Hrt. exact Hcopy.
  - unfold pc. lia.
  - rewrite Hnewo. lia.
  - change (get_obj (store h4 left v) oid) with (get_obj h4 oid). unfold h4.
    rewrite get_obj_set_other by (rewrite Hnewo; lia).
    change (get_obj h3 oid) with (get_obj h2 oid). unfold h2.
    rewrite get_obj_new_other by (change (next h1) with (next h0); unfold h0; cbn; lia).
    unfold h1. rewrite get_obj_set_same. apply assoc_get_set_same.
  - rewrite load_store_other by exact Hpcne. change (load h4 pc) with (load h3 pc).
    apply load_store_same.
  - change (get_obj (store h4 left v) newo) with (get_obj h4 newo). unfold h4.
    apply get_obj_set_same.
  - apply load_store_same.
  - intros k' Hk'. change (get_obj (store h4 left v) oid) with (get_obj h4 oid). unfold h4.
    rewrite get_obj_set_other by (rewrite Hnewo; lia).
    change (get_obj h3 oid) with (get_obj h2 oid). unfold h2.
    rewrite get_obj_new_other by (change (next h1) with (next h0); unfold h0; cbn; lia).
    unfold h1. rewrite get_obj_set_same. rewrite assoc_get_set_other by exact Hk'. reflexivity.
  - intros o Hoo Hon. change (get_obj (store h4 left v) o) with (get_obj h4 o). unfold h4.
    rewrite get_obj_set_other by exact Hon.
    change (get_obj h3 o) with (get_obj h2 o). unfold h2.
    rewrite get_obj_new_other by exact Hon.
    unfold h1. rewrite get_obj_set_other by exact Hoo. reflexivity.
  - intros c Hc Hclt. rewrite load_store_other by exact Hc. apply Hold. exact Hclt.
  - intros b. reflexivity.
Qed.

(* the cell holding the one non-null element of [null; ...; null; v0] *)
Lemma last_cell_position : forall (ld : addr -> value) k cs v0 item,
  map ld cs = repeat nil_value k ++ [v0] -> v0 <> nil_value ->
  In item cs -> ld item = v0 -> nth_error cs k = Some item.
Proof.
  intros ld k. induction k as [|k IH]; intros cs v0 item Hmap Hne Hin Hld.
  - destruct cs as [|c [|c' cs]]; cbn in Hmap; try discriminate. destruct Hin as [->|[]]. reflexivity.
  - destruct cs as [|c cs]; [discriminate|]. cbn in Hmap. injection Hmap as Hc Hrest.
    destruct Hin as [->|Hin]; [congruence|]. cbn. apply (IH cs v0 item); assumption.
Qed.

(* o.a[i] = y where o is an existing object whose member a is missing, 0 <= i <= fill_limit
   (i = the index f truncated to int64; the speculative nils are as in the previous lemma,
   with the numeric key f on [left]): a new array is created in a fresh cell pc, stored under
   a in o, and filled with i nulls followed by one more element cell [item], which receives
   the copy of y.  What is stated about the new array, exactly:
     - [abs h' pc = Some (repeat nil_value i ++ [v])]: pc holds a slice header whose window of
       element cells has the contents null, ..., null (i times), v  (abs: Spec/IdealList.v);
     - [wf_holder h' pc]: the window lies inside its backing, its cells are allocated,
       pairwise distinct and different from pc;
     - the cell at index i of the window is [item], it holds v, and it is the cell the
       assignment returns (NOT [left]: an index store past the end copies the value into a
       newly appended cell, and the speculative cell [left] is left as it was -- in the model,
       set_member on an array returns the appended cell, which eval_assignment then stores
       into and returns);
     - every element cell of the new array is fresh.
   Frame: o keeps all its other keys, every other object is unchanged (no object is created),
   every cell and every backing array that existed before is unchanged (including [left]). *)
Lemma assign_creates_intermediate_array : forall src n tok left right s pcell ocell a f oid v,
  load (hp s) left = VNil (Some (pcell, KNum f)) ->
  load (hp s) pcell = VNil (Some (ocell, KStr a)) ->
  load (hp s) ocell = VObj oid ->
  (left < next (hp s))%positive -> (right < next (hp s))%positive ->
  (ocell < next (hp s))%positive ->
  copy_value (load (hp s) right) = Some v ->
  (0 <= f_trunc_int64 f <= fill_limit)%Z ->
  exists pc item h',
    eval_assignment src (S (S n)) tok left right s = (Ok item, set_hp s h') /\
    (next (hp s) <= pc)%positive /\ (next (hp s) <= item)%positive /\
    assoc_get a (get_obj h' oid) = Some pc /\
    abs h' pc = Some (repeat nil_value (Z.to_nat (f_trunc_int64 f)) ++ [v]) /\
    wf_holder h' pc /\
    nth_error (cells_of h' pc) (Z.to_nat (f_trunc_int64 f)) = Some item /\
    load h' item = v /\
    Forall (fun c => (next (hp s) <= c)%positive) (cells_of h' pc) /\
    (forall k', k' <> a -> assoc_get k' (get_obj h' oid) = assoc_get k' (get_obj (hp s) oid)) /\
    (forall o, o <> oid -> get_obj h' o = get_obj (hp s) o) /\
    (forall c, (c < next (hp s))%positive -> load h' c = load (hp s) c) /\
    (forall b, (b < next (hp s))%positive -> get_back h' b = get_back (hp s) b).
Proof.
  intros src n tok left right s pcell ocell a f oid v Hl Hp Ho Hlt Hrt Holt Hcopy Hrange.
  pose proof (create_speculative_nested n left s pcell (KNum f) ocell a oid Hl Hp Ho Holt) as Hcs.
  cbv zeta in Hcs.
  set (h := hp s) in *.
  set (pc := next h) in *.
  set (h0 := snd (alloc h (VNil (Some (ocell, KStr a))))) in *.
  set (h1 := set_obj h0 oid (assoc_set a pc (get_obj h0 oid))) in *.
  change (new_empty_array h1) with (VArr (next h1) 0 0, snd (new_back h1 [])) in Hcs.
  cbn [fst snd] in Hcs.
  set (b0 := next h1) in *.
  set (h2 := snd (new_back h1 [])) in *.
  set (h3 := store h2 pc (VArr b0 0 0)) in *.
  set (i := f_trunc_int64 f) in *.
  set (v0 := VNil (Some (pcell, KNum f))) in *.
  assert (Hb0 : b0 = Pos.succ (next h)) by reflexivity.
  assert (Hn3 : next h3 = Pos.succ (Pos.succ (next h))) by reflexivity.
  assert (Hpcne : left <> pc) by (unfold pc; lia).
  assert (Hl3 : load h3 pc = VArr b0 0 0) by apply load_store_same.
  assert (Hcells3 : cells_of h3 pc = []) by (unfold cells_of; rewrite Hl3; reflexivity).
  assert (Hold3 : forall c, (c < next h)%positive -> load h3 c = load h c).
  { intros c Hc. unfold h3. rewrite load_store_other by (unfold pc; lia).
    change (load h2 c) with (load h0 c). unfold h0. apply load_alloc_other. lia. }
  assert (Hwf3 : wf_holder (hp (set_hp s h3)) pc).
  { rewrite set_hp_hp. exists b0, 0, 0. split; [exact Hl3|].
    split; [cbn; lia|]. split; [rewrite Hn3; unfold pc; lia|]. split; [rewrite Hn3, Hb0; lia|].
    change (arr_cells h3 b0 0 0) with (@nil addr).
    split; [constructor|]. split; [intros []|constructor]. }
  assert (Habs3 : abs (hp (set_hp s h3)) pc = Some []).
  { rewrite set_hp_hp. unfold abs. rewrite Hl3. reflexivity. }
  assert (Hlt3 : (left < next (hp (set_hp s h3)))%positive) by (rewrite set_hp_hp, Hn3; lia).
  destruct (set_member_refines (set_hp s h3) pc f left [] Hwf3 Habs3 Hpcne Hlt3)
    as (r & h' & Hsm & Habs' & Hr & Hwf' & Hitem & _ & _ & _ & Hfp).
  rewrite set_hp_hp in *. rewrite set_hp_twice in Hsm. fold i in Habs', Hr.
  rewrite (Hold3 left Hlt) in Habs', Hr, Hitem. fold h in Hl. rewrite Hl in Habs', Hr, Hitem.
  fold v0 in Habs', Hr, Hitem.
  unfold ideal_set, resolve_index in Habs', Hr. cbn [length] in Habs', Hr.
  replace (i <? 0)%Z with false in Habs', Hr by lia.
  replace (i <? 0)%Z with false in Habs', Hr by lia.
  replace (i <? Z.of_nat 0)%Z with false in Habs', Hr by lia.
  replace (fill_limit <? i)%Z with false in Habs', Hr by lia.
  cbn [fst snd app] in Habs', Hr. rewrite Nat.sub_0_r in Habs'.
  destruct r as [item|]; [|discriminate].
  destruct (Hitem item eq_refl) as (Hin & Hlditem).
  destruct Hfp as (Hfc & Hfb & Hfo & Hfn & Hfcells & _).
  rewrite Hcells3 in Hfc, Hfcells.
  assert (Hfresh : forall c, In c (cells_of h' pc) -> (next h3 <= c)%positive).
  { intros c Hc. destruct (Hfcells c Hc) as [[]|H]; exact H. }
  pose proof (Hfresh item Hin) as Hitemlt. rewrite Hn3 in Hitemlt.
  set (k := Z.to_nat i) in *.
  assert (Hk : nth_error (cells_of h' pc) k = Some item).
  { apply (last_cell_position (load h') k (cells_of h' pc) v0 item).
    - symmetry. apply abs_cells_of. exact Habs'.
    - discriminate.
    - exact Hin.
    - exact Hlditem. }
  destruct (holder_store_item h' pc item v k Hwf' Hk) as (Hwf'' & Hcells'' & Habs'').
  rewrite <- (abs_cells_of _ _ _ Habs') in Habs''.
  pose proof (list_set_app_last (repeat nil_value k) v0 v) as Hls. rewrite repeat_length in Hls.
  rewrite Hls in Habs''.
  set (h'' := store h' item v) in *.
  assert (Hobj : forall o, get_obj h'' o = get_obj h1 o).
  { intros o. change (get_obj h'' o) with (get_obj h' o). unfold get_obj. rewrite Hfo. reflexivity. }
  assert (Hold : forall c, (c < next h)%positive -> load h'' c = load h c).
  { intros c Hc. unfold h''. rewrite load_store_other by lia.
    rewrite Hfc; [apply Hold3; exact Hc|rewrite Hn3; lia|unfold pc; lia|intros []]. }
  exists pc, item, h''.
  split; [|split; [|split; [|split; [|split; [|split; [|split; [|split; [|split; [|split; [|split; [|split]]]]]]]]]]].
  - rewrite (eval_assignment_created src (S (S n)) tok left right s item (set_hp s h') v).
    + reflexivity.
    + left. eexists. exact Hl.
    + rewrite Hcs. exact Hsm.
    + rewrite set_hp_hp. rewrite Hfc; [rewrite Hold3 by exact Hrt; exact Hcopy|rewrite Hn3; lia|unfold pc; lia|intros []].
  - unfold pc. lia.
  - lia.
  - rewrite Hobj. unfold h1. rewrite get_obj_set_same. apply assoc_get_set_same.
  - exact Habs''.
  - exact Hwf''.
  - rewrite Hcells''. exact Hk.
  - apply load_store_same.
  - rewrite Hcells''. apply Forall_forall. intros c Hc. apply Hfresh in Hc. rewrite Hn3 in Hc. lia.
  - intros k' Hk'. rewrite Hobj. unfold h1. rewrite get_obj_set_same.
    rewrite assoc_get_set_other by exact Hk'. reflexivity.
  - intros o Hoo. rewrite Hobj. unfold h1. rewrite get_obj_set_other by exact Hoo. reflexivity.
  - exact Hold.
  - intros b Hb. change (get_back h'' b) with (get_back h' b).
    rewrite Hfb; [|rewrite Hn3; lia|unfold bid_of; rewrite Hl3, Hb0; lia].
    change (get_back h3 b) with (get_back h2 b). unfold h2.
    rewrite get_back_new_other by (fold b0; rewrite Hb0; lia). reflexivity.
Qed.

(* ================================================================ examples *)

(* a small heap: the object o (id 2, empty) in cell 3; cell 4 is the speculative nil for the
   missing member o.a; cell 5 the speculative nil for the member [key] below it; cell 6 = 1 *)
Definition ex_nested (key : skey) : heap * addr * addr * addr * addr :=
  let '(o, h1) := new_empty_object empty_heap in
  let '(ocell, h2) := alloc h1 o in
  let '(pcell, h3) := alloc h2 (VNil (Some (ocell, KStr (bs "a")))) in
  let '(lc, h4) := alloc h3 (VNil (Some (pcell, key))) in
  let '(rc, h5) := alloc h4 (VNum f_one) in
  (h5, ocell, pcell, lc, rc).

(* o.a.k = 1: the hypotheses hold, and the run gives o = {a: {k: 1}} *)
Example assign_creates_intermediate_object_ex :
  let '(h, ocell, pcell, lc, rc) := ex_nested (KStr (bs "k")) in
  let s := mkSt h [] None None None [] in
  (load (hp s) lc = VNil (Some (pcell, KStr (bs "k"))) /\
   load (hp s) pcell = VNil (Some (ocell, KStr (bs "a"))) /\
   load (hp s) ocell = VObj 2%positive /\
   (lc < next (hp s))%positive /\ (rc < next (hp s))%positive /\
   (ocell < next (hp s))%positive /\ (2 < next (hp s))%positive /\
   copy_value (load (hp s) rc) = Some (VNum f_one)) /\
  (let r := eval_assignment [] 2 (Token.mkTok Token.TDollar 0 0) lc rc s in
   fst r = Ok lc /\
   get_obj (hp (snd r)) 2%positive = [(bs "a", 7%positive)] /\
   load (hp (snd r)) 7%positive = VObj 8%positive /\
   get_obj (hp (snd r)) 8%positive = [(bs "k", lc)] /\
   load (hp (snd r)) lc = VNum f_one).
Proof. vm_compute. repeat split; reflexivity. Qed.

(* o.a[2] = 1: the hypotheses hold, and the run gives o = {a: [null, null, 1]} *)
Example assign_creates_intermediate_array_ex :
  let '(h, ocell, pcell, lc, rc) := ex_nested (KNum (f_of_Z 2)) in
  let s := mkSt h [] None None None [] in
  (load (hp s) lc = VNil (Some (pcell, KNum (f_of_Z 2))) /\
   load (hp s) pcell = VNil (Some (ocell, KStr (bs "a"))) /\
   load (hp s) ocell = VObj 2%positive /\
   (lc < next (hp s))%positive /\ (rc < next (hp s))%positive /\
   (ocell < next (hp s))%positive /\
   copy_value (load (hp s) rc) = Some (VNum f_one) /\
   f_trunc_int64 (f_of_Z 2) = 2%Z) /\
  (let r := eval_assignment [] 2 (Token.mkTok Token.TDollar 0 0) lc rc s in
   get_obj (hp (snd r)) 2%positive = [(bs "a", 7%positive)] /\
   abs (hp (snd r)) 7%positive = Some [VNil None; VNil None; VNum f_one] /\
   (exists item, fst r = Ok item /\ nth_error (cells_of (hp (snd r)) 7%positive) 2 = Some item) /\
   load (hp (snd r)) lc = VNil (Some (pcell, KNum (f_of_Z 2)))).
Proof. vm_compute. repeat split; try reflexivity. eexists. split; reflexivity. Qed.
