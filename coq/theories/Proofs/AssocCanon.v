(* C10: objects are canonical. [bytes_cmp] is a strict total order; [assoc_set] keeps an
   association list strictly ascending; a strictly ascending list is determined by its
   key -> value map, hence the list an object holds does not depend on the order in which
   its members were inserted. *)
From Coq Require Import Lia Sorted.
From JQ Require Import Base.Bytes Json.JValue.

(* ------------------------------------------------------------------ bytes_cmp *)

Lemma bytes_cmp_refl a : bytes_cmp a a = Eq.
Proof. induction a as [|x a IH]; simpl; [reflexivity|]. now rewrite N.compare_refl. Qed.

Lemma bytes_cmp_eq a b : bytes_cmp a b = Eq <-> a = b.
Proof.
  split; [|intros ->; apply bytes_cmp_refl].
  revert b. induction a as [|x a IH]; destruct b as [|y b]; simpl; intro H;
    try reflexivity; try discriminate.
  destruct (N.compare x y) eqn:Hc; try discriminate.
  apply N.compare_eq in Hc. subst. f_equal. now apply IH.
Qed.

Lemma bytes_cmp_antisym a b : bytes_cmp b a = CompOpp (bytes_cmp a b).
Proof.
  revert b. induction a as [|x a IH]; destruct b as [|y b]; simpl; try reflexivity.
  rewrite (N.compare_antisym x y). destruct (N.compare x y); simpl; auto.
Qed.

Lemma bytes_cmp_lt_gt a b : bytes_cmp a b = Lt <-> bytes_cmp b a = Gt.
Proof.
  rewrite (bytes_cmp_antisym a b). destruct (bytes_cmp a b); simpl; split; intro H;
    try reflexivity; discriminate.
Qed.

Lemma bytes_cmp_lt_trans a b c :
  bytes_cmp a b = Lt -> bytes_cmp b c = Lt -> bytes_cmp a c = Lt.
Proof.
  revert b c. induction a as [|x a IH]; intros [|y b] [|z c]; simpl; intros H1 H2;
    try reflexivity; try discriminate.
  destruct (N.compare x y) eqn:Hxy; try discriminate;
    destruct (N.compare y z) eqn:Hyz; try discriminate.
  - apply N.compare_eq in Hxy, Hyz. subst. rewrite N.compare_refl. eauto.
  - apply N.compare_eq in Hxy. subst. now rewrite Hyz.
  - apply N.compare_eq in Hyz. subst. now rewrite Hxy.
  - rewrite N.compare_lt_iff in Hxy, Hyz.
    assert (Hxz : (x < z)%N) by lia. apply N.compare_lt_iff in Hxz. now rewrite Hxz.
Qed.

Lemma bytes_cmp_lt_irrefl a : bytes_cmp a a <> Lt.
Proof. rewrite bytes_cmp_refl. discriminate. Qed.

(* exactly one of a < b, a = b, b < a *)
Lemma bytes_cmp_total a b :
  bytes_cmp a b = Lt \/ a = b \/ bytes_cmp b a = Lt.
Proof.
  destruct (bytes_cmp a b) eqn:H.
  - right. left. now apply bytes_cmp_eq.
  - now left.
  - right. right. now apply bytes_cmp_lt_gt.
Qed.

Lemma bytes_eqb_cmp a b : bytes_eqb a b = true <-> bytes_cmp a b = Eq.
Proof. rewrite bytes_eqb_eq. symmetry. apply bytes_cmp_eq. Qed.

Lemma bytes_eqb_false_cmp a b : bytes_eqb a b = false <-> bytes_cmp a b <> Eq.
Proof.
  rewrite <- bytes_eqb_cmp. destruct (bytes_eqb a b); split; intro H; try reflexivity;
    try discriminate; congruence.
Qed.

Lemma bytes_eqb_sym a b : bytes_eqb a b = bytes_eqb b a.
Proof.
  destruct (bytes_eqb a b) eqn:H1, (bytes_eqb b a) eqn:H2; try reflexivity.
  - apply bytes_eqb_eq in H1. subst. now rewrite bytes_eqb_refl in H2.
  - apply bytes_eqb_eq in H2. subst. now rewrite bytes_eqb_refl in H1.
Qed.

(* ------------------------------------------------------------------ sorted association lists *)

Section Assoc.
  Context {A : Type}.
  Implicit Types (l : list (bytes * A)) (k : bytes) (v : A).

  Definition key_lt (a b : bytes * A) : Prop := bytes_cmp (fst a) (fst b) = Lt.
  (* keys strictly ascending w.r.t. bytes_cmp (hence unique) *)
  Definition keys_sorted l : Prop := StronglySorted key_lt l.

  Definition below k l : Prop := Forall (fun kv => bytes_cmp k (fst kv) = Lt) l.

  Lemma keys_sorted_cons k v l : keys_sorted ((k, v) :: l) <-> keys_sorted l /\ below k l.
  Proof.
    split.
    - intro H. inversion H; subst. split; assumption.
    - intros [H1 H2]. constructor; assumption.
  Qed.

  Lemma below_trans k k' l : bytes_cmp k k' = Lt -> below k' l -> below k l.
  Proof.
    intros Hk H. unfold below in *. rewrite Forall_forall in *. intros kv Hin.
    eapply bytes_cmp_lt_trans; eauto.
  Qed.

  Lemma below_get_none k l : below k l -> assoc_get k l = None.
  Proof.
    induction l as [|[k' v'] l IH]; intro H; [reflexivity|].
    inversion H as [|x y Hx Hl]; subst. simpl in *.
    destruct (bytes_eqb k k') eqn:He.
    - apply bytes_eqb_eq in He. subst. now apply bytes_cmp_lt_irrefl in Hx.
    - auto.
  Qed.

  Lemma below_assoc_set k0 k v l :
    bytes_cmp k0 k = Lt -> below k0 l -> below k0 (assoc_set k v l).
  Proof.
    intros Hk. induction l as [|[k' v'] l IH]; intro H; simpl.
    - repeat constructor. exact Hk.
    - inversion H as [|x y Hx Hl]; subst.
      destruct (bytes_cmp k k').
      + constructor; [exact Hk|exact Hl].
      + constructor; [exact Hk|exact H].
      + constructor; [exact Hx|exact (IH Hl)].
  Qed.

  (* Go: m[k] = v keeps the representation canonical *)
  Lemma assoc_set_sorted k v l : keys_sorted l -> keys_sorted (assoc_set k v l).
  Proof.
    induction l as [|[k' v'] l IH]; intro H; simpl.
    - repeat constructor.
    - apply keys_sorted_cons in H. destruct H as [Hs Hb].
      destruct (bytes_cmp k k') eqn:Hc.
      + apply bytes_cmp_eq in Hc. subst. apply keys_sorted_cons. auto.
      + apply keys_sorted_cons. split.
        * apply keys_sorted_cons. auto.
        * constructor; [exact Hc|]. eapply below_trans; eauto.
      + apply keys_sorted_cons. split; [auto|].
        apply below_assoc_set; [|exact Hb]. now apply bytes_cmp_lt_gt.
  Qed.

  (* reading after writing; no sortedness needed *)
  Lemma assoc_set_get k v l k' :
    assoc_get k' (assoc_set k v l) = if bytes_eqb k' k then Some v else assoc_get k' l.
  Proof.
    induction l as [|[k0 v0] l IH]; simpl.
    - reflexivity.
    - destruct (bytes_cmp k k0) eqn:Hc; simpl.
      + apply bytes_cmp_eq in Hc. subst. destruct (bytes_eqb k' k0); reflexivity.
      + reflexivity.
      + rewrite IH. destruct (bytes_eqb k' k0) eqn:H0; [|reflexivity].
        destruct (bytes_eqb k' k) eqn:H1; [|reflexivity].
        apply bytes_eqb_eq in H0, H1. subst. rewrite bytes_cmp_refl in Hc. discriminate.
  Qed.

  Lemma assoc_set_get_same k v l : assoc_get k (assoc_set k v l) = Some v.
  Proof. rewrite assoc_set_get. now rewrite bytes_eqb_refl. Qed.

  Lemma assoc_set_get_other k v l k' :
    k' <> k -> assoc_get k' (assoc_set k v l) = assoc_get k' l.
  Proof.
    intro Hn. rewrite assoc_set_get. destruct (bytes_eqb k' k) eqn:H; [|reflexivity].
    apply bytes_eqb_eq in H. contradiction.
  Qed.

  (* a canonical list is determined by the map it represents *)
  Lemma keys_sorted_ext l1 l2 :
    keys_sorted l1 -> keys_sorted l2 ->
    (forall k, assoc_get k l1 = assoc_get k l2) -> l1 = l2.
  Proof.
    revert l2. induction l1 as [|[k1 v1] l1 IH]; intros [|[k2 v2] l2] H1 H2 Hext.
    - reflexivity.
    - specialize (Hext k2). simpl in Hext. rewrite bytes_eqb_refl in Hext. discriminate.
    - specialize (Hext k1). simpl in Hext. rewrite bytes_eqb_refl in Hext. discriminate.
    - apply keys_sorted_cons in H1, H2. destruct H1 as [Hs1 Hb1], H2 as [Hs2 Hb2].
      destruct (bytes_cmp_total k1 k2) as [Hlt|[Heq|Hgt]].
      + exfalso. specialize (Hext k1). simpl in Hext. rewrite bytes_eqb_refl in Hext.
        assert (Hne : bytes_eqb k1 k2 = false).
        { apply bytes_eqb_false_cmp. rewrite Hlt. discriminate. }
        rewrite Hne in Hext.
        rewrite (below_get_none k1 l2) in Hext; [discriminate|].
        eapply below_trans; eauto.
      + subst k2.
        assert (Hv : v1 = v2).
        { specialize (Hext k1). simpl in Hext. rewrite bytes_eqb_refl in Hext. congruence. }
        subst v2. f_equal. apply IH; auto.
        intro k. specialize (Hext k). simpl in Hext.
        destruct (bytes_eqb k k1) eqn:He; [|exact Hext].
        apply bytes_eqb_eq in He. subst k.
        now rewrite (below_get_none k1 l1 Hb1), (below_get_none k1 l2 Hb2).
      + exfalso. specialize (Hext k2). simpl in Hext. rewrite bytes_eqb_refl in Hext.
        assert (Hne : bytes_eqb k2 k1 = false).
        { apply bytes_eqb_false_cmp. rewrite Hgt. discriminate. }
        rewrite Hne in Hext.
        rewrite (below_get_none k2 l1) in Hext; [discriminate|].
        eapply below_trans; eauto.
  Qed.

  (* the order of two insertions under distinct keys does not matter *)
  Lemma assoc_set_commute k1 v1 k2 v2 l :
    keys_sorted l -> k1 <> k2 ->
    assoc_set k1 v1 (assoc_set k2 v2 l) = assoc_set k2 v2 (assoc_set k1 v1 l).
  Proof.
    intros Hs Hne. apply keys_sorted_ext.
    - now repeat apply assoc_set_sorted.
    - now repeat apply assoc_set_sorted.
    - intro k. rewrite !assoc_set_get.
      destruct (bytes_eqb k k1) eqn:H1, (bytes_eqb k k2) eqn:H2; try reflexivity.
      apply bytes_eqb_eq in H1, H2. congruence.
  Qed.

  (* overwriting: only the last insertion under a key counts *)
  Lemma assoc_set_overwrite k v1 v2 l :
    keys_sorted l -> assoc_set k v2 (assoc_set k v1 l) = assoc_set k v2 l.
  Proof.
    intros Hs. apply keys_sorted_ext.
    - now repeat apply assoc_set_sorted.
    - now apply assoc_set_sorted.
    - intro k'. rewrite !assoc_set_get. destruct (bytes_eqb k' k); reflexivity.
  Qed.

  (* ---- insertion histories ---- *)

  Definition insert_all (hist : list (bytes * A)) l : list (bytes * A) :=
    fold_left (fun acc kv => assoc_set (fst kv) (snd kv) acc) hist l.

  (* the value a history leaves under a key: its last write *)
  Definition last_write k (hist : list (bytes * A)) : option A := assoc_get k (rev hist).

  Lemma insert_all_sorted hist l : keys_sorted l -> keys_sorted (insert_all hist l).
  Proof.
    revert l. induction hist as [|[k v] hist IH]; intros l H; simpl; [exact H|].
    apply IH. now apply assoc_set_sorted.
  Qed.

  Lemma assoc_get_app k (a b : list (bytes * A)) :
    assoc_get k (a ++ b) = match assoc_get k a with Some v => Some v | None => assoc_get k b end.
  Proof.
    induction a as [|[k' v'] a IH]; simpl; [reflexivity|].
    destruct (bytes_eqb k k'); auto.
  Qed.

  Lemma insert_all_get hist l k :
    assoc_get k (insert_all hist l)
    = match last_write k hist with Some v => Some v | None => assoc_get k l end.
  Proof.
    unfold last_write. revert l. induction hist as [|[k' v'] hist IH]; intro l; simpl.
    - reflexivity.
    - rewrite IH. rewrite assoc_get_app. simpl.
      destruct (assoc_get k (rev hist)); [reflexivity|].
      rewrite assoc_set_get. destruct (bytes_eqb k k'); reflexivity.
  Qed.

  (* two insertion histories with the same final key -> value map build the same list *)
  Lemma insert_all_canonical h1 h2 l :
    keys_sorted l ->
    (forall k, last_write k h1 = last_write k h2) ->
    insert_all h1 l = insert_all h2 l.
  Proof.
    intros Hs Hext. apply keys_sorted_ext; try now apply insert_all_sorted.
    intro k. rewrite !insert_all_get. now rewrite Hext.
  Qed.

  (* a canonical list is what inserting its own entries into the empty list gives *)
  Lemma insert_all_self l : keys_sorted l -> insert_all l [] = l.
  Proof.
    intro Hs. apply keys_sorted_ext; [apply insert_all_sorted; constructor|exact Hs|].
    intro k. rewrite insert_all_get. unfold last_write. simpl.
    (* in a sorted list keys are unique, so first and last occurrence coincide *)
    clear -Hs. induction l as [|[k' v'] l IH]; [reflexivity|].
    apply keys_sorted_cons in Hs. destruct Hs as [Hs Hb]. simpl.
    rewrite assoc_get_app. simpl. specialize (IH Hs).
    destruct (bytes_eqb k k') eqn:He.
    - apply bytes_eqb_eq in He. subst k'.
      rewrite (below_get_none k l Hb) in IH.
      destruct (assoc_get k (rev l)); [discriminate|reflexivity].
    - destruct (assoc_get k (rev l)); exact IH.
  Qed.
End Assoc.
