(* A checker for the AST equivalence of Spec/AstEquiv.v: [program_equivb] compares two parsed
   programs (over their two source texts) and is SOUND for [program_equiv].  Together with
   Proofs/PosIndep.v: whenever the checker answers true for the parses of two program texts,
   the two texts behave alike on every input, for every fuel. *)
From Coq Require Import List Bool ZArith Lia.
From JQ Require Import Base.Bytes Syntax.Token Syntax.Lexer Syntax.Ast Syntax.Parser.
From JQ Require Import Sem.Value Sem.Ops Sem.Eval Sem.Driver.
From JQ Require Import Spec.AstEquiv Proofs.PosIndep.
Import ListNotations.
Open Scope nat_scope.

Definition forall2b {A} (f : A -> A -> bool) : list A -> list A -> bool :=
  fix go (l1 l2 : list A) {struct l1} : bool :=
    match l1, l2 with
    | [], [] => true
    | x :: r, y :: s => f x y && go r s
    | _, _ => false
    end.

Lemma forall2b_Forall2 {A} (f : A -> A -> bool) (R : A -> A -> Prop) l1 :
  Forall (fun x => forall y, f x y = true -> R x y) l1 ->
  forall l2, forall2b f l1 l2 = true -> Forall2 R l1 l2.
Proof.
  induction 1 as [|x r Hx Hr IH]; intros [|y s] H; cbn in H; try discriminate; [constructor|].
  apply andb_true_iff in H. destruct H as [H1 H2]. constructor; auto.
Qed.

Section Dec.
  Variables src1 src2 : bytes.

  Definition tagb (t1 t2 : token) : bool := tag_eqb (ttag t1) (ttag t2).
  Definition opt_bytes_eqb (a b : option bytes) : bool :=
    match a, b with
    | Some x, Some y => bytes_eqb x y
    | None, None => true
    | _, _ => false
    end.
  Definition txtb (t1 t2 : token) : bool := opt_bytes_eqb (get_string src1 t1) (get_string src2 t2).

  Definition lit_equivb (t1 t2 : token) : bool :=
    tagb t1 t2 && (negb (lit_needs_text (ttag t1)) || txtb t1 t2).
  Definition id_equivb (t1 t2 : token) : bool :=
    tagb t1 t2 && (tag_eqb (ttag t1) TDollar || txtb t1 t2).
  Definition name_equivb (t1 t2 : token) : bool := tagb t1 t2 && txtb t1 t2.

  Definition is_name (tg : tag) : bool := match isk_of tg with IsName => true | _ => false end.

  Fixpoint pat_txtb (p1 p2 : expr) {struct p1} : bool :=
    match p1, p2 with
    | EId t1, EId t2 => txtb t1 t2
    | EArr _ l1, EArr _ l2 => forall2b (fun x y => pat_txtb x y) l1 l2
    | _, _ => true
    end.

  Definition is_rhs_equivb (r1 r2 : expr) : bool :=
    match r1, r2 with
    | EId t1, EId t2 => tagb t1 t2 && (negb (is_name (ttag t1)) || txtb t1 t2)
    | EId _, _ | _, EId _ => false
    | _, _ => true
    end.

  Definition opt_relb {A} (f : A -> A -> bool) (a b : option A) : bool :=
    match a, b with
    | None, None => true
    | Some x, Some y => f x y
    | _, _ => false
    end.

  Fixpoint expr_equivb (e1 e2 : expr) {struct e1} : bool :=
    match e1, e2 with
    | ELit t1, ELit t2 => lit_equivb t1 t2
    | EId t1, EId t2 => id_equivb t1 t2
    | EArr t1 l1, EArr t2 l2 => tagb t1 t2 && forall2b (fun x y => expr_equivb x y) l1 l2
    | EObj t1 l1, EObj t2 l2 =>
      tagb t1 t2 &&
      forall2b (fun kv1 kv2 => bytes_eqb (fst kv1) (fst kv2) && expr_equivb (snd kv1) (snd kv2)) l1 l2
    | EUn x1 op1 pf1, EUn x2 op2 pf2 => expr_equivb x1 x2 && tagb op1 op2 && Bool.eqb pf1 pf2
    | EBin l1 r1 op1, EBin l2 r2 op2 =>
      expr_equivb l1 l2 && tagb op1 op2 &&
      (if tag_eqb (ttag op1) TIs then is_rhs_equivb r1 r2 else expr_equivb r1 r2)
    | ECall f1 a1, ECall f2 a2 => expr_equivb f1 f2 && forall2b (fun x y => expr_equivb x y) a1 a2
    | EMatch t1 v1 c1, EMatch t2 v2 c2 =>
      tagb t1 t2 && expr_equivb v1 v2 &&
      forall2b (fun k1 k2 => forall2b (fun x y => expr_equivb x y) (fst k1) (fst k2) && forall2b (fun x y => pat_txtb x y) (fst k1) (fst k2) &&
                             stmt_equivb (snd k1) (snd k2)) c1 c2
    | _, _ => false
    end
  with stmt_equivb (s1 s2 : stmt) {struct s1} : bool :=
    match s1, s2 with
    | SBlock t1 b1, SBlock t2 b2 => tagb t1 t2 && forall2b (fun x y => stmt_equivb x y) b1 b2
    | SPrint t1 a1, SPrint t2 a2 => tagb t1 t2 && forall2b (fun x y => expr_equivb x y) a1 a2
    | SExpr e1, SExpr e2 => expr_equivb e1 e2
    | SReturn (Some e1), SReturn (Some e2) => expr_equivb e1 e2
    | SReturn None, SReturn None => true
    | SBreak t1, SBreak t2 | SContinue t1, SContinue t2 | SNext t1, SNext t2 | SExit t1, SExit t2 => tagb t1 t2
    | SIf c1 b1 (Some e1), SIf c2 b2 (Some e2) => expr_equivb c1 c2 && stmt_equivb b1 b2 && stmt_equivb e1 e2
    | SIf c1 b1 None, SIf c2 b2 None => expr_equivb c1 c2 && stmt_equivb b1 b2
    | SWhile c1 b1, SWhile c2 b2 => expr_equivb c1 c2 && stmt_equivb b1 b2
    | SFor a1 c1 p1 b1, SFor a2 c2 p2 b2 =>
      expr_equivb a1 a2 && expr_equivb c1 c2 && expr_equivb p1 p2 && stmt_equivb b1 b2
    | SForIn id1 ix1 it1 b1, SForIn id2 ix2 it2 b2 =>
      name_equivb id1 id2 && opt_relb name_equivb ix1 ix2 && expr_equivb it1 it2 && stmt_equivb b1 b2
    | _, _ => false
    end.

  Definition func_equivb (f1 f2 : func) : bool :=
    name_equivb (fident f1) (fident f2) && forall2b bytes_eqb (fparams f1) (fparams f2) &&
    stmt_equivb (fbody f1) (fbody f2).

  Definition rule_kind_eqb (a b : rule_kind) : bool :=
    match a, b with
    | BeginRule, BeginRule | EndRule, EndRule | BeginFileRule, BeginFileRule
    | EndFileRule, EndFileRule | PatternRule, PatternRule => true
    | _, _ => false
    end.

  Definition rule_equivb (r1 r2 : rule) : bool :=
    rule_kind_eqb (rkind r1) (rkind r2) && opt_relb expr_equivb (rpattern r1) (rpattern r2) &&
    stmt_equivb (rbody r1) (rbody r2).

  Definition program_equivb (p1 p2 : program) : bool :=
    forall2b rule_equivb (prules p1) (prules p2) && forall2b func_equivb (pfuncs p1) (pfuncs p2).

  (* ---------------- soundness *)

  Lemma tagb_ok t1 t2 : tagb t1 t2 = true -> tag_eq t1 t2.
  Proof. unfold tagb, tag_eq. apply tag_eqb_eq. Qed.

  Lemma txtb_ok t1 t2 : txtb t1 t2 = true -> txt_eq src1 src2 t1 t2.
  Proof.
    unfold txtb, txt_eq, opt_bytes_eqb.
    destruct (get_string src1 t1), (get_string src2 t2); intros H; try discriminate; [|reflexivity].
    apply bytes_eqb_eq in H. congruence.
  Qed.

  Lemma lit_equivb_ok t1 t2 : lit_equivb t1 t2 = true -> lit_equiv src1 src2 t1 t2.
  Proof.
    unfold lit_equivb. intros H. apply andb_true_iff in H. destruct H as [H1 H2].
    split; [apply tagb_ok; exact H1|]. intros Hn. rewrite Hn in H2. cbn in H2. apply txtb_ok. exact H2.
  Qed.

  Lemma id_equivb_ok t1 t2 : id_equivb t1 t2 = true -> id_equiv src1 src2 t1 t2.
  Proof.
    unfold id_equivb. intros H. apply andb_true_iff in H. destruct H as [H1 H2].
    split; [apply tagb_ok; exact H1|]. intros Hn. apply orb_true_iff in H2. destruct H2 as [H2|H2].
    - apply tag_eqb_eq in H2. contradiction.
    - apply txtb_ok. exact H2.
  Qed.

  Lemma name_equivb_ok t1 t2 : name_equivb t1 t2 = true -> name_equiv src1 src2 t1 t2.
  Proof.
    unfold name_equivb. intros H. apply andb_true_iff in H. destruct H as [H1 H2].
    split; [apply tagb_ok; exact H1|apply txtb_ok; exact H2].
  Qed.

  Lemma forall2b_pats l1 :
    Forall (fun x => forall y, pat_txtb x y = true -> pat_txt src1 src2 x y) l1 ->
    forall l2, forall2b pat_txtb l1 l2 = true -> pats_txt src1 src2 l1 l2.
  Proof.
    induction 1 as [|x r Hx Hr IH]; intros [|y s] H; cbn in *; try discriminate; auto.
    apply andb_true_iff in H. destruct H as [H1 H2]. split; auto.
  Qed.

  Lemma pat_txtb_ok : forall p1 p2, pat_txtb p1 p2 = true -> pat_txt src1 src2 p1 p2.
  Proof.
    assert (H : (forall p1, forall p2, pat_txtb p1 p2 = true -> pat_txt src1 src2 p1 p2) /\
                (forall s : stmt, True)).
    { apply expr_stmt_ind; try (intros; exact I);
        try (intros; match goal with |- pat_txt _ _ _ ?p2 => destruct p2 end; exact I).
      - intros t [ ] H; cbn in *; try exact I. apply txtb_ok. exact H.
      - intros t items IH [ ] H; cbn [pat_txtb] in H; try exact I.
        rewrite pat_txt_arr. apply forall2b_pats; assumption. }
    exact (proj1 H).
  Qed.

  Lemma pats_txtb_ok l1 l2 : forall2b pat_txtb l1 l2 = true -> pats_txt src1 src2 l1 l2.
  Proof.
    apply forall2b_pats. apply Forall_forall. intros x _ y. apply pat_txtb_ok.
  Qed.

  Lemma is_rhs_equivb_ok r1 r2 : is_rhs_equivb r1 r2 = true -> is_rhs_equiv src1 src2 r1 r2.
  Proof.
    destruct r1, r2; cbn; intros H; try discriminate; try exact I.
    apply andb_true_iff in H. destruct H as [H1 H2]. split; [apply tagb_ok; exact H1|].
    intros Hk. unfold is_name in H2. rewrite Hk in H2. cbn in H2. apply txtb_ok. exact H2.
  Qed.

  Ltac split_andb :=
    repeat match goal with
           | H : _ && _ = true |- _ => apply andb_true_iff in H; destruct H
           end.

  Lemma equivb_ok :
    (forall e1 e2, expr_equivb e1 e2 = true -> expr_equiv src1 src2 e1 e2) /\
    (forall s1 s2, stmt_equivb s1 s2 = true -> stmt_equiv src1 src2 s1 s2).
  Proof.
    apply expr_stmt_ind.
    - intros t [ ] H; try discriminate H. constructor. apply lit_equivb_ok. exact H.
    - intros t [ ] H; try discriminate H. constructor. apply id_equivb_ok. exact H.
    - intros t items IH [ ] H; try discriminate H. cbn [expr_equivb] in H. split_andb.
      constructor; [apply tagb_ok; assumption|]. eapply forall2b_Forall2; eassumption.
    - intros t items IH [ ] H; try discriminate H. cbn [expr_equivb] in H. split_andb.
      constructor; [apply tagb_ok; assumption|].
      eapply forall2b_Forall2; [|eassumption].
      eapply Forall_impl; [|exact IH]. cbv beta. intros [k1 x1] Hx [k2 x2] Hb. cbn in *. split_andb.
      split; [apply bytes_eqb_eq; assumption|auto].
    - intros x op pf IH [ ] H; try discriminate H. cbn [expr_equivb] in H. split_andb.
      match goal with Hb : Bool.eqb _ _ = true |- _ => apply eqb_prop in Hb; subst end.
      constructor; [auto|apply tagb_ok; assumption].
    - intros l r op IHl IHr [ ] H; try discriminate H. cbn [expr_equivb] in H. split_andb.
      constructor; [auto|apply tagb_ok; assumption| |].
      + intros Hn. destruct (tag_eqb (ttag op) TIs) eqn:E; [apply tag_eqb_eq in E; contradiction|auto].
      + intros Hn. rewrite Hn in *. cbn in *. apply is_rhs_equivb_ok. assumption.
    - intros f args IHf IHa [ ] H; try discriminate H. cbn [expr_equivb] in H. split_andb.
      constructor; [auto|]. eapply forall2b_Forall2; eassumption.
    - intros t v cases IHv IHc [ ] H; try discriminate H. cbn [expr_equivb] in H. split_andb.
      constructor; [apply tagb_ok; assumption|auto|].
      eapply forall2b_Forall2; [|eassumption].
      eapply Forall_impl; [|exact IHc]. cbv beta. intros [ps1 b1] [Hps Hb] [ps2 b2] Hk. cbn in *. split_andb.
      split; [|split].
      + cbn. eapply forall2b_Forall2; eassumption.
      + cbn. apply pats_txtb_ok. assumption.
      + cbn. auto.
    - intros t body IH [ ] H; try discriminate H. cbn [stmt_equivb] in H. split_andb.
      constructor; [apply tagb_ok; assumption|]. eapply forall2b_Forall2; eassumption.
    - intros t args IH [ ] H; try discriminate H. cbn [stmt_equivb] in H. split_andb.
      constructor; [apply tagb_ok; assumption|]. eapply forall2b_Forall2; eassumption.
    - intros e IH [ ] H; try discriminate H. constructor. auto.
    - intros e IH [ | |? |[?|]| | | | | | | | ] H; try discriminate H. constructor. auto.
    - intros [ | |? |[?|]| | | | | | | | ] H; try discriminate H. constructor.
    - intros t [ ] H; try discriminate H. constructor. apply tagb_ok. exact H.
    - intros t [ ] H; try discriminate H. constructor. apply tagb_ok. exact H.
    - intros t [ ] H; try discriminate H. constructor. apply tagb_ok. exact H.
    - intros t [ ] H; try discriminate H. constructor. apply tagb_ok. exact H.
    - intros c b e IHc IHb IHe [ | | | | | | | |? ? [?|]| | | ] H; try discriminate H.
      cbn [stmt_equivb] in H. split_andb. constructor; auto.
    - intros c b IHc IHb [ | | | | | | | |? ? [?|]| | | ] H; try discriminate H.
      cbn [stmt_equivb] in H. split_andb. constructor; auto.
    - intros c b IHc IHb [ ] H; try discriminate H. cbn [stmt_equivb] in H. split_andb. constructor; auto.
    - intros a c p b IHa IHc IHp IHb [ ] H; try discriminate H. cbn [stmt_equivb] in H. split_andb.
      constructor; auto.
    - intros id ix it b IHit IHb [ ] H; try discriminate H. cbn [stmt_equivb] in H. split_andb.
      constructor; auto.
      + apply name_equivb_ok. assumption.
      + match goal with Ho : opt_relb _ ?a ?b = true |- _ => destruct a, b; cbn in Ho; try discriminate Ho end;
          constructor. apply name_equivb_ok. assumption.
  Qed.

  Lemma forall2b_bytes l1 : forall l2, forall2b bytes_eqb l1 l2 = true -> l1 = l2.
  Proof.
    induction l1 as [|x r IH]; intros [|y s] H; cbn in H; try discriminate; [reflexivity|].
    apply andb_true_iff in H. destruct H as [H1 H2]. apply bytes_eqb_eq in H1. f_equal; auto.
  Qed.

  Lemma func_equivb_ok f1 f2 : func_equivb f1 f2 = true -> func_equiv src1 src2 f1 f2.
  Proof.
    unfold func_equivb. intros H. split_andb.
    split; [apply name_equivb_ok; assumption|]. split; [apply forall2b_bytes; assumption|].
    apply (proj2 equivb_ok). assumption.
  Qed.

  Lemma rule_equivb_ok r1 r2 : rule_equivb r1 r2 = true -> rule_equiv src1 src2 r1 r2.
  Proof.
    unfold rule_equivb. intros H. split_andb. split; [|split].
    - destruct (rkind r1), (rkind r2); try discriminate; reflexivity.
    - match goal with Ho : opt_relb _ ?a ?b = true |- _ => destruct a, b; cbn in Ho; try discriminate Ho end;
        constructor. apply (proj1 equivb_ok). assumption.
    - apply (proj2 equivb_ok). assumption.
  Qed.

  Theorem program_equivb_sound p1 p2 : program_equivb p1 p2 = true -> program_equiv src1 src2 p1 p2.
  Proof.
    unfold program_equivb. intros H. split_andb. split.
    - eapply forall2b_Forall2; [|eassumption]. apply Forall_forall. intros x _ y. apply rule_equivb_ok.
    - eapply forall2b_Forall2; [|eassumption]. apply Forall_forall. intros x _ y. apply func_equivb_ok.
  Qed.

  Theorem expr_equivb_sound e1 e2 : expr_equivb e1 e2 = true -> expr_equiv src1 src2 e1 e2.
  Proof. apply (proj1 equivb_ok). Qed.
End Dec.

(* the check on two program texts *)
Definition same_program_upto_layout (src1 src2 : bytes) : bool :=
  match parse_program src1, parse_program src2 with
  | POk p1 _, POk p2 _ => program_equivb src1 src2 p1 p2
  | _, _ => false
  end.

Theorem checked_programs_run_alike src1 src2 : same_program_upto_layout src1 src2 = true ->
  forall n files sels fz,
    run_result_equiv (eval_program n src1 files sels fz) (eval_program n src2 files sels fz).
Proof.
  unfold same_program_upto_layout. intros H n files sels fz.
  destruct (parse_program src1) as [p1 q1| | |] eqn:H1; try discriminate.
  destruct (parse_program src2) as [p2 q2| | |] eqn:H2; try discriminate.
  eapply eval_program_pos_independent; try eassumption. apply program_equivb_sound. exact H.
Qed.
