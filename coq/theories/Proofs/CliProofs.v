(* C14: laws of the command line (Cli.cli_run). *)
From Coq Require Import Lia.
From JQ Require Import Base.Bytes Syntax.Token Syntax.Lexer.
From JQ Require Import Json.JValue Json.Decode.
From JQ Require Import Sem.Value Sem.Driver Cli.Cli.
Open Scope nat_scope.

(* ------------------------------------------------------------------ cli_run in three stages *)

(* program text and input paths from the flags and the positional arguments *)
Definition prog_and_paths (fl : flags) (args : list bytes) (w : world)
  : option (bytes * list bytes) :=
  match fl_f fl with
  | Some path =>
    match path with
    | [] => match args with [] => Some ([], []) | p :: rest => Some (p, rest) end
    | _ => match read_file w path with Some text => Some (text, args) | None => None end
    end
  | None => match args with [] => Some ([], []) | p :: rest => Some (p, rest) end
  end.

Definition reads_stdin (w : world) (paths : list bytes) : bool :=
  match paths with [] => negb (w_stdin_tty w) | _ => false end.

(* the names the run knows its inputs by, and the opened inputs *)
Definition input_names (w : world) (paths : list bytes) : list bytes :=
  if reads_stdin w paths then [bs "<stdin>"] else paths.
Definition inputs_of (w : world) (paths : list bytes) : option (list (bytes * reader)) :=
  if reads_stdin w paths then Some [(bs "<stdin>", reader_of (w_stdin w))]
  else open_inputs w paths.

(* after the run: error report, or the -o handling *)
Definition finish (w : world) (o : option bytes) (names : list bytes) (res : run_result) : cli_out :=
  let out := output_of (io (r_state res)) in
  match r_outcome res with
  | OOk =>
    match o with
    | None | Some [] => CliDone (mkCli 0 out false None)
    | Some target =>
      match names with
      | _ :: _ :: _ => fail_result out
      | _ =>
        match get_root_json (r_state res) with
        | JsonFuel => CliFuel
        | JsonError => fail_result out
        | JsonText j =>
          if bytes_eqb target (bs "-") then CliDone (mkCli 0 (out ++ j) false None)
          else if w_writable w target then CliDone (mkCli 0 out false (Some (target, j)))
          else fail_result out
        end
      end
    end
  | OSyntax _ | ORuntime _ | OJson | ORaw => fail_result out
  | OPanic => CliPanic
  | OFuel => CliFuel
  | OUnsupp => CliUnsupported
  end.

Definition cli_after (n : nat) (fl : flags) (args : list bytes) (w : world) : cli_out :=
  match prog_and_paths fl args w with
  | None => fail_result []
  | Some (prog, paths) =>
    match inputs_of w paths with
    | None => fail_result []
    | Some files =>
      finish w (fl_o fl) (input_names w paths) (eval_program n prog files (fl_r fl) false)
    end
  end.

Definition flags0 : flags := mkFlags None [] None.

Lemma cli_run_stages n argv w :
  cli_run n argv w
  = match parse_flags (S (length argv)) argv flags0 with
    | FlagsUnsupported => CliUnsupported
    | FlagsBad => CliDone (mkCli 2 [] true None)
    | FlagsOk fl args => cli_after n fl args w
    end.
Proof.
  unfold cli_run, cli_after, flags0.
  destruct (parse_flags (S (length argv)) argv (mkFlags None [] None)) as [fl args| | ];
    reflexivity.
Qed.

(* ------------------------------------------------------------------ -f FILE = inline text *)

Lemma f_equals_inline_after n w rs o args P text :
  P <> [] -> read_file w P = Some text ->
  cli_after n (mkFlags (Some P) rs o) args w = cli_after n (mkFlags None rs o) (text :: args) w.
Proof.
  intros HP Hr. unfold cli_after, prog_and_paths. cbn [fl_f fl_r fl_o].
  destruct P as [|c P]; [contradiction|]. now rewrite Hr.
Qed.

Lemma unreadable_program_fails n w rs o args P :
  P <> [] -> read_file w P = None ->
  cli_after n (mkFlags (Some P) rs o) args w = fail_result [].
Proof.
  intros HP Hr. unfold cli_after, prog_and_paths. cbn [fl_f].
  destruct P as [|c P]; [contradiction|]. now rewrite Hr.
Qed.

(* ------------------------------------------------------------------ the flag parser *)

(* an argument at which Go's flag package stops: not of the form -x... *)
Definition stops_flags (a : bytes) : bool :=
  match a with
  | c :: _ :: _ => negb (N.eqb c 45)
  | _ => true
  end.

Lemma match_45 {A} (c : N) (x y : A) :
  match c with 45%N => x | _ => y end = if N.eqb c 45 then x else y.
Proof.
  destruct c as [|p]; [reflexivity|].
  do 6 (destruct p as [p|p|]; try reflexivity).
Qed.

Lemma parse_flags_stop f args fl :
  match args with [] => True | a :: _ => stops_flags a = true end ->
  parse_flags (S f) args fl = FlagsOk fl args.
Proof.
  destruct args as [|a rest]; intro H; [reflexivity|].
  cbn [parse_flags]. destruct a as [|c body]; [reflexivity|].
  rewrite match_45. destruct (N.eqb c 45) eqn:Hc; [|reflexivity].
  destruct body as [|d body]; [reflexivity|].
  cbn [stops_flags] in H. rewrite Hc in H. discriminate.
Qed.

(* the flags in scope, given in the two-argument form  -name value *)
Inductive fspec := FF (v : bytes) | FR (v : bytes) | FO (v : bytes).
Definition render (x : fspec) : list bytes :=
  match x with
  | FF v => [bs "-f"; v]
  | FR v => [bs "-r"; v]
  | FO v => [bs "-o"; v]
  end.
Definition apply_spec (fl : flags) (x : fspec) : flags :=
  match x with
  | FF v => mkFlags (Some v) (fl_r fl) (fl_o fl)
  | FR v => mkFlags (fl_f fl) (fl_r fl ++ [v]) (fl_o fl)
  | FO v => mkFlags (fl_f fl) (fl_r fl) (Some v)
  end.
Definition r_values (specs : list fspec) : list bytes :=
  flat_map (fun x => match x with FR v => [v] | _ => [] end) specs.

Lemma parse_flags_spec f x more fl :
  parse_flags (S f) (render x ++ more) fl = parse_flags f more (apply_spec fl x).
Proof. destruct x; reflexivity. Qed.

Lemma parse_flags_specs specs : forall rest fl fuel,
  length specs < fuel ->
  match rest with [] => True | a :: _ => stops_flags a = true end ->
  parse_flags fuel (flat_map render specs ++ rest) fl
  = FlagsOk (fold_left apply_spec specs fl) rest.
Proof.
  induction specs as [|x specs IH]; intros rest fl fuel Hf Hr.
  - destruct fuel as [|f]; [cbn in Hf; lia|]. now apply parse_flags_stop.
  - destruct fuel as [|f]; [cbn in Hf; lia|].
    cbn [flat_map fold_left]. rewrite <- app_assoc. rewrite parse_flags_spec.
    apply IH; [cbn in Hf; lia|exact Hr].
Qed.

Lemma fold_apply_spec_r specs : forall fl,
  fl_r (fold_left apply_spec specs fl) = fl_r fl ++ r_values specs.
Proof.
  induction specs as [|x specs IH]; intro fl; cbn [fold_left r_values flat_map].
  - now rewrite app_nil_r.
  - rewrite IH. destruct x; cbn [apply_spec fl_r]; try reflexivity.
    now rewrite <- app_assoc.
Qed.

Lemma length_flat_map_render specs : length (flat_map render specs) = 2 * length specs.
Proof.
  induction specs as [|x specs IH]; [reflexivity|].
  cbn [flat_map]. rewrite app_length, IH. destruct x; cbn; lia.
Qed.

(* the -r values reach eval_program in command-line order *)
Lemma selectors_in_order_l n specs rest w :
  match rest with [] => True | a :: _ => stops_flags a = true end ->
  cli_run n (flat_map render specs ++ rest) w
  = cli_after n (fold_left apply_spec specs flags0) rest w /\
  fl_r (fold_left apply_spec specs flags0) = r_values specs.
Proof.
  intro Hr. split.
  - rewrite cli_run_stages. rewrite parse_flags_specs; [reflexivity| |exact Hr].
    rewrite app_length, length_flat_map_render. lia.
  - now rewrite fold_apply_spec_r.
Qed.

(* ------------------------------------------------------------------ inputs *)

Lemma open_inputs_in_order w paths files :
  open_inputs w paths = Some files ->
  map fst files = paths /\
  Forall2 (fun p f => exists b, read_file w p = Some b /\ f = (p, reader_of b)) paths files.
Proof.
  revert files. induction paths as [|p paths IH]; intros files H.
  - injection H as <-. split; constructor.
  - cbn [open_inputs] in H. destruct (read_file w p) as [b|] eqn:Hb; [|discriminate].
    destruct (open_inputs w paths) as [l|]; [|discriminate]. injection H as <-.
    destruct (IH l eq_refl) as [Hm Hf]. split.
    + cbn. now rewrite Hm.
    + constructor; [exists b; auto|exact Hf].
Qed.

Lemma open_inputs_unreadable w paths :
  open_inputs w paths = None <-> exists p, In p paths /\ read_file w p = None.
Proof.
  induction paths as [|p paths IH]; cbn [open_inputs].
  - split; [discriminate|]. intros (p & [] & _).
  - destruct (read_file w p) as [b|] eqn:Hb.
    + destruct (open_inputs w paths) as [l|].
      * split; [discriminate|]. intros (q & [<-|Hin] & Hq); [congruence|].
        destruct IH as [_ IH]. discriminate IH. eauto.
      * split; [|reflexivity]. intros _. destruct IH as [IH _].
        destruct (IH eq_refl) as (q & Hin & Hq). exists q. split; [now right|exact Hq].
    + split; [|reflexivity]. intros _. exists p. split; [now left|exact Hb].
Qed.

(* the run sees the files in the order given, under the names given *)
Lemma inputs_in_order_l n fl args w prog paths files :
  prog_and_paths fl args w = Some (prog, paths) ->
  reads_stdin w paths = false ->
  open_inputs w paths = Some files ->
  cli_after n fl args w
  = finish w (fl_o fl) paths (eval_program n prog files (fl_r fl) false) /\
  map fst files = paths /\
  Forall2 (fun p f => exists b, read_file w p = Some b /\ f = (p, reader_of b)) paths files.
Proof.
  intros Hp Hs Ho. split.
  - unfold cli_after, inputs_of, input_names. now rewrite Hp, Hs, Ho.
  - now apply open_inputs_in_order.
Qed.

(* an unreadable input file: nothing is run, nothing is printed *)
Lemma unreadable_input_no_run_l n fl args w prog paths p :
  prog_and_paths fl args w = Some (prog, paths) ->
  In p paths -> read_file w p = None ->
  cli_after n fl args w = CliDone (mkCli 1 [] true None).
Proof.
  intros Hp Hin Hr. unfold cli_after, inputs_of. rewrite Hp.
  assert (Hs : reads_stdin w paths = false) by (destruct paths; [contradiction|reflexivity]).
  rewrite Hs.
  assert (Ho : open_inputs w paths = None) by (apply open_inputs_unreadable; eauto).
  now rewrite Ho.
Qed.

(* ------------------------------------------------------------------ -o *)

(* is there a problem with -o after a successful run? *)
Definition o_problem (w : world) (o : option bytes) (names : list bytes) (s : st) : bool :=
  match o with
  | None | Some [] => false
  | Some target =>
    match names with
    | _ :: _ :: _ => true
    | _ =>
      match get_root_json s with
      | JsonText _ => negb (bytes_eqb target (bs "-")) && negb (w_writable w target)
      | JsonError => true
      | JsonFuel => false
      end
    end
  end.

Lemma finish_exit w o names res r :
  finish w o names res = CliDone r ->
  (c_exit r = 0 \/ c_exit r = 1) /\
  (c_exit r = 0 <-> c_diag r = false) /\
  (c_exit r = 0 <-> r_outcome res = OOk /\ o_problem w o names (r_state res) = false) /\
  (c_exit r <> 0 -> c_written r = None /\ c_stdout r = output_of (io (r_state res))).
Proof.
  unfold finish, o_problem, fail_result.
  destruct (r_outcome res); try discriminate;
    try (intro H; injection H as <-; cbn; repeat split; try tauto; try discriminate;
         try (intros [? ?]; discriminate); intro; lia).
  destruct o as [[|c target]|];
    try (intro H; injection H as <-; cbn; repeat split; try tauto; try discriminate;
         intro; lia).
  destruct names as [|n1 [|n2 names]];
    try (intro H; injection H as <-; cbn; repeat split; try tauto; try discriminate;
         try (intros [? ?]; discriminate); intro; lia);
    (destruct (get_root_json (r_state res)) as [j| | ]; try discriminate;
     [ destruct (bytes_eqb (c :: target) (bs "-")); cbn [negb andb];
       [ | destruct (w_writable w (c :: target)); cbn [negb] ] | ];
     intro H; injection H as <-; cbn; repeat split; try tauto; try discriminate;
     try (intros [? ?]; discriminate); intro; lia).
Qed.

Ltac fail_case :=
  split; [reflexivity|split; [reflexivity|split; [reflexivity|split;
    [discriminate|intros _; split; reflexivity]]]].

(* -o FILE writes exactly what -o - appends to the standard output *)
Lemma o_file_equals_o_dash_l w target names res :
  target <> [] -> bytes_eqb target (bs "-") = false -> w_writable w target = true ->
  match finish w (Some target) names res, finish w (Some (bs "-")) names res with
  | CliDone a, CliDone b =>
    c_exit a = c_exit b /\ c_diag a = c_diag b /\ c_written b = None /\
    (c_exit a = 0 ->
       exists j, c_written a = Some (target, j) /\ c_stdout b = c_stdout a ++ j /\
                 c_stdout a = output_of (io (r_state res)) /\
                 get_root_json (r_state res) = JsonText j) /\
    (c_exit a <> 0 -> c_stdout a = c_stdout b /\ c_written a = None)
  | CliUnsupported, CliUnsupported | CliFuel, CliFuel | CliPanic, CliPanic => True
  | _, _ => False
  end.
Proof.
  intros Ht Hd Hw. unfold finish, fail_result.
  destruct target as [|c target]; [contradiction|].
  assert (Hdash : bytes_eqb (bs "-") (bs "-") = true) by reflexivity.
  change (bs "-") with (45%N :: @nil N) in *.
  destruct (r_outcome res); try exact I; try fail_case.
  destruct names as [|n1 [|n2 names]]; try fail_case;
    (destruct (get_root_json (r_state res)) as [j| | ]; try exact I; try fail_case;
     rewrite Hd, Hw, Hdash;
     split; [reflexivity|split; [reflexivity|split; [reflexivity|split;
       [intros _; exists j; repeat split; reflexivity
       |intro H; exfalso; apply H; reflexivity]]]]).
Qed.

(* -o with more than one input file is refused after the run, keeping its output *)
Lemma o_needs_single_input_l w target n1 n2 names res :
  target <> [] -> r_outcome res = OOk ->
  finish w (Some target) (n1 :: n2 :: names) res
  = CliDone (mkCli 1 (output_of (io (r_state res))) true None).
Proof.
  intros Ht Ho. unfold finish. rewrite Ho. destruct target; [contradiction|]. reflexivity.
Qed.

(* ------------------------------------------------------------------ exit status *)

Lemma cli_after_exit n fl args w r :
  cli_after n fl args w = CliDone r ->
  (c_exit r = 0 \/ c_exit r = 1) /\
  (c_exit r = 0 <-> c_diag r = false) /\
  (c_exit r = 0 <->
   exists prog paths files,
     prog_and_paths fl args w = Some (prog, paths) /\ inputs_of w paths = Some files /\
     let res := eval_program n prog files (fl_r fl) false in
     r_outcome res = OOk /\ o_problem w (fl_o fl) (input_names w paths) (r_state res) = false).
Proof.
  unfold cli_after.
  destruct (prog_and_paths fl args w) as [[prog paths]|] eqn:Hp.
  - destruct (inputs_of w paths) as [files|] eqn:Hi.
    + intro H. destruct (finish_exit _ _ _ _ _ H) as (H1 & H2 & H3 & _).
      split; [exact H1|]. split; [exact H2|]. rewrite H3. split.
      * intro Hx. exists prog, paths, files. auto.
      * intros (prog' & paths' & files' & Hp' & Hi' & Hx).
        injection Hp' as <- <-. rewrite Hi in Hi'. injection Hi' as <-. exact Hx.
    + intro H. injection H as <-. cbn. repeat split; try tauto; try discriminate.
      intros (prog' & paths' & files' & Hp' & Hi' & _).
      injection Hp' as <- <-. rewrite Hi in Hi'. discriminate.
  - intro H. injection H as <-. cbn. repeat split; try tauto; try discriminate.
    intros (prog' & paths' & files' & Hp' & _). discriminate.
Qed.

Lemma exit_status_iff_l n argv w r :
  cli_run n argv w = CliDone r ->
  (c_exit r = 0 \/ c_exit r = 1 \/ c_exit r = 2) /\
  (c_exit r = 0 <-> c_diag r = false) /\
  (c_exit r = 2 <-> parse_flags (S (length argv)) argv flags0 = FlagsBad) /\
  (c_exit r = 0 <->
   exists fl args prog paths files,
     parse_flags (S (length argv)) argv flags0 = FlagsOk fl args /\
     prog_and_paths fl args w = Some (prog, paths) /\ inputs_of w paths = Some files /\
     let res := eval_program n prog files (fl_r fl) false in
     r_outcome res = OOk /\ o_problem w (fl_o fl) (input_names w paths) (r_state res) = false).
Proof.
  rewrite cli_run_stages.
  destruct (parse_flags (S (length argv)) argv flags0) as [fl args| | ] eqn:Hpf.
  - intro H. destruct (cli_after_exit _ _ _ _ _ H) as (H1 & H2 & H3).
    split; [tauto|]. split; [exact H2|]. split.
    + split; [intro; lia|discriminate].
    + rewrite H3. split.
      * intros (prog & paths & files & Hx). exists fl, args, prog, paths, files. auto.
      * intros (fl' & args' & prog & paths & files & Hf & Hx).
        injection Hf as <- <-. exists prog, paths, files. exact Hx.
  - intro H. injection H as <-. cbn. repeat split; try tauto; try discriminate.
    intros (fl' & args' & prog & paths & files & Hf & _). discriminate.
  - discriminate.
Qed.

(* ------------------------------------------------------------------ stdin = a named file *)

Definition outcome_kind (o : outcome) : nat :=
  match o with
  | OOk => 0 | OSyntax _ => 1 | ORuntime _ => 2 | OJson => 3 | ORaw => 4
  | OPanic => 5 | OFuel => 6 | OUnsupp => 7
  end.

(* what the command line looks at in the result of a run *)
Definition cli_view (res : run_result) : nat * bytes * json_out :=
  (outcome_kind (r_outcome res), output_of (io (r_state res)), get_root_json (r_state res)).

Definition several (names : list bytes) : bool :=
  match names with _ :: _ :: _ => true | _ => false end.

Lemma finish_view w o names1 names2 res1 res2 :
  cli_view res1 = cli_view res2 -> several names1 = several names2 ->
  finish w o names1 res1 = finish w o names2 res2.
Proof.
  unfold cli_view. intros Hv Hs. injection Hv as Hk Ho Hj.
  unfold finish. rewrite Ho, Hj.
  destruct (r_outcome res1), (r_outcome res2); try discriminate; try reflexivity.
  destruct o as [[|c target]|]; try reflexivity.
  destruct names1 as [|a [|b l]], names2 as [|a' [|b' l']]; try discriminate; reflexivity.
Qed.

(* stdin holding the bytes b  versus  a file p holding b: the same reader is handed to
   the run, under the names "<stdin>" and p *)
Lemma stdin_same_reader n fl prog w p b :
  fl_f fl = None -> w_stdin_tty w = false -> w_stdin w = b -> read_file w p = Some b ->
  cli_after n fl [prog] w
  = finish w (fl_o fl) [bs "<stdin>"]
      (eval_program n prog [(bs "<stdin>", reader_of b)] (fl_r fl) false) /\
  cli_after n fl [prog; p] w
  = finish w (fl_o fl) [p] (eval_program n prog [(p, reader_of b)] (fl_r fl) false).
Proof.
  intros Hf Ht Hs Hr. unfold cli_after, prog_and_paths, inputs_of, input_names, reads_stdin.
  rewrite Hf, Ht. cbn [negb open_inputs]. rewrite Hs, Hr. split; reflexivity.
Qed.

(* the program's result does not depend on the name of its (single) input *)
Definition name_irrelevant (n : nat) (prog : bytes) (sels : list bytes) (rd : reader)
           (name1 name2 : bytes) : Prop :=
  cli_view (eval_program n prog [(name1, rd)] sels false)
  = cli_view (eval_program n prog [(name2, rd)] sels false).

Lemma stdin_equals_file_l n fl prog w p b :
  fl_f fl = None -> w_stdin_tty w = false -> w_stdin w = b -> read_file w p = Some b ->
  name_irrelevant n prog (fl_r fl) (reader_of b) (bs "<stdin>") p ->
  cli_after n fl [prog] w = cli_after n fl [prog; p] w.
Proof.
  intros Hf Ht Hs Hr Hn.
  destruct (stdin_same_reader n fl prog w p b Hf Ht Hs Hr) as [-> ->].
  now apply finish_view.
Qed.

(* ------------------------------------------------------------------ -f, at the argv level *)

Definition no_ff (specs : list fspec) : bool :=
  forallb (fun x => match x with FF _ => false | _ => true end) specs.

Lemma fold_apply_spec_f specs : forall fl,
  no_ff specs = true -> fl_f (fold_left apply_spec specs fl) = fl_f fl.
Proof.
  induction specs as [|x specs IH]; intros fl H; [reflexivity|].
  cbn [no_ff forallb] in H. apply andb_true_iff in H. destruct H as [Hx Hs].
  cbn [fold_left]. rewrite IH by exact Hs. destruct x; try discriminate; reflexivity.
Qed.

Lemma fold_left_snoc {A B} (f : A -> B -> A) l x a :
  fold_left f (l ++ [x]) a = f (fold_left f l a) x.
Proof. now rewrite fold_left_app. Qed.

(* jqawk [-r/-o flags] -f P files...   =   jqawk [-r/-o flags] TEXT files... *)
Lemma f_equals_inline_l n w specs rest P text :
  match rest with [] => True | a :: _ => stops_flags a = true end ->
  no_ff specs = true -> P <> [] -> read_file w P = Some text -> stops_flags text = true ->
  cli_run n (flat_map render (specs ++ [FF P]) ++ rest) w
  = cli_run n (flat_map render specs ++ text :: rest) w.
Proof.
  intros Hrest Hno HP Hread Htext.
  destruct (selectors_in_order_l n (specs ++ [FF P]) rest w Hrest) as [-> _].
  destruct (selectors_in_order_l n specs (text :: rest) w Htext) as [-> _].
  rewrite fold_left_snoc. cbn [apply_spec].
  pose proof (fold_apply_spec_f specs flags0 Hno) as Hf. cbn [flags0 fl_f] in Hf.
  destruct (fold_left apply_spec specs flags0) as [f0 rs o]. cbn [fl_f fl_r fl_o] in *. subst f0.
  now apply f_equals_inline_after.
Qed.
