(* Proofs/Control.v -- the control-flow laws of C07, proved of the model (Sem/Eval.v,
   Syntax/Parser.v).  Statements are collected in Props/C07_control.v. *)
From Coq Require Import Lia ZArith ZifyNat ZifyBool.
From JQ Require Import Base.Bytes Num.F64 Syntax.Token Syntax.Lexer Syntax.Ast Syntax.Parser.
From JQ Require Import Json.JValue Oracle.Utf8.
From JQ Require Import Gen.Generated Sem.Value Sem.Ops Sem.Natives Sem.Eval.
From JQ Require Import Spec.ControlLaws.
Open Scope nat_scope.

(* ------------------------------------------------------------------ monad facts *)

Lemma meq_refl {A} (m : M A) : m =m= m.
Proof. intro s. reflexivity. Qed.
Lemma meq_sym {A} (m1 m2 : M A) : m1 =m= m2 -> m2 =m= m1.
Proof. intros H s. symmetry. apply H. Qed.
Lemma meq_trans {A} (m1 m2 m3 : M A) : m1 =m= m2 -> m2 =m= m3 -> m1 =m= m3.
Proof. intros H1 H2 s. rewrite H1. apply H2. Qed.

Lemma bind_ret_l {A B} (a : A) (k : A -> M B) : bind (ret a) k =m= k a.
Proof. intro s. reflexivity. Qed.

Lemma bind_assoc {A B C} (m : M A) (k : A -> M B) (h : B -> M C) :
  bind (bind m k) h =m= bind m (fun a => bind (k a) h).
Proof. intro s. unfold bind. destruct (m s) as [[a|e|x| | |] s']; reflexivity. Qed.

Lemma bind_cong {A B} (m1 m2 : M A) (k1 k2 : A -> M B) :
  m1 =m= m2 -> (forall a, k1 a =m= k2 a) -> bind m1 k1 =m= bind m2 k2.
Proof.
  intros Hm Hk s. unfold bind. rewrite Hm.
  destruct (m2 s) as [[a|e|x| | |] s']; try reflexivity. apply Hk.
Qed.

Lemma bind_ok {A B} (m : M A) (k : A -> M B) s a s1 :
  m s = (Ok a, s1) -> bind m k s = k a s1.
Proof. intro H. unfold bind. rewrite H. reflexivity. Qed.

Lemma bind_not_ok {A B} (m : M A) (k : A -> M B) s r s1 :
  m s = (r, s1) -> (forall a, r <> Ok a) -> bind m k s = (cast_res r, s1).
Proof.
  intros H Hr. unfold bind. rewrite H.
  destruct r as [a|e|x| | |]; try reflexivity. exfalso. apply (Hr a). reflexivity.
Qed.

Lemma bind_ext {A B} (m : M A) (k1 k2 : A -> M B) s :
  (forall a s1, m s = (Ok a, s1) -> k1 a s1 = k2 a s1) -> bind m k1 s = bind m k2 s.
Proof.
  intro H. unfold bind. destruct (m s) as [[a|e|x| | |] s1]; try reflexivity. apply H. reflexivity.
Qed.

Lemma bind_rt_error {A B} src t (k : A -> M B) : bind (rt_error src t) k =m= rt_error src t.
Proof.
  intro s. unfold bind, rt_error. destruct (get_line_col src (tpos t)) as [[tx ln] cl]. reflexivity.
Qed.

(* ------------------------------------------------------------------ the generic fold *)

Section FoldFacts.
  Context {A : Type}.
  Variable setup : A -> M unit.
  Variable exec : nat -> M bool.

  Lemma forin_fold_zero : forall items s, forin_fold setup exec 0 items s = (Fuel, s).
  Proof. reflexivity. Qed.

  Lemma forin_fold_nil : forall n, forin_fold setup exec (S n) [] =m= ret tt.
  Proof. intros n s. reflexivity. Qed.

  Lemma forin_fold_cons : forall n x rest,
    forin_fold setup exec (S n) (x :: rest) =m=
    (setup x ;;; let* go := exec n in if go then forin_fold setup exec n rest else ret tt).
  Proof. intros n x rest s. reflexivity. Qed.

  (* one iteration decides how the fold goes on *)
  Lemma forin_fold_step : forall n x rest s,
    forin_fold setup exec (S n) (x :: rest) s =
    match iteration setup exec n x s with
    | (Ok true, s1) => forin_fold setup exec n rest s1
    | (Ok false, s1) => (Ok tt, s1)
    | (r, s1) => (cast_res r, s1)
    end.
  Proof.
    intros n x rest s. rewrite forin_fold_cons. unfold iteration, bind.
    destruct (setup x s) as [[[]|e|y| | |] s0]; try reflexivity.
    destruct (exec n s0) as [[[|]|e|y| | |] s1]; reflexivity.
  Qed.

  (* the model's loop IS a run of the counting relation *)
  Lemma loop_run_total : forall n items s,
    exists vis why, loop_run setup exec n items s vis why (forin_fold setup exec n items s).
  Proof.
    induction n as [|n IH]; intros items s.
    - exists [], OutOfFuel. rewrite forin_fold_zero. constructor.
    - destruct items as [|x rest].
      + exists [], Completed. constructor.
      + rewrite forin_fold_step.
        destruct (iteration setup exec n x s) as [r s1] eqn:Hit.
        destruct r as [[|]|e|y| | |].
        * destruct (IH rest s1) as (vis & why & Hrun).
          exists (x :: vis), why. eapply LR_next; eassumption.
        * exists [x], Broke. eapply LR_break; eassumption.
        * exists [x], Aborted. change (@Err unit e) with (@cast_res bool unit (Err e)).
          eapply LR_abort; [eassumption | discriminate].
        * exists [x], Aborted. change (@Sig unit y) with (@cast_res bool unit (Sig y)).
          eapply LR_abort; [eassumption | discriminate].
        * exists [x], Aborted. change (@Panic unit) with (@cast_res bool unit Panic).
          eapply LR_abort; [eassumption | discriminate].
        * exists [x], Aborted. change (@Fuel unit) with (@cast_res bool unit Fuel).
          eapply LR_abort; [eassumption | discriminate].
        * exists [x], Aborted. change (@Unsupp unit) with (@cast_res bool unit Unsupp).
          eapply LR_abort; [eassumption | discriminate].
  Qed.

  (* ... and the run is unique: the relation describes one behaviour *)
  Lemma loop_run_det : forall n items s vis why out,
    loop_run setup exec n items s vis why out ->
    forall vis' why' out', loop_run setup exec n items s vis' why' out' ->
    vis' = vis /\ why' = why /\ out' = out.
  Proof.
    intros n items s vis why out H.
    induction H as [items s | f s | f x xs s s1 vis why out Hit Hrun IH
                   | f x xs s s1 Hit | f x xs s s1 r Hit Hr];
      intros vis' why' out' H'; inversion H'; subst; try (repeat split; reflexivity);
      try congruence.
    - match goal with Hx : iteration _ _ _ _ _ = (Ok true, ?s2) |- _ =>
        assert (s2 = s1) by congruence; subst end.
      match goal with Hx : loop_run _ _ _ _ _ _ _ _ |- _ =>
        destruct (IH _ _ _ Hx) as (-> & -> & ->) end.
      repeat split; reflexivity.
    - repeat split; congruence.
    - match goal with Hx : iteration _ _ _ _ _ = (?r2, ?s2) |- _ =>
        assert (r2 = r /\ s2 = s1) as [-> ->] by (split; congruence) end.
      repeat split; reflexivity.
  Qed.

  (* the visited items are an initial segment of the items: nothing is skipped,
     repeated or reordered *)
  Lemma loop_run_prefix : forall n items s vis why out,
    loop_run setup exec n items s vis why out -> exists rest, items = vis ++ rest.
  Proof.
    intros n items s vis why out H.
    induction H as [items s | f s | f x xs s s1 vis why out Hit Hrun IH
                   | f x xs s s1 Hit | f x xs s s1 r Hit Hr].
    - exists items. reflexivity.
    - exists []. reflexivity.
    - destruct IH as [rest ->]. exists rest. reflexivity.
    - exists xs. reflexivity.
    - exists xs. reflexivity.
  Qed.

  (* a loop that is not cut short visits every item exactly once, and ends normally *)
  Lemma loop_run_completed : forall n items s vis why out,
    loop_run setup exec n items s vis why out ->
    why = Completed -> vis = items /\ fst out = Ok tt.
  Proof.
    intros n items s vis why out H.
    induction H as [items s | f s | f x xs s s1 vis why out Hit Hrun IH
                   | f x xs s s1 Hit | f x xs s s1 r Hit Hr]; intro Hw; try discriminate.
    - split; reflexivity.
    - destruct (IH Hw) as [-> Ho]. split; [reflexivity | exact Ho].
  Qed.

  (* the other ways a loop ends *)
  Lemma loop_run_reason : forall n items s vis why out,
    loop_run setup exec n items s vis why out ->
    match why with
    | Completed => vis = items /\ fst out = Ok tt
    | Broke =>
      fst out = Ok tt /\
      exists pre x s0, vis = pre ++ [x] /\ iteration setup exec (n - length vis) x s0 = (Ok false, snd out)
    | Aborted =>
      exists pre x s0 r, vis = pre ++ [x] /\ (forall b, r <> Ok b) /\
        iteration setup exec (n - length vis) x s0 = (r, snd out) /\ fst out = cast_res r
    | OutOfFuel => fst out = Fuel /\ n = length vis
    end.
  Proof.
    intros n items s vis why out H.
    induction H as [items s | f s | f x xs s s1 vis why out Hit Hrun IH
                   | f x xs s s1 Hit | f x xs s s1 r Hit Hr].
    - split; reflexivity.
    - split; reflexivity.
    - destruct why.
      + destruct IH as [-> Ho]. split; [reflexivity | exact Ho].
      + destruct IH as (Ho & pre & y & s0 & -> & Hy). split; [exact Ho|].
        exists (x :: pre), y, s0. split; [reflexivity | exact Hy].
      + destruct IH as (pre & y & s0 & r & -> & Hr & Hy & Ho).
        exists (x :: pre), y, s0, r. repeat split; assumption.
      + destruct IH as [Ho ->]. split; [exact Ho | reflexivity].
    - split; [reflexivity|]. exists [], x, s. split; [reflexivity|].
      simpl. rewrite Nat.sub_0_r. exact Hit.
    - exists [], x, s, r. split; [reflexivity|]. split; [exact Hr|].
      simpl. rewrite Nat.sub_0_r. split; [exact Hit | reflexivity].
  Qed.

  (* where a signal that leaves the fold comes from *)
  Lemma forin_fold_sig_origin : forall n items s x s',
    forin_fold setup exec n items s = (Sig x, s') ->
    (exists y s0, setup y s0 = (Sig x, s')) \/ (exists k s0, exec k s0 = (Sig x, s')).
  Proof.
    induction n as [|n IH]; intros items s x s' H.
    - rewrite forin_fold_zero in H. discriminate.
    - destruct items as [|y rest]; [discriminate|].
      rewrite forin_fold_cons in H. unfold bind in H.
      destruct (setup y s) as [[[]|e|z| | |] s0] eqn:Hs; try discriminate.
      + destruct (exec n s0) as [[[|]|e|z| | |] s1] eqn:He; try discriminate.
        * eapply IH. exact H.
        * inversion H; subst. right. exists n, s0. exact He.
      + inversion H; subst. left. exists y, s. exact Hs.
  Qed.
End FoldFacts.

Lemma forin_fold_map : forall {A} (setup : A -> M unit) exec n items,
  forin_fold (fun b => b) exec n (map setup items) =m= forin_fold setup exec n items.
Proof.
  intros A setup exec. induction n as [|n IH]; intros items s; [reflexivity|].
  destruct items as [|x rest]; [reflexivity|].
  cbn [map]. rewrite !forin_fold_cons. unfold bind.
  destruct (setup x s) as [[[]|e|y| | |] s0]; try reflexivity.
  destruct (exec n s0) as [[[|]|e|y| | |] s1]; try reflexivity. apply IH.
Qed.

(* ------------------------------------------------------------------ key order *)

Lemma N_compare_antisym_gt : forall x y : N, (x ?= y)%N = Gt -> (y ?= x)%N = Lt.
Proof. intros x y H. rewrite N.compare_antisym, H. reflexivity. Qed.

Lemma bytes_cmp_gt_lt : forall a b, bytes_cmp a b = Gt -> bytes_cmp b a = Lt.
Proof.
  induction a as [|x a IH]; destruct b as [|y b]; simpl; intro H; try discriminate; try reflexivity.
  rewrite (N.compare_antisym x y). destruct (x ?= y)%N eqn:Hc; simpl; try discriminate.
  - apply IH. exact H.
  - reflexivity.
Qed.

Lemma bytes_cmp_eq_eq : forall a b, bytes_cmp a b = Eq -> a = b.
Proof.
  induction a as [|x a IH]; destruct b as [|y b]; simpl; intro H; try discriminate; try reflexivity.
  destruct (x ?= y)%N eqn:Hc; try discriminate.
  apply N.compare_eq in Hc. subst. f_equal. apply IH. exact H.
Qed.

Lemma keys_ascending_cons : forall k ks,
  keys_ascending (k :: ks) <->
  (match ks with [] => True | k' :: _ => bytes_cmp k k' = Lt end) /\ keys_ascending ks.
Proof.
  intros k ks. destruct ks as [|k' r]; simpl; tauto.
Qed.

(* m[k] = v keeps the keys in ascending byte order *)
Lemma assoc_set_keys_ascending : forall {A} (k : bytes) (v : A) l,
  keys_ascending (map fst l) -> keys_ascending (map fst (assoc_set k v l)).
Proof.
  intros A k v. induction l as [|[k' v'] r IH]; intro H.
  - exact I.
  - cbn [assoc_set]. destruct (bytes_cmp k k') eqn:Hc.
    + apply bytes_cmp_eq_eq in Hc. subst k'. exact H.
    + cbn [map fst]. apply keys_ascending_cons. split; [exact Hc | exact H].
    + cbn [map fst] in *. apply keys_ascending_cons in H. destruct H as [Hh Ht].
      apply keys_ascending_cons. split; [| apply IH; exact Ht].
      destruct r as [|[k2 v2] r2].
      * cbn. apply bytes_cmp_gt_lt. exact Hc.
      * cbn [assoc_set]. destruct (bytes_cmp k k2) eqn:Hc2; cbn [map fst].
        -- apply bytes_cmp_gt_lt. exact Hc.
        -- apply bytes_cmp_gt_lt. exact Hc.
        -- exact Hh.
Qed.

(* the two ways the evaluator creates and updates objects keep every object sorted *)
Lemma heap_sorted_new_obj : forall h,
  heap_objs_sorted h -> heap_objs_sorted (snd (new_obj h [])).
Proof.
  intros h H oid. unfold new_obj, get_obj. cbn [snd objs].
  destruct (Pos.eq_dec oid (next h)) as [->|Hne].
  - rewrite PM.gss. exact I.
  - rewrite PM.gso by exact Hne. apply H.
Qed.

Lemma heap_sorted_set_member : forall h oid k c,
  heap_objs_sorted h -> heap_objs_sorted (set_obj h oid (assoc_set k c (get_obj h oid))).
Proof.
  intros h oid k c H o. unfold set_obj. unfold get_obj at 1. cbn [objs].
  destruct (Pos.eq_dec o oid) as [->|Hne].
  - rewrite PM.gss. apply assoc_set_keys_ascending. apply H.
  - rewrite PM.gso by exact Hne. apply H.
Qed.

Lemma heap_sorted_empty : heap_objs_sorted empty_heap.
Proof. intro oid. unfold get_obj, empty_heap. cbn [objs]. rewrite PM.gempty. exact I. Qed.

(* a decision procedure for the sortedness of a concrete heap *)
Fixpoint keys_ascending_b (ks : list bytes) : bool :=
  match ks with
  | [] => true
  | k :: rest =>
    match rest with
    | [] => true
    | k' :: _ => (match bytes_cmp k k' with Lt => true | _ => false end) && keys_ascending_b rest
    end
  end.

Lemma keys_ascending_b_ok : forall ks, keys_ascending_b ks = true -> keys_ascending ks.
Proof.
  induction ks as [|k rest IH]; intro H; [exact I|].
  destruct rest as [|k' r]; [exact I|].
  cbn [keys_ascending_b] in H. apply andb_true_iff in H. destruct H as [H1 H2].
  split; [destruct (bytes_cmp k k'); try discriminate; reflexivity | apply IH; exact H2].
Qed.

Lemma heap_objs_sorted_check : forall h,
  forallb (fun kv => keys_ascending_b (map fst (snd kv))) (PM.elements (objs h)) = true ->
  heap_objs_sorted h.
Proof.
  intros h H oid. unfold get_obj. destruct (PM.find oid (objs h)) as [l|] eqn:Hf; [|exact I].
  apply PM.elements_correct in Hf. rewrite forallb_forall in H.
  apply keys_ascending_b_ok. exact (H _ Hf).
Qed.

Section Laws.
  Variable src : bytes.
  Variable funcs : list func.
  Variable fuzzing : bool.

  Notation ES := (eval_stmt src funcs fuzzing).
  Notation EE := (eval_expr src funcs fuzzing).
  Notation EB := (eval_body src funcs fuzzing).
  Notation EW := (eval_while src funcs fuzzing).
  Notation EF := (eval_for src funcs fuzzing).

  (* ---------------------------------------------------------------- blocks *)

  Lemma block_nil : forall n t, ES (S n) (SBlock t []) =m= ret tt.
  Proof. intros n t s. reflexivity. Qed.

  Lemma block_seq : forall n t x rest,
    ES (S n) (SBlock t (x :: rest)) =m= (ES n x ;;; ES (S n) (SBlock t rest)).
  Proof. intros n t x rest s. reflexivity. Qed.


  Lemma block_stops : forall n t x rest st r st',
    ES n x st = (r, st') -> r <> Ok tt -> ES (S n) (SBlock t (x :: rest)) st = (r, st').
  Proof.
    intros n t x rest st r st' H Hr. rewrite block_seq. unfold bind. rewrite H.
    destruct r as [[]|e|x0| | |]; try reflexivity. congruence.
  Qed.

  Lemma block_goes_on : forall n t x rest st st1,
    ES n x st = (Ok tt, st1) ->
    ES (S n) (SBlock t (x :: rest)) st = ES (S n) (SBlock t rest) st1.
  Proof. intros n t x rest st st1 H. rewrite block_seq. unfold bind. rewrite H. reflexivity. Qed.

  (* ---------------------------------------------------------------- if / else *)

  Lemma if_unfold : forall n c body els s,
    ES (S n) (SIf c body els) s =
    bind (EE n c) (fun cc => bind (m_load cc) (fun cv =>
      if is_truthy cv then ES n body
      else match els with Some e => ES n e | None => ret tt end)) s.
  Proof. reflexivity. Qed.

  Lemma if_eq : forall n c body els,
    ES (S n) (SIf c body els) =m=
    (let* t := truth_of (EE n c) in
     if t then ES n body else match els with Some e => ES n e | None => ret tt end).
  Proof.
    intros n c body els s. rewrite if_unfold. unfold truth_of, bind, m_load, ret.
    destruct (EE n c s) as [[cc|e|x| | |] s1]; reflexivity.
  Qed.

  Lemma if_true : forall n c body els st st1,
    cond_is src funcs fuzzing n c true st st1 ->
    ES (S n) (SIf c body els) st = ES n body st1.
  Proof. intros n c body els st st1 H. rewrite if_eq. unfold bind. rewrite H. reflexivity. Qed.

  Lemma if_false_else : forall n c body e st st1,
    cond_is src funcs fuzzing n c false st st1 ->
    ES (S n) (SIf c body (Some e)) st = ES n e st1.
  Proof. intros n c body e st st1 H. rewrite if_eq. unfold bind. rewrite H. reflexivity. Qed.

  Lemma if_false_noelse : forall n c body st st1,
    cond_is src funcs fuzzing n c false st st1 ->
    ES (S n) (SIf c body None) st = (Ok tt, st1).
  Proof. intros n c body st st1 H. rewrite if_eq. unfold bind. rewrite H. reflexivity. Qed.

  Lemma cond_not_ok : forall n c st r st1,
    EE n c st = (r, st1) -> (forall a, r <> Ok a) ->
    truth_of (EE n c) st = (cast_res r, st1).
  Proof. intros n c st r st1 H Hr. unfold truth_of. apply bind_not_ok; assumption. Qed.

  Lemma if_cond_fails : forall n c body els st r st1,
    EE n c st = (r, st1) -> (forall a, r <> Ok a) ->
    ES (S n) (SIf c body els) st = (cast_res r, st1).
  Proof.
    intros n c body els st r st1 H Hr. rewrite if_eq.
    rewrite (bind_not_ok _ _ _ _ _ (cond_not_ok _ _ _ _ _ H Hr)).
    - destruct r; reflexivity.
    - intros a. destruct r; simpl; discriminate.
  Qed.

  (* ---------------------------------------------------------------- loop bodies *)

  Lemma eval_body_unfold : forall n body s,
    EB (S n) body s =
    bind (catch (ES n body)) (fun r =>
      match r with
      | Ok _ => ret true
      | Sig SigContinue => ret true
      | Sig SigBreak => ret false
      | other => reraise other
      end) s.
  Proof. reflexivity. Qed.

  Lemma eval_body_eq : forall n body, EB (S n) body =m= run_body (ES n body).
  Proof.
    intros n body s. rewrite eval_body_unfold. unfold bind, catch, run_body.
    destruct (ES n body s) as [[[]|e|[]| | |] s1]; reflexivity.
  Qed.

  Lemma eval_body_zero : forall body s, EB 0 body s = (Fuel, s).
  Proof. reflexivity. Qed.

  (* the body executor never hands a break or continue to the loop as a signal *)
  Lemma eval_body_absorbs : forall n body s x s',
    EB n body s = (Sig x, s') -> x <> SigBreak /\ x <> SigContinue.
  Proof.
    intros [|n] body s x s' H.
    - rewrite eval_body_zero in H. discriminate.
    - rewrite eval_body_eq in H. unfold run_body in H.
      destruct (ES n body s) as [[[]|e|[]| | |] s1]; inversion H; subst; split; discriminate.
  Qed.

  Lemma eval_body_goes_on : forall n body s r s1,
    ES n body s = (r, s1) -> r = Ok tt \/ r = Sig SigContinue ->
    EB (S n) body s = (Ok true, s1).
  Proof.
    intros n body s r s1 H [-> | ->]; rewrite eval_body_eq; unfold run_body; rewrite H; reflexivity.
  Qed.

  Lemma eval_body_break : forall n body s s1,
    ES n body s = (Sig SigBreak, s1) -> EB (S n) body s = (Ok false, s1).
  Proof. intros n body s s1 H. rewrite eval_body_eq. unfold run_body. rewrite H. reflexivity. Qed.

  Lemma eval_body_escapes : forall n body s r s1,
    ES n body s = (r, s1) -> escapes r -> EB (S n) body s = (cast_res r, s1).
  Proof.
    intros n body s r s1 H Hr. rewrite eval_body_eq. unfold run_body. rewrite H.
    destruct r as [[]|e|[]| | |]; simpl in Hr; try contradiction; reflexivity.
  Qed.

  (* ---------------------------------------------------------------- while *)

  Lemma while_stmt : forall n c body, ES (S n) (SWhile c body) =m= EW n c body 0.
  Proof. intros n c body s. reflexivity. Qed.

  Lemma while_unfold : forall n c body k s,
    EW (S n) c body k s =
    bind (EE n c) (fun cc => bind (m_load cc) (fun cv =>
      if is_truthy cv then
        bind (EB n body) (fun go =>
          if go then
            if (fuzzing && Z.ltb fuzzing_loop_limit (Z.of_nat k))%bool
            then rt_error src (expr_token c)
            else EW n c body (S k)
          else ret tt)
      else ret tt)) s.
  Proof. reflexivity. Qed.

  Lemma while_unroll : forall n c body k,
    EW (S n) c body k =m=
    (let* t := truth_of (EE n c) in
     if t then
       let* go := EB n body in
       if go then
         if loop_limit_hit fuzzing k then rt_error src (expr_token c)
         else EW n c body (S k)
       else ret tt
     else ret tt).
  Proof.
    intros n c body k s. rewrite while_unfold. unfold truth_of, loop_limit_hit, bind, m_load, ret.
    destruct (EE n c s) as [[cc|e|x| | |] s1]; reflexivity.
  Qed.

  Lemma while_zero : forall c body k s, EW 0 c body k s = (Fuel, s).
  Proof. reflexivity. Qed.

  Lemma while_false_noop : forall n c body k st st1,
    cond_is src funcs fuzzing n c false st st1 ->
    EW (S n) c body k st = (Ok tt, st1).
  Proof. intros n c body k st st1 H. rewrite while_unroll. unfold bind. rewrite H. reflexivity. Qed.

  Lemma while_cond_fails : forall n c body k st r st1,
    EE n c st = (r, st1) -> (forall a, r <> Ok a) ->
    EW (S n) c body k st = (cast_res r, st1).
  Proof.
    intros n c body k st r st1 H Hr. rewrite while_unroll.
    rewrite (bind_not_ok _ _ _ _ _ (cond_not_ok _ _ _ _ _ H Hr)).
    - destruct r; reflexivity.
    - intros a. destruct r; simpl; discriminate.
  Qed.

  Lemma while_body_break : forall n c body k st st1 st2,
    cond_is src funcs fuzzing (S n) c true st st1 ->
    ES n body st1 = (Sig SigBreak, st2) ->
    EW (S (S n)) c body k st = (Ok tt, st2).
  Proof.
    intros n c body k st st1 st2 Hc Hb. rewrite while_unroll. unfold bind. rewrite Hc.
    rewrite (eval_body_break _ _ _ _ Hb). reflexivity.
  Qed.

  Lemma while_body_goes_on : forall n c body k st st1 r st2,
    cond_is src funcs fuzzing (S n) c true st st1 ->
    ES n body st1 = (r, st2) -> r = Ok tt \/ r = Sig SigContinue ->
    EW (S (S n)) c body k st =
    (if loop_limit_hit fuzzing k then rt_error src (expr_token c) st2
     else EW (S n) c body (S k) st2).
  Proof.
    intros n c body k st st1 r st2 Hc Hb Hr. rewrite while_unroll. unfold bind. rewrite Hc.
    rewrite (eval_body_goes_on _ _ _ _ _ Hb Hr). destruct (loop_limit_hit fuzzing k); reflexivity.
  Qed.

  Lemma while_body_escapes : forall n c body k st st1 r st2,
    cond_is src funcs fuzzing (S n) c true st st1 ->
    ES n body st1 = (r, st2) -> escapes r ->
    EW (S (S n)) c body k st = (r, st2).
  Proof.
    intros n c body k st st1 r st2 Hc Hb Hr. rewrite while_unroll. unfold bind. rewrite Hc.
    rewrite (eval_body_escapes _ _ _ _ _ Hb Hr).
    destruct r as [[]|e|[]| | |]; simpl in Hr; try contradiction; reflexivity.
  Qed.

  (* ---------------------------------------------------------------- for *)

  Lemma for_desugar : forall n pre c post body,
    ES (S n) (SFor pre c post body) =m= (let* _ := EE n pre in EF n c post body 0).
  Proof. intros n pre c post body s. reflexivity. Qed.

  Lemma for_unfold : forall n c post body k s,
    EF (S n) c post body k s =
    bind (EE n c) (fun cc => bind (m_load cc) (fun cv =>
      if is_truthy cv then
        bind (EB n body) (fun go =>
          if go then
            bind (EE n post) (fun _ =>
              if (fuzzing && Z.ltb fuzzing_loop_limit (Z.of_nat k))%bool
              then rt_error src (expr_token c)
              else EF n c post body (S k))
          else ret tt)
      else ret tt)) s.
  Proof. reflexivity. Qed.

  Lemma for_unroll : forall n c post body k,
    EF (S n) c post body k =m=
    (let* t := truth_of (EE n c) in
     if t then
       let* go := EB n body in
       if go then
         let* _ := EE n post in
         if loop_limit_hit fuzzing k then rt_error src (expr_token c)
         else EF n c post body (S k)
       else ret tt
     else ret tt).
  Proof.
    intros n c post body k s. rewrite for_unfold. unfold truth_of, loop_limit_hit, bind, m_load, ret.
    destruct (EE n c s) as [[cc|e|x| | |] s1]; reflexivity.
  Qed.

  Lemma for_zero : forall c post body k s, EF 0 c post body k s = (Fuel, s).
  Proof. reflexivity. Qed.

  Lemma for_pre_error_propagates : forall n pre c post body st r st1,
    EE n pre st = (r, st1) -> (forall a, r <> Ok a) ->
    ES (S n) (SFor pre c post body) st = (cast_res r, st1).
  Proof.
    intros n pre c post body st r st1 H Hr. rewrite for_desugar. apply bind_not_ok; assumption.
  Qed.

  Lemma for_false_noop : forall n c post body k st st1,
    cond_is src funcs fuzzing n c false st st1 ->
    EF (S n) c post body k st = (Ok tt, st1).
  Proof. intros n c post body k st st1 H. rewrite for_unroll. unfold bind. rewrite H. reflexivity. Qed.

  Lemma for_cond_fails : forall n c post body k st r st1,
    EE n c st = (r, st1) -> (forall a, r <> Ok a) ->
    EF (S n) c post body k st = (cast_res r, st1).
  Proof.
    intros n c post body k st r st1 H Hr. rewrite for_unroll.
    rewrite (bind_not_ok _ _ _ _ _ (cond_not_ok _ _ _ _ _ H Hr)).
    - destruct r; reflexivity.
    - intros a. destruct r; simpl; discriminate.
  Qed.

  (* after a completed AND after a continued iteration the post-expression runs, in the
     state the body left, and only then the next iteration starts *)
  Lemma for_post_after_iteration : forall n c post body k st st1 r st2,
    cond_is src funcs fuzzing (S n) c true st st1 ->
    ES n body st1 = (r, st2) -> r = Ok tt \/ r = Sig SigContinue ->
    EF (S (S n)) c post body k st =
    (let* _ := EE (S n) post in
     if loop_limit_hit fuzzing k then rt_error src (expr_token c)
     else EF (S n) c post body (S k)) st2.
  Proof.
    intros n c post body k st st1 r st2 Hc Hb Hr. rewrite for_unroll. unfold bind at 1. rewrite Hc.
    unfold bind at 1. rewrite (eval_body_goes_on _ _ _ _ _ Hb Hr). reflexivity.
  Qed.

  Lemma for_no_post_after_break : forall n c post body k st st1 st2,
    cond_is src funcs fuzzing (S n) c true st st1 ->
    ES n body st1 = (Sig SigBreak, st2) ->
    EF (S (S n)) c post body k st = (Ok tt, st2).
  Proof.
    intros n c post body k st st1 st2 Hc Hb. rewrite for_unroll. unfold bind. rewrite Hc.
    rewrite (eval_body_break _ _ _ _ Hb). reflexivity.
  Qed.

  Lemma for_body_escapes : forall n c post body k st st1 r st2,
    cond_is src funcs fuzzing (S n) c true st st1 ->
    ES n body st1 = (r, st2) -> escapes r ->
    EF (S (S n)) c post body k st = (r, st2).
  Proof.
    intros n c post body k st st1 r st2 Hc Hb Hr. rewrite for_unroll. unfold bind. rewrite Hc.
    rewrite (eval_body_escapes _ _ _ _ _ Hb Hr).
    destruct r as [[]|e|[]| | |]; simpl in Hr; try contradiction; reflexivity.
  Qed.


  (* ---------------------------------------------------------------- for-in *)

  Notation FA := (eval_forin_arr src funcs fuzzing).
  Notation FO := (eval_forin_obj src funcs fuzzing).
  Notation FS := (eval_forin_str src funcs fuzzing).

  Lemma forin_arr_unfold : forall n local ix bid off len i body s,
    FA (S n) local ix bid off len i body s =
    (if Nat.leb len i then ret tt
     else
       bind get_heap (fun h =>
         let itemc := nth_error (get_back h bid) (off + i) in
         (match ix with Some a => m_store a (num_of_nat i) | None => ret tt end) ;;;
         bind (match itemc with Some c => m_load c | None => ret (VNil None) end) (fun item =>
           m_store local item ;;;
           bind (EB n body) (fun go =>
             if go then FA n local ix bid off len (S i) body else ret tt)))) s.
  Proof. reflexivity. Qed.

  Lemma forin_array_fold : forall n local ix bid off len i body,
    FA n local ix bid off len i body =m=
    forin_fold (arr_setup local ix bid off) (fun k => EB k body) n (seq i (len - i)).
  Proof.
    induction n as [|n IH]; intros local ix bid off len i body s; [reflexivity|].
    rewrite forin_arr_unfold. destruct (Nat.leb len i) eqn:Hle.
    - apply Nat.leb_le in Hle. replace (len - i) with 0 by lia. reflexivity.
    - apply Nat.leb_gt in Hle. replace (len - i) with (S (len - S i)) by lia.
      cbn [seq]. rewrite forin_fold_cons.
      unfold arr_setup, set_index, bind, get_heap.
      destruct ix as [a|]; destruct (nth_error (get_back (hp s) bid) (off + i)) as [c|];
        cbn [m_store upd_heap m_load ret hp];
        match goal with |- context [EB n body ?s1] =>
          destruct (EB n body s1) as [[[|]|e|y| | |] s2]; try reflexivity end;
        apply IH.
  Qed.

  Lemma forin_obj_unfold : forall n local ix oid k rest body s,
    FO (S n) local ix oid (k :: rest) body s =
    bind get_heap (fun h =>
      let v := match assoc_get k (get_obj h oid) with
               | Some c => load h c | None => VNil None end in
      (match ix with Some a => m_store a v | None => ret tt end) ;;;
      m_store local (VStr k) ;;;
      bind (EB n body) (fun go => if go then FO n local ix oid rest body else ret tt)) s.
  Proof. reflexivity. Qed.

  Lemma forin_object_fold : forall n local ix oid keys body,
    FO n local ix oid keys body =m=
    forin_fold (obj_setup local ix oid) (fun k => EB k body) n keys.
  Proof.
    induction n as [|n IH]; intros local ix oid keys body s; [reflexivity|].
    destruct keys as [|k rest]; [reflexivity|].
    rewrite forin_obj_unfold, forin_fold_cons.
    unfold obj_setup, set_index, bind, get_heap.
    destruct ix as [a|]; cbn [m_store upd_heap ret hp];
      match goal with |- context [EB n body ?s1] =>
        destruct (EB n body s1) as [[[|]|e|y| | |] s2]; try reflexivity end;
      apply IH.
  Qed.

  Lemma forin_str_unfold : forall n local ix i c rest body s,
    FS (S n) local ix ((i, c) :: rest) body s =
    ((match ix with Some a => m_store a (num_of_nat i) | None => ret tt end) ;;;
     m_store local (VStr c) ;;;
     bind (EB n body) (fun go => if go then FS n local ix rest body else ret tt)) s.
  Proof. reflexivity. Qed.

  Lemma forin_string_fold : forall n local ix rs body,
    FS n local ix rs body =m=
    forin_fold (str_setup local ix) (fun k => EB k body) n rs.
  Proof.
    induction n as [|n IH]; intros local ix rs body s; [reflexivity|].
    destruct rs as [|[i c] rest]; [reflexivity|].
    rewrite forin_str_unfold, forin_fold_cons.
    unfold str_setup, set_index, bind. cbn [fst snd].
    destruct ix as [a|]; cbn [m_store upd_heap ret hp];
      match goal with |- context [EB n body ?s1] =>
        destruct (EB n body s1) as [[[|]|e|y| | |] s2]; try reflexivity end;
      apply IH.
  Qed.

  (* the bindings always succeed: they are plain stores *)
  Lemma set_index_ok : forall ix v s, exists s', set_index ix v s = (Ok tt, s').
  Proof. intros [a|] v s; eexists; reflexivity. Qed.

  Lemma arr_setup_ok : forall local ix bid off i s,
    exists s', arr_setup local ix bid off i s = (Ok tt, s').
  Proof.
    intros local ix bid off i s. unfold arr_setup, set_index, bind, get_heap.
    destruct ix as [a|]; destruct (nth_error (get_back (hp s) bid) (off + i)) as [c|];
      eexists; reflexivity.
  Qed.

  Lemma obj_setup_ok : forall local ix oid k s,
    exists s', obj_setup local ix oid k s = (Ok tt, s').
  Proof.
    intros local ix oid k s. unfold obj_setup, set_index, bind, get_heap.
    destruct ix as [a|]; eexists; reflexivity.
  Qed.

  Lemma str_setup_ok : forall local ix oc s,
    exists s', str_setup local ix oc s = (Ok tt, s').
  Proof.
    intros local ix oc s. unfold str_setup, set_index, bind.
    destruct ix as [a|]; eexists; reflexivity.
  Qed.

  (* what the array binding does to the state: the index variable receives i, then the
     loop variable receives the value the i-th cell holds at that moment *)
  Lemma arr_setup_effect : forall local ix bid off i s,
    arr_setup local ix bid off i s =
    (let h1 := match ix with Some a => store (hp s) a (num_of_nat i) | None => hp s end in
     let item := match nth_error (get_back (hp s) bid) (off + i) with
                 | Some c => load h1 c | None => VNil None end in
     (Ok tt, mkSt (store h1 local item) (frames s) (rule_root s) (root s) (retval s) (io s))).
  Proof.
    intros local ix bid off i s. unfold arr_setup, set_index, bind, get_heap.
    destruct ix as [a|]; destruct (nth_error (get_back (hp s) bid) (off + i)) as [c|];
      try reflexivity; destruct s; reflexivity.
  Qed.

  Lemma obj_setup_effect : forall local ix oid k s,
    obj_setup local ix oid k s =
    (let v := match assoc_get k (get_obj (hp s) oid) with
              | Some c => load (hp s) c | None => VNil None end in
     let h1 := match ix with Some a => store (hp s) a v | None => hp s end in
     (Ok tt, mkSt (store h1 local (VStr k)) (frames s) (rule_root s) (root s) (retval s) (io s))).
  Proof.
    intros local ix oid k s. unfold obj_setup, set_index, bind, get_heap.
    destruct ix as [a|]; try reflexivity; destruct s; reflexivity.
  Qed.

  Lemma str_setup_effect : forall local ix i c s,
    str_setup local ix (i, c) s =
    (let h1 := match ix with Some a => store (hp s) a (num_of_nat i) | None => hp s end in
     (Ok tt, mkSt (store h1 local (VStr c)) (frames s) (rule_root s) (root s) (retval s) (io s))).
  Proof.
    intros local ix i c s. unfold str_setup, set_index, bind.
    destruct ix as [a|]; try reflexivity; destruct s; reflexivity.
  Qed.

  Lemma forin_unfold : forall n id ix iter body s,
    ES (S n) (SForIn id ix iter body) s =
    bind (tok_string src id) (fun name =>
    bind (get_variable name) (fun lo =>
      match lo with
      | None => rt_error src id
      | Some local =>
        bind (match ix with
              | None => ret None
              | Some t =>
                bind (tok_string src t) (fun iname =>
                bind (get_variable iname) (fun r =>
                  match r with
                  | Some a => ret (Some a)
                  | None => rt_error src id
                  end))
              end) (fun ixlocal =>
        bind (EE n iter) (fun ic =>
        bind (m_load ic) (fun iv =>
          match iv with
          | VArr bid off len => FA n local ixlocal bid off len 0 body
          | VObj oid =>
            bind get_heap (fun h => FO n local ixlocal oid (map fst (get_obj h oid)) body)
          | VStr str => FS n local ixlocal (runes str) body
          | _ => rt_error src (expr_token iter)
          end)))
      end)) s.
  Proof. reflexivity. Qed.

  Lemma forin_stmt : forall n id ix iter body,
    ES (S n) (SForIn id ix iter body) =m= forin_spec src funcs fuzzing n id ix iter body.
  Proof.
    intros n id ix iter body s. rewrite forin_unfold.
    unfold forin_spec, forin_header, resolve_var.
    rewrite !bind_assoc. apply bind_ext. intros name s0 _.
    rewrite !bind_assoc. apply bind_ext. intros lo s1 _.
    destruct lo as [local|]; [|rewrite bind_rt_error; reflexivity].
    rewrite bind_ret_l, !bind_assoc.
    transitivity (bind (resolve_index src ix id) (fun ixlocal =>
        bind (EE n iter) (fun ic =>
        bind (m_load ic) (fun iv =>
          match iv with
          | VArr bid off len => FA n local ixlocal bid off len 0 body
          | VObj oid =>
            bind get_heap (fun h => FO n local ixlocal oid (map fst (get_obj h oid)) body)
          | VStr str => FS n local ixlocal (runes str) body
          | _ => rt_error src (expr_token iter)
          end))) s1).
    { unfold resolve_index, resolve_var. destruct ix as [t|]; [|reflexivity].
      rewrite !bind_assoc. apply bind_ext. intros iname s2 _.
      rewrite !bind_assoc. apply bind_ext. intros r s3 _.
      destruct r as [a|]; [|rewrite !bind_rt_error; reflexivity].
      rewrite !bind_ret_l. reflexivity. }
    apply bind_ext. intros ixlocal s2 _.
    rewrite !bind_assoc. apply bind_ext. intros ic s3 _.
    rewrite !bind_assoc. apply bind_ext. intros iv s4 _.
    destruct iv as [str|b|f|bid off len|oid|sp|nf bd|idx|rg|];
      try (rewrite bind_rt_error; reflexivity).
    - rewrite bind_ret_l, forin_string_fold, forin_fold_map. reflexivity.
    - rewrite bind_ret_l, forin_array_fold, forin_fold_map, Nat.sub_0_r. reflexivity.
    - rewrite !bind_assoc. apply bind_ext. intros h s5 _.
      rewrite bind_ret_l, forin_object_fold, forin_fold_map. reflexivity.
  Qed.

  (* the head of the statement, step by step *)
  Lemma forin_header_steps : forall n id ix iter st local st1 ixlocal st2 ic st3,
    resolve_var src id id st = (Ok local, st1) ->
    resolve_index src ix id st1 = (Ok ixlocal, st2) ->
    EE n iter st2 = (Ok ic, st3) ->
    forin_header src funcs fuzzing n id ix iter st =
    match load (hp st3) ic with
    | VArr bid off len => (Ok (map (arr_setup local ixlocal bid off) (seq 0 len)), st3)
    | VObj oid => (Ok (map (obj_setup local ixlocal oid) (map fst (get_obj (hp st3) oid))), st3)
    | VStr str => (Ok (map (str_setup local ixlocal) (runes str)), st3)
    | _ => rt_error src (expr_token iter) st3
    end.
  Proof.
    intros n id ix iter st local st1 ixlocal st2 ic st3 H1 H2 H3.
    unfold forin_header. rewrite (bind_ok _ _ _ _ _ H1), (bind_ok _ _ _ _ _ H2), (bind_ok _ _ _ _ _ H3).
    unfold bind, m_load, get_heap, ret.
    destruct (load (hp st3) ic); reflexivity.
  Qed.

  (* the variables are resolved BEFORE the iterable is evaluated: when the loop variable
     cannot be resolved the statement ends there *)
  Lemma forin_var_failure_first : forall n id ix iter body st r st1,
    resolve_var src id id st = (r, st1) -> (forall a, r <> Ok a) ->
    ES (S n) (SForIn id ix iter body) st = (cast_res r, st1).
  Proof.
    intros n id ix iter body st r st1 H Hr. rewrite forin_stmt.
    unfold forin_spec, forin_header. rewrite !bind_assoc. apply bind_not_ok; assumption.
  Qed.

  Lemma forin_index_failure_second : forall n id ix iter body st local st1 r st2,
    resolve_var src id id st = (Ok local, st1) ->
    resolve_index src ix id st1 = (r, st2) -> (forall a, r <> Ok a) ->
    ES (S n) (SForIn id ix iter body) st = (cast_res r, st2).
  Proof.
    intros n id ix iter body st local st1 r st2 H1 H2 Hr. rewrite forin_stmt.
    unfold forin_spec, forin_header. rewrite !bind_assoc. rewrite (bind_ok _ _ _ _ _ H1).
    rewrite !bind_assoc. apply bind_not_ok; assumption.
  Qed.

  Lemma forin_iterable_failure_third : forall n id ix iter body st local st1 ixlocal st2 r st3,
    resolve_var src id id st = (Ok local, st1) ->
    resolve_index src ix id st1 = (Ok ixlocal, st2) ->
    EE n iter st2 = (r, st3) -> (forall a, r <> Ok a) ->
    ES (S n) (SForIn id ix iter body) st = (cast_res r, st3).
  Proof.
    intros n id ix iter body st local st1 ixlocal st2 r st3 H1 H2 H3 Hr. rewrite forin_stmt.
    unfold forin_spec, forin_header. rewrite !bind_assoc.
    rewrite (bind_ok _ _ _ _ _ H1), !bind_assoc, (bind_ok _ _ _ _ _ H2), !bind_assoc.
    apply bind_not_ok; assumption.
  Qed.

  Definition iterable (v : value) : bool :=
    match v with VArr _ _ _ | VObj _ | VStr _ => true | _ => false end.

  Lemma forin_not_iterable : forall n id ix iter body st local st1 ixlocal st2 ic st3,
    resolve_var src id id st = (Ok local, st1) ->
    resolve_index src ix id st1 = (Ok ixlocal, st2) ->
    EE n iter st2 = (Ok ic, st3) ->
    iterable (load (hp st3) ic) = false ->
    ES (S n) (SForIn id ix iter body) st = rt_error src (expr_token iter) st3.
  Proof.
    intros n id ix iter body st local st1 ixlocal st2 ic st3 H1 H2 H3 Hv. rewrite forin_stmt.
    unfold forin_spec. unfold bind at 1. rewrite (forin_header_steps _ _ _ _ _ _ _ _ _ _ _ H1 H2 H3).
    destruct (load (hp st3) ic); try discriminate Hv;
      unfold rt_error; destruct (get_line_col src (tpos (expr_token iter))) as [[tx ln] cl]; reflexivity.
  Qed.

  (* a runtime error: kind, position of the token, IoRaise ghost event *)
  Lemma rt_error_outcome : forall A t s,
    @rt_error src A t s =
    (let '(text, line, col) := get_line_col src (tpos t) in
     (Err (mkErr ERuntime line col text),
      mkSt (hp s) (frames s) (rule_root s) (root s) (retval s) (IoRaise :: io s))).
  Proof.
    intros A t s. unfold rt_error. destruct (get_line_col src (tpos t)) as [[tx ln] cl]. reflexivity.
  Qed.

  Lemma forin_over_array : forall n id ix iter body st local st1 ixlocal st2 ic st3 bid off len,
    resolve_var src id id st = (Ok local, st1) ->
    resolve_index src ix id st1 = (Ok ixlocal, st2) ->
    EE n iter st2 = (Ok ic, st3) ->
    load (hp st3) ic = VArr bid off len ->
    ES (S n) (SForIn id ix iter body) st =
    forin_fold (arr_setup local ixlocal bid off) (fun k => EB k body) n (seq 0 len) st3.
  Proof.
    intros n id ix iter body st local st1 ixlocal st2 ic st3 bid off len H1 H2 H3 Hv.
    rewrite forin_stmt. unfold forin_spec. unfold bind at 1.
    rewrite (forin_header_steps _ _ _ _ _ _ _ _ _ _ _ H1 H2 H3), Hv. apply forin_fold_map.
  Qed.

  Lemma forin_over_object : forall n id ix iter body st local st1 ixlocal st2 ic st3 oid,
    resolve_var src id id st = (Ok local, st1) ->
    resolve_index src ix id st1 = (Ok ixlocal, st2) ->
    EE n iter st2 = (Ok ic, st3) ->
    load (hp st3) ic = VObj oid ->
    ES (S n) (SForIn id ix iter body) st =
    forin_fold (obj_setup local ixlocal oid) (fun k => EB k body) n
               (map fst (get_obj (hp st3) oid)) st3.
  Proof.
    intros n id ix iter body st local st1 ixlocal st2 ic st3 oid H1 H2 H3 Hv.
    rewrite forin_stmt. unfold forin_spec. unfold bind at 1.
    rewrite (forin_header_steps _ _ _ _ _ _ _ _ _ _ _ H1 H2 H3), Hv. apply forin_fold_map.
  Qed.

  Lemma forin_over_string : forall n id ix iter body st local st1 ixlocal st2 ic st3 str,
    resolve_var src id id st = (Ok local, st1) ->
    resolve_index src ix id st1 = (Ok ixlocal, st2) ->
    EE n iter st2 = (Ok ic, st3) ->
    load (hp st3) ic = VStr str ->
    ES (S n) (SForIn id ix iter body) st =
    forin_fold (str_setup local ixlocal) (fun k => EB k body) n (runes str) st3.
  Proof.
    intros n id ix iter body st local st1 ixlocal st2 ic st3 str H1 H2 H3 Hv.
    rewrite forin_stmt. unfold forin_spec. unfold bind at 1.
    rewrite (forin_header_steps _ _ _ _ _ _ _ _ _ _ _ H1 H2 H3), Hv. apply forin_fold_map.
  Qed.

  (* on a heap whose objects are sorted the keys are visited in ascending byte order *)
  Lemma forin_object_keys_ascending : forall n id ix iter body st local st1 ixlocal st2 ic st3 oid,
    resolve_var src id id st = (Ok local, st1) ->
    resolve_index src ix id st1 = (Ok ixlocal, st2) ->
    EE n iter st2 = (Ok ic, st3) ->
    load (hp st3) ic = VObj oid ->
    heap_objs_sorted (hp st3) ->
    exists keys, keys_ascending keys /\
      ES (S n) (SForIn id ix iter body) st =
      forin_fold (obj_setup local ixlocal oid) (fun k => EB k body) n keys st3.
  Proof.
    intros n id ix iter body st local st1 ixlocal st2 ic st3 oid H1 H2 H3 Hv Hs.
    exists (map fst (get_obj (hp st3) oid)). split; [apply Hs|].
    eapply forin_over_object; eassumption.
  Qed.

  (* every element exactly once, in order *)
  Lemma forin_once_in_order : forall n id ix iter body st bindings st1,
    forin_header src funcs fuzzing n id ix iter st = (Ok bindings, st1) ->
    exists vis why,
      loop_run (fun b : M unit => b) (fun k => EB k body) n bindings st1 vis why
               (ES (S n) (SForIn id ix iter body) st) /\
      (exists rest, bindings = vis ++ rest) /\
      (why = Completed -> vis = bindings /\ fst (ES (S n) (SForIn id ix iter body) st) = Ok tt).
  Proof.
    intros n id ix iter body st bindings st1 H.
    rewrite forin_stmt. unfold forin_spec. rewrite (bind_ok _ _ _ _ _ H).
    destruct (loop_run_total (fun b : M unit => b) (fun k => EB k body) n bindings st1)
      as (vis & why & Hrun).
    exists vis, why. split; [exact Hrun|]. split.
    - eapply loop_run_prefix. exact Hrun.
    - intro Hw. eapply loop_run_completed; eassumption.
  Qed.

  Lemma forin_array_once_in_order : forall n local ix bid off len body s,
    exists vis why,
      loop_run (arr_setup local ix bid off) (fun k => EB k body) n (seq 0 len) s vis why
               (FA n local ix bid off len 0 body s) /\
      (exists m, m <= len /\ vis = seq 0 m) /\
      (why = Completed -> vis = seq 0 len /\ length vis = len).
  Proof.
    intros n local ix bid off len body s.
    destruct (loop_run_total (arr_setup local ix bid off) (fun k => EB k body) n (seq 0 len) s)
      as (vis & why & Hrun).
    exists vis, why. rewrite forin_array_fold, Nat.sub_0_r. split; [exact Hrun|]. split.
    - destruct (loop_run_prefix _ _ _ _ _ _ _ _ Hrun) as [rest Hrest].
      exists (length vis). 
      assert (Hlen : length (seq 0 len) = length vis + length rest)
        by (rewrite Hrest, app_length; reflexivity).
      rewrite seq_length in Hlen. split; [lia|].
      replace len with (length vis + length rest) in Hrest by lia.
      rewrite seq_app in Hrest. 
      apply (f_equal (firstn (length vis))) in Hrest.
      rewrite !firstn_app in Hrest. rewrite seq_length, Nat.sub_diag in Hrest. 
      rewrite !firstn_O, !app_nil_r in Hrest.
      rewrite firstn_all2 in Hrest by (rewrite seq_length; lia).
      rewrite firstn_all in Hrest. symmetry. exact Hrest.
    - intro Hw. destruct (loop_run_completed _ _ _ _ _ _ _ _ Hrun Hw) as [-> _].
      split; [reflexivity | apply seq_length].
  Qed.

  (* one iteration of a for-in loop, by the outcome of the body *)
  Lemma forin_body_break : forall {A} (setup : A -> M unit) n x rest body s s1 s2,
    setup x s = (Ok tt, s1) ->
    ES n body s1 = (Sig SigBreak, s2) ->
    forin_fold setup (fun k => EB k body) (S (S n)) (x :: rest) s = (Ok tt, s2).
  Proof.
    intros A setup n x rest body s s1 s2 Hs Hb. rewrite forin_fold_cons.
    rewrite (bind_ok _ _ _ _ _ Hs). rewrite (bind_ok _ _ _ _ _ (eval_body_break _ _ _ _ Hb)).
    reflexivity.
  Qed.

  Lemma forin_body_goes_on : forall {A} (setup : A -> M unit) n x rest body s s1 r s2,
    setup x s = (Ok tt, s1) ->
    ES n body s1 = (r, s2) -> r = Ok tt \/ r = Sig SigContinue ->
    forin_fold setup (fun k => EB k body) (S (S n)) (x :: rest) s =
    forin_fold setup (fun k => EB k body) (S n) rest s2.
  Proof.
    intros A setup n x rest body s s1 r s2 Hs Hb Hr. rewrite forin_fold_cons.
    rewrite (bind_ok _ _ _ _ _ Hs). rewrite (bind_ok _ _ _ _ _ (eval_body_goes_on _ _ _ _ _ Hb Hr)).
    reflexivity.
  Qed.

  Lemma forin_body_escapes : forall {A} (setup : A -> M unit) n x rest body s s1 r s2,
    setup x s = (Ok tt, s1) ->
    ES n body s1 = (r, s2) -> escapes r ->
    forin_fold setup (fun k => EB k body) (S (S n)) (x :: rest) s = (r, s2).
  Proof.
    intros A setup n x rest body s s1 r s2 Hs Hb Hr. rewrite forin_fold_cons.
    rewrite (bind_ok _ _ _ _ _ Hs).
    rewrite (bind_not_ok _ _ _ _ _ (eval_body_escapes _ _ _ _ _ Hb Hr)).
    - destruct r as [[]|e|[]| | |]; simpl in Hr; try contradiction; reflexivity.
    - intros a. destruct r; simpl; discriminate.
  Qed.

  (* ---------------------------------------------------------------- break / continue stay inside *)

  Definition is_bc (x : signal) : Prop := x = SigBreak \/ x = SigContinue.

  Lemma rt_error_not_sig : forall A t s x s', @rt_error src A t s <> (Sig x, s').
  Proof.
    intros A t s x s'. unfold rt_error. destruct (get_line_col src (tpos t)) as [[tx ln] cl].
    discriminate.
  Qed.

  Lemma truth_of_sig : forall (m : M addr) s x s',
    truth_of m s = (Sig x, s') -> m s = (Sig x, s').
  Proof.
    intros m s x s' H. unfold truth_of, bind, m_load, ret in H.
    destruct (m s) as [[c|e|y| | |] s1]; try discriminate. inversion H; subst. reflexivity.
  Qed.

  Lemma while_sig_origin : forall n c body k s x s',
    EW n c body k s = (Sig x, s') -> is_bc x ->
    exists m s0, EE m c s0 = (Sig x, s').
  Proof.
    induction n as [|n IH]; intros c body k s x s' H Hx.
    - rewrite while_zero in H. discriminate.
    - rewrite while_unroll in H. unfold bind in H.
      destruct (truth_of (EE n c) s) as [[[|]|e|y| | |] s1] eqn:Hc; try discriminate.
      + destruct (EB n body s1) as [[[|]|e|y| | |] s2] eqn:Hb; try discriminate.
        * destruct (loop_limit_hit fuzzing k).
          -- exfalso. eapply rt_error_not_sig. exact H.
          -- eapply IH; eassumption.
        * inversion H; subst. destruct (eval_body_absorbs _ _ _ _ _ Hb) as [H1 H2].
          destruct Hx; contradiction.
      + inversion H; subst. exists n, s. apply truth_of_sig. exact Hc.
  Qed.

  Lemma for_sig_origin : forall n c post body k s x s',
    EF n c post body k s = (Sig x, s') -> is_bc x ->
    exists e m s0, (e = c \/ e = post) /\ EE m e s0 = (Sig x, s').
  Proof.
    induction n as [|n IH]; intros c post body k s x s' H Hx.
    - rewrite for_zero in H. discriminate.
    - rewrite for_unroll in H. unfold bind in H.
      destruct (truth_of (EE n c) s) as [[[|]|e|y| | |] s1] eqn:Hc; try discriminate.
      + destruct (EB n body s1) as [[[|]|e|y| | |] s2] eqn:Hb; try discriminate.
        * destruct (EE n post s2) as [[pc|e|y| | |] s3] eqn:Hp; try discriminate.
          -- destruct (loop_limit_hit fuzzing k).
             ++ exfalso. eapply rt_error_not_sig. exact H.
             ++ eapply IH; eassumption.
          -- inversion H; subst. exists post, n, s2. split; [right; reflexivity | exact Hp].
        * inversion H; subst. destruct (eval_body_absorbs _ _ _ _ _ Hb) as [H1 H2].
          destruct Hx; contradiction.
      + inversion H; subst. exists c, n, s. split; [left; reflexivity|].
        apply truth_of_sig. exact Hc.
  Qed.

  Lemma set_local_not_sig : forall name a s x s', set_local name a s <> (Sig x, s').
  Proof. intros name a s x s'. unfold set_local. destruct (frames s); discriminate. Qed.

  Lemma get_variable_not_sig : forall name s x s', get_variable name s <> (Sig x, s').
  Proof.
    intros name s x s'. unfold get_variable.
    destruct (lookup_frames (frames s) name); [discriminate|].
    assert (Hnew : bind (m_alloc VUnknown)
                     (fun a => bind (set_local name a) (fun _ => ret (Some a))) s <> (Sig x, s')).
    { unfold bind at 1. unfold m_alloc, with_heap. cbn [alloc].
      unfold bind.
      match goal with |- context [set_local name ?a ?s1] =>
        pose proof (set_local_not_sig name a s1 x s') as Hs;
        destruct (set_local name a s1) as [[[]|e|y| | |] s2] end; try discriminate.
      intro Heq. apply Hs. inversion Heq; subst. reflexivity. }
    repeat match goal with
           | |- context [match ?v with _ => _ end] =>
             match type of v with
             | bytes => destruct v
             | list N => destruct v
             | N => destruct v
             | positive => destruct v
             end
           end; try discriminate; exact Hnew.
  Qed.

  Lemma tok_string_not_sig : forall t s x s', tok_string src t s <> (Sig x, s').
  Proof. intros t s x s'. unfold tok_string. destruct (get_string src t); discriminate. Qed.

  Lemma resolve_var_not_sig : forall t e s x s', resolve_var src t e s <> (Sig x, s').
  Proof.
    intros t e s x s' H. unfold resolve_var, bind in H.
    pose proof (tok_string_not_sig t s x s') as H1.
    destruct (tok_string src t s) as [[name|er|y| | |] s1]; try discriminate.
    - pose proof (get_variable_not_sig name s1 x s') as H2.
      destruct (get_variable name s1) as [[[a|]|er|y| | |] s2]; try discriminate.
      + eapply rt_error_not_sig. exact H.
      + apply H2. inversion H; subst. reflexivity.
    - apply H1. inversion H; subst. reflexivity.
  Qed.

  Lemma resolve_index_not_sig : forall ix e s x s', resolve_index src ix e s <> (Sig x, s').
  Proof.
    intros [t|] e s x s' H; [|discriminate]. unfold resolve_index, bind in H.
    pose proof (resolve_var_not_sig t e s x s') as H1.
    destruct (resolve_var src t e s) as [[a|er|y| | |] s1]; try discriminate.
    apply H1. inversion H; subst. reflexivity.
  Qed.

  (* the three for-in loops never hand on a break or continue *)
  Lemma forin_fold_absorbs : forall {A} (setup : A -> M unit) body n items s x s',
    (forall y s0, exists s1, setup y s0 = (Ok tt, s1)) ->
    forin_fold setup (fun k => EB k body) n items s = (Sig x, s') -> ~ is_bc x.
  Proof.
    intros A setup body n items s x s' Hset H Hx.
    destruct (forin_fold_sig_origin _ _ _ _ _ _ _ H) as [(y & s0 & Hy) | (k & s0 & Hk)].
    - destruct (Hset y s0) as [s1 Hs1]. congruence.
    - destruct (eval_body_absorbs _ _ _ _ _ Hk) as [H1 H2]. destruct Hx; contradiction.
  Qed.

  Lemma forin_sig_origin : forall n id ix iter body s x s',
    ES (S n) (SForIn id ix iter body) s = (Sig x, s') -> is_bc x ->
    exists s0, EE n iter s0 = (Sig x, s').
  Proof.
    intros n id ix iter body s x s' H Hx.
    destruct (resolve_var src id id s) as [r1 s1] eqn:H1.
    destruct r1 as [local|e|y| | |];
      try (rewrite (forin_var_failure_first _ _ _ _ _ _ _ _ H1) in H by discriminate;
           discriminate H).
    2:{ exfalso. eapply resolve_var_not_sig. exact H1. }
    destruct (resolve_index src ix id s1) as [r2 s2] eqn:H2.
    destruct r2 as [ixlocal|e|y| | |];
      try (rewrite (forin_index_failure_second _ _ _ _ _ _ _ _ _ _ H1 H2) in H by discriminate;
           discriminate H).
    2:{ exfalso. eapply resolve_index_not_sig. exact H2. }
    destruct (EE n iter s2) as [r3 s3] eqn:H3.
    destruct r3 as [ic|e|y| | |];
      try (rewrite (forin_iterable_failure_third _ _ _ _ _ _ _ _ _ _ _ _ H1 H2 H3) in H by discriminate;
           discriminate H).
    2:{ rewrite (forin_iterable_failure_third _ _ _ _ _ _ _ _ _ _ _ _ H1 H2 H3) in H by discriminate.
        cbn in H. inversion H; subst. exists s2. exact H3. }
    destruct (load (hp s3) ic) as [str|b|f|bid off len|oid|sp|nf bd|idx|rg|] eqn:Hv;
      try (rewrite (forin_not_iterable _ _ _ _ _ _ _ _ _ _ _ _ H1 H2 H3) in H by (rewrite Hv; reflexivity);
           exfalso; eapply rt_error_not_sig; exact H).
    - rewrite (forin_over_string _ _ _ _ _ _ _ _ _ _ _ _ _ H1 H2 H3 Hv) in H.
      exfalso. eapply forin_fold_absorbs; [| exact H | exact Hx].
      intros y s0. apply str_setup_ok.
    - rewrite (forin_over_array _ _ _ _ _ _ _ _ _ _ _ _ _ _ _ H1 H2 H3 Hv) in H.
      exfalso. eapply forin_fold_absorbs; [| exact H | exact Hx].
      intros y s0. apply arr_setup_ok.
    - rewrite (forin_over_object _ _ _ _ _ _ _ _ _ _ _ _ _ H1 H2 H3 Hv) in H.
      exfalso. eapply forin_fold_absorbs; [| exact H | exact Hx].
      intros y s0. apply obj_setup_ok.
  Qed.

  Lemma stmt_zero : forall s st, ES 0 s st = (Fuel, st).
  Proof. reflexivity. Qed.

  (* a loop statement hands on a break / continue signal only if one of its header
     expressions (never its body) produced it *)
  Theorem loop_absorbs_break_continue : forall n s st x st',
    is_loop s -> ES n s st = (Sig x, st') -> is_bc x ->
    exists e m s0, In e (loop_headers s) /\ EE m e s0 = (Sig x, st').
  Proof.
    intros [|n] s st x st' Hl H Hx; [rewrite stmt_zero in H; discriminate|].
    destruct s; try contradiction.
    - rewrite while_stmt in H. destruct (while_sig_origin _ _ _ _ _ _ _ H Hx) as (m & s0 & Hm).
      exists c, m, s0. split; [left; reflexivity | exact Hm].
    - rewrite for_desugar in H. unfold bind in H.
      destruct (EE n pre st) as [[pc|e|y| | |] s1] eqn:Hp; try discriminate.
      + destruct (for_sig_origin _ _ _ _ _ _ _ _ H Hx) as (e & m & s0 & He & Hm).
        exists e, m, s0. split; [|exact Hm]. cbn. destruct He; subst; tauto.
      + inversion H; subst. exists pre, n, st. split; [left; reflexivity | exact Hp].
    - destruct (forin_sig_origin _ _ _ _ _ _ _ _ H Hx) as (s0 & Hm).
      exists iter, n, s0. split; [left; reflexivity | exact Hm].
  Qed.

  (* in particular: with header expressions that do not themselves signal break/continue,
     whatever the body does, the loop statement never ends in break or continue *)
  Corollary loop_never_breaks_out : forall n s st x st',
    is_loop s ->
    (forall e m s0 y s1, In e (loop_headers s) -> EE m e s0 = (Sig y, s1) -> ~ is_bc y) ->
    ES n s st = (Sig x, st') -> ~ is_bc x.
  Proof.
    intros n s st x st' Hl Hq H Hx.
    destruct (loop_absorbs_break_continue _ _ _ _ _ Hl H Hx) as (e & m & s0 & Hin & Hm).
    exact (Hq _ _ _ _ _ Hin Hm Hx).
  Qed.

  (* ---------------------------------------------------------------- propagation through nesting *)

  Lemma escapes_not_ok : forall r, escapes r -> r <> Ok tt.
  Proof. intros r H ->. exact H. Qed.

  Lemma cast_unit : forall r : res unit, escapes r -> @cast_res unit unit r = r.
  Proof. intros [[]|e|x| | |] H; try reflexivity. contradiction. Qed.

  Lemma body_goes_on_eq : forall n body s s1,
    body_goes_on src funcs fuzzing n body s s1 -> EB n body s = (Ok true, s1).
  Proof. intros n body s s1 H. exact H. Qed.

  Scheme escape_path_mut := Minimality for escape_path Sort Prop
    with body_path_mut := Minimality for body_path Sort Prop
    with while_path_mut := Minimality for while_path Sort Prop
    with for_path_mut := Minimality for for_path Sort Prop
    with fold_path_mut := Minimality for fold_path Sort Prop.
  Combined Scheme paths_mutind from
    escape_path_mut, body_path_mut, while_path_mut, for_path_mut, fold_path_mut.

  Lemma paths_sound : forall r, escapes r ->
    (forall n s st r0 st', escape_path src funcs fuzzing n s st r0 st' ->
       r0 = r -> ES n s st = (r, st')) /\
    (forall n body st r0 st', body_path src funcs fuzzing n body st r0 st' ->
       r0 = r -> EB n body st = (cast_res r, st')) /\
    (forall n c body k st r0 st', while_path src funcs fuzzing n c body k st r0 st' ->
       r0 = r -> EW n c body k st = (r, st')) /\
    (forall n c post body k st r0 st', for_path src funcs fuzzing n c post body k st r0 st' ->
       r0 = r -> EF n c post body k st = (r, st')) /\
    (forall body n bindings st r0 st', fold_path src funcs fuzzing body n bindings st r0 st' ->
       r0 = r ->
       forin_fold (fun b : M unit => b) (fun k => EB k body) n bindings st = (r, st')).
  Proof.
    intros r Hr. apply paths_mutind.
    - (* EP_here *) intros n s st r0 st' H ->. exact H.
    - (* EP_block_here *) intros n t x rest st r0 st' _ IH ->.
      apply block_stops; [apply IH; reflexivity | apply escapes_not_ok; exact Hr].
    - (* EP_block_later *) intros n t x rest st st1 r0 st' Hx _ IH ->.
      rewrite (block_goes_on _ _ _ _ _ _ Hx). apply IH. reflexivity.
    - (* EP_if_then *) intros n c body els st st1 r0 st' Hc _ IH ->.
      rewrite (if_true _ _ _ _ _ _ Hc). apply IH. reflexivity.
    - (* EP_if_else *) intros n c body e st st1 r0 st' Hc _ IH ->.
      rewrite (if_false_else _ _ _ _ _ _ Hc). apply IH. reflexivity.
    - (* EP_while *) intros n c body st r0 st' _ IH ->. rewrite while_stmt. apply IH. reflexivity.
    - (* EP_for *) intros n pre c post body st pc st1 r0 st' Hp _ IH ->.
      rewrite for_desugar. rewrite (bind_ok _ _ _ _ _ Hp). apply IH. reflexivity.
    - (* EP_forin *) intros n id ix iter body st bindings st1 r0 st' Hh _ IH ->.
      rewrite forin_stmt. unfold forin_spec. rewrite (bind_ok _ _ _ _ _ Hh). apply IH. reflexivity.
    - (* BP *) intros n body st r0 st' _ IH ->.
      apply eval_body_escapes; [apply IH; reflexivity | exact Hr].
    - (* WP_here *) intros n c body k st st1 r0 st' Hc _ IH ->.
      rewrite while_unroll. unfold bind at 1. rewrite Hc.
      rewrite (bind_not_ok _ _ _ _ _ (IH eq_refl)).
      + destruct r as [[]|e|[]| | |]; simpl in Hr; try contradiction; reflexivity.
      + intros a. destruct r; simpl; discriminate.
    - (* WP_later *) intros n c body k st st1 st2 r0 st' Hc Hb Hl _ IH ->.
      rewrite while_unroll. unfold bind at 1. rewrite Hc.
      rewrite (bind_ok _ _ _ _ _ Hb). rewrite Hl. apply IH. reflexivity.
    - (* FP_here *) intros n c post body k st st1 r0 st' Hc _ IH ->.
      rewrite for_unroll. unfold bind at 1. rewrite Hc.
      rewrite (bind_not_ok _ _ _ _ _ (IH eq_refl)).
      + destruct r as [[]|e|[]| | |]; simpl in Hr; try contradiction; reflexivity.
      + intros a. destruct r; simpl; discriminate.
    - (* FP_later *) intros n c post body k st st1 st2 pc st3 r0 st' Hc Hb Hp Hl _ IH ->.
      rewrite for_unroll. unfold bind at 1. rewrite Hc.
      rewrite (bind_ok _ _ _ _ _ Hb). rewrite (bind_ok _ _ _ _ _ Hp). rewrite Hl.
      apply IH. reflexivity.
    - (* DP_here *) intros body n b rest st st1 r0 st' Hb _ IH ->.
      rewrite forin_fold_cons. rewrite (bind_ok _ _ _ _ _ Hb).
      rewrite (bind_not_ok _ _ _ _ _ (IH eq_refl)).
      + destruct r as [[]|e|[]| | |]; simpl in Hr; try contradiction; reflexivity.
      + intros a. destruct r; simpl; discriminate.
    - (* DP_later *) intros body n b rest st st1 st2 r0 st' Hb Hg _ IH ->.
      rewrite forin_fold_cons. rewrite (bind_ok _ _ _ _ _ Hb).
      rewrite (bind_ok _ _ _ _ _ Hg). apply IH. reflexivity.
  Qed.

  (* whatever leaves a statement nested in blocks, conditionals and loops -- a return, next
     or exit signal, an error -- leaves the whole nest unchanged *)
  Theorem escape_leaves_nesting : forall n s st r st',
    escapes r -> escape_path src funcs fuzzing n s st r st' -> ES n s st = (r, st').
  Proof.
    intros n s st r st' Hr H. destruct (paths_sound r Hr) as [H1 _]. eapply H1; [exact H | reflexivity].
  Qed.

  (* ---------------------------------------------------------------- function calls *)

  Lemma call_unfold : forall n tok fc args s,
    call_function src funcs fuzzing (S n) tok fc args s =
    bind (m_load fc) (fun fv =>
      match fv with
      | VNative nat_fn binding =>
        bind (native_call nat_fn args binding) (fun r =>
          match r with
          | NError => rt_error src tok
          | NVal v => m_alloc v
          | NNil => nil_cell
          end)
      | VFn idx =>
        match nth_error funcs idx with
        | None => fail Panic
        | Some fn =>
          bind (tok_string src (fident fn)) (fun name =>
          bind (push_frame name) (fun ok =>
            if negb ok then rt_error src tok
            else
              (fix bindp (ps : list bytes) (avs : list value) : M unit :=
                 match ps with
                 | [] => ret tt
                 | p :: ps' =>
                   match avs with
                   | [] => (let* c := nil_cell in set_local p c) ;;; bindp ps' []
                   | v :: avs' => (let* c := m_alloc v in set_local p c) ;;; bindp ps' avs'
                   end
                 end) (fparams fn) args ;;;
              bind (catch (ES n (fbody fn))) (fun r =>
              pop_frame ;;;
              match r with
              | Ok _ => nil_cell
              | Sig SigReturn =>
                bind get_st (fun s =>
                  match retval s with
                  | Some rc => bind (m_load rc) (fun v => m_alloc v)
                  | None => nil_cell
                  end)
              | other => reraise other
              end)))
        end
      | _ => rt_error src tok
      end) s.
  Proof. reflexivity. Qed.

  Lemma bindp_eq : forall ps avs,
    (fix bindp (ps : list bytes) (avs : list value) : M unit :=
       match ps with
       | [] => ret tt
       | p :: ps' =>
         match avs with
         | [] => (let* c := nil_cell in set_local p c) ;;; bindp ps' []
         | v :: avs' => (let* c := m_alloc v in set_local p c) ;;; bindp ps' avs'
         end
       end) ps avs = bind_params ps avs.
  Proof. induction ps as [|p ps IH]; intros avs; [reflexivity|]. destruct avs; reflexivity. Qed.

  Lemma call_user_eq : forall n tok fc args s idx fn,
    load (hp s) fc = VFn idx -> nth_error funcs idx = Some fn ->
    call_function src funcs fuzzing (S n) tok fc args s =
    call_user_spec src funcs fuzzing n tok fn args s.
  Proof.
    intros n tok fc args s idx fn Hv Hf. rewrite call_unfold.
    unfold bind at 1. unfold m_load at 1. rewrite Hv, Hf. rewrite bindp_eq.
    unfold call_user_spec, enter_call. rewrite !bind_assoc.
    apply bind_ext. intros name s1 _. rewrite !bind_assoc. apply bind_ext. intros ok s2 _.
    destruct ok; cbn [negb].
    - rewrite !bind_assoc. apply bind_ext. intros [] s3 _. rewrite bind_ret_l.
      apply bind_ext. intros r s4 _. apply bind_ext. intros [] s5 _.
      destruct r as [[]|e|[]| | |]; reflexivity.
    - rewrite bind_ret_l. reflexivity.
  Qed.

  Lemma bind_params_not_sig : forall ps avs s x s', bind_params ps avs s <> (Sig x, s').
  Proof.
    induction ps as [|p ps IH]; intros avs s x s'; [discriminate|].
    destruct avs as [|v avs]; cbn [bind_params]; unfold bind, nil_cell, m_alloc, with_heap; cbn [alloc];
      match goal with |- context [set_local p ?a ?s1] =>
        pose proof (set_local_not_sig p a s1 x s') as Hs;
        destruct (set_local p a s1) as [[[]|e|y| | |] s2] end; try discriminate;
      try apply IH; intro Heq; apply Hs; inversion Heq; subst; reflexivity.
  Qed.

  Lemma enter_call_not_sig : forall fn args s x s', enter_call src fn args s <> (Sig x, s').
  Proof.
    intros fn args s x s' H. unfold enter_call, bind in H.
    pose proof (tok_string_not_sig (fident fn) s x s') as H1.
    destruct (tok_string src (fident fn) s) as [[name|e|y| | |] s1]; try discriminate.
    - unfold push_frame in H.
      destruct (Z.ltb call_depth_limit (Z.of_nat (length (frames s1)))); [discriminate|].
      match type of H with context [bind_params ?ps ?avs ?s2] =>
        pose proof (bind_params_not_sig ps avs s2 x s') as H2;
        destruct (bind_params ps avs s2) as [[[]|e|y| | |] s3] end; try discriminate.
      apply H2. inversion H; subst. reflexivity.
    - apply H1. inversion H; subst. reflexivity.
  Qed.

  Lemma pop_frame_not_sig : forall s x s', pop_frame s <> (Sig x, s').
  Proof. intros s x s'. unfold pop_frame. destruct (frames s) as [|f [|g r]]; discriminate. Qed.

  Lemma return_value_ok : forall s,
    return_value s =
    (Ok (next (hp s)),
     mkSt (snd (alloc (hp s) (match retval s with
                               | Some rc => load (hp s) rc | None => VNil None end)))
          (frames s) (rule_root s) (root s) (retval s) (io s)).
  Proof.
    intro s. destruct s as [h fr rr rt rv i].
    unfold return_value, bind, get_st, nil_cell, m_load, m_alloc, with_heap. cbn [retval hp alloc].
    destruct rv; reflexivity.
  Qed.

  (* a call of a user function never ends in the return signal: `return` leaves only
     the current function *)
  Theorem call_never_returns_signal : forall n tok fn args s s',
    call_user_spec src funcs fuzzing n tok fn args s <> (Sig SigReturn, s').
  Proof.
    intros n tok fn args s s' H. unfold call_user_spec in H. unfold bind at 1 in H.
    pose proof (enter_call_not_sig fn args s SigReturn s') as H1.
    destruct (enter_call src fn args s) as [[[|]|e|y| | |] s1]; try discriminate.
    - unfold bind at 1 in H. unfold catch in H.
      destruct (ES n (fbody fn) s1) as [r s2].
      unfold bind at 1 in H.
      pose proof (pop_frame_not_sig s2 SigReturn s') as H2.
      destruct (pop_frame s2) as [[[]|e|y| | |] s3]; try discriminate.
      + destruct r as [[]|e|[]| | |]; try discriminate.
        rewrite return_value_ok in H. discriminate.
      + apply H2. inversion H; subst. reflexivity.
    - eapply rt_error_not_sig. exact H.
    - apply H1. inversion H; subst. reflexivity.
  Qed.

  (* ... it yields the value of the executed `return` in a fresh cell, or null *)
  Theorem call_absorbs_return : forall n tok fc args s idx fn s1 s2 s3,
    load (hp s) fc = VFn idx -> nth_error funcs idx = Some fn ->
    enter_call src fn args s = (Ok true, s1) ->
    ES n (fbody fn) s1 = (Sig SigReturn, s2) ->
    pop_frame s2 = (Ok tt, s3) ->
    call_function src funcs fuzzing (S n) tok fc args s =
    (Ok (next (hp s3)),
     mkSt (snd (alloc (hp s3) (match retval s3 with
                                | Some rc => load (hp s3) rc | None => VNil None end)))
          (frames s3) (rule_root s3) (root s3) (retval s3) (io s3)).
  Proof.
    intros n tok fc args s idx fn s1 s2 s3 Hv Hf He Hb Hp.
    rewrite (call_user_eq _ _ _ _ _ _ _ Hv Hf). unfold call_user_spec.
    rewrite (bind_ok _ _ _ _ _ He). unfold bind at 1. unfold catch. rewrite Hb.
    rewrite (bind_ok _ _ _ _ _ Hp). apply return_value_ok.
  Qed.

  Theorem call_falls_off_end : forall n tok fc args s idx fn s1 s2 s3,
    load (hp s) fc = VFn idx -> nth_error funcs idx = Some fn ->
    enter_call src fn args s = (Ok true, s1) ->
    ES n (fbody fn) s1 = (Ok tt, s2) ->
    pop_frame s2 = (Ok tt, s3) ->
    call_function src funcs fuzzing (S n) tok fc args s = nil_cell s3.
  Proof.
    intros n tok fc args s idx fn s1 s2 s3 Hv Hf He Hb Hp.
    rewrite (call_user_eq _ _ _ _ _ _ _ Hv Hf). unfold call_user_spec.
    rewrite (bind_ok _ _ _ _ _ He). unfold bind at 1. unfold catch. rewrite Hb.
    rewrite (bind_ok _ _ _ _ _ Hp). reflexivity.
  Qed.

  (* a `return` executed anywhere inside nested loops and conditionals of the function
     body ends the call, and only the call *)
  Theorem return_leaves_loops : forall n tok fc args s idx fn s1 s2 s3,
    load (hp s) fc = VFn idx -> nth_error funcs idx = Some fn ->
    enter_call src fn args s = (Ok true, s1) ->
    escape_path src funcs fuzzing n (fbody fn) s1 (Sig SigReturn) s2 ->
    pop_frame s2 = (Ok tt, s3) ->
    call_function src funcs fuzzing (S n) tok fc args s =
    (Ok (next (hp s3)),
     mkSt (snd (alloc (hp s3) (match retval s3 with
                                | Some rc => load (hp s3) rc | None => VNil None end)))
          (frames s3) (rule_root s3) (root s3) (retval s3) (io s3)).
  Proof.
    intros n tok fc args s idx fn s1 s2 s3 Hv Hf He Hpath Hp.
    eapply call_absorbs_return; try eassumption.
    apply escape_leaves_nesting; [exact I | exact Hpath].
  Qed.

  (* the statements themselves *)
  (* break / continue / next note their token (ghost event: e.signalToken) and signal *)
  Lemma break_stmt : forall n t s,
    ES (S n) (SBreak t) s = (Sig SigBreak, snd (note_signal t s)).
  Proof. reflexivity. Qed.
  Lemma continue_stmt : forall n t s,
    ES (S n) (SContinue t) s = (Sig SigContinue, snd (note_signal t s)).
  Proof. reflexivity. Qed.
  Lemma next_stmt : forall n t s,
    ES (S n) (SNext t) s = (Sig SigNext, snd (note_signal t s)).
  Proof. reflexivity. Qed.
  Lemma exit_stmt : forall n t s, ES (S n) (SExit t) s = (Sig SigExit, s).
  Proof. reflexivity. Qed.
  Lemma return_stmt_none : forall n s,
    ES (S n) (SReturn None) s =
    (Sig SigReturn, mkSt (hp s) (frames s) (rule_root s) (root s) None (io s)).
  Proof. reflexivity. Qed.
  Lemma return_stmt_some : forall n e s c s1,
    EE n e s = (Ok c, s1) ->
    ES (S n) (SReturn (Some e)) s =
    (Sig SigReturn, mkSt (hp s1) (frames s1) (rule_root s1) (root s1) (Some c) (io s1)).
  Proof.
    intros n e s c s1 H.
    change (ES (S n) (SReturn (Some e)) s) with
      (bind (EE n e) (fun c => set_retval (Some c) ;;; @fail unit (Sig SigReturn)) s).
    rewrite (bind_ok _ _ _ _ _ H). reflexivity.
  Qed.
End Laws.

(* ================================================================== parser side *)

Lemma parse_statement_unfold : forall n p,
  parse_statement (S n) p =
  (
    set_end false ;;
    do cur <- pcurtok;
    do st <- pget;
    match ttag cur with
    | TPrint =>
      consume [TPrint] ;;
      do start <- pprevtok;
      do args <- parse_print_args n [];
      do e <- at_statement_end;
      (if e then set_end true else pret tt) ;;
      pret (SPrint start args)
    | TReturn =>
      if pinfn st then
        consume [TReturn] ;;
        do e <- at_statement_end;
        if e then set_end true ;; pret (SReturn None)
        else do x <- parse_expr_prec n (prec_index PrecAssign); pret (SReturn (Some x))
      else perr_cur
    | TIf =>
      consume [TIf] ;;
      consume [TLParen] ;;
      do c <- parse_expr_prec n (prec_index PrecAssign);
      consume [TRParen] ;;
      do body <- parse_statement n;
      do t2 <- pcurtag;
      if tag_eqb t2 TElse then
        consume [TElse] ;;
        do els <- parse_statement n;
        pret (SIf c body (Some els))
      else pret (SIf c body None)
    | TWhile =>
      consume [TWhile] ;;
      consume [TLParen] ;;
      do c <- parse_expr_prec n (prec_index PrecAssign);
      consume [TRParen] ;;
      do body <- parse_loop_body n;
      pret (SWhile c body)
    | TFor =>
      consume [TFor] ;;
      consume [TLParen] ;;
      do pre <- parse_expr_prec n (prec_index PrecAssign);
      do t2 <- pcurtag;
      match is_eid pre with
      | Some id =>
        if (tag_eqb t2 TIn || tag_eqb t2 TComma)%bool then
          do ix <-
            (if tag_eqb t2 TComma then
               consume_ignored TComma ;;
               consume [TIdent] ;;
               do t <- pprevtok; pret (Some t)
             else pret None);
          consume_ignored TIn ;;
          do it <- parse_expr_prec n (prec_index PrecAssign);
          consume [TRParen] ;;
          do body <- parse_loop_body n;
          pret (SForIn id ix it body)
        else parse_for_rest n pre
      | None => parse_for_rest n pre
      end
    | TLCurly => parse_block n
    | TBreak =>
      if pinloop st then consume_ignored TBreak ;; do t <- pprevtok; pret (SBreak t)
      else perr_cur
    | TContinue =>
      if pinloop st then consume_ignored TContinue ;; do t <- pprevtok; pret (SContinue t)
      else perr_cur
    | TNext => consume_ignored TNext ;; do t <- pprevtok; pret (SNext t)
    | TExit => consume_ignored TExit ;; do t <- pprevtok; pret (SExit t)
    | _ => do e <- parse_expr_prec n (prec_index PrecAssign); pret (SExpr e)
    end
  ) p.
Proof. reflexivity. Qed.

Lemma parse_loop_body_unfold : forall n p,
  parse_loop_body (S n) p =
  (do st <- pget;
   set_inloop true ;;
   do body <- parse_statement n;
   set_inloop (pinloop st) ;;
   pret body) p.
Proof. reflexivity. Qed.

Lemma parse_for_rest_unfold : forall n pre p,
  parse_for_rest (S n) pre p =
  (consume [TSemiColon] ;;
   do c <- parse_expr_prec n (prec_index PrecAssign);
   consume [TSemiColon] ;;
   do post <- parse_expr_prec n (prec_index PrecAssign);
   consume [TRParen] ;;
   do body <- parse_loop_body n;
   pret (SFor pre c post body)) p.
Proof. reflexivity. Qed.

Lemma parse_block_unfold : forall n p,
  parse_block (S n) p =
  (consume [TLCurly] ;;
   do start <- pprevtok;
   do body <- parse_block_items n [];
   consume [TRCurly] ;;
   set_end true ;;
   pret (SBlock start body)) p.
Proof. reflexivity. Qed.

Lemma pbind_ok : forall {A B} (m : P A) (k : A -> P B) p b p',
  pbind m k p = POk b p' -> exists a p1, m p = POk a p1 /\ k a p1 = POk b p'.
Proof.
  intros A B m k p b p' H. unfold pbind in H.
  destruct (m p) as [a p1| | |]; try discriminate. exists a, p1. split; [reflexivity | exact H].
Qed.

Ltac pinv H :=
  let a := fresh "a" in let p1 := fresh "q" in let H1 := fresh "Hq" in
  cbv beta in H; apply pbind_ok in H; destruct H as (a & p1 & H1 & H).

Lemma pret_ok : forall {A} (a b : A) p p', pret a p = POk b p' -> a = b /\ p = p'.
Proof. intros A a b p p' H. inversion H. split; reflexivity. Qed.

Lemma pcurtag_ok : forall p t p', pcurtag p = POk t p' -> t = ttag (pcur p) /\ p' = p.
Proof. intros p t p' H. inversion H. split; reflexivity. Qed.

Lemma set_inloop_cur : forall b p u p', set_inloop b p = POk u p' -> pcur p' = pcur p.
Proof. intros b p u p' H. inversion H. reflexivity. Qed.

Definition no_else_after (s : stmt) (p' : pstate) : Prop :=
  ends_in_open_if s = true -> ttag (pcur p') <> TElse.

(* statements whose shape cannot end in an open if *)
Ltac closed_shape H :=
  repeat first
    [ match type of H with
      | pret _ _ = POk _ _ => fail 1
      | (if ?c then _ else _) _ = POk _ _ => destruct c
      | perr_cur _ = POk _ _ => discriminate H
      | _ => pinv H
      end ];
  match type of H with
  | pret _ _ = POk _ _ =>
    let Ho := fresh "Ho" in apply pret_ok in H; destruct H as [<- <-]; intro Ho; discriminate Ho
  end.

Lemma parse_block_shape : forall n p s p',
  parse_block n p = POk s p' -> ends_in_open_if s = false.
Proof.
  intros [|n] p s p' H; [discriminate|]. rewrite parse_block_unfold in H.
  repeat pinv H. apply pret_ok in H. destruct H as [<- _]. reflexivity.
Qed.

Lemma open_if_not_before_else : forall n,
  (forall p s p', parse_statement n p = POk s p' -> no_else_after s p') /\
  (forall p s p', parse_loop_body n p = POk s p' -> no_else_after s p') /\
  (forall pre p s p', parse_for_rest n pre p = POk s p' -> no_else_after s p').
Proof.
  induction n as [|n [IHs [IHb IHf]]].
  - repeat split; intros; discriminate.
  - split; [|split].
    + intros p s p' H. rewrite parse_statement_unfold in H.
      pinv H. pinv H. pinv H.
      destruct (ttag a0) eqn:Htag; try solve [closed_shape H].
      * (* if *)
        pinv H. pinv H. pinv H. pinv H. pinv H. pinv H.
        match goal with Hx : pcurtag _ = POk _ _ |- _ =>
          apply pcurtag_ok in Hx; destruct Hx as [-> ->] end.
        match type of H with (if ?c then _ else _) _ = _ => destruct c eqn:He end.
        -- pinv H. pinv H. apply pret_ok in H. destruct H as [<- <-].
           intro Ho. cbn [ends_in_open_if] in Ho.
           match goal with Hx : parse_statement n _ = POk ?e _, Hy : ends_in_open_if ?e = true |- _ =>
             exact (IHs _ _ _ Hx Hy) end.
        -- apply pret_ok in H. destruct H as [<- <-]. intros _ Hc.
           rewrite Hc in He. discriminate He.
      * (* for *)
        pinv H. pinv H. pinv H. pinv H.
        match type of H with (match ?c with Some _ => _ | None => _ end) _ = _ =>
          destruct c as [id|] end.
        -- match type of H with (if ?c then _ else _) _ = _ => destruct c end.
           ++ pinv H. pinv H. pinv H. pinv H. pinv H.
              apply pret_ok in H. destruct H as [<- <-].
              intro Ho. cbn [ends_in_open_if] in Ho.
              match goal with Hx : parse_loop_body n _ = POk ?e _ |- _ =>
                exact (IHb _ _ _ Hx Ho) end.
           ++ exact (IHf _ _ _ _ H).
        -- exact (IHf _ _ _ _ H).
      * (* while *)
        pinv H. pinv H. pinv H. pinv H. pinv H.
        apply pret_ok in H. destruct H as [<- <-].
        intro Ho. cbn [ends_in_open_if] in Ho.
        match goal with Hx : parse_loop_body n _ = POk ?e _ |- _ =>
          exact (IHb _ _ _ Hx Ho) end.
      * (* block *)
        intro Ho. rewrite (parse_block_shape _ _ _ _ H) in Ho. discriminate Ho.
    + intros p s p' H. rewrite parse_loop_body_unfold in H.
      pinv H. pinv H. pinv H. pinv H. apply pret_ok in H. destruct H as [<- <-].
      intro Ho.
      match goal with Hx : set_inloop _ _ = POk _ ?q |- ttag (pcur ?q) <> _ =>
        rewrite (set_inloop_cur _ _ _ _ Hx) end.
      match goal with Hx : parse_statement n _ = POk ?e _ |- _ =>
        exact (IHs _ _ _ Hx Ho) end.
    + intros pre p s p' H. rewrite parse_for_rest_unfold in H.
      pinv H. pinv H. pinv H. pinv H. pinv H. pinv H. apply pret_ok in H. destruct H as [<- <-].
      intro Ho. cbn [ends_in_open_if] in Ho.
      match goal with Hx : parse_loop_body n _ = POk ?e _ |- _ =>
        exact (IHb _ _ _ Hx Ho) end.
Qed.

Definition is_if (s : stmt) : bool := match s with SIf _ _ _ => true | _ => false end.

Ltac other_shape H :=
  repeat first
    [ match type of H with
      | pret _ _ = POk _ _ => fail 1
      | (if ?c then _ else _) _ = POk _ _ => destruct c
      | perr_cur _ = POk _ _ => discriminate H
      | _ => pinv H
      end ];
  match type of H with
  | pret _ _ = POk _ _ =>
    let Hs := fresh "Hs" in apply pret_ok in H; destruct H as [Hs _]; discriminate Hs
  end.

Lemma parse_block_is_block : forall n p s p',
  parse_block n p = POk s p' -> exists t body, s = SBlock t body.
Proof.
  intros [|n] p s p' H; [discriminate|]. rewrite parse_block_unfold in H.
  repeat pinv H. apply pret_ok in H. destruct H as [<- _]. eexists _, _. reflexivity.
Qed.

Lemma parse_for_rest_is_for : forall n pre p s p',
  parse_for_rest n pre p = POk s p' ->
  ttag (pcur p) = TSemiColon /\ exists c post body, s = SFor pre c post body.
Proof.
  intros [|n] pre p s p' H; [discriminate|]. rewrite parse_for_rest_unfold in H.
  pinv H. split.
  - unfold consume in Hq. destruct (tag_in (ttag (pcur p)) [TSemiColon]) eqn:Hin; [|discriminate].
    cbn [tag_in] in Hin. rewrite orb_false_r in Hin. apply tag_eqb_eq in Hin. symmetry. exact Hin.
  - repeat pinv H. apply pret_ok in H. destruct H as [<- _]. eexists _, _, _. reflexivity.
Qed.

Lemma parse_for_rest_needs_semicolon : forall n pre p,
  ttag (pcur p) <> TSemiColon -> parse_for_rest (S n) pre p = PErr (tpos (pcur p)).
Proof.
  intros n pre p Hne. rewrite parse_for_rest_unfold. unfold pbind at 1. unfold consume.
  destruct (tag_in (ttag (pcur p)) [TSemiColon]) eqn:Hin; [|reflexivity].
  cbn [tag_in] in Hin. rewrite orb_false_r in Hin. apply tag_eqb_eq in Hin.
  exfalso. apply Hne. symmetry. exact Hin.
Qed.

(* an else is never attached to an if whose then-branch ends in an if without else:
   the inner if has already taken it *)
Theorem dangling_else : forall n p c body e p',
  parse_statement n p = POk (SIf c body (Some e)) p' -> ends_in_open_if body = false.
Proof.
  intros [|n] p c body e p' H; [discriminate|].
  rewrite parse_statement_unfold in H. pinv H. pinv H. pinv H.
  destruct (ttag a0) eqn:Htag; try solve [other_shape H].
  - (* if *)
    pinv H. pinv H. pinv H. pinv H. pinv H. pinv H.
    match goal with Hx : pcurtag _ = POk _ _ |- _ =>
      apply pcurtag_ok in Hx; destruct Hx as [-> ->] end.
    match type of H with (if ?c then _ else _) _ = _ => destruct c eqn:He end.
    + pinv H. pinv H. apply pret_ok in H. destruct H as [Hs _]. inversion Hs; subst.
      destruct (ends_in_open_if body) eqn:Ho; [|reflexivity].
      exfalso. apply tag_eqb_eq in He.
      match goal with Hx : parse_statement n _ = POk body _ |- _ =>
        exact (proj1 (open_if_not_before_else n) _ _ _ Hx Ho He) end.
    + apply pret_ok in H. destruct H as [Hs _]. discriminate Hs.
  - (* for *)
    pinv H. pinv H. pinv H. pinv H.
    match type of H with (match ?c with Some _ => _ | None => _ end) _ = _ =>
      destruct c as [id|] end.
    + match type of H with (if ?c then _ else _) _ = _ => destruct c end.
      * other_shape H.
      * destruct (parse_for_rest_is_for _ _ _ _ _ H) as (_ & c0 & post & b0 & Hs). discriminate Hs.
    + destruct (parse_for_rest_is_for _ _ _ _ _ H) as (_ & c0 & post & b0 & Hs). discriminate Hs.
  - (* block *)
    destruct (parse_block_is_block _ _ _ _ H) as (t & b0 & Hs). discriminate Hs.
Qed.

(* for vs for-in *)
Theorem for_forin_disambiguation : forall n p pre p3,
  ttag (pcur p) = TFor ->
  for_head (S n) p = POk pre p3 ->
  (forin_head pre (ttag (pcur p3)) = true ->
     forall s p', parse_statement (S (S n)) p = POk s p' ->
       exists id ix it body, pre = EId id /\ s = SForIn id ix it body) /\
  (forin_head pre (ttag (pcur p3)) = false ->
     (ttag (pcur p3) <> TSemiColon -> parse_statement (S (S n)) p = PErr (tpos (pcur p3))) /\
     (forall s p', parse_statement (S (S n)) p = POk s p' ->
        ttag (pcur p3) = TSemiColon /\ exists c post body, s = SFor pre c post body)).
Proof.
  intros n p pre p3 Htag Hhead.
  assert (Heq : parse_statement (S (S n)) p =
    (match is_eid pre with
     | Some id =>
       if (tag_eqb (ttag (pcur p3)) TIn || tag_eqb (ttag (pcur p3)) TComma)%bool then
         do ix <-
           (if tag_eqb (ttag (pcur p3)) TComma then
              consume_ignored TComma ;;
              consume [TIdent] ;;
              do t <- pprevtok; pret (Some t)
            else pret None);
         consume_ignored TIn ;;
         do it <- parse_expr_prec (S n) (prec_index PrecAssign);
         consume [TRParen] ;;
         do body <- parse_loop_body (S n);
         pret (SForIn id ix it body)
       else parse_for_rest (S n) pre
     | None => parse_for_rest (S n) pre
     end) p3).
  { rewrite parse_statement_unfold. unfold for_head in Hhead.
    unfold pbind at 1. unfold pbind at 1 in Hhead.
    destruct (set_end false p) as [u0 p0| | |] eqn:H0; try discriminate Hhead.
    assert (Hcur : pcur p0 = pcur p) by (inversion H0; reflexivity).
    unfold pbind at 1. unfold pcurtok at 1. unfold pbind at 1. unfold pget at 1.
    rewrite Hcur, Htag.
    unfold pbind at 1. unfold pbind at 1 in Hhead.
    destruct (consume [TFor] p0) as [u1 p1| | |]; try discriminate Hhead.
    unfold pbind at 1. unfold pbind at 1 in Hhead.
    destruct (consume [TLParen] p1) as [u2 p2| | |]; try discriminate Hhead.
    unfold pbind at 1. rewrite Hhead. unfold pbind at 1. unfold pcurtag at 1. reflexivity. }
  split.
  - intros Hf s p' H. rewrite Heq in H. unfold forin_head in Hf.
    destruct pre; try discriminate Hf. cbn [is_eid] in *. rewrite Hf in H.
    repeat pinv H. apply pret_ok in H. destruct H as [<- _]. eexists _, _, _, _. split; reflexivity.
  - intros Hf. 
    assert (Hrest : parse_statement (S (S n)) p = parse_for_rest (S n) pre p3).
    { rewrite Heq. unfold forin_head in Hf. destruct (is_eid pre); [rewrite Hf|]; reflexivity. }
    split.
    + intro Hne. rewrite Hrest. apply parse_for_rest_needs_semicolon. exact Hne.
    + intros s p' H. rewrite Hrest in H. eapply parse_for_rest_is_for. exact H.
Qed.

(* ------------------------------------------------------------------ no misattached else, anywhere *)

Lemma parse_block_items_unfold : forall n acc p,
  parse_block_items (S n) acc p =
  (do t <- pcurtag;
   if (tag_eqb t TEOF || tag_eqb t TRCurly)%bool then pret (rev acc)
   else
     do s <- parse_statement n;
     do e <- at_statement_end;
     if e then parse_block_items n (s :: acc) else perr_cur) p.
Proof. reflexivity. Qed.

Lemma existsb_rev' : forall {A} (f : A -> bool) l, existsb f (rev l) = existsb f l.
Proof.
  intros A f. induction l as [|x l IH]; [reflexivity|].
  cbn [rev existsb]. rewrite existsb_app, IH. cbn [existsb]. rewrite orb_false_r. apply orb_comm.
Qed.

Ltac mis_shape H :=
  repeat first
    [ match type of H with
      | pret _ _ = POk _ _ => fail 1
      | (if ?c then _ else _) _ = POk _ _ => destruct c
      | perr_cur _ = POk _ _ => discriminate H
      | _ => pinv H
      end ];
  match type of H with
  | pret _ _ = POk _ _ => apply pret_ok in H; destruct H as [<- _]; reflexivity
  end.

Lemma parser_never_misattaches : forall n,
  (forall p s p', parse_statement n p = POk s p' -> misattached_else s = false) /\
  (forall p s p', parse_loop_body n p = POk s p' -> misattached_else s = false) /\
  (forall pre p s p', parse_for_rest n pre p = POk s p' -> misattached_else s = false) /\
  (forall p s p', parse_block n p = POk s p' -> misattached_else s = false) /\
  (forall acc p l p', existsb misattached_else acc = false ->
     parse_block_items n acc p = POk l p' -> existsb misattached_else l = false).
Proof.
  induction n as [|n (IHs & IHb & IHf & IHk & IHi)].
  - repeat split; intros; discriminate.
  - split; [|split; [|split; [|split]]].
    + intros p s p' H. rewrite parse_statement_unfold in H.
      pinv H. pinv H. pinv H.
      destruct (ttag a0) eqn:Htag; try solve [mis_shape H].
      * (* if *)
        pinv H. pinv H. pinv H. pinv H. pinv H. pinv H.
        match goal with Hx : pcurtag _ = POk _ _ |- _ =>
          apply pcurtag_ok in Hx; destruct Hx as [-> ->] end.
        match type of H with (if ?c then _ else _) _ = _ => destruct c eqn:He end.
        -- pinv H. pinv H. apply pret_ok in H. destruct H as [<- _].
           cbn [misattached_else].
           match goal with
           | Hb : parse_statement n _ = POk ?b ?q, Hel : parse_statement n _ = POk ?e _
             |- (ends_in_open_if ?b || _ || misattached_else ?e)%bool = false =>
             rewrite (IHs _ _ _ Hb), (IHs _ _ _ Hel);
             destruct (ends_in_open_if b) eqn:Ho; [|reflexivity];
             exfalso; apply tag_eqb_eq in He;
             exact (proj1 (open_if_not_before_else n) _ _ _ Hb Ho He)
           end.
        -- apply pret_ok in H. destruct H as [<- _]. cbn [misattached_else].
           match goal with Hb : parse_statement n _ = POk ?b _ |- misattached_else ?b = false =>
             exact (IHs _ _ _ Hb) end.
      * (* for *)
        pinv H. pinv H. pinv H. pinv H.
        match type of H with (match ?c with Some _ => _ | None => _ end) _ = _ =>
          destruct c as [id|] end.
        -- match type of H with (if ?c then _ else _) _ = _ => destruct c end.
           ++ pinv H. pinv H. pinv H. pinv H. pinv H.
              apply pret_ok in H. destruct H as [<- _]. cbn [misattached_else].
              match goal with Hx : parse_loop_body n _ = POk ?e _ |- _ => exact (IHb _ _ _ Hx) end.
           ++ exact (IHf _ _ _ _ H).
        -- exact (IHf _ _ _ _ H).
      * (* while *)
        pinv H. pinv H. pinv H. pinv H. pinv H.
        apply pret_ok in H. destruct H as [<- _]. cbn [misattached_else].
        match goal with Hx : parse_loop_body n _ = POk ?e _ |- _ => exact (IHb _ _ _ Hx) end.
      * (* block *)
        exact (IHk _ _ _ H).
    + intros p s p' H. rewrite parse_loop_body_unfold in H.
      pinv H. pinv H. pinv H. pinv H. apply pret_ok in H. destruct H as [<- _].
      match goal with Hx : parse_statement n _ = POk ?e _ |- _ => exact (IHs _ _ _ Hx) end.
    + intros pre p s p' H. rewrite parse_for_rest_unfold in H.
      pinv H. pinv H. pinv H. pinv H. pinv H. pinv H. apply pret_ok in H. destruct H as [<- _].
      cbn [misattached_else].
      match goal with Hx : parse_loop_body n _ = POk ?e _ |- _ => exact (IHb _ _ _ Hx) end.
    + intros p s p' H. rewrite parse_block_unfold in H.
      pinv H. pinv H. pinv H. pinv H. pinv H. apply pret_ok in H. destruct H as [<- _].
      cbn [misattached_else].
      match goal with Hx : parse_block_items n [] _ = POk ?l _ |- _ =>
        exact (IHi [] _ _ _ eq_refl Hx) end.
    + intros acc p l p' Hacc H. rewrite parse_block_items_unfold in H.
      pinv H.
      match type of H with (if ?c then _ else _) _ = _ => destruct c end.
      * apply pret_ok in H. destruct H as [<- _]. rewrite existsb_rev'. exact Hacc.
      * pinv H. pinv H.
        match type of H with (if ?c then _ else _) _ = _ => destruct c end; [|discriminate H].
        eapply IHi; [|exact H]. cbn [existsb].
        match goal with Hx : parse_statement n _ = POk ?e _ |- _ => rewrite (IHs _ _ _ Hx) end.
        exact Hacc.
Qed.

Lemma parse_rule_ok : forall n p r p',
  parse_rule_ n p = POk r p' -> misattached_else (rbody r) = false.
Proof.
  intros n p r p' H. unfold parse_rule_ in H.
  pinv H. pinv H. destruct a0 as [kind pat]. pinv H.
  match type of H with (if ?c then _ else _) _ = _ => destruct c end.
  - pinv H. apply pret_ok in H. destruct H as [<- _]. cbn [rbody].
    match goal with Hx : parse_block n _ = POk ?e _ |- _ =>
      exact (proj1 (proj2 (proj2 (proj2 (parser_never_misattaches n)))) _ _ _ Hx) end.
  - apply pret_ok in H. destruct H as [<- _]. reflexivity.
Qed.

Lemma parse_function_ok : forall n p f p',
  parse_function n p = POk f p' -> misattached_else (fbody f) = false.
Proof.
  intros n p f p' H. unfold parse_function in H.
  repeat pinv H. apply pret_ok in H. destruct H as [<- _]. cbn [fbody].
  match goal with Hx : parse_block n _ = POk ?e _ |- _ =>
    exact (proj1 (proj2 (proj2 (proj2 (parser_never_misattaches n)))) _ _ _ Hx) end.
Qed.

Lemma forallb_rev' : forall {A} (f : A -> bool) l, forallb f (rev l) = forallb f l.
Proof.
  intros A f. induction l as [|x l IH]; [reflexivity|].
  cbn [rev forallb]. rewrite forallb_app, IH. cbn [forallb]. rewrite andb_true_r. apply andb_comm.
Qed.

Lemma parse_toplevel_ok : forall n rules fns p prog p',
  forallb (fun r => negb (misattached_else (rbody r))) rules = true ->
  forallb (fun f => negb (misattached_else (fbody f))) fns = true ->
  parse_toplevel n rules fns p = POk prog p' -> program_else_ok prog = true.
Proof.
  induction n as [|n IH]; intros rules fns p prog p' Hr Hf H; [discriminate|].
  change (parse_toplevel (S n) rules fns p) with
    ((do t <- pcurtag;
      if tag_eqb t TEOF then pret (mkProg (rev rules) (rev fns))
      else if tag_eqb t TFunction then
        do fn <- parse_function n; parse_toplevel n rules (fn :: fns)
      else
        do r <- parse_rule_ n; parse_toplevel n (r :: rules) fns) p) in H.
  pinv H.
  match type of H with (if ?c then _ else _) _ = _ => destruct c end.
  - apply pret_ok in H. destruct H as [<- _]. unfold program_else_ok. cbn [prules pfuncs].
    rewrite !forallb_rev', Hr, Hf. reflexivity.
  - match type of H with (if ?c then _ else _) _ = _ => destruct c end.
    + pinv H. eapply IH; [exact Hr | | exact H]. cbn [forallb].
      match goal with Hx : parse_function n _ = POk ?e _ |- _ =>
        rewrite (parse_function_ok _ _ _ _ Hx) end. exact Hf.
    + pinv H. eapply IH; [| exact Hf | exact H]. cbn [forallb].
      match goal with Hx : parse_rule_ n _ = POk ?e _ |- _ =>
        rewrite (parse_rule_ok _ _ _ _ Hx) end. exact Hr.
Qed.

(* for EVERY program text: no else of the parsed program is attached to an if whose
   then-branch ends in an if without else *)
Theorem program_else_binding : forall src prog p',
  parse_program src = POk prog p' -> program_else_ok prog = true.
Proof.
  intros src prog p' H. unfold parse_program, parse_program_fuel in H.
  pinv H. eapply parse_toplevel_ok; [| | exact H]; reflexivity.
Qed.
