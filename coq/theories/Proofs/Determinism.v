(* C10: a run is a function of (program text, selectors, input bytes); objects are canonical,
   so nothing observable can depend on the order in which members were inserted. *)
From Coq Require Import Lia Sorted.
From JQ Require Import Base.Bytes Num.F64 Syntax.Token Syntax.Lexer Syntax.Ast.
From JQ Require Import Json.JValue Json.Decode.
From JQ Require Import Gen.Generated Sem.Value Sem.Natives Sem.Eval Sem.Driver.
From JQ Require Import Proofs.AssocCanon.
Open Scope nat_scope.

(* what an observer of a run sees: stdout bytes, the -o JSON, success or the error *)
Definition observation (r : run_result) : bytes * json_out * outcome :=
  (output_of (io (r_state r)), get_root_json (r_state r), r_outcome r).

Lemma run_is_function_l n n' src src' files files' sels sels' fz fz' :
  n = n' -> src = src' -> files = files' -> sels = sels' -> fz = fz' ->
  eval_program n src files sels fz = eval_program n' src' files' sels' fz' /\
  observation (eval_program n src files sels fz)
  = observation (eval_program n' src' files' sels' fz').
Proof. intros -> -> -> -> ->. split; reflexivity. Qed.

(* the prototypes are closed lookup tables: method lookup consults no state at all *)
Lemma proto_lookup_pure_l :
  (forall h1 h2 f m, get_member h1 (VNum f) m = get_member h2 (VNum f) m) /\
  (forall h1 h2 s m, get_member h1 (VStr s) m = get_member h2 (VStr s) m) /\
  (forall h f m, get_member h (VNum f) m = proto_get num_proto m) /\
  (forall h s m, match m with VNum _ => False | _ => True end ->
                 get_member h (VStr s) m = proto_get str_proto m) /\
  (forall h bid off len m, match m with VNum _ => False | _ => True end ->
                           get_member h (VArr bid off len) m = proto_get array_proto m) /\
  (forall h oid m, match m with VNum _ | VStr _ => True | _ => False end ->
                   assoc_get (to_str m) (get_obj h oid) = None ->
                   get_member h (VObj oid) m = proto_get obj_proto m) /\
  (forall tbl m1 m2, match m1, m2 with
                     | VNum _, VNum _ | VNum _, VStr _ | VStr _, VNum _ | VStr _, VStr _ => True
                     | _, _ => False end ->
                     to_str m1 = to_str m2 -> proto_get tbl m1 = proto_get tbl m2).
Proof.
  repeat match goal with |- _ /\ _ => split end.
  - reflexivity.
  - reflexivity.
  - reflexivity.
  - intros h s m Hm. destruct m; try contradiction; reflexivity.
  - intros h bid off len m Hm. destruct m; try contradiction; reflexivity.
  - intros h oid m Hm Hg. destruct m; try contradiction; cbn [get_member]; now rewrite Hg.
  - intros tbl m1 m2 Hm He. destruct m1, m2; try contradiction; cbn [proto_get]; now rewrite He.
Qed.

(* ------------------------------------------------------------------ canonical heaps *)

Definition heap_canonical (h : heap) : Prop := forall o, keys_sorted (get_obj h o).

Lemma get_obj_set_obj h o l : get_obj (set_obj h o l) o = l.
Proof. unfold get_obj, set_obj. cbn. now rewrite PM.gss. Qed.

Lemma get_obj_set_obj_other h o o' l : o' <> o -> get_obj (set_obj h o l) o' = get_obj h o'.
Proof. intro H. unfold get_obj, set_obj. cbn. now rewrite PM.gso. Qed.

Lemma empty_heap_canonical : heap_canonical empty_heap.
Proof. intro o. unfold get_obj. cbn. rewrite PM.gempty. constructor. Qed.

(* Value.SetMember on an object, ExprObject, pluck: m[k] = cell *)
Lemma set_member_canonical h o k (c : addr) :
  heap_canonical h -> heap_canonical (set_obj h o (assoc_set k c (get_obj h o))).
Proof.
  intros H o'. destruct (Pos.eq_dec o' o) as [->|Hne].
  - rewrite get_obj_set_obj. apply assoc_set_sorted. apply H.
  - rewrite get_obj_set_obj_other by exact Hne. apply H.
Qed.

Lemma new_object_canonical h : heap_canonical h -> heap_canonical (snd (new_empty_object h)).
Proof.
  intros H o'. unfold new_empty_object, new_obj, get_obj. cbn.
  destruct (Pos.eq_dec o' (next h)) as [->|Hne].
  - rewrite PM.gss. constructor.
  - rewrite PM.gso by exact Hne. apply H.
Qed.

Lemma alloc_canonical h v : heap_canonical h -> heap_canonical (snd (alloc h v)).
Proof. intros H o. exact (H o). Qed.

Lemma store_canonical h a v : heap_canonical h -> heap_canonical (store h a v).
Proof. intros H o. exact (H o). Qed.

(* a sequence of member writes to one object *)
Definition write_all (o : positive) (hist : list (bytes * addr)) (h : heap) : heap :=
  fold_left (fun h kv => set_obj h o (assoc_set (fst kv) (snd kv) (get_obj h o))) hist h.

Lemma write_all_get_obj o hist h :
  get_obj (write_all o hist h) o = insert_all hist (get_obj h o).
Proof.
  revert h. induction hist as [|[k c] hist IH]; intro h; [reflexivity|].
  change (write_all o ((k, c) :: hist) h)
    with (write_all o hist (set_obj h o (assoc_set k c (get_obj h o)))).
  rewrite IH. now rewrite get_obj_set_obj.
Qed.

Lemma write_all_canonical o hist h : heap_canonical h -> heap_canonical (write_all o hist h).
Proof.
  revert h. induction hist as [|[k c] hist IH]; intros h H; [exact H|].
  change (write_all o ((k, c) :: hist) h)
    with (write_all o hist (set_obj h o (assoc_set k c (get_obj h o)))).
  apply IH. now apply set_member_canonical.
Qed.

(* two histories of writes that leave the same key -> cell map leave the same member list:
   what `for (k in obj)`, print and JSON output iterate is independent of insertion order *)
Lemma object_order_canonical_l o h1 h2 (h : heap) :
  keys_sorted (get_obj h o) ->
  (forall k, last_write k h1 = last_write k h2) ->
  get_obj (write_all o h1 h) o = get_obj (write_all o h2 h) o.
Proof. intros Hs He. rewrite !write_all_get_obj. now apply insert_all_canonical. Qed.

(* with the whole heap equal, everything computed from it is equal *)
Lemma object_iteration_canonical_l h o l1 l2 :
  keys_sorted l1 -> keys_sorted l2 ->
  (forall k, assoc_get k l1 = assoc_get k l2) ->
  set_obj h o l1 = set_obj h o l2 /\
  (forall v, pretty_string (set_obj h o l1) v = pretty_string (set_obj h o l2) v) /\
  (forall v, to_go_value (set_obj h o l1) v = to_go_value (set_obj h o l2) v) /\
  map fst (get_obj (set_obj h o l1) o) = map fst (get_obj (set_obj h o l2) o).
Proof.
  intros H1 H2 He. assert (l1 = l2) as -> by now apply keys_sorted_ext.
  repeat split.
Qed.

(* the keys are visited in strictly ascending byte order *)
Lemma keys_ascending (A : Type) (l : list (bytes * A)) :
  keys_sorted l -> StronglySorted (fun a b => bytes_cmp a b = Lt) (map fst l).
Proof.
  induction 1 as [|[k v] l Hs IH Hb]; cbn; constructor; [exact IH|].
  rewrite Forall_map. exact Hb.
Qed.
