(* C02: the model's driver is the abstract scheduler of Spec/Schedule.v instantiated with the
   real evaluator, and the laws of the awk schedule hold of the abstract scheduler for
   arbitrary executors. *)
From Coq Require Import Lia Permutation.
From JQ Require Import Base.Bytes Num.F64 Syntax.Token Syntax.Lexer Syntax.Ast Syntax.Parser.
From JQ Require Import Json.JValue Json.Decode.
From JQ Require Import Gen.Generated Sem.Value Sem.Natives Sem.Eval Sem.Driver.
From JQ Require Import Spec.Schedule.
Open Scope nat_scope.

(* ------------------------------------------------------------------ the monad, pointwise *)

Lemma bind_ok {A B} (m : M A) (k : A -> M B) s a s' :
  m s = (Ok a, s') -> bind m k s = k a s'.
Proof. intros H. unfold bind. now rewrite H. Qed.

Lemma bind_stop {A B} (m : M A) (k : A -> M B) s r s' :
  m s = (r, s') -> is_ok r = false -> bind m k s = (recast r, s').
Proof. intros H Hr. unfold bind. rewrite H. destruct r; try reflexivity; discriminate. Qed.

Lemma bind_cong {A B} (m m' : M A) (k k' : A -> M B) s :
  m s = m' s -> (forall a s', k a s' = k' a s') -> bind m k s = bind m' k' s.
Proof.
  intros Hm Hk. unfold bind. rewrite Hm.
  destruct (m' s) as [[a|e|x| | | ] s1]; auto.
Qed.

Lemma bind_ext {A B} (m : M A) (k k' : A -> M B) s :
  (forall a s', k a s' = k' a s') -> bind m k s = bind m k' s.
Proof. intros Hk. now apply bind_cong. Qed.

Lemma bind_assoc {A B C} (m : M A) (k : A -> M B) (k2 : B -> M C) s :
  bind (bind m k) k2 s = bind m (fun a => bind (k a) k2) s.
Proof. unfold bind. destruct (m s) as [[a|e|x| | | ] s1]; reflexivity. Qed.

Lemma bind_ret_l {A B} (a : A) (k : A -> M B) s : bind (ret a) k s = k a s.
Proof. reflexivity. Qed.

Lemma recast_not_ok {A B} (r : res A) : is_ok (@recast A B r) = false.
Proof. destruct r; reflexivity. Qed.

Lemma recast_recast {A B C} (r : res A) :
  is_ok r = false -> @recast B C (@recast A B r) = @recast A C r.
Proof. destruct r; try reflexivity; discriminate. Qed.

Lemma recast_same {A} (r : res A) : is_ok r = false -> @recast A A r = r.
Proof. destruct r; try reflexivity; discriminate. Qed.

Lemma reraise_run {A B} (r : res A) s : is_ok r = false -> @reraise A B r s = (recast r, s).
Proof. destruct r; try reflexivity; discriminate. Qed.

(* ------------------------------------------------------------------ for_each *)

Lemma for_each_app {A} (l1 l2 : list A) (f : A -> M unit) s :
  for_each (l1 ++ l2) f s = bind (for_each l1 f) (fun _ => for_each l2 f) s.
Proof.
  revert s. induction l1 as [|x l1 IH]; intros s; [reflexivity|].
  cbn [for_each app]. rewrite bind_assoc. apply bind_ext. intros _ s'. apply IH.
Qed.

Lemma for_each_ext {A} (l : list A) (f g : A -> M unit) :
  (forall x s, f x s = g x s) -> forall s, for_each l f s = for_each l g s.
Proof.
  intros H. induction l as [|x l IH]; intros s; [reflexivity|].
  cbn [for_each]. apply bind_cong; [apply H|]. intros _ s'. apply IH.
Qed.

(* the loop runs its steps left to right and stops at the first one that is not Ok *)
Lemma for_each_step_ok {A} (x : A) (l : list A) (f : A -> M unit) s s' :
  f x s = (Ok tt, s') -> for_each (x :: l) f s = for_each l f s'.
Proof. intros H. cbn [for_each]. now rewrite (bind_ok _ _ _ _ _ H). Qed.

Lemma for_each_step_stop {A} (x : A) (l : list A) (f : A -> M unit) s r s' :
  f x s = (r, s') -> is_ok r = false -> for_each (x :: l) f s = (r, s').
Proof.
  intros H Hr. cbn [for_each]. rewrite (bind_stop _ _ _ _ _ H Hr). now rewrite recast_same.
Qed.

Lemma for_each_stops {A} (pre post : list A) (x : A) (f : A -> M unit) s0 s r s' :
  for_each pre f s0 = (Ok tt, s) ->
  f x s = (r, s') -> is_ok r = false ->
  for_each (pre ++ x :: post) f s0 = (r, s').
Proof.
  intros Hpre Hx Hr. rewrite for_each_app. rewrite (bind_ok _ _ _ _ _ Hpre).
  eapply for_each_step_stop; eauto.
Qed.

Lemma for_each_reaches {A} (pre post : list A) (f : A -> M unit) s0 s :
  for_each pre f s0 = (Ok tt, s) ->
  for_each (pre ++ post) f s0 = for_each post f s.
Proof. intros Hpre. rewrite for_each_app. now rewrite (bind_ok _ _ _ _ _ Hpre). Qed.

(* ------------------------------------------------------------------ rules_of_kind *)

Lemma rules_of_kind_of_kind k rs : rules_of_kind k rs = of_kind k rs.
Proof. reflexivity. Qed.

Lemma kind_eqb_eq a b : kind_eqb a b = true <-> a = b.
Proof. destruct a, b; simpl; split; intro H; try reflexivity; discriminate. Qed.

Lemma of_kind_app k a b : of_kind k (a ++ b) = of_kind k a ++ of_kind k b.
Proof. unfold of_kind. apply filter_app. Qed.

Lemma of_kind_single k r : of_kind k [r] = if kind_eqb (rkind r) k then [r] else [].
Proof. unfold of_kind. simpl. destruct (kind_eqb (rkind r) k); reflexivity. Qed.

Lemma of_kind_In k rs r : In r (of_kind k rs) <-> In r rs /\ rkind r = k.
Proof. unfold of_kind. rewrite filter_In. now rewrite kind_eqb_eq. Qed.

Lemma of_kind_subseq k rs : subseq (of_kind k rs) rs.
Proof.
  induction rs as [|r rs IH]; [constructor|].
  unfold of_kind in *. simpl. destruct (kind_eqb (rkind r) k); now constructor.
Qed.

Lemma of_kind_cover rs :
  Permutation rs (of_kind BeginRule rs ++ of_kind EndRule rs ++ of_kind BeginFileRule rs
                  ++ of_kind EndFileRule rs ++ of_kind PatternRule rs).
Proof.
  induction rs as [|r rs IH]; [constructor|].
  unfold of_kind in *. simpl.
  set (B := filter (fun r0 => kind_eqb (rkind r0) BeginRule) rs) in *.
  set (E := filter (fun r0 => kind_eqb (rkind r0) EndRule) rs) in *.
  set (BF := filter (fun r0 => kind_eqb (rkind r0) BeginFileRule) rs) in *.
  set (EF := filter (fun r0 => kind_eqb (rkind r0) EndFileRule) rs) in *.
  set (P := filter (fun r0 => kind_eqb (rkind r0) PatternRule) rs) in *.
  destruct (rkind r); simpl.
  - now constructor.
  - apply (Permutation_cons_app B (E ++ BF ++ EF ++ P)). exact IH.
  - rewrite (app_assoc B E). apply Permutation_cons_app. now rewrite <- app_assoc.
  - rewrite (app_assoc B E), (app_assoc (B ++ E) BF).
    apply Permutation_cons_app. now rewrite <- !app_assoc.
  - rewrite (app_assoc B E), (app_assoc (B ++ E) BF), (app_assoc ((B ++ E) ++ BF) EF).
    apply Permutation_cons_app. now rewrite <- !app_assoc.
Qed.

(* ------------------------------------------------------------------ refinement *)

Ltac rassoc := etransitivity; [|symmetry; apply bind_assoc].

Section Refine.
  Variable src : bytes.
  Variable prog : program.
  Variable fuzzing : bool.
  Variable selectors : list bytes.
  Variable n : nat.

  Notation xb := (fun r : rule => eval_stmt src (pfuncs prog) fuzzing n (rbody r)).
  Notation xp := (eval_expr src (pfuncs prog) fuzzing n).

  Lemma eval_rules_refines rs s :
    eval_rules src (pfuncs prog) fuzzing n rs s = s_rules xb xp rs s.
  Proof.
    revert s. induction rs as [|r rs IH]; intros s; [reflexivity|].
    unfold s_rules in *. cbn [eval_rules s_rules_go].
    unfold s_rule, s_body, next_guard.
    destruct (rpattern r) as [p|].
    - unfold bind, catch, m_load, ret in *.
      destruct (xp p s) as [[c|e|x| | | ] s1]; try reflexivity.
      + destruct (is_truthy (load (hp s1) c)).
        * destruct (eval_stmt src (pfuncs prog) fuzzing n (rbody r) s1) as [[[]|e|x| | | ] s2];
            try reflexivity.
          -- apply IH.
          -- destruct x; reflexivity.
        * apply IH.
      + destruct x; reflexivity.
    - unfold bind, catch, m_load, ret in *.
      destruct (eval_stmt src (pfuncs prog) fuzzing n (rbody r) s) as [[[]|e|x| | | ] s2];
        try reflexivity.
      + apply IH.
      + destruct x; reflexivity.
  Qed.

  Lemma eval_elements_refines rs bid off len k i s :
    eval_elements src (pfuncs prog) fuzzing n rs bid off len k i s
    = for_each (seq i k) (s_element xb xp rs bid off) s.
  Proof.
    revert i s. induction k as [|k IH]; intros i s; [reflexivity|].
    cbn [eval_elements seq for_each]. unfold s_element at 1.
    rassoc. apply bind_ext. intros h s1.
    destruct (nth_error (get_back h bid) (off + i)) as [item|]; [|reflexivity].
    rassoc. apply bind_ext. intros _ s2.
    rassoc. apply bind_ext. intros _ s3.
    apply bind_cong; [apply eval_rules_refines|]. intros _ s4. apply IH.
  Qed.

  Lemma eval_pattern_rules_refines rs s :
    eval_pattern_rules src (pfuncs prog) fuzzing n rs s = s_pattern_phase xb xp rs s.
  Proof.
    unfold eval_pattern_rules, s_pattern_phase.
    apply bind_ext. intros s0 s1. destruct (root s0) as [rt|]; [|reflexivity].
    apply bind_ext. intros rv s2.
    destruct rv; try (apply bind_ext; intros _ ?; apply eval_rules_refines).
    apply eval_elements_refines.
  Qed.

  (* stray never succeeds *)
  Lemma rt_error_not_ok {A} t s : is_ok (fst (@rt_error src A t s)) = false.
  Proof.
    unfold rt_error. destruct (get_line_col src (tpos t)) as [[text line] col]. reflexivity.
  Qed.

  Lemma stray_not_ok {A} tok (r : res A) s :
    is_ok r = false -> is_ok (fst (stray src tok r s)) = false.
  Proof.
    intros Hr. destruct r as [a|e|x| | | ]; try discriminate; try reflexivity.
    destruct x; try reflexivity; cbn; destruct tok as [t|]; try reflexivity;
      unfold bind, get_st; try apply rt_error_not_ok;
      destruct (last_signal_token (io s)); apply rt_error_not_ok.
  Qed.

  Lemma run_special_refines rs mk s :
    run_special src prog fuzzing n rs mk s = for_each rs (s_special src xb mk) s.
  Proof.
    revert s. induction rs as [|r rs IH]; intros s; [reflexivity|].
    cbn [run_special for_each]. unfold s_special at 1.
    rassoc. apply bind_ext. intros a s1.
    rassoc. apply bind_ext. intros _ s2.
    rassoc. apply bind_ext. intros res0 s3.
    destruct res0 as [[]|e|x| | | ].
    - cbn. apply IH.
    - reflexivity.
    - pose proof (stray_not_ok (stmt_token (rbody r)) (@Sig unit x) s3 eq_refl) as Hn.
      destruct (stray src (stmt_token (rbody r)) (Sig x) s3) as [r' s4] eqn:Hs.
      symmetry. rewrite (bind_stop _ _ _ _ _ Hs Hn). now rewrite recast_same.
    - reflexivity.
    - reflexivity.
    - reflexivity.
  Qed.

  Lemma process_root_refines rc s :
    process_root src prog fuzzing n rc s
    = s_root src (prules prog) xb xp rc s.
  Proof.
    unfold process_root, s_root. apply bind_ext. intros rv s1.
    apply bind_cong; [apply run_special_refines|]. intros _ s2.
    apply bind_ext. intros _ s3.
    apply bind_cong; [apply eval_pattern_rules_refines|]. intros _ s4.
    apply run_special_refines.
  Qed.

  Lemma process_roots_refines rcs s :
    process_roots src prog fuzzing n rcs s
    = for_each rcs (s_root src (prules prog) xb xp) s.
  Proof.
    revert s. induction rcs as [|rc rcs IH]; intros s; [reflexivity|].
    cbn [process_roots for_each]. apply bind_cong; [apply process_root_refines|].
    intros _ s1. apply IH.
  Qed.

  Lemma select_roots_refines doc sels s :
    select_roots n doc sels s = map_m sels (fun sel => eval_selector n sel doc) s.
  Proof.
    revert s. induction sels as [|x sels IH]; intros s; [reflexivity|].
    cbn [select_roots map_m]. apply bind_ext. intros c s1.
    apply bind_cong; [apply IH|]. reflexivity.
  Qed.

  Lemma process_value_refines name doc s :
    process_value src prog fuzzing selectors n name doc s
    = s_value src (prules prog) selectors xb xp (eval_selector n) name doc s.
  Proof.
    unfold process_value, s_value, s_set_file, s_roots_of.
    apply bind_ext. intros _ s1.
    apply bind_cong.
    - destruct selectors as [|x sels]; [reflexivity|]. apply select_roots_refines.
    - intros rcs s2. apply process_roots_refines.
  Qed.

  Lemma decode_loop_refines k name d s :
    decode_loop src prog fuzzing selectors n k name d s
    = for_each (dec_trace k d)
               (s_item src (prules prog) selectors xb xp (eval_selector n) name) s.
  Proof.
    revert d s. induction k as [|k IH]; intros d s; [reflexivity|].
    cbn [decode_loop dec_trace].
    destruct (dec_step d) as [[r d'] evs].
    destruct r as [doc| | | ]; cbn [for_each]; unfold s_item; cbn [fst snd].
    - rassoc. apply bind_ext. intros _ s1.
      apply bind_cong; [apply process_value_refines|]. intros _ s2. apply IH.
    - rassoc. apply bind_ext. intros _ s1. reflexivity.
    - rassoc. apply bind_ext. intros _ s1. reflexivity.
    - rassoc. apply bind_ext. intros _ s1. reflexivity.
  Qed.

  Lemma run_files_refines files s :
    run_files src prog fuzzing selectors n files s
    = for_each files (s_file src (prules prog) selectors xb xp (eval_selector n)) s.
  Proof.
    revert s. induction files as [|[name rd] files IH]; intros s; [reflexivity|].
    cbn [run_files for_each]. apply bind_cong; [apply decode_loop_refines|].
    intros _ s1. apply IH.
  Qed.

  Theorem run_refines_schedule files s :
    run_body src prog fuzzing selectors n files s
    = real_sched src prog fuzzing selectors n files s.
  Proof.
    unfold run_body, real_sched, sched.
    apply bind_ext. intros _ s1.
    apply bind_cong; [apply run_special_refines|]. intros _ s2.
    apply bind_cong; [apply run_files_refines|]. intros _ s3.
    apply run_special_refines.
  Qed.
End Refine.

(* ------------------------------------------------------------------ laws, arbitrary executors *)
From JQ Require Import Proofs.AssocCanon.

Lemma passes_not_ok {A} (r : res A) : passes r = true -> is_ok r = false.
Proof. destruct r; try reflexivity; discriminate. Qed.

Lemma passes_recast {A B} (r : res A) : passes r = true -> passes (@recast A B r) = true.
Proof. destruct r as [a|e|x| | | ]; try reflexivity; try discriminate. destruct x; auto. Qed.

Section Laws.
  Variable src : bytes.
  Variable rules : list rule.
  Variable selectors : list bytes.
  Variable init : M unit.
  Variable exec_body : rule -> M unit.
  Variable exec_pattern : expr -> M addr.
  Variable exec_selector : bytes -> jvalue -> M addr.

  Notation s_body := (s_body exec_body).
  Notation s_rule := (s_rule exec_body exec_pattern).
  Notation s_rules_go := (s_rules_go exec_body exec_pattern).
  Notation s_rules := (s_rules exec_body exec_pattern).
  Notation s_element := (s_element exec_body exec_pattern).
  Notation s_pattern_phase := (s_pattern_phase exec_body exec_pattern).
  Notation s_special := (s_special src exec_body).
  Notation s_root := (s_root src rules exec_body exec_pattern).
  Notation s_value := (s_value src rules selectors exec_body exec_pattern exec_selector).
  Notation s_item := (s_item src rules selectors exec_body exec_pattern exec_selector).
  Notation s_file := (s_file src rules selectors exec_body exec_pattern exec_selector).
  Notation sched := (sched src rules selectors init exec_body exec_pattern exec_selector).
  Notation body_runs_at := (body_runs_at exec_pattern).

  (* ---- one rule ---- *)

  Lemma s_body_run r s :
    s_body r s = match exec_body r s with
                 | (Ok _, s1) => (Ok true, s1)
                 | (Sig SigNext, s1) => (Ok false, s1)
                 | (other, s1) => (recast other, s1)
                 end.
  Proof.
    unfold Schedule.s_body, bind, catch, next_guard.
    destruct (exec_body r s) as [[[]|e|x| | | ] s1]; try reflexivity. destruct x; reflexivity.
  Qed.

  Lemma s_rule_no_pattern r s : rpattern r = None -> s_rule r s = s_body r s.
  Proof. intro H. unfold Schedule.s_rule. now rewrite H. Qed.

  Lemma s_rule_pattern r p s :
    rpattern r = Some p ->
    s_rule r s = match exec_pattern p s with
                 | (Ok c, s1) => if is_truthy (load (hp s1) c) then s_body r s1 else (Ok true, s1)
                 | (Sig SigNext, s1) => (Ok false, s1)
                 | (other, s1) => (recast other, s1)
                 end.
  Proof.
    intro H. unfold Schedule.s_rule. rewrite H. unfold bind at 1. unfold catch, next_guard.
    destruct (exec_pattern p s) as [[c|e|x| | | ] s1]; try reflexivity.
    - unfold bind, m_load. destruct (is_truthy (load (hp s1) c)); reflexivity.
    - destruct x; reflexivity.
  Qed.

  (* pattern_gates_body *)
  Lemma s_rule_truthy r p s c s1 :
    rpattern r = Some p -> exec_pattern p s = (Ok c, s1) -> is_truthy (load (hp s1) c) = true ->
    s_rule r s = s_body r s1.
  Proof. intros H Hp Ht. rewrite (s_rule_pattern _ _ _ H), Hp. now rewrite Ht. Qed.

  Lemma s_rule_falsy r p s c s1 :
    rpattern r = Some p -> exec_pattern p s = (Ok c, s1) -> is_truthy (load (hp s1) c) = false ->
    s_rule r s = (Ok true, s1).
  Proof. intros H Hp Ht. rewrite (s_rule_pattern _ _ _ H), Hp. now rewrite Ht. Qed.

  (* ---- the rule list ---- *)

  Lemma s_rules_go_app a b s :
    s_rules_go (a ++ b) s
    = bind (s_rules_go a) (fun go => if go then s_rules_go b else ret false) s.
  Proof.
    revert s. induction a as [|r a IH]; intros s; [reflexivity|].
    cbn [Schedule.s_rules_go app]. rewrite bind_assoc. apply bind_ext. intros go s1.
    destruct go; [apply IH|reflexivity].
  Qed.

  Lemma s_rules_go_single r s : s_rules_go [r] s = s_rule r s.
  Proof.
    cbn [Schedule.s_rules_go]. unfold bind.
    destruct (s_rule r s) as [[[]|e|x| | | ] s1]; reflexivity.
  Qed.

  Lemma s_rules_go_cons r rest s :
    s_rules_go (r :: rest) s
    = match s_rule r s with
      | (Ok true, s1) => s_rules_go rest s1
      | (Ok false, s1) => (Ok false, s1)
      | (other, s1) => (recast other, s1)
      end.
  Proof.
    cbn [Schedule.s_rules_go]. unfold bind.
    destruct (s_rule r s) as [[[]|e|x| | | ] s1]; reflexivity.
  Qed.

  Lemma s_rules_of_go rs s :
    s_rules rs s = match s_rules_go rs s with
                   | (Ok _, s1) => (Ok tt, s1)
                   | (other, s1) => (recast other, s1)
                   end.
  Proof.
    unfold Schedule.s_rules, bind. destruct (s_rules_go rs s) as [[b|e|x| | | ] s1]; reflexivity.
  Qed.

  (* the rule at position |pre| runs exactly when all of [pre] ran to the end *)
  Lemma s_rules_go_reach pre r rest s0 s :
    s_rules_go pre s0 = (Ok true, s) ->
    s_rules_go (pre ++ r :: rest) s0 = s_rules_go (r :: rest) s.
  Proof. intro H. rewrite s_rules_go_app. now rewrite (bind_ok _ _ _ _ _ H). Qed.

  Lemma s_rules_go_cut pre post s0 s :
    s_rules_go pre s0 = (Ok false, s) ->
    s_rules_go (pre ++ post) s0 = (Ok false, s).
  Proof. intro H. rewrite s_rules_go_app. now rewrite (bind_ok _ _ _ _ _ H). Qed.

  (* next_local, rule level: `next` from the pattern or the body of a rule ends the rule
     list for this element with Ok; the later rules do not run *)
  Lemma next_in_pattern pre r p rest s0 s s1 :
    s_rules_go pre s0 = (Ok true, s) ->
    rpattern r = Some p -> exec_pattern p s = (Sig SigNext, s1) ->
    s_rules (pre ++ r :: rest) s0 = (Ok tt, s1).
  Proof.
    intros Hpre Hr Hp. rewrite s_rules_of_go, (s_rules_go_reach _ _ _ _ _ Hpre), s_rules_go_cons.
    rewrite (s_rule_pattern _ _ _ Hr), Hp. reflexivity.
  Qed.


  Lemma s_rule_body_runs r s sb : body_runs_at r s sb -> s_rule r s = s_body r sb.
  Proof.
    intros [[H ->]|(p & c & H & Hp & Ht)].
    - now apply s_rule_no_pattern.
    - eapply s_rule_truthy; eauto.
  Qed.

  Lemma next_in_body pre r rest s0 s sb s1 :
    s_rules_go pre s0 = (Ok true, s) ->
    body_runs_at r s sb -> exec_body r sb = (Sig SigNext, s1) ->
    s_rules (pre ++ r :: rest) s0 = (Ok tt, s1).
  Proof.
    intros Hpre Hr Hb. rewrite s_rules_of_go, (s_rules_go_reach _ _ _ _ _ Hpre), s_rules_go_cons.
    rewrite (s_rule_body_runs _ _ _ Hr), s_body_run, Hb. reflexivity.
  Qed.

  (* anything that is neither Ok nor `next` leaves the rule list unchanged *)
  Lemma s_rules_stop pre r rest s0 s x s1 :
    s_rules_go pre s0 = (Ok true, s) ->
    s_rule r s = (x, s1) -> is_ok x = false ->
    s_rules (pre ++ r :: rest) s0 = (recast x, s1).
  Proof.
    intros Hpre Hr Hx. rewrite s_rules_of_go, (s_rules_go_reach _ _ _ _ _ Hpre), s_rules_go_cons.
    rewrite Hr. destruct x; try discriminate; reflexivity.
  Qed.

  Lemma s_rule_pattern_passes r p s (x : res addr) s1 :
    rpattern r = Some p -> exec_pattern p s = (x, s1) -> passes x = true ->
    s_rule r s = (recast x, s1).
  Proof.
    intros Hr Hp Hx. rewrite (s_rule_pattern _ _ _ Hr), Hp.
    destruct x as [c|e|y| | | ]; try discriminate; try reflexivity.
    destruct y; try discriminate; reflexivity.
  Qed.

  Lemma s_rule_body_passes r s sb (x : res unit) s1 :
    body_runs_at r s sb -> exec_body r sb = (x, s1) -> passes x = true ->
    s_rule r s = (recast x, s1).
  Proof.
    intros Hr Hb Hx. rewrite (s_rule_body_runs _ _ _ Hr), s_body_run, Hb.
    destruct x as [c|e|y| | | ]; try discriminate; try reflexivity.
    destruct y; try discriminate; reflexivity.
  Qed.

  (* ---- elements ---- *)

  Lemma s_element_run prs bid off i s item s' :
    nth_error (get_back (hp s) bid) (off + i) = Some item ->
    elem_state s item i = Some s' ->
    s_element prs bid off i s = s_rules prs s'.
  Proof.
    intros Hn He. unfold Schedule.s_element.
    unfold bind at 1. unfold get_heap. rewrite Hn.
    unfold elem_state in He. destruct (frames s) as [|f fr] eqn:Hf; [discriminate|].
    injection He as <-.
    unfold bind at 1. unfold set_rule_root.
    unfold bind at 1. unfold bind at 1. unfold m_alloc, with_heap, alloc. cbn.
    unfold set_local. cbn. rewrite Hf. reflexivity.
  Qed.

  Lemma s_element_panics prs bid off i s :
    nth_error (get_back (hp s) bid) (off + i) = None ->
    s_element prs bid off i s = (Panic, s).
  Proof. intros Hn. unfold Schedule.s_element, bind, get_heap. now rewrite Hn. Qed.

  Lemma elem_state_facts s item i s' :
    elem_state s item i = Some s' ->
    rule_root s' = Some item /\
    root s' = root s /\ io s' = io s /\
    exists c, lookup_frames (frames s') (bs "$index") = Some c /\
              c = next (hp s) /\ load (hp s') c = num_of_nat i.
  Proof.
    unfold elem_state. destruct (frames s) as [|f fr]; [discriminate|]. cbn.
    intro H. injection H as <-. cbn. repeat split.
    exists (next (hp s)). cbn. rewrite assoc_set_get_same. repeat split.
    unfold load. cbn. now rewrite PM.gss.
  Qed.

  Lemma s_pattern_phase_array prs s rt bid off len :
    root s = Some rt -> load (hp s) rt = VArr bid off len ->
    s_pattern_phase prs s = for_each (seq 0 len) (s_element prs bid off) s.
  Proof.
    intros Hr Hl. unfold Schedule.s_pattern_phase, bind at 1, get_st. rewrite Hr.
    unfold bind at 1, m_load. now rewrite Hl.
  Qed.

  (* non_array_once *)
  Lemma s_pattern_phase_scalar prs s rt :
    root s = Some rt -> tag_of (load (hp s) rt) <> TgArr ->
    s_pattern_phase prs s = s_rules prs (with_rule_root s rt).
  Proof.
    intros Hr Hl. unfold Schedule.s_pattern_phase, bind at 1, get_st. rewrite Hr.
    unfold bind at 1, m_load.
    destruct (load (hp s) rt); try reflexivity. now contradiction Hl.
  Qed.

  Lemma s_pattern_phase_no_root prs s : root s = None -> s_pattern_phase prs s = (Ok tt, s).
  Proof. intros Hr. unfold Schedule.s_pattern_phase, bind, get_st. now rewrite Hr. Qed.

  (* ---- special rules ---- *)

  Lemma s_special_run mk r s a s' :
    mk s = (Ok a, s') ->
    s_special mk r s = special_finish src r (exec_body r (with_rule_root s' a)).
  Proof.
    intros Hm. unfold Schedule.s_special. rewrite (bind_ok _ _ _ _ _ Hm).
    unfold bind at 1, set_rule_root. unfold bind, catch, special_finish, with_rule_root.
    destruct (exec_body r _) as [[[]|e|x| | | ] s1]; reflexivity.
  Qed.

  Lemma null_root_run s :
    null_root s = (Ok (next (hp s)),
                   mkSt (snd (alloc (hp s) (VNil None))) (frames s) (rule_root s) (root s)
                        (retval s) (io s)).
  Proof. reflexivity. Qed.

  (* begin_end_null_root / endfile: a special rule whose root is a fresh cell holding v *)
  Lemma s_special_fresh v r s :
    s_special (m_alloc v) r s = special_finish src r (exec_body r (fresh_root_state s v)).
  Proof.
    rewrite (s_special_run (m_alloc v) r s (next (hp s))
               (mkSt (snd (alloc (hp s) v)) (frames s) (rule_root s) (root s) (retval s) (io s)));
      reflexivity.
  Qed.

  Lemma fresh_root_state_facts s v :
    rule_root (fresh_root_state s v) = Some (next (hp s)) /\
    load (hp (fresh_root_state s v)) (next (hp s)) = v /\
    frames (fresh_root_state s v) = frames s /\ root (fresh_root_state s v) = root s /\
    io (fresh_root_state s v) = io s /\
    next (hp (fresh_root_state s v)) = Pos.succ (next (hp s)).
  Proof. cbn. repeat split. unfold load. cbn. now rewrite PM.gss. Qed.

  Lemma s_special_given rc r s :
    s_special (ret rc) r s = special_finish src r (exec_body r (with_rule_root s rc)).
  Proof. rewrite (s_special_run (ret rc) r s rc s); reflexivity. Qed.

  Lemma special_finish_passes r (x : res unit) s1 :
    passes x = true -> special_finish src r (x, s1) = (x, s1).
  Proof.
    intro Hx. unfold special_finish. cbn [fst snd].
    destruct x as [c|e|y| | | ]; try discriminate; try reflexivity.
    destruct y; try discriminate; reflexivity.
  Qed.

  Lemma special_finish_ok r s1 : special_finish src r (Ok tt, s1) = (Ok tt, s1).
  Proof. reflexivity. Qed.

  (* a stray next/break/continue/return in a special rule is a runtime error, never Ok *)
  Lemma special_finish_not_ok r x s1 :
    is_ok x = false -> is_ok (fst (special_finish src r (x, s1))) = false.
  Proof.
    intro Hx. unfold special_finish. cbn [fst snd].
    destruct x as [c|e|y| | | ]; try discriminate; try reflexivity.
    exact (stray_not_ok src (stmt_token (rbody r)) (Sig y) s1 eq_refl).
  Qed.

  Lemma s_special_passes mk r s a s' (x : res unit) s1 :
    mk s = (Ok a, s') -> exec_body r (with_rule_root s' a) = (x, s1) -> passes x = true ->
    s_special mk r s = (x, s1).
  Proof.
    intros Hm Hb Hx. rewrite (s_special_run _ _ _ _ _ Hm), Hb. now apply special_finish_passes.
  Qed.

  (* ---- root ---- *)

  Lemma s_root_unfold rc s :
    s_root rc s
    = (for_each (of_kind BeginFileRule rules) (s_special (ret rc)) ;;;
       set_root (Some rc) ;;;
       s_pattern_phase (of_kind PatternRule rules) ;;;
       for_each (of_kind EndFileRule rules) (s_special (m_alloc (load (hp s) rc)))) s.
  Proof. reflexivity. Qed.

  (* ---- value ---- *)

  Lemma s_set_file_run name s : s_set_file name s = (Ok tt, file_state s name).
  Proof. reflexivity. Qed.

  Lemma s_value_unfold name doc s :
    s_value name doc s
    = (let* rcs := s_roots_of selectors exec_selector doc in for_each rcs s_root)
        (file_state s name).
  Proof. reflexivity. Qed.

  Lemma set_in_last_lookup_single f name a :
    lookup_frames (set_in_last [f] name a) name = Some a.
  Proof. cbn. now rewrite assoc_set_get_same. Qed.

  (* the file name goes into the <root> frame (the last one); the other frames are untouched *)
  Lemma set_in_last_snoc fs f name a :
    set_in_last (fs ++ [f]) name a = fs ++ [mkFrame (fname f) (assoc_set name a (locals f))].
  Proof.
    induction fs as [|g fs IH]; [reflexivity|].
    cbn [app]. destruct fs as [|h fs]; cbn [app] in *.
    - reflexivity.
    - change (set_in_last (g :: h :: fs ++ [f]) name a)
        with (g :: set_in_last (h :: fs ++ [f]) name a).
      now rewrite IH.
  Qed.

  Lemma file_state_facts s name fs f :
    frames s = fs ++ [f] ->
    frames (file_state s name)
      = fs ++ [mkFrame (fname f) (assoc_set (bs "$file") (next (hp s)) (locals f))] /\
    load (hp (file_state s name)) (next (hp s)) = VStr name /\
    rule_root (file_state s name) = rule_root s /\ root (file_state s name) = root s /\
    io (file_state s name) = io s.
  Proof.
    intro Hf. unfold file_state. cbn. rewrite Hf, set_in_last_snoc. repeat split.
    unfold load. cbn. now rewrite PM.gss.
  Qed.

  (* ---- generic propagation: a non-Ok outcome of a step is the outcome of the loop ---- *)
  (* (for_each_stops, bind_stop above) *)

  (* ---- the run ---- *)

  Lemma sched_unfold files s :
    sched files s
    = (init ;;;
       for_each (of_kind BeginRule rules) (s_special null_root) ;;;
       for_each files s_file ;;;
       for_each (of_kind EndRule rules) (s_special null_root)) s.
  Proof. reflexivity. Qed.

  Theorem propagates_passes (x : res unit) :
    passes x = true ->
    propagates src rules selectors init exec_body exec_pattern exec_selector x.
  Proof.
    intro Hx. pose proof (passes_not_ok _ Hx) as Hn.
    assert (Hrr : forall s1 : st, (@recast unit unit x, s1) = (x, s1)).
    { intro s1. now rewrite recast_same. }
    unfold propagates. repeat match goal with |- _ /\ _ => split end.
    - intros r p s s1 Hr Hp.
      rewrite (s_rule_pattern_passes r p s _ s1 Hr Hp (passes_recast _ Hx)).
      now rewrite recast_recast.
    - intros r s sb s1 Hr Hb. exact (s_rule_body_passes r s sb x s1 Hr Hb Hx).
    - intros pre r rest s0 s s1 Hpre Hr.
      rewrite (s_rules_stop pre r rest s0 s _ s1 Hpre Hr (recast_not_ok _)).
      now rewrite recast_recast, recast_same.
    - intros prs bid off i s item s' s1 Hnth He Hrs.
      now rewrite (s_element_run prs bid off i s item s' Hnth He).
    - intros prs s rt bid off len i s' s1 Hroot Hl Hi Hpre Hel.
      rewrite (s_pattern_phase_array prs s rt bid off len Hroot Hl).
      replace len with (i + S (len - S i)) by lia.
      rewrite seq_app. cbn [seq]. cbn [plus].
      eapply for_each_stops; eauto.
    - intros prs s rt s1 Hroot Hl Hrs.
      now rewrite (s_pattern_phase_scalar prs s rt Hroot Hl).
    - intros mk r s a s' s1 Hm Hb. exact (s_special_passes mk r s a s' x s1 Hm Hb Hx).
    - intros A f pre y post s0 s s1 Hpre Hy. eapply for_each_stops; eauto.
    - intros rc s s1 Hbf. unfold Schedule.s_root, bind at 1, m_load.
      rewrite (bind_stop _ _ _ _ _ Hbf Hn). apply Hrr.
    - intros rc s sa s1 Hbf Hph. unfold Schedule.s_root, bind at 1, m_load.
      rewrite (bind_ok _ _ _ _ _ Hbf). unfold bind at 1, set_root.
      rewrite (bind_stop _ _ _ _ _ Hph Hn). apply Hrr.
    - intros rc s sa sb s1 Hbf Hph Hef. unfold Schedule.s_root, bind at 1, m_load.
      rewrite (bind_ok _ _ _ _ _ Hbf). unfold bind at 1, set_root.
      rewrite (bind_ok _ _ _ _ _ Hph). exact Hef.
    - intros name doc s s1 Hsel. rewrite s_value_unfold.
      rewrite (bind_stop _ _ _ _ _ Hsel (recast_not_ok _)).
      now rewrite recast_recast, recast_same.
    - intros name doc s rcs sa s1 Hsel Hr. rewrite s_value_unfold.
      now rewrite (bind_ok _ _ _ _ _ Hsel).
    - intros name evs doc s s1 Hv. unfold Schedule.s_item. cbn [fst snd].
      unfold bind at 1, log_io. exact Hv.
    - intros files s s1 Hi. rewrite sched_unfold.
      rewrite (bind_stop _ _ _ _ _ Hi Hn). apply Hrr.
    - intros files s sa s1 Hi Hb. rewrite sched_unfold.
      rewrite (bind_ok _ _ _ _ _ Hi). rewrite (bind_stop _ _ _ _ _ Hb Hn). apply Hrr.
    - intros files s sa sb s1 Hi Hb Hf. rewrite sched_unfold.
      rewrite (bind_ok _ _ _ _ _ Hi), (bind_ok _ _ _ _ _ Hb).
      rewrite (bind_stop _ _ _ _ _ Hf Hn). apply Hrr.
    - intros files s sa sb sc s1 Hi Hb Hf He. rewrite sched_unfold.
      rewrite (bind_ok _ _ _ _ _ Hi), (bind_ok _ _ _ _ _ Hb), (bind_ok _ _ _ _ _ Hf). exact He.
  Qed.
End Laws.

(* ------------------------------------------------------------------ the body-less rule *)

(* `print` without arguments prints pretty($) and a newline, in one write *)
Lemma eval_print_root src funcs fuzzing f t s :
  eval_stmt src funcs fuzzing (S (S f)) (SPrint t []) s
  = match rule_root s with
    | None => (Panic, s)
    | Some a =>
      match pretty_string (hp s) (load (hp s) a) with
      | Some p => (Ok tt, mkSt (hp s) (frames s) (rule_root s) (root s) (retval s)
                               (IoWrite (p ++ [10%N]) :: io s))
      | None => (Fuel, s)
      end
    end.
Proof.
  change (eval_stmt src funcs fuzzing (S (S f)) (SPrint t []) s)
    with ((let* st0 := get_st in
           match rule_root st0 with
           | None => fail Panic
           | Some a => let* v := m_load a in let* p := pretty_m v in emit (p ++ [10%N])
           end) s).
  unfold bind at 1, get_st. destruct (rule_root s) as [a|] eqn:Hrr; [|reflexivity].
  unfold bind at 1, m_load. unfold bind at 1, pretty_m. unfold bind at 1, get_heap.
  destruct (pretty_string (hp s) (load (hp s) a)); [|reflexivity].
  unfold ret, emit. now rewrite Hrr.
Qed.

(* ------------------------------------------------------------------ the whole run *)

Lemma eval_program_exit n src files selectors fuzzing prog p s :
  parse_program src = POk prog p ->
  run_body src prog fuzzing selectors n files init_state = (Sig SigExit, s) ->
  eval_program n src files selectors fuzzing = mkRun OOk s.
Proof. intros Hp Hr. unfold eval_program. now rewrite Hp, Hr. Qed.

Lemma eval_program_error n src files selectors fuzzing prog p e s :
  parse_program src = POk prog p ->
  run_body src prog fuzzing selectors n files init_state = (Err e, s) ->
  r_state (eval_program n src files selectors fuzzing) = s /\
  r_outcome (eval_program n src files selectors fuzzing) <> OOk.
Proof.
  intros Hp Hr. unfold eval_program. rewrite Hp, Hr. split; [reflexivity|].
  cbn. destruct (ekind_of e); discriminate.
Qed.

(* ------------------------------------------------------------------ packaged statements (Props/C02_schedule.v) *)

Ltac splits := repeat match goal with |- _ /\ _ => split end.

Lemma C02_run_refines_schedule :
  forall src prog fuzzing selectors n files s,
    run_body src prog fuzzing selectors n files s
    = real_sched src prog fuzzing selectors n files s.
Proof.
exact run_refines_schedule.
Qed.

Lemma C02_rules_partition :
  forall rs : list rule,
    (forall k, rules_of_kind k rs = of_kind k rs) /\
    (forall k a b, of_kind k (a ++ b) = of_kind k a ++ of_kind k b) /\
    (forall k r, of_kind k [r] = if kind_eqb (rkind r) k then [r] else []) /\
    (forall k r, In r (of_kind k rs) <-> In r rs /\ rkind r = k) /\
    (forall k, subseq (of_kind k rs) rs) /\
    Permutation rs (of_kind BeginRule rs ++ of_kind EndRule rs ++ of_kind BeginFileRule rs
                    ++ of_kind EndFileRule rs ++ of_kind PatternRule rs).
Proof.
  intro rs. splits.
  - reflexivity.
  - apply of_kind_app.
  - apply of_kind_single.
  - intros. apply of_kind_In.
  - intros. apply of_kind_subseq.
  - apply of_kind_cover.
Qed.

Lemma C02_source_order :
  forall (src : bytes) (rules : list rule) (selectors : list bytes) (init : M unit) (xb : rule -> M unit) (xp : expr -> M addr) (xs : bytes -> jvalue -> M addr),
    (forall r s, s_rules_go xb xp [r] s = s_rule xb xp r s) /\
    (forall a b s,
        s_rules_go xb xp (a ++ b) s
        = (let* go := s_rules_go xb xp a in if go then s_rules_go xb xp b else ret false) s) /\
    (forall rs s, s_rules xb xp rs s = (let* _ := s_rules_go xb xp rs in ret tt) s) /\
    (forall pre r rest s0 s,
        s_rules_go xb xp pre s0 = (Ok true, s) ->
        s_rules_go xb xp (pre ++ r :: rest) s0
        = match s_rule xb xp r s with
          | (Ok true, s1) => s_rules_go xb xp rest s1
          | (Ok false, s1) => (Ok false, s1)
          | (other, s1) => (recast other, s1)
          end).
Proof.
  intros. splits.
  - intros. apply s_rules_go_single.
  - intros. apply s_rules_go_app.
  - reflexivity.
  - intros pre r rest s0 s H. rewrite (s_rules_go_reach xb xp pre r rest s0 s H). apply s_rules_go_cons.
Qed.

Lemma C02_pattern_gates_body :
  forall (src : bytes) (rules : list rule) (selectors : list bytes) (init : M unit) (xb : rule -> M unit) (xp : expr -> M addr) (xs : bytes -> jvalue -> M addr) (r : rule) (s : st),
    (rpattern r = None -> s_rule xb xp r s = s_body xb r s) /\
    (forall p c s1, rpattern r = Some p -> xp p s = (Ok c, s1) ->
       (is_truthy (load (hp s1) c) = true -> s_rule xb xp r s = s_body xb r s1) /\
       (is_truthy (load (hp s1) c) = false ->
          s_rule xb xp r s = (Ok true, s1) /\
          forall xb' : rule -> M unit, s_rule xb' xp r s = s_rule xb xp r s)) /\
    (forall sb, s_body xb r sb = match xb r sb with
                                 | (Ok _, s2) => (Ok true, s2)
                                 | (Sig SigNext, s2) => (Ok false, s2)
                                 | (other, s2) => (recast other, s2)
                                 end).
Proof.
  intros. splits.
  - apply s_rule_no_pattern.
  - intros p c s1 Hr Hp. splits.
    + intro Ht. eapply s_rule_truthy; eauto.
    + intro Hf. splits.
      * eapply s_rule_falsy; eauto.
      * intro xb'. rewrite (s_rule_falsy xb' xp r p s c s1), (s_rule_falsy xb xp r p s c s1); auto.
  - intro sb. apply s_body_run.
Qed.

Lemma C02_next_local :
  forall (src : bytes) (rules : list rule) (selectors : list bytes) (init : M unit) (xb : rule -> M unit) (xp : expr -> M addr) (xs : bytes -> jvalue -> M addr),
    (forall pre r p rest s0 s s1,
        s_rules_go xb xp pre s0 = (Ok true, s) ->
        rpattern r = Some p -> xp p s = (Sig SigNext, s1) ->
        s_rules xb xp (pre ++ r :: rest) s0 = (Ok tt, s1)) /\
    (forall pre r rest s0 s sb s1,
        s_rules_go xb xp pre s0 = (Ok true, s) ->
        body_runs_at xp r s sb -> xb r sb = (Sig SigNext, s1) ->
        s_rules xb xp (pre ++ r :: rest) s0 = (Ok tt, s1)) /\
    (forall prs bid off i more s item s' s1,
        nth_error (get_back (hp s) bid) (off + i) = Some item ->
        elem_state s item i = Some s' ->
        s_rules xb xp prs s' = (Ok tt, s1) ->
        for_each (i :: more) (s_element xb xp prs bid off) s
        = for_each more (s_element xb xp prs bid off) s1).
Proof.
  intros. splits.
  - intros. eapply next_in_pattern; eauto.
  - intros. eapply next_in_body; eauto.
  - intros prs bid off i more s item s' s1 Hn He Hr.
    apply for_each_step_ok. now rewrite (s_element_run xb xp prs bid off i s item s' Hn He).
Qed.

Lemma C02_exit_global :
  forall (src : bytes) (rules : list rule) (selectors : list bytes) (init : M unit) (xb : rule -> M unit) (xp : expr -> M addr) (xs : bytes -> jvalue -> M addr),
    propagates src rules selectors init xb xp xs (Sig SigExit) /\
    classify (Sig SigExit) = OOk /\
    (forall n psrc files sels fuzzing prog p s,
        parse_program psrc = POk prog p ->
        run_body psrc prog fuzzing sels n files init_state = (Sig SigExit, s) ->
        eval_program n psrc files sels fuzzing = mkRun OOk s).
Proof.
  intros. split; [|split].
  - now apply propagates_passes.
  - reflexivity.
  - intros. eapply eval_program_exit; eauto.
Qed.

Lemma C02_error_global :
  forall (src : bytes) (rules : list rule) (selectors : list bytes) (init : M unit) (xb : rule -> M unit) (xp : expr -> M addr) (xs : bytes -> jvalue -> M addr) (e : errinfo),
    propagates src rules selectors init xb xp xs (Err e) /\
    classify (Err e) <> OOk /\
    (forall n psrc files sels fuzzing prog p s,
        parse_program psrc = POk prog p ->
        run_body psrc prog fuzzing sels n files init_state = (Err e, s) ->
        r_state (eval_program n psrc files sels fuzzing) = s /\
        r_outcome (eval_program n psrc files sels fuzzing) <> OOk).
Proof.
  intros. split; [|split].
  - now apply propagates_passes.
  - cbn. destruct (ekind_of e); discriminate.
  - intros. eapply eval_program_error; eauto.
Qed.

Lemma C02_elements_in_index_order :
  forall (src : bytes) (rules : list rule) (selectors : list bytes) (init : M unit) (xb : rule -> M unit) (xp : expr -> M addr) (xs : bytes -> jvalue -> M addr),
    (forall src' prog fuzzing n rs bid off len s,
        eval_elements src' (pfuncs prog) fuzzing n rs bid off len len 0 s
        = for_each (seq 0 len)
            (s_element (fun r => eval_stmt src' (pfuncs prog) fuzzing n (rbody r))
                       (eval_expr src' (pfuncs prog) fuzzing n) rs bid off) s) /\
    (forall prs s rt bid off len,
        root s = Some rt -> load (hp s) rt = VArr bid off len ->
        s_pattern_phase xb xp prs s = for_each (seq 0 len) (s_element xb xp prs bid off) s) /\
    (forall prs bid off i s,
        match nth_error (get_back (hp s) bid) (off + i) with
        | None => s_element xb xp prs bid off i s = (Panic, s)
        | Some item =>
          forall s', elem_state s item i = Some s' ->
            s_element xb xp prs bid off i s = s_rules xb xp prs s' /\
            rule_root s' = Some item /\ root s' = root s /\ io s' = io s /\
            exists c, lookup_frames (frames s') (bs "$index") = Some c /\
                      c = next (hp s) /\ load (hp s') c = num_of_nat i
        end).
Proof.
  intros. splits.
  - intros. apply eval_elements_refines.
  - intros. eapply s_pattern_phase_array; eauto.
  - intros prs bid off i s.
    destruct (nth_error (get_back (hp s) bid) (off + i)) as [item|] eqn:Hn.
    + intros s' He. split; [now apply s_element_run with (item := item)|].
      now apply elem_state_facts.
    + now apply s_element_panics.
Qed.

Lemma C02_non_array_once :
  forall (src : bytes) (rules : list rule) (selectors : list bytes) (init : M unit) (xb : rule -> M unit) (xp : expr -> M addr) (xs : bytes -> jvalue -> M addr) prs s,
    (forall rt, root s = Some rt -> tag_of (load (hp s) rt) <> TgArr ->
                s_pattern_phase xb xp prs s = s_rules xb xp prs (with_rule_root s rt)) /\
    (root s = None -> s_pattern_phase xb xp prs s = (Ok tt, s)).
Proof.
  intros. split.
  - intros. now apply s_pattern_phase_scalar.
  - apply s_pattern_phase_no_root.
Qed.

Lemma C02_begin_end_null_root :
  forall (src : bytes) (rules : list rule) (selectors : list bytes) (init : M unit) (xb : rule -> M unit) (xp : expr -> M addr) (xs : bytes -> jvalue -> M addr),
    (forall files s,
        sched src rules selectors init xb xp xs files s
        = (init ;;;
           for_each (of_kind BeginRule rules) (s_special src xb null_root) ;;;
           for_each files (s_file src rules selectors xb xp xs) ;;;
           for_each (of_kind EndRule rules) (s_special src xb null_root)) s) /\
    (forall r s,
        s_special src xb null_root r s
        = special_finish src r (xb r (fresh_root_state s (VNil None))) /\
        rule_root (fresh_root_state s (VNil None)) = Some (next (hp s)) /\
        load (hp (fresh_root_state s (VNil None))) (next (hp s)) = VNil None /\
        next (hp (fresh_root_state s (VNil None))) = Pos.succ (next (hp s))) /\
    (forall r s1, special_finish src r (Ok tt, s1) = (Ok tt, s1)) /\
    (forall r x s1, is_ok x = false -> is_ok (fst (special_finish src r (x, s1))) = false).
Proof.
  intros. splits.
  - reflexivity.
  - intros r s. splits; try reflexivity.
    + apply (s_special_fresh src xb (VNil None) r s).
    + unfold load. cbn. now rewrite PM.gss.
  - reflexivity.
  - intros. now apply special_finish_not_ok.
Qed.

Lemma C02_endfile_sees_original_root :
  forall (src : bytes) (rules : list rule) (selectors : list bytes) (init : M unit) (xb : rule -> M unit) (xp : expr -> M addr) (xs : bytes -> jvalue -> M addr) rc s,
    s_root src rules xb xp rc s
    = (for_each (of_kind BeginFileRule rules) (s_special src xb (ret rc)) ;;;
       set_root (Some rc) ;;;
       s_pattern_phase xb xp (of_kind PatternRule rules) ;;;
       for_each (of_kind EndFileRule rules) (s_special src xb (m_alloc (load (hp s) rc)))) s /\
    (forall r s', s_special src xb (ret rc) r s'
                  = special_finish src r (xb r (with_rule_root s' rc))) /\
    (forall r v s', s_special src xb (m_alloc v) r s'
                    = special_finish src r (xb r (fresh_root_state s' v)) /\
                    rule_root (fresh_root_state s' v) = Some (next (hp s')) /\
                    load (hp (fresh_root_state s' v)) (next (hp s')) = v).
Proof.
  intros. splits.
  - reflexivity.
  - intros. apply s_special_given.
  - intros r v s'. splits; try reflexivity.
    + apply s_special_fresh.
    + unfold load. cbn. now rewrite PM.gss.
Qed.

Lemma C02_bodyless_rule_prints_root :
  (exists prog p, parse_program (bs "$ > 1  $.a  END") = POk prog p /\
                  map rkind (prules prog) = [PatternRule; PatternRule; EndRule] /\
                  map rbody (prules prog)
                    = [SPrint zero_token []; SPrint zero_token []; SPrint zero_token []]) /\
  (forall src funcs fuzzing f t s,
      eval_stmt src funcs fuzzing (S (S f)) (SPrint t []) s
      = match rule_root s with
        | None => (Panic, s)
        | Some a =>
          match pretty_string (hp s) (load (hp s) a) with
          | Some p => (Ok tt, mkSt (hp s) (frames s) (rule_root s) (root s) (retval s)
                                   (IoWrite (p ++ [10%N]) :: io s))
          | None => (Fuel, s)
          end
        end).
Proof.
  split.
  - eexists. eexists. split; [vm_compute; reflexivity|]. split; vm_compute; reflexivity.
  - apply eval_print_root.
Qed.

Lemma C02_file_global_set :
  forall (src : bytes) (rules : list rule) (selectors : list bytes) (init : M unit) (xb : rule -> M unit) (xp : expr -> M addr) (xs : bytes -> jvalue -> M addr) name doc s,
    s_value src rules selectors xb xp xs name doc s
    = (let* rcs := s_roots_of selectors xs doc in
       for_each rcs (s_root src rules xb xp)) (file_state s name) /\
    (forall fs f, frames s = fs ++ [f] ->
       frames (file_state s name)
         = fs ++ [mkFrame (fname f) (assoc_set (bs "$file") (next (hp s)) (locals f))] /\
       load (hp (file_state s name)) (next (hp s)) = VStr name /\
       rule_root (file_state s name) = rule_root s /\ root (file_state s name) = root s /\
       io (file_state s name) = io s).
Proof.
  intros. split.
  - reflexivity.
  - intros fs f Hf. now apply file_state_facts.
Qed.
