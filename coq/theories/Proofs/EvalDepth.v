(* C20: the call-depth limit.  push_frame refuses exactly beyond call_depth_limit frames,
   a refused push is a runtime error, and the stack never exceeds the bound. *)
From Coq Require Import List ZArith Lia.
From JQ Require Import Base.Bytes Num.F64 Syntax.Token Syntax.Lexer Syntax.Ast Syntax.Parser.
From JQ Require Import Json.JValue Json.Decode.
From JQ Require Import Gen.Generated Sem.Value Sem.Ops Sem.Natives Sem.Eval Sem.Driver.
From JQ Require Import Spec.EvalInvSpec Proofs.EvalUnfold Proofs.EvalInv Proofs.EvalFaults Proofs.EvalFrames.
Import ListNotations.
Open Scope nat_scope.

Definition Q_any (s : st) (k : kind) (s' : st) : Prop := True.

Lemma call_depth_limit_nonneg : (0 <= call_depth_limit)%Z.
Proof. unfold call_depth_limit. lia. Qed.

Lemma set_in_last_length fs name a : length (set_in_last fs name a) = length fs.
Proof.
  rewrite <- (map_length fname), set_in_last_names. apply map_length.
Qed.

Ltac dp_same := split; [cbn [frames]; first [assumption | cbn [length] in *; lia] | exact Logic.I].

Lemma dp_base : inv_base depth_ok Q_any.
Proof.
  constructor; unfold sat, depth_ok, Q_any; try (intros; exact Logic.I).
  - intros f s r s' HI H. prim_inv H s. dp_same.
  - intros A f s r s' HI H. prim_inv H s. dp_same.
  - intros name a s r s' HI H. unfold set_local in H.
    destruct (frames s) as [|f0 r0] eqn:Hf; inversion H; subst; (split; [|exact Logic.I]).
    + rewrite Hf. exact HI.
    + exact HI.
  - intros name a s r s' HI H. prim_inv H s. cbn [frames]. rewrite set_in_last_length. dp_same.
  - intros a s r s' HI H. prim_inv H s. dp_same.
  - intros a s r s' HI H. prim_inv H s. dp_same.
  - intros a s r s' HI H. prim_inv H s. dp_same.
  - intros b s r s' HI H. prim_inv H s. dp_same.
  - intros t s r s' HI H. prim_inv H s. dp_same.
  - intros evs s r s' HI H. prim_inv H s. dp_same.
  - intros A e s r s' HI H. prim_inv H s. dp_same.
Qed.

(* pushFrame: refusal exactly beyond the limit, and never beyond the bound *)
Lemma push_frame_refuses name s :
  (call_depth_limit < Z.of_nat (length (frames s)))%Z -> push_frame name s = (Ok false, s).
Proof.
  intros H. destruct (push_frame_cases name s) as [[_ E]|[Hc _]]; [exact E|].
  apply Z.ltb_ge in Hc. lia.
Qed.

Lemma push_frame_succeeds name s :
  (Z.of_nat (length (frames s)) <= call_depth_limit)%Z -> push_frame name s = (Ok true, pushed name s).
Proof.
  intros H. destruct (push_frame_cases name s) as [[Hc _]|[_ E]]; [|exact E].
  apply Z.ltb_lt in Hc. lia.
Qed.

Lemma push_frame_false_iff name s :
  fst (push_frame name s) = Ok false <-> (call_depth_limit < Z.of_nat (length (frames s)))%Z.
Proof.
  split.
  - intros H. destruct (Z_lt_le_dec call_depth_limit (Z.of_nat (length (frames s)))) as [L|L]; [exact L|].
    rewrite (push_frame_succeeds name s L) in H. discriminate.
  - intros H. rewrite (push_frame_refuses name s H). reflexivity.
Qed.

Lemma push_frame_keeps_depth name : keeps depth_ok (push_frame name).
Proof.
  intros s r s' HI H. unfold depth_ok in *.
  destruct (push_frame_cases name s) as [[_ E]|[Hc E]]; rewrite E in H; inversion H; subst.
  - assumption.
  - apply Z.ltb_ge in Hc. unfold pushed. cbn [frames length]. lia.
Qed.

Lemma dp_bracket : bracket_ok depth_ok Q_any.
Proof.
  apply (bracket_from_sat _ _ dp_base).
  - intros name s r s' HI H. split; [|exact Logic.I]. eapply push_frame_keeps_depth; eassumption.
  - intros s k s1 s2 HI _ H. split; [|exact Logic.I]. unfold depth_ok in *.
    destruct (pop_frame_cases s1) as [E|(f1 & f2 & rest & Hf & E)]; rewrite E in H; inversion H; subst.
    rewrite Hf in HI. cbn [frames length] in *. lia.
Qed.

Lemma dp_isolate : isolate_ok depth_ok Q_any.
Proof.
  intros A m Hm s r s' HI H. apply isolate_inv in H. destruct H as (s1 & H & E). subst s'.
  split; [exact HI|exact Logic.I].
Qed.

Lemma dp_ok : inv_ok depth_ok Q_any.
Proof. constructor; [exact dp_base|exact dp_bracket|exact dp_isolate]. Qed.

Lemma sat_keeps {A} (m : M A) : sat depth_ok Q_any m <-> keeps depth_ok m.
Proof.
  split.
  - intros H s r s' HI E. exact (proj1 (H s r s' HI E)).
  - intros H s r s' HI E. split; [eauto|exact Logic.I].
Qed.

Theorem depth_invariant_all : everywhere (fun A m => keeps depth_ok m).
Proof.
  apply (everywhere_impl (fun A m => sat depth_ok Q_any m)).
  - intros A m. apply sat_keeps.
  - intros A m. apply sat_keeps.
  - apply everywhere_sat. exact dp_ok.
Qed.

(* the whole run: the bound holds at the end (and, every function keeping it, throughout) *)
Theorem depth_invariant_run src prog fz sels n files r s' :
  run_body src prog fz sels n files init_state = (r, s') -> depth_ok s'.
Proof.
  rewrite run_body_eq. unfold bind at 1. cbn [set_frames]. intros H.
  match type of H with _ ?st1 = _ => set (s1 := st1) in * end.
  assert (HI : depth_ok s1).
  { unfold depth_ok, s1. cbn. pose proof call_depth_limit_nonneg. lia. }
  exact (proj1 (sat_run_body_tail _ _ dp_base dp_bracket dp_isolate src prog fz sels n files s1 r s' HI H)).
Qed.

(* ------------------------------------------------------------------ a refused push is a runtime error *)

Lemma rt_error_is_runtime {A} src t s :
  exists e, @rt_error src A t s =
            (Err e, mkSt (hp s) (frames s) (rule_root s) (root s) (retval s) (IoRaise :: io s)) /\
            ekind_of e = ERuntime.
Proof.
  unfold rt_error. destruct (get_line_col src (tpos t)) as [[text line] col].
  eexists. split; reflexivity.
Qed.

Theorem call_push_refused src funcs fz n tok fc args s idx fn name :
  load (hp s) fc = VFn idx ->
  nth_error funcs idx = Some fn ->
  get_string src (fident fn) = Some name ->
  (call_depth_limit < Z.of_nat (length (frames s)))%Z ->
  call_function src funcs fz (S n) tok fc args s = rt_error src tok s.
Proof.
  intros Hl Hn Hg Hd. rewrite call_function_S. unfold bind at 1. cbn [m_load]. rewrite Hl, Hn.
  unfold bind at 1. unfold tok_string. rewrite Hg. cbn [ret].
  unfold bind at 1. rewrite (push_frame_refuses name s Hd). reflexivity.
Qed.

Theorem match_push_refused src funcs fz n t sub pats body rest s bindings s1 :
  eval_case_match src funcs fz n sub pats s = (Ok (Some bindings), s1) ->
  (call_depth_limit < Z.of_nat (length (frames s1)))%Z ->
  eval_match_cases src funcs fz (S n) t sub ((pats, body) :: rest) s = rt_error src t s1.
Proof.
  intros Hc Hd. rewrite eval_match_cases_S. unfold bind at 1. rewrite Hc.
  unfold bind at 1. rewrite (push_frame_refuses _ s1 Hd). reflexivity.
Qed.

(* ... and below the limit the push is not refused: the callee gets its frame *)
Theorem call_push_accepted src funcs fz n tok fc args s idx fn name :
  load (hp s) fc = VFn idx ->
  nth_error funcs idx = Some fn ->
  get_string src (fident fn) = Some name ->
  (Z.of_nat (length (frames s)) <= call_depth_limit)%Z ->
  forall r s', call_function src funcs fz (S n) tok fc args s = (r, s') ->
  r <> Panic -> has_frame s ->
  frame_names s' = frame_names s /\
  (forall e, r = Err e -> exists l, io s' = IoRaise :: l).
Proof.
  intros _ _ _ _ r s' H Hr HI. split.
  - eapply call_balanced; eassumption.
  - intros e He. subst r.
    exact (ev_call _ err_last_all src funcs fz (S n) tok fc args s _ s' H).
Qed.

(* C08 + C20: calls made one after the other do not accumulate.  However many elements (with
   their calls, matches and next statements) have been processed before, the rules of the next
   element start on <root> alone, so a call made there is not refused *)
Theorem sequential_calls_do_not_accumulate src funcs fz n rules bid off k i s s1 name :
  frame_names s = [bs "<root>"] ->
  rules_start src funcs fz n rules bid off k i s s1 ->
  push_frame name s1 = (Ok true, pushed name s1).
Proof.
  intros Hs Hr.
  assert (HI : has_frame s).
  { unfold has_frame. intros E. unfold frame_names in Hs. rewrite E in Hs. discriminate. }
  destruct (history_independent _ _ _ _ _ _ _ _ _ _ _ HI Hr) as [_ E].
  apply push_frame_succeeds.
  assert (L : length (frames s1) = 1).
  { rewrite <- (map_length fname). fold (frame_names s1). rewrite E, Hs. reflexivity. }
  rewrite L. unfold call_depth_limit. lia.
Qed.
