(* C11: the output log only grows, and an error is the last thing that happens.
   Two instances of the generic invariant framework of Proofs/EvalInv.v. *)
From Coq Require Import List ZArith Lia.
From JQ Require Import Base.Bytes Num.F64 Syntax.Token Syntax.Lexer Syntax.Ast Syntax.Parser.
From JQ Require Import Json.JValue Json.Decode.
From JQ Require Import Gen.Generated Sem.Value Sem.Ops Sem.Natives Sem.Eval Sem.Driver.
From JQ Require Import Spec.EvalInvSpec Proofs.EvalInv.
Import ListNotations.
Open Scope nat_scope.

(* ------------------------------------------------------------------ the log and the output *)

Lemma output_of_app l l0 : output_of (l ++ l0) = output_of l0 ++ output_of l.
Proof. unfold output_of. rewrite rev_app_distr, map_app, concat_app. reflexivity. Qed.

Lemma output_of_raise l : output_of (IoRaise :: l) = output_of l.
Proof. change (IoRaise :: l) with ([IoRaise] ++ l). rewrite output_of_app. apply app_nil_r. Qed.

Lemma log_grows_output s s' : log_grows s s' -> exists b, output_of (io s') = output_of (io s) ++ b.
Proof. intros [l E]. rewrite E, output_of_app. eauto. Qed.

Lemma log_grows_same s s' : io s' = io s -> log_grows s s'.
Proof. intros E. exists []. exact E. Qed.
Lemma log_grows_refl s : log_grows s s. Proof. apply log_grows_same. reflexivity. Qed.
Lemma log_grows_trans s1 s2 s3 : log_grows s1 s2 -> log_grows s2 s3 -> log_grows s1 s3.
Proof. intros [l1 E1] [l2 E2]. exists (l2 ++ l1). rewrite E2, E1, app_assoc. reflexivity. Qed.

Ltac prim_inv H s :=
  first
    [ progress (unfold with_heap in H);
      match type of H with context [let '(_, _) := ?f ?h in _] => destruct (f h) end
    | progress (unfold set_local in H); destruct (frames s)
    | idtac ];
  inversion H; subst; clear H.

(* ------------------------------------------------------------------ instance 1: monotone log *)

Definition I_true (s : st) : Prop := True.
Definition Q_mono (s : st) (k : kind) (s' : st) : Prop := log_grows s s'.

Lemma mono_base : inv_base I_true Q_mono.
Proof.
  constructor; unfold sat, I_true, Q_mono.
  - intros. apply log_grows_refl.
  - intros s k1 s1 k2 s2 _. apply log_grows_trans.
  - intros s k s' H. exact H.
  - intros f s r s' _ H. prim_inv H s. split; [exact Logic.I|apply log_grows_same; reflexivity].
  - intros A f s r s' _ H. prim_inv H s. split; [exact Logic.I|apply log_grows_same; reflexivity].
  - intros name a s r s' _ H. prim_inv H s; (split; [exact Logic.I|apply log_grows_same; reflexivity]).
  - intros name a s r s' _ H. prim_inv H s. split; [exact Logic.I|apply log_grows_same; reflexivity].
  - intros a s r s' _ H. prim_inv H s. split; [exact Logic.I|apply log_grows_same; reflexivity].
  - intros a s r s' _ H. prim_inv H s. split; [exact Logic.I|apply log_grows_same; reflexivity].
  - intros a s r s' _ H. prim_inv H s. split; [exact Logic.I|apply log_grows_same; reflexivity].
  - intros b s r s' _ H. prim_inv H s. split; [exact Logic.I|]. exists [IoWrite b]. reflexivity.
  - intros t s r s' _ H. prim_inv H s. split; [exact Logic.I|]. exists [IoSignalAt t]. reflexivity.
  - intros evs s r s' _ H. prim_inv H s. split; [exact Logic.I|]. exists (rev (map io_of evs)). reflexivity.
  - intros A e s r s' _ H. prim_inv H s. split; [exact Logic.I|]. exists [IoRaise]. reflexivity.
Qed.

Lemma mono_bracket : bracket_ok I_true Q_mono.
Proof.
  apply (bracket_from_sat _ _ mono_base); unfold sat, I_true, Q_mono.
  - intros name s r s' _ H. split; [exact Logic.I|].
    destruct (push_frame_cases name s) as [[_ E]|[_ E]]; rewrite E in H; inversion H; subst;
      apply log_grows_same; reflexivity.
  - intros s k s1 s2 _ HQ H. split; [exact Logic.I|].
    destruct (pop_frame_cases s1) as [E|(f1 & f2 & rest & _ & E)]; rewrite E in H; inversion H; subst.
    exact HQ.
Qed.

Lemma mono_isolate : isolate_ok I_true Q_mono.
Proof.
  intros A m Hm s r s' _ H. apply isolate_inv in H. destruct H as (s1 & H & E). subst s'.
  split; [exact Logic.I|]. destruct (Hm _ _ _ Logic.I H) as [_ [l El]]. exists l. exact El.
Qed.

Lemma mono_ok : inv_ok I_true Q_mono.
Proof. constructor; [exact mono_base|exact mono_bracket|exact mono_isolate]. Qed.

Lemma sat_mono_preserves {A} (m : M A) : sat I_true Q_mono m -> preserves log_grows m.
Proof. intros H s r s' E. exact (proj2 (H s r s' Logic.I E)). Qed.

(* ------------------------------------------------------------------ instance 2: an error is last *)

Definition Q_err (s : st) (k : kind) (s' : st) : Prop :=
  k = KErr -> exists l, io s' = IoRaise :: l.

Lemma err_base : inv_base I_true Q_err.
Proof.
  constructor; unfold sat, I_true, Q_err.
  - intros s k _ Hk E. congruence.
  - intros s k1 s1 k2 s2 _ _ H. exact H.
  - intros s k s' _ E. discriminate.
  - intros f s r s' _ H. prim_inv H s. split; [exact Logic.I|discriminate].
  - intros A f s r s' _ H. prim_inv H s. split; [exact Logic.I|discriminate].
  - intros name a s r s' _ H. prim_inv H s; (split; [exact Logic.I|discriminate]).
  - intros name a s r s' _ H. prim_inv H s. split; [exact Logic.I|discriminate].
  - intros a s r s' _ H. prim_inv H s. split; [exact Logic.I|discriminate].
  - intros a s r s' _ H. prim_inv H s. split; [exact Logic.I|discriminate].
  - intros a s r s' _ H. prim_inv H s. split; [exact Logic.I|discriminate].
  - intros b s r s' _ H. prim_inv H s. split; [exact Logic.I|discriminate].
  - intros t s r s' _ H. prim_inv H s. split; [exact Logic.I|discriminate].
  - intros evs s r s' _ H. prim_inv H s. split; [exact Logic.I|discriminate].
  - intros A e s r s' _ H. prim_inv H s. split; [exact Logic.I|]. intros _. eexists. reflexivity.
Qed.

Lemma err_bracket : bracket_ok I_true Q_err.
Proof.
  apply (bracket_from_sat _ _ err_base); unfold sat, I_true, Q_err.
  - intros name s r s' _ H. split; [exact Logic.I|].
    destruct (push_frame_cases name s) as [[_ E]|[_ E]]; rewrite E in H; inversion H; subst;
      discriminate.
  - intros s k s1 s2 _ HQ H. split; [exact Logic.I|].
    destruct (pop_frame_cases s1) as [E|(f1 & f2 & rest & _ & E)]; rewrite E in H; inversion H; subst.
    exact HQ.
Qed.

Lemma err_isolate : isolate_ok I_true Q_err.
Proof.
  intros A m Hm s r s' _ H. apply isolate_inv in H. destruct H as (s1 & H & E). subst s'.
  split; [exact Logic.I|]. exact (proj2 (Hm _ _ _ Logic.I H)).
Qed.

Lemma err_ok : inv_ok I_true Q_err.
Proof. constructor; [exact err_base|exact err_bracket|exact err_isolate]. Qed.

Lemma sat_err_last {A} (m : M A) : sat I_true Q_err m -> err_last m.
Proof.
  intros H s r s' E. destruct (H s r s' Logic.I E) as [_ HQ].
  destruct r; try exact Logic.I. apply HQ. reflexivity.
Qed.

(* ------------------------------------------------------------------ instance 3: exactly one raise *)

Definition Q_one (s : st) (k : kind) (s' : st) : Prop :=
  match k with
  | KOk | KSig _ => exists l, io s' = l ++ io s /\ quiet l
  | KErr => exists l, io s' = IoRaise :: l ++ io s /\ quiet l
  | KPanic | KFuel | KUnsupp => True
  end.

Lemma quiet_nil : quiet []. Proof. intros H. inversion H. Qed.
Lemma quiet_app l1 l2 : quiet l1 -> quiet l2 -> quiet (l1 ++ l2).
Proof. unfold quiet. intros H1 H2 H. apply in_app_or in H. tauto. Qed.
Lemma quiet_reads (evs : list io_ev) : quiet (rev (map io_of evs)).
Proof.
  intros H. apply in_rev in H. apply in_map_iff in H. destruct H as (x & E & _).
  destruct x; discriminate.
Qed.

Lemma Q_one_same s k s' : k <> KErr -> io s' = io s -> Q_one s k s'.
Proof.
  intros Hk E. destruct k; cbn; try exact Logic.I; try congruence;
    (exists []; split; [exact E|apply quiet_nil]).
Qed.

Ltac one_same := split; [exact Logic.I|apply Q_one_same; [discriminate|reflexivity]].

Lemma one_base : inv_base I_true Q_one.
Proof.
  constructor; unfold sat, I_true.
  - intros s k _ Hk. apply Q_one_same; [assumption|reflexivity].
  - intros s k1 s1 k2 s2 Hs H1 H2.
    assert (H1' : exists l, io s1 = l ++ io s /\ quiet l) by (destruct k1; cbn in Hs; try contradiction; exact H1).
    destruct H1' as (l1 & E1 & Hq1).
    destruct k2; cbn in *; try exact Logic.I; destruct H2 as (l2 & E2 & Hq2).
    + exists (l2 ++ l1). split; [rewrite E2, E1, app_assoc; reflexivity|apply quiet_app; assumption].
    + exists (l2 ++ l1). split; [rewrite E2, E1, app_assoc; reflexivity|apply quiet_app; assumption].
    + exists (l2 ++ l1). split; [rewrite E2, E1, app_assoc; reflexivity|apply quiet_app; assumption].
  - intros s k s' _. exact Logic.I.
  - intros f s r s' _ H. prim_inv H s. one_same.
  - intros A f s r s' _ H. prim_inv H s. one_same.
  - intros name a s r s' _ H. prim_inv H s; one_same.
  - intros name a s r s' _ H. prim_inv H s. one_same.
  - intros a s r s' _ H. prim_inv H s. one_same.
  - intros a s r s' _ H. prim_inv H s. one_same.
  - intros a s r s' _ H. prim_inv H s. one_same.
  - intros b s r s' _ H. prim_inv H s. split; [exact Logic.I|]. exists [IoWrite b]. split; [reflexivity|].
    intros [E|[]]. discriminate.
  - intros t s r s' _ H. prim_inv H s. split; [exact Logic.I|]. exists [IoSignalAt t]. split; [reflexivity|].
    intros [E|[]]. discriminate.
  - intros evs s r s' _ H. prim_inv H s. split; [exact Logic.I|]. exists (rev (map io_of evs)).
    split; [reflexivity|apply quiet_reads].
  - intros A e s r s' _ H. prim_inv H s. split; [exact Logic.I|]. exists []. split; [reflexivity|apply quiet_nil].
Qed.

Lemma Q_one_io s k s1 s2 : io s2 = io s1 -> Q_one s k s1 -> Q_one s k s2.
Proof. intros E. destruct k; cbn; try rewrite E; auto. Qed.

Lemma one_bracket : bracket_ok I_true Q_one.
Proof.
  apply (bracket_from_sat _ _ one_base); unfold sat, I_true.
  - intros name s r s' _ H.
    destruct (push_frame_cases name s) as [[_ E]|[_ E]]; rewrite E in H; inversion H; subst; one_same.
  - intros s k s1 s2 _ HQ H. split; [exact Logic.I|].
    destruct (pop_frame_cases s1) as [E|(f1 & f2 & rest & _ & E)]; rewrite E in H; inversion H; subst.
    eapply Q_one_io; [|exact HQ]. reflexivity.
Qed.

Lemma one_isolate : isolate_ok I_true Q_one.
Proof.
  intros A m Hm s r s' _ H. apply isolate_inv in H. destruct H as (s1 & H & E). subst s'.
  split; [exact Logic.I|]. destruct (Hm _ _ _ Logic.I H) as [_ HQ].
  destruct (kind_of r); cbn in *; exact HQ.
Qed.

Lemma one_ok : inv_ok I_true Q_one.
Proof. constructor; [exact one_base|exact one_bracket|exact one_isolate]. Qed.

Lemma sat_one_iff {A} (m : M A) : sat I_true Q_one m <-> raises_surface m.
Proof.
  split.
  - intros H s r s' E. destruct (H s r s' Logic.I E) as [_ HQ]. destruct r; exact HQ.
  - intros H s r s' _ E. split; [exact Logic.I|]. specialize (H s r s' E). destruct r; exact H.
Qed.

(* ------------------------------------------------------------------ all functions, both instances *)

Section AllFunctions.
  Variable P : forall A, M A -> Prop.
  Arguments P {A} _.

  (* every evaluator and driver function enjoys P *)
  Record everywhere : Prop := {
    ev_expr : forall src funcs fz n e, P (eval_expr src funcs fz n e);
    ev_match_cases : forall src funcs fz n t sub cs, P (eval_match_cases src funcs fz n t sub cs);
    ev_case_match : forall src funcs fz n sub ps, P (eval_case_match src funcs fz n sub ps);
    ev_call : forall src funcs fz n tok fc args, P (call_function src funcs fz n tok fc args);
    ev_unary : forall src funcs fz n x op pf, P (eval_unary src funcs fz n x op pf);
    ev_binary : forall src funcs fz n l r op, P (eval_binary src funcs fz n l r op);
    ev_expr_list : forall src funcs fz n es c, P (eval_expr_list src funcs fz n es c);
    ev_stmt : forall src funcs fz n s, P (eval_stmt src funcs fz n s);
    ev_body : forall src funcs fz n b, P (eval_body src funcs fz n b);
    ev_while : forall src funcs fz n c b k, P (eval_while src funcs fz n c b k);
    ev_for : forall src funcs fz n c p b k, P (eval_for src funcs fz n c p b k);
    ev_forin_arr : forall src funcs fz n lo ix bid off len i b,
        P (eval_forin_arr src funcs fz n lo ix bid off len i b);
    ev_forin_obj : forall src funcs fz n lo ix oid keys b,
        P (eval_forin_obj src funcs fz n lo ix oid keys b);
    ev_forin_str : forall src funcs fz n lo ix rs b, P (eval_forin_str src funcs fz n lo ix rs b);
    ev_set_member : forall recv m cell, P (set_member recv m cell);
    ev_create_speculative : forall n spec, P (create_speculative n spec);
    ev_assignment : forall src n tok l r, P (eval_assignment src n tok l r);
    ev_native : forall nf args this, P (native_call nf args this);
    ev_rules : forall src funcs fz n rules, P (eval_rules src funcs fz n rules);
    ev_elements : forall src funcs fz n rules bid off len k i,
        P (eval_elements src funcs fz n rules bid off len k i);
    ev_pattern_rules : forall src funcs fz n rules, P (eval_pattern_rules src funcs fz n rules);
    ev_selector : forall n sel doc, P (eval_selector n sel doc);
    ev_run_special : forall src prog fz n rs mk, P mk -> P (run_special src prog fz n rs mk);
    ev_process_root : forall src prog fz n rc, P (process_root src prog fz n rc);
    ev_process_value : forall src prog fz sels n name doc, P (process_value src prog fz sels n name doc);
    ev_decode_loop : forall src prog fz sels n k name d, P (decode_loop src prog fz sels n k name d);
    ev_run_files : forall src prog fz sels n files, P (run_files src prog fz sels n files)
  }.
End AllFunctions.

Lemma everywhere_sat I Q : inv_ok I Q -> everywhere (fun A m => sat I Q m).
Proof.
  intros [B BR ISO].
  constructor; intros.
  - apply (as_expr _ _ _ _ _ _ (all_sat_n I Q B BR src funcs fz n)).
  - apply (as_match_cases _ _ _ _ _ _ (all_sat_n I Q B BR src funcs fz n)).
  - apply (as_case_match _ _ _ _ _ _ (all_sat_n I Q B BR src funcs fz n)).
  - apply (as_call _ _ _ _ _ _ (all_sat_n I Q B BR src funcs fz n)).
  - apply (as_unary _ _ _ _ _ _ (all_sat_n I Q B BR src funcs fz n)).
  - apply (as_binary _ _ _ _ _ _ (all_sat_n I Q B BR src funcs fz n)).
  - apply (as_expr_list _ _ _ _ _ _ (all_sat_n I Q B BR src funcs fz n)).
  - apply (as_stmt _ _ _ _ _ _ (all_sat_n I Q B BR src funcs fz n)).
  - apply (as_body _ _ _ _ _ _ (all_sat_n I Q B BR src funcs fz n)).
  - apply (as_while _ _ _ _ _ _ (all_sat_n I Q B BR src funcs fz n)).
  - apply (as_for _ _ _ _ _ _ (all_sat_n I Q B BR src funcs fz n)).
  - apply (as_forin_arr _ _ _ _ _ _ (all_sat_n I Q B BR src funcs fz n)).
  - apply (as_forin_obj _ _ _ _ _ _ (all_sat_n I Q B BR src funcs fz n)).
  - apply (as_forin_str _ _ _ _ _ _ (all_sat_n I Q B BR src funcs fz n)).
  - apply sat_set_member; assumption.
  - apply sat_create_speculative; assumption.
  - apply sat_eval_assignment; assumption.
  - apply sat_native_call; assumption.
  - apply sat_eval_rules; assumption.
  - apply sat_eval_elements; assumption.
  - apply sat_eval_pattern_rules; assumption.
  - apply sat_eval_selector; assumption.
  - apply sat_run_special; assumption.
  - apply sat_process_root; assumption.
  - apply sat_process_value; assumption.
  - apply sat_decode_loop; assumption.
  - apply sat_run_files; assumption.
Qed.

Lemma everywhere_impl (P P' : forall A, M A -> Prop) :
  (forall A m, P A m -> P' A m) -> (forall A m, P' A m -> P A m) -> everywhere P -> everywhere P'.
Proof.
  intros H H' E. destruct E. constructor; intros; apply H; auto.
Qed.

(* ------------------------------------------------------------------ the theorems *)

Theorem output_monotone_all : everywhere (fun A m => preserves log_grows m).
Proof.
  apply (everywhere_impl (fun A m => sat I_true Q_mono m)).
  - intros A m. apply sat_mono_preserves.
  - intros A m H s r s' _ E. split; [exact Logic.I|exact (H s r s' E)].
  - apply everywhere_sat. exact mono_ok.
Qed.

Theorem err_last_all : everywhere (fun A m => err_last m).
Proof.
  apply (everywhere_impl (fun A m => sat I_true Q_err m)).
  - intros A m. apply sat_err_last.
  - intros A m H s r s' _ E. split; [exact Logic.I|]. intros Hk. specialize (H s r s' E).
    destruct r; cbn in Hk; try discriminate. exact H.
  - apply everywhere_sat. exact err_ok.
Qed.

Lemma sat_set_frames_true (Q : st -> kind -> st -> Prop) fs :
  (forall s, Q s KOk (mkSt (hp s) fs (rule_root s) (root s) (retval s) (io s))) ->
  sat I_true Q (set_frames fs).
Proof. intros HQ s r s' _ H. inversion H; subst. split; [exact Logic.I|apply HQ]. Qed.

Lemma run_body_sat_true (Q : st -> kind -> st -> Prop) src prog fz sels n files :
  inv_ok I_true Q ->
  (forall fs s, Q s KOk (mkSt (hp s) fs (rule_root s) (root s) (retval s) (io s))) ->
  sat I_true Q (run_body src prog fz sels n files).
Proof.
  intros [B BR ISO] HQ. eapply sat_ext; [intros s; apply run_body_eq|].
  apply (sat_bind _ _ B); [apply sat_set_frames_true, HQ|intros _].
  apply sat_run_body_tail; assumption.
Qed.

Theorem output_monotone_run src prog fz sels n files :
  preserves log_grows (run_body src prog fz sels n files).
Proof.
  apply sat_mono_preserves. apply run_body_sat_true; [exact mono_ok|].
  intros fs s. apply log_grows_same. reflexivity.
Qed.

Theorem err_last_run src prog fz sels n files : err_last (run_body src prog fz sels n files).
Proof.
  apply sat_err_last. apply run_body_sat_true; [exact err_ok|].
  intros fs s. discriminate.
Qed.

(* the bytes printed so far are never retracted *)
Theorem output_prefix_run src prog fz sels n files s r s' :
  run_body src prog fz sels n files s = (r, s') ->
  exists b, output_of (io s') = output_of (io s) ++ b.
Proof. intros H. apply log_grows_output. exact (output_monotone_run _ _ _ _ _ _ _ _ _ H). Qed.

Lemma eval_program_ok n src files sels fz prog p :
  parse_program src = POk prog p ->
  eval_program n src files sels fz =
  mkRun (classify (fst (run_body src prog fz sels n files init_state)))
        (snd (run_body src prog fz sels n files init_state)).
Proof.
  intros Hp. unfold eval_program. rewrite Hp.
  destruct (run_body src prog fz sels n files init_state) as [r s]. reflexivity.
Qed.

Lemma classify_err r :
  (exists e, classify r = ORuntime e) \/ classify r = OJson \/ (exists e, classify r = OSyntax e) ->
  exists e, r = Err e.
Proof.
  destruct r as [u|e|x| | |]; cbn; try (intros [[e H]|[H|[e H]]]; discriminate); eauto.
  destruct x; intros [[e H]|[H|[e H]]]; discriminate.
Qed.

(* an error outcome of a run whose program parsed: the raise is the last event *)
Theorem fault_stops_parsed n src files sels fz prog p s o :
  parse_program src = POk prog p ->
  eval_program n src files sels fz = mkRun o s ->
  (exists e, o = ORuntime e) \/ o = OJson \/ (exists e, o = OSyntax e) ->
  exists l, io s = IoRaise :: l /\ output_of (io s) = output_of l.
Proof.
  intros Hp He Ho. rewrite (eval_program_ok _ _ _ _ _ _ _ Hp) in He.
  destruct (run_body src prog fz sels n files init_state) as [r s0] eqn:Hr.
  cbn [fst snd] in He. inversion He; subst o s0. clear He.
  destruct (classify_err r Ho) as [e Hre]. subst r.
  pose proof (err_last_run _ _ _ _ _ _ _ _ _ Hr) as [l El]. cbn in El.
  exists l. split; [exact El|]. rewrite El. apply output_of_raise.
Qed.

Lemma eval_program_runtime_parsed n src files sels fz o s :
  eval_program n src files sels fz = mkRun o s ->
  (exists e, o = ORuntime e) \/ o = OJson ->
  exists prog p, parse_program src = POk prog p.
Proof.
  unfold eval_program. destruct (parse_program src) as [prog p|pos| |]; eauto;
    intros H; inversion H; subst; intros [[e E]|E]; discriminate.
Qed.

Theorem fault_stops_runtime n src files sels fz e s :
  eval_program n src files sels fz = mkRun (ORuntime e) s ->
  exists l, io s = IoRaise :: l /\ output_of (io s) = output_of l.
Proof.
  intros H. destruct (eval_program_runtime_parsed _ _ _ _ _ _ _ H) as (prog & p & Hp); [eauto|].
  eapply fault_stops_parsed; eauto.
Qed.

Theorem fault_stops_json n src files sels fz s :
  eval_program n src files sels fz = mkRun OJson s ->
  exists l, io s = IoRaise :: l /\ output_of (io s) = output_of l.
Proof.
  intros H. destruct (eval_program_runtime_parsed _ _ _ _ _ _ _ H) as (prog & p & Hp); [eauto|].
  eapply fault_stops_parsed; eauto.
Qed.

(* a syntax error in a root selector (the program itself parsed) *)
Theorem fault_stops_selector_syntax n src files sels fz prog p e s :
  parse_program src = POk prog p ->
  eval_program n src files sels fz = mkRun (OSyntax e) s ->
  exists l, io s = IoRaise :: l /\ output_of (io s) = output_of l.
Proof. intros Hp H. eapply fault_stops_parsed; eauto. Qed.

(* a syntax error in the program: nothing happens at all *)
Theorem syntax_error_silent n src files sels fz pos :
  parse_program src = PErr pos ->
  eval_program n src files sels fz = mkRun (OSyntax (syntax_error src pos)) init_state /\
  io (r_state (eval_program n src files sels fz)) = [] /\
  output_of (io (r_state (eval_program n src files sels fz))) = [].
Proof.
  intros Hp. unfold eval_program. rewrite Hp. repeat split.
Qed.

(* the log of a whole run only grows from the empty log: trivial, but the prefix
   property holds between any two points of the run because every function is monotone *)
Theorem run_special_keeps_output src prog fz n rs mk s r s' :
  preserves log_grows mk ->
  run_special src prog fz n rs mk s = (r, s') ->
  exists b, output_of (io s') = output_of (io s) ++ b.
Proof.
  intros Hmk H. apply log_grows_output.
  exact (ev_run_special _ output_monotone_all src prog fz n rs mk Hmk _ _ _ H).
Qed.

(* ------------------------------------------------------------------ a failure is never ignored *)

Theorem raises_surface_all : everywhere (fun A m => raises_surface m).
Proof.
  apply (everywhere_impl (fun A m => sat I_true Q_one m)).
  - intros A m. apply sat_one_iff.
  - intros A m. apply sat_one_iff.
  - apply everywhere_sat. exact one_ok.
Qed.

Theorem raises_surface_run src prog fz sels n files :
  raises_surface (run_body src prog fz sels n files).
Proof.
  apply sat_one_iff. apply run_body_sat_true; [exact one_ok|].
  intros fs s. apply Q_one_same; [discriminate|reflexivity].
Qed.

(* a run that ends normally (or with exit) has not raised anything, anywhere *)
Theorem no_silent_failure n src files sels fz s :
  eval_program n src files sels fz = mkRun OOk s -> ~ In IoRaise (io s).
Proof.
  unfold eval_program. destruct (parse_program src) as [prog p|pos| |]; try discriminate.
  destruct (run_body src prog fz sels n files init_state) as [r s0] eqn:Hr. intros H.
  injection H as Hc Hs. subst s0.
  pose proof (raises_surface_run _ _ _ _ _ _ _ _ _ Hr) as HS.
  destruct r as [u|e|x| | |]; cbn in Hc; try discriminate Hc.
  - destruct HS as (l & E & Hq). cbn in E. rewrite app_nil_r in E. rewrite E. exact Hq.
  - destruct (ekind_of e); discriminate Hc.
  - destruct HS as (l & E & Hq). cbn in E. rewrite app_nil_r in E. rewrite E. exact Hq.
Qed.

(* a run that ends in an error has raised exactly once: at the very end *)
Theorem one_failure n src files sels fz prog p s o :
  parse_program src = POk prog p ->
  eval_program n src files sels fz = mkRun o s ->
  (exists e, o = ORuntime e) \/ o = OJson \/ (exists e, o = OSyntax e) ->
  exists l, io s = IoRaise :: l /\ ~ In IoRaise l.
Proof.
  intros Hp He Ho. rewrite (eval_program_ok _ _ _ _ _ _ _ Hp) in He.
  destruct (run_body src prog fz sels n files init_state) as [r s0] eqn:Hr.
  cbn [fst snd] in He. inversion He; subst o s0. clear He.
  destruct (classify_err r Ho) as [e Hre]. subst r.
  pose proof (raises_surface_run _ _ _ _ _ _ _ _ _ Hr) as (l & E & Hq). cbn in E.
  rewrite app_nil_r in E. eauto.
Qed.
