(* C08: frames are balanced.  Every function of the evaluator leaves the stack of frame
   NAMES as it found it, for every outcome other than a Go panic; the stack is never empty. *)
From Coq Require Import List ZArith Lia.
From JQ Require Import Base.Bytes Num.F64 Syntax.Token Syntax.Lexer Syntax.Ast Syntax.Parser.
From JQ Require Import Json.JValue Json.Decode.
From JQ Require Import Gen.Generated Sem.Value Sem.Ops Sem.Natives Sem.Eval Sem.Driver.
From JQ Require Import Spec.EvalInvSpec Proofs.EvalInv Proofs.EvalFaults.
Import ListNotations.
Open Scope nat_scope.

Definition Q_fr (s : st) (k : kind) (s' : st) : Prop := k <> KPanic -> same_frames s s'.

Lemma set_in_last_names fs name a : map fname (set_in_last fs name a) = map fname fs.
Proof.
  induction fs as [|f r IH]; [reflexivity|].
  destruct r as [|g r']; [reflexivity|].
  change (set_in_last (f :: g :: r') name a) with (f :: set_in_last (g :: r') name a).
  cbn [map]. rewrite IH. reflexivity.
Qed.

Lemma names_nonempty fs : map fname fs <> [] <-> fs <> [].
Proof. destruct fs; cbn; split; intros H; congruence. Qed.

Ltac fr_same := split; [assumption | intros _; reflexivity].

Lemma fr_base : inv_base has_frame Q_fr.
Proof.
  constructor; unfold sat, has_frame, Q_fr, same_frames, frame_names.
  - intros s k _ _ _. reflexivity.
  - intros s k1 s1 k2 s2 Hk H1 H2 Hk2. rewrite (H2 Hk2). apply H1.
    destruct k1; cbn in Hk; try contradiction; discriminate.
  - intros s k s' _ C. congruence.
  - intros f s r s' HI H. prim_inv H s. fr_same.
  - intros A f s r s' HI H. prim_inv H s. fr_same.
  - intros name a s r s' HI H. prim_inv H s; [congruence|].
    split; [discriminate|intros _; reflexivity].
  - intros name a s r s' HI H. prim_inv H s. cbn [frames].
    split; [|intros _; apply set_in_last_names].
    apply names_nonempty. rewrite set_in_last_names. apply names_nonempty. assumption.
  - intros a s r s' HI H. prim_inv H s. fr_same.
  - intros a s r s' HI H. prim_inv H s. fr_same.
  - intros a s r s' HI H. prim_inv H s. fr_same.
  - intros b s r s' HI H. prim_inv H s. fr_same.
  - intros t s r s' HI H. prim_inv H s. fr_same.
  - intros evs s r s' HI H. prim_inv H s. fr_same.
  - intros A e s r s' HI H. prim_inv H s. fr_same.
Qed.

Lemma fr_bracket : bracket_ok has_frame Q_fr.
Proof.
  intros A B name onfail binds body h Hon Hb Hop Hbody Hh s r s' HI H.
  apply bracket_inv in H. destruct H as [[Hl H]|[Hl (rb & s2 & Hbs & H)]].
  - exact (Hon _ _ _ HI H).
  - assert (HI1 : has_frame (pushed name s)) by (unfold has_frame, pushed; cbn; discriminate).
    destruct (Hb _ _ _ HI1 Hbs) as [HI2 HQ2].
    destruct H as [(Hn & Hk & Hs) | (Hk & rc & s3 & Hbd & H)].
    + subst s'. split; [assumption|]. rewrite Hk.
      destruct (Hop _ _ _ Hbs) as [E|E]; [congruence|]. intros C. congruence.
    + rewrite Hk in HQ2.
      assert (Hn2 : frame_names s2 = name :: frame_names s).
      { apply HQ2. discriminate. }
      destruct (Hbody _ _ _ HI2 Hbd) as [HI3 (r0 & Hrc & HQ3)]. subst rc.
      destruct H as [(Hpp & Hs & Hkp) | (s4 & Hpp & Hh4)].
      * subst s'. split; [assumption|]. rewrite Hkp. intros C. congruence.
      * destruct (pop_frame_cases s3) as [E|(f1 & f2 & rest & Hf & E)];
          rewrite E in Hpp; [discriminate|]. inversion Hpp; subst s4. clear Hpp E.
        match type of Hh4 with h r0 ?st4 = _ => set (s4 := st4) in * end.
        assert (HI4 : has_frame s4) by (unfold has_frame, s4; cbn; discriminate).
        assert (Hn4 : kind_of r0 <> KPanic -> frame_names s4 = frame_names s).
        { intros Hnp. specialize (HQ3 Hnp). unfold same_frames in HQ3. rewrite Hn2 in HQ3.
          unfold frame_names in HQ3 at 1. rewrite Hf in HQ3. cbn [map] in HQ3.
          inversion HQ3. unfold frame_names at 1, s4. cbn [frames map]. congruence. }
        destruct (Hh r0) as [[Hsoft Hs] | [Hno He]].
        -- assert (Hnp : kind_of r0 <> KPanic).
           { destruct r0; cbn in Hsoft; try contradiction; discriminate. }
           destruct (Hs _ _ _ HI4 Hh4) as [HI5 HQ5]. split; [assumption|].
           intros Hk5. unfold same_frames. rewrite (HQ5 Hk5). apply Hn4. assumption.
        -- rewrite He in Hh4. destruct (@reraise_spec A B r0 s4 Hno) as (r' & Hr & Hkd).
           rewrite Hr in Hh4. inversion Hh4; subst r' s'. split; [assumption|].
           rewrite Hkd. exact Hn4.
Qed.

Lemma fr_isolate : isolate_ok has_frame Q_fr.
Proof.
  intros A m Hm s r s' HI H. apply isolate_inv in H. destruct H as (s1 & H & E). subst s'.
  split; [exact HI|]. intros _. reflexivity.
Qed.

Lemma fr_ok : inv_ok has_frame Q_fr.
Proof. constructor; [exact fr_base|exact fr_bracket|exact fr_isolate]. Qed.

(* the readable form of the invariant *)
Definition balanced {A} (m : M A) : Prop :=
  keeps has_frame m /\ preserves_unless_panic has_frame same_frames m.

Lemma kind_panic {A} (r : res A) : kind_of r <> KPanic <-> r <> Panic.
Proof. destruct r; cbn; split; intros H; congruence. Qed.

Lemma sat_balanced {A} (m : M A) : sat has_frame Q_fr m <-> balanced m.
Proof.
  split.
  - intros H. split.
    + intros s r s' HI E. exact (proj1 (H s r s' HI E)).
    + intros s r s' HI E Hr. apply (proj2 (H s r s' HI E)). apply kind_panic. assumption.
  - intros [H1 H2] s r s' HI E. split; [eauto|]. intros Hk. apply (H2 s r s' HI E).
    apply kind_panic. assumption.
Qed.

Theorem frames_balanced_all : everywhere (fun A m => balanced m).
Proof.
  apply (everywhere_impl (fun A m => sat has_frame Q_fr m)).
  - intros A m. apply sat_balanced.
  - intros A m. apply sat_balanced.
  - apply everywhere_sat. exact fr_ok.
Qed.

Lemma same_frames_length s s' : same_frames s s' -> length (frames s') = length (frames s).
Proof.
  unfold same_frames, frame_names. intros H.
  rewrite <- (map_length fname (frames s')), H. apply map_length.
Qed.

(* a finished call leaves nothing behind *)
Theorem call_balanced src funcs fz n tok fc args s r s' :
  has_frame s -> call_function src funcs fz n tok fc args s = (r, s') -> r <> Panic ->
  frame_names s' = frame_names s.
Proof. intros HI H Hr. exact (proj2 (ev_call _ frames_balanced_all src funcs fz n tok fc args) s r s' HI H Hr). Qed.

Theorem callee_frame_gone src funcs fz n tok fc args s r s' :
  has_frame s -> call_function src funcs fz n tok fc args s = (r, s') -> r <> Panic ->
  length (frames s') = length (frames s) /\ has_frame s'.
Proof.
  intros HI H Hr. split.
  - apply same_frames_length. eapply call_balanced; eassumption.
  - exact (proj1 (ev_call _ frames_balanced_all src funcs fz n tok fc args) s r s' HI H).
Qed.

(* a finished match leaves nothing behind *)
Theorem match_balanced src funcs fz n t sub cs s r s' :
  has_frame s -> eval_match_cases src funcs fz n t sub cs s = (r, s') -> r <> Panic ->
  frame_names s' = frame_names s.
Proof.
  intros HI H Hr.
  exact (proj2 (ev_match_cases _ frames_balanced_all src funcs fz n t sub cs) s r s' HI H Hr).
Qed.

(* the rules of one element (with their next statements) leave nothing behind *)
Theorem rules_balanced src funcs fz n rules s r s' :
  has_frame s -> eval_rules src funcs fz n rules s = (r, s') -> r <> Panic ->
  frame_names s' = frame_names s.
Proof.
  intros HI H Hr. exact (proj2 (ev_rules _ frames_balanced_all src funcs fz n rules) s r s' HI H Hr).
Qed.

(* ------------------------------------------------------------------ history independence *)

(* what evalPatternRules does for one element before running the rules *)
Definition element_prologue (item : addr) (i : nat) : M unit :=
  set_rule_root (Some item) ;;;
  (let* c := m_alloc (num_of_nat i) in set_local (bs "$index") c).

Lemma eval_elements_S_eq src funcs fz n rules bid off len k i s :
  eval_elements src funcs fz n rules bid off len (S k) i s =
  match nth_error (get_back (hp s) bid) (off + i) with
  | None => (Panic, s)
  | Some item =>
    (element_prologue item i ;;;
     eval_rules src funcs fz n rules ;;;
     eval_elements src funcs fz n rules bid off len k (S i)) s
  end.
Proof.
  cbn [eval_elements]. unfold bind at 1. cbn [get_heap].
  destruct (nth_error (get_back (hp s) bid) (off + i)) as [item|]; [|reflexivity].
  unfold element_prologue. rewrite bind_assoc. reflexivity.
Qed.

(* [rules_start k i s s1]: during  eval_elements ... k i  started in state s, the rules of
   some element are started in state s1 *)
Inductive rules_start (src : bytes) (funcs : list func) (fz : bool) (n : nat) (rules : list rule)
          (bid : positive) (off : nat) : nat -> nat -> st -> st -> Prop :=
| rs_here : forall k i s item s1,
    nth_error (get_back (hp s) bid) (off + i) = Some item ->
    element_prologue item i s = (Ok tt, s1) ->
    rules_start src funcs fz n rules bid off (S k) i s s1
| rs_later : forall k i s item s1 s2 s3,
    nth_error (get_back (hp s) bid) (off + i) = Some item ->
    element_prologue item i s = (Ok tt, s1) ->
    eval_rules src funcs fz n rules s1 = (Ok tt, s2) ->
    rules_start src funcs fz n rules bid off k (S i) s2 s3 ->
    rules_start src funcs fz n rules bid off (S k) i s s3.

Lemma prologue_balanced item i : balanced (element_prologue item i).
Proof.
  apply sat_balanced. unfold element_prologue.
  apply (sat_bind _ _ fr_base); [apply (ok_set_rule_root _ _ fr_base)|intros _].
  apply (sat_bind _ _ fr_base); [apply (sat_m_alloc _ _ fr_base)|intros c].
  apply (ok_set_local _ _ fr_base).
Qed.

(* every element's rules start with the frame stack the element loop was entered with:
   the depth at which element number k is processed does not depend on k, nor on the
   calls, matches and next statements executed for the elements before it *)
Theorem history_independent src funcs fz n rules bid off k i s s1 :
  has_frame s ->
  rules_start src funcs fz n rules bid off k i s s1 ->
  has_frame s1 /\ frame_names s1 = frame_names s.
Proof.
  intros HI H. induction H as [k i s item s1 Hn Hp | k i s item s1 s2 s3 Hn Hp Hr Hrest IH].
  - destruct (prologue_balanced item i) as [H1 H2]. split; [eauto|].
    apply (H2 s (Ok tt) s1 HI Hp). discriminate.
  - destruct (prologue_balanced item i) as [H1 H2].
    assert (HI1 : has_frame s1) by eauto.
    assert (E1 : frame_names s1 = frame_names s) by (apply (H2 s (Ok tt) s1 HI Hp); discriminate).
    destruct (ev_rules _ frames_balanced_all src funcs fz n rules) as [H3 H4].
    assert (HI2 : has_frame s2) by eauto.
    assert (E2 : frame_names s2 = frame_names s1) by (apply (H4 s1 (Ok tt) s2 HI1 Hr); discriminate).
    destruct (IH HI2) as [HI3 E3]. split; [assumption|]. congruence.
Qed.

(* the whole run happens on top of the single <root> frame *)
Theorem run_at_root src prog fz sels n files r s' :
  run_body src prog fz sels n files init_state = (r, s') -> r <> Panic ->
  frame_names s' = [bs "<root>"].
Proof.
  rewrite run_body_eq. unfold bind at 1. cbn [set_frames]. intros H Hr.
  match type of H with _ ?st1 = _ => set (s1 := st1) in * end.
  assert (HI : has_frame s1) by (unfold has_frame, s1; cbn; discriminate).
  destruct (sat_run_body_tail _ _ fr_base fr_bracket fr_isolate src prog fz sels n files s1 r s' HI H)
    as [_ HQ].
  apply HQ. apply kind_panic. assumption.
Qed.
