(* Global invariants of the evaluator: the generic infrastructure.

   An invariant is a pair (I, Q): a state predicate I that every function keeps for
   EVERY outcome, and a relation Q s k s' between the state before, the KIND of outcome
   and the state after.  [sat I Q m] says that the computation m respects the pair.
   [inv_ok I Q] collects what has to be checked about the primitives of Sem/Value.v;
   from it, ONE induction on fuel ([all_sat_n]) shows that every function of the
   mutually recursive evaluator, the rule loops and the driver respect the pair.

   The catch sites (match bodies, function calls, loop bodies, rules, special rules,
   selectors) are covered by [sat_catch] (derived) and the two hypotheses [ok_bracket]
   (push_frame ... catch ... pop_frame ... re-raise) and [ok_isolate] (the private
   evaluator of a root selector). *)
From Coq Require Import List ZArith Lia.
From JQ Require Import Base.Bytes Num.F64 Syntax.Token Syntax.Lexer Syntax.Ast Syntax.Parser.
From JQ Require Import Json.JValue Json.Decode Json.Encode.
From JQ Require Import Oracle.Utf8.
From JQ Require Import Gen.Generated Sem.Value Sem.Ops Sem.Natives Sem.Eval Sem.Driver.
From JQ Require Import Proofs.EvalUnfold.
Import ListNotations.
Open Scope nat_scope.

(* ------------------------------------------------------------------ outcomes *)

Inductive kind := KOk | KErr | KSig (x : signal) | KPanic | KFuel | KUnsupp.

Definition kind_of {A} (r : res A) : kind :=
  match r with
  | Ok _ => KOk | Err _ => KErr | Sig x => KSig x | Panic => KPanic | Fuel => KFuel | Unsupp => KUnsupp
  end.

(* the outcomes after which Go code simply goes on: a value, or a signal that a loop, a call
   or the rule loop handles *)
Definition soft (k : kind) : Prop := match k with KOk | KSig _ => True | _ => False end.

Definition ok_or_panic {A} (m : M A) : Prop :=
  forall s r s', m s = (r, s') -> kind_of r = KOk \/ kind_of r = KPanic.

Definition always_ok {A} (m : M A) : Prop :=
  forall s, exists a s', m s = (Ok a, s').

(* evalExpression runs its expression in a private evaluator: fresh frames and roots,
   shared heap and stdout *)
Definition isolate {A} (m : M A) : M A := fun s0 =>
  let '(r, s1) := m (mkSt (hp s0) [] None None None (io s0)) in
  (r, mkSt (hp s1) (frames s0) (rule_root s0) (root s0) (retval s0) (io s1)).

Definition root_frames : list frame := [mkFrame (bs "<root>") []].

Section Defs.
  Variable I : st -> Prop.
  Variable Q : st -> kind -> st -> Prop.

  Definition sat {A} (m : M A) : Prop :=
    forall s r s', I s -> m s = (r, s') -> I s' /\ Q s (kind_of r) s'.

  (* a computation that hands an outcome back as a value *)
  Definition catchlike {A} (m : M (res A)) : Prop :=
    forall s r s', I s -> m s = (r, s') ->
      I s' /\ exists r0, r = Ok r0 /\ Q s (kind_of r0) s'.

  (* what is done with a caught outcome: handled by a respectful computation, or
     re-raised as it is *)
  Definition handler {A B} (h : res A -> M B) : Prop :=
    forall r, (soft (kind_of r) /\ sat (h r)) \/ (kind_of r <> KOk /\ h r = reraise r).

  Record inv_base : Prop := {
    ok_refl : forall s k, I s -> k <> KErr -> Q s k s;
    ok_trans : forall s k1 s1 k2 s2, soft k1 -> Q s k1 s1 -> Q s1 k2 s2 -> Q s k2 s2;
    ok_to_panic : forall s k s', Q s k s' -> Q s KPanic s';
    ok_upd_heap : forall f, sat (upd_heap f);
    ok_with_heap : forall A (f : heap -> A * heap), sat (with_heap f);
    ok_set_local : forall name a, sat (set_local name a);
    ok_set_global : forall name a, sat (set_global name a);
    ok_set_retval : forall a, sat (set_retval a);
    ok_set_rule_root : forall a, sat (set_rule_root a);
    ok_set_root : forall a, sat (set_root a);
    ok_emit : forall b, sat (emit b);
    ok_note_signal : forall t, sat (note_signal t);
    ok_log_io : forall evs : list io_ev, sat (log_io (map io_of evs));   (* the reads of the decoder *)
    ok_raise : forall A e, sat (@raise_err A e)
  }.

  Definition bracket_ok : Prop :=
    forall A B name (onfail : M B) (binds : M unit) (body : M (res A)) (h : res A -> M B),
      sat onfail -> sat binds -> ok_or_panic binds -> catchlike body -> handler h ->
      sat (let* ok := push_frame name in
           if negb ok then onfail
           else binds ;;; (let* r := body in pop_frame ;;; h r)).

  Definition isolate_ok : Prop :=
    forall A (m : M A), sat m -> sat (isolate (set_frames root_frames ;;; m)).

  Record inv_ok : Prop := {
    ok_base :> inv_base;
    ok_bracket : bracket_ok;
    ok_isolate : isolate_ok
  }.
End Defs.

(* ------------------------------------------------------------------ monad facts *)

Lemma bind_assoc {A B C} (m : M A) (k : A -> M B) (g : B -> M C) s :
  bind (bind m k) g s = bind m (fun a => bind (k a) g) s.
Proof. unfold bind. destruct (m s) as [[a|e|x| | |] s1]; reflexivity. Qed.

Lemma reraise_spec {A B} (r : res A) s :
  kind_of r <> KOk -> exists r' : res B, @reraise A B r s = (r', s) /\ kind_of r' = kind_of r.
Proof.
  destruct r as [a|e|x| | |]; intros Hk; cbn in *; try congruence; eexists; split; reflexivity.
Qed.

Lemma bind_inv {A B} (m : M A) (k : A -> M B) s r s' :
  bind m k s = (r, s') ->
  (exists a s1, m s = (Ok a, s1) /\ k a s1 = (r, s')) \/
  (exists r0, m s = (r0, s') /\ kind_of r0 <> KOk /\ kind_of r = kind_of r0).
Proof.
  unfold bind. destruct (m s) as [[a|e|x| | |] s1] eqn:Hm; intros H.
  - left. eauto.
  - right. inversion H; subst. eexists; split; [reflexivity|]. cbn. split; congruence.
  - right. inversion H; subst. eexists; split; [reflexivity|]. cbn. split; congruence.
  - right. inversion H; subst. eexists; split; [reflexivity|]. cbn. split; congruence.
  - right. inversion H; subst. eexists; split; [reflexivity|]. cbn. split; congruence.
  - right. inversion H; subst. eexists; split; [reflexivity|]. cbn. split; congruence.
Qed.

Lemma m_alloc_eq v s :
  m_alloc v s = (Ok (next (hp s)), mkSt (snd (alloc (hp s) v)) (frames s) (rule_root s) (root s) (retval s) (io s)).
Proof. reflexivity. Qed.

Lemma get_variable_cases name s :
  get_variable name s = (Ok (lookup_frames (frames s) name), s) \/
  get_variable name s = (Ok None, s) \/
  get_variable name s =
    bind (m_alloc VUnknown) (fun a => bind (set_local name a) (fun _ => ret (Some a))) s.
Proof.
  unfold get_variable. destruct (lookup_frames (frames s) name) eqn:Hl; [left; reflexivity|].
  right.
  repeat match goal with
         | |- context [match ?x with _ => _ end] =>
           lazymatch x with
           | bind _ _ _ => fail
           | _ => destruct x
           end
         end; auto.
Qed.

Definition pushed (name : bytes) (s : st) : st :=
  mkSt (hp s) (mkFrame name [] :: frames s) (rule_root s) (root s) (retval s) (io s).

Lemma push_frame_cases name s :
  (Z.ltb call_depth_limit (Z.of_nat (length (frames s))) = true /\ push_frame name s = (Ok false, s)) \/
  (Z.ltb call_depth_limit (Z.of_nat (length (frames s))) = false /\ push_frame name s = (Ok true, pushed name s)).
Proof.
  unfold push_frame, pushed.
  destruct (Z.ltb call_depth_limit (Z.of_nat (length (frames s)))); [left|right]; split; reflexivity.
Qed.

Lemma pop_frame_cases s :
  pop_frame s = (Panic, s) \/
  exists f1 f2 rest, frames s = f1 :: f2 :: rest /\
    pop_frame s = (Ok tt, mkSt (hp s) (f2 :: rest) (rule_root s) (root s) (retval s) (io s)).
Proof.
  unfold pop_frame. destruct (frames s) as [|f1 [|f2 rest]]; auto.
  right. do 3 eexists. split; reflexivity.
Qed.

(* every execution of  push; binds; body; pop; handler  *)
Lemma bracket_inv {A B} name (onfail : M B) (binds : M unit) (body : M (res A)) (h : res A -> M B) s r s' :
  (let* ok := push_frame name in
   if negb ok then onfail
   else binds ;;; (let* r := body in pop_frame ;;; h r)) s = (r, s') ->
  (Z.ltb call_depth_limit (Z.of_nat (length (frames s))) = true /\ onfail s = (r, s')) \/
  (Z.ltb call_depth_limit (Z.of_nat (length (frames s))) = false /\
   exists rb s2, binds (pushed name s) = (rb, s2) /\
     ((kind_of rb <> KOk /\ kind_of r = kind_of rb /\ s' = s2) \/
      (kind_of rb = KOk /\ exists rc s3, body s2 = (rc, s3) /\
         match rc with
         | Ok r0 => (pop_frame s3 = (Panic, s3) /\ s' = s3 /\ kind_of r = KPanic) \/
                    (exists s4, pop_frame s3 = (Ok tt, s4) /\ h r0 s4 = (r, s'))
         | _ => kind_of r = kind_of rc /\ s' = s3
         end))).
Proof.
  intros H. unfold bind at 1 in H.
  destruct (push_frame_cases name s) as [[Hl Hp]|[Hl Hp]]; rewrite Hp in H; cbn [negb] in H.
  - left. auto.
  - right. split; [assumption|].
    apply bind_inv in H. destruct H as [(u & s2 & H1 & H2) | (rb & H1 & Hn & Hk)].
    + exists (Ok u), s2. destruct u. split; [assumption|]. right. split; [reflexivity|].
      apply bind_inv in H2. destruct H2 as [(r0 & s3 & H3 & H4) | (rc & H3 & Hn & Hk)].
      * exists (Ok r0), s3. split; [assumption|].
        apply bind_inv in H4. destruct H4 as [(u & s4 & H5 & H6) | (rp & H5 & Hn & Hk)].
        -- right. destruct u. eauto.
        -- left. destruct (pop_frame_cases s3) as [Hpp|(f1 & f2 & rest & _ & Hpp)];
             rewrite Hpp in H5; inversion H5; subst.
           ++ cbn in Hk. auto.
           ++ cbn in Hn. congruence.
      * exists rc, s'. split; [assumption|].
        destruct rc as [x|e|x| | |]; cbn in Hn; try congruence; auto.
    + exists rb, s'. split; [assumption|]. left. auto.
Qed.

Lemma isolate_inv {A} (m : M A) s0 r s' :
  isolate (set_frames root_frames ;;; m) s0 = (r, s') ->
  exists s1, m (mkSt (hp s0) root_frames None None None (io s0)) = (r, s1) /\
    s' = mkSt (hp s1) (frames s0) (rule_root s0) (root s0) (retval s0) (io s1).
Proof.
  unfold isolate. cbn [bind set_frames hp rule_root root retval io].
  destruct (m _) as [r1 s1]. intros H. inversion H; subst. eauto.
Qed.

(* ------------------------------------------------------------------ the walk *)

Section Walk.
  Variable I : st -> Prop.
  Variable Q : st -> kind -> st -> Prop.
  Hypothesis OK : inv_base I Q.
  Hypothesis BR : bracket_ok I Q.
  Hypothesis ISO : isolate_ok I Q.

  Local Notation sat := (@sat I Q).
  Local Notation handler := (@handler I Q).
  Local Notation catchlike := (@catchlike I Q).

  Lemma sat_ext {A} (m m' : M A) : (forall s, m s = m' s) -> sat m' -> sat m.
  Proof. intros E H s r s' HI Hm. rewrite E in Hm. eauto. Qed.

  Lemma sat_ret {A} (a : A) : sat (ret a).
  Proof.
    intros s r s' HI H. inversion H; subst. split; [assumption|].
    apply (ok_refl _ _ OK); [assumption|discriminate].
  Qed.

  Lemma sat_fail {A} (r : res A) : kind_of r <> KErr -> sat (fail r).
  Proof.
    intros Hk s r' s' HI H. inversion H; subst. split; [assumption|].
    apply (ok_refl _ _ OK); assumption.
  Qed.

  Lemma sat_pure {A} (f : st -> A) : sat (fun s => (Ok (f s), s)).
  Proof.
    intros s r s' HI H. inversion H; subst. split; [assumption|].
    apply (ok_refl _ _ OK); [assumption|discriminate].
  Qed.

  Lemma sat_bind {A B} (m : M A) (k : A -> M B) : sat m -> (forall a, sat (k a)) -> sat (bind m k).
  Proof.
    intros Hm Hk s r s' HI H. apply bind_inv in H.
    destruct H as [(a & s1 & H1 & H2) | (r0 & H1 & Hn & Hkd)].
    - destruct (Hm _ _ _ HI H1) as [HI1 HQ1]. destruct (Hk a _ _ _ HI1 H2) as [HI2 HQ2].
      split; [assumption|]. eapply (ok_trans _ _ OK); [|exact HQ1|exact HQ2]; exact Logic.I.
    - destruct (Hm _ _ _ HI H1) as [HI1 HQ1]. split; [assumption|]. rewrite Hkd. assumption.
  Qed.

  Lemma sat_get_heap : sat get_heap. Proof. exact (sat_pure hp). Qed.
  Lemma sat_get_st : sat get_st. Proof. exact (sat_pure (fun s => s)). Qed.
  Lemma sat_m_load a : sat (m_load a). Proof. exact (sat_pure (fun s => load (hp s) a)). Qed.
  Lemma sat_m_store a v : sat (m_store a v). Proof. apply (ok_upd_heap _ _ OK). Qed.
  Lemma sat_m_alloc v : sat (m_alloc v). Proof. apply (ok_with_heap _ _ OK). Qed.
  Lemma sat_bool_cell b : sat (bool_cell b). Proof. apply sat_m_alloc. Qed.
  Lemma sat_nil_cell : sat nil_cell. Proof. apply sat_m_alloc. Qed.

  Lemma sat_catchlike {A} (m : M A) : sat m -> catchlike (catch m).
  Proof.
    intros Hm s r s' HI H. unfold catch in H. destruct (m s) as [r0 s1] eqn:Hms.
    inversion H; subst. destruct (Hm _ _ _ HI Hms) as [HI1 HQ1]. split; [assumption|]. eauto.
  Qed.

  (* the caught outcome is inspected and either handled or re-raised *)
  Lemma sat_catch {A B} (m : M A) (h : res A -> M B) : sat m -> handler h -> sat (bind (catch m) h).
  Proof.
    intros Hm Hh s r s' HI H. unfold bind, catch in H. destruct (m s) as [r0 s1] eqn:Hms.
    destruct (Hm _ _ _ HI Hms) as [HI1 HQ1].
    destruct (Hh r0) as [[Hnp Hs] | [Hno He]].
    - destruct (Hs _ _ _ HI1 H) as [HI2 HQ2]. split; [assumption|].
      eapply (ok_trans _ _ OK); [exact Hnp|exact HQ1|exact HQ2].
    - rewrite He in H. destruct (@reraise_spec A B r0 s1 Hno) as (r' & Hr & Hk).
      rewrite Hr in H. inversion H; subst. split; [assumption|]. rewrite Hk. assumption.
  Qed.

  (* the bracket for invariants that push_frame and pop_frame respect on their own *)
  Lemma bracket_from_sat :
    (forall name, sat (push_frame name)) ->
    (forall s k s1 s2, I s1 -> Q s k s1 -> pop_frame s1 = (Ok tt, s2) -> I s2 /\ Q s k s2) ->
    bracket_ok I Q.
  Proof.
    intros Hpush Hpop A B name onfail binds body h Hon Hb Hop Hbody Hh s r s' HI H.
    apply bracket_inv in H. destruct H as [[Hl H]|[Hl (rb & s2 & Hbs & H)]].
    - exact (Hon _ _ _ HI H).
    - destruct (push_frame_cases name s) as [[Hl' _]|[_ Hp]]; [congruence|].
      destruct (Hpush name _ _ _ HI Hp) as [HI1 HQ1]. cbn [kind_of] in HQ1.
      destruct (Hb _ _ _ HI1 Hbs) as [HI2 HQ2].
      destruct H as [(Hn & Hk & Hs) | (Hk & rc & s3 & Hbd & H)].
      + subst s'. split; [assumption|]. rewrite Hk.
        eapply (ok_trans _ _ OK); [|exact HQ1|exact HQ2]; exact Logic.I.
      + rewrite Hk in HQ2.
        assert (HQ02 : Q s KOk s2).
        { eapply (ok_trans _ _ OK); [|exact HQ1|exact HQ2]; exact Logic.I. }
        destruct (Hbody _ _ _ HI2 Hbd) as [HI3 (r0 & Hrc & HQ3)]. subst rc.
        assert (HQ03 : Q s (kind_of r0) s3).
        { eapply (ok_trans _ _ OK); [|exact HQ02|exact HQ3]; exact Logic.I. }
        destruct H as [(Hpp & Hs & Hkp) | (s4 & Hpp & Hh4)].
        * subst s'. split; [assumption|]. rewrite Hkp.
          exact (ok_to_panic _ _ OK _ _ _ HQ03).
        * destruct (Hpop _ _ _ _ HI3 HQ03 Hpp) as [HI4 HQ04].
          destruct (Hh r0) as [[Hnp Hs] | [Hno He]].
          -- destruct (Hs _ _ _ HI4 Hh4) as [HI5 HQ5]. split; [assumption|].
             eapply (ok_trans _ _ OK); [exact Hnp|exact HQ04|exact HQ5].
          -- rewrite He in Hh4. destruct (@reraise_spec A B r0 s4 Hno) as (r' & Hr & Hkd).
             rewrite Hr in Hh4. inversion Hh4; subst. split; [assumption|]. rewrite Hkd. assumption.
  Qed.

  (* the wrapper around a statement body of a match case *)
  Lemma catchlike_stmt_body (m : M unit) :
    sat m ->
    catchlike (let* r0 := catch m in
               match r0 with
               | Ok _ => let* c := nil_cell in ret (Ok c)
               | Err e0 => ret (Err e0)
               | Sig x => ret (Sig x)
               | Panic => ret Panic
               | Fuel => ret Fuel
               | Unsupp => ret Unsupp
               end).
  Proof.
    intros Hm s r s' HI H. unfold bind at 1, catch in H. destruct (m s) as [r0 s1] eqn:Hms.
    destruct (Hm _ _ _ HI Hms) as [HI1 HQ1].
    destruct r0 as [u|e|x| | |].
    - unfold bind, nil_cell in H. rewrite m_alloc_eq in H. unfold ret in H. inversion H; subst.
      match goal with |- I ?s2 /\ _ => assert (Ha : I s2 /\ Q s1 KOk s2) end.
      { apply (sat_m_alloc (VNil None) s1 (Ok (next (hp s1)))); [assumption|apply m_alloc_eq]. }
      destruct Ha as [HI2 HQ2]. split; [assumption|]. eexists; split; [reflexivity|]. cbn.
      eapply (ok_trans _ _ OK); [|exact HQ1|exact HQ2]; exact Logic.I.
    - inversion H; subst. split; [assumption|]. eexists; split; [reflexivity|]. assumption.
    - inversion H; subst. split; [assumption|]. eexists; split; [reflexivity|]. assumption.
    - inversion H; subst. split; [assumption|]. eexists; split; [reflexivity|]. assumption.
    - inversion H; subst. split; [assumption|]. eexists; split; [reflexivity|]. assumption.
    - inversion H; subst. split; [assumption|]. eexists; split; [reflexivity|]. assumption.
  Qed.

  Lemma sat_get_variable name : sat (get_variable name).
  Proof.
    intros s r s' HI H.
    destruct (get_variable_cases name s) as [E|[E|E]]; rewrite E in H.
    - exact (sat_pure (fun s => lookup_frames (frames s) name) s r s' HI H).
    - exact (sat_pure (fun _ => None) s r s' HI H).
    - assert (Hs : sat (bind (m_alloc VUnknown)
                          (fun a => bind (set_local name a) (fun _ => ret (Some a))))).
      { apply sat_bind; [apply sat_m_alloc|intros a].
        apply sat_bind; [apply (ok_set_local _ _ OK)|intros _; apply sat_ret]. }
      exact (Hs s r s' HI H).
  Qed.

  Lemma sat_rt_error {A} src t : sat (@rt_error src A t).
  Proof.
    unfold rt_error. destruct (get_line_col src (tpos t)) as [[text line] col].
    apply (ok_raise _ _ OK).
  Qed.

  Lemma sat_tok_string src t : sat (tok_string src t).
  Proof.
    unfold tok_string. destruct (get_string src t); [apply sat_ret|apply sat_fail; discriminate].
  Qed.

  (* ---------------- the tactic that walks a bind spine *)

  Ltac kind_neq := solve [let H := fresh in intro H; cbv in H; discriminate H].

  Ltac prim :=
    first
      [ apply sat_ret
      | apply sat_get_heap | apply sat_get_st | apply sat_m_load | apply sat_m_store
      | apply sat_m_alloc | apply sat_bool_cell | apply sat_nil_cell
      | apply sat_get_variable | apply sat_rt_error | apply sat_tok_string
      | apply (ok_upd_heap _ _ OK) | apply (ok_with_heap _ _ OK)
      | apply (ok_set_local _ _ OK) | apply (ok_set_global _ _ OK)
      | apply (ok_set_retval _ _ OK) | apply (ok_set_rule_root _ _ OK)
      | apply (ok_set_root _ _ OK) | apply (ok_emit _ _ OK) | apply (ok_log_io _ _ OK)
      | apply (ok_note_signal _ _ OK)
      | apply (ok_raise _ _ OK)
      | apply sat_fail; kind_neq ].

  Ltac hyp := match goal with H : _ |- _ => solve [apply H] end.

  Ltac walk_step extra :=
    first
      [ prim
      | hyp
      | extra
      | lazymatch goal with
        | |- EvalInv.sat _ _ (bind (catch _) _) => fail
        | |- EvalInv.sat _ _ (bind (push_frame _) _) => apply BR
        | |- EvalInv.sat _ _ (bind _ _) => apply sat_bind; [ | intros ? ]
        | |- EvalInv.sat _ _ (let _ := _ in _) => cbv zeta
        | |- EvalInv.sat _ _ (match ?x with _ => _ end) => destruct x eqn:?
        end ].

  Ltac walk_with extra := repeat (walk_step extra).
  Ltac nope := fail.
  Ltac walk := walk_with nope.

  (* a handler given by a match on the caught outcome *)
  Ltac handler_with extra :=
    let r := fresh "r" in
    let x := fresh "x" in
    intros r; destruct r as [?|?|x| | |]; try destruct x;
    first [ right; split; [kind_neq | reflexivity]
          | left; split; [exact Logic.I | walk_with extra] ].

  (* ---------------- non-recursive helpers of Sem/Eval.v and Sem/Natives.v *)

  Lemma sat_get_identifier src t : sat (get_identifier src t).
  Proof. unfold get_identifier. walk. Qed.

  Lemma sat_as_float_m v : sat (as_float_m v).
  Proof. unfold as_float_m. walk. Qed.

  Lemma sat_pretty_m v : sat (pretty_m v).
  Proof. unfold pretty_m. walk. Qed.

  Lemma sat_print_args cells : forall first, sat (print_args cells first).
  Proof.
    induction cells as [|c r IH]; intros first; cbn [print_args]; walk_with ltac:(apply sat_pretty_m).
  Qed.

  Lemma sat_lift_vres src r tl top tr : sat (lift_vres src r tl top tr).
  Proof. unfold lift_vres. walk. Qed.

  Lemma fill_sat recv k : forall last,
    sat ((fix fill (k : nat) (last : addr) {struct k} : M addr :=
            match k with
            | O => ret last
            | S k' =>
              let* c := nil_cell in
              upd_heap (fun h => append_at h recv c) ;;;
              fill k' c
            end) k last).
  Proof. induction k as [|k IH]; intros last; cbv beta iota; walk. Qed.

  Lemma sat_set_member recv m cell : sat (set_member recv m cell).
  Proof. unfold set_member. walk_with ltac:(apply fill_sat). Qed.

  Lemma sat_create_speculative n : forall spec, sat (create_speculative n spec).
  Proof.
    induction n as [|n IH]; intros spec; cbn [create_speculative]; walk_with ltac:(apply sat_set_member).
  Qed.

  Lemma sat_eval_assignment src n tok l r : sat (eval_assignment src n tok l r).
  Proof. unfold eval_assignment. walk_with ltac:(apply sat_create_speculative). Qed.

  Lemma sat_this_value this : sat (this_value this).
  Proof. unfold this_value. walk. Qed.

  Lemma sat_alloc_all vs : sat (alloc_all vs).
  Proof. induction vs as [|v r IH]; cbn [alloc_all]; walk. Qed.

  Lemma sat_pluck_loop thisv oid keys : sat (pluck_loop thisv oid keys).
  Proof. induction keys as [|k r IH]; cbn [pluck_loop]; walk. Qed.

  Lemma sat_native_call nf args this : sat (native_call nf args this).
  Proof.
    unfold native_call.
    apply sat_bind; [apply sat_this_value|intros tv].
    apply sat_bind; [apply sat_get_heap|intros h].
    destruct nf;
      walk_with ltac:(first [apply sat_alloc_all | apply sat_pluck_loop | apply sat_this_value]).
  Qed.

  (* ---------------- the mutually recursive evaluator *)

  Section Mutual.
    Variable src : bytes.
    Variable funcs : list func.
    Variable fuzzing : bool.

    Record all_sat (n : nat) : Prop := {
      as_expr : forall e, sat (eval_expr src funcs fuzzing n e);
      as_match_cases : forall t sub cs, sat (eval_match_cases src funcs fuzzing n t sub cs);
      as_case_match : forall sub ps, sat (eval_case_match src funcs fuzzing n sub ps);
      as_call : forall tok fc args, sat (call_function src funcs fuzzing n tok fc args);
      as_unary : forall x op pf, sat (eval_unary src funcs fuzzing n x op pf);
      as_binary : forall l r op, sat (eval_binary src funcs fuzzing n l r op);
      as_expr_list : forall es c, sat (eval_expr_list src funcs fuzzing n es c);
      as_stmt : forall s, sat (eval_stmt src funcs fuzzing n s);
      as_body : forall b, sat (eval_body src funcs fuzzing n b);
      as_while : forall c b k, sat (eval_while src funcs fuzzing n c b k);
      as_for : forall c p b k, sat (eval_for src funcs fuzzing n c p b k);
      as_forin_arr : forall lo ix bid off len i b,
          sat (eval_forin_arr src funcs fuzzing n lo ix bid off len i b);
      as_forin_obj : forall lo ix oid keys b, sat (eval_forin_obj src funcs fuzzing n lo ix oid keys b);
      as_forin_str : forall lo ix rs b, sat (eval_forin_str src funcs fuzzing n lo ix rs b)
    }.

    Lemma all_sat_O : all_sat 0.
    Proof. constructor; intros; apply sat_fail; kind_neq. Qed.

    Ltac ext :=
      first [ apply sat_get_identifier | apply sat_as_float_m | apply sat_pretty_m
            | apply sat_print_args | apply sat_lift_vres | apply sat_eval_assignment
            | apply sat_native_call ].

    Ltac use_ih IH :=
      first [ apply (as_expr _ IH) | apply (as_match_cases _ IH) | apply (as_case_match _ IH)
            | apply (as_call _ IH) | apply (as_unary _ IH) | apply (as_binary _ IH)
            | apply (as_expr_list _ IH) | apply (as_stmt _ IH) | apply (as_body _ IH)
            | apply (as_while _ IH) | apply (as_for _ IH) | apply (as_forin_arr _ IH)
            | apply (as_forin_obj _ IH) | apply (as_forin_str _ IH) ].

    Ltac go IH := walk_with ltac:(first [ext | use_ih IH]).

    Lemma step_expr n (IH : all_sat n) e : sat (eval_expr src funcs fuzzing (S n) e).
    Proof.
      rewrite eval_expr_S. destruct e; go IH.
      (* the fields of an object literal *)
      match goal with |- EvalInv.sat _ _ (_ ?l) => induction l as [|[k x] r IHr] end;
        cbv beta iota; go IH.
    Qed.

    Lemma bindall_sat (l : list (bytes * addr)) :
      sat ((fix bindall (l : list (bytes * addr)) : M unit :=
              match l with
              | [] => ret tt
              | (k, a) :: r => set_local k a ;;; bindall r
              end) l).
    Proof. induction l as [|[k a] r IHr]; cbv beta iota; walk. Qed.

    Lemma set_local_ok_or_panic k a : ok_or_panic (set_local k a).
    Proof.
      intros s r s' H. unfold set_local in H. destruct (frames s); inversion H; subst; cbn; auto.
    Qed.

    Lemma bindall_ok_or_panic (l : list (bytes * addr)) :
      ok_or_panic ((fix bindall (l : list (bytes * addr)) : M unit :=
              match l with
              | [] => ret tt
              | (k, a) :: r => set_local k a ;;; bindall r
              end) l).
    Proof.
      induction l as [|[k a] r IHr]; cbv beta iota; intros s r0 s' H.
      - inversion H; subst. cbn. auto.
      - apply bind_inv in H. destruct H as [(u & s1 & H1 & H2) | (r1 & H1 & Hn & Hk)].
        + eapply IHr; eassumption.
        + rewrite Hk. destruct (set_local_ok_or_panic _ _ _ _ _ H1); [congruence|auto].
    Qed.

    Lemma step_match_cases n (IH : all_sat n) t sub cs :
      sat (eval_match_cases src funcs fuzzing (S n) t sub cs).
    Proof.
      rewrite eval_match_cases_S. destruct cs as [|[pats body] rest]; go IH.
      - apply bindall_sat.
      - apply bindall_ok_or_panic.
      - destruct body; first [ apply sat_catchlike; use_ih IH
                             | apply catchlike_stmt_body; use_ih IH ].
      - handler_with nope.
    Qed.

    Lemma step_case_match n (IH : all_sat n) sub ps :
      sat (eval_case_match src funcs fuzzing (S n) sub ps).
    Proof.
      rewrite eval_case_match_S. destruct ps as [|p rest]; go IH.
      (* the element loop of an array pattern *)
      match goal with |- EvalInv.sat _ _ (_ ?cs ?ps ?acc) => generalize acc; generalize ps; generalize cs end.
      intros cs. induction cs as [|c cs IHcs]; intros ps acc; cbv beta iota; go IH.
    Qed.

    Definition bindp_fix :=
      (fix bindp (ps : list bytes) (avs : list value) : M unit :=
         match ps with
         | [] => ret tt
         | p :: ps' =>
           match avs with
           | [] => (let* c := nil_cell in set_local p c) ;;; bindp ps' []
           | v :: avs' => (let* c := m_alloc v in set_local p c) ;;; bindp ps' avs'
           end
         end).

    Lemma bindp_sat ps : forall avs, sat (bindp_fix ps avs).
    Proof.
      induction ps as [|p ps IHps]; intros avs; unfold bindp_fix; cbv beta iota; fold bindp_fix; walk.
    Qed.

    Lemma alloc_local_ok_or_panic v p : ok_or_panic (let* c := m_alloc v in set_local p c).
    Proof.
      intros s r s' H. unfold bind in H. rewrite m_alloc_eq in H.
      eapply set_local_ok_or_panic; eassumption.
    Qed.

    Lemma bindp_ok_or_panic ps : forall avs, ok_or_panic (bindp_fix ps avs).
    Proof.
      induction ps as [|p ps IHps]; intros avs; unfold bindp_fix; cbv beta iota; fold bindp_fix;
        intros s r0 s' H.
      - inversion H; subst. cbn. auto.
      - destruct avs as [|v avs'];
          apply bind_inv in H; destruct H as [(u & s1 & H1 & H2) | (r1 & H1 & Hn & Hk)];
          try (eapply IHps; eassumption);
          rewrite Hk; destruct (alloc_local_ok_or_panic _ _ _ _ _ H1); try congruence; auto.
    Qed.

    Lemma step_call n (IH : all_sat n) tok fc args :
      sat (call_function src funcs fuzzing (S n) tok fc args).
    Proof.
      rewrite call_function_S. go IH.
      - apply bindp_sat.
      - apply bindp_ok_or_panic.
      - apply sat_catchlike; use_ih IH.
      - handler_with nope.
    Qed.

    Lemma step_unary n (IH : all_sat n) x op pf : sat (eval_unary src funcs fuzzing (S n) x op pf).
    Proof. rewrite eval_unary_S. go IH. Qed.

    Lemma step_binary n (IH : all_sat n) l r op : sat (eval_binary src funcs fuzzing (S n) l r op).
    Proof. rewrite eval_binary_S. go IH. Qed.

    Lemma step_expr_list n (IH : all_sat n) es c : sat (eval_expr_list src funcs fuzzing (S n) es c).
    Proof. rewrite eval_expr_list_S. go IH. Qed.

    Lemma step_stmt n (IH : all_sat n) s : sat (eval_stmt src funcs fuzzing (S n) s).
    Proof.
      rewrite eval_stmt_S. destruct s; go IH.
      (* the statements of a block *)
      match goal with |- EvalInv.sat _ _ (_ ?l) => induction l as [|x r IHr] end;
        cbv beta iota; go IH.
    Qed.

    Lemma step_body n (IH : all_sat n) b : sat (eval_body src funcs fuzzing (S n) b).
    Proof.
      rewrite eval_body_S. apply sat_catch; [use_ih IH|handler_with nope].
    Qed.

    Lemma step_while n (IH : all_sat n) c b k : sat (eval_while src funcs fuzzing (S n) c b k).
    Proof. rewrite eval_while_S. go IH. Qed.

    Lemma step_for n (IH : all_sat n) c p b k : sat (eval_for src funcs fuzzing (S n) c p b k).
    Proof. rewrite eval_for_S. go IH. Qed.

    Lemma step_forin_arr n (IH : all_sat n) lo ix bid off len i b :
      sat (eval_forin_arr src funcs fuzzing (S n) lo ix bid off len i b).
    Proof. rewrite eval_forin_arr_S. go IH. Qed.

    Lemma step_forin_obj n (IH : all_sat n) lo ix oid keys b :
      sat (eval_forin_obj src funcs fuzzing (S n) lo ix oid keys b).
    Proof. rewrite eval_forin_obj_S. go IH. Qed.

    Lemma step_forin_str n (IH : all_sat n) lo ix rs b :
      sat (eval_forin_str src funcs fuzzing (S n) lo ix rs b).
    Proof. rewrite eval_forin_str_S. go IH. Qed.

    (* the one induction on fuel *)
    Theorem all_sat_n : forall n, all_sat n.
    Proof.
      induction n as [|n IH]; [apply all_sat_O|].
      constructor; intros.
      - apply step_expr; assumption.
      - apply step_match_cases; assumption.
      - apply step_case_match; assumption.
      - apply step_call; assumption.
      - apply step_unary; assumption.
      - apply step_binary; assumption.
      - apply step_expr_list; assumption.
      - apply step_stmt; assumption.
      - apply step_body; assumption.
      - apply step_while; assumption.
      - apply step_for; assumption.
      - apply step_forin_arr; assumption.
      - apply step_forin_obj; assumption.
      - apply step_forin_str; assumption.
    Qed.

    (* ---------------- the rule loops *)

    Lemma sat_eval_rules n rules : sat (eval_rules src funcs fuzzing n rules).
    Proof.
      pose proof (all_sat_n n) as IH.
      induction rules as [|r rest IHr]; cbn [eval_rules]; [apply sat_ret|].
      apply sat_bind.
      - destruct (rpattern r) as [p|]; [|apply sat_ret].
        apply sat_catch; [use_ih IH|handler_with nope].
      - intros m. destruct m as [[|]|]; [|assumption|apply sat_ret].
        apply sat_catch; [use_ih IH|handler_with nope].
    Qed.

    Lemma sat_eval_elements n rules bid off len : forall k i,
      sat (eval_elements src funcs fuzzing n rules bid off len k i).
    Proof.
      induction k as [|k IHk]; intros i; cbn [eval_elements]; walk_with ltac:(apply sat_eval_rules).
    Qed.

    Lemma sat_eval_pattern_rules n rules : sat (eval_pattern_rules src funcs fuzzing n rules).
    Proof.
      unfold eval_pattern_rules.
      walk_with ltac:(first [apply sat_eval_rules | apply sat_eval_elements]).
    Qed.
  End Mutual.

  (* ---------------- the driver *)

  Lemma sat_add_functions src fns : forall idx, sat (add_functions src fns idx).
  Proof. induction fns as [|fn rest IH]; intros idx; cbn [add_functions]; walk. Qed.

  (* NewEvaluator after its first step *)
  Definition new_evaluator_tail (src : bytes) (fns : list func) : M unit :=
    (let* c := m_alloc (VNative NPrintf None) in set_local (bs "printf") c) ;;;
    (let* c := m_alloc (VNative NJson None) in set_local (bs "json") c) ;;;
    (let* c := m_alloc (VNative NNum None) in set_local (bs "num") c) ;;;
    add_functions src fns 0.

  Lemma new_evaluator_eq src fns :
    new_evaluator src fns = (set_frames root_frames ;;; new_evaluator_tail src fns).
  Proof. reflexivity. Qed.

  Lemma sat_new_evaluator_tail src fns : sat (new_evaluator_tail src fns).
  Proof. unfold new_evaluator_tail. walk_with ltac:(apply sat_add_functions). Qed.

  Definition selector_tail (n : nat) (sel : bytes) (doc : jvalue) (e : expr) : M addr :=
    new_evaluator_tail sel [] ;;;
    let* rv := with_heap (new_value doc) in
    let* rc := m_alloc rv in
    set_root (Some rc) ;;;
    set_rule_root (Some rc) ;;;
    let* r := catch (eval_expr sel [] false n e) in
    match r with
    | Ok c =>
      let* v := m_load c in
      match copy_value v with
      | Some v' => m_alloc v'
      | None => rt_error sel (expr_token e)
      end
    | other => stray sel (Some (expr_token e)) other
    end.

  Lemma eval_selector_eq n sel doc s0 :
    eval_selector n sel doc s0 =
    match parse_expression_src sel with
    | PErr pos => raise_err (syntax_error sel pos) s0
    | PFuel => (Fuel, s0)
    | PPanic => (Panic, s0)
    | POk e _ => isolate (set_frames root_frames ;;; selector_tail n sel doc e) s0
    end.
  Proof.
    unfold eval_selector.
    destruct (parse_expression_src sel) as [e p|pos| |]; [|reflexivity|reflexivity|reflexivity].
    unfold isolate, selector_tail. rewrite new_evaluator_eq. rewrite bind_assoc. reflexivity.
  Qed.

  Lemma sat_selector_tail n sel doc e : sat (selector_tail n sel doc e).
  Proof.
    unfold selector_tail.
    apply sat_bind; [apply sat_new_evaluator_tail|intros _].
    apply sat_bind; [apply (ok_with_heap _ _ OK)|intros rv].
    apply sat_bind; [apply sat_m_alloc|intros rc].
    apply sat_bind; [apply (ok_set_root _ _ OK)|intros _].
    apply sat_bind; [apply (ok_set_rule_root _ _ OK)|intros _].
    apply sat_catch; [apply (as_expr _ _ _ _ (all_sat_n sel [] false n))|].
    intros r. destruct r as [c|e0|x| | |].
    - left. split; [exact Logic.I|walk].
    - right. split; [kind_neq|reflexivity].
    - destruct x; first [ right; split; [kind_neq|reflexivity]
                        | left; split; [exact Logic.I|cbn [stray]; walk] ].
    - right. split; [kind_neq|reflexivity].
    - right. split; [kind_neq|reflexivity].
    - right. split; [kind_neq|reflexivity].
  Qed.

  Lemma sat_eval_selector n sel doc : sat (eval_selector n sel doc).
  Proof.
    eapply sat_ext; [intros s; apply eval_selector_eq|].
    destruct (parse_expression_src sel) as [e p|pos| |].
    - apply ISO. apply sat_selector_tail.
    - apply (ok_raise _ _ OK).
    - apply (@sat_fail addr Fuel). kind_neq.
    - apply (@sat_fail addr Panic). kind_neq.
  Qed.

  Section Run.
    Variable src : bytes.
    Variable prog : program.
    Variable fuzzing : bool.
    Variable selectors : list bytes.
    Variable n : nat.

    Lemma sat_run_special rs mk_root : sat mk_root -> sat (run_special src prog fuzzing n rs mk_root).
    Proof.
      intros Hmk. induction rs as [|r rest IHr]; cbn [run_special]; [apply sat_ret|].
      apply sat_bind; [assumption|intros a].
      apply sat_bind; [apply (ok_set_rule_root _ _ OK)|intros _].
      apply sat_catch; [apply (as_stmt _ _ _ _ (all_sat_n src (pfuncs prog) fuzzing n))|].
      intros r0. destruct r0 as [c|e0|x| | |].
      - left. split; [exact Logic.I|assumption].
      - right. split; [kind_neq|reflexivity].
      - destruct x; first [ right; split; [kind_neq|reflexivity]
                          | left; split; [exact Logic.I|cbn [stray]; walk] ].
      - right. split; [kind_neq|reflexivity].
      - right. split; [kind_neq|reflexivity].
      - right. split; [kind_neq|reflexivity].
    Qed.

    Lemma sat_process_root rc : sat (process_root src prog fuzzing n rc).
    Proof.
      unfold process_root.
      walk_with ltac:(first [ apply sat_run_special | apply sat_eval_pattern_rules ]).
    Qed.

    Lemma sat_select_roots doc sels : sat (select_roots n doc sels).
    Proof.
      induction sels as [|s rest IH]; cbn [select_roots]; walk_with ltac:(apply sat_eval_selector).
    Qed.

    Lemma sat_process_roots rcs : sat (process_roots src prog fuzzing n rcs).
    Proof.
      induction rcs as [|rc rest IH]; cbn [process_roots]; walk_with ltac:(apply sat_process_root).
    Qed.

    Lemma sat_process_value name doc : sat (process_value src prog fuzzing selectors n name doc).
    Proof.
      unfold process_value.
      walk_with ltac:(first [ apply sat_select_roots | apply sat_process_roots ]).
    Qed.

    Lemma sat_decode_loop k : forall name d, sat (decode_loop src prog fuzzing selectors n k name d).
    Proof.
      induction k as [|k IH]; intros name d; cbn [decode_loop]; [apply sat_fail; kind_neq|].
      destruct (dec_step d) as [[r d'] evs].
      walk_with ltac:(apply sat_process_value).
    Qed.

    Lemma sat_run_files files : sat (run_files src prog fuzzing selectors n files).
    Proof.
      induction files as [|[name rd] rest IH]; cbn [run_files]; walk_with ltac:(apply sat_decode_loop).
    Qed.

    (* run_body after the first step of NewEvaluator *)
    Definition run_body_tail (files : list (bytes * reader)) : M unit :=
      new_evaluator_tail src (pfuncs prog) ;;;
      run_special src prog fuzzing n (begin_rules prog) (m_alloc (VNil None)) ;;;
      run_files src prog fuzzing selectors n files ;;;
      run_special src prog fuzzing n (end_rules prog) (m_alloc (VNil None)).

    Lemma sat_run_body_tail files : sat (run_body_tail files).
    Proof.
      unfold run_body_tail.
      walk_with ltac:(first [ apply sat_new_evaluator_tail | apply sat_run_special | apply sat_run_files ]).
    Qed.
  End Run.
End Walk.

Lemma run_body_eq src prog fuzzing selectors n files s :
  run_body src prog fuzzing selectors n files s =
  (set_frames root_frames ;;; run_body_tail src prog fuzzing selectors n files) s.
Proof. unfold run_body, run_body_tail. rewrite new_evaluator_eq. rewrite bind_assoc. reflexivity. Qed.
