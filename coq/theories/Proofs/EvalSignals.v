(* C01: control-flow signals.  Which signals a computation can hand to its caller:
   [sig_ok allowed m] = whenever m ends in [Sig x], allowed x.  Loops absorb break/continue,
   calls absorb return, rules absorb next, [stray] turns everything but exit into a runtime
   error; for a program whose break/continue/return statements are well placed
   (Spec/SignalWf.v) the run never ends in a raw signal. *)
From Coq Require Import List Bool ZArith Lia.
From JQ Require Import Base.Bytes Num.F64 Syntax.Token Syntax.Lexer Syntax.Ast Syntax.Parser.
From JQ Require Import Json.JValue Json.Decode.
From JQ Require Import Gen.Generated Sem.Value Sem.Ops Sem.Natives Sem.Eval Sem.Driver.
From JQ Require Import Spec.EvalInvSpec Spec.SignalWf Proofs.EvalUnfold Proofs.EvalInv.
Import ListNotations.
Open Scope nat_scope.

Definition sig_ok (al : signal -> Prop) {A} (m : M A) : Prop :=
  forall s r s', m s = (r, s') -> forall x, r = Sig x -> al x.

Definition none : signal -> Prop := fun _ => False.
Definition only_exit : signal -> Prop := fun x => x = SigExit.
Notation nosig := (sig_ok none).

Lemma sig_weaken (al al' : signal -> Prop) {A} (m : M A) :
  (forall x, al x -> al' x) -> sig_ok al m -> sig_ok al' m.
Proof. intros W H s r s' E x Hx. apply W. eapply H; eassumption. Qed.

Lemma nosig_any (al : signal -> Prop) {A} (m : M A) : nosig m -> sig_ok al m.
Proof. apply sig_weaken. intros x []. Qed.

Lemma sig_ext (al : signal -> Prop) {A} (m m' : M A) : (forall s, m s = m' s) -> sig_ok al m' -> sig_ok al m.
Proof. intros E H s r s' Hm. rewrite E in Hm. eapply H; eassumption. Qed.

Lemma sig_ret (al : signal -> Prop) {A} (a : A) : sig_ok al (ret a).
Proof. intros s r s' H x Hx. inversion H; subst. discriminate. Qed.

Lemma sig_fail (al : signal -> Prop) {A} (r : res A) : (forall x, r = Sig x -> al x) -> sig_ok al (fail r).
Proof. intros Hr s r' s' H x Hx. inversion H; subst. auto. Qed.

Lemma sig_bind (al : signal -> Prop) {A B} (m : M A) (k : A -> M B) :
  sig_ok al m -> (forall a, sig_ok al (k a)) -> sig_ok al (bind m k).
Proof.
  intros Hm Hk s r s' H x Hx. subst r. unfold bind in H.
  destruct (m s) as [[a|e|y| | |] s1] eqn:Hms; try (inversion H; fail).
  - eapply Hk; [exact H|reflexivity].
  - inversion H; subst. eapply Hm; [exact Hms|reflexivity].
Qed.

(* a returned value is passed on as it is *)
Lemma sig_bind_ret (al : signal -> Prop) {A B} (a : A) (k : A -> M B) : sig_ok al (k a) -> sig_ok al (bind (ret a) k).
Proof. intros H. eapply sig_ext; [|exact H]. reflexivity. Qed.

(* a caught outcome: the handler knows which signals the body may have raised *)
Lemma sig_catch (al1 al2 : signal -> Prop) {A B} (m : M A) (h : res A -> M B) :
  sig_ok al1 m ->
  (forall r, (forall x, r = Sig x -> al1 x) -> sig_ok al2 (h r)) ->
  sig_ok al2 (bind (catch m) h).
Proof.
  intros Hm Hh s r s' H. unfold bind, catch in H. destruct (m s) as [r0 s1] eqn:Hms.
  eapply Hh; [|exact H]. intros x Hx. eapply Hm; eassumption.
Qed.

Lemma sig_isolate (al : signal -> Prop) {A} (m : M A) : sig_ok al m -> sig_ok al (isolate m).
Proof.
  intros Hm s r s' H. unfold isolate in H. destruct (m _) as [r1 s1] eqn:Hms.
  inversion H; subst. eapply Hm; eassumption.
Qed.

(* ------------------------------------------------------------------ primitives never signal *)

Lemma nosig_pure {A} (f : st -> A) : nosig (fun s => (Ok (f s), s)).
Proof. intros s r s' H x Hx. inversion H; subst. discriminate. Qed.
Lemma nosig_get_heap : nosig get_heap. Proof. exact (nosig_pure hp). Qed.
Lemma nosig_get_st : nosig get_st. Proof. exact (nosig_pure (fun s => s)). Qed.
Lemma nosig_m_load a : nosig (m_load a). Proof. exact (nosig_pure (fun s => load (hp s) a)). Qed.
Lemma nosig_upd_heap f : nosig (upd_heap f).
Proof. intros s r s' H x Hx. inversion H; subst. discriminate. Qed.
Lemma nosig_with_heap {A} (f : heap -> A * heap) : nosig (with_heap f).
Proof. intros s r s' H x Hx. unfold with_heap in H. destruct (f (hp s)). inversion H; subst. discriminate. Qed.
Lemma nosig_m_store a v : nosig (m_store a v). Proof. apply nosig_upd_heap. Qed.
Lemma nosig_m_alloc v : nosig (m_alloc v). Proof. apply nosig_with_heap. Qed.
Lemma nosig_set_local name a : nosig (set_local name a).
Proof. intros s r s' H x Hx. unfold set_local in H. destruct (frames s); inversion H; subst; discriminate. Qed.
Lemma nosig_set_global name a : nosig (set_global name a).
Proof. intros s r s' H x Hx. inversion H; subst. discriminate. Qed.
Lemma nosig_set_retval a : nosig (set_retval a).
Proof. intros s r s' H x Hx. inversion H; subst. discriminate. Qed.
Lemma nosig_set_rule_root a : nosig (set_rule_root a).
Proof. intros s r s' H x Hx. inversion H; subst. discriminate. Qed.
Lemma nosig_set_root a : nosig (set_root a).
Proof. intros s r s' H x Hx. inversion H; subst. discriminate. Qed.
Lemma nosig_set_frames fs : nosig (set_frames fs).
Proof. intros s r s' H x Hx. inversion H; subst. discriminate. Qed.
Lemma nosig_emit b : nosig (emit b).
Proof. intros s r s' H x Hx. inversion H; subst. discriminate. Qed.
Lemma nosig_note_signal t : nosig (note_signal t).
Proof. intros s r s' H x Hx. inversion H; subst. discriminate. Qed.
Lemma nosig_log_io evs : nosig (log_io evs).
Proof. intros s r s' H x Hx. inversion H; subst. discriminate. Qed.
Lemma nosig_raise {A} e : nosig (@raise_err A e).
Proof. intros s r s' H x Hx. inversion H; subst. discriminate. Qed.
Lemma nosig_push_frame name : nosig (push_frame name).
Proof.
  intros s r s' H x Hx. destruct (push_frame_cases name s) as [[_ E]|[_ E]]; rewrite E in H;
    inversion H; subst; discriminate.
Qed.
Lemma nosig_pop_frame : nosig pop_frame.
Proof.
  intros s r s' H x Hx. destruct (pop_frame_cases s) as [E|(f1 & f2 & rest & _ & E)]; rewrite E in H;
    inversion H; subst; discriminate.
Qed.
Lemma nosig_rt_error {A} src t : nosig (@rt_error src A t).
Proof. unfold rt_error. destruct (get_line_col src (tpos t)) as [[? ?] ?]. apply nosig_raise. Qed.
Lemma nosig_tok_string src t : nosig (tok_string src t).
Proof.
  unfold tok_string. destruct (get_string src t); [apply sig_ret|apply sig_fail; discriminate].
Qed.
Lemma nosig_get_variable name : nosig (get_variable name).
Proof.
  intros s r s' H.
  destruct (get_variable_cases name s) as [E|[E|E]]; rewrite E in H.
  - exact (nosig_pure (fun s => lookup_frames (frames s) name) s r s' H).
  - exact (nosig_pure (fun _ => None) s r s' H).
  - assert (Hs : nosig (bind (m_alloc VUnknown)
                          (fun a => bind (set_local name a) (fun _ => ret (Some a))))).
    { apply sig_bind; [apply nosig_m_alloc|intros a].
      apply sig_bind; [apply nosig_set_local|intros _; apply sig_ret]. }
    exact (Hs s r s' H).
Qed.

(* ------------------------------------------------------------------ the walking tactic *)

Ltac sprim :=
  first
    [ apply sig_ret
    | apply nosig_any; first
        [ apply nosig_get_heap | apply nosig_get_st | apply nosig_m_load | apply nosig_m_store
        | apply nosig_m_alloc | apply nosig_upd_heap | apply nosig_with_heap
        | apply nosig_set_local | apply nosig_set_global | apply nosig_set_retval
        | apply nosig_set_rule_root | apply nosig_set_root | apply nosig_set_frames
        | apply nosig_emit | apply nosig_log_io | apply nosig_note_signal
        | apply nosig_raise | apply nosig_push_frame | apply nosig_pop_frame
        | apply nosig_rt_error | apply nosig_tok_string | apply nosig_get_variable ]
    | apply sig_fail; let x := fresh in let H := fresh in intros x H; discriminate H ].

Ltac shyp := match goal with H : _ |- _ => solve [apply H | apply H; assumption | apply nosig_any; apply H] end.

Ltac swalk_step extra :=
  first
    [ sprim
    | shyp
    | extra
    | lazymatch goal with
      | |- sig_ok _ (bind (catch _) _) => fail
      | |- sig_ok _ (bind (ret _) _) => apply sig_bind_ret
      | |- sig_ok _ (bind _ _) => apply sig_bind; [ | intros ? ]
      | |- sig_ok _ (let _ := _ in _) => cbv zeta
      | |- sig_ok _ (match ?x with _ => _ end) => destruct x eqn:?
      end ].
Ltac swalk_with extra := repeat (swalk_step extra).
Ltac snope := fail.
Ltac swalk := swalk_with snope.

(* ------------------------------------------------------------------ helpers never signal *)

Lemma nosig_get_identifier src t : nosig (get_identifier src t).
Proof. unfold get_identifier. swalk. Qed.
Lemma nosig_as_float_m v : nosig (as_float_m v).
Proof. unfold as_float_m. swalk. Qed.
Lemma nosig_pretty_m v : nosig (pretty_m v).
Proof. unfold pretty_m. swalk. Qed.
Lemma nosig_print_args cells : forall first, nosig (print_args cells first).
Proof.
  induction cells as [|c r IH]; intros first; cbn [print_args]; swalk_with ltac:(apply nosig_pretty_m).
Qed.
Lemma nosig_lift_vres src r tl top tr : nosig (lift_vres src r tl top tr).
Proof. unfold lift_vres. swalk. Qed.

Lemma fill_nosig recv k : forall last,
  nosig ((fix fill (k : nat) (last : addr) {struct k} : M addr :=
            match k with
            | O => ret last
            | S k' =>
              let* c := nil_cell in
              upd_heap (fun h => append_at h recv c) ;;;
              fill k' c
            end) k last).
Proof. induction k as [|k IH]; intros last; cbv beta iota; unfold nil_cell; swalk. Qed.

Lemma nosig_set_member recv m cell : nosig (set_member recv m cell).
Proof. unfold set_member. swalk_with ltac:(apply fill_nosig). Qed.

Lemma nosig_create_speculative n : forall spec, nosig (create_speculative n spec).
Proof.
  induction n as [|n IH]; intros spec; cbn [create_speculative]; swalk_with ltac:(apply nosig_set_member).
Qed.

Lemma nosig_eval_assignment src n tok l r : nosig (eval_assignment src n tok l r).
Proof. unfold eval_assignment. swalk_with ltac:(apply nosig_create_speculative). Qed.

Lemma nosig_this_value this : nosig (this_value this).
Proof. unfold this_value. swalk. Qed.
Lemma nosig_alloc_all vs : nosig (alloc_all vs).
Proof. induction vs as [|v r IH]; cbn [alloc_all]; swalk. Qed.
Lemma nosig_pluck_loop thisv oid keys : nosig (pluck_loop thisv oid keys).
Proof. induction keys as [|k r IH]; cbn [pluck_loop]; swalk. Qed.

Lemma nosig_native_call nf args this : nosig (native_call nf args this).
Proof.
  unfold native_call.
  apply sig_bind; [apply nosig_this_value|intros tv].
  apply sig_bind; [apply nosig_get_heap|intros h].
  destruct nf;
    swalk_with ltac:(first [apply nosig_alloc_all | apply nosig_pluck_loop | apply nosig_this_value]).
Qed.

(* ------------------------------------------------------------------ direct facts: absorption *)

(* one loop-body execution never hands break or continue on *)
Theorem eval_body_absorbs src funcs fz n b s r s' :
  eval_body src funcs fz n b s = (r, s') -> r <> Sig SigBreak /\ r <> Sig SigContinue.
Proof.
  destruct n as [|n]; [intros H; inversion H; subst; split; discriminate|].
  rewrite eval_body_S. unfold bind, catch.
  destruct (eval_stmt src funcs fz n b s) as [[u|e|x| | |] s1]; try destruct x; intros H;
    inversion H; subst; split; discriminate.
Qed.

Lemma eval_body_loop_ok src funcs fz n b :
  sig_ok (fun x => x <> SigBreak /\ x <> SigContinue) (eval_body src funcs fz n b).
Proof.
  intros s r s' H x Hx. subst r. destruct (eval_body_absorbs _ _ _ _ _ _ _ _ H) as [H1 H2].
  split; congruence.
Qed.

Definition not_loop_signal (x : signal) : Prop := x <> SigBreak /\ x <> SigContinue.

(* the for-in loops evaluate nothing but their body: they never return break or continue *)
Theorem forin_arr_absorbs src funcs fz n : forall lo ix bid off len i b,
  sig_ok not_loop_signal (eval_forin_arr src funcs fz n lo ix bid off len i b).
Proof.
  induction n as [|n IH]; intros; [rewrite eval_forin_arr_O; apply sig_fail; discriminate|].
  rewrite eval_forin_arr_S. swalk_with ltac:(apply eval_body_loop_ok).
Qed.

Theorem forin_obj_absorbs src funcs fz n : forall lo ix oid keys b,
  sig_ok not_loop_signal (eval_forin_obj src funcs fz n lo ix oid keys b).
Proof.
  induction n as [|n IH]; intros; [rewrite eval_forin_obj_O; apply sig_fail; discriminate|].
  rewrite eval_forin_obj_S. swalk_with ltac:(apply eval_body_loop_ok).
Qed.

Theorem forin_str_absorbs src funcs fz n : forall lo ix rs b,
  sig_ok not_loop_signal (eval_forin_str src funcs fz n lo ix rs b).
Proof.
  induction n as [|n IH]; intros; [rewrite eval_forin_str_O; apply sig_fail; discriminate|].
  rewrite eval_forin_str_S. swalk_with ltac:(apply eval_body_loop_ok).
Qed.

(* while / for: a break or continue can only come out of the condition (or post) expression,
   never out of the body *)
Theorem while_absorbs src funcs fz c :
  (forall n, sig_ok not_loop_signal (eval_expr src funcs fz n c)) ->
  forall n b k, sig_ok not_loop_signal (eval_while src funcs fz n c b k).
Proof.
  intros Hc. induction n as [|n IH]; intros; [rewrite eval_while_O; apply sig_fail; discriminate|].
  rewrite eval_while_S. swalk_with ltac:(apply eval_body_loop_ok).
Qed.

Theorem for_absorbs src funcs fz c post :
  (forall n, sig_ok not_loop_signal (eval_expr src funcs fz n c)) ->
  (forall n, sig_ok not_loop_signal (eval_expr src funcs fz n post)) ->
  forall n b k, sig_ok not_loop_signal (eval_for src funcs fz n c post b k).
Proof.
  intros Hc Hp. induction n as [|n IH]; intros; [rewrite eval_for_O; apply sig_fail; discriminate|].
  rewrite eval_for_S. swalk_with ltac:(apply eval_body_loop_ok).
Qed.

Definition bindp_nosig ps : forall avs, nosig (bindp_fix ps avs).
Proof.
  induction ps as [|p ps IHps]; intros avs; unfold bindp_fix; cbv beta iota; fold bindp_fix;
    unfold nil_cell; swalk.
Qed.

(* a call never returns the return signal: the one of its own body is absorbed, and nothing
   else in callFunction can produce one *)
Theorem call_absorbs_return src funcs fz n tok fc args :
  sig_ok (fun x => x <> SigReturn) (call_function src funcs fz n tok fc args).
Proof.
  destruct n as [|n]; [rewrite call_function_O; apply sig_fail; discriminate|].
  rewrite call_function_S. unfold nil_cell.
  swalk_with ltac:(first [apply nosig_any; apply nosig_native_call | apply nosig_any; apply bindp_nosig]).
  apply (sig_catch (fun _ => True)); [intros s r s' _ x _; exact Logic.I|].
  intros r _. apply sig_bind; [apply nosig_any, nosig_pop_frame|intros _].
  destruct r as [u|e|x| | |]; try destruct x; unfold nil_cell; swalk;
    apply sig_fail; intros y Hy; inversion Hy; subst; discriminate.
Qed.

(* ------------------------------------------------------------------ stray and classify *)

Theorem stray_never_raw {A} src tok (r : res A) : sig_ok only_exit (@stray A src tok r).
Proof.
  destruct r as [a|e|x| | |]; cbn [stray reraise]; try (apply sig_fail; discriminate).
  destruct x; swalk; apply sig_fail; intros y Hy; inversion Hy; reflexivity.
Qed.

Theorem classify_raw_iff (r : res unit) :
  classify r = ORaw <-> exists x, r = Sig x /\ x <> SigExit.
Proof.
  split.
  - destruct r as [u|e|x| | |]; cbn; try discriminate.
    + destruct (ekind_of e); discriminate.
    + destruct x; try discriminate; intros _; eexists; split; try reflexivity; discriminate.
  - intros (x & E & Hx). subst r. destruct x; try reflexivity. congruence.
Qed.

(* ------------------------------------------------------------------ well-placed signals *)

Lemma allowed_ff inl inf x : allowed false false x -> allowed inl inf x.
Proof. destruct x; cbn; intros H; try discriminate; exact H. Qed.
Lemma allowed_f inl inf x : allowed false inf x -> allowed inl inf x.
Proof. destruct x; cbn; intros H; try discriminate; exact H. Qed.

Lemma forallb_nth {A} (p : A -> bool) l i x :
  forallb p l = true -> nth_error l i = Some x -> p x = true.
Proof.
  intros H Hn. apply nth_error_In in Hn. rewrite forallb_forall in H. auto.
Qed.

(* one-step equations of wf_expr / wf_stmt *)
Lemma wf_EArr inl inf t items : wf_expr inl inf (EArr t items) = forallb (wf_expr inl inf) items.
Proof. reflexivity. Qed.
Lemma wf_EObj inl inf t items :
  wf_expr inl inf (EObj t items) = forallb (fun kv => wf_expr inl inf (snd kv)) items.
Proof. reflexivity. Qed.
Lemma wf_EUn inl inf x op pf : wf_expr inl inf (EUn x op pf) = wf_expr inl inf x.
Proof. reflexivity. Qed.
Lemma wf_EBin inl inf l r op : wf_expr inl inf (EBin l r op) = wf_expr inl inf l && wf_expr inl inf r.
Proof. reflexivity. Qed.
Lemma wf_ECall inl inf f args :
  wf_expr inl inf (ECall f args) = wf_expr inl inf f && forallb (wf_expr inl inf) args.
Proof. reflexivity. Qed.
Lemma wf_EMatch inl inf t v cases :
  wf_expr inl inf (EMatch t v cases) =
  wf_expr inl inf v && forallb (fun c => wf_stmt inl inf (snd c)) cases.
Proof. reflexivity. Qed.
Lemma wf_SBlock inl inf t body : wf_stmt inl inf (SBlock t body) = forallb (wf_stmt inl inf) body.
Proof. reflexivity. Qed.
Lemma wf_SPrint inl inf t args : wf_stmt inl inf (SPrint t args) = forallb (wf_expr inl inf) args.
Proof. reflexivity. Qed.
Lemma wf_SExpr inl inf e : wf_stmt inl inf (SExpr e) = wf_expr inl inf e.
Proof. reflexivity. Qed.
Lemma wf_SReturnS inl inf e : wf_stmt inl inf (SReturn (Some e)) = inf && wf_expr inl inf e.
Proof. reflexivity. Qed.
Lemma wf_SReturnN inl inf : wf_stmt inl inf (SReturn None) = inf.
Proof. reflexivity. Qed.
Lemma wf_SBreak inl inf t : wf_stmt inl inf (SBreak t) = inl. Proof. reflexivity. Qed.
Lemma wf_SContinue inl inf t : wf_stmt inl inf (SContinue t) = inl. Proof. reflexivity. Qed.
Lemma wf_SIfN inl inf c b : wf_stmt inl inf (SIf c b None) = wf_expr inl inf c && wf_stmt inl inf b.
Proof. reflexivity. Qed.
Lemma wf_SIfS inl inf c b e :
  wf_stmt inl inf (SIf c b (Some e)) = wf_expr inl inf c && wf_stmt inl inf b && wf_stmt inl inf e.
Proof. reflexivity. Qed.
Lemma wf_SWhile inl inf c b : wf_stmt inl inf (SWhile c b) = wf_expr inl inf c && wf_stmt true inf b.
Proof. reflexivity. Qed.
Lemma wf_SFor inl inf pre c post b :
  wf_stmt inl inf (SFor pre c post b) =
  wf_expr inl inf pre && wf_expr inl inf c && wf_expr inl inf post && wf_stmt true inf b.
Proof. reflexivity. Qed.
Lemma wf_SForIn inl inf id ix iter b :
  wf_stmt inl inf (SForIn id ix iter b) = wf_expr inl inf iter && wf_stmt true inf b.
Proof. reflexivity. Qed.

Ltac wf_split :=
  repeat match goal with
         | H : (_ && _) = true |- _ => apply andb_prop in H; destruct H
         end.

Ltac wf_norm H :=
  repeat first
    [ rewrite wf_EArr in H | rewrite wf_EObj in H | rewrite wf_EUn in H | rewrite wf_EBin in H
    | rewrite wf_ECall in H | rewrite wf_EMatch in H | rewrite wf_SBlock in H | rewrite wf_SPrint in H
    | rewrite wf_SExpr in H | rewrite wf_SReturnS in H | rewrite wf_SReturnN in H
    | rewrite wf_SBreak in H | rewrite wf_SContinue in H | rewrite wf_SIfN in H | rewrite wf_SIfS in H
    | rewrite wf_SWhile in H | rewrite wf_SFor in H | rewrite wf_SForIn in H ];
  wf_split.

(* raising a signal that the position allows *)
Ltac sigfail :=
  apply sig_fail;
  let y := fresh "y" in let Hy := fresh "Hy" in
  intros y Hy; inversion Hy; subst; cbn [allowed];
  first [exact Logic.I | assumption | reflexivity].

(* re-raising a caught signal x (a constructor): Hr says what the body may have raised *)
Ltac resig Hr :=
  apply sig_fail;
  let y := fresh "y" in let Hy := fresh "Hy" in
  intros y Hy; inversion Hy; subst y;
  let Ha := fresh "Ha" in
  pose proof (Hr _ eq_refl) as Ha; cbn [allowed] in Ha |- *;
  first [exact Logic.I | assumption | discriminate | reflexivity | congruence].

Section SigWalk.
  Variable src : bytes.
  Variable funcs : list func.
  Variable fz : bool.
  Hypothesis WF : forallb wf_func funcs = true.

  Record all_sig (n : nat) : Prop := {
    sg_expr : forall inl inf e, wf_expr inl inf e = true ->
        sig_ok (allowed inl inf) (eval_expr src funcs fz n e);
    sg_match_cases : forall inl inf t sub cs,
        forallb (fun c => wf_stmt inl inf (snd c)) cs = true ->
        sig_ok (allowed inl inf) (eval_match_cases src funcs fz n t sub cs);
    sg_case_match : forall sub ps, sig_ok (allowed false false) (eval_case_match src funcs fz n sub ps);
    sg_call : forall tok fc args, sig_ok (allowed false false) (call_function src funcs fz n tok fc args);
    sg_unary : forall inl inf x op pf, wf_expr inl inf x = true ->
        sig_ok (allowed inl inf) (eval_unary src funcs fz n x op pf);
    sg_binary : forall inl inf l r op, wf_expr inl inf l = true -> wf_expr inl inf r = true ->
        sig_ok (allowed inl inf) (eval_binary src funcs fz n l r op);
    sg_expr_list : forall inl inf es c, forallb (wf_expr inl inf) es = true ->
        sig_ok (allowed inl inf) (eval_expr_list src funcs fz n es c);
    sg_stmt : forall inl inf s, wf_stmt inl inf s = true ->
        sig_ok (allowed inl inf) (eval_stmt src funcs fz n s);
    sg_body : forall inf b, wf_stmt true inf b = true ->
        sig_ok (allowed false inf) (eval_body src funcs fz n b);
    sg_while : forall inl inf c b k, wf_expr inl inf c = true -> wf_stmt true inf b = true ->
        sig_ok (allowed inl inf) (eval_while src funcs fz n c b k);
    sg_for : forall inl inf c p b k,
        wf_expr inl inf c = true -> wf_expr inl inf p = true -> wf_stmt true inf b = true ->
        sig_ok (allowed inl inf) (eval_for src funcs fz n c p b k);
    sg_forin_arr : forall inf lo ix bid off len i b, wf_stmt true inf b = true ->
        sig_ok (allowed false inf) (eval_forin_arr src funcs fz n lo ix bid off len i b);
    sg_forin_obj : forall inf lo ix oid keys b, wf_stmt true inf b = true ->
        sig_ok (allowed false inf) (eval_forin_obj src funcs fz n lo ix oid keys b);
    sg_forin_str : forall inf lo ix rs b, wf_stmt true inf b = true ->
        sig_ok (allowed false inf) (eval_forin_str src funcs fz n lo ix rs b)
  }.

  Lemma all_sig_O : all_sig 0.
  Proof. constructor; intros; apply sig_fail; discriminate. Qed.

  Ltac sext :=
    apply nosig_any;
    first [ apply nosig_get_identifier | apply nosig_as_float_m | apply nosig_pretty_m
          | apply nosig_print_args | apply nosig_lift_vres | apply nosig_eval_assignment
          | apply nosig_native_call | apply nosig_m_alloc ].

  Ltac use_sg IH :=
    first
      [ eapply (sg_expr _ IH); eassumption
      | eapply (sg_match_cases _ IH); eassumption
      | eapply sig_weaken; [apply allowed_ff | apply (sg_case_match _ IH)]
      | eapply sig_weaken; [apply allowed_ff | apply (sg_call _ IH)]
      | eapply (sg_unary _ IH); eassumption
      | eapply (sg_binary _ IH); eassumption
      | eapply (sg_expr_list _ IH); eassumption
      | eapply (sg_stmt _ IH); eassumption
      | eapply sig_weaken; [apply allowed_f | eapply (sg_body _ IH); eassumption]
      | eapply (sg_while _ IH); eassumption
      | eapply (sg_for _ IH); eassumption
      | eapply sig_weaken; [apply allowed_f | eapply (sg_forin_arr _ IH); eassumption]
      | eapply sig_weaken; [apply allowed_f | eapply (sg_forin_obj _ IH); eassumption]
      | eapply sig_weaken; [apply allowed_f | eapply (sg_forin_str _ IH); eassumption] ].

  Ltac sgo IH := unfold bool_cell, nil_cell; swalk_with ltac:(first [sext | use_sg IH | sigfail]).

  Lemma sstep_expr n (IH : all_sig n) inl inf e :
    wf_expr inl inf e = true -> sig_ok (allowed inl inf) (eval_expr src funcs fz (S n) e).
  Proof.
    intros H. rewrite eval_expr_S. destruct e; wf_norm H; sgo IH.
    (* the fields of an object literal *)
    match goal with |- sig_ok _ (_ ?l) => revert H; induction l as [|[k x] r IHr]; intros H end;
      cbv beta iota; cbn [forallb snd] in H; wf_split; sgo IH.
  Qed.

  Lemma bindall_nosig (l : list (bytes * addr)) :
    nosig ((fix bindall (l : list (bytes * addr)) : M unit :=
              match l with
              | [] => ret tt
              | (k, a) :: r => set_local k a ;;; bindall r
              end) l).
  Proof. induction l as [|[k a] r IHr]; cbv beta iota; swalk. Qed.

  (* pop the frame, then hand the caught outcome of a match body on *)
  Lemma match_handler (al : signal -> Prop) (r : res addr) :
    (forall x, r = Sig x -> al x) ->
    sig_ok al (pop_frame ;;; match r with Ok c => ret c | other => reraise other end).
  Proof.
    intros Hr. apply sig_bind; [apply nosig_any, nosig_pop_frame|intros _].
    destruct r as [c|e|x| | |]; cbn [reraise]; try (apply sig_ret); try (apply sig_fail; discriminate).
    apply sig_fail. intros y Hy. inversion Hy; subst. apply Hr. reflexivity.
  Qed.

  (* the statement body of a match case: caught, wrapped, frame popped, handed on *)
  Lemma stmt_body_sig (al : signal -> Prop) (m : M unit) :
    sig_ok al m ->
    sig_ok al
      (let* r :=
         (let* r0 := catch m in
          match r0 with
          | Ok _ => let* c := nil_cell in ret (Ok c)
          | Err e0 => ret (Err e0)
          | Sig x => ret (Sig x)
          | Panic => ret Panic
          | Fuel => ret Fuel
          | Unsupp => ret Unsupp
          end) in
       pop_frame ;;; match r with Ok c => ret c | other => reraise other end).
  Proof.
    intros Hm. eapply sig_ext; [intros s0; apply bind_assoc|].
    apply (sig_catch al); [exact Hm|].
    intros r0 Hr0. destruct r0 as [u|e0|x0| | |].
    - eapply sig_ext; [intros s0; apply bind_assoc|].
      apply sig_bind; [apply nosig_any, nosig_m_alloc|intros c]. apply sig_bind_ret.
      apply (match_handler al (Ok c)). intros y Hy. discriminate Hy.
    - apply sig_bind_ret. apply (match_handler al (Err e0)). intros y Hy. discriminate Hy.
    - apply sig_bind_ret. apply (match_handler al (Sig x0)). intros y Hy. inversion Hy; subst. apply Hr0. reflexivity.
    - apply sig_bind_ret. apply (match_handler al Panic). intros y Hy. discriminate Hy.
    - apply sig_bind_ret. apply (match_handler al Fuel). intros y Hy. discriminate Hy.
    - apply sig_bind_ret. apply (match_handler al Unsupp). intros y Hy. discriminate Hy.
  Qed.

  Lemma sstep_match_cases n (IH : all_sig n) inl inf t sub cs :
    forallb (fun c => wf_stmt inl inf (snd c)) cs = true ->
    sig_ok (allowed inl inf) (eval_match_cases src funcs fz (S n) t sub cs).
  Proof.
    intros H. rewrite eval_match_cases_S. destruct cs as [|[pats body] rest]; [sgo IH|].
    cbn [forallb snd] in H. wf_split.
    apply sig_bind; [use_sg IH|intros m]. destruct m as [bindings|]; [|use_sg IH].
    apply sig_bind; [apply nosig_any, nosig_push_frame|intros ok].
    destruct (negb ok); [apply nosig_any, nosig_rt_error|].
    apply sig_bind; [apply nosig_any, bindall_nosig|intros _].
    assert (Hstmt : sig_ok (allowed inl inf) (eval_stmt src funcs fz n body)) by use_sg IH.
    destruct body; try (apply stmt_body_sig; exact Hstmt).
    (* SExpr *)
    match goal with Hw : wf_stmt inl inf (SExpr _) = true |- _ => rewrite wf_SExpr in Hw end.
    apply (sig_catch (allowed inl inf)); [use_sg IH|].
    intros r Hr. apply match_handler. exact Hr.
  Qed.

  Lemma sstep_case_match n (IH : all_sig n) sub ps :
    sig_ok (allowed false false) (eval_case_match src funcs fz (S n) sub ps).
  Proof.
    rewrite eval_case_match_S. destruct ps as [|p rest]; [sgo IH|].
    destruct p; sgo IH.
    - (* a literal pattern is evaluated: it is well-formed in every position *)
      eapply (sg_expr _ IH). reflexivity.
    - match goal with |- sig_ok _ (_ ?cs ?ps ?acc) => generalize acc; generalize ps; generalize cs end.
      intros cs. induction cs as [|c cs IHcs]; intros ps acc; cbv beta iota; sgo IH.
  Qed.

  Lemma sstep_call n (IH : all_sig n) tok fc args :
    sig_ok (allowed false false) (call_function src funcs fz (S n) tok fc args).
  Proof.
    rewrite call_function_S.
    sgo IH.
    - apply nosig_any. apply bindp_nosig.
    - match goal with Hn : nth_error funcs _ = Some ?fn |- _ =>
        pose proof (forallb_nth _ _ _ _ WF Hn) as Hwf; unfold wf_func in Hwf end.
      apply (sig_catch (allowed false true)); [use_sg IH|].
      intros r Hr. apply sig_bind; [apply nosig_any, nosig_pop_frame|intros _].
      destruct r as [u|e|x| | |]; try destruct x; cbn [reraise]; sgo IH; resig Hr.
  Qed.

  Lemma sstep_unary n (IH : all_sig n) inl inf x op pf :
    wf_expr inl inf x = true -> sig_ok (allowed inl inf) (eval_unary src funcs fz (S n) x op pf).
  Proof. intros H. rewrite eval_unary_S. sgo IH. Qed.

  Lemma sstep_binary n (IH : all_sig n) inl inf l r op :
    wf_expr inl inf l = true -> wf_expr inl inf r = true ->
    sig_ok (allowed inl inf) (eval_binary src funcs fz (S n) l r op).
  Proof. intros Hl Hr. rewrite eval_binary_S. sgo IH. Qed.

  Lemma sstep_expr_list n (IH : all_sig n) inl inf es c :
    forallb (wf_expr inl inf) es = true ->
    sig_ok (allowed inl inf) (eval_expr_list src funcs fz (S n) es c).
  Proof.
    intros H. rewrite eval_expr_list_S. destruct es as [|x rest]; [sgo IH|].
    cbn [forallb] in H. wf_split. sgo IH.
  Qed.

  Lemma sstep_stmt n (IH : all_sig n) inl inf s :
    wf_stmt inl inf s = true -> sig_ok (allowed inl inf) (eval_stmt src funcs fz (S n) s).
  Proof.
    intros H. rewrite eval_stmt_S.
    destruct s as [t body|t args|e|[e|]|t|t|t|t|c body [els|]|c body|pre c post body|id ix iter body];
      wf_norm H; sgo IH.
    (* the statements of a block *)
    match goal with |- sig_ok _ (_ ?l) => revert H; induction l as [|x r IHr]; intros H end;
      cbv beta iota; cbn [forallb] in H; wf_split; sgo IH.
  Qed.

  Lemma sstep_body n (IH : all_sig n) inf b :
    wf_stmt true inf b = true -> sig_ok (allowed false inf) (eval_body src funcs fz (S n) b).
  Proof.
    intros H. rewrite eval_body_S.
    apply (sig_catch (allowed true inf)); [use_sg IH|].
    intros r Hr. destruct r as [u|e|x| | |]; try destruct x; cbn [reraise]; sgo IH; resig Hr.
  Qed.

  Lemma sstep_while n (IH : all_sig n) inl inf c b k :
    wf_expr inl inf c = true -> wf_stmt true inf b = true ->
    sig_ok (allowed inl inf) (eval_while src funcs fz (S n) c b k).
  Proof. intros Hc Hb. rewrite eval_while_S. sgo IH. Qed.

  Lemma sstep_for n (IH : all_sig n) inl inf c p b k :
    wf_expr inl inf c = true -> wf_expr inl inf p = true -> wf_stmt true inf b = true ->
    sig_ok (allowed inl inf) (eval_for src funcs fz (S n) c p b k).
  Proof. intros Hc Hp Hb. rewrite eval_for_S. sgo IH. Qed.

  Ltac use_body IH := eapply (sg_body _ IH); eassumption.

  Lemma sstep_forin_arr n (IH : all_sig n) inf lo ix bid off len i b :
    wf_stmt true inf b = true ->
    sig_ok (allowed false inf) (eval_forin_arr src funcs fz (S n) lo ix bid off len i b).
  Proof.
    intros Hb. rewrite eval_forin_arr_S.
    swalk_with ltac:(first [use_body IH | eapply (sg_forin_arr _ IH); eassumption]).
  Qed.

  Lemma sstep_forin_obj n (IH : all_sig n) inf lo ix oid keys b :
    wf_stmt true inf b = true ->
    sig_ok (allowed false inf) (eval_forin_obj src funcs fz (S n) lo ix oid keys b).
  Proof.
    intros Hb. rewrite eval_forin_obj_S.
    swalk_with ltac:(first [use_body IH | eapply (sg_forin_obj _ IH); eassumption]).
  Qed.

  Lemma sstep_forin_str n (IH : all_sig n) inf lo ix rs b :
    wf_stmt true inf b = true ->
    sig_ok (allowed false inf) (eval_forin_str src funcs fz (S n) lo ix rs b).
  Proof.
    intros Hb. rewrite eval_forin_str_S.
    swalk_with ltac:(first [use_body IH | eapply (sg_forin_str _ IH); eassumption]).
  Qed.

  Theorem all_sig_n : forall n, all_sig n.
  Proof.
    induction n as [|n IH]; [apply all_sig_O|].
    constructor; intros.
    - apply sstep_expr; assumption.
    - apply sstep_match_cases; assumption.
    - apply sstep_case_match; assumption.
    - apply sstep_call; assumption.
    - apply sstep_unary; assumption.
    - apply sstep_binary; assumption.
    - apply sstep_expr_list; assumption.
    - apply sstep_stmt; assumption.
    - apply sstep_body; assumption.
    - apply sstep_while; assumption.
    - apply sstep_for; assumption.
    - apply sstep_forin_arr; assumption.
    - apply sstep_forin_obj; assumption.
    - apply sstep_forin_str; assumption.
  Qed.
End SigWalk.

(* ------------------------------------------------------------------ rules and driver *)

Lemma only_exit_any al : (al SigExit) -> forall x, only_exit x -> al x.
Proof. intros H x E. unfold only_exit in E. subst x. exact H. Qed.

Section SigRules.
  Variable src : bytes.
  Variable funcs : list func.
  Variable fz : bool.
  Hypothesis WF : forallb wf_func funcs = true.

  (* the rules of one element absorb next; with well-placed signals only exit is left *)
  Lemma sig_eval_rules n rules :
    forallb wf_rule rules = true -> sig_ok only_exit (eval_rules src funcs fz n rules).
  Proof.
    pose proof (all_sig_n src funcs fz WF n) as IH.
    induction rules as [|r rest IHr]; intros H; cbn [eval_rules]; [apply sig_ret|].
    cbn [forallb] in H. unfold wf_rule in H at 1. wf_split.
    apply sig_bind.
    - destruct (rpattern r) as [p|]; [|apply sig_ret].
      apply (sig_catch (allowed false false)); [eapply (sg_expr _ _ _ _ IH); eassumption|].
      intros r0 Hr. destruct r0 as [u|e|x| | |]; try destruct x; cbn [reraise]; swalk; resig Hr.
    - intros m. destruct m as [[|]|]; [|auto|apply sig_ret].
      apply (sig_catch (allowed false false)); [eapply (sg_stmt _ _ _ _ IH); eassumption|].
      intros r0 Hr. destruct r0 as [u|e|x| | |]; try destruct x; cbn [reraise]; swalk; try resig Hr.
      
  Qed.

  Lemma sig_eval_elements n rules bid off len :
    forallb wf_rule rules = true ->
    forall k i, sig_ok only_exit (eval_elements src funcs fz n rules bid off len k i).
  Proof.
    intros H. induction k as [|k IHk]; intros i; cbn [eval_elements];
      swalk_with ltac:(apply sig_eval_rules; assumption).
  Qed.

  Lemma sig_eval_pattern_rules n rules :
    forallb wf_rule rules = true -> sig_ok only_exit (eval_pattern_rules src funcs fz n rules).
  Proof.
    intros H. unfold eval_pattern_rules.
    swalk_with ltac:(first [apply sig_eval_rules; assumption | apply sig_eval_elements; assumption]).
  Qed.
End SigRules.

Lemma nosig_add_functions src fns : forall idx, nosig (add_functions src fns idx).
Proof. induction fns as [|fn rest IH]; intros idx; cbn [add_functions]; swalk. Qed.

Lemma nosig_new_evaluator_tail src fns : nosig (new_evaluator_tail src fns).
Proof. unfold new_evaluator_tail. swalk_with ltac:(apply nosig_add_functions). Qed.

(* a root selector: whatever its expression does, only exit comes out *)
Theorem eval_selector_only_exit n sel doc : sig_ok only_exit (eval_selector n sel doc).
Proof.
  eapply sig_ext; [intros s; apply eval_selector_eq|].
  destruct (parse_expression_src sel) as [e p|pos| |].
  - apply sig_isolate. apply sig_bind; [apply nosig_any, nosig_set_frames|intros _].
    unfold selector_tail.
    apply sig_bind; [apply nosig_any, nosig_new_evaluator_tail|intros _].
    apply sig_bind; [apply nosig_any, nosig_with_heap|intros rv].
    apply sig_bind; [apply nosig_any, nosig_m_alloc|intros rc].
    apply sig_bind; [apply nosig_any, nosig_set_root|intros _].
    apply sig_bind; [apply nosig_any, nosig_set_rule_root|intros _].
    apply (sig_catch (fun _ => True)); [intros s r s' _ x _; exact Logic.I|].
    intros r _. destruct r as [c|e0|x| | |]; try apply stray_never_raw. swalk.
  - apply nosig_any, nosig_raise.
  - apply (@sig_fail only_exit addr Fuel). discriminate.
  - apply (@sig_fail only_exit addr Panic). discriminate.
Qed.

Section SigRun.
  Variable src : bytes.
  Variable prog : program.
  Variable fz : bool.
  Variable selectors : list bytes.
  Variable n : nat.

  (* BEGIN / END / BEGINFILE / ENDFILE rules: stray signals become runtime errors *)
  Theorem run_special_only_exit rs mk :
    sig_ok only_exit mk -> sig_ok only_exit (run_special src prog fz n rs mk).
  Proof.
    intros Hmk. induction rs as [|r rest IHr]; cbn [run_special]; [apply sig_ret|].
    apply sig_bind; [assumption|intros a].
    apply sig_bind; [apply nosig_any, nosig_set_rule_root|intros _].
    apply (sig_catch (fun _ => True)); [intros s r0 s' _ x _; exact Logic.I|].
    intros r0 _. destruct r0 as [c|e0|x| | |]; try apply stray_never_raw. assumption.
  Qed.

  Hypothesis WF : wf_program prog = true.

  Lemma wf_funcs : forallb wf_func (pfuncs prog) = true.
  Proof. unfold wf_program in WF. apply andb_prop in WF. tauto. Qed.

  Lemma wf_pattern_rules : forallb wf_rule (pattern_rules prog) = true.
  Proof.
    unfold wf_program in WF. apply andb_prop in WF. destruct WF as [_ H].
    unfold pattern_rules, rules_of_kind. rewrite forallb_forall in *.
    intros r Hr. apply filter_In in Hr. apply H. tauto.
  Qed.

  Lemma sig_process_root rc : sig_ok only_exit (process_root src prog fz n rc).
  Proof.
    unfold process_root.
    swalk_with ltac:(first [ apply run_special_only_exit
                           | apply sig_eval_pattern_rules; [apply wf_funcs|apply wf_pattern_rules] ]).
  Qed.

  Lemma sig_select_roots doc sels : sig_ok only_exit (select_roots n doc sels).
  Proof.
    induction sels as [|s rest IH]; cbn [select_roots]; swalk_with ltac:(apply eval_selector_only_exit).
  Qed.

  Lemma sig_process_roots rcs : sig_ok only_exit (process_roots src prog fz n rcs).
  Proof.
    induction rcs as [|rc rest IH]; cbn [process_roots]; swalk_with ltac:(apply sig_process_root).
  Qed.

  Lemma sig_process_value name doc : sig_ok only_exit (process_value src prog fz selectors n name doc).
  Proof.
    unfold process_value.
    swalk_with ltac:(first [ apply sig_select_roots | apply sig_process_roots ]).
  Qed.

  Lemma sig_decode_loop k : forall name d, sig_ok only_exit (decode_loop src prog fz selectors n k name d).
  Proof.
    induction k as [|k IH]; intros name d; cbn [decode_loop]; [apply sig_fail; discriminate|].
    destruct (dec_step d) as [[r d'] evs].
    swalk_with ltac:(apply sig_process_value).
  Qed.

  Lemma sig_run_files files : sig_ok only_exit (run_files src prog fz selectors n files).
  Proof.
    induction files as [|[name rd] rest IH]; cbn [run_files]; swalk_with ltac:(apply sig_decode_loop).
  Qed.

  Theorem run_body_only_exit files : sig_ok only_exit (run_body src prog fz selectors n files).
  Proof.
    eapply sig_ext; [intros s; apply run_body_eq|].
    apply sig_bind; [apply nosig_any, nosig_set_frames|intros _].
    unfold run_body_tail.
    swalk_with ltac:(first [ apply nosig_any; apply nosig_new_evaluator_tail
                           | apply run_special_only_exit | apply sig_run_files ]).
  Qed.
End SigRun.

(* no internal signal surfaces as the result of a run of a well-formed program *)
Theorem run_never_raw n src files sels fz prog p :
  parse_program src = POk prog p -> wf_program prog = true ->
  r_outcome (eval_program n src files sels fz) <> ORaw.
Proof.
  intros Hp WF. unfold eval_program. rewrite Hp.
  destruct (run_body src prog fz sels n files init_state) as [r s] eqn:Hr. cbn [r_outcome].
  intros Hc. apply classify_raw_iff in Hc. destruct Hc as (x & E & Hx). subst r.
  apply Hx. exact (run_body_only_exit src prog fz sels n WF files _ _ _ Hr x eq_refl).
Qed.

(* without the well-formedness hypothesis: the special rules and the selectors never leak *)
Theorem eval_program_raw_only_from_pattern_rules n src files sels fz :
  r_outcome (eval_program n src files sels fz) = ORaw ->
  exists prog p, parse_program src = POk prog p /\ wf_program prog = false.
Proof.
  intros H. unfold eval_program in H.
  destruct (parse_program src) as [prog p|pos| |] eqn:Hp; try discriminate.
  exists prog, p. split; [reflexivity|].
  destruct (wf_program prog) eqn:WF; [|reflexivity].
  exfalso. revert H. change (r_outcome (let '(r, s) := run_body src prog fz sels n files init_state in mkRun (classify r) s) <> ORaw).
  pose proof (run_never_raw n src files sels fz prog p Hp WF) as Hn.
  unfold eval_program in Hn. rewrite Hp in Hn. exact Hn.
Qed.
