(* Proofs/IncrDecr.v -- C09: ++ / -- add or subtract one and return the old (postfix) or the
   new (prefix) value; on a missing member of an object they create the member (null counts
   as 0). *)
From Coq Require Import List ZArith Bool Lia.
From Coq Require Import FMapPositive.
From JQ Require Import Base.Bytes Num.F64 Gen.Generated.
From JQ Require Import Json.JValue Syntax.Token Syntax.Ast Sem.Value Sem.Ops Sem.Natives Sem.Eval Sem.Driver.
From JQ Require Import Spec.IdealList Proofs.Arrays Proofs.EvalUnfold Proofs.AssignCreate.
Import ListNotations.
Open Scope nat_scope.

(* the increment/decrement branch of eval_unary, after the operand has been evaluated *)
Lemma eval_unary_incdec : forall src funcs fz f x op postfix s vc s1 (up : bool) old,
  eval_expr src funcs fz f x s = (Ok vc, s1) ->
  as_float (load (hp s1) vc) = Some old ->
  uop_of (ttag op) = (if up then UInc else UDec) ->
  let newv := if up then f_add old f_one else f_sub old f_one in
  eval_unary src funcs fz (S f) x op postfix s =
  (let* stored := eval_assignment src f op vc (next (hp s1)) in
   if postfix then m_alloc (VNum old)
   else let* sv := m_load stored in m_alloc sv)
    (set_hp s1 (snd (alloc (hp s1) (VNum newv)))).
Proof.
  intros src funcs fz f x op postfix s vc s1 up old Hx Hfl Hop newv.
  rewrite eval_unary_S. unfold bind at 1. rewrite Hx.
  unfold bind at 1. unfold m_load at 1.
  rewrite Hop. unfold newv.
  destruct up; unfold bind at 1; unfold as_float_m at 1; rewrite Hfl; unfold ret at 1;
    unfold bind at 1; unfold m_alloc at 1; unfold with_heap at 1; reflexivity.
Qed.

(* x++ / x-- / ++x / --x where x evaluates to an ordinary location vc (its value is neither
   a speculative member nor a method found through a prototype); [up] = true for ++.
   The value of vc is read as a number [old] (as_float: numbers as they are, booleans 0/1,
   strings parsed, everything else 0); three cells are touched or created:
     nc = next (hp s1)         a fresh cell holding the new number (the right-hand side of
                               the assignment the evaluator performs),
     vc                        receives the new number,
     r = succ (next (hp s1))   a fresh cell holding the result: the old number for the
                               postfix form, the new one for the prefix form.
   The state after differs from the state after evaluating x only in the heap. *)
Lemma incdec_plain : forall src funcs fz f x op postfix s vc s1 v old (up : bool),
  eval_expr src funcs fz f x s = (Ok vc, s1) ->
  load (hp s1) vc = v ->
  as_float v = Some old ->
  (forall p, v <> VNil (Some p)) -> (forall nf p, v <> VNative nf (Some p)) ->
  (vc < next (hp s1))%positive ->
  uop_of (ttag op) = (if up then UInc else UDec) ->
  let newv := if up then f_add old f_one else f_sub old f_one in
  exists r h2,
    eval_unary src funcs fz (S f) x op postfix s = (Ok r, set_hp s1 h2) /\
    load h2 vc = VNum newv /\
    load h2 r = VNum (if postfix then old else newv) /\
    r = Pos.succ (next (hp s1)) /\ (next (hp s1) <= r)%positive /\
    load h2 (next (hp s1)) = VNum newv /\
    next h2 = Pos.succ (Pos.succ (next (hp s1))) /\
    (forall a, (a < next (hp s1))%positive -> a <> vc -> load h2 a = load (hp s1) a) /\
    (forall o, get_obj h2 o = get_obj (hp s1) o) /\
    (forall b, get_back h2 b = get_back (hp s1) b).
Proof.
  intros src funcs fz f x op postfix s vc s1 v old up Hx Hv Hfl Hns Hnn Hvc Hop newv.
  subst v.
  rewrite (eval_unary_incdec src funcs fz f x op postfix s vc s1 up old Hx Hfl Hop). fold newv.
  set (h := hp s1) in *.
  set (nc := next h) in *.
  set (ha := snd (alloc h (VNum newv))).
  assert (Hlvc : load ha vc = load h vc) by (unfold ha; apply load_alloc_other; unfold nc in *; lia).
  assert (Hlnc : load ha nc = VNum newv).
  { unfold ha, nc. change (next h) with (fst (alloc h (VNum newv))). apply load_alloc_same. }
  assert (Hasg : eval_assignment src f op vc nc (set_hp s1 ha) =
                 (Ok vc, set_hp s1 (store ha vc (VNum newv)))).
  { rewrite (assign_plain src f op vc nc (set_hp s1 ha) (VNum newv)).
    - rewrite set_hp_hp, set_hp_twice. reflexivity.
    - intros p. rewrite set_hp_hp, Hlvc. apply Hns.
    - intros nf p. rewrite set_hp_hp, Hlvc. apply Hnn.
    - rewrite set_hp_hp, Hlnc. reflexivity. }
  set (hb := store ha vc (VNum newv)) in *.
  set (res := if postfix then old else newv).
  exists (next hb), (snd (alloc hb (VNum res))).
  assert (Hnb : next hb = Pos.succ nc) by reflexivity.
  assert (Hlb : load hb vc = VNum newv) by apply load_store_same.
  split; [|split; [|split; [|split; [|split; [|split; [|split; [|split; [|split]]]]]]]].
  - unfold bind at 1. rewrite Hasg. unfold res.
    destruct postfix.
    + reflexivity.
    + unfold bind at 1. unfold m_load at 1. rewrite set_hp_hp, Hlb. reflexivity.
  - rewrite load_alloc_other by (rewrite Hnb; unfold nc in *; lia). exact Hlb.
  - change (next hb) with (fst (alloc hb (VNum res))). apply load_alloc_same.
  - exact Hnb.
  - rewrite Hnb. unfold nc. lia.
  - rewrite load_alloc_other by (rewrite Hnb; lia). unfold hb.
    rewrite load_store_other by (unfold nc in *; lia). exact Hlnc.
  - reflexivity.
  - intros a Ha Hne. rewrite load_alloc_other by (rewrite Hnb; unfold nc in *; lia). unfold hb.
    rewrite load_store_other by exact Hne. unfold ha. apply load_alloc_other. unfold nc in *; lia.
  - intros o. reflexivity.
  - intros b. reflexivity.
Qed.

(* assign_creates_member (Proofs/AssignCreate.v) with the resulting heap made explicit: the
   receiver's map gets the key, then the cell [left] gets the copy *)
Lemma assign_creates_member_heap : forall src n tok left right s parent m oid v,
  target_of (load (hp s) left) = Some (parent, m) ->
  load (hp s) parent = VObj oid ->
  copy_value (load (hp s) right) = Some v ->
  eval_assignment src (S n) tok left right s =
  (Ok left, set_hp s (store (set_obj (hp s) oid (assoc_set (to_str m) left (get_obj (hp s) oid))) left v)).
Proof.
  intros src n tok left right s parent m oid v Ht Hobj Hcopy.
  assert (Hnn : forall p, load (hp s) parent <> VNil p) by (intros p; rewrite Hobj; discriminate).
  pose proof (create_speculative_direct n left s parent m Ht Hnn) as Hcs.
  destruct (set_member_object s parent oid m left Hobj) as (Hsm & _ & _ & _ & Hld & _).
  rewrite Hsm in Hcs.
  rewrite (eval_assignment_created src (S n) tok left right s left
             (set_hp s (set_obj (hp s) oid (assoc_set (to_str m) left (get_obj (hp s) oid)))) v).
  - rewrite set_hp_hp, set_hp_twice. reflexivity.
  - destruct (load (hp s) left) as [| | | | |[[p0 [k0|x0]]|]|nf [p0|]| | |]; cbn in Ht; try discriminate;
      [left; eexists; reflexivity|left; eexists; reflexivity|right; eexists; eexists; reflexivity].
  - exact Hcs.
  - rewrite set_hp_hp, Hld. exact Hcopy.
Qed.

(* o.k++ / o.k-- / ++o.k / --o.k where o is an object and o.k is missing (x evaluates to the
   speculative nil for (parent, k)), or names a method of the object prototype (target_of, see
   Proofs/AssignCreate.v; for the plain case take [load (hp s1) vc = VNil (Some (parent, KStr k))],
   m = VStr k, to_str m = k).  A missing member counts as 0 (as_float of null and of a method
   is 0), so the member is created holding 0 + 1 (resp. 0 - 1), in the cell vc itself; the
   result is 0 for the postfix form and the new number for the prefix form.
   No other key, object, backing array or old cell changes. *)
Lemma incdec_missing_member : forall src funcs fz f x op postfix s vc s1 parent m oid (up : bool),
  eval_expr src funcs fz f x s = (Ok vc, s1) ->
  target_of (load (hp s1) vc) = Some (parent, m) ->
  load (hp s1) parent = VObj oid ->
  (vc < next (hp s1))%positive -> (parent < next (hp s1))%positive ->
  uop_of (ttag op) = (if up then UInc else UDec) ->
  let newv := if up then f_add f_zero f_one else f_sub f_zero f_one in
  exists r h2,
    eval_unary src funcs fz (S f) x op postfix s = (Ok r, set_hp s1 h2) /\
    assoc_get (to_str m) (get_obj h2 oid) = Some vc /\
    load h2 vc = VNum newv /\
    load h2 r = VNum (if postfix then f_zero else newv) /\
    r = Pos.succ (next (hp s1)) /\ (next (hp s1) <= r)%positive /\
    load h2 (next (hp s1)) = VNum newv /\
    next h2 = Pos.succ (Pos.succ (next (hp s1))) /\
    (forall k', k' <> to_str m -> assoc_get k' (get_obj h2 oid) = assoc_get k' (get_obj (hp s1) oid)) /\
    (forall o, o <> oid -> get_obj h2 o = get_obj (hp s1) o) /\
    (forall a, (a < next (hp s1))%positive -> a <> vc -> load h2 a = load (hp s1) a) /\
    (forall b, get_back h2 b = get_back (hp s1) b).
Proof.
  intros src funcs fz f x op postfix s vc s1 parent m oid up Hx Ht Hobj Hvc Hpar Hop newv.
  assert (Hfl : as_float (load (hp s1) vc) = Some f_zero).
  { destruct (load (hp s1) vc) as [| | | | |[[p0 [k0|x0]]|]|nf [p0|]| | |]; cbn in Ht; try discriminate; reflexivity. }
  destruct f as [|n]; [rewrite eval_expr_O in Hx; discriminate|].
  rewrite (eval_unary_incdec src funcs fz (S n) x op postfix s vc s1 up f_zero Hx Hfl Hop). fold newv.
  set (h := hp s1) in *.
  set (nc := next h) in *.
  set (ha := snd (alloc h (VNum newv))).
  assert (Hlvc : load ha vc = load h vc) by (unfold ha; apply load_alloc_other; unfold nc in *; lia).
  assert (Hlpar : load ha parent = VObj oid).
  { unfold ha. rewrite load_alloc_other by (unfold nc in *; lia). exact Hobj. }
  assert (Hlnc : load ha nc = VNum newv).
  { unfold ha, nc. change (next h) with (fst (alloc h (VNum newv))). apply load_alloc_same. }
  set (hs := set_obj ha oid (assoc_set (to_str m) vc (get_obj ha oid))).
  set (hb := store hs vc (VNum newv)).
  assert (Hasg : eval_assignment src (S n) op vc nc (set_hp s1 ha) = (Ok vc, set_hp s1 hb)).
  { rewrite (assign_creates_member_heap src n op vc nc (set_hp s1 ha) parent m oid (VNum newv)).
    - rewrite set_hp_hp, set_hp_twice. reflexivity.
    - rewrite set_hp_hp, Hlvc. exact Ht.
    - rewrite set_hp_hp. exact Hlpar.
    - rewrite set_hp_hp, Hlnc. reflexivity. }
  set (res := if postfix then f_zero else newv).
  exists (next hb), (snd (alloc hb (VNum res))).
  assert (Hnb : next hb = Pos.succ nc) by reflexivity.
  assert (Hlb : load hb vc = VNum newv) by apply load_store_same.
  assert (Hgo : forall o, get_obj (snd (alloc hb (VNum res))) o = get_obj hs o) by reflexivity.
  split; [|split; [|split; [|split; [|split; [|split; [|split; [|split; [|split; [|split; [|split]]]]]]]]]].
  - unfold bind at 1. rewrite Hasg. unfold res.
    destruct postfix.
    + reflexivity.
    + unfold bind at 1. unfold m_load at 1. rewrite set_hp_hp, Hlb. reflexivity.
  - rewrite Hgo. unfold hs. rewrite get_obj_set_same. apply assoc_get_set_same.
  - rewrite load_alloc_other by (rewrite Hnb; unfold nc in *; lia). exact Hlb.
  - change (next hb) with (fst (alloc hb (VNum res))). apply load_alloc_same.
  - exact Hnb.
  - rewrite Hnb. unfold nc. lia.
  - rewrite load_alloc_other by (rewrite Hnb; lia). unfold hb.
    rewrite load_store_other by (unfold nc in *; lia). exact Hlnc.
  - reflexivity.
  - intros k' Hk'. rewrite Hgo. unfold hs. rewrite get_obj_set_same.
    rewrite assoc_get_set_other by exact Hk'. reflexivity.
  - intros o Ho. rewrite Hgo. unfold hs. rewrite get_obj_set_other by exact Ho. reflexivity.
  - intros a Ha Hne. rewrite load_alloc_other by (rewrite Hnb; unfold nc in *; lia). unfold hb.
    rewrite load_store_other by exact Hne. change (load hs a) with (load ha a).
    unfold ha. apply load_alloc_other. unfold nc in *; lia.
  - intros b. reflexivity.
Qed.

(* ================================================================ examples *)

(* the variable x = 5 in cell 2 of the root frame; the program text is "x++" *)
Definition ex_var_st : st :=
  let '(c, h) := alloc empty_heap (VNum (f_of_Z 5)) in
  mkSt h [mkFrame (bs "<root>") [(bs "x", c)]] None None None [].
Definition ex_x : expr := EId (mkTok TIdent 0 1).

(* x++ : the hypotheses of incdec_plain hold (up = true, postfix = true); x becomes 6, the
   result cell holds 5 *)
Example incdec_plain_postfix_ex :
  let src := bs "x++" in
  let op := mkTok TPlusPlus 1 2 in
  (eval_expr src [] false 1 ex_x ex_var_st = (Ok 2%positive, ex_var_st) /\
   load (hp ex_var_st) 2%positive = VNum (f_of_Z 5) /\
   as_float (VNum (f_of_Z 5)) = Some (f_of_Z 5) /\
   (2 < next (hp ex_var_st))%positive /\
   uop_of (ttag op) = UInc) /\
  (let r := eval_unary src [] false 2 ex_x op true ex_var_st in
   fst r = Ok 4%positive /\
   load (hp (snd r)) 2%positive = VNum (f_of_Z 6) /\
   load (hp (snd r)) 4%positive = VNum (f_of_Z 5) /\
   f_add (f_of_Z 5) f_one = f_of_Z 6).
Proof. vm_compute. repeat split; reflexivity. Qed.

(* ++x : x becomes 6, the result cell holds 6; --x : 4 and 4; x-- : 4 and 5 *)
Example incdec_plain_prefix_ex :
  let src := bs "++x" in
  let x := EId (mkTok TIdent 2 1) in
  (let r := eval_unary src [] false 2 x (mkTok TPlusPlus 0 2) false ex_var_st in
   fst r = Ok 4%positive /\
   load (hp (snd r)) 2%positive = VNum (f_of_Z 6) /\ load (hp (snd r)) 4%positive = VNum (f_of_Z 6)) /\
  (let r := eval_unary src [] false 2 x (mkTok TMinusMinus 0 2) false ex_var_st in
   uop_of TMinusMinus = UDec /\ fst r = Ok 4%positive /\
   load (hp (snd r)) 2%positive = VNum (f_of_Z 4) /\ load (hp (snd r)) 4%positive = VNum (f_of_Z 4)) /\
  (let r := eval_unary src [] false 2 x (mkTok TMinusMinus 0 2) true ex_var_st in
   fst r = Ok 4%positive /\
   load (hp (snd r)) 2%positive = VNum (f_of_Z 4) /\ load (hp (snd r)) 4%positive = VNum (f_of_Z 5)).
Proof. vm_compute. repeat split; reflexivity. Qed.

(* the variable o = {} (object 2) in cell 3; the program text is "o.k++" *)
Definition ex_obj_st : st :=
  let '(o, h1) := new_empty_object empty_heap in
  let '(c, h) := alloc h1 o in
  mkSt h [mkFrame (bs "<root>") [(bs "o", c)]] None None None [].
Definition ex_ok : expr := EBin (EId (mkTok TIdent 0 1)) (ELit (mkTok TIdent 2 1)) (mkTok TDot 1 1).

(* o.k++ on o = {}: the hypotheses of incdec_missing_member hold (o.k evaluates to the
   speculative nil in cell 5, parent = cell 3); afterwards o = {k: 1} through cell 5, and the
   result cell holds 0 *)
Example incdec_missing_member_ex :
  let src := bs "o.k++" in
  let op := mkTok TPlusPlus 3 2 in
  let s1 := snd (eval_expr src [] false 3 ex_ok ex_obj_st) in
  (fst (eval_expr src [] false 3 ex_ok ex_obj_st) = Ok 5%positive /\
   target_of (load (hp s1) 5%positive) = Some (3%positive, VStr (bs "k")) /\
   load (hp s1) 3%positive = VObj 2 /\
   (5 < next (hp s1))%positive /\ (3 < next (hp s1))%positive /\
   uop_of (ttag op) = UInc) /\
  (let r := eval_unary src [] false 4 ex_ok op true ex_obj_st in
   fst r = Ok 7%positive /\
   get_obj (hp (snd r)) 2%positive = [(bs "k", 5%positive)] /\
   load (hp (snd r)) 5%positive = VNum f_one /\
   load (hp (snd r)) 7%positive = VNum f_zero /\
   f_add f_zero f_one = f_one).
Proof. vm_compute. repeat split; reflexivity. Qed.

(* whole runs.  One statement per print: the textbook behaviour. *)
Example incdec_run_ex :
  let r := eval_program 200
    (bs "BEGIN { x = 5; print x++; print x; print ++x; print x; print x--; print --x; print x }") [] [] false in
  r_outcome r = OOk /\
  output_of (io (r_state r)) =
    bs "5" ++ [10%N] ++ bs "6" ++ [10%N] ++ bs "7" ++ [10%N] ++ bs "7" ++ [10%N] ++
    bs "7" ++ [10%N] ++ bs "5" ++ [10%N] ++ bs "5" ++ [10%N].
Proof. vm_compute. split; reflexivity. Qed.

(* In ONE print statement all arguments are evaluated to cells first and rendered afterwards,
   and a variable evaluates to its own cell (not a copy), while ++/-- return fresh cells: so
   the bare x shows the FINAL value of x (7), not the value between the two increments. *)
Example incdec_run_one_print_ex :
  let r := eval_program 200 (bs "BEGIN { x = 5; print x++, x, ++x, x }") [] [] false in
  r_outcome r = OOk /\ output_of (io (r_state r)) = bs "5 7 7 7" ++ [10%N].
Proof. vm_compute. split; reflexivity. Qed.

(* missing members count as 0 and are created *)
Example incdec_run_member_ex :
  let r := eval_program 200 (bs "BEGIN { o = {}; print o.k++; print ++o.k; print --o.j; print o }") [] [] false in
  r_outcome r = OOk /\
  output_of (io (r_state r)) =
    bs "0" ++ [10%N] ++ bs "2" ++ [10%N] ++ bs "-1" ++ [10%N] ++ bs "{""j"": -1, ""k"": 2}" ++ [10%N].
Proof. vm_compute. split; reflexivity. Qed.
