(* Proofs/LexSpan.v -- Lexer.Next / Lexer.string / Lexer.Regex: tokens lie inside the
   source text, errors are located on the offending byte. *)
From Coq Require Import Lia ZArith ZifyN ZifyNat ZifyBool List.
From JQ Require Import Base.Bytes Syntax.Token Gen.Generated Syntax.Lexer Spec.TokSpans.
Open Scope nat_scope.

(* ---------- lists ---------- *)

Lemma skipn_cons_inv : forall (src : bytes) n c s',
  skipn n src = c :: s' ->
  nth_error src n = Some c /\ skipn (S n) src = s' /\ n < length src.
Proof.
  induction src as [|a src IH]; intros [|n] c s' H; simpl in H; try discriminate.
  - inversion H; subst. simpl. split; [reflexivity|split; [reflexivity|lia]].
  - destruct (IH _ _ _ H) as (A & B & C). simpl. split; [exact A|split; [exact B|lia]].
Qed.

Lemma skipn_app_inv : forall (pre : bytes) (src : bytes) n r,
  n <= length src -> skipn n src = pre ++ r ->
  skipn (n + length pre) src = r /\ n + length pre <= length src.
Proof.
  induction pre as [|a pre IH]; intros src n r Hn H; simpl in *.
  - rewrite Nat.add_0_r. split; [exact H|exact Hn].
  - destruct (skipn_cons_inv _ _ _ _ H) as (A & B & C).
    destruct (IH src (S n) r ltac:(lia) B) as (D & E).
    replace (n + S (length pre)) with (S n + length pre) by lia. split; assumption.
Qed.

Lemma nth_error_skipn : forall (l : bytes) n k, nth_error (skipn n l) k = nth_error l (n + k).
Proof.
  induction l as [|a l IH]; intros [|n] k; simpl; try reflexivity.
  - destruct k; reflexivity.
  - apply IH.
Qed.

Lemma slice_skipn_app : forall (src : bytes) n pre r,
  skipn n src = pre ++ r -> slice src n (length pre) = pre.
Proof.
  intros src n pre r H. unfold slice. rewrite H.
  rewrite firstn_app, Nat.sub_diag, firstn_all. simpl. now rewrite app_nil_r.
Qed.

(* ---------- the scanning helpers ---------- *)

Lemma take_while_spec : forall p s a b, take_while p s = (a, b) ->
  s = a ++ b /\ Forall (fun c => p c = true) a /\ (forall c b', b = c :: b' -> p c = false).
Proof.
  induction s as [|c s IH]; simpl; intros a b H.
  - inversion H; subst. split; [reflexivity|split; [constructor|discriminate]].
  - destruct (p c) eqn:Ep.
    + destruct (take_while p s) as [a' b'] eqn:E. inversion H; subst.
      destruct (IH _ _ eq_refl) as (A & B & C).
      split; [simpl; now f_equal|split; [constructor; assumption|exact C]].
    + inversion H; subst. split; [reflexivity|split; [constructor|]].
      intros c' b' Hb. inversion Hb; subst. exact Ep.
Qed.

Lemma skip_comment_spec : forall s pos s2 pos2, skip_comment s pos = (s2, pos2) ->
  (exists pre, s = pre ++ s2 /\ pos2 = pos + length pre /\ Forall (fun c => c <> 10%N) pre) /\
  length s2 <= length s.
Proof.
  induction s as [|c s IH]; simpl; intros pos s2 pos2 H.
  - inversion H; subst. split; [exists []; simpl; split; [reflexivity|split; [lia|constructor]]|simpl; lia].
  - destruct (N.eqb c 10) eqn:Ec.
    + inversion H; subst. split; [exists []; simpl; split; [reflexivity|split; [lia|constructor]]|simpl; lia].
    + destruct (IH _ _ _ H) as [[pre (A & B & C)] D].
      split; [|lia]. exists (c :: pre). simpl. split; [now f_equal|split; [lia|]].
      constructor; [now apply N.eqb_neq|assumption].
Qed.

Definition blank_start (c : byte) : bool :=
  (N.eqb c 32 || N.eqb c 13 || N.eqb c 9 || N.eqb c 35)%bool.

Lemma skip_ws_fuel_spec : forall f s pos s2 pos2, skip_ws_fuel f s pos = (s2, pos2) ->
  (exists pre, s = pre ++ s2 /\ pos2 = pos + length pre /\ Forall (fun c => c <> 10%N) pre) /\
  (length s < f -> forall c s', s2 = c :: s' -> blank_start c = false).
Proof.
  induction f as [|f IH]; simpl; intros s pos s2 pos2 H.
  - inversion H; subst. split; [exists []; simpl; split; [reflexivity|split; [lia|constructor]]|intros Hl; inversion Hl].
  - destruct s as [|c s].
    + inversion H; subst. split; [exists []; simpl; split; [reflexivity|split; [lia|constructor]]|discriminate].
    + destruct (N.eqb c 32 || N.eqb c 13 || N.eqb c 9)%bool eqn:Ews.
      * destruct (IH _ _ _ _ H) as [[pre (A & B & C)] D].
        split.
        -- exists (c :: pre). simpl. split; [now f_equal|split; [lia|]].
           constructor; [|assumption]. intros ->. discriminate Ews.
        -- intros Hlen. apply D. simpl in Hlen. lia.
      * destruct (N.eqb c 35) eqn:Ehash.
        -- destruct (skip_comment (c :: s) pos) as [s3 p3] eqn:Esc.
           assert (Hsc := Esc). simpl in Hsc.
           assert (Ec10 : N.eqb c 10 = false).
           { apply N.eqb_eq in Ehash. subst c. reflexivity. }
           rewrite Ec10 in Hsc.
           destruct (skip_comment_spec _ _ _ _ Hsc) as [[pre1 (A1 & B1 & C1)] D1].
           destruct (IH _ _ _ _ H) as [[pre (A & B & C)] D].
           split.
           ++ exists (c :: pre1 ++ pre). simpl. rewrite app_length.
              split; [f_equal; rewrite <- app_assoc; congruence|split; [lia|]].
              constructor; [now apply N.eqb_neq|]. apply Forall_app. split; assumption.
           ++ intros Hlen. apply D. simpl in Hlen. lia.
        -- inversion H; subst. split; [exists []; simpl; split; [reflexivity|split; [lia|constructor]]|].
           intros _ c' s' Hc. inversion Hc; subst. unfold blank_start.
           rewrite Ehash. rewrite Ews. reflexivity.
Qed.

Lemma skip_ws_spec : forall s pos s2 pos2, skip_ws s pos = (s2, pos2) ->
  (exists pre, s = pre ++ s2 /\ pos2 = pos + length pre /\ Forall (fun c => c <> 10%N) pre) /\
  (forall c s', s2 = c :: s' -> blank_start c = false).
Proof.
  unfold skip_ws. intros s pos s2 pos2 H.
  destruct (skip_ws_fuel_spec _ _ _ _ _ H) as [A B]. split; [exact A|apply B; lia].
Qed.

Lemma scan_to_spec : forall q s,
  match scan_to q s with
  | Some (n, r) => exists a, s = a ++ q :: r /\ length a = n /\ Forall (fun c => c <> q) a
  | None => Forall (fun c => c <> q) s
  end.
Proof.
  induction s as [|c s IH]; simpl.
  - constructor.
  - destruct (N.eqb c q) eqn:Ec.
    + apply N.eqb_eq in Ec. subst c. exists []. split; [reflexivity|split; [reflexivity|constructor]].
    + apply N.eqb_neq in Ec. destruct (scan_to q s) as [[n r]|].
      * destruct IH as [a (A & B & C)]. exists (c :: a). simpl.
        split; [now f_equal|split; [now f_equal|constructor; assumption]].
      * constructor; assumption.
Qed.

(* ---------- the state of the lexer just after it has read past [pos] ---------- *)

Lemma lex_inv_after : forall src pre r n start,
  n <= length src -> skipn n src = pre ++ r -> start <= n + length pre ->
  lex_inv src (mkLexer r (n + length pre) start).
Proof.
  intros src pre r n start Hn H Hs.
  destruct (skipn_app_inv _ _ _ _ Hn H) as [A B].
  unfold lex_inv. simpl. split; [now symmetry|split; assumption].
Qed.

(* what every successfully lexed token satisfies *)
Definition tok_post (src : bytes) (l : lexer) (t : token) (l' : lexer) : Prop :=
  tok_in_src src t /\ lex_inv src l' /\
  get_string src t = Some (slice src (tpos t) (tlen t)) /\
  tpos t = lstart l' /\ tpos t + tlen t <= lpos l' /\ lpos l <= lpos l'.

Lemma get_string_in : forall src t, tok_in_src src t ->
  get_string src t = Some (slice src (tpos t) (tlen t)).
Proof.
  intros src t H. unfold get_string, tok_in_src in *.
  destruct (Nat.leb (tpos t + tlen t) (length src)) eqn:E; [reflexivity|].
  apply Nat.leb_gt in E. lia.
Qed.

Lemma tok_post_intro : forall src l t l',
  lex_inv src l' -> tpos t = lstart l' -> tpos t + tlen t <= lpos l' -> lpos l <= lpos l' ->
  tok_post src l t l'.
Proof.
  intros src l t l' Hinv H1 H2 H3. unfold tok_post.
  assert (Hin : tok_in_src src t).
  { unfold tok_in_src. destruct Hinv as (_ & A & _). lia. }
  split; [exact Hin|split; [exact Hinv|split; [now apply get_string_in|auto]]].
Qed.

Lemma lookup_kw_in : forall tbl s t, lookup_kw tbl s = Some t -> In t (map snd tbl).
Proof.
  induction tbl as [|[k t0] r IH]; simpl; intros s t H; [discriminate|].
  destruct (bytes_eqb k s); [inversion H; subst; now left|right; eapply IH; eauto].
Qed.

Lemma keyword_not_ident : forall s t, lookup_kw keyword_table s = Some t -> t <> TIdent.
Proof.
  intros s t H. apply lookup_kw_in in H. intros ->.
  vm_compute in H. repeat (destruct H as [H|H]; [discriminate H|]). exact H.
Qed.

Lemma lex_identifier_span : forall src pre l t l',
  lex_inv src l -> lex_identifier pre l = (t, l') ->
  tok_post src l t l' /\ lstart l' = lstart l /\
  (ttag t = TIdent -> tpos t + tlen t = lpos l') /\
  (ttag t <> TIdent -> tlen t = 0).
Proof.
  intros src pre l t l' (Hr & Hp & Hs) H. unfold lex_identifier in H.
  destruct (take_while ident_char (lrest l)) as [run rest] eqn:Etw.
  destruct (take_while_spec _ _ _ _ Etw) as (A & _ & _).
  rewrite Hr in A.
  assert (Hinv : lex_inv src (mkLexer rest (lpos l + length run) (lstart l))).
  { apply lex_inv_after; [exact Hp|exact A|lia]. }
  destruct (lookup_kw keyword_table (pre ++ run)) as [kw|] eqn:Ekw; inversion H; subst; clear H.
  - split; [apply tok_post_intro; simpl; auto; lia|]. simpl.
    split; [reflexivity|split; [|reflexivity]].
    intros Hk. exfalso. exact (keyword_not_ident _ _ Ekw Hk).
  - split; [apply tok_post_intro; simpl; auto; lia|]. simpl.
    split; [reflexivity|split; [lia|congruence]].
Qed.

Lemma lex_number_span : forall src l t l',
  lex_inv src l -> lex_number l = (t, l') ->
  tok_post src l t l' /\ lstart l' = lstart l /\ ttag t = TNum /\ tpos t + tlen t = lpos l'.
Proof.
  intros src l t l' (Hr & Hp & Hs) H. unfold lex_number in H.
  destruct (take_while latin1_is_digit (lrest l)) as [d1 r1] eqn:E1.
  destruct (take_while_spec _ _ _ _ E1) as (A & _ & _).
  rewrite Hr in A.
  assert (Hinv1 : lex_inv src (mkLexer r1 (lpos l + length d1) (lstart l))).
  { apply lex_inv_after; [exact Hp|exact A|lia]. }
  assert (Hdone : forall t l', (mkTok TNum (lstart l) (lpos l + length d1 - lstart l),
                                 mkLexer r1 (lpos l + length d1) (lstart l)) = (t, l') ->
          tok_post src l t l' /\ lstart l' = lstart l /\ ttag t = TNum /\ tpos t + tlen t = lpos l').
  { intros t0 l0 H0. inversion H0; subst; clear H0.
    split; [apply tok_post_intro; simpl; auto; lia|]. simpl. split; [reflexivity|split; [reflexivity|lia]]. }
  destruct r1 as [|c [|c2 r2']]; try (apply Hdone; exact H).
  destruct (N.eqb c 46 && latin1_is_digit c2)%bool; [|apply Hdone; exact H].
  destruct (take_while latin1_is_digit (c2 :: r2')) as [d2 r3] eqn:E2.
  destruct (take_while_spec _ _ _ _ E2) as (B & _ & _).
  inversion H; subst; clear H.
  assert (Hinv2 : lex_inv src (mkLexer r3 (lpos l + length d1 + 1 + length d2) (lstart l))).
  { replace (lpos l + length d1 + 1 + length d2) with (lpos l + length (d1 ++ c :: d2))
      by (rewrite app_length; simpl; lia).
    apply lex_inv_after; [exact Hp| |rewrite app_length; simpl; lia].
    rewrite A. rewrite B. rewrite <- app_assoc. reflexivity. }
  split; [apply tok_post_intro; simpl; auto; lia|]. simpl.
  split; [reflexivity|split; [reflexivity|lia]].
Qed.

(* Lexer.string / Lexer.Regex share their shape: scan to the delimiter q *)
Lemma scan_tok_span : forall src q l n rest tg,
  lex_inv src l -> scan_to q (lrest l) = Some (n, rest) ->
  let t := mkTok tg (S (lstart l)) (lpos l + n + 1 - S (lstart l) - 1) in
  let l' := mkLexer rest (lpos l + n + 1) (S (lstart l)) in
  tok_post src l t l' /\
  nth_error src (lpos l + n) = Some q /\
  (forall j, lpos l <= j < lpos l + n -> nth_error src j <> Some q) /\
  (lpos l = S (lstart l) -> tlen t = n /\ tpos t + tlen t = lpos l + n).
Proof.
  intros src q l n rest tg (Hr & Hp & Hs) H t l'.
  generalize (scan_to_spec q (lrest l)). rewrite H. intros [a (A & B & C)].
  rewrite Hr in A.
  assert (Hinv : lex_inv src l').
  { unfold l'. replace (lpos l + n + 1) with (lpos l + length (a ++ [q])) by (rewrite app_length; simpl; lia).
    apply lex_inv_after; [exact Hp|rewrite <- app_assoc; exact A|rewrite app_length; simpl; lia]. }
  split; [apply tok_post_intro; unfold t, l'; simpl; auto; lia|].
  split.
  - rewrite <- nth_error_skipn. rewrite A. rewrite nth_error_app2 by lia.
    replace (n - length a) with 0 by lia. reflexivity.
  - split.
    + intros j Hj. replace j with (lpos l + (j - lpos l)) by lia.
      rewrite <- nth_error_skipn. rewrite A. rewrite nth_error_app1 by lia.
      intro Hq. apply nth_error_In in Hq. rewrite Forall_forall in C. apply (C _ Hq). reflexivity.
    + intros E. unfold t. simpl. lia.
Qed.

Lemma scan_none_inv : forall src q l,
  lex_inv src l -> scan_to q (lrest l) = None ->
  (forall j, lpos l <= j -> nth_error src j <> Some q) /\
  lex_inv src (mkLexer [] (lpos l + length (lrest l)) (lstart l)) /\
  lpos l + length (lrest l) = length src.
Proof.
  intros src q l (Hr & Hp & Hs) H.
  generalize (scan_to_spec q (lrest l)). rewrite H. intros C.
  assert (Hlen : lpos l + length (lrest l) = length src).
  { rewrite Hr. rewrite skipn_length. lia. }
  split; [|split; [|exact Hlen]].
  - intros j Hj Hq. replace j with (lpos l + (j - lpos l)) in Hq by lia.
    rewrite <- nth_error_skipn in Hq. rewrite <- Hr in Hq.
    apply nth_error_In in Hq. rewrite Forall_forall in C. apply (C _ Hq). reflexivity.
  - unfold lex_inv. simpl. rewrite Hlen. rewrite skipn_all. split; [reflexivity|split; lia].
Qed.

Lemma lex_string_span : forall src q l t l',
  lex_inv src l -> lex_string q l = LexTok t l' ->
  tok_post src l t l' /\ ttag t = TStr /\
  nth_error src (lpos l' - 1) = Some q /\
  (forall j, lpos l <= j < lpos l' - 1 -> nth_error src j <> Some q) /\
  (lpos l = S (lstart l) -> S (tpos t + tlen t) = lpos l' /\ tpos t = lpos l).
Proof.
  intros src q l t l' Hinv H. unfold lex_string in H.
  destruct (scan_to q (lrest l)) as [[n rest]|] eqn:E; [|discriminate].
  destruct (scan_tok_span src q l n rest TStr Hinv E) as (A & B & C & D).
  inversion H; subst; clear H. simpl.
  replace (lpos l + n + 1 - 1) with (lpos l + n) by lia.
  split; [exact A|split; [reflexivity|split; [exact B|split; [exact C|]]]].
  intros E1. destruct (D E1) as [D1 D2]. simpl in *. lia.
Qed.

Lemma lex_regex_span : forall src l t l',
  lex_inv src l -> lex_regex l = LexTok t l' ->
  tok_post src l t l' /\ ttag t = TRegex /\
  nth_error src (lpos l' - 1) = Some 47%N /\
  (forall j, lpos l <= j < lpos l' - 1 -> nth_error src j <> Some 47%N) /\
  (lpos l = S (lstart l) -> S (tpos t + tlen t) = lpos l' /\ tpos t = lpos l) /\
  tpos t = S (lstart l).
Proof.
  intros src l t l' Hinv H. unfold lex_regex in H.
  destruct (scan_to 47%N (lrest l)) as [[n rest]|] eqn:E; [|discriminate].
  destruct (scan_tok_span src 47%N l n rest TRegex Hinv E) as (A & B & C & D).
  inversion H; subst; clear H. simpl.
  replace (lpos l + n + 1 - 1) with (lpos l + n) by lia.
  split; [exact A|split; [reflexivity|split; [exact B|split; [exact C|split; [|reflexivity]]]]].
  intros E1. destruct (D E1) as [D1 D2]. simpl in *. lia.
Qed.

(* unterminated string: located at tokenStart, which is the offset of the opening quote *)
Lemma lex_string_err : forall src q l p l',
  lex_inv src l -> lex_string q l = LexErr p l' ->
  p = lstart l /\ (forall j, lpos l <= j -> nth_error src j <> Some q) /\
  lex_inv src l' /\ lpos l' = length src /\ lstart l' = lstart l.
Proof.
  intros src q l p l' Hinv H. unfold lex_string in H.
  destruct (scan_to q (lrest l)) as [[n rest]|] eqn:E; [discriminate|].
  destruct (scan_none_inv src q l Hinv E) as (A & B & C).
  inversion H; subst; clear H. simpl.
  split; [reflexivity|split; [exact A|split; [exact B|split; [exact C|reflexivity]]]].
Qed.

(* unterminated regex: located at tokenStart, which is the offset of the opening '/' *)
Lemma lex_regex_err : forall src l p l',
  lex_inv src l -> lex_regex l = LexErr p l' ->
  p = lstart l /\ (forall j, lpos l <= j -> nth_error src j <> Some 47%N) /\
  lex_inv src l' /\ lpos l' = length src /\ lstart l' = lstart l.
Proof.
  intros src l p l' Hinv H. unfold lex_regex in H.
  destruct (scan_to 47%N (lrest l)) as [[n rest]|] eqn:E; [discriminate|].
  destruct (scan_none_inv src 47%N l Hinv E) as (A & B & C).
  inversion H; subst; clear H. simpl.
  split; [reflexivity|split; [exact A|split; [exact B|split; [exact C|reflexivity]]]].
Qed.

(* ---------- Lexer.Next ---------- *)

Lemma lookup_op1_in : forall tbl c t, lookup_op1 tbl c = Some t -> In (c, t) tbl.
Proof.
  induction tbl as [|[a t0] r IH]; simpl; intros c t H; [discriminate|].
  destruct (N.eqb a c) eqn:E.
  - apply N.eqb_eq in E. inversion H; subst. now left.
  - right. now apply IH.
Qed.

Lemma lookup_op2_in : forall tbl c d t, lookup_op2 tbl c d = Some t -> In (c, d, t) tbl.
Proof.
  induction tbl as [|[[a b] t0] r IH]; simpl; intros c d t H; [discriminate|].
  destruct (N.eqb a c && N.eqb b d)%bool eqn:E.
  - apply andb_true_iff in E. destruct E as [E1 E2].
    apply N.eqb_eq in E1. apply N.eqb_eq in E2. inversion H; subst. now left.
  - right. now apply IH.
Qed.

Lemma op1_divide : forall c, lookup_op1 op1_table c = Some TDivide -> c = 47%N.
Proof.
  intros c H. apply lookup_op1_in in H. unfold op1_table in H. simpl in H.
  repeat (destruct H as [H|H]; [inversion H; try reflexivity|]). contradiction.
Qed.

Lemma op2_not_divide : forall c d, lookup_op2 op2_table c d <> Some TDivide.
Proof.
  intros c d H. apply lookup_op2_in in H. unfold op2_table in H. simpl in H.
  repeat (destruct H as [H|H]; [discriminate H|]). contradiction.
Qed.

Lemma keyword_not_divide : forall s, lookup_kw keyword_table s <> Some TDivide.
Proof.
  intros s H. apply lookup_kw_in in H.
  vm_compute in H. repeat (destruct H as [H|H]; [discriminate H|]). exact H.
Qed.

Lemma keyword_not_eof : forall s, lookup_kw keyword_table s <> Some TEOF.
Proof.
  intros s H. apply lookup_kw_in in H.
  vm_compute in H. repeat (destruct H as [H|H]; [discriminate H|]). exact H.
Qed.

Lemma op1_not_eof : forall c, lookup_op1 op1_table c <> Some TEOF.
Proof.
  intros c H. apply lookup_op1_in in H. unfold op1_table in H. simpl in H.
  repeat (destruct H as [H|H]; [discriminate H|]). contradiction.
Qed.

Lemma op2_not_eof : forall c d, lookup_op2 op2_table c d <> Some TEOF.
Proof.
  intros c d H. apply lookup_op2_in in H. unfold op2_table in H. simpl in H.
  repeat (destruct H as [H|H]; [discriminate H|]). contradiction.
Qed.

Lemma lex_identifier_tag : forall pre l t l',
  lex_identifier pre l = (t, l') -> ttag t <> TDivide /\ ttag t <> TEOF.
Proof.
  intros pre l t l' H. unfold lex_identifier in H.
  destruct (take_while ident_char (lrest l)) as [run rest].
  destruct (lookup_kw keyword_table (pre ++ run)) as [kw|] eqn:E; inversion H; subst; simpl.
  - split; intros ->; [exact (keyword_not_divide _ E)|exact (keyword_not_eof _ E)].
  - split; discriminate.
Qed.

Lemma quote_chars_eq : forall c, existsb (N.eqb c) quote_chars = (N.eqb c 39 || N.eqb c 34)%bool.
Proof. intro c. unfold quote_chars. simpl. now rewrite orb_false_r. Qed.

(* what Lexer.Next guarantees for a token *)
Definition next_tok_post (src : bytes) (l : lexer) (t : token) (l' : lexer) : Prop :=
  tok_post src l t l' /\
  (forall j, lpos l <= j < tpos t -> nth_error src j <> Some 10%N) /\
  (ttag t <> TEOF -> lpos l <= tpos t /\ lpos l < lpos l' /\ tpos t < lpos l') /\
  (ttag t = TDivide -> lpos l' = S (lstart l') /\ nth_error src (lstart l') = Some 47%N) /\
  (ttag t = TEOF -> tpos t = length src /\ lpos l' = length src).

(* ... and for an error: the offset p is that of a byte c of the text, no newline was skipped
   on the way, tokenStart = p; c is either an unexpected byte (the lexer stands just after
   it) or the opening quote of a string literal that is never closed (the lexer stands at
   the end of the text) *)
Definition next_err_post (src : bytes) (l : lexer) (p : nat) (l' : lexer) : Prop :=
  lex_inv src l' /\ p < length src /\ lstart l' = p /\ lpos l <= p /\
  (forall j, lpos l <= j < p -> nth_error src j <> Some 10%N) /\
  exists c, nth_error src p = Some c /\ c <> 10%N /\
    ((c <> 39%N /\ c <> 34%N /\ unexpected_byte c (nth_error src (S p)) /\ lpos l' = S p)
     \/
     ((c = 39%N \/ c = 34%N) /\ lpos l' = length src /\
      (forall j, p < j -> nth_error src j <> Some c))).

Lemma lex_next_setup : forall src l s pos,
  lex_inv src l -> skip_ws (lrest l) (lpos l) = (s, pos) ->
  skipn pos src = s /\ pos <= length src /\ lpos l <= pos /\
  (forall c s', s = c :: s' -> blank_start c = false) /\
  (forall j, lpos l <= j < pos -> nth_error src j <> Some 10%N).
Proof.
  intros src l s pos (Hr & Hp & Hs) H.
  destruct (skip_ws_spec _ _ _ _ H) as [[pre (A & B & C)] D].
  rewrite Hr in A. destruct (skipn_app_inv _ _ _ _ Hp A) as [E F]. subst pos.
  split; [exact E|split; [exact F|split; [lia|split; [exact D|]]]].
  intros j Hj Hq. replace j with (lpos l + (j - lpos l)) in Hq by lia.
  rewrite <- nth_error_skipn in Hq. rewrite A in Hq. rewrite nth_error_app1 in Hq by lia.
  apply nth_error_In in Hq. rewrite Forall_forall in C. apply (C _ Hq). reflexivity.
Qed.

Lemma unexpected_intro : forall c next,
  blank_start c = false -> N.eqb c 10 = false -> N.eqb c 36 = false ->
  latin1_is_digit c = false -> (latin1_is_letter c || N.eqb c 95)%bool = false ->
  (N.eqb c 39 || N.eqb c 34)%bool = false -> lookup_op1 op1_table c = None ->
  (forall d, next = Some d -> lookup_op2 op2_table c d = None) ->
  c <> 39%N /\ c <> 34%N /\ unexpected_byte c next.
Proof.
  intros c next Hb E10 E36 Edig Elet Eq E1 E2. unfold blank_start in Hb.
  apply orb_false_iff in Hb. destruct Hb as [Hb Hb4].
  apply orb_false_iff in Hb. destruct Hb as [Hb Hb3].
  apply orb_false_iff in Hb. destruct Hb as [Hb1 Hb2].
  apply orb_false_iff in Elet. destruct Elet as [El1 El2].
  apply orb_false_iff in Eq. destruct Eq as [Eq1 Eq2].
  repeat match goal with H : N.eqb _ _ = false |- _ => apply N.eqb_neq in H end.
  unfold unexpected_byte. repeat split; auto.
Qed.

Lemma lex_next_spec : forall src l, lex_inv src l ->
  match lex_next l with
  | LexTok t l' => next_tok_post src l t l'
  | LexErr p l' => next_err_post src l p l'
  end.
Proof.
  intros src l Hinv. unfold lex_next.
  destruct (skip_ws (lrest l) (lpos l)) as [s pos] eqn:Ews.
  destruct (lex_next_setup src l s pos Hinv Ews) as (Hs & Hpos & Hle & Hblank & Hnonl).
  destruct Hinv as (Hr & Hp & Hst).
  destruct s as [|c s'].
  - (* EOF: the token sits at the end of the text *)
    assert (Hend : pos = length src).
    { assert (length (skipn pos src) = 0) by (rewrite Hs; reflexivity).
      rewrite skipn_length in H. lia. }
    unfold next_tok_post. cbn [simple ttag tpos tlen lpos lstart].
    split; [|split; [exact Hnonl|split; [congruence|split; [discriminate|auto]]]].
    apply tok_post_intro; simpl; try lia. unfold lex_inv. simpl. split; [now symmetry|split; lia].
  - rewrite quote_chars_eq.
    destruct (skipn_cons_inv _ _ _ _ Hs) as (Hc & Hs' & Hlt).
    assert (Hb := Hblank c s' eq_refl).
    assert (Hinv0 : lex_inv src (mkLexer (c :: s') pos pos)).
    { unfold lex_inv. simpl. split; [now symmetry|split; lia]. }
    assert (Hinv1 : lex_inv src (mkLexer s' (S pos) pos)).
    { unfold lex_inv. simpl. split; [now symmetry|split; lia]. }
    destruct (N.eqb c 10) eqn:E10.
    { (* newline *)
      unfold next_tok_post. cbn [simple ttag tpos tlen lpos lstart].
      split; [|split; [exact Hnonl|split; [intros _; lia|split; [discriminate|discriminate]]]].
      apply tok_post_intro; simpl; auto; lia. }
    assert (Hc10 : c <> 10%N) by (now apply N.eqb_neq).
    (* every other token starts at pos, on the byte c *)
    assert (Hat : forall t l', tok_post src l t l' -> tpos t = pos -> pos < lpos l' ->
              ttag t <> TEOF -> (ttag t = TDivide -> lpos l' = S pos /\ c = 47%N) ->
              next_tok_post src l t l').
    { intros t l' Hp0 Ht Hl' Hne Hd. unfold next_tok_post.
      assert (A4 : tpos t = lstart l') by apply Hp0.
      split; [exact Hp0|split; [|split; [|split]]].
      - intros j Hj. apply Hnonl. lia.
      - intros _. lia.
      - intros E. destruct (Hd E) as [D1 D2]. rewrite <- A4, Ht. split; [exact D1|now rewrite <- D2].
      - intros E. contradiction. }
    destruct (N.eqb c 36) eqn:E36.
    { destruct (lex_identifier [36%N] (mkLexer s' (S pos) pos)) as [t l'] eqn:Eid.
      destruct (lex_identifier_span src _ _ _ _ Hinv1 Eid) as (A & B & C & D).
      destruct (lex_identifier_tag _ _ _ _ Eid) as [Hnd Hne].
      assert (A' : tok_post src l t l').
      { destruct A as (A1 & A2 & A3 & A4 & A5 & A6). cbn [lpos] in A6.
        split; [exact A1|split; [exact A2|split; [exact A3|split; [exact A4|split; [exact A5|lia]]]]]. }
      destruct A as (A1 & A2 & A3 & A4 & A5 & A6). cbn [lpos lstart] in *.
      apply Hat; [exact A'|lia|lia|exact Hne|intros E; contradiction]. }
    destruct (latin1_is_digit c) eqn:Edig.
    { destruct (lex_number (mkLexer (c :: s') pos pos)) as [t l'] eqn:Enum.
      destruct (lex_number_span src _ _ _ Hinv0 Enum) as (A & B & C & D).
      assert (A' : tok_post src l t l').
      { destruct A as (A1 & A2 & A3 & A4 & A5 & A6). cbn [lpos] in A6.
        split; [exact A1|split; [exact A2|split; [exact A3|split; [exact A4|split; [exact A5|lia]]]]]. }
      destruct A as (A1 & A2 & A3 & A4 & A5 & A6). cbn [lpos lstart] in *.
      apply Hat; [exact A'|lia| |rewrite C; discriminate|rewrite C; discriminate].
      (* the number consumed at least its first digit *)
      unfold lex_number in Enum. simpl in Enum. rewrite Edig in Enum.
      destruct (take_while latin1_is_digit s') as [d1 r1].
      destruct r1 as [|x [|x2 r2]]; try (inversion Enum; subst; simpl; lia).
      destruct (N.eqb x 46 && latin1_is_digit x2)%bool.
      - destruct (take_while latin1_is_digit (x2 :: r2)) as [d2 r3]. inversion Enum; subst; simpl; lia.
      - inversion Enum; subst; simpl; lia. }
    destruct (latin1_is_letter c || N.eqb c 95)%bool eqn:Elet.
    { destruct (lex_identifier [] (mkLexer (c :: s') pos pos)) as [t l'] eqn:Eid.
      destruct (lex_identifier_span src _ _ _ _ Hinv0 Eid) as (A & B & C & D).
      destruct (lex_identifier_tag _ _ _ _ Eid) as [Hnd Hne].
      assert (A' : tok_post src l t l').
      { destruct A as (A1 & A2 & A3 & A4 & A5 & A6). cbn [lpos] in A6.
        split; [exact A1|split; [exact A2|split; [exact A3|split; [exact A4|split; [exact A5|lia]]]]]. }
      destruct A as (A1 & A2 & A3 & A4 & A5 & A6). cbn [lpos lstart] in *.
      apply Hat; [exact A'|lia| |exact Hne|intros E; contradiction].
      unfold lex_identifier in Eid. cbn [lrest lpos lstart take_while] in Eid.
      assert (Eic : ident_char c = true).
      { unfold ident_char. apply orb_true_iff in Elet. destruct Elet as [E|E]; rewrite E; simpl;
          [now rewrite orb_true_r|reflexivity]. }
      rewrite Eic in Eid. destruct (take_while ident_char s') as [run rest].
      destruct (lookup_kw keyword_table _); inversion Eid; subst l'; cbn [lpos length]; lia. }
    (* operators, strings, errors *)
    assert (Hsimple : forall tg n s2, S pos <= n -> lex_inv src (mkLexer s2 n pos) ->
              tg <> TEOF -> (tg = TDivide -> n = S pos /\ c = 47%N) ->
              next_tok_post src l (simple tg pos) (mkLexer s2 n pos)).
    { intros tg n s2 Hn Hi Hne Hd.
      apply Hat; [apply tok_post_intro; simpl; auto; lia|reflexivity|simpl; lia|exact Hne|exact Hd]. }
    assert (Herr : forall l', l' = mkLexer s' (S pos) pos ->
              (N.eqb c 39 || N.eqb c 34)%bool = false -> lookup_op1 op1_table c = None ->
              (forall d, nth_error src (S pos) = Some d -> lookup_op2 op2_table c d = None) ->
              next_err_post src l pos l').
    { intros l' -> Eq E1 E2. unfold next_err_post. cbn [lstart lpos lrest].
      split; [exact Hinv1|split; [exact Hlt|split; [reflexivity|split; [exact Hle|split; [exact Hnonl|]]]]].
      exists c. split; [exact Hc|split; [exact Hc10|left]].
      destruct (unexpected_intro c (nth_error src (S pos)) Hb E10 E36 Edig Elet Eq E1 E2) as (U1 & U2 & U3).
      split; [exact U1|split; [exact U2|split; [exact U3|reflexivity]]]. }
    assert (Hstr : (N.eqb c 39 || N.eqb c 34)%bool = true ->
              match lex_string c (mkLexer s' (S pos) pos) with
              | LexTok t l' => next_tok_post src l t l'
              | LexErr p l' => next_err_post src l p l'
              end).
    { intros Eq.
      assert (Hq : c = 39%N \/ c = 34%N).
      { apply orb_true_iff in Eq; destruct Eq as [Eq|Eq]; apply N.eqb_eq in Eq; auto. }
      destruct (lex_string c (mkLexer s' (S pos) pos)) as [t l'|p l'] eqn:Estr.
      - destruct (lex_string_span src c _ _ _ Hinv1 Estr) as (A & B & C & D & E).
        cbn [lpos lstart] in *. destruct (E eq_refl) as [E3 E4].
        destruct A as (A1 & A2 & A3 & A4 & A5 & A6). cbn [lpos] in A6.
        unfold next_tok_post. rewrite B.
        split; [split; [exact A1|split; [exact A2|split; [exact A3|split; [exact A4|split; lia]]]]|].
        split; [|split; [intros _; lia|split; [discriminate|discriminate]]].
        intros j Hj. destruct (Nat.eq_dec j pos) as [->|Hne].
        * rewrite Hc. congruence.
        * apply Hnonl. lia.
      - destruct (lex_string_err src c _ _ _ Hinv1 Estr) as (A & B & C & D & E).
        cbn [lpos lstart] in *. unfold next_err_post. subst p.
        split; [exact C|split; [exact Hlt|split; [exact E|split; [exact Hle|split; [exact Hnonl|]]]]].
        exists c. split; [exact Hc|split; [exact Hc10|right]].
        split; [exact Hq|split; [exact D|]]. intros j Hj. apply B. lia. }
    destruct s' as [|d s''].
    + (* last byte of the text *)
      assert (Hn : nth_error src (S pos) = None).
      { rewrite <- (Nat.add_0_r (S pos)). rewrite <- nth_error_skipn. rewrite Hs'. reflexivity. }
      destruct (lookup_op1 op1_table c) as [t1|] eqn:E1.
      * apply Hsimple; [lia|exact Hinv1|intros ->; exact (op1_not_eof _ E1)|].
        intros ->. split; [reflexivity|now apply op1_divide].
      * destruct (N.eqb c 39 || N.eqb c 34)%bool eqn:Eq.
        -- apply Hstr. reflexivity.
        -- apply Herr; auto. intros d Hd. congruence.
    + destruct (skipn_cons_inv _ _ _ _ Hs') as (Hd & Hs'' & Hlt').
      assert (Hinv2 : lex_inv src (mkLexer s'' (S (S pos)) pos)).
      { unfold lex_inv. simpl. split; [now symmetry|split; lia]. }
      destruct (lookup_op2 op2_table c d) as [t2|] eqn:E2.
      * apply Hsimple; [lia|exact Hinv2|intros ->; exact (op2_not_eof _ _ E2)|].
        intros ->. exfalso. exact (op2_not_divide _ _ E2).
      * destruct (lookup_op1 op1_table c) as [t1|] eqn:E1.
        -- apply Hsimple; [lia|exact Hinv1|intros ->; exact (op1_not_eof _ E1)|].
           intros ->. split; [reflexivity|now apply op1_divide].
        -- destruct (N.eqb c 39 || N.eqb c 34)%bool eqn:Eq.
           ++ apply Hstr. reflexivity.
           ++ apply Herr; auto. intros d0 Hd0. rewrite Hd in Hd0. inversion Hd0; subst. exact E2.
Qed.

(* ---------- the statements used by Props/C12 ---------- *)

Theorem lex_next_span_proof : forall src l t l',
  lex_inv src l -> lex_next l = LexTok t l' ->
  tok_in_src src t /\
  get_string src t = Some (slice src (tpos t) (tlen t)) /\
  lex_inv src l' /\
  tpos t = lstart l' /\ tpos t + tlen t <= lpos l' /\ lpos l <= lpos l' /\
  (ttag t <> TEOF -> lpos l <= tpos t /\ tpos t < lpos l') /\
  (ttag t = TEOF -> tpos t = length src) /\
  (forall j, lpos l <= j < tpos t -> nth_error src j <> Some 10%N).
Proof.
  intros src l t l' Hinv H. generalize (lex_next_spec src l Hinv). rewrite H.
  intros ((A1 & A2 & A3 & A4 & A5 & A6) & B & C & D & E).
  split; [exact A1|split; [exact A3|split; [exact A2|split; [exact A4|split; [exact A5|split; [exact A6|split; [|split; [|exact B]]]]]]]].
  - intros Hne. destruct (C Hne) as (C1 & C2 & C3). split; assumption.
  - intros He. apply E. exact He.
Qed.

(* every lexer error: the offset of a byte of the text that is not a newline *)
Theorem lexer_error_pos_proof : forall src l p l',
  lex_inv src l -> lex_next l = LexErr p l' ->
  lpos l <= p /\ p < length src /\ lstart l' = p /\ lex_inv src l' /\
  (forall j, lpos l <= j < p -> nth_error src j <> Some 10%N) /\
  exists c, nth_error src p = Some c /\ c <> 10%N.
Proof.
  intros src l p l' Hinv H. generalize (lex_next_spec src l Hinv). rewrite H.
  intros (A & B & C & D & E & c & Hc & Hc10 & _).
  split; [exact D|split; [exact B|split; [exact C|split; [exact A|split; [exact E|]]]]].
  exists c. split; assumption.
Qed.

Theorem lexer_error_on_char_proof : forall src l p l' c,
  lex_inv src l -> lex_next l = LexErr p l' ->
  nth_error src p = Some c -> c <> 39%N -> c <> 34%N ->
  unexpected_byte c (nth_error src (S p)) /\ lpos l' = S p.
Proof.
  intros src l p l' c Hinv H Hc H39 H34. generalize (lex_next_spec src l Hinv). rewrite H.
  intros (A & B & C & D & E & c' & Hc' & Hc10 & [(U1 & U2 & U3 & U4)|([Q|Q] & _)]);
    rewrite Hc in Hc'; inversion Hc'; subst c'; try contradiction.
  split; assumption.
Qed.

Theorem lexer_error_in_string_proof : forall src l p l' q,
  lex_inv src l -> lex_next l = LexErr p l' ->
  nth_error src p = Some q -> q = 39%N \/ q = 34%N ->
  lpos l' = length src /\ (forall j, p < j -> nth_error src j <> Some q).
Proof.
  intros src l p l' q Hinv H Hc Hq. generalize (lex_next_spec src l Hinv). rewrite H.
  intros (A & B & C & D & E & c' & Hc' & Hc10 & [(U1 & U2 & _)|(_ & Q2 & Q3)]);
    rewrite Hc in Hc'; inversion Hc'; subst c'.
  - destruct Hq; contradiction.
  - split; assumption.
Qed.

(* Lexer.Regex() is called by the parser right after Lexer.Next returned the '/' token *)
Theorem lexer_error_in_regex_proof : forall src l0 t l p l',
  lex_inv src l0 -> lex_next l0 = LexTok t l -> ttag t = TDivide ->
  lex_regex l = LexErr p l' ->
  p = tpos t /\ nth_error src p = Some 47%N /\ p < length src /\
  (forall j, p < j -> nth_error src j <> Some 47%N) /\ lpos l' = length src.
Proof.
  intros src l0 t l p l' Hinv H Ht Hre. generalize (lex_next_spec src l0 Hinv). rewrite H.
  intros ((A1 & A2 & A3 & A4 & A5 & A6) & B & C & D & _).
  destruct (D Ht) as [D1 D2].
  destruct (lex_regex_err src l p l' A2 Hre) as (E1 & E2 & E3 & E4 & E5).
  subst p. rewrite <- A4 in *.
  split; [reflexivity|split; [exact D2|split; [apply nth_error_Some; congruence|split; [|exact E4]]]].
  intros j Hj. apply E2. lia.
Qed.

(* ---------- the text of a token ---------- *)

(* identifiers and numbers denote src[tokenStart:pos]; a string denotes the bytes strictly
   between its two (equal) quotes; every other token has Len = 0 *)
Definition tok_text_ok (src : bytes) (t : token) (l' : lexer) : Prop :=
  match ttag t with
  | TIdent | TNum => tpos t + tlen t = lpos l' /\ 0 < tlen t
  | TStr =>
      S (tpos t + tlen t) = lpos l' /\ 1 <= tpos t /\
      exists q, (q = 39%N \/ q = 34%N) /\
        nth_error src (tpos t - 1) = Some q /\ nth_error src (tpos t + tlen t) = Some q /\
        forall j, tpos t <= j < tpos t + tlen t -> nth_error src j <> Some q
  | _ => tlen t = 0
  end.

Definition word_tag (t : tag) : bool :=
  match t with TIdent | TNum | TStr => true | _ => false end.

Lemma tok_text_simple : forall src tg pos l', word_tag tg = false -> tok_text_ok src (simple tg pos) l'.
Proof. intros src tg pos l' H. unfold tok_text_ok. simpl. destruct tg; try reflexivity; discriminate H. Qed.

Lemma keyword_not_word : forall s t, lookup_kw keyword_table s = Some t -> word_tag t = false.
Proof.
  intros s t H. apply lookup_kw_in in H. vm_compute in H.
  repeat (destruct H as [H|H]; [subst t; reflexivity|]). contradiction.
Qed.

Lemma op1_not_word : forall c t, lookup_op1 op1_table c = Some t -> word_tag t = false.
Proof.
  intros c t H. apply lookup_op1_in in H. unfold op1_table in H. simpl in H.
  repeat (destruct H as [H|H]; [inversion H; reflexivity|]). contradiction.
Qed.

Lemma op2_not_word : forall c d t, lookup_op2 op2_table c d = Some t -> word_tag t = false.
Proof.
  intros c d t H. apply lookup_op2_in in H. unfold op2_table in H. simpl in H.
  repeat (destruct H as [H|H]; [inversion H; reflexivity|]). contradiction.
Qed.

Lemma lex_identifier_text : forall src pre l t l',
  lex_inv src l -> lex_identifier pre l = (t, l') -> lstart l < lpos l' ->
  tok_text_ok src t l'.
Proof.
  intros src pre l t l' Hinv H Hlt.
  destruct (lex_identifier_span src pre l t l' Hinv H) as ((A1 & A2 & A3 & A4 & A5 & A6) & B & C & D).
  unfold lex_identifier in H.
  destruct (take_while ident_char (lrest l)) as [run rest].
  destruct (lookup_kw keyword_table (pre ++ run)) as [kw|] eqn:Ekw; inversion H; subst t l'; clear H.
  - assert (Hw := keyword_not_word _ _ Ekw). unfold tok_text_ok. cbn [ttag tlen].
    destruct kw; try reflexivity; discriminate Hw.
  - unfold tok_text_ok. cbn [ttag tpos tlen lpos] in *. lia.
Qed.

Theorem lex_next_text_proof : forall src l t l',
  lex_inv src l -> lex_next l = LexTok t l' -> tok_text_ok src t l'.
Proof.
  intros src l t l' Hinv H.
  generalize (lex_next_spec src l Hinv). rewrite H.
  intros ((P1 & P2 & P3 & P4 & P5 & P6) & PB & PC & PD).
  unfold lex_next in H.
  destruct (skip_ws (lrest l) (lpos l)) as [s pos] eqn:Ews.
  destruct (lex_next_setup src l s pos Hinv Ews) as (Hs & Hpos & Hle & Hblank & Hnonl).
  destruct s as [|c s'].
  { inversion H; subst. apply tok_text_simple. reflexivity. }
  rewrite quote_chars_eq in H.
  destruct (skipn_cons_inv _ _ _ _ Hs) as (Hc & Hs' & Hlt).
  assert (Hinv0 : lex_inv src (mkLexer (c :: s') pos pos)).
  { unfold lex_inv. simpl. split; [now symmetry|split; lia]. }
  assert (Hinv1 : lex_inv src (mkLexer s' (S pos) pos)).
  { unfold lex_inv. simpl. split; [now symmetry|split; lia]. }
  destruct (N.eqb c 10) eqn:E10.
  { inversion H; subst. apply tok_text_simple. reflexivity. }
  destruct (N.eqb c 36) eqn:E36.
  { destruct (lex_identifier [36%N] (mkLexer s' (S pos) pos)) as [t0 l0] eqn:Eid.
    inversion H; subst t0 l0; clear H.
    apply (lex_identifier_text src _ _ _ _ Hinv1 Eid).
    destruct (lex_identifier_span src _ _ _ _ Hinv1 Eid) as ((_ & _ & _ & _ & _ & A6) & _).
    cbn [lstart lpos] in *. lia. }
  destruct (latin1_is_digit c) eqn:Edig.
  { destruct (lex_number (mkLexer (c :: s') pos pos)) as [t0 l0] eqn:Enum.
    inversion H; subst t0 l0; clear H.
    destruct (lex_number_span src _ _ _ Hinv0 Enum) as (_ & B & C & D).
    unfold tok_text_ok. rewrite C. split; [exact D|].
    assert (ttag t <> TEOF) by (rewrite C; discriminate). destruct (PC H) as (_ & _ & X). lia. }
  destruct (latin1_is_letter c || N.eqb c 95)%bool eqn:Elet.
  { destruct (lex_identifier [] (mkLexer (c :: s') pos pos)) as [t0 l0] eqn:Eid.
    inversion H; subst t0 l0; clear H.
    apply (lex_identifier_text src _ _ _ _ Hinv0 Eid).
    destruct (lex_identifier_span src _ _ _ _ Hinv0 Eid) as ((_ & _ & _ & A4 & _ & _) & B & _).
    cbn [lstart] in *.
    destruct (tag_eq_dec (ttag t) TEOF) as [E|E].
    - exfalso. unfold lex_identifier in Eid.
      destruct (take_while ident_char (lrest _)) as [run rest].
      destruct (lookup_kw keyword_table ([] ++ run)) as [kw|] eqn:Ekw; inversion Eid; subst t; simpl in E.
      + subst kw. apply lookup_kw_in in Ekw. vm_compute in Ekw.
        repeat (destruct Ekw as [Ekw|Ekw]; [discriminate Ekw|]). exact Ekw.
      + discriminate E.
    - destruct (PC E) as (_ & _ & X). lia. }
  assert (Hstr : forall d s'', s' = d :: s'' \/ s' = [] -> lookup_op1 op1_table c = None ->
            match (if (N.eqb c 39 || N.eqb c 34)%bool then lex_string c (mkLexer s' (S pos) pos)
                   else LexErr pos (mkLexer s' (S pos) pos)) with
            | LexTok t0 l0 => tok_text_ok src t0 l0
            | LexErr _ _ => True
            end).
  { intros d s'' _ _. destruct (N.eqb c 39 || N.eqb c 34)%bool eqn:Eq; [|exact I].
    destruct (lex_string c (mkLexer s' (S pos) pos)) as [t0 l0|] eqn:Estr; [|exact I].
    destruct (lex_string_span src c _ _ _ Hinv1 Estr) as ((A1 & A2 & A3 & A4 & A5 & A6) & B & C & D & E).
    cbn [lpos lstart] in *. destruct (E eq_refl) as [E1 E2].
    unfold tok_text_ok. rewrite B.
    split; [exact E1|split; [lia|]]. exists c.
    split; [apply orb_true_iff in Eq; destruct Eq as [Eq|Eq]; apply N.eqb_eq in Eq; auto|].
    split; [rewrite E2; replace (S pos - 1) with pos by lia; exact Hc|].
    split; [replace (tpos t0 + tlen t0) with (lpos l0 - 1) by lia; exact C|].
    intros j Hj. apply D. lia. }
  destruct s' as [|d s''].
  - destruct (lookup_op1 op1_table c) as [t1|] eqn:E1.
    + inversion H; subst. apply tok_text_simple. exact (op1_not_word _ _ E1).
    + generalize (Hstr 0%N [] (or_intror eq_refl) eq_refl). rewrite H. auto.
  - destruct (lookup_op2 op2_table c d) as [t2|] eqn:E2.
    + inversion H; subst. apply tok_text_simple. exact (op2_not_word _ _ _ E2).
    + destruct (lookup_op1 op1_table c) as [t1|] eqn:E1.
      * inversion H; subst. apply tok_text_simple. exact (op1_not_word _ _ E1).
      * generalize (Hstr d s'' (or_introl eq_refl) eq_refl). rewrite H. auto.
Qed.
