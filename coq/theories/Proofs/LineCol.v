(* Proofs/LineCol.v -- Lexer.get_line_col (GetLineAndCol) against the declarative
   vocabulary of Spec/Lines.v. *)
From Coq Require Import Lia ZArith ZifyN ZifyNat ZifyBool List.
From JQ Require Import Base.Bytes Syntax.Token Syntax.Lexer Spec.Lines.
Open Scope nat_scope.

(* ---------- basic facts about lines / count_nl / line_start ---------- *)

Lemma lines_cons_hd : forall s, lines s = hd [] (lines s) :: tl (lines s).
Proof.
  intros [|c s]; simpl; [reflexivity|]. destruct (N.eqb c 10); reflexivity.
Qed.

Lemma lines_length : forall s, length (lines s) = S (count_nl s).
Proof.
  induction s as [|c s IH]; simpl; [reflexivity|].
  destruct (N.eqb c 10); simpl; [lia|].
  rewrite (lines_cons_hd s) in IH. simpl in IH. lia.
Qed.

Lemma unlines_cons : forall l r, r <> [] -> unlines (l :: r) = l ++ 10%N :: unlines r.
Proof. intros l [|x r] H; [congruence|reflexivity]. Qed.

Lemma unlines_lines : forall s, unlines (lines s) = s.
Proof.
  induction s as [|c s IH]; simpl; [reflexivity|].
  destruct (N.eqb c 10) eqn:Ec.
  - apply N.eqb_eq in Ec. subst c. rewrite unlines_cons.
    + simpl. now rewrite IH.
    + rewrite lines_cons_hd. discriminate.
  - rewrite (lines_cons_hd s) in IH.
    destruct (tl (lines s)) as [|x r] eqn:Et.
    + simpl in *. now rewrite IH.
    + rewrite unlines_cons in IH by discriminate. rewrite unlines_cons by discriminate.
      rewrite <- app_comm_cons. f_equal. exact IH.
Qed.

Lemma line_start_0 : forall s, line_start s 0 = 0.
Proof. reflexivity. Qed.

Lemma line_start_cons : forall c s k,
  line_start (c :: s) (S k) = S (line_start s (if N.eqb c 10 then k else S k)).
Proof.
  intros c s k. unfold line_start. simpl lines.
  destruct (N.eqb c 10).
  - reflexivity.
  - generalize (lines_cons_hd s). destruct (lines s) as [|h t]; [discriminate|].
    intros _. simpl. lia.
Qed.

Lemma count_nl_app : forall a b, count_nl (a ++ b) = count_nl a + count_nl b.
Proof.
  induction a as [|c a IH]; intro b; simpl; [reflexivity|].
  destruct (N.eqb c 10); rewrite IH; reflexivity.
Qed.

Lemma count_nl_firstn_le : forall d s, count_nl (firstn d s) <= count_nl s.
Proof.
  intros d s. rewrite <- (firstn_skipn d s) at 2. rewrite count_nl_app. lia.
Qed.

Lemma count_nl_firstn_lt : forall d s,
  nth_error s d = Some 10%N -> count_nl (firstn d s) < count_nl s.
Proof.
  induction d as [|d IH]; intros [|c s] H; simpl in *; try discriminate.
  - inversion H; subst. simpl. lia.
  - destruct (N.eqb c 10); specialize (IH _ H); lia.
Qed.

(* ---------- the scan ---------- *)

Definition app_hd (pre : bytes) (L : list bytes) : list bytes := (pre ++ hd [] L) :: tl L.

Lemma app_hd_nil : forall s, app_hd [] (lines s) = lines s.
Proof. intro s. unfold app_hd. simpl. symmetry. apply lines_cons_hd. Qed.

Lemma app_hd_length : forall pre s, length (app_hd pre (lines s)) = S (count_nl s).
Proof.
  intros pre s. unfold app_hd. simpl. generalize (lines_length s).
  rewrite (lines_cons_hd s) at 1. simpl. lia.
Qed.

Lemma app_hd_nl : forall pre s, app_hd pre (lines (10%N :: s)) = pre :: lines s.
Proof. intros. unfold app_hd. simpl. now rewrite app_nil_r. Qed.

Lemma app_hd_char : forall pre c s, N.eqb c 10 = false ->
  app_hd pre (lines (c :: s)) = app_hd (pre ++ [c]) (lines s).
Proof.
  intros pre c s H. unfold app_hd. simpl. rewrite H. simpl. now rewrite <- app_assoc.
Qed.

(* once the position has been seen, the scan only collects the rest of the line *)
Lemma scan_true : forall s i pos line col ls cur, pos < i ->
  line_col_scan s i pos line col ls true cur = (rev cur ++ hd [] (lines s), line, col).
Proof.
  induction s as [|c s IH]; intros i pos line col ls cur Hi; simpl.
  - now rewrite app_nil_r.
  - assert (Hne : Nat.eqb i pos = false) by (apply Nat.eqb_neq; lia). rewrite Hne.
    destruct (N.eqb c 10) eqn:Ec.
    + simpl. now rewrite app_nil_r.
    + rewrite IH by lia. simpl. now rewrite <- app_assoc.
Qed.

(* position on a byte of the text (a newline byte belongs to the line it ends) *)
Lemma scan_false_in : forall s i pos line col ls cur,
  i <= pos -> pos - i < length s ->
  line_col_scan s i pos line col ls false cur =
    (nth (count_nl (firstn (pos - i) s)) (app_hd (rev cur) (lines s)) [],
     line + count_nl (firstn (pos - i) s),
     (Z.of_nat pos -
      Z.of_nat (if Nat.eqb (count_nl (firstn (pos - i) s)) 0 then ls
                else i + line_start s (count_nl (firstn (pos - i) s))))%Z).
Proof.
  induction s as [|c s IH]; intros i pos line col ls cur Hi Hlen; simpl in Hlen; [lia|].
  destruct (pos - i) as [|d] eqn:Ed.
  - assert (i = pos) by lia. subst i.
    cbn [line_col_scan firstn count_nl Nat.eqb orb]. rewrite Nat.eqb_refl. cbn [orb].
    destruct (N.eqb c 10) eqn:Ec.
    + apply N.eqb_eq in Ec. subst c. rewrite app_hd_nl. cbn [nth].
      f_equal. f_equal. lia.
    + rewrite scan_true by lia. rewrite (app_hd_char (rev cur) c s Ec).
      unfold app_hd. cbn [nth rev]. f_equal. f_equal. lia.
  - assert (Hne : Nat.eqb i pos = false) by (apply Nat.eqb_neq; lia).
    assert (Ed' : pos - S i = d) by lia.
    cbn [line_col_scan firstn count_nl]. rewrite Hne. cbn [orb].
    destruct (N.eqb c 10) eqn:Ec.
    + apply N.eqb_eq in Ec. subst c.
      rewrite IH by (rewrite ?Ed'; lia). rewrite Ed'.
      rewrite app_hd_nl. simpl rev. rewrite app_hd_nil. cbn [nth Nat.eqb].
      rewrite line_start_cons. cbn [N.eqb Pos.eqb].
      f_equal; [f_equal; lia|].
      destruct (Nat.eqb (count_nl (firstn d s)) 0) eqn:Ek.
      * apply Nat.eqb_eq in Ek. rewrite Ek. rewrite line_start_0. f_equal. f_equal. lia.
      * f_equal. f_equal. lia.
    + rewrite IH by (rewrite ?Ed'; lia). rewrite Ed'.
      rewrite (app_hd_char (rev cur) c s Ec). simpl rev.
      f_equal.
      destruct (Nat.eqb (count_nl (firstn d s)) 0) eqn:Ek; [reflexivity|].
      apply Nat.eqb_neq in Ek. destruct (count_nl (firstn d s)) as [|k] eqn:Ek'; [congruence|].
      rewrite line_start_cons, Ec. f_equal. f_equal. lia.
Qed.

(* position at or past the end of the text: last line, column = offset of the end of the
   text inside that line *)
Lemma scan_false_past : forall s i pos line col ls cur,
  i <= pos -> length s <= pos - i ->
  line_col_scan s i pos line col ls false cur =
    (last (app_hd (rev cur) (lines s)) [], line + count_nl s,
     (Z.of_nat (i + length s) -
      Z.of_nat (if Nat.eqb (count_nl s) 0 then ls else i + line_start s (count_nl s)))%Z).
Proof.
  induction s as [|c s IH]; intros i pos line col ls cur Hi Hlen.
  - simpl. assert (Hle : Nat.leb i pos = true) by (apply Nat.leb_le; lia). rewrite Hle.
    rewrite app_nil_r. f_equal; [f_equal; lia|f_equal; f_equal; lia].
  - simpl in Hlen.
    assert (Hne : Nat.eqb i pos = false) by (apply Nat.eqb_neq; lia).
    cbn [line_col_scan count_nl length]. rewrite Hne. cbn [orb].
    destruct (N.eqb c 10) eqn:Ec.
    + apply N.eqb_eq in Ec. subst c. rewrite IH by lia.
      rewrite app_hd_nl. simpl rev. rewrite app_hd_nil.
      cbn [Nat.eqb]. rewrite line_start_cons. cbn [N.eqb Pos.eqb].
      f_equal; [f_equal|].
      * rewrite (lines_cons_hd s). reflexivity.
      * lia.
      * destruct (Nat.eqb (count_nl s) 0) eqn:Ek.
        -- apply Nat.eqb_eq in Ek. rewrite Ek. rewrite line_start_0. lia.
        -- lia.
    + rewrite IH by lia.
      rewrite (app_hd_char (rev cur) c s Ec). simpl rev.
      f_equal.
      destruct (Nat.eqb (count_nl s) 0) eqn:Ek; [lia|].
      apply Nat.eqb_neq in Ek. destruct (count_nl s) as [|k] eqn:Ek'; [congruence|].
      rewrite line_start_cons, Ec. lia.
Qed.

(* the last line ends where the text ends *)
Lemma line_start_last : forall s,
  line_start s (count_nl s) + length (last (lines s) []) = length s.
Proof.
  induction s as [|c s IH]; [reflexivity|].
  cbn [count_nl lines length]. destruct (N.eqb c 10) eqn:Ec.
  - rewrite line_start_cons, Ec.
    generalize (lines_cons_hd s). destruct (lines s) as [|h t]; [discriminate|]. intros _.
    cbn [last] in IH |- *. lia.
  - generalize (lines_length s) (lines_cons_hd s).
    destruct (lines s) as [|h t]; [discriminate|]. intros Hl _. cbn [hd tl].
    destruct (count_nl s) as [|k] eqn:Ek.
    + destruct t as [|x r]; [|simpl in Hl; lia].
      rewrite line_start_0 in *. cbn [last length] in IH |- *. lia.
    + rewrite line_start_cons, Ec.
      destruct t as [|x r]; [simpl in Hl; lia|].
      cbn [last length] in IH |- *. lia.
Qed.

(* ---------- the two situations, for the whole text ---------- *)

Lemma get_line_col_in : forall src pos,
  pos < length src ->
  get_line_col src pos =
    (nth (line_of_pos src pos) (lines src) [], S (line_of_pos src pos),
     (Z.of_nat pos - Z.of_nat (line_start src (line_of_pos src pos)))%Z).
Proof.
  intros src pos Hlt. unfold get_line_col, line_of_pos.
  rewrite scan_false_in by (rewrite ?Nat.sub_0_r; lia).
  rewrite Nat.sub_0_r. simpl rev. rewrite app_hd_nil. f_equal.
  destruct (Nat.eqb (count_nl (firstn pos src)) 0) eqn:Ek.
  - apply Nat.eqb_eq in Ek. rewrite Ek. reflexivity.
  - reflexivity.
Qed.

Lemma get_line_col_past : forall src pos,
  length src <= pos ->
  get_line_col src pos =
    (last (lines src) [], S (count_nl src), Z.of_nat (length (last (lines src) []))).
Proof.
  intros src pos Hle. unfold get_line_col.
  rewrite scan_false_past by lia. simpl rev. rewrite app_hd_nil. f_equal.
  generalize (line_start_last src).
  destruct (Nat.eqb (count_nl src) 0) eqn:Ek.
  - apply Nat.eqb_eq in Ek. rewrite Ek. rewrite line_start_0. lia.
  - lia.
Qed.

(* ---------- geometry of a position inside its line ---------- *)

Lemma pos_in_line : forall s pos,
  pos < length s -> nth_error s pos <> Some 10%N ->
  line_start s (count_nl (firstn pos s)) <= pos /\
  pos - line_start s (count_nl (firstn pos s)) < length (nth (count_nl (firstn pos s)) (lines s) []) /\
  nth_error (nth (count_nl (firstn pos s)) (lines s) []) (pos - line_start s (count_nl (firstn pos s)))
    = nth_error s pos.
Proof.
  induction s as [|c s IH]; intros pos Hlt Hnn; simpl in Hlt; [lia|].
  destruct pos as [|p].
  - simpl in *. assert (Ec : N.eqb c 10 = false) by (apply N.eqb_neq; congruence).
    rewrite Ec. rewrite line_start_0. simpl. split; [lia|split; [lia|reflexivity]].
  - simpl in Hnn. simpl firstn. simpl count_nl. simpl lines. simpl nth_error at 2.
    specialize (IH p ltac:(lia) Hnn). destruct IH as (I1 & I2 & I3).
    destruct (N.eqb c 10) eqn:Ec.
    + rewrite line_start_cons, Ec. simpl nth.
      replace (S p - S (line_start s (count_nl (firstn p s)))) with (p - line_start s (count_nl (firstn p s))) by lia.
      split; [lia|split; assumption].
    + destruct (count_nl (firstn p s)) as [|k] eqn:Ek.
      * rewrite line_start_0 in *. simpl nth. rewrite Nat.sub_0_r in *.
        rewrite (lines_cons_hd s) in I2, I3. simpl in I2, I3.
        split; [lia|split; [simpl; lia|simpl; assumption]].
      * rewrite line_start_cons, Ec.
        replace (S p - S (line_start s (S k))) with (p - line_start s (S k)) by lia.
        rewrite (lines_cons_hd s) in I2, I3. simpl in I2, I3. simpl nth.
        split; [lia|split; assumption].
Qed.

(* a newline byte sits just past the last byte of the line it ends *)
Lemma pos_in_line_nl : forall s pos,
  nth_error s pos = Some 10%N ->
  line_start s (count_nl (firstn pos s)) <= pos /\
  pos - line_start s (count_nl (firstn pos s)) = length (nth (count_nl (firstn pos s)) (lines s) []).
Proof.
  induction s as [|c s IH]; intros pos Hn; [destruct pos; discriminate|].
  destruct pos as [|p].
  - simpl in Hn. inversion Hn; subst c. simpl. rewrite line_start_0. split; reflexivity.
  - simpl in Hn. simpl firstn. simpl count_nl. simpl lines.
    specialize (IH p Hn). destruct IH as (I1 & I2).
    destruct (N.eqb c 10) eqn:Ec.
    + rewrite line_start_cons, Ec. simpl nth. lia.
    + destruct (count_nl (firstn p s)) as [|k] eqn:Ek.
      * rewrite line_start_0 in *. simpl nth. rewrite Nat.sub_0_r in *.
        rewrite (lines_cons_hd s) in I2. simpl in I2. simpl. lia.
      * rewrite line_start_cons, Ec.
        rewrite (lines_cons_hd s) in I2. simpl in I2. simpl nth. lia.
Qed.

(* line_start really is the offset of the first byte of the line: the text of line k sits
   at that offset, and it is preceded by a newline byte (or is the start of the text) *)
Lemma line_start_spec : forall s k text,
  nth_error (lines s) k = Some text ->
  slice s (line_start s k) (length text) = text /\
  (k = 0 /\ line_start s k = 0 \/
   exists j, line_start s k = S j /\ nth_error s j = Some 10%N) /\
  line_start s k + length text <= length s.
Proof.
  unfold slice.
  induction s as [|c s IH]; intros k text Hk.
  - simpl in Hk. destruct k as [|k]; simpl in Hk; [|destruct k; discriminate].
    inversion Hk; subst. simpl. split; [reflexivity|split; [left; auto|lia]].
  - simpl lines in Hk. destruct (N.eqb c 10) eqn:Ec.
    + destruct k as [|k]; simpl in Hk.
      * inversion Hk; subst. simpl. split; [reflexivity|split; [left; auto|lia]].
      * rewrite line_start_cons, Ec. destruct (IH k text Hk) as (I1 & I2 & I3).
        simpl. split; [assumption|split; [|lia]].
        right. destruct I2 as [[-> E0]|[j [Ej Hj]]].
        -- exists 0. rewrite E0. apply N.eqb_eq in Ec. subst c. split; reflexivity.
        -- exists (S j). rewrite Ej. split; [reflexivity|exact Hj].
    + destruct k as [|k]; simpl in Hk.
      * inversion Hk; subst. rewrite line_start_0.
        destruct (IH 0 (hd [] (lines s))) as (I1 & I2 & I3).
        { rewrite (lines_cons_hd s) at 1. reflexivity. }
        rewrite line_start_0 in *. simpl in *.
        split; [now rewrite I1|split; [left; auto|lia]].
      * rewrite line_start_cons, Ec.
        assert (Hk' : nth_error (lines s) (S k) = Some text).
        { rewrite (lines_cons_hd s). exact Hk. }
        destruct (IH (S k) text Hk') as (I1 & I2 & I3).
        simpl. split; [assumption|split; [|lia]].
        right. destruct I2 as [[E _]|[j [Ej Hj]]]; [discriminate|].
        exists (S j). rewrite Ej. split; [reflexivity|exact Hj].
Qed.

(* ---------- theorems ---------- *)

Lemma nth_error_last : forall (L : list bytes) n,
  length L = S n -> nth_error L n = Some (last L []).
Proof.
  induction L as [|x L IH]; intros n H; simpl in H; [discriminate|].
  destruct L as [|y L].
  - simpl in H. assert (n = 0) by lia. subst. reflexivity.
  - destruct n as [|n]; [simpl in H; lia|].
    change (nth_error (y :: L) n = Some (last (y :: L) [])). apply IH. simpl in *. lia.
Qed.

Theorem line_text_consistent_proof : forall src pos text n col,
  get_line_col src pos = (text, n, col) ->
  nth_error (lines src) (n - 1) = Some text /\ 1 <= n.
Proof.
  intros src pos text n col H.
  destruct (Nat.lt_ge_cases pos (length src)) as [Hlt|Hpast].
  - rewrite get_line_col_in in H by assumption. inversion H; subst; clear H.
    split; [|lia]. cbn [Nat.sub]. rewrite Nat.sub_0_r.
    apply nth_error_nth'. rewrite lines_length. unfold line_of_pos.
    generalize (count_nl_firstn_le pos src). lia.
  - rewrite get_line_col_past in H by assumption. inversion H; subst; clear H.
    split; [|lia]. cbn [Nat.sub]. rewrite Nat.sub_0_r.
    apply nth_error_last. apply lines_length.
Qed.

(* THE theorem: every offset inside the text or at its end is rendered exactly *)
Theorem pos_exact_proof : forall src pos text n col,
  pos <= length src ->
  get_line_col src pos = (text, n, col) ->
  n = S (line_of_pos src pos) /\
  nth_error (lines src) (line_of_pos src pos) = Some text /\
  line_start src (line_of_pos src pos) <= pos /\
  col = Z.of_nat (col_of_pos src pos) /\
  (0 <= col <= Z.of_nat (length text))%Z /\
  (col = Z.of_nat (length text) <-> (nth_error src pos = Some 10%N \/ pos = length src)) /\
  ((col < Z.of_nat (length text))%Z -> nth_error text (Z.to_nat col) = nth_error src pos).
Proof.
  intros src pos text n col Hle H.
  destruct (line_text_consistent_proof _ _ _ _ _ H) as [Hline _].
  destruct (Nat.lt_ge_cases pos (length src)) as [Hlt|Hpast].
  - rewrite get_line_col_in in H by assumption.
    injection H as Htext Hn Hcol. subst n col.
    cbn [Nat.sub] in Hline. rewrite Nat.sub_0_r in Hline.
    unfold col_of_pos.
    destruct (nth_error src pos) as [c|] eqn:Ec; [|apply nth_error_None in Ec; lia].
    destruct (N.eq_dec c 10) as [->|Hc].
    + destruct (pos_in_line_nl src pos Ec) as (I1 & I2).
      fold (line_of_pos src pos) in I1, I2. rewrite Htext in I2.
      split; [reflexivity|split; [exact Hline|split; [exact I1|split; [lia|split; [lia|split]]]]].
      * split; [intros _; left; reflexivity|intros _; lia].
      * intros Hl. lia.
    + assert (Hnn : nth_error src pos <> Some 10%N) by (rewrite Ec; congruence).
      destruct (pos_in_line src pos Hlt Hnn) as (I1 & I2 & I3).
      fold (line_of_pos src pos) in I1, I2, I3. rewrite Htext in I2, I3.
      split; [reflexivity|split; [exact Hline|split; [exact I1|split; [lia|split; [lia|split]]]]].
      * split; [intros Hl; lia|intros [E|E]; [congruence|lia]].
      * intros _.
        replace (Z.to_nat (Z.of_nat pos - Z.of_nat (line_start src (line_of_pos src pos))))
          with (pos - line_start src (line_of_pos src pos)) by lia.
        rewrite I3. exact Ec.
  - assert (pos = length src) by lia. subst pos.
    rewrite get_line_col_past in H by lia.
    injection H as Htext Hn Hcol. subst n col. rewrite Htext in *.
    assert (Hk : line_of_pos src (length src) = count_nl src).
    { unfold line_of_pos. now rewrite firstn_all. }
    cbn [Nat.sub] in Hline. rewrite Nat.sub_0_r in Hline.
    generalize (line_start_last src). intros Hls. rewrite Htext in Hls.
    unfold col_of_pos. rewrite Hk.
    split; [reflexivity|split; [exact Hline|split; [lia|split; [lia|split; [lia|split]]]]].
    + split; [intros _; right; reflexivity|intros _; reflexivity].
    + intros Hl. lia.
Qed.

Theorem pos_on_newline_proof : forall src pos text n col,
  nth_error src pos = Some 10%N ->
  get_line_col src pos = (text, n, col) ->
  n = S (line_of_pos src pos) /\
  nth_error (lines src) (line_of_pos src pos) = Some text /\
  col = Z.of_nat (length text).
Proof.
  intros src pos text n col Hn H.
  assert (Hlt : pos < length src) by (apply nth_error_Some; congruence).
  destruct (pos_exact_proof src pos text n col ltac:(lia) H) as (E1 & E2 & E3 & E4 & E5 & E6 & E7).
  split; [exact E1|split; [exact E2|]]. apply E6. left. exact Hn.
Qed.

Theorem pos_past_end_proof : forall src pos text n col,
  length src <= pos ->
  get_line_col src pos = (text, n, col) ->
  n = length (lines src) /\ nth_error (lines src) (n - 1) = Some text /\
  col = Z.of_nat (length text).
Proof.
  intros src pos text n col Hle H.
  destruct (line_text_consistent_proof _ _ _ _ _ H) as [Hline _].
  rewrite get_line_col_past in H by assumption. inversion H; subst; clear H.
  rewrite lines_length. auto.
Qed.
