(* Proofs/LineCol.v -- Lexer.get_line_col (GetLineAndCol) against the declarative
   vocabulary of Spec/Lines.v. *)
From Coq Require Import Lia ZArith ZifyN ZifyNat ZifyBool List.
From JQ Require Import Base.Bytes Syntax.Token Syntax.Lexer Spec.Lines.
Open Scope nat_scope.

(* ---------- basic facts about lines / count_nl / line_start ---------- *)

Lemma lines_cons_hd : forall s, lines s = hd [] (lines s) :: tl (lines s).
Proof.
  intros [|c s]; simpl; [reflexivity|]. destruct (N.eqb c 10); reflexivity.
Qed.

Lemma lines_length : forall s, length (lines s) = S (count_nl s).
Proof.
  induction s as [|c s IH]; simpl; [reflexivity|].
  destruct (N.eqb c 10); simpl; [lia|].
  rewrite (lines_cons_hd s) in IH. simpl in IH. lia.
Qed.

Lemma unlines_cons : forall l r, r <> [] -> unlines (l :: r) = l ++ 10%N :: unlines r.
Proof. intros l [|x r] H; [congruence|reflexivity]. Qed.

Lemma unlines_lines : forall s, unlines (lines s) = s.
Proof.
  induction s as [|c s IH]; simpl; [reflexivity|].
  destruct (N.eqb c 10) eqn:Ec.
  - apply N.eqb_eq in Ec. subst c. rewrite unlines_cons.
    + simpl. now rewrite IH.
    + rewrite lines_cons_hd. discriminate.
  - rewrite (lines_cons_hd s) in IH.
    destruct (tl (lines s)) as [|x r] eqn:Et.
    + simpl in *. now rewrite IH.
    + rewrite unlines_cons in IH by discriminate. rewrite unlines_cons by discriminate.
      rewrite <- app_comm_cons. f_equal. exact IH.
Qed.

Lemma line_start_0 : forall s, line_start s 0 = 0.
Proof. reflexivity. Qed.

Lemma line_start_cons : forall c s k,
  line_start (c :: s) (S k) = S (line_start s (if N.eqb c 10 then k else S k)).
Proof.
  intros c s k. unfold line_start. simpl lines.
  destruct (N.eqb c 10).
  - reflexivity.
  - generalize (lines_cons_hd s). destruct (lines s) as [|h t]; [discriminate|].
    intros _. simpl. lia.
Qed.

Lemma count_nl_app : forall a b, count_nl (a ++ b) = count_nl a + count_nl b.
Proof.
  induction a as [|c a IH]; intro b; simpl; [reflexivity|].
  destruct (N.eqb c 10); rewrite IH; reflexivity.
Qed.

Lemma count_nl_firstn_le : forall d s, count_nl (firstn d s) <= count_nl s.
Proof.
  intros d s. rewrite <- (firstn_skipn d s) at 2. rewrite count_nl_app. lia.
Qed.

Lemma count_nl_firstn_lt : forall d s,
  nth_error s d = Some 10%N -> count_nl (firstn d s) < count_nl s.
Proof.
  induction d as [|d IH]; intros [|c s] H; simpl in *; try discriminate.
  - inversion H; subst. simpl. lia.
  - destruct (N.eqb c 10); specialize (IH _ H); lia.
Qed.

(* ---------- the scan ---------- *)

Definition app_hd (pre : bytes) (L : list bytes) : list bytes := (pre ++ hd [] L) :: tl L.

Lemma app_hd_nil : forall s, app_hd [] (lines s) = lines s.
Proof. intro s. unfold app_hd. simpl. symmetry. apply lines_cons_hd. Qed.

Lemma app_hd_length : forall pre s, length (app_hd pre (lines s)) = S (count_nl s).
Proof.
  intros pre s. unfold app_hd. simpl. generalize (lines_length s).
  rewrite (lines_cons_hd s) at 1. simpl. lia.
Qed.

Lemma app_hd_nl : forall pre s, app_hd pre (lines (10%N :: s)) = pre :: lines s.
Proof. intros. unfold app_hd. simpl. now rewrite app_nil_r. Qed.

Lemma app_hd_char : forall pre c s, N.eqb c 10 = false ->
  app_hd pre (lines (c :: s)) = app_hd (pre ++ [c]) (lines s).
Proof.
  intros pre c s H. unfold app_hd. simpl. rewrite H. simpl. now rewrite <- app_assoc.
Qed.

(* once the position has been seen, the scan only collects the rest of the line *)
Lemma scan_true : forall s i pos line col ls cur, pos < i ->
  line_col_scan s i pos line col ls true cur = (rev cur ++ hd [] (lines s), line, col).
Proof.
  induction s as [|c s IH]; intros i pos line col ls cur Hi; simpl.
  - now rewrite app_nil_r.
  - destruct (N.eqb c 10) eqn:Ec.
    + simpl. now rewrite app_nil_r.
    + assert (Hne : Nat.eqb i pos = false) by (apply Nat.eqb_neq; lia).
      rewrite Hne. rewrite IH by lia. simpl. now rewrite <- app_assoc.
Qed.

(* position inside the text, on a byte that is not a newline *)
Lemma scan_false_char : forall s i pos line col ls cur,
  i <= pos -> pos - i < length s -> nth_error s (pos - i) <> Some 10%N ->
  line_col_scan s i pos line col ls false cur =
    (nth (count_nl (firstn (pos - i) s)) (app_hd (rev cur) (lines s)) [],
     line + count_nl (firstn (pos - i) s),
     (Z.of_nat pos -
      Z.of_nat (if Nat.eqb (count_nl (firstn (pos - i) s)) 0 then ls
                else i + line_start s (count_nl (firstn (pos - i) s))))%Z).
Proof.
  induction s as [|c s IH]; intros i pos line col ls cur Hi Hlen Hnn; simpl in Hlen; [lia|].
  destruct (pos - i) as [|d] eqn:Ed.
  - assert (i = pos) by lia. subst i. simpl in Hnn.
    assert (Ec : N.eqb c 10 = false) by (apply N.eqb_neq; congruence).
    simpl. rewrite Ec, Nat.eqb_refl. rewrite scan_true by lia.
    simpl. rewrite <- app_assoc. simpl.
    f_equal. f_equal. lia.
  - assert (Hne : Nat.eqb i pos = false) by (apply Nat.eqb_neq; lia).
    assert (Ed' : pos - S i = d) by lia.
    simpl in Hnn. simpl line_col_scan. simpl firstn. simpl count_nl.
    destruct (N.eqb c 10) eqn:Ec.
    + apply N.eqb_eq in Ec. subst c. rewrite Hne.
      rewrite IH by (rewrite ?Ed'; auto; lia). rewrite Ed'.
      rewrite app_hd_nl. simpl rev. rewrite app_hd_nil. simpl nth.
      rewrite line_start_cons. simpl N.eqb. cbv iota.
      f_equal; [f_equal; lia|].
      destruct (Nat.eqb (count_nl (firstn d s)) 0) eqn:Ek.
      * apply Nat.eqb_eq in Ek. rewrite Ek. simpl. rewrite line_start_0. f_equal. f_equal. lia.
      * simpl. f_equal. f_equal. lia.
    + rewrite Hne. rewrite IH by (rewrite ?Ed'; auto; lia). rewrite Ed'.
      rewrite (app_hd_char (rev cur) c s Ec). simpl rev.
      f_equal.
      destruct (Nat.eqb (count_nl (firstn d s)) 0) eqn:Ek; [reflexivity|].
      apply Nat.eqb_neq in Ek. destruct (count_nl (firstn d s)) as [|k] eqn:Ek'; [congruence|].
      rewrite line_start_cons, Ec. f_equal. f_equal. lia.
Qed.

(* position on a newline byte: the scan reports the FOLLOWING line, column -1 *)
Lemma scan_false_nl : forall s i pos line col ls cur,
  i <= pos -> nth_error s (pos - i) = Some 10%N ->
  line_col_scan s i pos line col ls false cur =
    (nth (S (count_nl (firstn (pos - i) s))) (app_hd (rev cur) (lines s)) [],
     line + S (count_nl (firstn (pos - i) s)), (-1)%Z).
Proof.
  induction s as [|c s IH]; intros i pos line col ls cur Hi Hn.
  - destruct (pos - i); discriminate.
  - destruct (pos - i) as [|d] eqn:Ed.
    + assert (i = pos) by lia. subst i. simpl in Hn. inversion Hn; subst c.
      simpl line_col_scan. rewrite Nat.eqb_refl. rewrite scan_true by lia.
      simpl firstn. simpl count_nl. rewrite app_hd_nl. cbn [rev app nth].
      f_equal; [f_equal; [destruct (lines s); reflexivity|lia]|lia].
    + assert (Hne : Nat.eqb i pos = false) by (apply Nat.eqb_neq; lia).
      assert (Ed' : pos - S i = d) by lia.
      simpl in Hn. simpl line_col_scan. simpl firstn. simpl count_nl.
      destruct (N.eqb c 10) eqn:Ec.
      * apply N.eqb_eq in Ec. subst c. rewrite Hne.
        rewrite IH by (rewrite ?Ed'; auto; lia). rewrite Ed'.
        rewrite app_hd_nl. simpl rev. rewrite app_hd_nil. simpl nth.
        f_equal. f_equal. lia.
      * rewrite Hne. rewrite IH by (rewrite ?Ed'; auto; lia). rewrite Ed'.
        rewrite (app_hd_char (rev cur) c s Ec). reflexivity.
Qed.

(* position at or past the end of the text: last line, column keeps its initial value *)
Lemma scan_false_past : forall s i pos line col ls cur,
  i <= pos -> length s <= pos - i ->
  line_col_scan s i pos line col ls false cur =
    (last (app_hd (rev cur) (lines s)) [], line + count_nl s, col).
Proof.
  induction s as [|c s IH]; intros i pos line col ls cur Hi Hlen.
  - simpl. rewrite app_nil_r. f_equal. f_equal. lia.
  - simpl in Hlen.
    assert (Hne : Nat.eqb i pos = false) by (apply Nat.eqb_neq; lia).
    simpl line_col_scan. simpl count_nl.
    destruct (N.eqb c 10) eqn:Ec.
    + apply N.eqb_eq in Ec. subst c. rewrite Hne. rewrite IH by lia.
      rewrite app_hd_nl. simpl rev. rewrite app_hd_nil.
      f_equal. f_equal.
      * rewrite (lines_cons_hd s). reflexivity.
      * lia.
    + rewrite Hne. rewrite IH by lia.
      rewrite (app_hd_char (rev cur) c s Ec). reflexivity.
Qed.

(* ---------- the three situations, for the whole text ---------- *)

Lemma get_line_col_char : forall src pos,
  pos < length src -> nth_error src pos <> Some 10%N ->
  get_line_col src pos =
    (nth (line_of_pos src pos) (lines src) [], S (line_of_pos src pos),
     (Z.of_nat pos - Z.of_nat (line_start src (line_of_pos src pos)))%Z).
Proof.
  intros src pos Hlt Hnn. unfold get_line_col, line_of_pos.
  rewrite scan_false_char by (rewrite ?Nat.sub_0_r; auto; lia).
  rewrite Nat.sub_0_r. simpl rev. rewrite app_hd_nil. f_equal.
  destruct (Nat.eqb (count_nl (firstn pos src)) 0) eqn:Ek.
  - apply Nat.eqb_eq in Ek. rewrite Ek. reflexivity.
  - reflexivity.
Qed.

Lemma get_line_col_nl : forall src pos,
  nth_error src pos = Some 10%N ->
  get_line_col src pos =
    (nth (S (line_of_pos src pos)) (lines src) [], S (S (line_of_pos src pos)), (-1)%Z).
Proof.
  intros src pos Hn. unfold get_line_col, line_of_pos.
  rewrite scan_false_nl by (rewrite ?Nat.sub_0_r; auto; lia).
  rewrite Nat.sub_0_r. simpl rev. rewrite app_hd_nil. reflexivity.
Qed.

Lemma get_line_col_past : forall src pos,
  length src <= pos ->
  get_line_col src pos = (last (lines src) [], S (count_nl src), 1%Z).
Proof.
  intros src pos Hle. unfold get_line_col.
  rewrite scan_false_past by lia. simpl rev. rewrite app_hd_nil. reflexivity.
Qed.

Lemma nth_error_cases : forall (s : bytes) pos,
  (pos < length s /\ nth_error s pos <> Some 10%N) \/ nth_error s pos = Some 10%N \/ length s <= pos.
Proof.
  intros s pos. destruct (nth_error s pos) as [c|] eqn:E.
  - destruct (N.eq_dec c 10) as [->|Hc].
    + right. left. reflexivity.
    + left. split; [apply nth_error_Some; congruence|congruence].
  - right. right. now apply nth_error_None.
Qed.

(* ---------- geometry of a position inside its line ---------- *)

Lemma pos_in_line : forall s pos,
  pos < length s -> nth_error s pos <> Some 10%N ->
  line_start s (count_nl (firstn pos s)) <= pos /\
  pos - line_start s (count_nl (firstn pos s)) < length (nth (count_nl (firstn pos s)) (lines s) []) /\
  nth_error (nth (count_nl (firstn pos s)) (lines s) []) (pos - line_start s (count_nl (firstn pos s)))
    = nth_error s pos.
Proof.
  induction s as [|c s IH]; intros pos Hlt Hnn; simpl in Hlt; [lia|].
  destruct pos as [|p].
  - simpl in *. assert (Ec : N.eqb c 10 = false) by (apply N.eqb_neq; congruence).
    rewrite Ec. rewrite line_start_0. simpl. split; [lia|split; [lia|reflexivity]].
  - simpl in Hnn. simpl firstn. simpl count_nl. simpl lines. simpl nth_error at 2.
    specialize (IH p ltac:(lia) Hnn). destruct IH as (I1 & I2 & I3).
    destruct (N.eqb c 10) eqn:Ec.
    + rewrite line_start_cons, Ec. simpl nth.
      replace (S p - S (line_start s (count_nl (firstn p s)))) with (p - line_start s (count_nl (firstn p s))) by lia.
      split; [lia|split; assumption].
    + destruct (count_nl (firstn p s)) as [|k] eqn:Ek.
      * rewrite line_start_0 in *. simpl nth. rewrite Nat.sub_0_r in *.
        rewrite (lines_cons_hd s) in I2, I3. simpl in I2, I3.
        split; [lia|split; [simpl; lia|simpl; assumption]].
      * rewrite line_start_cons, Ec.
        replace (S p - S (line_start s (S k))) with (p - line_start s (S k)) by lia.
        rewrite (lines_cons_hd s) in I2, I3. simpl in I2, I3. simpl nth.
        split; [lia|split; assumption].
Qed.

(* line_start really is the offset of the first byte of the line: the text of line k sits
   at that offset, and it is preceded by a newline byte (or is the start of the text) *)
Lemma line_start_spec : forall s k text,
  nth_error (lines s) k = Some text ->
  slice s (line_start s k) (length text) = text /\
  (k = 0 /\ line_start s k = 0 \/
   exists j, line_start s k = S j /\ nth_error s j = Some 10%N) /\
  line_start s k + length text <= length s.
Proof.
  unfold slice.
  induction s as [|c s IH]; intros k text Hk.
  - simpl in Hk. destruct k as [|k]; simpl in Hk; [|destruct k; discriminate].
    inversion Hk; subst. simpl. split; [reflexivity|split; [left; auto|lia]].
  - simpl lines in Hk. destruct (N.eqb c 10) eqn:Ec.
    + destruct k as [|k]; simpl in Hk.
      * inversion Hk; subst. simpl. split; [reflexivity|split; [left; auto|lia]].
      * rewrite line_start_cons, Ec. destruct (IH k text Hk) as (I1 & I2 & I3).
        simpl. split; [assumption|split; [|lia]].
        right. destruct I2 as [[-> E0]|[j [Ej Hj]]].
        -- exists 0. rewrite E0. apply N.eqb_eq in Ec. subst c. split; reflexivity.
        -- exists (S j). rewrite Ej. split; [reflexivity|exact Hj].
    + destruct k as [|k]; simpl in Hk.
      * inversion Hk; subst. rewrite line_start_0.
        destruct (IH 0 (hd [] (lines s))) as (I1 & I2 & I3).
        { rewrite (lines_cons_hd s) at 1. reflexivity. }
        rewrite line_start_0 in *. simpl in *.
        split; [now rewrite I1|split; [left; auto|lia]].
      * rewrite line_start_cons, Ec.
        assert (Hk' : nth_error (lines s) (S k) = Some text).
        { rewrite (lines_cons_hd s). exact Hk. }
        destruct (IH (S k) text Hk') as (I1 & I2 & I3).
        simpl. split; [assumption|split; [|lia]].
        right. destruct I2 as [[E _]|[j [Ej Hj]]]; [discriminate|].
        exists (S j). rewrite Ej. split; [reflexivity|exact Hj].
Qed.

(* ---------- theorems ---------- *)

Lemma nth_error_last : forall (L : list bytes) n,
  length L = S n -> nth_error L n = Some (last L []).
Proof.
  induction L as [|x L IH]; intros n H; simpl in H; [discriminate|].
  destruct L as [|y L].
  - simpl in H. assert (n = 0) by lia. subst. reflexivity.
  - destruct n as [|n]; [simpl in H; lia|].
    change (nth_error (y :: L) n = Some (last (y :: L) [])). apply IH. simpl in *. lia.
Qed.

Theorem line_text_consistent_proof : forall src pos text n col,
  get_line_col src pos = (text, n, col) ->
  nth_error (lines src) (n - 1) = Some text /\ 1 <= n.
Proof.
  intros src pos text n col H.
  destruct (nth_error_cases src pos) as [[Hlt Hnn]|[Hn|Hpast]].
  - rewrite get_line_col_char in H by assumption. inversion H; subst; clear H.
    split; [|lia]. cbn [Nat.sub]. rewrite Nat.sub_0_r.
    apply nth_error_nth'. rewrite lines_length. unfold line_of_pos.
    generalize (count_nl_firstn_le pos src). lia.
  - rewrite get_line_col_nl in H by assumption. inversion H; subst; clear H.
    split; [|lia]. cbn [Nat.sub].
    apply nth_error_nth'. rewrite lines_length. unfold line_of_pos.
    generalize (count_nl_firstn_lt pos src Hn). lia.
  - rewrite get_line_col_past in H by assumption. inversion H; subst; clear H.
    split; [|lia]. cbn [Nat.sub]. rewrite Nat.sub_0_r.
    apply nth_error_last. apply lines_length.
Qed.

Theorem pos_exact_proof : forall src pos text n col,
  pos < length src -> nth_error src pos <> Some 10%N ->
  get_line_col src pos = (text, n, col) ->
  n = S (line_of_pos src pos) /\
  nth_error (lines src) (line_of_pos src pos) = Some text /\
  line_start src (line_of_pos src pos) <= pos /\
  col = Z.of_nat (col_of_pos src pos) /\
  (0 <= col < Z.of_nat (length text))%Z /\
  nth_error text (Z.to_nat col) = nth_error src pos.
Proof.
  intros src pos text n col Hlt Hnn H.
  destruct (line_text_consistent_proof _ _ _ _ _ H) as [Hline _].
  rewrite get_line_col_char in H by assumption. inversion H; subst; clear H.
  cbn [Nat.sub] in Hline. rewrite Nat.sub_0_r in Hline.
  destruct (pos_in_line src pos Hlt Hnn) as (I1 & I2 & I3).
  fold (line_of_pos src pos) in I1, I2, I3.
  unfold col_of_pos.
  split; [reflexivity|split; [assumption|split; [assumption|split; [lia|split; [lia|]]]]].
  replace (Z.to_nat (Z.of_nat pos - Z.of_nat (line_start src (line_of_pos src pos))))
    with (pos - line_start src (line_of_pos src pos)) by lia.
  assumption.
Qed.

Theorem pos_on_newline_proof : forall src pos text n col,
  nth_error src pos = Some 10%N ->
  get_line_col src pos = (text, n, col) ->
  n = S (S (line_of_pos src pos)) /\
  nth_error (lines src) (S (line_of_pos src pos)) = Some text /\
  col = (-1)%Z.
Proof.
  intros src pos text n col Hn H.
  destruct (line_text_consistent_proof _ _ _ _ _ H) as [Hline _].
  rewrite get_line_col_nl in H by assumption. inversion H; subst; clear H.
  cbn [Nat.sub] in Hline. auto.
Qed.

Theorem pos_past_end_proof : forall src pos text n col,
  length src <= pos ->
  get_line_col src pos = (text, n, col) ->
  n = length (lines src) /\ nth_error (lines src) (n - 1) = Some text /\ col = 1%Z.
Proof.
  intros src pos text n col Hle H.
  destruct (line_text_consistent_proof _ _ _ _ _ H) as [Hline _].
  rewrite get_line_col_past in H by assumption. inversion H; subst; clear H.
  rewrite lines_length. auto.
Qed.
