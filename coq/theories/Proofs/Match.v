(* C19: laws of evalCaseMatch / the EMatch branch of evalExpr, and agreement of the model's
   fuelled matcher with the structural matcher of Spec/MatchSpec.v. *)
From Coq Require Import Lia Sorted.
From JQ Require Import Base.Bytes Num.F64 Syntax.Token Syntax.Lexer Syntax.Ast.
From JQ Require Import Json.JValue.
From JQ Require Import Gen.Generated Sem.Value Sem.Ops Sem.Natives Sem.Eval.
From JQ Require Import Spec.Schedule Spec.MatchSpec Proofs.AssocCanon Proofs.Driver.
Open Scope nat_scope.

Ltac rassoc := etransitivity; [|symmetry; apply bind_assoc].
Ltac kill_rt H :=
  unfold rt_error in H;
  match type of H with context [get_line_col ?a ?b] =>
    destruct (get_line_col a b) as [[? ?] ?] end;
  discriminate.

Section MatchProofs.
  Variable src : bytes.
  Variable funcs : list func.
  Variable fuzzing : bool.

  Notation ecm := (eval_case_match src funcs fuzzing).
  Notation emc := (eval_match_cases src funcs fuzzing).
  Notation eexpr := (eval_expr src funcs fuzzing).
  Notation estmt := (eval_stmt src funcs fuzzing).

  (* the model's element loop of an array pattern, named *)
  Definition cm_elems (f : nat) : list addr -> list expr -> bindings -> M (option bindings) :=
    fix elems (cs : list addr) (ps : list expr) (acc : bindings) : M (option bindings) :=
      match cs, ps with
      | c :: cs', q :: ps' =>
        let* m := ecm f c [q] in
        match m with
        | None => ret None
        | Some nb => elems cs' ps' (merge nb acc)
        end
      | _, _ => ret (Some acc)
      end.

  (* ---------------------------------------------------------------- unfolding *)

  Lemma ecm_O subject pats : ecm 0 subject pats = fail Fuel.
  Proof. reflexivity. Qed.

  Lemma ecm_nil f subject : ecm (S f) subject [] = ret None.
  Proof. reflexivity. Qed.

  Lemma ecm_lit f subject t rest :
    ecm (S f) subject (ELit t :: rest)
    = (let* cv := eexpr f (ELit t) in
       let* a := m_load subject in
       let* b := m_load cv in
       match equals_values a b with
       | EqOk true => ret (Some [])
       | EqOk false => ecm f subject rest
       | EqErr => rt_error src t
       | EqUnsupp => fail Unsupp
       end).
  Proof. reflexivity. Qed.

  Lemma ecm_id f subject t rest :
    ecm (S f) subject (EId t :: rest)
    = (let* name := tok_string src t in ret (Some [(name, subject)])).
  Proof. reflexivity. Qed.

  Lemma ecm_arr f subject t items rest :
    ecm (S f) subject (EArr t items :: rest)
    = (let* sv := m_load subject in
       match sv with
       | VArr bid off len =>
         if negb (Nat.eqb len (length items)) then ecm f subject rest
         else
           let* h := get_heap in
           let* r := cm_elems f (arr_cells h bid off len) items [] in
           match r with
           | Some b => ret (Some b)
           | None => ecm f subject rest
           end
       | _ => ecm f subject rest
       end).
  Proof. reflexivity. Qed.

  Lemma ecm_other f subject p rest :
    match p with ELit _ | EId _ | EArr _ _ => False | _ => True end ->
    ecm (S f) subject (p :: rest) = rt_error src (expr_token p).
  Proof. destruct p; intro H; try contradiction; reflexivity. Qed.

  Lemma eexpr_lit f t : eexpr (S f) (ELit t) = lit_cell src t.
  Proof. reflexivity. Qed.

  Lemma emc_O t subject cases : emc 0 t subject cases = fail Fuel.
  Proof. reflexivity. Qed.

  Lemma emc_nil f t subject : emc (S f) t subject [] = nil_cell.
  Proof. reflexivity. Qed.

  Lemma emc_cons f t subject pats body rest :
    emc (S f) t subject ((pats, body) :: rest)
    = (let* m := ecm f subject pats in
       match m with
       | None => emc f t subject rest
       | Some b => run_case src funcs fuzzing f t b body
       end).
  Proof. reflexivity. Qed.

  Lemma pm_alt_arr t items subject :
    pm_alt src (EArr t items) subject
    = (let* sv := m_load subject in
       match sv with
       | VArr bid off len =>
         if Nat.eqb len (length items) then
           let* h := get_heap in pm_elems src items (arr_cells h bid off len) []
         else ret None
       | _ => ret None
       end).
  Proof. reflexivity. Qed.

  (* ---------------------------------------------------------------- agreement with the spec *)

  Lemma rt_error_bind {A B} (k : A -> M B) t s :
    bind (@rt_error src A t) k s = @rt_error src B t s.
  Proof.
    unfold rt_error. destruct (get_line_col src (tpos t)) as [[text line] col]. reflexivity.
  Qed.

  Lemma rt_error_is_err {A} t s : exists e s', @rt_error src A t s = (Err e, s').
  Proof.
    unfold rt_error. destruct (get_line_col src (tpos t)) as [[text line] col].
    eexists. eexists. reflexivity.
  Qed.

  Lemma pm_alts_single q c s : pm_alts src [q] c s = pm_alt src q c s.
  Proof.
    cbn [pm_alts]. unfold bind.
    destruct (pm_alt src q c s) as [[[b|]|e|x| | | ] s1]; reflexivity.
  Qed.

  Lemma pat_fuel_arr_items t items f :
    pat_fuel (EArr t items) <= f -> Forall (fun q => alts_fuel [q] <= f) items.
  Proof.
    cbn [pat_fuel]. induction items as [|q items IH]; intro H; constructor.
    - cbn [alts_fuel]. lia.
    - apply IH. lia.
  Qed.

  Lemma cm_elems_agrees f :
    (forall pats subject s, alts_fuel pats <= f -> ecm f subject pats s = pm_alts src pats subject s) ->
    forall ps cs acc s,
      Forall (fun q => alts_fuel [q] <= f) ps ->
      cm_elems f cs ps acc s = pm_elems src ps cs acc s.
  Proof.
    intros IH ps. induction ps as [|q ps IHps]; intros cs acc s Hall.
    - destruct cs; reflexivity.
    - destruct cs as [|c cs]; [reflexivity|].
      inversion Hall as [|x l Hq Hps]; subst.
      change (cm_elems f (c :: cs) (q :: ps) acc s)
        with ((let* m := ecm f c [q] in
               match m with
               | None => ret None
               | Some nb => cm_elems f cs ps (merge nb acc)
               end) s).
      cbn [pm_elems]. apply bind_cong.
      + rewrite (IH [q] c s Hq). apply pm_alts_single.
      + intros [nb|] s1; [|reflexivity]. now apply IHps.
  Qed.

  (* with enough fuel the model's matcher IS the structural matcher *)
  Theorem ecm_agrees : forall n pats subject s,
    alts_fuel pats <= n -> ecm n subject pats s = pm_alts src pats subject s.
  Proof.
    induction n as [|f IH]; intros pats subject s Hf.
    - destruct pats; cbn in Hf; lia.
    - destruct pats as [|p rest]; [reflexivity|].
      cbn [alts_fuel] in Hf.
      assert (Hp : pat_fuel p <= f) by lia. assert (Hr : alts_fuel rest <= f) by lia.
      destruct p.
      + (* literal *)
        rewrite ecm_lit. cbn [pat_fuel] in Hp. destruct f as [|f']; [lia|]. rewrite eexpr_lit.
        cbn [pm_alts pm_alt]. rassoc. apply bind_ext. intros cv s1.
        unfold bind at 1 2 3 4 5. unfold m_load.
        destruct (equals_values (load (hp s1) subject) (load (hp s1) cv)) as [[]| | ].
        * reflexivity.
        * now apply IH.
        * symmetry. apply (rt_error_bind (A := option bindings)).
        * reflexivity.
      + (* identifier *)
        rewrite ecm_id. cbn [pm_alts pm_alt]. unfold bind, tok_string.
        destruct (get_string src t); reflexivity.
      + (* array *)
        rewrite ecm_arr. cbn [pm_alts]. rewrite pm_alt_arr. rassoc. apply bind_ext. intros sv s1.
        destruct sv; try (now apply IH).
        destruct (Nat.eqb len (length items)); cbn [negb]; [|now apply IH].
        rassoc. apply bind_ext. intros h s2.
        apply bind_cong.
        * apply cm_elems_agrees; [exact IH|]. eapply pat_fuel_arr_items; eauto.
        * intros [b|] s3; [reflexivity|]. now apply IH.
      + rewrite ecm_other by exact I. cbn [pm_alts pm_alt]. symmetry. apply rt_error_bind.
      + rewrite ecm_other by exact I. cbn [pm_alts pm_alt]. symmetry. apply rt_error_bind.
      + rewrite ecm_other by exact I. cbn [pm_alts pm_alt]. symmetry. apply rt_error_bind.
      + rewrite ecm_other by exact I. cbn [pm_alts pm_alt]. symmetry. apply rt_error_bind.
      + rewrite ecm_other by exact I. cbn [pm_alts pm_alt]. symmetry. apply rt_error_bind.
  Qed.

  (* ---------------------------------------------------------------- bindings are canonical *)

  Lemma merge_sorted nb acc : keys_sorted acc -> keys_sorted (merge nb acc).
  Proof. exact (insert_all_sorted nb acc). Qed.

  Lemma merge_self b : keys_sorted b -> merge b [] = b.
  Proof. exact (insert_all_self b). Qed.

  Lemma cm_elems_sorted f cs : forall ps acc s b s',
    keys_sorted acc -> cm_elems f cs ps acc s = (Ok (Some b), s') -> keys_sorted b.
  Proof.
    induction cs as [|c cs IH]; intros ps acc s b s' Hacc H.
    - cbn in H. injection H as <- _. exact Hacc.
    - destruct ps as [|q ps].
      + cbn in H. injection H as <- _. exact Hacc.
      + change (cm_elems f (c :: cs) (q :: ps) acc s)
          with ((let* m := ecm f c [q] in
                 match m with
                 | None => ret None
                 | Some nb => cm_elems f cs ps (merge nb acc)
                 end) s) in H.
        unfold bind in H. destruct (ecm f c [q] s) as [[[nb|]|e|x| | | ] s1]; try discriminate.
        eapply IH; [|exact H]. now apply merge_sorted.
  Qed.

  (* the bindings of a match are strictly ascending by name: a canonical map *)
  Lemma ecm_sorted : forall n pats subject s b s',
    ecm n subject pats s = (Ok (Some b), s') -> keys_sorted b.
  Proof.
    induction n as [|f IH]; intros pats subject s b s' H; [discriminate|].
    destruct pats as [|p rest]; [discriminate|].
    destruct p.
    - rewrite ecm_lit in H. unfold bind, m_load in H.
      destruct (eexpr f (ELit t) s) as [[cv|e|x| | | ] s1]; try discriminate.
      destruct (equals_values (load (hp s1) subject) (load (hp s1) cv)) as [[]| | ].
      + injection H as <- _. constructor.
      + eapply IH; eauto.
      + kill_rt H.
      + discriminate.
    - rewrite ecm_id in H. unfold bind, tok_string in H.
      destruct (get_string src t); [|discriminate]. injection H as <- _.
      repeat constructor.
    - rewrite ecm_arr in H. unfold bind at 1 in H. unfold m_load in H.
      destruct (load (hp s) subject); try (eapply IH; eauto; fail).
      destruct (Nat.eqb len (length items)); cbn [negb] in H; [|eapply IH; eauto].
      unfold bind at 1 in H. unfold get_heap in H. unfold bind at 1 in H.
      destruct (cm_elems f (arr_cells (hp s) bid off len) items [] s) as [[[b'|]|e|x| | | ] s1] eqn:Hc;
        try discriminate.
      + injection H as <- _. eapply cm_elems_sorted; [|exact Hc]. constructor.
      + eapply IH; eauto.
    - rewrite ecm_other in H by exact I.
      kill_rt H.
    - rewrite ecm_other in H by exact I.
      kill_rt H.
    - rewrite ecm_other in H by exact I.
      kill_rt H.
    - rewrite ecm_other in H by exact I.
      kill_rt H.
    - rewrite ecm_other in H by exact I.
      kill_rt H.
  Qed.

  (* ---------------------------------------------------------------- the matched case *)

  Lemma bind_all_run b : forall nm l fr s,
    frames s = mkFrame nm l :: fr ->
    bind_all b s = (Ok tt, mkSt (hp s) (mkFrame nm (merge b l) :: fr)
                                (rule_root s) (root s) (retval s) (io s)).
  Proof.
    induction b as [|[k a] b IH]; intros nm l fr s Hf.
    - destruct s; cbn in *. now subst.
    - cbn [bind_all]. unfold bind at 1. unfold set_local. rewrite Hf. cbn [fname locals].
      rewrite (IH nm (assoc_set k a l) fr); reflexivity.
  Qed.

  Theorem run_case_run f t b body s :
    run_case src funcs fuzzing f t b body s = case_result src funcs fuzzing f t b body s.
  Proof.
    unfold run_case, case_result. unfold bind at 1. unfold push_frame.
    destruct (Z.ltb call_depth_limit (Z.of_nat (length (frames s)))); [reflexivity|].
    cbn [negb]. unfold bind at 1.
    rewrite (bind_all_run b (bs "<match>") [] (frames s)) by reflexivity.
    cbn [hp rule_root root retval io]. fold (match_state s b).
    unfold bind at 1.
    assert (Hb : run_case_body src funcs fuzzing f body (match_state s b)
                 = (Ok (fst (body_result src funcs fuzzing f body (match_state s b))),
                    snd (body_result src funcs fuzzing f body (match_state s b)))).
    { unfold run_case_body, body_result, catch.
      destruct body; try (destruct (eexpr f e (match_state s b)); reflexivity);
        unfold bind;
        match goal with |- context [estmt f ?bd ?st] =>
          destruct (estmt f bd st) as [[[]|e0|x| | | ] s3] end; reflexivity. }
    rewrite Hb.
    destruct (body_result src funcs fuzzing f body (match_state s b)) as [r s3]. cbn [fst snd].
    unfold bind at 1. unfold pop_frame, pop_state.
    destruct (frames s3) as [|f1 [|f2 rest]]; try reflexivity.
    destruct r; reflexivity.
  Qed.
End MatchProofs.

(* ------------------------------------------------------------------ packaged statements (Props/C19_match.v) *)

Ltac splits := repeat match goal with |- _ /\ _ => split end.

Lemma C19_no_case_null :
  forall (src : bytes) (funcs : list func) (fz : bool) f t subject s,
    eval_match_cases src funcs fz (S f) t subject [] s
    = (Ok (next (hp s)),
       mkSt (snd (alloc (hp s) (VNil None))) (frames s) (rule_root s) (root s) (retval s) (io s)) /\
    load (snd (alloc (hp s) (VNil None))) (next (hp s)) = VNil None.
Proof.
  intros. split; [reflexivity|]. unfold load. cbn. now rewrite PM.gss.
Qed.

Lemma C19_first_case_wins :
  forall (src : bytes) (funcs : list func) (fz : bool) f t subject pats body rest s b s1,
    eval_case_match src funcs fz f subject pats s = (Ok (Some b), s1) ->
    eval_match_cases src funcs fz (S f) t subject ((pats, body) :: rest) s
    = case_result src funcs fz f t b body s1.
Proof.
  intros src funcs fz f t subject pats body rest s b s1 H.
  rewrite emc_cons. rewrite (bind_ok _ _ _ _ _ H). apply run_case_run.
Qed.

Lemma C19_later_cases_untouched :
  forall (src : bytes) (funcs : list func) (fz : bool) f t subject pats body rest s r s1,
    eval_case_match src funcs fz f subject pats s = (r, s1) -> r <> Ok None ->
    eval_match_cases src funcs fz (S f) t subject ((pats, body) :: rest) s
    = eval_match_cases src funcs fz (S f) t subject [(pats, body)] s.
Proof.
  intros src funcs fz f t subject pats body rest s r s1 H Hr.
  rewrite !emc_cons. unfold bind. rewrite H.
  destruct r as [[b|]|e|x| | | ]; try reflexivity. now contradiction Hr.
Qed.

Lemma C19_nonmatching_case_skipped :
  forall (src : bytes) (funcs : list func) (fz : bool) f t subject pats body rest s s1,
    eval_case_match src funcs fz f subject pats s = (Ok None, s1) ->
    eval_match_cases src funcs fz (S f) t subject ((pats, body) :: rest) s
    = eval_match_cases src funcs fz f t subject rest s1.
Proof.
  intros src funcs fz f t subject pats body rest s s1 H.
  rewrite emc_cons. now rewrite (bind_ok _ _ _ _ _ H).
Qed.

Lemma C19_literal_pattern_is_eq :
  forall (src : bytes) (funcs : list func) (fz : bool) f subject t rest s,
    (forall cv s1, eval_expr src funcs fz f (ELit t) s = (Ok cv, s1) ->
       eval_case_match src funcs fz (S f) subject (ELit t :: rest) s
       = match equals_values (load (hp s1) subject) (load (hp s1) cv) with
         | EqOk true => (Ok (Some []), s1)
         | EqOk false => eval_case_match src funcs fz f subject rest s1
         | EqErr => rt_error src t s1
         | EqUnsupp => (Unsupp, s1)
         end) /\
    (forall r s1, eval_expr src funcs fz f (ELit t) s = (r, s1) -> is_ok r = false ->
       eval_case_match src funcs fz (S f) subject (ELit t :: rest) s = (recast r, s1)) /\
    eval_expr src funcs fz (S f) (ELit t) = lit_cell src t.
Proof.
  intros. split; [|split].
  - intros cv s1 H. rewrite ecm_lit. rewrite (bind_ok _ _ _ _ _ H).
    unfold bind, m_load.
    destruct (equals_values (load (hp s1) subject) (load (hp s1) cv)) as [[]| | ]; reflexivity.
  - intros r s1 H Hr. rewrite ecm_lit. now rewrite (bind_stop _ _ _ _ _ H Hr).
  - reflexivity.
Qed.

Lemma C19_ident_pattern_binds :
  forall (src : bytes) (funcs : list func) (fz : bool) f subject t rest s,
    eval_case_match src funcs fz (S f) subject (EId t :: rest) s
    = match get_string src t with
      | Some name => (Ok (Some [(name, subject)]), s)
      | None => (Panic, s)
      end.
Proof.
  intros. rewrite ecm_id. unfold bind, tok_string. destruct (get_string src t); reflexivity.
Qed.

Lemma C19_array_pattern_spec :
  forall (src : bytes) (funcs : list func) (fz : bool),
    (forall n pats subject s, alts_fuel pats <= n ->
       eval_case_match src funcs fz n subject pats s = pm_alts src pats subject s) /\
    (forall t items subject s,
       pm_alt src (EArr t items) subject s
       = match load (hp s) subject with
         | VArr bid off len =>
           if Nat.eqb len (length items)
           then pm_elems src items (arr_cells (hp s) bid off len) [] s
           else (Ok None, s)
         | _ => (Ok None, s)
         end) /\
    (forall acc s, pm_elems src [] [] acc s = (Ok (Some acc), s)) /\
    (forall q ps c cs acc s,
       pm_elems src (q :: ps) (c :: cs) acc s
       = match pm_alt src q c s with
         | (Ok (Some nb), s1) => pm_elems src ps cs (merge nb acc) s1
         | (Ok None, s1) => (Ok None, s1)
         | (other, s1) => (recast other, s1)
         end) /\
    (forall p rest subject s,
       pm_alts src (p :: rest) subject s
       = match pm_alt src p subject s with
         | (Ok (Some b), s1) => (Ok (Some b), s1)
         | (Ok None, s1) => pm_alts src rest subject s1
         | (other, s1) => (recast other, s1)
         end) /\
    (forall ts names cs acc s,
       map (get_string src) ts = map Some names -> length cs = length ts ->
       pm_elems src (map EId ts) cs acc s = (Ok (Some (merge (combine names cs) acc)), s)).
Proof.
  intros. splits.
  - intros. now apply ecm_agrees.
  - intros t items subject s. rewrite pm_alt_arr. unfold bind at 1, m_load.
    destruct (load (hp s) subject); try reflexivity.
    destruct (Nat.eqb len (length items)); reflexivity.
  - reflexivity.
  - intros q ps c cs acc s. cbn [pm_elems]. unfold bind.
    destruct (pm_alt src q c s) as [[[nb|]|e|x| | | ] s1]; reflexivity.
  - intros p rest subject s. cbn [pm_alts]. unfold bind.
    destruct (pm_alt src p subject s) as [[[b|]|e|x| | | ] s1]; reflexivity.
  - intros ts. induction ts as [|t ts IH]; intros names cs acc s Hn Hl.
    + destruct names; [|discriminate]. destruct cs; [|discriminate]. reflexivity.
    + destruct names as [|nm names]; [discriminate|]. destruct cs as [|c cs]; [discriminate|].
      cbn [map] in Hn. injection Hn as Hn1 Hn2. cbn [map pm_elems pm_alt].
      unfold bind at 1. unfold bind at 1. unfold tok_string. rewrite Hn1.
      cbn [combine]. apply IH; [exact Hn2|]. cbn in Hl. lia.
Qed.

Lemma C19_bindings_visible_in_body :
  forall (src : bytes) (funcs : list func) (fz : bool) f t b body s,
    (Z.ltb call_depth_limit (Z.of_nat (length (frames s))) = false ->
       case_result src funcs fz f t b body s
       = let '(r, s3) := body_result src funcs fz f body (match_state s b) in
         match pop_state s3 with Some s4 => (r, s4) | None => (Panic, s3) end) /\
    (Z.ltb call_depth_limit (Z.of_nat (length (frames s))) = true ->
       case_result src funcs fz f t b body s = rt_error src t s) /\
    (forall n pats subject s0, eval_case_match src funcs fz n subject pats s0 = (Ok (Some b), s) ->
       keys_sorted b) /\
    (keys_sorted b ->
       frames (match_state s b) = mkFrame (bs "<match>") b :: frames s /\
       hp (match_state s b) = hp s /\ rule_root (match_state s b) = rule_root s /\
       forall k, lookup_frames (frames (match_state s b)) k
                 = match assoc_get k b with
                   | Some a => Some a
                   | None => lookup_frames (frames s) k
                   end).
Proof.
  intros. splits.
  - intro H. unfold case_result. now rewrite H.
  - intro H. unfold case_result. now rewrite H.
  - intros n pats subject s0 H. eapply ecm_sorted; eauto.
  - intro Hs. unfold match_state. cbn [frames hp rule_root]. rewrite (merge_self b Hs).
    splits; reflexivity.
Qed.

Lemma C19_block_body_null :
  forall (src : bytes) (funcs : list func) (fz : bool) f body s2,
    is_block_body body = true ->
    body_result src funcs fz f body s2
    = match eval_stmt src funcs fz f body s2 with
      | (Ok _, s3) =>
        (Ok (next (hp s3)),
         mkSt (snd (alloc (hp s3) (VNil None))) (frames s3) (rule_root s3) (root s3) (retval s3) (io s3))
      | (other, s3) => (recast other, s3)
      end.
Proof.
  intros src funcs fz f body s2 Hb. unfold body_result.
  destruct body; try discriminate;
    match goal with |- context [eval_stmt src funcs fz f ?bd s2] =>
      destruct (eval_stmt src funcs fz f bd s2) as [[[]|e0|x| | | ] s3] end; reflexivity.
Qed.

Lemma C19_expr_body_value :
  forall (src : bytes) (funcs : list func) (fz : bool) f x s2,
    body_result src funcs fz f (SExpr x) s2 = eval_expr src funcs fz f x s2.
Proof.
  reflexivity.
Qed.

Lemma C19_match_frame_popped :
  forall (src : bytes) (funcs : list func) (fz : bool) f t b body s r s',
    Z.ltb call_depth_limit (Z.of_nat (length (frames s))) = false ->
    case_result src funcs fz f t b body s = (r, s') -> r <> Panic ->
    exists s3,
      body_result src funcs fz f body (match_state s b) = (r, s3) /\
      pop_state s3 = Some s' /\
      frames s' = tl (frames s3) /\ hp s' = hp s3 /\ io s' = io s3 /\
      rule_root s' = rule_root s3 /\ root s' = root s3 /\ retval s' = retval s3.
Proof.
  intros src funcs fz f t b body s r s' Hd H Hr. unfold case_result in H. rewrite Hd in H.
  destruct (body_result src funcs fz f body (match_state s b)) as [rb s3].
  destruct (pop_state s3) as [s4|] eqn:Hp.
  - injection H as <- <-. exists s3. split; [reflexivity|]. split; [exact Hp|].
    unfold pop_state in Hp. destruct (frames s3) as [|f1 [|f2 rest]] eqn:Hf; try discriminate.
    injection Hp as <-. cbn. splits; reflexivity.
  - injection H as <- _. now contradiction Hr.
Qed.
